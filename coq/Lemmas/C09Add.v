(* Lemmas/C09Add.v — POSet.add preserves the invariant (property C09, insertion step):
   trace_element (breadth-first walk through the cover caches) finds the lower/upper covers and
   the strict down/up-set of the new element, and the patching loop makes every cache entry
   correct for the extended element list. *)
From FCA Require Import Base.ListSet Spec.PosetSpec Model.Poset Lemmas.C09Base Lemmas.C09Query.

#[local] Arguments upd : simpl never.
#[local] Arguments updl : simpl never.
#[local] Arguments lk : simpl never.
#[local] Arguments lkl : simpl never.

Section Add.
  Variable E : Type.
  Variable leq : E -> E -> bool.
  Variable eqb : E -> E -> bool.
  Hypothesis PO : partial_order E leq eqb.

  Notation state := (state E).
  Notation lq := (lq E leq).
  Notation ldir := (ldir E leq).
  Notation strict_rel := (strict_rel E leq).
  Notation covers := (covers E leq).
  Notation sdir := (sdir E leq).
  Notation Sound := (Sound E leq).
  Notation ext := (ext E).
  Notation cover := (cover E leq).
  Notation closed := (closed E leq).

  (* ---------------------------------------------------------------- finite-order facts *)
  Lemma exists_cover_between l up x j :
    NoDup l -> sdir l up x j -> exists c, In c (covers l up x) /\ ldir l up c j = true.
  Proof.
    intros Hn [Hxj Hne].
    pose (L := filter (fun k => ldir l up x k && negb (Nat.eqb k x) && ldir l up k j) (seq 0 (length l))).
    assert (HjL : In j L).
    { apply filter_In. pose proof (ldir_range _ _ _ _ _ _ Hxj) as [_ Hj]. split; [apply In_seq0; exact Hj|].
      rewrite Hxj. apply Nat.eqb_neq in Hne. rewrite Hne. simpl. eapply ldir_refl; eauto. }
    destruct (exists_minimal_below E leq eqb PO l up L Hn j HjL) as [m [HmL [Hmj Hmin]]].
    { apply ldir_range in Hxj. tauto. }
    exists m. split; [|exact Hmj].
    apply filter_In in HmL. destruct HmL as [_ Hm]. apply andb_true_iff in Hm. destruct Hm as [Hm Hmj'].
    apply andb_true_iff in Hm. destruct Hm as [Hxm Hmx]. apply negb_true_iff, Nat.eqb_neq in Hmx.
    apply In_covers. split; [apply In_strict_rel; auto|].
    intros k Hk Hmk. apply In_strict_rel in Hk. apply In_strict_rel in Hmk.
    destruct Hk as [Hxk Hkx]. destruct Hmk as [Hkm Hmk].
    apply (Hmin k); [|split; auto].
    apply filter_In. split; [apply In_seq0; apply ldir_range in Hxk; tauto|].
    rewrite Hxk. apply Nat.eqb_neq in Hkx. rewrite Hkx. simpl. eapply ldir_trans; eauto.
  Qed.

  Lemma reach_all l up (D V : nat -> Prop) :
    NoDup l ->
    (forall k j, D j -> ldir l up k j = true -> D k) ->
    (forall b, b < length l -> (forall k, ~ sdir l up k b) -> D b -> V b) ->
    (forall x y, V x -> In y (covers l up x) -> D y -> V y) ->
    forall j, j < length l -> D j -> V j.
  Proof.
    intros Hn Hcl Hext Hstep j Hj HD.
    destruct (exists_minimal_below E leq eqb PO l up (seq 0 (length l)) Hn j) as [m [Hm [Hmj Hmin]]];
      [apply In_seq0; exact Hj | exact Hj|].
    assert (Vm : V m).
    { apply Hext; [apply In_seq0 in Hm; exact Hm | | eapply Hcl; eauto].
      intros k Hk. apply (Hmin k); [|exact Hk]. destruct Hk as [Hk _]. apply ldir_range in Hk.
      apply In_seq0. tauto. }
    set (P := fun x k => ldir l up x k && negb (Nat.eqb k x) && ldir l up k j).
    assert (G : forall cnt x, V x -> ldir l up x j = true ->
                length (filter (P x) (seq 0 (length l))) < cnt -> V j).
    { induction cnt as [|cnt IH]; intros x Vx Hxj Hc; [lia|].
      destruct (Nat.eq_dec j x) as [-> | Hne]; [exact Vx|].
      destruct (exists_cover_between l up x j Hn (conj Hxj Hne)) as [c [Hc1 Hc2]].
      apply (IH c); [eapply Hstep; eauto; eapply Hcl; eauto | exact Hc2|].
      assert (Hxc : sdir l up x c) by (apply In_covers in Hc1; destruct Hc1 as [H _]; apply In_strict_rel in H; exact H).
      assert (length (filter (P c) (seq 0 (length l))) < length (filter (P x) (seq 0 (length l)))); [|lia].
      apply (filter_length_lt (P c) (P x) _ c).
      - intros k _ Hk. unfold P in *. apply andb_true_iff in Hk. destruct Hk as [Hk Hkj].
        apply andb_true_iff in Hk. destruct Hk as [Hck Hkc]. apply negb_true_iff, Nat.eqb_neq in Hkc.
        destruct (sdir_trans E leq eqb PO l up x c k Hn Hxc (conj Hck Hkc)) as [H1 H2].
        rewrite H1, Hkj. apply Nat.eqb_neq in H2. rewrite H2. reflexivity.
      - apply In_seq0. destruct Hxc as [H _]. apply ldir_range in H. tauto.
      - unfold P. destruct Hxc as [H1 H2]. rewrite H1, Hc2. apply Nat.eqb_neq in H2. rewrite H2. reflexivity.
      - unfold P. rewrite Nat.eqb_refl. simpl. rewrite andb_false_r. reflexivity. }
    apply (G (S (length l)) m Vm Hmj).
    pose proof (filter_length_mono (P m) (fun _ => true) (seq 0 (length l)) (fun _ _ _ => eq_refl)) as H.
    assert (length (filter (fun _ : nat => true) (seq 0 (length l))) = length l) as H'.
    { rewrite <- (seq_length (length l) 0) at 2. generalize (seq 0 (length l)). clear.
      intros l0. induction l0; simpl; congruence. }
    lia.
  Qed.

  Variable fut : list E.

  (* ---------------------------------------------------------------- the breadth-first walk *)
  Section Bfs.
    Variable s0 : state.
    Variable mv : bool.
    Variable cmp : nat -> bool.
    Variable start : list nat.
    Let l := els s0.
    Let D := fun j => j < length l /\ cmp j = true.

    Record BInv (s : state) (todo traced final : list nat) : Prop := {
      bi_nd_todo : NoDup todo;
      bi_nd_tr : NoDup traced;
      bi_nd_fin : NoDup final;
      bi_todo_D : forall x, In x todo -> D x;
      bi_tr_D : forall x, In x traced -> D x;
      bi_disj : forall x, In x todo -> ~ In x traced;
      bi_start : forall x, In x start -> In x traced \/ In x todo;
      bi_closed : forall x y, In x traced -> In y (covers l mv x) -> D y -> In y traced \/ In y todo;
      bi_final : forall x, In x final <-> In x traced /\ forall y, In y (covers l mv x) -> ~ D y;
      bi_cached : use_cache s0 = true ->
                  forall x, In x traced -> exists Y, lk (cover_cache E mv s) x = Some Y
    }.

    Lemma covers_range y x : In y (covers l mv x) -> y < length l.
    Proof.
      intros H. apply In_covers in H. destruct H as [H _]. apply In_strict_rel in H.
      destruct H as [H _]. apply ldir_range in H. tauto.
    Qed.

    Lemma NoDup_bounded_length (L : list nat) n : NoDup L -> (forall x, In x L -> x < n) -> length L <= n.
    Proof.
      intros Hn Hb. rewrite <- (seq_length n 0). apply NoDup_incl_length; [exact Hn|].
      intros x Hx. apply In_seq0. apply Hb. exact Hx.
    Qed.

    Lemma bfs_ok : forall fuel todo traced final s,
      Sound fut s -> ext s0 s -> BInv s todo traced final -> length l - length traced < fuel ->
      exists s' fin tr,
        bfs E fuel (cover mv) cmp s todo traced final = (s', Some (fin, tr)) /\
        Sound fut s' /\ ext s s' /\ BInv s' [] tr fin.
    Proof.
      induction fuel as [|f IH]; intros todo traced final s HS Hx HB Hf; [lia|].
      destruct todo as [|el rest].
      { exists s, final, traced. simpl. split; [reflexivity|]. split; [exact HS|].
        split; [apply ext_refl | exact HB]. }
      destruct HB as [B1 B2 B3 B4 B5 B6 B7 B8 B9 B10].
      assert (Hel : D el) by (apply B4; left; reflexivity).
      assert (Heln : ~ In el traced) by (apply B6; left; reflexivity).
      inversion B1 as [|? ? Helr Hrest]; subst.
      assert (Hels : el < size E s).
      { unfold size. rewrite (ext_els _ _ _ Hx). exact (proj1 Hel). }
      destruct (cover_ok_q E leq eqb PO fut mv s el HS Hels) as [A1 [A2 [A3 [A4 A5]]]].
      simpl. destruct (cover mv s el) as [s1 nx]. cbn [fst snd] in A1, A2, A3, A4, A5.
      rewrite (ext_els _ _ _ Hx) in A4. fold l in A4.
      set (traced' := add1 el traced).
      set (nxt := filter cmp nx).
      assert (Hx1 : ext s0 s1) by (eapply ext_trans; eauto).
      assert (Hnxt : forall y, In y nxt <-> In y (covers l mv el) /\ D y).
      { intros y. unfold nxt. rewrite filter_In, A4. unfold D. split.
        - intros [H1 H2]. split; [exact H1|]. split; [eapply covers_range; eauto | exact H2].
        - intros [H1 [_ H2]]. auto. }
      assert (Htr' : forall x, In x traced' <-> x = el \/ In x traced) by (intros x; apply In_add1).
      assert (Hnd' : NoDup traced') by (apply NoDup_add1; exact B2).
      assert (HtrD : forall x, In x traced' -> D x).
      { intros x Hxx. apply Htr' in Hxx. destruct Hxx as [-> | Hxx]; auto. }
      assert (Hlen : length l - length traced' < f).
      { assert (length traced' = S (length traced)).
        { unfold traced', add1. replace (mem el traced) with false.
          - rewrite app_length. simpl. lia.
          - symmetry. apply mem_false_iff. exact Heln. }
        pose proof (NoDup_bounded_length traced' (length l) Hnd' (fun x Hxx => proj1 (HtrD x Hxx))). lia. }
      assert (Hcached : use_cache s0 = true ->
                        forall x, In x traced' -> exists Y, lk (cover_cache E mv s1) x = Some Y).
      { intros Huc x Hxx. apply Htr' in Hxx. destruct Hxx as [-> | Hxx].
        - exists nx. apply A5. rewrite (ext_uc _ _ _ Hx). exact Huc.
        - destruct (B10 Huc x Hxx) as [Y HY]. exists Y. apply (ext_cover _ _ _ A2). exact HY. }
      assert (Hdisj : forall x, In x rest -> ~ In x traced').
      { intros x Hxr Hxt. apply Htr' in Hxt. destruct Hxt as [-> | Hxt]; [contradiction|].
        apply (B6 x); [right; exact Hxr | exact Hxt]. }
      assert (HNnd : NoDup nxt) by (apply NoDup_filter; exact A3).
      clearbody nxt. destruct nxt as [|y0 nxt0].
      - (* no comparable neighbour: el is final *)
        destruct (IH rest traced' (add1 el final) s1 A1 Hx1) as [s' [fin [tr [R1 [R2 [R3 R4]]]]]].
        + constructor; auto.
          * apply NoDup_add1. exact B3.
          * intros x Hxr. apply B4. right. exact Hxr.
          * intros x Hxs. destruct (B7 x Hxs) as [H | [<- | H]]; [left; apply Htr'; auto | left; apply Htr'; auto | auto].
          * intros x y Hxt Hy HDy. apply Htr' in Hxt. destruct Hxt as [-> | Hxt].
            -- exfalso. assert (In y []) as H0 by (apply Hnxt; auto). destruct H0.
            -- destruct (B8 x y Hxt Hy HDy) as [H | [<- | H]]; [left; apply Htr'; auto | left; apply Htr'; auto | auto].
          * intros x. rewrite In_add1, Htr', B9. split.
            -- intros [-> | [H1 H2]]; [|auto]. split; [auto|]. intros y Hy HDy.
               assert (In y []) as H0 by (apply Hnxt; auto). destruct H0.
            -- intros [[-> | H1] H2]; auto.
        + exact Hlen.
        + exists s', fin, tr. split; [exact R1|]. split; [exact R2|]. split; [eapply ext_trans; eauto | exact R4].
      - (* comparable neighbours join the work list *)
        set (N := y0 :: nxt0) in *.
        set (new := diff (diff N traced') rest).
        assert (Hnew : forall y, In y new <-> In y N /\ ~ In y traced' /\ ~ In y rest).
        { intros y. unfold new. rewrite !In_diff. tauto. }
        destruct (IH (rest ++ new) traced' final s1 A1 Hx1) as [s' [fin [tr [R1 [R2 [R3 R4]]]]]].
        + constructor; auto.
          * apply NoDup_app_intro; [exact Hrest | unfold new; apply NoDup_diff, NoDup_diff; exact HNnd|].
            intros x Hxr Hxn. apply Hnew in Hxn. tauto.
          * intros x Hxx. apply in_app_or in Hxx. destruct Hxx as [Hxx | Hxx].
            -- apply B4. right. exact Hxx.
            -- apply Hnew in Hxx. destruct Hxx as [Hxx _]. apply Hnxt in Hxx. tauto.
          * intros x Hxx. apply in_app_or in Hxx. destruct Hxx as [Hxx | Hxx]; [auto|].
            apply Hnew in Hxx. tauto.
          * intros x Hxs. destruct (B7 x Hxs) as [H | [<- | H]].
            -- left. apply Htr'. auto.
            -- left. apply Htr'. auto.
            -- right. apply in_or_app. auto.
          * intros x y Hxt Hy HDy. apply Htr' in Hxt. destruct Hxt as [-> | Hxt].
            -- assert (HyN : In y N) by (apply Hnxt; auto).
               destruct (in_dec Nat.eq_dec y traced') as [H1 | H1]; [left; exact H1|].
               right. apply in_or_app.
               destruct (in_dec Nat.eq_dec y rest) as [H2 | H2]; [left; exact H2|].
               right. apply Hnew. auto.
            -- destruct (B8 x y Hxt Hy HDy) as [H | [<- | H]].
               ++ left. apply Htr'. auto.
               ++ left. apply Htr'. auto.
               ++ right. apply in_or_app. auto.
          * intros x. rewrite B9, Htr'. split.
            -- intros [H1 H2]. auto.
            -- intros [[-> | H1] H2]; [|auto]. exfalso.
               assert (Hy0 : In y0 N) by (left; reflexivity). apply Hnxt in Hy0.
               destruct Hy0 as [Hy1 Hy2]. exact (H2 y0 Hy1 Hy2).
        + exact Hlen.
        + exists s', fin, tr. split; [exact R1|]. split; [exact R2|]. split; [eapply ext_trans; eauto | exact R4].
    Qed.
  End Bfs.

  (* ---------------------------------------------------------------- trace_element *)
  (* what self.tops / self.bottoms must deliver while the element list is [l0] *)
  Definition starts_ok (starts : bool -> state -> state * list nat) (l0 : list E) : Prop :=
    forall up s, Sound fut s -> els s = l0 ->
      Sound fut (fst (starts up s)) /\ ext s (fst (starts up s)) /\ NoDup (snd (starts up s)) /\
      forall x, In x (snd (starts up s)) <-> In x (extremes E leq l0 up).

  Lemma extremes_q_starts_ok l0 : starts_ok (extremes_q E leq) l0.
  Proof.
    intros up s HS Hx. destruct (extremes_q_ok E leq fut up s HS) as [A [B C]].
    split; [exact A|]. split; [exact B|]. rewrite C, Hx.
    split; [apply NoDup_filter, seq_NoDup | tauto].
  Qed.

  Definition cmp_new (l : list E) (mv : bool) (e : E) (j : nat) : bool :=
    match nth_error l j with
    | Some x => if mv then leq x e else leq e x
    | None => false
    end.

  Lemma cmp_new_closed l mv e k j :
    cmp_new l mv e j = true -> ldir l mv k j = true -> cmp_new l mv e k = true.
  Proof.
    unfold cmp_new. destruct mv; simpl; unfold PosetSpec.lq.
    - destruct (nth_error l j) as [xj|]; [|discriminate]. destruct (nth_error l k) as [xk|]; [|discriminate].
      intros H1 H2. eapply (po_trans _ _ _ PO); eauto.
    - destruct (nth_error l j) as [xj|]; [|discriminate]. destruct (nth_error l k) as [xk|]; [|discriminate].
      intros H1 H2. eapply (po_trans _ _ _ PO); eauto.
  Qed.

  Lemma In_extremes l up b :
    In b (extremes E leq l up) <-> b < length l /\ forall k, ~ sdir l (negb up) k b.
  Proof.
    unfold extremes, idxs. rewrite filter_In, In_seq0. split.
    - intros [Hb Hnil]. split; [exact Hb|]. intros k [Hk Hne].
      destruct (strict_rel l up b) as [|z zs] eqn:Hs; [|discriminate].
      assert (In k (strict_rel l up b)); [|rewrite Hs in H; destruct H].
      apply In_strict_rel. rewrite ldir_flip in Hk. auto.
    - intros [Hb Hmin]. split; [exact Hb|].
      destruct (strict_rel l up b) as [|z zs] eqn:Hs; [reflexivity|]. exfalso.
      assert (Hz : In z (strict_rel l up b)) by (rewrite Hs; left; reflexivity).
      apply In_strict_rel in Hz. destruct Hz as [Hz Hne]. apply (Hmin z). split; [|auto].
      rewrite ldir_flip. exact Hz.
  Qed.

  Lemma trace_ok starts s mv e :
    Sound fut s -> starts_ok starts (els s) ->
    exists s' fin tr,
      trace E leq starts mv s e = (s', Some (fin, tr)) /\ Sound fut s' /\ ext s s' /\
      NoDup fin /\ NoDup tr /\
      (forall x, In x tr <-> x < length (els s) /\ cmp_new (els s) mv e x = true) /\
      (forall x, In x fin <->
                 (x < length (els s) /\ cmp_new (els s) mv e x = true) /\
                 forall y, y < length (els s) -> cmp_new (els s) mv e y = true -> ~ sdir (els s) mv x y) /\
      (use_cache s = true -> forall x, In x tr -> exists Y, lk (cover_cache E mv s') x = Some Y).
  Proof.
    intros HS Hst. unfold trace. fold (cmp_new (els s) mv e).
    destruct (Hst (negb mv) s HS eq_refl) as [A1 [A2 [A3 A4]]].
    destruct (starts (negb mv) s) as [s1 st]. cbn [fst snd] in A1, A2, A3, A4.
    set (cmp := cmp_new (els s) mv e) in *.
    set (start := filter cmp st).
    destruct (bfs_ok s mv cmp start (S (size E s)) start [] [] s1 A1 A2) as [s' [fin [tr [R1 [R2 [R3 R4]]]]]].
    - constructor.
      + apply NoDup_filter. exact A3.
      + constructor.
      + constructor.
      + intros x Hxs. apply filter_In in Hxs. destruct Hxs as [Hxs Hc]. split; [|exact Hc].
        apply A4 in Hxs. apply In_extremes in Hxs. tauto.
      + intros x [].
      + intros x _ [].
      + intros x Hxs. right. exact Hxs.
      + intros x y [].
      + intros x. split; [intros [] | intros [[] _]].
      + intros _ x [].
    - unfold size. simpl. lia.
    - destruct R4 as [B1 B2 B3 B4 B5 B6 B7 B8 B9 B10].
      assert (Hn : NoDup (els s)) by (apply (snd_nodup _ _ _ _ HS)).
      assert (Htr : forall x, In x tr <-> x < length (els s) /\ cmp x = true).
      { intros x. split; [apply B5|]. intros [Hx1 Hx2].
        apply (reach_all (els s) mv (fun j => j < length (els s) /\ cmp j = true) (fun j => In j tr) Hn); auto.
        - intros k j [Hj1 Hj2] Hkj. split; [apply ldir_range in Hkj; tauto|].
          eapply cmp_new_closed; eauto.
        - intros b Hb Hmin [_ Hcb].
          destruct (B7 b) as [H | []]; [|exact H].
          apply filter_In. split; [|exact Hcb]. apply A4. apply In_extremes. split; [exact Hb|].
          rewrite Bool.negb_involutive. exact Hmin.
        - intros x0 y Hx0 Hy HDy. destruct (B8 x0 y Hx0 Hy HDy) as [H | []]. exact H. }
      exists s', fin, tr. split; [exact R1|]. split; [exact R2|]. split; [eapply ext_trans; eauto|].
      split; [exact B3|]. split; [exact B2|]. split; [exact Htr|]. split.
      + intros x. rewrite B9, Htr. split.
        * intros [Hx Hnc]. split; [exact Hx|]. intros y Hy Hcy Hxy.
          destruct (exists_cover_between (els s) mv x y Hn Hxy) as [c [Hc1 Hc2]].
          apply (Hnc c Hc1). split; [eapply covers_range; eauto | eapply cmp_new_closed; eauto].
        * intros [Hx Hmax]. split; [exact Hx|]. intros y Hy [Hy1 Hy2].
          apply (Hmax y Hy1 Hy2). apply In_covers in Hy. destruct Hy as [Hy _].
          apply In_strict_rel in Hy. exact Hy.
      + intros Huc x Hxt. apply B10; assumption.
  Qed.

  (* ---------------------------------------------------------------- the extended list *)
  Section Extended.
    Variable l : list E.
    Variable e : E.
    Hypothesis Hn : NoDup l.
    Hypothesis He : ~ In e l.
    Let n := length l.
    Let l' := l ++ [e].

    Lemma NoDup_ext : NoDup l'.
    Proof.
      apply NoDup_app_intro; [exact Hn | constructor; [simpl; tauto | constructor]|].
      intros x Hx [<- | []]. contradiction.
    Qed.

    Lemma nth_ext_old a : a < n -> nth_error l' a = nth_error l a.
    Proof. intros H. apply nth_error_app1. exact H. Qed.
    Lemma nth_ext_new : nth_error l' n = Some e.
    Proof. unfold l', n. rewrite nth_error_app2 by lia. rewrite Nat.sub_diag. reflexivity. Qed.
    Lemma length_ext : length l' = S n.
    Proof. unfold l', n. rewrite app_length. simpl. lia. Qed.

    Lemma lq_ext_old a b : a < n -> b < n -> lq l' a b = lq l a b.
    Proof. intros Ha Hb. unfold PosetSpec.lq. rewrite !nth_ext_old by assumption. reflexivity. Qed.
    Lemma ldir_ext_old up a b : a < n -> b < n -> ldir l' up a b = ldir l up a b.
    Proof. intros Ha Hb. destruct up; simpl; apply lq_ext_old; assumption. Qed.

    (* i "before" the new element in direction up *)
    Lemma ldir_ext_to_new up i : i < n -> ldir l' up i n = cmp_new l up e i.
    Proof.
      intros Hi. unfold cmp_new. destruct up; simpl; unfold PosetSpec.lq;
        rewrite nth_ext_new, nth_ext_old by exact Hi;
        destruct (nth_error l i) eqn:Hx; try reflexivity;
        apply nth_error_None in Hx; unfold n in Hi; lia.
    Qed.
    Lemma ldir_ext_from_new up j : j < n -> ldir l' up n j = cmp_new l (negb up) e j.
    Proof. intros Hj. rewrite <- ldir_ext_to_new by exact Hj. rewrite ldir_flip. reflexivity. Qed.

    Lemma ext_not_both up i : i < n -> ldir l' up i n = true -> ldir l' up n i = false.
    Proof.
      intros Hi H1. destruct (ldir l' up n i) eqn:H2; [|reflexivity]. exfalso.
      assert (i = n) by (apply (ldir_antisym E leq eqb PO l' up i n NoDup_ext H1 H2)). lia.
    Qed.

    Lemma In_strict_ext_old up i j :
      i < n ->
      (In j (strict_rel l' up i) <->
       In j (strict_rel l up i) \/ (j = n /\ cmp_new l up e i = true)).
    Proof.
      intros Hi. rewrite !In_strict_rel. split.
      - intros [H Hne]. pose proof (ldir_range _ _ _ _ _ _ H) as [_ Hj]. rewrite length_ext in Hj.
        destruct (Nat.eq_dec j n) as [-> | Hjn].
        + right. split; [reflexivity|]. rewrite <- ldir_ext_to_new by exact Hi. exact H.
        + left. rewrite <- ldir_ext_old by lia. auto.
      - intros [[H Hne] | [-> H]].
        + pose proof (ldir_range _ _ _ _ _ _ H) as [_ Hj]. fold n in Hj.
          rewrite ldir_ext_old by lia. auto.
        + rewrite ldir_ext_to_new by exact Hi. split; [exact H | lia].
    Qed.

    Lemma In_strict_ext_new up j :
      In j (strict_rel l' up n) <-> j < n /\ cmp_new l (negb up) e j = true.
    Proof.
      rewrite In_strict_rel. split.
      - intros [H Hne]. pose proof (ldir_range _ _ _ _ _ _ H) as [_ Hj]. rewrite length_ext in Hj.
        assert (Hj' : j < n) by lia. split; [exact Hj'|]. rewrite <- ldir_ext_from_new by exact Hj'. exact H.
      - intros [Hj H]. rewrite ldir_ext_from_new by exact Hj. split; [exact H | lia].
    Qed.

    Lemma strict_old_range up i j : In j (strict_rel l up i) -> j < n /\ i < n.
    Proof. intros H. apply In_strict_rel in H. destruct H as [H _]. apply ldir_range in H. unfold n. tauto. Qed.

    (* old members of the new strict sets *)
    Lemma In_strict_ext_lt up k j : k < n -> j < n -> (In j (strict_rel l' up k) <-> In j (strict_rel l up k)).
    Proof.
      intros Hk Hj. rewrite In_strict_ext_old by exact Hk. split; [intros [H | [-> _]]; [exact H | lia] | auto].
    Qed.

    Lemma covers_ext_new_cover up i j :
      i < n -> In n (covers l' up i) ->
      (In j (covers l' up i) <-> j = n \/ (In j (covers l up i) /\ ~ In j (strict_rel l' up n))).
    Proof.
      intros Hi Hnc. split.
      - intros Hj. destruct (Nat.eq_dec j n) as [-> | Hjn]; [left; reflexivity | right].
        apply In_covers in Hj. destruct Hj as [Hj1 Hj2].
        assert (Hjr : j < n).
        { apply In_strict_rel in Hj1. destruct Hj1 as [H _]. apply ldir_range in H. rewrite length_ext in H. lia. }
        split.
        + apply In_covers. split; [apply In_strict_ext_lt in Hj1; auto|].
          intros k Hk Hjk. pose proof (strict_old_range _ _ _ Hk) as [Hkr _].
          apply (Hj2 k); [apply In_strict_ext_lt; auto | apply In_strict_ext_lt; auto].
        + apply Hj2. apply In_covers in Hnc. tauto.
      - intros [-> | [Hj Hjn]]; [exact Hnc|].
        apply In_covers in Hj. destruct Hj as [Hj1 Hj2].
        pose proof (strict_old_range _ _ _ Hj1) as [Hjr _].
        apply In_covers. split; [apply In_strict_ext_lt; auto|].
        intros k Hk Hjk.
        assert (Hkr : k < S n).
        { apply In_strict_rel in Hk. destruct Hk as [H _]. apply ldir_range in H. rewrite length_ext in H. tauto. }
        destruct (Nat.eq_dec k n) as [-> | Hkn]; [contradiction|].
        apply (Hj2 k); [apply In_strict_ext_lt in Hk; auto; lia | apply In_strict_ext_lt in Hjk; auto; lia].
    Qed.

    Lemma covers_ext_same up i j :
      i < n -> ~ In n (covers l' up i) ->
      (In j (covers l' up i) <-> In j (covers l up i)).
    Proof.
      intros Hi Hnc. split.
      - intros Hj. assert (Hjn : j <> n) by (intros ->; contradiction).
        apply In_covers in Hj. destruct Hj as [Hj1 Hj2].
        assert (Hjr : j < n).
        { apply In_strict_rel in Hj1. destruct Hj1 as [H _]. apply ldir_range in H. rewrite length_ext in H. lia. }
        apply In_covers. split; [apply In_strict_ext_lt in Hj1; auto|].
        intros k Hk Hjk. pose proof (strict_old_range _ _ _ Hk) as [Hkr _].
        apply (Hj2 k); [apply In_strict_ext_lt; auto | apply In_strict_ext_lt; auto].
      - intros Hj. apply In_covers in Hj. destruct Hj as [Hj1 Hj2].
        pose proof (strict_old_range _ _ _ Hj1) as [Hjr _].
        apply In_covers. split; [apply In_strict_ext_lt; auto|].
        intros k Hk Hjk.
        assert (Hkr : k < S n).
        { apply In_strict_rel in Hk. destruct Hk as [H _]. apply ldir_range in H. rewrite length_ext in H. tauto. }
        destruct (Nat.eq_dec k n) as [-> | Hkn].
        + (* i < n(new) < j but the new element is not a cover of i: something old lies between *)
          apply Hnc. apply In_covers. split; [exact Hk|].
          intros k0 Hk0 Hnk0.
          assert (Hk0r : k0 < n).
          { apply In_strict_rel in Hnk0. destruct Hnk0 as [H Hne]. apply ldir_range in H.
            rewrite length_ext in H. lia. }
          apply (Hj2 k0); [apply In_strict_ext_lt in Hk0; auto|].
          apply In_strict_ext_lt; auto. apply In_strict_rel.
          apply In_strict_rel in Hnk0. apply In_strict_rel in Hjk.
          destruct (sdir_trans E leq eqb PO l' up k0 n j NoDup_ext Hnk0 Hjk) as [H1 H2]. auto.
        + apply (Hj2 k); [apply In_strict_ext_lt in Hk; auto; lia | apply In_strict_ext_lt in Hjk; auto; lia].
    Qed.

    Lemma covers_flip_new up i :
      i < n -> (In n (covers l' up i) <-> In i (covers l' (negb up) n)).
    Proof.
      intros Hi. rewrite !In_covers, !In_strict_rel. rewrite (ldir_flip E leq l' up n i).
      split; intros [[H1 H2] H3]; (split; [split; [exact H1 | lia]|]); intros k Hk Hx;
        apply In_strict_rel in Hk; apply In_strict_rel in Hx.
      - destruct Hk as [Hk1 Hk2]. destruct Hx as [Hx1 Hx2]. rewrite ldir_flip in Hk1, Hx1.
        apply (H3 k); apply In_strict_rel; auto.
      - destruct Hk as [Hk1 Hk2]. destruct Hx as [Hx1 Hx2].
        apply (H3 k); apply In_strict_rel; rewrite ldir_flip; auto.
    Qed.

    (* ---------------------------------------------------------------- the patching loop *)
    (* one branch of the loop body of POSet.add, for an old element that is before the new one
       in direction [up] (up = true: el_i in descendants of the new element) *)
    Definition patch (up : bool) (cov_opp clo_same : list nat) (s : state) (i : nat) : option state :=
      match lk (closed_cache E up s) i with
      | None => None
      | Some ai =>
          let s1 := set_closed E up s (upd i (union ai [n]) (closed_cache E up s)) in
          let s2 := set_leq E s1 (updl (n, i) (negb up) (updl (i, n) up (c_leq s1))) in
          if mem i cov_opp then
            match lk (cover_cache E up s2) i with
            | None => None
            | Some pi => Some (set_cover E up s2 (upd i (union [n] (diff pi clo_same)) (cover_cache E up s2)))
            end
          else Some s2
      end.

    Lemma add_patch_unfold ch desc par anc s i :
      add_patch E n ch desc par anc (Some s) i =
      if mem i desc then patch true ch anc s i
      else if mem i anc then patch false par desc s i
      else Some (set_leq E s (updl (n, i) false (updl (i, n) false (c_leq s)))).
    Proof. reflexivity. Qed.

    Definition patched (k i : nat) : Prop := i < k \/ ~ i < n.

    Definition clo_good (k : nat) (up : bool) (i : nat) (X : list nat) : Prop :=
      NoDup X /\
      (patched k i -> forall j, In j X <-> In j (strict_rel l' up i)) /\
      (~ patched k i -> forall j, In j X <-> In j (strict_rel l up i)).
    Definition cov_good (k : nat) (up : bool) (i : nat) (X : list nat) : Prop :=
      NoDup X /\
      (patched k i -> forall j, In j X <-> In j (covers l' up i)) /\
      (~ patched k i -> forall j, In j X <-> In j (covers l up i)).

    Record Mixed (k : nat) (s : state) : Prop := {
      mx_els : els s = l;
      mx_leq : forall a b r, In ((a, b), r) (c_leq s) -> a < S n /\ b < S n /\ r = lq l' a b;
      mx_closed : forall up i X, In (i, X) (closed_cache E up s) -> i < S n /\ clo_good k up i X;
      mx_cover : forall up i X, In (i, X) (cover_cache E up s) -> i < S n /\ cov_good k up i X;
      mx_dom : dom_ok E s
    }.

    Lemma patched_step k i : i <> k -> (patched (S k) i <-> patched k i).
    Proof. unfold patched. intros H. split; intros [H1 | H1]; auto; left; lia. Qed.

    Lemma clo_good_other k up i X : i <> k -> clo_good k up i X -> clo_good (S k) up i X.
    Proof.
      intros Hne [H1 [H2 H3]]. split; [exact H1|]. split; intros Hp.
      - apply H2. exact (proj1 (patched_step k i Hne) Hp).
      - apply H3. intros Hq. apply Hp. exact (proj2 (patched_step k i Hne) Hq).
    Qed.
    Lemma cov_good_other k up i X : i <> k -> cov_good k up i X -> cov_good (S k) up i X.
    Proof.
      intros Hne [H1 [H2 H3]]. split; [exact H1|]. split; intros Hp.
      - apply H2. exact (proj1 (patched_step k i Hne) Hp).
      - apply H3. intros Hq. apply Hp. exact (proj2 (patched_step k i Hne) Hq).
    Qed.

    Lemma clo_good_same k up X :
      k < n -> clo_good k up k X ->
      (forall j, In j (strict_rel l' up k) <-> In j (strict_rel l up k)) -> clo_good (S k) up k X.
    Proof.
      intros Hk [H1 [_ H3]] Heq. split; [exact H1|]. split.
      - intros _ j. rewrite Heq. apply H3. unfold patched. lia.
      - intros Hp. exfalso. apply Hp. left. lia.
    Qed.
    Lemma cov_good_same k up X :
      k < n -> cov_good k up k X ->
      (forall j, In j (covers l' up k) <-> In j (covers l up k)) -> cov_good (S k) up k X.
    Proof.
      intros Hk [H1 [_ H3]] Heq. split; [exact H1|]. split.
      - intros _ j. rewrite Heq. apply H3. unfold patched. lia.
      - intros Hp. exfalso. apply Hp. left. lia.
    Qed.

    Lemma Sound_Mixed0 s : Sound [e] s -> els s = l -> Mixed 0 s.
    Proof.
      intros [S1 S2 S3 S4 S5] Hl. rewrite Hl in *. constructor; [exact Hl | | | | exact S5].
      - intros a b r Hin. destruct (S2 a b r Hin) as [Ha [Hb [H1 H2]]]. fold l' in Ha, Hb, H2.
        rewrite length_ext in Ha, Hb. split; [exact Ha|]. split; [exact Hb|].
        destruct (lt_dec a n) as [Ha' | Ha']; [destruct (lt_dec b n) as [Hb' | Hb']|].
        + rewrite lq_ext_old by assumption. auto.
        + apply H2. unfold n in *. lia.
        + apply H2. unfold n in *. lia.
      - intros up i X Hin. destruct (S3 up i X Hin) as [Hi [H1 H2]]. fold l' in Hi, H2.
        rewrite length_ext in Hi. split; [exact Hi|].
        destruct (lt_dec i n) as [Hi' | Hi'].
        + destruct (H1 Hi') as [Hnd Hm]. split; [exact Hnd|]. split; [intros [Hp | Hp]; [lia | contradiction]|].
          intros _. exact Hm.
        + destruct (H2 Hi') as [Hnd Hm]. split; [exact Hnd|]. split; [intros _; exact Hm|].
          intros Hp. exfalso. apply Hp. right. exact Hi'.
      - intros up i X Hin. destruct (S4 up i X Hin) as [Hi [H1 H2]]. fold l' in Hi, H2.
        rewrite length_ext in Hi. split; [exact Hi|].
        destruct (lt_dec i n) as [Hi' | Hi'].
        + destruct (H1 Hi') as [Hnd Hm]. split; [exact Hnd|]. split; [intros [Hp | Hp]; [lia | contradiction]|].
          intros _. exact Hm.
        + destruct (H2 Hi') as [Hnd Hm]. split; [exact Hnd|]. split; [intros _; exact Hm|].
          intros Hp. exfalso. apply Hp. right. exact Hi'.
    Qed.

    Lemma Mixed_n_Sound s : Mixed n s -> Sound [] (set_els E s l').
    Proof.
      intros [M1 M2 M3 M4 M5]. constructor; cbn [els set_els c_leq]; try rewrite app_nil_r.
      - apply NoDup_ext.
      - intros a b r Hin. destruct (M2 a b r Hin) as [Ha [Hb Hr]]. rewrite app_nil_r, length_ext.
        split; [exact Ha|]. split; [exact Hb|]. split; [auto|]. intros Hc. exfalso. apply Hc. lia.
      - intros up i X Hin. assert (Hin' : In (i, X) (closed_cache E up s)) by (destruct up; exact Hin).
        destruct (M3 up i X Hin') as [Hi [Hnd [Hp _]]]. rewrite app_nil_r, length_ext.
        split; [exact Hi|]. split; [|intros Hc; exfalso; apply Hc; exact Hi].
        intros _. split; [exact Hnd|]. apply Hp. unfold patched. lia.
      - intros up i X Hin. assert (Hin' : In (i, X) (cover_cache E up s)) by (destruct up; exact Hin).
        destruct (M4 up i X Hin') as [Hi [Hnd [Hp _]]]. rewrite app_nil_r, length_ext.
        split; [exact Hi|]. split; [|intros Hc; exfalso; apply Hc; exact Hi].
        intros _. split; [exact Hnd|]. apply Hp. unfold patched. lia.
      - intros up i X H. apply (M5 up i X). destruct up; exact H.
    Qed.

    Lemma closed_cache_set_leq up s c : closed_cache E up (set_leq E s c) = closed_cache E up s.
    Proof. destruct up; reflexivity. Qed.
    Lemma cover_cache_set_leq up s c : cover_cache E up (set_leq E s c) = cover_cache E up s.
    Proof. destruct up; reflexivity. Qed.

    Lemma negb_neq up up' : Bool.eqb up up' = false -> up' = negb up.
    Proof. destruct up, up'; simpl; congruence. Qed.

    (* the strict sets of an old element on the side away from the new element do not change *)
    Lemma strict_ext_away up k :
      k < n -> ldir l' up k n = true ->
      forall j, In j (strict_rel l' (negb up) k) <-> In j (strict_rel l (negb up) k).
    Proof.
      intros Hk H j. rewrite In_strict_ext_old by exact Hk. split; [|auto].
      intros [Hj | [_ Hc]]; [exact Hj|]. exfalso.
      rewrite <- ldir_ext_to_new in Hc by exact Hk. rewrite ldir_flip in Hc.
      rewrite (ext_not_both up k Hk H) in Hc. discriminate.
    Qed.

    Lemma covers_ext_away up k :
      k < n -> ldir l' up k n = true ->
      forall j, In j (covers l' (negb up) k) <-> In j (covers l (negb up) k).
    Proof.
      intros Hk H j. apply covers_ext_same; [exact Hk|]. intros Hc.
      apply In_covers in Hc. destruct Hc as [Hc _]. apply (strict_ext_away up k Hk H) in Hc.
      apply strict_old_range in Hc. lia.
    Qed.

    Lemma patch_ok up cov_opp clo_same k s :
      Mixed k s -> k < n ->
      ldir l' up k n = true ->
      (forall j, In j cov_opp <-> In j (covers l' (negb up) n)) ->
      (forall j, In j clo_same <-> In j (strict_rel l' up n)) ->
      (exists ai, lk (closed_cache E up s) k = Some ai) ->
      (In k cov_opp -> exists pi, lk (cover_cache E up s) k = Some pi) ->
      exists s', patch up cov_opp clo_same s k = Some s' /\ Mixed (S k) s' /\
        use_cache s' = use_cache s /\
        (forall up' i, i <> k -> lk (closed_cache E up' s') i = lk (closed_cache E up' s) i) /\
        (forall up' i, i <> k -> lk (cover_cache E up' s') i = lk (cover_cache E up' s) i).
    Proof.
      intros [M1 M2 M3 M4 M5] Hk Hdir Hcov Hclo [ai Hai] Hpar.
      unfold patch. rewrite Hai.
      set (v1 := union ai [n]).
      set (s1 := set_closed E up s (upd k v1 (closed_cache E up s))).
      set (lq2 := updl (n, k) (negb up) (updl (k, n) up (c_leq s1))).
      set (s2 := set_leq E s1 lq2).
      (* facts about the old entry of k *)
      pose proof (lk_In _ _ _ Hai) as Hai_in.
      destruct (M3 up k ai Hai_in) as [_ [Hai_nd [_ Hai_m]]].
      assert (Hunp : ~ patched k k) by (unfold patched; lia).
      specialize (Hai_m Hunp).
      assert (Hv1 : clo_good (S k) up k v1).
      { split; [|split].
        - unfold v1. apply NoDup_union; [exact Hai_nd | constructor; [simpl; tauto | constructor]].
        - intros _ j. unfold v1. rewrite In_union, Hai_m, In_strict_ext_old by exact Hk.
          rewrite <- ldir_ext_to_new by exact Hk. rewrite Hdir. simpl. intuition.
        - intros Hp. exfalso. apply Hp. left. lia. }
      (* the leq table *)
      assert (Hleq : forall a b r, In ((a, b), r) lq2 -> a < S n /\ b < S n /\ r = lq l' a b).
      { intros a b r Hin. unfold lq2 in Hin. apply In_updl in Hin. destruct Hin as [Heq | [Hin _]].
        - injection Heq as -> -> ->. split; [lia|]. split; [lia|].
          pose proof (ext_not_both up k Hk Hdir) as Hno. destruct up; simpl in *; congruence.
        - apply In_updl in Hin. destruct Hin as [Heq | [Hin _]].
          + injection Heq as -> -> ->. split; [lia|]. split; [lia|].
            pose proof (ext_not_both up k Hk Hdir) as Hno. destruct up; simpl in *; congruence.
          + apply M2. unfold s1 in Hin. rewrite leq_set_closed in Hin. exact Hin. }
      (* closed caches of s1 (and of everything after) *)
      assert (Hclosed : forall up' i X, In (i, X) (closed_cache E up' s1) -> i < S n /\ clo_good (S k) up' i X).
      { intros up' i X Hin. unfold s1 in Hin. rewrite closed_cache_set_closed in Hin.
        destruct (Bool.eqb up up') eqn:Hu.
        - apply eqb_prop in Hu. subst up'. apply In_upd in Hin. destruct Hin as [Heq | [Hin Hne]].
          + injection Heq as -> ->. split; [lia | exact Hv1].
          + destruct (M3 up i X Hin) as [Hi Hg]. split; [exact Hi|]. apply clo_good_other; auto.
        - apply negb_neq in Hu. subst up'. destruct (M3 (negb up) i X Hin) as [Hi Hg]. split; [exact Hi|].
          destruct (Nat.eq_dec i k) as [-> | Hne]; [|apply clo_good_other; auto].
          apply clo_good_same; auto. apply strict_ext_away; auto. }
      assert (Hlk_closed : forall up' i, i <> k -> lk (closed_cache E up' s1) i = lk (closed_cache E up' s) i).
      { intros up' i Hne. unfold s1. rewrite closed_cache_set_closed.
        destruct (Bool.eqb up up') eqn:Hu; [|reflexivity].
        apply eqb_prop in Hu. subst up'. apply lk_upd_other. exact Hne. }
      assert (Hclosed_has : forall up' i, (exists Y, lk (closed_cache E up' s) i = Some Y) ->
                                          exists Y, lk (closed_cache E up' s1) i = Some Y).
      { intros up' i [Y HY]. unfold s1. rewrite closed_cache_set_closed.
        destruct (Bool.eqb up up') eqn:Hu; [|eauto].
        apply eqb_prop in Hu. subst up'. rewrite lk_upd. destruct (Nat.eqb i k); eauto. }
      (* cover entries other than the one possibly rewritten *)
      assert (Hcover_other : forall up' i X, In (i, X) (cover_cache E up' s) -> (up' = up -> i <> k \/ ~ In k cov_opp) ->
                                             i < S n /\ cov_good (S k) up' i X).
      { intros up' i X Hin Hcond. destruct (M4 up' i X Hin) as [Hi Hg]. split; [exact Hi|].
        destruct (Nat.eq_dec i k) as [-> | Hne]; [|apply cov_good_other; auto].
        apply cov_good_same; auto.
        destruct (Bool.eqb up up') eqn:Hu.
        - apply eqb_prop in Hu. subst up'. destruct (Hcond eq_refl) as [Hc | Hc]; [congruence|].
          intros j. apply covers_ext_same; [exact Hk|]. intros Hnc. apply Hc. apply Hcov.
          apply covers_flip_new; assumption.
        - apply negb_neq in Hu. subst up'. apply covers_ext_away; auto. }
      destruct (mem k cov_opp) eqn:Hmem.
      - (* the new element covers k: its cover entry is rewritten *)
        apply mem_In in Hmem. destruct (Hpar Hmem) as [pi Hpi].
        assert (Hpi2 : lk (cover_cache E up s2) k = Some pi).
        { unfold s2, s1. rewrite cover_cache_set_leq, cover_cache_set_closed. exact Hpi. }
        rewrite Hpi2.
        set (v2 := union [n] (diff pi clo_same)).
        pose proof (lk_In _ _ _ Hpi) as Hpi_in.
        destruct (M4 up k pi Hpi_in) as [_ [Hpi_nd [_ Hpi_m]]]. specialize (Hpi_m Hunp).
        assert (Hncov : In n (covers l' up k)) by (apply covers_flip_new; [exact Hk | apply Hcov; exact Hmem]).
        assert (Hv2 : cov_good (S k) up k v2).
        { split; [|split].
          - unfold v2. apply NoDup_union; [constructor; [simpl; tauto | constructor] | apply NoDup_diff; exact Hpi_nd].
          - intros _ j. unfold v2. rewrite In_union, In_diff, Hpi_m, Hclo, (covers_ext_new_cover up k j Hk Hncov).
            simpl. intuition.
          - intros Hp. exfalso. apply Hp. left. lia. }
        eexists. split; [reflexivity|]. split; [|split; [|split]].
        + constructor.
          * rewrite els_set_cover. unfold s2, s1. cbn [els set_leq]. rewrite els_set_closed. exact M1.
          * rewrite leq_set_cover. exact Hleq.
          * intros up' i X Hin. rewrite closed_cache_set_cover in Hin. unfold s2 in Hin.
            rewrite closed_cache_set_leq in Hin. apply Hclosed. exact Hin.
          * intros up' i X Hin. rewrite cover_cache_set_cover in Hin.
            destruct (Bool.eqb up up') eqn:Hu.
            -- apply eqb_prop in Hu. subst up'. apply In_upd in Hin. destruct Hin as [Heq | [Hin Hne]].
               ++ injection Heq as -> ->. split; [lia | exact Hv2].
               ++ unfold s2, s1 in Hin. rewrite cover_cache_set_leq, cover_cache_set_closed in Hin.
                  apply Hcover_other; [exact Hin | intros _; left; exact Hne].
            -- unfold s2, s1 in Hin. rewrite cover_cache_set_leq, cover_cache_set_closed in Hin.
               apply Hcover_other; [exact Hin|]. intros ->. rewrite eqb_reflx in Hu. discriminate.
          * intros up' i X. rewrite cover_cache_set_cover, closed_cache_set_cover. unfold s2.
            rewrite closed_cache_set_leq, cover_cache_set_leq. intros Hc.
            apply Hclosed_has.
            assert (Hex : exists X', lk (cover_cache E up' s) i = Some X').
            { destruct (Bool.eqb up up') eqn:Hu.
              - apply eqb_prop in Hu. subst up'. rewrite lk_upd in Hc.
                destruct (Nat.eqb i k) eqn:Hik.
                + apply Nat.eqb_eq in Hik. subst i. exists pi. exact Hpi.
                + unfold s2, s1 in Hc. rewrite ?cover_cache_set_leq, ?cover_cache_set_closed in Hc. eauto.
              - unfold s2, s1 in Hc. rewrite ?cover_cache_set_leq, ?cover_cache_set_closed in Hc. eauto. }
            destruct Hex as [X' HX']. exact (M5 up' i X' HX').
        + rewrite uc_set_cover. unfold s2, s1. cbn [use_cache set_leq]. apply uc_set_closed.
        + intros up' i Hne. rewrite closed_cache_set_cover. unfold s2. rewrite closed_cache_set_leq. auto.
        + intros up' i Hne. rewrite cover_cache_set_cover.
          destruct (Bool.eqb up up') eqn:Hu.
          * apply eqb_prop in Hu. subst up'. rewrite lk_upd_other by exact Hne.
            unfold s2, s1. rewrite cover_cache_set_leq, cover_cache_set_closed. reflexivity.
          * unfold s2, s1. rewrite cover_cache_set_leq, cover_cache_set_closed. reflexivity.
      - (* the new element is not a cover of k: the cover entries stay *)
        apply mem_false_iff in Hmem.
        exists s2. split; [reflexivity|]. split; [|split; [|split]].
        + constructor.
          * unfold s2, s1. cbn [els set_leq]. rewrite els_set_closed. exact M1.
          * exact Hleq.
          * intros up' i X Hin. unfold s2 in Hin. rewrite closed_cache_set_leq in Hin. apply Hclosed. exact Hin.
          * intros up' i X Hin. unfold s2, s1 in Hin. rewrite cover_cache_set_leq, cover_cache_set_closed in Hin.
            apply Hcover_other; [exact Hin | intros _; right; exact Hmem].
          * intros up' i X. unfold s2. rewrite closed_cache_set_leq, cover_cache_set_leq. intros Hc.
            apply Hclosed_has. unfold s1 in Hc. rewrite cover_cache_set_closed in Hc. exact (M5 up' i X Hc).
        + unfold s2, s1. cbn [use_cache set_leq]. apply uc_set_closed.
        + intros up' i Hne. unfold s2. rewrite closed_cache_set_leq. auto.
        + intros up' i Hne. unfold s2, s1. rewrite cover_cache_set_leq, cover_cache_set_closed. reflexivity.
    Qed.

    Lemma patch_incomp_ok k s :
      Mixed k s -> k < n -> ldir l' true k n = false -> ldir l' true n k = false ->
      let s' := set_leq E s (updl (n, k) false (updl (k, n) false (c_leq s))) in
      Mixed (S k) s'.
    Proof.
      intros [M1 M2 M3 M4 M5] Hk H1 H2 s'.
      assert (Hno : forall up, cmp_new l up e k = false).
      { intros up. rewrite <- ldir_ext_to_new by exact Hk. destruct up; simpl in *; [exact H1 | exact H2]. }
      assert (Hst : forall up j, In j (strict_rel l' up k) <-> In j (strict_rel l up k)).
      { intros up j. rewrite In_strict_ext_old by exact Hk. rewrite Hno. intuition discriminate. }
      assert (Hcv : forall up j, In j (covers l' up k) <-> In j (covers l up k)).
      { intros up j. apply covers_ext_same; [exact Hk|]. intros Hc. apply In_covers in Hc. destruct Hc as [Hc _].
        apply Hst in Hc. apply strict_old_range in Hc. lia. }
      constructor.
      - exact M1.
      - intros a b r Hin. unfold s' in Hin. cbn [c_leq set_leq] in Hin.
        apply In_updl in Hin. destruct Hin as [Heq | [Hin _]].
        + injection Heq as -> -> ->. split; [lia|]. split; [lia|]. simpl in H2. congruence.
        + apply In_updl in Hin. destruct Hin as [Heq | [Hin _]].
          * injection Heq as -> -> ->. split; [lia|]. split; [lia|]. simpl in H1. congruence.
          * apply M2. exact Hin.
      - intros up i X Hin. unfold s' in Hin. rewrite closed_cache_set_leq in Hin.
        destruct (M3 up i X Hin) as [Hi Hg]. split; [exact Hi|].
        destruct (Nat.eq_dec i k) as [-> | Hne]; [apply clo_good_same; auto | apply clo_good_other; auto].
      - intros up i X Hin. unfold s' in Hin. rewrite cover_cache_set_leq in Hin.
        destruct (M4 up i X Hin) as [Hi Hg]. split; [exact Hi|].
        destruct (Nat.eq_dec i k) as [-> | Hne]; [apply cov_good_same; auto | apply cov_good_other; auto].
      - intros up i X. unfold s'. rewrite closed_cache_set_leq, cover_cache_set_leq. apply M5.
    Qed.

    (* the caches the loop subscripts are there *)
    Definition Avail (ch desc par anc : list nat) (k : nat) (s : state) : Prop :=
      forall i, k <= i -> i < n ->
        (In i desc -> (exists Y, lk (closed_cache E true s) i = Some Y) /\
                      (In i ch -> exists Y, lk (cover_cache E true s) i = Some Y)) /\
        (In i anc -> (exists Y, lk (closed_cache E false s) i = Some Y) /\
                     (In i par -> exists Y, lk (cover_cache E false s) i = Some Y)).

    Lemma patch_loop_ok ch desc par anc :
      (forall j, In j ch <-> In j (covers l' false n)) ->
      (forall j, In j desc <-> In j (strict_rel l' false n)) ->
      (forall j, In j par <-> In j (covers l' true n)) ->
      (forall j, In j anc <-> In j (strict_rel l' true n)) ->
      forall m k s, k + m = n -> Mixed k s -> Avail ch desc par anc k s ->
        exists s', fold_left (add_patch E n ch desc par anc) (seq k m) (Some s) = Some s' /\
                   Mixed n s' /\ use_cache s' = use_cache s.
    Proof.
      intros Hch Hdesc Hpar Hanc. induction m as [|m IH]; intros k s Hkm HM HA.
      - simpl. exists s. replace n with k by lia. auto.
      - assert (Hk : k < n) by lia. cbn [seq fold_left]. rewrite add_patch_unfold.
        destruct (HA k (le_n k) Hk) as [HA1 HA2].
        destruct (mem k desc) eqn:Hd.
        + apply mem_In in Hd. destruct (HA1 Hd) as [Hc1 Hc2].
          assert (Hdir : ldir l' true k n = true).
          { apply Hdesc in Hd. apply In_strict_rel in Hd. destruct Hd as [Hd _]. exact Hd. }
          destruct (patch_ok true ch anc k s HM Hk Hdir Hch Hanc Hc1 Hc2) as [s' [P1 [P2 [P3 [P4 P5]]]]].
          rewrite P1. destruct (IH (S k) s') as [s'' [Q1 [Q2 Q3]]]; [lia | exact P2 | |].
          * intros i Hi1 Hi2. destruct (HA i) as [G1 G2]; [lia | exact Hi2|].
            rewrite !P4, !P5 by lia. auto.
          * exists s''. split; [exact Q1|]. split; [exact Q2 | congruence].
        + destruct (mem k anc) eqn:Ha.
          * apply mem_In in Ha. destruct (HA2 Ha) as [Hc1 Hc2].
            assert (Hdir : ldir l' false k n = true).
            { apply Hanc in Ha. apply In_strict_rel in Ha. destruct Ha as [Ha _]. exact Ha. }
            destruct (patch_ok false par desc k s HM Hk Hdir Hpar Hdesc Hc1 Hc2) as [s' [P1 [P2 [P3 [P4 P5]]]]].
            rewrite P1. destruct (IH (S k) s') as [s'' [Q1 [Q2 Q3]]]; [lia | exact P2 | |].
            -- intros i Hi1 Hi2. destruct (HA i) as [G1 G2]; [lia | exact Hi2|].
               rewrite !P4, !P5 by lia. auto.
            -- exists s''. split; [exact Q1|]. split; [exact Q2 | congruence].
          * apply mem_false_iff in Hd. apply mem_false_iff in Ha.
            assert (H1 : ldir l' true k n = false).
            { destruct (ldir l' true k n) eqn:H; [|reflexivity]. exfalso. apply Hd. apply Hdesc.
              apply In_strict_rel. simpl. split; [exact H | lia]. }
            assert (H2 : ldir l' true n k = false).
            { destruct (ldir l' true n k) eqn:H; [|reflexivity]. exfalso. apply Ha. apply Hanc.
              apply In_strict_rel. split; [exact H | lia]. }
            pose proof (patch_incomp_ok k s HM Hk H1 H2) as P2. cbv zeta in P2.
            destruct (IH (S k) (set_leq E s (updl (n, k) false (updl (k, n) false (c_leq s)))))
              as [s'' [Q1 [Q2 Q3]]]; [lia | exact P2 | |].
            -- intros i Hi1 Hi2. destruct (HA i) as [G1 G2]; [lia | exact Hi2|].
               rewrite !closed_cache_set_leq, !cover_cache_set_leq. auto.
            -- exists s''. split; [exact Q1|]. split; [exact Q2 | exact Q3].
    Qed.

    (* what trace_element returns, in terms of the extended list *)
    Lemma trace_sets mv (tr fin : list nat) :
      (forall x, In x tr <-> x < n /\ cmp_new l mv e x = true) ->
      (forall x, In x fin <->
                 (x < n /\ cmp_new l mv e x = true) /\
                 forall y, y < n -> cmp_new l mv e y = true -> ~ sdir l mv x y) ->
      (forall x, In x tr <-> In x (strict_rel l' (negb mv) n)) /\
      (forall x, In x fin <-> In x (covers l' (negb mv) n)).
    Proof.
      intros Htr Hfin.
      assert (Hs : forall x, In x (strict_rel l' (negb mv) n) <-> x < n /\ cmp_new l mv e x = true).
      { intros x. rewrite In_strict_ext_new, Bool.negb_involutive. reflexivity. }
      split; [intros x; rewrite Htr, Hs; reflexivity|].
      intros x. rewrite Hfin, In_covers, Hs. split.
      - intros [Hx Hmax]. split; [exact Hx|]. intros k Hk Hxk. apply Hs in Hk. destruct Hk as [Hk1 Hk2].
        apply (Hmax k Hk1 Hk2). apply In_strict_ext_lt in Hxk; [|exact Hk1 | tauto].
        apply In_strict_rel in Hxk. rewrite ldir_flip in Hxk. destruct Hxk as [H1 H2]. split; auto.
      - intros [Hx Hmin]. split; [exact Hx|]. intros y Hy Hcy [H1 H2].
        apply (Hmin y); [apply Hs; auto|]. apply In_strict_ext_lt; [exact Hy | tauto|].
        apply In_strict_rel. rewrite ldir_flip. auto.
    Qed.

    Lemma Sound_set_leq_new s :
      Sound [e] s -> els s = l -> Sound [e] (set_leq E s (updl (n, n) true (c_leq s))).
    Proof.
      intros [S1 S2 S3 S4 S5] Hl. constructor; cbn [els set_leq c_leq].
      - exact S1.
      - intros a b r Hin. apply In_updl in Hin. destruct Hin as [Heq | [Hin _]]; [|apply S2; exact Hin].
        injection Heq as -> -> ->. rewrite Hl. fold l'. rewrite length_ext.
        split; [lia|]. split; [lia|]. split; [intros; lia|]. intros _.
        unfold PosetSpec.lq. rewrite nth_ext_new. symmetry. apply (po_refl _ _ _ PO).
      - intros up. specialize (S3 up). destruct up; exact S3.
      - intros up. specialize (S4 up). destruct up; exact S4.
      - intros up i X. specialize (S5 up i X). destruct up; exact S5.
    Qed.

    Lemma Sound_set_new up s X Y :
      Sound [e] s -> els s = l ->
      NoDup X -> (forall j, In j X <-> In j (covers l' up n)) ->
      NoDup Y -> (forall j, In j Y <-> In j (strict_rel l' up n)) ->
      Sound [e] (set_closed E up (set_cover E up s (upd n X (cover_cache E up s)))
                            (upd n Y (closed_cache E up s))).
    Proof.
      intros [S1 S2 S3 S4 S5] Hl HX1 HX2 HY1 HY2. constructor.
      - rewrite els_set_closed, els_set_cover. exact S1.
      - rewrite els_set_closed, els_set_cover, leq_set_closed, leq_set_cover. exact S2.
      - intros up'. rewrite els_set_closed, els_set_cover, closed_cache_set_closed.
        destruct (Bool.eqb up up') eqn:Hu.
        + apply eqb_prop in Hu. subst up'. intros i Z Hin. apply In_upd in Hin.
          destruct Hin as [Heq | [Hin _]]; [|apply (S3 up); exact Hin].
          injection Heq as -> ->. rewrite Hl. fold l'. rewrite length_ext.
          split; [lia|]. split; [intros; lia|]. intros _. auto.
        + rewrite closed_cache_set_cover. apply S3.
      - intros up'. rewrite els_set_closed, els_set_cover, cover_cache_set_closed, cover_cache_set_cover.
        destruct (Bool.eqb up up') eqn:Hu; [|apply S4].
        apply eqb_prop in Hu. subst up'. intros i Z Hin. apply In_upd in Hin.
        destruct Hin as [Heq | [Hin _]]; [|apply (S4 up); exact Hin].
        injection Heq as -> ->. rewrite Hl. fold l'. rewrite length_ext.
        split; [lia|]. split; [intros; lia|]. intros _. auto.
      - intros up' i Z. rewrite cover_cache_set_closed, cover_cache_set_cover, closed_cache_set_closed,
          closed_cache_set_cover.
        destruct (Bool.eqb up up') eqn:Hu; [|apply S5].
        apply eqb_prop in Hu. subst up'. rewrite !lk_upd.
        destruct (Nat.eqb i n); [eauto | apply S5].
    Qed.

    Lemma set_new_frame up s X Y :
      let s' := set_closed E up (set_cover E up s (upd n X (cover_cache E up s)))
                           (upd n Y (closed_cache E up s)) in
      els s' = els s /\ use_cache s' = use_cache s /\
      (forall up' i, i <> n -> lk (closed_cache E up' s') i = lk (closed_cache E up' s) i) /\
      (forall up' i, i <> n -> lk (cover_cache E up' s') i = lk (cover_cache E up' s) i).
    Proof.
      cbv zeta. split; [rewrite els_set_closed, els_set_cover; reflexivity|].
      split; [rewrite uc_set_closed, uc_set_cover; reflexivity|]. split.
      - intros up' i Hne. rewrite closed_cache_set_closed.
        destruct (Bool.eqb up up') eqn:Hu.
        + apply eqb_prop in Hu. subst up'. apply lk_upd_other. exact Hne.
        + apply f_equal2; [|reflexivity]. apply closed_cache_set_cover.
      - intros up' i Hne. rewrite cover_cache_set_closed, cover_cache_set_cover.
        destruct (Bool.eqb up up') eqn:Hu; [|reflexivity].
        apply eqb_prop in Hu. subst up'. apply lk_upd_other. exact Hne.
    Qed.
  End Extended.
End Add.

(* ------------------------------------------------------------------ POSet.add *)
From FCA Require Import Lemmas.C09Del.

Section AddFinal.
  Variable E : Type.
  Variable leq : E -> E -> bool.
  Variable eqb : E -> E -> bool.
  Hypothesis PO : partial_order E leq eqb.

  Notation state := (state E).
  Notation Sound := (Sound E leq).
  Notation strict_rel := (strict_rel E leq).
  Notation covers := (covers E leq).

  Lemma Sound_weaken fut s : Sound [] s -> Sound fut s.
  Proof.
    intros [S1 S2 S3 S4 S5]. constructor; [exact S1 | | | | exact S5].
    - intros a b r Hin. destruct (S2 a b r Hin) as [Ha [Hb [H1 _]]]. rewrite app_nil_r in Ha, Hb.
      rewrite app_length. split; [lia|]. split; [lia|]. split; [exact H1|]. intros Hc. exfalso. apply Hc. auto.
    - intros up i X Hin. destruct (S3 up i X Hin) as [Hi [H1 _]]. rewrite app_nil_r in Hi.
      rewrite app_length. split; [lia|]. split; [exact H1|]. intros Hc. contradiction.
    - intros up i X Hin. destruct (S4 up i X Hin) as [Hi [H1 _]]. rewrite app_nil_r in Hi.
      rewrite app_length. split; [lia|]. split; [exact H1|]. intros Hc. contradiction.
  Qed.

  Lemma memE_false e l : memE E eqb e l = false -> ~ In e l.
  Proof.
    intros H Hin. apply (memE_In E leq eqb PO) in Hin. congruence.
  Qed.

  Theorem add_with_ok starts s e fill_up :
    Sound [] s -> Tidy E s -> starts_ok E leq [e] starts (els s) ->
    let r := add_with E leq eqb starts s e fill_up in
    Sound [] (fst r) /\ Tidy E (fst r) /\
    els (fst r) = (if memE E eqb e (els s) then els s else els s ++ [e]) /\
    snd r = OEls (els (fst r)) /\ use_cache (fst r) = use_cache s.
  Proof.
    intros HS HT Hst. unfold add_with.
    destruct (memE E eqb e (els s)) eqn:Hmem; [cbn [fst snd]; auto|].
    apply memE_false in Hmem.
    pose proof (snd_nodup _ _ _ _ HS) as Hnd.
    set (l := els s) in *. set (n := length l).
    destruct (use_cache s) eqn:Huc.
    2:{ (* no cache: the list grows, the (empty) caches stay *)
      cbn [fst snd]. destruct (HT Huc) as [T1 [T2 [T3 [T4 T5]]]].
      split; [|split; [|split; [|split]]].
      - constructor.
        + cbn [els set_els]. apply NoDup_ext; assumption.
        + cbn [els set_els c_leq]. rewrite T1. intros ? ? ? [].
        + intros up. destruct up; cbn [closed_cache set_els c_anc c_desc]; [rewrite T3 | rewrite T2]; intros ? ? [].
        + intros up. destruct up; cbn [cover_cache set_els c_par c_ch]; [rewrite T5 | rewrite T4]; intros ? ? [].
        + intros up i X. destruct up; cbn [cover_cache set_els c_par c_ch]; [rewrite T5 | rewrite T4]; discriminate.
      - intros _. cbn [set_els c_leq c_desc c_anc c_ch c_par]. auto.
      - reflexivity.
      - reflexivity.
      - cbn [set_els use_cache]. exact Huc. }
    destruct fill_up.
    2:{ (* fill_up_cache = False: the four relation caches are reset, the leq table is kept *)
      cbn [fst snd]. split; [|split; [|split; [|split]]].
      - destruct HS as [S1 S2 S3 S4 S5]. constructor.
        + cbn [els set_els]. apply NoDup_ext; assumption.
        + cbn [els set_els c_leq set_par set_ch set_anc set_desc].
          intros a b r Hin. destruct (S2 a b r Hin) as [Ha [Hb [H1 _]]]. fold l in Ha, Hb, H1 |- *.
          rewrite app_nil_r in *. rewrite (length_ext E l e). fold n in Ha, Hb |- *.
          split; [lia|]. split; [lia|]. split; [|intros Hc; exfalso; apply Hc; lia].
          intros _ _. rewrite (lq_ext_old E leq l e a b Ha Hb). apply H1; assumption.
        + intros up. destruct up; intros ? ? [].
        + intros up. destruct up; intros ? ? [].
        + intros up i X. destruct up; discriminate.
      - intros Hc. cbn [set_els use_cache set_par set_ch set_anc set_desc] in Hc. congruence.
      - reflexivity.
      - reflexivity.
      - cbn [set_els use_cache set_par set_ch set_anc set_desc]. exact Huc. }
    (* fill_up_cache = True *)
    set (s0 := set_leq E s (updl (n, n) true (c_leq s))).
    assert (HS0 : Sound [e] s0).
    { apply (Sound_set_leq_new E leq eqb PO l e s); [apply Sound_weaken; exact HS | reflexivity]. }
    assert (Hl0 : els s0 = l) by reflexivity.
    assert (Huc0 : use_cache s0 = true) by exact Huc.
    (* trace_element(element, 'up'): children and descendants of the new element *)
    destruct (trace_ok E leq eqb PO [e] starts s0 true e HS0 Hst) as [s1 [ch [desc [R1 [R2 [R3 [R4 [R5 [R6 [R7 R8]]]]]]]]]].
    change (size E s) with n. fold s0. rewrite R1.
    rewrite Hl0 in R6, R7.
    destruct (trace_sets E leq l e true desc ch R6 R7) as [Hdesc Hch]. cbn [negb] in Hdesc, Hch.
    assert (Hl1 : els s1 = l) by (rewrite (ext_els _ _ _ R3); exact Hl0).
    set (s2 := set_desc E (set_ch E s1 (upd n ch (c_ch s1))) (upd n desc (c_desc s1))).
    assert (HS2 : Sound [e] s2) by (apply (Sound_set_new E leq l e false s1 ch desc); assumption).
    assert (F : els s2 = els s1 /\ use_cache s2 = use_cache s1 /\
                (forall up' i, i <> n -> lk (closed_cache E up' s2) i = lk (closed_cache E up' s1) i) /\
                (forall up' i, i <> n -> lk (cover_cache E up' s2) i = lk (cover_cache E up' s1) i))
      by exact (set_new_frame E l false s1 ch desc).
    destruct F as [F1 [F2 [F3 F4]]].
    assert (Hl2 : els s2 = l) by congruence.
    (* trace_element(element, 'down'): parents and ancestors *)
    assert (Hst2 : starts_ok E leq [e] starts (els s2)) by (rewrite Hl2; exact Hst).
    destruct (trace_ok E leq eqb PO [e] starts s2 false e HS2 Hst2) as [s3 [par [anc [Q1 [Q2 [Q3 [Q4 [Q5 [Q6 [Q7 Q8]]]]]]]]]].
    rewrite Q1. rewrite Hl2 in Q6, Q7.
    destruct (trace_sets E leq l e false anc par Q6 Q7) as [Hanc Hpar]. cbn [negb] in Hanc, Hpar.
    assert (Hl3 : els s3 = l) by (rewrite (ext_els _ _ _ Q3); exact Hl2).
    set (s4 := set_anc E (set_par E s3 (upd n par (c_par s3))) (upd n anc (c_anc s3))).
    assert (HS4 : Sound [e] s4) by (apply (Sound_set_new E leq l e true s3 par anc); assumption).
    assert (G : els s4 = els s3 /\ use_cache s4 = use_cache s3 /\
                (forall up' i, i <> n -> lk (closed_cache E up' s4) i = lk (closed_cache E up' s3) i) /\
                (forall up' i, i <> n -> lk (cover_cache E up' s4) i = lk (cover_cache E up' s3) i))
      by exact (set_new_frame E l true s3 par anc).
    destruct G as [G1 [G2 [G3 G4]]].
    assert (Hl4 : els s4 = l) by congruence.
    assert (Huc1 : use_cache s1 = true) by (rewrite (ext_uc _ _ _ R3); exact Huc0).
    assert (Huc2 : use_cache s2 = true) by congruence.
    assert (Huc3 : use_cache s3 = true) by (rewrite (ext_uc _ _ _ Q3); exact Huc2).
    assert (Huc4 : use_cache s4 = true) by congruence.
    (* the loop over the old elements *)
    assert (HM0 : Mixed E leq l e 0 s4) by (apply Sound_Mixed0; assumption).
    assert (HA : Avail E l ch desc par anc 0 s4).
    { intros i _ Hi. fold n in Hi. split.
      - intros Hid.
        destruct (R8 Huc0 i Hid) as [Y HY].
        destruct (snd_dom _ _ _ _ R2 true i Y HY) as [Z HZ].
        assert (Hne : i <> n) by lia.
        split; [exists Z | intros _; exists Y].
        + rewrite G3 by exact Hne. apply (ext_closed _ _ _ Q3). rewrite F3 by exact Hne. exact HZ.
        + rewrite G4 by exact Hne. apply (ext_cover _ _ _ Q3). rewrite F4 by exact Hne. exact HY.
      - intros Hia.
        destruct (Q8 Huc2 i Hia) as [Y HY].
        destruct (snd_dom _ _ _ _ Q2 false i Y HY) as [Z HZ].
        assert (Hne : i <> n) by lia.
        split; [exists Z | intros _; exists Y].
        + rewrite G3 by exact Hne. exact HZ.
        + rewrite G4 by exact Hne. exact HY. }
    destruct (patch_loop_ok E leq eqb PO l e Hnd Hmem ch desc par anc Hch Hdesc Hpar Hanc n 0 s4 eq_refl HM0 HA)
      as [s5 [P1 [P2 P3]]].
    fold n in P1. fold s4. rewrite P1. cbn [fst snd].
    assert (Hl5 : els s5 = l) by (destruct P2; assumption).
    rewrite Hl5.
    split; [|split; [|split; [|split]]].
    - apply (Mixed_n_Sound E leq l e Hnd Hmem). exact P2.
    - intros Hc. cbn [set_els use_cache] in Hc. congruence.
    - reflexivity.
    - reflexivity.
    - cbn [set_els use_cache]. congruence.
  Qed.
End AddFinal.

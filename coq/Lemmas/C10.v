(* Lemmas/C10.v — set algebra on posets (property C10): what the merged caches of
   POSet.__and__/__or__/__xor__/__sub__ (Model/PosetAlgebra.v) contain, when the result is a
   Sound state in the sense of Lemmas/C09Query.v, and the four concrete refutations of the
   unguarded claim (finding D15). *)
From FCA Require Import Base.ListSet Spec.PosetSpec Model.Poset Model.PosetAlgebra
  Lemmas.C09Base Lemmas.C09Query.

#[local] Arguments upd : simpl never.
#[local] Arguments updl : simpl never.
#[local] Arguments lk : simpl never.
#[local] Arguments lkl : simpl never.

(* ------------------------------------------------------------------ association lists again *)
Lemma In_lk_key (c : cache) i X : In (i, X) c -> exists X', lk c i = Some X'.
Proof.
  unfold lk. induction c as [|[k v] c IH]; simpl; [tauto|].
  intros [H | H].
  - injection H as -> ->. rewrite Nat.eqb_refl. eauto.
  - destruct (Nat.eqb i k); eauto.
Qed.

Lemma keys_In_lk (c : cache) i X : NoDup (map fst c) -> In (i, X) c -> lk c i = Some X.
Proof.
  unfold lk. induction c as [|[k v] c IH]; simpl; [tauto|].
  intros Hn. inversion Hn as [|? ? Hk Hc]; subst. intros [H | H].
  - injection H as -> ->. rewrite Nat.eqb_refl. reflexivity.
  - destruct (Nat.eqb i k) eqn:Hik; [|auto].
    apply Nat.eqb_eq in Hik. subst. exfalso. apply Hk.
    apply in_map_iff. exists (k, X). auto.
Qed.

Lemma In_keys_remove_key (c : cache) k x :
  In x (map fst (remove_key Nat.eqb k c)) -> In x (map fst c) /\ x <> k.
Proof.
  induction c as [|[k' v] c IH]; simpl; [tauto|].
  destruct (Nat.eqb k k') eqn:Hk.
  - intros H. destruct (IH H). tauto.
  - simpl. intros [<- | H].
    + split; [auto|]. intros ->. rewrite Nat.eqb_refl in Hk. discriminate.
    + destruct (IH H). tauto.
Qed.

Lemma keys_remove_key (c : cache) k : NoDup (map fst c) -> NoDup (map fst (remove_key Nat.eqb k c)).
Proof.
  induction c as [|[k' v] c IH]; simpl; [auto|].
  intros Hn. inversion Hn as [|? ? Hk Hc]; subst.
  destruct (Nat.eqb k k'); [auto|]. simpl. constructor; [|auto].
  intros H. apply In_keys_remove_key in H. tauto.
Qed.

Lemma keys_upd (c : cache) k v : NoDup (map fst c) -> NoDup (map fst (upd k v c)).
Proof.
  intros Hn. unfold upd, update. simpl. constructor; [|apply keys_remove_key; exact Hn].
  intros H. apply In_keys_remove_key in H. tauto.
Qed.

Lemma lk_nil k : lk [] k = None.
Proof. reflexivity. Qed.

Section C10.
  Variable E : Type.
  Variable leq eqb : E -> E -> bool.
  Hypothesis PO : partial_order E leq eqb.

  Notation state := (state E).
  Notation lq := (lq E leq).
  Notation ldir := (ldir E leq).
  Notation strict_rel := (strict_rel E leq).
  Notation covers := (covers E leq).
  Notation index_of := (index_of E eqb).
  Notation memE := (memE E eqb).
  Notation els_comb := (els_comb E eqb).
  Notation idx_map := (idx_map E eqb).
  Notation combine := (combine E eqb).
  Notation Sound0 := (Sound E leq []).

  Let memE_In := memE_In E leq eqb PO.

  Lemma memE_false e l : negb (memE e l) = true <-> ~ In e l.
  Proof.
    rewrite negb_true_iff. rewrite <- memE_In. destruct (memE e l); split; intros H; congruence.
  Qed.

  (* ---------------------------------------------------------------- 1. elements *)
  Definition els_comb_spec (o : setop) (a b : list E) (x : E) : Prop :=
    match o with
    | OpAnd => In x a /\ In x b
    | OpOr => In x a \/ In x b
    | OpXor => (In x a /\ ~ In x b) \/ (In x b /\ ~ In x a)
    | OpSub => In x a /\ ~ In x b
    end.

  Lemma In_els_comb o a b x : In x (els_comb o a b) <-> els_comb_spec o a b x.
  Proof.
    destruct o; unfold PosetAlgebra.els_comb, els_comb_spec;
      rewrite ?in_app_iff, ?filter_In; cbv beta; rewrite ?memE_In, ?memE_false; try tauto.
    assert (Hdec : In x a \/ ~ In x a).
    { destruct (memE x a) eqn:H; [left; apply memE_In; exact H |
                                  right; intros H'; apply memE_In in H'; congruence]. }
    tauto.
  Qed.

  Lemma NoDup_els_comb o a b : NoDup a -> NoDup b -> NoDup (els_comb o a b).
  Proof.
    intros Ha Hb. destruct o; unfold PosetAlgebra.els_comb.
    - apply NoDup_filter; exact Ha.
    - apply NoDup_app_intro; [exact Ha | apply NoDup_filter; exact Hb|].
      intros x Hx. rewrite filter_In, memE_false. tauto.
    - apply NoDup_app_intro; [apply NoDup_filter; exact Ha | apply NoDup_filter; exact Hb|].
      intros x. rewrite !filter_In, !memE_false. tauto.
    - apply NoDup_filter; exact Ha.
  Qed.

  Lemma els_combine o sa sb : els (combine o sa sb) = els_comb o (els sa) (els sb).
  Proof. unfold PosetAlgebra.combine. destruct (use_cache sa); reflexivity. Qed.

  Theorem els_comb_exact o sa sb :
    NoDup (els sa) -> NoDup (els sb) ->
    els (combine o sa sb) = els_comb o (els sa) (els sb) /\
    NoDup (els_comb o (els sa) (els sb)) /\
    forall x, In x (els_comb o (els sa) (els sb)) <->
              match o with
              | OpAnd => In x (els sa) /\ In x (els sb)
              | OpOr => In x (els sa) \/ In x (els sb)
              | OpXor => (In x (els sa) /\ ~ In x (els sb)) \/ (In x (els sb) /\ ~ In x (els sa))
              | OpSub => In x (els sa) /\ ~ In x (els sb)
              end.
  Proof.
    intros Ha Hb. split; [apply els_combine|]. split; [apply NoDup_els_comb; assumption|].
    intros x. apply In_els_comb.
  Qed.

  (* ---------------------------------------------------------------- the index map *)
  Section IdxMap.
    Variables src comb : list E.
    Hypothesis Nsrc : NoDup src.
    Hypothesis Ncomb : NoDup comb.
    Let f := idx_map src comb.

    Lemma idx_map_Some i j :
      f i = Some j -> exists e, nth_error src i = Some e /\ nth_error comb j = Some e.
    Proof.
      unfold f, PosetAlgebra.idx_map. destruct (nth_error src i) as [e|]; [|discriminate].
      intros H. exists e. split; [reflexivity|]. eapply index_of_Some; eauto.
    Qed.

    Lemma idx_map_intro i j e :
      nth_error src i = Some e -> nth_error comb j = Some e -> f i = Some j.
    Proof.
      intros Hi Hj. unfold f, PosetAlgebra.idx_map. rewrite Hi.
      eapply index_of_nth; eauto.
    Qed.

    Lemma idx_map_In i e : nth_error src i = Some e -> In e comb -> exists j, f i = Some j.
    Proof.
      intros Hi He. unfold f, PosetAlgebra.idx_map. rewrite Hi.
      eapply index_of_In; eauto.
    Qed.

    Lemma idx_map_range i j : f i = Some j -> i < length src /\ j < length comb.
    Proof.
      intros H. apply idx_map_Some in H. destruct H as [e [H1 H2]].
      split; apply nth_error_Some; congruence.
    Qed.

    Lemma idx_map_inj i i' j : f i = Some j -> f i' = Some j -> i = i'.
    Proof.
      intros H H'. apply idx_map_Some in H, H'. destruct H as [e [H1 H2]], H' as [e' [H1' H2']].
      assert (e = e') by congruence. subst e'.
      eapply (NoDup_nth_error_inj E src); eauto.
    Qed.

    Lemma idx_map_lq i i' x y : f i = Some x -> f i' = Some y -> lq comb x y = lq src i i'.
    Proof.
      intros H H'. apply idx_map_Some in H, H'. destruct H as [e [H1 H2]], H' as [e' [H1' H2']].
      unfold PosetSpec.lq. rewrite H1, H2, H1', H2'. reflexivity.
    Qed.

    Lemma idx_map_ldir up i i' x y : f i = Some x -> f i' = Some y -> ldir comb up x y = ldir src up i i'.
    Proof. intros H H'. destruct up; simpl; apply idx_map_lq; assumption. Qed.

    (* every index of comb whose element is in src is hit *)
    Lemma idx_map_surj j e : nth_error comb j = Some e -> In e src -> exists i, f i = Some j.
    Proof.
      intros Hj He. apply In_nth_error in He. destruct He as [i Hi]. exists i.
      eapply idx_map_intro; eauto.
    Qed.

    Lemma In_map_set (g : nat -> option nat) v j :
      In j (map_set g v) <-> exists i, In i v /\ g i = Some j.
    Proof.
      unfold map_set. rewrite in_flat_map. split; intros [i [Hi H]]; exists i; (split; [exact Hi|]).
      - destruct (g i); [destruct H as [<- | []]; reflexivity | destruct H].
      - rewrite H. left. reflexivity.
    Qed.

    Lemma NoDup_map_set v : NoDup v -> NoDup (map_set f v).
    Proof.
      induction 1 as [|i v Hi Hv IH]; [constructor|].
      change (map_set f (i :: v)) with ((match f i with Some j => [j] | None => [] end) ++ map_set f v).
      destruct (f i) as [j|] eqn:Hf; [|exact IH]. simpl. constructor; [|exact IH].
      intros Hj. apply In_map_set in Hj. destruct Hj as [i' [Hi' Hf']].
      assert (i = i') by (eapply idx_map_inj; eauto). subst. contradiction.
    Qed.

    (* a strict up/down set of the operand, mapped: the part of the strict up/down set of the
       result that lies in the operand *)
    Lemma closed_entry_map up i ck X :
      f i = Some ck -> (forall j, In j X <-> In j (strict_rel src up i)) ->
      forall j, In j (map_set f X) <->
                In j (strict_rel comb up ck) /\ exists e, nth_error comb j = Some e /\ In e src.
    Proof.
      intros Hi HX j. rewrite In_map_set. split.
      - intros [j' [Hj' Hfj]]. apply HX in Hj'. apply In_strict_rel in Hj'. destruct Hj' as [Hd Hne].
        split.
        + apply In_strict_rel. split; [rewrite (idx_map_ldir up i j' ck j); assumption|].
          intros ->. apply Hne. eapply idx_map_inj; eauto.
        + destruct (idx_map_Some _ _ Hfj) as [e [H1 H2]]. exists e. split; [exact H2|].
          eapply nth_error_In; eauto.
      - intros [Hj [e [He Hes]]]. destruct (idx_map_surj j e He Hes) as [j' Hfj].
        exists j'. split; [|exact Hfj]. apply HX. apply In_strict_rel in Hj. destruct Hj as [Hd Hne].
        apply In_strict_rel. split; [rewrite <- (idx_map_ldir up i j' ck j); assumption|].
        intros ->. apply Hne. congruence.
    Qed.

    (* covers of the operand, mapped, when the result is a sub-list of the operand and no cover
       of the key is dropped: the covers in the result *)
    Lemma cover_entry_map up i ck X :
      (forall e, In e comb -> In e src) ->
      f i = Some ck -> (forall j, In j X <-> In j (covers src up i)) ->
      (forall j, In j X -> f j <> None) ->
      forall j, In j (map_set f X) <-> In j (covers comb up ck).
    Proof.
      intros Hsub Hi HX Hkept j. rewrite In_map_set.
      assert (Hback : forall k, In k (strict_rel comb up ck) ->
                exists k', f k' = Some k /\ In k' (strict_rel src up i)).
      { intros k Hk. pose proof Hk as Hk0. apply In_strict_rel in Hk. destruct Hk as [Hd Hne].
        apply ldir_range in Hd. destruct Hd as [_ Hr].
        destruct (nth_error comb k) as [e|] eqn:He; [|apply nth_error_None in He; lia].
        destruct (idx_map_surj k e He (Hsub e (nth_error_In _ _ He))) as [k' Hk'].
        exists k'. split; [exact Hk'|].
        apply In_strict_rel in Hk0. destruct Hk0 as [Hd Hne'].
        apply In_strict_rel. split; [rewrite <- (idx_map_ldir up i k' ck k); assumption|].
        intros ->. apply Hne. congruence. }
      assert (Hfwd : forall x x' y y', f x = Some x' -> f y = Some y' ->
                In y (strict_rel src up x) <-> In y' (strict_rel comb up x')).
      { intros x x' y y' Hx Hy. rewrite !In_strict_rel, (idx_map_ldir up x y x' y' Hx Hy).
        split; intros [H1 H2]; (split; [exact H1|]); intros ->; apply H2;
          [eapply idx_map_inj; eauto | congruence]. }
      split.
      - intros [j' [Hj' Hfj]]. apply HX in Hj'. apply In_covers in Hj'. destruct Hj' as [Hs Hmin].
        apply In_covers. split; [apply (Hfwd i ck j' j Hi Hfj); exact Hs|].
        intros k Hk Hjk. destruct (Hback k Hk) as [k' [Hfk Hk']].
        apply (Hmin k' Hk'). apply (Hfwd k' k j' j Hfk Hfj). exact Hjk.
      - intros Hj. apply In_covers in Hj. destruct Hj as [Hs Hmin].
        destruct (Hback j Hs) as [j' [Hfj Hj']]. exists j'. split; [|exact Hfj].
        apply HX. apply In_covers. split; [exact Hj'|].
        intros z Hz Hjz.
        assert (Hzr : z < length src).
        { apply In_strict_rel in Hz. destruct Hz as [Hz _]. apply ldir_range in Hz. tauto. }
        destruct (exists_minimal_below E leq eqb PO src up (strict_rel src up i) Nsrc z Hz Hzr)
          as [m [Hm [Hmz Hmmin]]].
        assert (Hmc : In m (covers src up i)).
        { apply In_covers. split; [exact Hm|]. intros k Hk Hmk. apply In_strict_rel in Hmk.
          apply (Hmmin k Hk). exact Hmk. }
        assert (Hfm : f m <> None) by (apply Hkept; apply HX; exact Hmc).
        destruct (f m) as [m'|] eqn:Hfm'; [clear Hfm | congruence].
        apply (Hmin m').
        + apply (Hfwd i ck m m' Hi Hfm'). exact Hm.
        + apply (Hfwd m m' j' j Hfm' Hfj). apply In_strict_rel in Hjz. destruct Hjz as [Hzj Hne].
          apply In_strict_rel. split; [eapply ldir_trans; eauto|].
          intros ->. apply Hne. apply (ldir_antisym E leq eqb PO src up); assumption.
    Qed.
  End IdxMap.

  (* ---------------------------------------------------------------- the merge passes *)
  (* what one pass of merge_rel leaves under the key [ck], as a function of what was there *)
  Fixpoint gather (g : nat -> option nat) (ck : nat) (c : cache) (o : option (list nat))
    : option (list nat) :=
    match c with
    | [] => o
    | kv :: c' =>
        gather g ck c'
          (match g (fst kv) with
           | Some k0 => if Nat.eqb ck k0
                        then Some (match o with
                                   | Some old => union (map_set g (snd kv)) old
                                   | None => map_set g (snd kv) end)
                        else o
           | None => o
           end)
    end.

  Lemma lk_merge_rel g c : forall acc ck, lk (merge_rel g c acc) ck = gather g ck c (lk acc ck).
  Proof.
    induction c as [|kv c IH]; intros acc ck; [reflexivity|].
    unfold merge_rel in *. cbn [fold_left gather]. rewrite IH. f_equal.
    destruct (g (fst kv)) as [k0|]; [|reflexivity]. rewrite lk_upd.
    destruct (Nat.eqb ck k0) eqn:H; [|reflexivity]. apply Nat.eqb_eq in H. subst. reflexivity.
  Qed.

  Lemma keys_merge_rel g c : forall acc, NoDup (map fst acc) -> NoDup (map fst (merge_rel g c acc)).
  Proof.
    induction c as [|kv c IH]; intros acc H; [exact H|].
    unfold merge_rel in *. cbn [fold_left]. apply IH.
    destruct (g (fst kv)); [apply keys_upd|]; exact H.
  Qed.

  Definition hits (g : nat -> option nat) (c : cache) (ck : nat) : Prop :=
    exists i X, In (i, X) c /\ g i = Some ck.
  Definition inhit (g : nat -> option nat) (c : cache) (ck j : nat) : Prop :=
    exists i X, In (i, X) c /\ g i = Some ck /\ In j (map_set g X).

  Lemma gather_None g ck c : forall o, gather g ck c o = None <-> o = None /\ ~ hits g c ck.
  Proof.
    induction c as [|[i X] c IH]; intros o; cbn [gather fst snd].
    - split; [intros ->; split; [reflexivity | intros [i [X [[] _]]]] | tauto].
    - rewrite IH. destruct (g i) as [k0|] eqn:Hg; [destruct (Nat.eqb ck k0) eqn:Hk|].
      + apply Nat.eqb_eq in Hk. subst. split; [intros [H _]; discriminate|].
        intros [_ H]. exfalso. apply H. exists i, X. split; [left; reflexivity | exact Hg].
      + apply Nat.eqb_neq in Hk. split; intros [H1 H2]; (split; [exact H1|]); intros [i' [X' [Hin Hg']]].
        * destruct Hin as [Heq | Hin]; [injection Heq as <- <-; congruence | apply H2; exists i', X'; auto].
        * apply H2. exists i', X'. split; [right; exact Hin | exact Hg'].
      + split; intros [H1 H2]; (split; [exact H1|]); intros [i' [X' [Hin Hg']]].
        * destruct Hin as [Heq | Hin]; [injection Heq as <- <-; congruence | apply H2; exists i', X'; auto].
        * apply H2. exists i', X'. split; [right; exact Hin | exact Hg'].
  Qed.

  Lemma gather_Some g ck c : forall o V, gather g ck c o = Some V -> o <> None \/ hits g c ck.
  Proof.
    induction c as [|[i X] c IH]; intros o V H; cbn [gather fst snd] in H; [left; congruence|].
    apply IH in H. destruct H as [H | [i' [X' [Hin Hg']]]]; [|right; exists i', X'; split; [right|]; auto].
    destruct (g i) as [k0|] eqn:Hg; [destruct (Nat.eqb ck k0) eqn:Hk|]; auto.
    apply Nat.eqb_eq in Hk. subst. right. exists i, X. split; [left; reflexivity | exact Hg].
  Qed.

  Lemma gather_In g ck c : forall o V, gather g ck c o = Some V ->
    forall j, In j V <-> (exists old, o = Some old /\ In j old) \/ inhit g c ck j.
  Proof.
    induction c as [|[i X] c IH]; intros o V H j; cbn [gather fst snd] in H.
    - subst o. split; [intros Hj; left; eauto|].
      intros [[old [Heq Hj]] | [i [X [[] _]]]]. injection Heq as <-. exact Hj.
    - rewrite (IH _ _ H j). clear H IH.
      destruct (g i) as [k0|] eqn:Hg; [destruct (Nat.eqb ck k0) eqn:Hk|].
      + apply Nat.eqb_eq in Hk. subst k0. split.
        * intros [[old [Heq Hj]] | [i' [X' [Hin Hr]]]].
          -- injection Heq as <-. destruct o as [old0|].
             ++ apply In_union in Hj. destruct Hj as [Hj | Hj]; [|left; eauto].
                right. exists i, X. split; [left; reflexivity | auto].
             ++ right. exists i, X. split; [left; reflexivity | auto].
          -- right. exists i', X'. split; [right; exact Hin | exact Hr].
        * intros [[old [-> Hj]] | [i' [X' [[Heq | Hin] [Hg' Hj]]]]].
          -- left. eexists. split; [reflexivity|]. apply In_union. right. exact Hj.
          -- injection Heq as <- <-. left. eexists. split; [reflexivity|].
             destruct o; [apply In_union; left|]; exact Hj.
          -- right. exists i', X'. auto.
      + split; (intros [H | [i' [X' [Hin [Hg' Hj]]]]]; [left; exact H|]).
        * right. exists i', X'. split; [right; exact Hin | auto].
        * destruct Hin as [Heq | Hin]; [|right; exists i', X'; auto].
          injection Heq as <- <-. rewrite Hg in Hg'. injection Hg' as <-.
          rewrite Nat.eqb_refl in Hk. discriminate.
      + split; (intros [H | [i' [X' [Hin [Hg' Hj]]]]]; [left; exact H|]).
        * right. exists i', X'. split; [right; exact Hin | auto].
        * destruct Hin as [Heq | Hin]; [|right; exists i', X'; auto].
          injection Heq as <- <-. congruence.
  Qed.

  Lemma gather_NoDup g ck c : forall o V, gather g ck c o = Some V ->
    (forall old, o = Some old -> NoDup old) ->
    (forall i X, In (i, X) c -> g i = Some ck -> NoDup (map_set g X)) -> NoDup V.
  Proof.
    induction c as [|[i X] c IH]; intros o V H Ho Hc; cbn [gather fst snd] in H.
    - apply Ho. exact H.
    - apply (IH _ _ H).
      + intros old Hold.
        destruct (g i) as [k0|] eqn:Hg; [destruct (Nat.eqb ck k0) eqn:Hk|]; [|apply Ho; exact Hold ..].
        apply Nat.eqb_eq in Hk. subst. injection Hold as <-.
        assert (NoDup (map_set g X)) by (apply (Hc i X); [left; reflexivity | exact Hg]).
        destruct o; [apply NoDup_union; auto | auto].
      + intros i' X' Hin. apply Hc. right. exact Hin.
  Qed.

  (* the whole of _combine_caches for one relation cache *)
  Lemma combine_rel_lk fa fb ca cb ck V :
    lk (combine_rel fa fb ca cb) ck = Some V ->
    (hits fa ca ck \/ hits fb cb ck) /\
    (forall j, In j V <-> inhit fa ca ck j \/ inhit fb cb ck j) /\
    ((forall i X, In (i, X) ca -> fa i = Some ck -> NoDup (map_set fa X)) ->
     (forall i X, In (i, X) cb -> fb i = Some ck -> NoDup (map_set fb X)) -> NoDup V).
  Proof.
    unfold combine_rel. rewrite !lk_merge_rel, lk_nil. intros H.
    destruct (gather fa ck ca None) as [Va|] eqn:Ha.
    - split; [|split].
      + left. apply gather_Some in Ha. destruct Ha as [Ha | Ha]; [congruence | exact Ha].
      + intros j. rewrite (gather_In _ _ _ _ _ H j). split.
        * intros [[old [Heq Hj]] | Hj]; [|right; exact Hj]. injection Heq as <-.
          apply (gather_In _ _ _ _ _ Ha j) in Hj. destruct Hj as [[old [Heq _]] | Hj]; [discriminate | left; exact Hj].
        * intros [Hj | Hj]; [|right; exact Hj]. left. exists Va. split; [reflexivity|].
          apply (gather_In _ _ _ _ _ Ha j). right. exact Hj.
      + intros Hna Hnb. apply (gather_NoDup _ _ _ _ _ H); [|exact Hnb].
        intros old Heq. injection Heq as <-. apply (gather_NoDup _ _ _ _ _ Ha); [discriminate | exact Hna].
    - split; [|split].
      + right. apply gather_Some in H. destruct H as [H | H]; [congruence | exact H].
      + intros j. rewrite (gather_In _ _ _ _ _ H j). apply gather_None in Ha. destruct Ha as [_ Ha]. split.
        * intros [[old [Heq _]] | Hj]; [discriminate | right; exact Hj].
        * intros [[i [X [Hin [Hg _]]]] | Hj]; [exfalso; apply Ha; exists i, X; auto | right; exact Hj].
      + intros _ Hnb. apply (gather_NoDup _ _ _ _ _ H); [discriminate | exact Hnb].
  Qed.

  Lemma combine_rel_key fa fb ca cb ck :
    hits fa ca ck \/ hits fb cb ck -> exists V, lk (combine_rel fa fb ca cb) ck = Some V.
  Proof.
    unfold combine_rel. rewrite !lk_merge_rel, lk_nil. intros H.
    destruct (gather fb ck cb (gather fa ck ca None)) as [V|] eqn:Hg; [eauto|].
    apply gather_None in Hg. destruct Hg as [Hg Hb]. apply gather_None in Hg. destruct Hg as [_ Ha].
    tauto.
  Qed.

  Lemma combine_rel_In_lk fa fb ca cb ck V :
    In (ck, V) (combine_rel fa fb ca cb) -> lk (combine_rel fa fb ca cb) ck = Some V.
  Proof.
    apply keys_In_lk. unfold combine_rel. apply keys_merge_rel, keys_merge_rel. constructor.
  Qed.

  Lemma merge_leq_inv (P : (nat * nat) * bool -> Prop) g c : forall acc,
    (forall e, In e acc -> P e) ->
    (forall a b r x y, In ((a, b), r) c -> g a = Some x -> g b = Some y -> P ((x, y), r)) ->
    forall e, In e (merge_leq g c acc) -> P e.
  Proof.
    induction c as [|[[a b] r] c IH]; intros acc Hacc Hc e; [apply Hacc|].
    unfold merge_leq in *. cbn [fold_left fst snd]. apply IH.
    - intros e' He'. destruct (g a) as [x|] eqn:Ha; [destruct (g b) as [y|] eqn:Hb|]; [|apply Hacc; exact He' ..].
      apply In_updl in He'. destruct He' as [-> | [He' _]]; [|apply Hacc; exact He'].
      apply (Hc a b r x y); auto. left. reflexivity.
    - intros a' b' r' x y Hin. apply Hc. right. exact Hin.
  Qed.

  (* ---------------------------------------------------------------- the invariant, bnd = 0 *)
  Definition leq_ok0 (l : list E) (c : lcache) : Prop :=
    forall a b r, In ((a, b), r) c -> a < length l /\ b < length l /\ r = lq l a b.
  Definition closed_ok0 (l : list E) (up : bool) (c : cache) : Prop :=
    forall i X, In (i, X) c -> i < length l /\ NoDup X /\ forall j, In j X <-> In j (strict_rel l up i).
  Definition cover_ok0 (l : list E) (up : bool) (c : cache) : Prop :=
    forall i X, In (i, X) c -> i < length l /\ NoDup X /\ forall j, In j X <-> In j (covers l up i).

  Lemma leq_ok0_iff l c : leq_ok E leq [] l c <-> leq_ok0 l c.
  Proof.
    unfold leq_ok, leq_ok0. split; intros H a b r Hin; specialize (H a b r Hin).
    - rewrite app_nil_r in H. destruct H as [Ha [Hb [H1 _]]]. auto.
    - rewrite app_nil_r. destruct H as [Ha [Hb Hr]]. split; [exact Ha|]. split; [exact Hb|].
      split; [auto|]. intros Hn. exfalso. apply Hn. auto.
  Qed.

  Lemma closed_ok0_iff l up c : closed_ok E leq [] l up c <-> closed_ok0 l up c.
  Proof.
    unfold closed_ok, closed_ok0. split; intros H i X Hin; specialize (H i X Hin).
    - rewrite app_nil_r in H. destruct H as [Hi [H1 _]]. destruct (H1 Hi). auto.
    - rewrite app_nil_r. destruct H as [Hi [H1 H2]]. split; [exact Hi|]. split; [auto|].
      intros Hn. contradiction.
  Qed.

  Lemma cover_ok0_iff l up c : cover_ok E leq [] l up c <-> cover_ok0 l up c.
  Proof.
    unfold cover_ok, cover_ok0. split; intros H i X Hin; specialize (H i X Hin).
    - rewrite app_nil_r in H. destruct H as [Hi [H1 _]]. destruct (H1 Hi). auto.
    - rewrite app_nil_r. destruct H as [Hi [H1 H2]]. split; [exact Hi|]. split; [auto|].
      intros Hn. contradiction.
  Qed.

  (* ---------------------------------------------------------------- entries of one operand, mapped *)
  Section OnePass.
    Variables src comb : list E.
    Hypothesis Nsrc : NoDup src.
    Hypothesis Ncomb : NoDup comb.
    Let f := idx_map src comb.

    Lemma hits_range c ck : hits f c ck -> ck < length comb.
    Proof. intros [i [X [_ Hf]]]. apply (idx_map_range src comb i ck Hf). Qed.

    Lemma hits_has_key c i ck : f i = Some ck -> (hits f c ck <-> has_key Nat.eqb c i = true).
    Proof.
      intros Hf. unfold has_key. change (lookup Nat.eqb c i) with (lk c i). split.
      - intros [i' [X [Hin Hf']]]. assert (i' = i) by (apply (idx_map_inj src comb Nsrc i' i ck Hf' Hf)). subst.
        destruct (In_lk_key c i X Hin) as [X' ->]. reflexivity.
      - destruct (lk c i) as [X|] eqn:Hl; [|discriminate]. intros _.
        exists i, X. split; [apply lk_In; exact Hl | exact Hf].
    Qed.

    Lemma inhit_closed c up ck j :
      closed_ok0 src up c ->
      inhit f c ck j <->
      hits f c ck /\ In j (strict_rel comb up ck) /\ exists e, nth_error comb j = Some e /\ In e src.
    Proof.
      intros Hc. split.
      - intros [i [X [Hin [Hf Hj]]]]. split; [exists i, X; auto|].
        destruct (Hc i X Hin) as [_ [_ HX]].
        apply (closed_entry_map src comb Nsrc Ncomb up i ck X Hf HX j). exact Hj.
      - intros [[i [X [Hin Hf]]] Hj]. exists i, X. split; [exact Hin|]. split; [exact Hf|].
        destruct (Hc i X Hin) as [_ [_ HX]].
        apply (closed_entry_map src comb Nsrc Ncomb up i ck X Hf HX j). exact Hj.
    Qed.

    Lemma hit_NoDup_closed c up ck :
      closed_ok0 src up c -> forall i X, In (i, X) c -> f i = Some ck -> NoDup (map_set f X).
    Proof.
      intros Hc i X Hin _. destruct (Hc i X Hin) as [_ [HX _]]. apply (NoDup_map_set src comb Nsrc X HX).
    Qed.

    Lemma hit_NoDup_cover c up ck :
      cover_ok0 src up c -> forall i X, In (i, X) c -> f i = Some ck -> NoDup (map_set f X).
    Proof.
      intros Hc i X Hin _. destruct (Hc i X Hin) as [_ [HX _]]. apply (NoDup_map_set src comb Nsrc X HX).
    Qed.

    Lemma covers_kept_In kept c i X e :
      covers_kept E src kept c = true -> In (i, X) c -> nth_error src i = Some e -> kept e = true ->
      forall j, In j X -> exists x, nth_error src j = Some x /\ kept x = true.
    Proof.
      unfold covers_kept. rewrite forallb_forall. intros H Hin Hi Hk j Hj.
      specialize (H (i, X) Hin). cbn [fst snd] in H. rewrite Hi, Hk in H. cbn [negb orb] in H.
      rewrite forallb_forall in H. specialize (H j Hj).
      destruct (nth_error src j) as [x|]; [eauto | discriminate].
    Qed.

    Lemma inhit_cover c up ck j kept :
      cover_ok0 src up c -> (forall e, In e comb -> In e src) ->
      covers_kept E src kept c = true -> (forall x, In x src -> (kept x = true <-> In x comb)) ->
      inhit f c ck j <-> hits f c ck /\ In j (covers comb up ck).
    Proof.
      intros Hc Hsub Hk Hkept.
      assert (Hent : forall i X, In (i, X) c -> f i = Some ck ->
                forall j, In j (map_set f X) <-> In j (covers comb up ck)).
      { intros i X Hin Hf. destruct (Hc i X Hin) as [_ [_ HX]].
        apply (cover_entry_map src comb Nsrc Ncomb up i ck X Hsub Hf HX).
        intros j' Hj'. destruct (idx_map_Some src comb i ck Hf) as [e [He1 He2]].
        assert (Hke : kept e = true).
        { apply Hkept; [eapply nth_error_In; eauto | eapply nth_error_In; eauto]. }
        destruct (covers_kept_In kept c i X e Hk Hin He1 Hke j' Hj') as [x [Hx1 Hx2]].
        assert (Hxc : In x comb) by (apply Hkept; [eapply nth_error_In; eauto | exact Hx2]).
        destruct (idx_map_In src comb j' x Hx1 Hxc) as [j'' Hj'']. unfold f. congruence. }
      split.
      - intros [i [X [Hin [Hf Hj]]]]. split; [exists i, X; auto|]. apply (Hent i X Hin Hf j). exact Hj.
      - intros [[i [X [Hin Hf]]] Hj]. exists i, X. split; [exact Hin|]. split; [exact Hf|].
        apply (Hent i X Hin Hf j). exact Hj.
    Qed.

    Lemma idx_map_disjoint i : (forall e, In e comb -> ~ In e src) -> f i = None.
    Proof.
      intros Hd. destruct (f i) as [j|] eqn:Hf; [|reflexivity]. exfalso.
      destruct (idx_map_Some src comb i j Hf) as [e [H1 H2]].
      apply (Hd e); eapply nth_error_In; eauto.
    Qed.
  End OnePass.

  (* ---------------------------------------------------------------- both passes *)
  Section TwoPasses.
    Variables ea eb comb : list E.
    Hypothesis Na : NoDup ea.
    Hypothesis Nb : NoDup eb.
    Hypothesis Ncomb : NoDup comb.
    Let fa := idx_map ea comb.
    Let fb := idx_map eb comb.

    Lemma merged_leq_ok ca cb :
      leq_ok0 ea ca -> leq_ok0 eb cb -> leq_ok0 comb (combine_leq fa fb ca cb).
    Proof.
      intros Ha Hb x y r Hin.
      pose (P := fun e : (nat * nat) * bool =>
                   fst (fst e) < length comb /\ snd (fst e) < length comb /\
                   snd e = lq comb (fst (fst e)) (snd (fst e))).
      change (P ((x, y), r)). revert Hin. unfold combine_leq.
      apply merge_leq_inv; [apply merge_leq_inv; [intros e []|]|].
      - intros a b r' x' y' Hi Hx Hy. unfold P. cbn [fst snd].
        destruct (Ha a b r' Hi) as [_ [_ ->]].
        split; [apply (idx_map_range ea comb a x' Hx)|]. split; [apply (idx_map_range ea comb b y' Hy)|].
        symmetry. apply idx_map_lq; assumption.
      - intros a b r' x' y' Hi Hx Hy. unfold P. cbn [fst snd].
        destruct (Hb a b r' Hi) as [_ [_ ->]].
        split; [apply (idx_map_range eb comb a x' Hx)|]. split; [apply (idx_map_range eb comb b y' Hy)|].
        symmetry. apply idx_map_lq; assumption.
    Qed.

    (* a merged closed entry is exact as soon as every element of the result lies in an operand
       that contributed to the entry *)
    Lemma merged_closed_entry up ca cb ck V :
      closed_ok0 ea up ca -> closed_ok0 eb up cb ->
      In (ck, V) (combine_rel fa fb ca cb) ->
      (forall e, In e comb -> (hits fa ca ck /\ In e ea) \/ (hits fb cb ck /\ In e eb)) ->
      ck < length comb /\ NoDup V /\ forall j, In j V <-> In j (strict_rel comb up ck).
    Proof.
      intros Ha Hb Hin Hcond. unfold fa, fb in *. apply combine_rel_In_lk in Hin.
      destruct (combine_rel_lk _ _ _ _ _ _ Hin) as [Hh [HV Hnd]].
      split; [destruct Hh as [Hh | Hh]; eapply hits_range; eauto|].
      split; [apply Hnd; [eapply hit_NoDup_closed | eapply hit_NoDup_closed]; eauto|].
      intros j. rewrite HV.
      rewrite (inhit_closed ea comb Na Ncomb ca up ck j Ha), (inhit_closed eb comb Nb Ncomb cb up ck j Hb).
      split; [tauto|]. intros Hj.
      assert (Hr : j < length comb).
      { apply In_strict_rel in Hj. destruct Hj as [Hj _]. apply ldir_range in Hj. tauto. }
      destruct (nth_error comb j) as [e|] eqn:He; [|apply nth_error_None in He; lia].
      destruct (Hcond e (nth_error_In _ _ He)) as [[H1 H2] | [H1 H2]]; [left | right]; eauto.
    Qed.

    (* a merged cover entry is exact when, for every operand that contributed, the result is a
       sub-list of the operand and no listed cover was dropped *)
    Lemma merged_cover_entry up ca cb ck V ka kb :
      cover_ok0 ea up ca -> cover_ok0 eb up cb ->
      In (ck, V) (combine_rel fa fb ca cb) ->
      (hits fa ca ck -> (forall e, In e comb -> In e ea) /\ covers_kept E ea ka ca = true /\
                        (forall x, In x ea -> (ka x = true <-> In x comb))) ->
      (hits fb cb ck -> (forall e, In e comb -> In e eb) /\ covers_kept E eb kb cb = true /\
                        (forall x, In x eb -> (kb x = true <-> In x comb))) ->
      ck < length comb /\ NoDup V /\ forall j, In j V <-> In j (covers comb up ck).
    Proof.
      intros Ha Hb Hin Hca Hcb. unfold fa, fb in *. apply combine_rel_In_lk in Hin.
      destruct (combine_rel_lk _ _ _ _ _ _ Hin) as [Hh [HV Hnd]].
      split; [destruct Hh as [Hh | Hh]; eapply hits_range; eauto|].
      split; [apply Hnd; [eapply hit_NoDup_cover | eapply hit_NoDup_cover]; eauto|].
      intros j. rewrite HV. split.
      - intros [Hj | Hj].
        + assert (Hh' : hits fa ca ck) by (destruct Hj as [i [X [H1 [H2 _]]]]; exists i, X; auto).
          destruct (Hca Hh') as [C1 [C2 C3]].
          apply (inhit_cover ea comb Na Ncomb ca up ck j ka Ha C1 C2 C3) in Hj. tauto.
        + assert (Hh' : hits fb cb ck) by (destruct Hj as [i [X [H1 [H2 _]]]]; exists i, X; auto).
          destruct (Hcb Hh') as [C1 [C2 C3]].
          apply (inhit_cover eb comb Nb Ncomb cb up ck j kb Hb C1 C2 C3) in Hj. tauto.
      - intros Hj. destruct Hh as [Hh | Hh].
        + left. destruct (Hca Hh) as [C1 [C2 C3]].
          apply (inhit_cover ea comb Na Ncomb ca up ck j ka Ha C1 C2 C3). auto.
        + right. destruct (Hcb Hh) as [C1 [C2 C3]].
          apply (inhit_cover eb comb Nb Ncomb cb up ck j kb Hb C1 C2 C3). auto.
    Qed.
  End TwoPasses.

  (* ---------------------------------------------------------------- the combined state *)
  (* the second operand as the merge sees it: no caches at all when it was built cache-less *)
  Definition effb (b : state) : state := if use_cache b then b else init E (els b) false.

  Lemma els_effb b : els (effb b) = els b.
  Proof. unfold effb. destruct (use_cache b); reflexivity. Qed.

  Lemma Sound_effb b : Sound0 b -> Sound0 (effb b).
  Proof.
    intros H. unfold effb. destruct (use_cache b); [exact H|]. apply init_sound. apply (snd_nodup _ _ _ _ H).
  Qed.

  Definition post (o : setop) (a b : state) : cache -> cache :=
    match o with
    | OpOr | OpXor => drop_notcommon E eqb (filter (fun x => memE x (els b)) (els a))
                                     (els_comb o (els a) (els b))
    | _ => fun c => c
    end.

  Notation comb_ o a b := (els_comb o (els a) (els b)).
  Notation fa_ o a b := (idx_map (els a) (comb_ o a b)).
  Notation fb_ o a b := (idx_map (els b) (comb_ o a b)).

  Lemma combine_cached o a b :
    use_cache a = true ->
    combine o a b =
    mk_state (comb_ o a b)
      (combine_leq (fa_ o a b) (fb_ o a b) (c_leq a) (c_leq (effb b)))
      (post o a b (combine_rel (fa_ o a b) (fb_ o a b) (c_desc a) (c_desc (effb b))))
      (post o a b (combine_rel (fa_ o a b) (fb_ o a b) (c_anc a) (c_anc (effb b))))
      (post o a b (combine_rel (fa_ o a b) (fb_ o a b) (c_ch a) (c_ch (effb b))))
      (post o a b (combine_rel (fa_ o a b) (fb_ o a b) (c_par a) (c_par (effb b))))
      true.
  Proof.
    intros Ha. unfold PosetAlgebra.combine, effb, post. rewrite Ha.
    destruct (use_cache b); destruct o; reflexivity.
  Qed.

  Definition mclosed o a b up :=
    post o a b (combine_rel (fa_ o a b) (fb_ o a b) (closed_cache E up a) (closed_cache E up (effb b))).
  Definition mcover o a b up :=
    post o a b (combine_rel (fa_ o a b) (fb_ o a b) (cover_cache E up a) (cover_cache E up (effb b))).

  Lemma closed_cache_combine o a b up :
    use_cache a = true -> closed_cache E up (combine o a b) = mclosed o a b up.
  Proof. intros Ha. rewrite (combine_cached o a b Ha). destruct up; reflexivity. Qed.
  Lemma cover_cache_combine o a b up :
    use_cache a = true -> cover_cache E up (combine o a b) = mcover o a b up.
  Proof. intros Ha. rewrite (combine_cached o a b Ha). destruct up; reflexivity. Qed.

  (* ---------------------------------------------------------------- 2. the leq table *)
  Theorem leq_cache_sound o a b :
    Sound0 a -> Sound0 b ->
    leq_ok E leq [] (els (combine o a b)) (c_leq (combine o a b)).
  Proof.
    intros Sa Sb. destruct (use_cache a) eqn:Ha.
    - rewrite (combine_cached o a b Ha). cbn [els c_leq]. apply leq_ok0_iff.
      pose proof (snd_leq _ _ _ _ (Sound_effb b Sb)) as Lb. rewrite els_effb in Lb.
      apply merged_leq_ok; [apply leq_ok0_iff; apply (snd_leq _ _ _ _ Sa) | apply leq_ok0_iff; exact Lb].
    - unfold PosetAlgebra.combine. rewrite Ha. cbn [els c_leq init]. intros x y r [].
  Qed.

  (* ---------------------------------------------------------------- 3. cache-less first operand *)
  Theorem nocache_correct o a b :
    use_cache a = false -> NoDup (els a) -> NoDup (els b) -> Sound0 (combine o a b).
  Proof.
    intros Ha Na Nb. unfold PosetAlgebra.combine. rewrite Ha. apply init_sound.
    apply NoDup_els_comb; assumption.
  Qed.

  (* ---------------------------------------------------------------- assembling Sound *)
  Lemma Sound_combine_intro o a b :
    use_cache a = true -> Sound0 a -> Sound0 b ->
    (forall up, closed_ok0 (comb_ o a b) up (mclosed o a b up)) ->
    (forall up, cover_ok0 (comb_ o a b) up (mcover o a b up)) ->
    (forall up ck X, lk (mcover o a b up) ck = Some X -> exists Y, lk (mclosed o a b up) ck = Some Y) ->
    Sound0 (combine o a b).
  Proof.
    intros Ha Sa Sb Hcl Hcv Hd. constructor.
    - rewrite els_combine. apply NoDup_els_comb; [apply (snd_nodup _ _ _ _ Sa) | apply (snd_nodup _ _ _ _ Sb)].
    - apply leq_cache_sound; assumption.
    - intros up. rewrite els_combine, (closed_cache_combine o a b up Ha). apply closed_ok0_iff. apply Hcl.
    - intros up. rewrite els_combine, (cover_cache_combine o a b up Ha). apply cover_ok0_iff. apply Hcv.
    - intros up ck X. rewrite (cover_cache_combine o a b up Ha), (closed_cache_combine o a b up Ha). apply Hd.
  Qed.

  Lemma Sound_closed0 s up : Sound0 s -> closed_ok0 (els s) up (closed_cache E up s).
  Proof. intros H. apply closed_ok0_iff. apply (snd_closed _ _ _ _ H). Qed.
  Lemma Sound_cover0 s up : Sound0 s -> cover_ok0 (els s) up (cover_cache E up s).
  Proof. intros H. apply cover_ok0_iff. apply (snd_cover _ _ _ _ H). Qed.
  Lemma effb_closed0 b up : Sound0 b -> closed_ok0 (els b) up (closed_cache E up (effb b)).
  Proof. intros H. rewrite <- (els_effb b). apply Sound_closed0. apply Sound_effb. exact H. Qed.
  Lemma effb_cover0 b up : Sound0 b -> cover_ok0 (els b) up (cover_cache E up (effb b)).
  Proof. intros H. rewrite <- (els_effb b). apply Sound_cover0. apply Sound_effb. exact H. Qed.

  Lemma hits_dom s g up ck :
    dom_ok E s -> hits g (cover_cache E up s) ck -> hits g (closed_cache E up s) ck.
  Proof.
    intros Hd [i [X [Hin Hg]]]. destruct (In_lk_key _ _ _ Hin) as [X' HX'].
    destruct (Hd up i X' HX') as [Y HY]. exists i, Y. split; [apply lk_In; exact HY | exact Hg].
  Qed.

  Lemma merged_dom fa fb a b' up ck X :
    dom_ok E a -> dom_ok E b' ->
    lk (combine_rel fa fb (cover_cache E up a) (cover_cache E up b')) ck = Some X ->
    exists Y, lk (combine_rel fa fb (closed_cache E up a) (closed_cache E up b')) ck = Some Y.
  Proof.
    intros Da Db H. destruct (combine_rel_lk _ _ _ _ _ _ H) as [Hh _].
    apply combine_rel_key. destruct Hh as [Hh | Hh]; [left | right]; eapply hits_dom; eauto.
  Qed.

  Lemma drop_In ea eb comb (c : cache) ck V :
    In (ck, V) (drop_notcommon E eqb (filter (fun x => memE x eb) ea) comb c) ->
    In (ck, V) c /\ exists e, nth_error comb ck = Some e /\ In e ea /\ In e eb.
  Proof.
    unfold drop_notcommon. rewrite filter_In. cbn [fst]. intros [H1 H2]. split; [exact H1|].
    destruct (nth_error comb ck) as [e|]; [|discriminate]. exists e. split; [reflexivity|].
    apply memE_In in H2. apply filter_In in H2. destruct H2 as [H2 H3]. apply memE_In in H3. auto.
  Qed.

  (* ---------------------------------------------------------------- 4. symmetric difference *)
  Lemma xor_no_entries a b (c : cache) ck V : In (ck, V) (post OpXor a b c) -> False.
  Proof.
    unfold post. intros H. apply drop_In in H. destruct H as [_ [e [He [Ha Hb]]]].
    apply nth_error_In in He. apply In_els_comb in He. cbn [els_comb_spec] in He. tauto.
  Qed.

  Theorem xor_sound a b : Sound0 a -> Sound0 b -> Sound0 (combine OpXor a b).
  Proof.
    intros Sa Sb. destruct (use_cache a) eqn:Ha.
    - apply Sound_combine_intro; try assumption.
      + intros up ck V Hin. exfalso. eapply xor_no_entries; exact Hin.
      + intros up ck V Hin. exfalso. eapply xor_no_entries; exact Hin.
      + intros up ck X H. exfalso. apply lk_In in H. eapply xor_no_entries; exact H.
    - apply nocache_correct; [exact Ha | apply (snd_nodup _ _ _ _ Sa) | apply (snd_nodup _ _ _ _ Sb)].
  Qed.

  (* ---------------------------------------------------------------- 5. guarded correctness *)
  Lemma covers_kept_effb b kept up :
    covers_kept E (els b) kept (cover_cache E up b) = true ->
    covers_kept E (els b) kept (cover_cache E up (effb b)) = true.
  Proof. unfold effb. destruct (use_cache b); [auto|]. intros _. destruct up; reflexivity. Qed.

  Lemma G_and_up a b up :
    G_and E eqb a b = true ->
    covers_kept E (els a) (fun x => memE x (els b)) (cover_cache E up a) = true /\
    covers_kept E (els b) (fun x => memE x (els a)) (cover_cache E up b) = true.
  Proof.
    unfold G_and. rewrite !andb_true_iff. intros [[[H1 H2] H3] H4]. destruct up; auto.
  Qed.

  Theorem guarded_correct_and a b :
    Sound0 a -> Sound0 b -> G_and E eqb a b = true -> Sound0 (combine OpAnd a b).
  Proof.
    intros Sa Sb HG. destruct (use_cache a) eqn:Ha;
      [|apply nocache_correct; [exact Ha | apply (snd_nodup _ _ _ _ Sa) | apply (snd_nodup _ _ _ _ Sb)]].
    pose proof (snd_nodup _ _ _ _ Sa) as Na. pose proof (snd_nodup _ _ _ _ Sb) as Nb.
    pose proof (NoDup_els_comb OpAnd _ _ Na Nb) as Nc.
    assert (Hsub : forall e, In e (comb_ OpAnd a b) <-> In e (els a) /\ In e (els b))
      by (intros e; apply (In_els_comb OpAnd)).
    apply Sound_combine_intro; try assumption.
    - intros up ck V Hin. unfold mclosed, post in Hin.
      destruct (combine_rel_lk _ _ _ _ _ _ (combine_rel_In_lk _ _ _ _ _ _ Hin)) as [Hh _].
      apply (merged_closed_entry (els a) (els b) _ Na Nb Nc up _ _ ck V
               (Sound_closed0 a up Sa) (effb_closed0 b up Sb) Hin).
      intros e He. apply Hsub in He. destruct Hh; [left | right]; tauto.
    - intros up ck V Hin. unfold mcover, post in Hin.
      destruct (G_and_up a b up HG) as [Ga Gb]. apply covers_kept_effb in Gb.
      apply (merged_cover_entry (els a) (els b) _ Na Nb Nc up _ _ ck V
               (fun x => memE x (els b)) (fun x => memE x (els a))
               (Sound_cover0 a up Sa) (effb_cover0 b up Sb) Hin).
      + intros _. split; [intros e He; apply Hsub in He; tauto|]. split; [exact Ga|].
        intros x Hx. rewrite memE_In, Hsub. tauto.
      + intros _. split; [intros e He; apply Hsub in He; tauto|]. split; [exact Gb|].
        intros x Hx. rewrite memE_In, Hsub. tauto.
    - intros up ck X. unfold mcover, mclosed, post. apply merged_dom.
      + apply (snd_dom _ _ _ _ Sa).
      + apply (snd_dom _ _ _ _ (Sound_effb b Sb)).
  Qed.

  Lemma G_sub_up a b up :
    G_sub E eqb a b = true ->
    covers_kept E (els a) (fun x => negb (memE x (els b))) (cover_cache E up a) = true.
  Proof. unfold G_sub. rewrite andb_true_iff. intros [H1 H2]. destruct up; auto. Qed.

  Theorem guarded_correct_sub a b :
    Sound0 a -> Sound0 b -> G_sub E eqb a b = true -> Sound0 (combine OpSub a b).
  Proof.
    intros Sa Sb HG. destruct (use_cache a) eqn:Ha;
      [|apply nocache_correct; [exact Ha | apply (snd_nodup _ _ _ _ Sa) | apply (snd_nodup _ _ _ _ Sb)]].
    pose proof (snd_nodup _ _ _ _ Sa) as Na. pose proof (snd_nodup _ _ _ _ Sb) as Nb.
    pose proof (NoDup_els_comb OpSub _ _ Na Nb) as Nc.
    assert (Hsub : forall e, In e (comb_ OpSub a b) <-> In e (els a) /\ ~ In e (els b))
      by (intros e; apply (In_els_comb OpSub)).
    assert (Hnb : forall (c : cache) ck, ~ hits (fb_ OpSub a b) c ck).
    { intros c ck [i [X [_ Hf]]]. rewrite idx_map_disjoint in Hf; [discriminate|].
      intros e He. apply Hsub in He. tauto. }
    apply Sound_combine_intro; try assumption.
    - intros up ck V Hin. unfold mclosed, post in Hin.
      destruct (combine_rel_lk _ _ _ _ _ _ (combine_rel_In_lk _ _ _ _ _ _ Hin)) as [Hh _].
      apply (merged_closed_entry (els a) (els b) _ Na Nb Nc up _ _ ck V
               (Sound_closed0 a up Sa) (effb_closed0 b up Sb) Hin).
      intros e He. apply Hsub in He. destruct Hh as [Hh | Hh]; [left; tauto | destruct (Hnb _ _ Hh)].
    - intros up ck V Hin. unfold mcover, post in Hin.
      pose proof (G_sub_up a b up HG) as Ga.
      apply (merged_cover_entry (els a) (els b) _ Na Nb Nc up _ _ ck V
               (fun x => negb (memE x (els b))) (fun _ => true)
               (Sound_cover0 a up Sa) (effb_cover0 b up Sb) Hin).
      + intros _. split; [intros e He; apply Hsub in He; tauto|]. split; [exact Ga|].
        intros x Hx. rewrite memE_false, Hsub. tauto.
      + intros Hh. destruct (Hnb _ _ Hh).
    - intros up ck X. unfold mcover, mclosed, post. apply merged_dom.
      + apply (snd_dom _ _ _ _ Sa).
      + apply (snd_dom _ _ _ _ (Sound_effb b Sb)).
  Qed.

  (* the closed caches of & and - are sound whatever was cached (no guard) *)
  Theorem and_sub_closed_sound o a b :
    o = OpAnd \/ o = OpSub -> Sound0 a -> Sound0 b ->
    forall up, closed_ok E leq [] (els (combine o a b)) up (closed_cache E up (combine o a b)).
  Proof.
    intros Ho Sa Sb up. destruct (use_cache a) eqn:Ha.
    2:{ unfold PosetAlgebra.combine. rewrite Ha. destruct up; intros i X []. }
    pose proof (snd_nodup _ _ _ _ Sa) as Na. pose proof (snd_nodup _ _ _ _ Sb) as Nb.
    pose proof (NoDup_els_comb o _ _ Na Nb) as Nc.
    rewrite els_combine, (closed_cache_combine o a b up Ha). apply closed_ok0_iff.
    intros ck V Hin.
    assert (Hin' : In (ck, V) (combine_rel (fa_ o a b) (fb_ o a b) (closed_cache E up a)
                                           (closed_cache E up (effb b))))
      by (destruct Ho; subst o; exact Hin).
    destruct (combine_rel_lk _ _ _ _ _ _ (combine_rel_In_lk _ _ _ _ _ _ Hin')) as [Hh _].
    apply (merged_closed_entry (els a) (els b) _ Na Nb Nc up _ _ ck V
             (Sound_closed0 a up Sa) (effb_closed0 b up Sb) Hin').
    intros e He. apply In_els_comb in He. destruct Ho; subst o; cbn [els_comb_spec] in He.
    - destruct Hh; [left | right]; tauto.
    - destruct Hh as [Hh | [i [X [_ Hf]]]]; [left; tauto|].
      rewrite idx_map_disjoint in Hf; [discriminate|].
      intros e' He'. apply (In_els_comb OpSub) in He'. cbn [els_comb_spec] in He'. tauto.
  Qed.

  (* union.  The merge reads the second operand's caches only when that operand was built
     with use_cache = True, but G_or looks at the stored caches whatever the flag; a state with
     the flag off and a non-empty closed cache is never produced by the code (no call writes a
     cache when the flag is off) but [Sound] does not exclude it, so it is excluded here. *)
  Definition flag_ok (b : state) : Prop := use_cache b = false -> c_desc b = [] /\ c_anc b = [].

  Lemma G_or_facts a b ia ib e :
    G_or E eqb a b = true -> NoDup (els b) ->
    nth_error (els a) ia = Some e -> nth_error (els b) ib = Some e ->
    (forall up, has_key Nat.eqb (cover_cache E up a) ia = false) /\
    (forall up, has_key Nat.eqb (cover_cache E up b) ib = false) /\
    (forall up, has_key Nat.eqb (closed_cache E up a) ia = has_key Nat.eqb (closed_cache E up b) ib).
  Proof.
    unfold G_or. rewrite forallb_forall. intros H Nb Hia Hib. specialize (H ia).
    rewrite Hia, (index_of_nth E leq eqb PO (els b) ib e Nb Hib) in H.
    assert (Hr : In ia (seq 0 (length (els a)))).
    { apply In_seq0. apply nth_error_Some. congruence. }
    specialize (H Hr). rewrite !andb_true_iff, !negb_true_iff in H.
    destruct H as [[[[[H1 H2] H3] H4] H5] H6]. apply eqb_prop in H5, H6.
    split; [intros []; assumption|]. split; intros []; assumption.
  Qed.

  Lemma G_or_facts_eff a b ia ib e :
    G_or E eqb a b = true -> flag_ok b -> NoDup (els b) ->
    nth_error (els a) ia = Some e -> nth_error (els b) ib = Some e ->
    (forall up, has_key Nat.eqb (cover_cache E up a) ia = false) /\
    (forall up, has_key Nat.eqb (cover_cache E up (effb b)) ib = false) /\
    (forall up, has_key Nat.eqb (closed_cache E up a) ia = has_key Nat.eqb (closed_cache E up (effb b)) ib).
  Proof.
    intros HG Hfl Nb Hia Hib. destruct (G_or_facts a b ia ib e HG Nb Hia Hib) as [H1 [H2 H3]].
    split; [exact H1|]. unfold effb. destruct (use_cache b) eqn:Hb; [auto|].
    destruct (Hfl Hb) as [Hd Hc].
    split; [intros []; reflexivity|]. intros up. rewrite H3. destruct up; cbn [closed_cache]; [rewrite Hc | rewrite Hd]; reflexivity.
  Qed.

  Lemma or_core a b :
    Sound0 a -> Sound0 b ->
    (forall ia ib e, nth_error (els a) ia = Some e -> nth_error (els b) ib = Some e ->
       (forall up, has_key Nat.eqb (cover_cache E up a) ia = false) /\
       (forall up, has_key Nat.eqb (cover_cache E up (effb b)) ib = false) /\
       (forall up, has_key Nat.eqb (closed_cache E up a) ia =
                   has_key Nat.eqb (closed_cache E up (effb b)) ib)) ->
    Sound0 (combine OpOr a b).
  Proof.
    intros Sa Sb Hfacts. destruct (use_cache a) eqn:Ha;
      [|apply nocache_correct; [exact Ha | apply (snd_nodup _ _ _ _ Sa) | apply (snd_nodup _ _ _ _ Sb)]].
    pose proof (snd_nodup _ _ _ _ Sa) as Na. pose proof (snd_nodup _ _ _ _ Sb) as Nb.
    pose proof (NoDup_els_comb OpOr _ _ Na Nb) as Nc.
    assert (Hsub : forall e, In e (comb_ OpOr a b) <-> In e (els a) \/ In e (els b))
      by (intros e; apply (In_els_comb OpOr)).
    (* a surviving key is the index of a common element: both index maps hit it *)
    assert (Hcommon : forall (c : cache) ck V, In (ck, V) (post OpOr a b c) ->
              In (ck, V) c /\ exists ia ib e,
                nth_error (els a) ia = Some e /\ nth_error (els b) ib = Some e /\
                fa_ OpOr a b ia = Some ck /\ fb_ OpOr a b ib = Some ck).
    { intros c ck V Hin. unfold post in Hin. apply drop_In in Hin.
      destruct Hin as [Hin [e [He [Hea Heb]]]]. split; [exact Hin|].
      apply In_nth_error in Hea, Heb. destruct Hea as [ia Hia], Heb as [ib Hib].
      exists ia, ib, e. split; [exact Hia|]. split; [exact Hib|].
      split; eapply idx_map_intro; eauto. }
    assert (Hnocover : forall up ck V, In (ck, V) (mcover OpOr a b up) -> False).
    { intros up ck V Hin. unfold mcover in Hin. apply Hcommon in Hin.
      destruct Hin as [Hin [ia [ib [e [Hia [Hib [Hfa Hfb]]]]]]].
      destruct (Hfacts ia ib e Hia Hib) as [G1 [G2 _]].
      destruct (combine_rel_lk _ _ _ _ _ _ (combine_rel_In_lk _ _ _ _ _ _ Hin)) as [[Hh | Hh] _].
      - apply (hits_has_key (els a) _ Na _ ia ck Hfa) in Hh. rewrite G1 in Hh. discriminate.
      - apply (hits_has_key (els b) _ Nb _ ib ck Hfb) in Hh. rewrite G2 in Hh. discriminate. }
    apply Sound_combine_intro; try assumption.
    - intros up ck V Hin. unfold mclosed in Hin. apply Hcommon in Hin.
      destruct Hin as [Hin [ia [ib [e [Hia [Hib [Hfa Hfb]]]]]]].
      destruct (Hfacts ia ib e Hia Hib) as [_ [_ G3]].
      destruct (combine_rel_lk _ _ _ _ _ _ (combine_rel_In_lk _ _ _ _ _ _ Hin)) as [Hh _].
      pose proof (hits_has_key (els a) _ Na (closed_cache E up a) ia ck Hfa) as Ka.
      pose proof (hits_has_key (els b) _ Nb (closed_cache E up (effb b)) ib ck Hfb) as Kb.
      assert (Hboth : hits (fa_ OpOr a b) (closed_cache E up a) ck /\
                      hits (fb_ OpOr a b) (closed_cache E up (effb b)) ck).
      { destruct Hh as [Hh | Hh].
        - split; [exact Hh|]. apply Kb. rewrite <- G3. apply Ka. exact Hh.
        - split; [|exact Hh]. apply Ka. rewrite G3. apply Kb. exact Hh. }
      apply (merged_closed_entry (els a) (els b) _ Na Nb Nc up _ _ ck V
               (Sound_closed0 a up Sa) (effb_closed0 b up Sb) Hin).
      intros e' He'. apply Hsub in He'. tauto.
    - intros up ck V Hin. exfalso. eapply Hnocover; exact Hin.
    - intros up ck X H. exfalso. apply lk_In in H. eapply Hnocover; exact H.
  Qed.

  (* the guard evaluated on the second operand as the merge sees it: no flag hypothesis needed *)
  Theorem guarded_correct_or_eff a b :
    Sound0 a -> Sound0 b -> G_or E eqb a (effb b) = true -> Sound0 (combine OpOr a b).
  Proof.
    intros Sa Sb HG. apply or_core; [exact Sa | exact Sb|]. intros ia ib e Hia Hib.
    apply (G_or_facts a (effb b) ia ib e HG); [|exact Hia|]; rewrite els_effb;
      [apply (snd_nodup _ _ _ _ Sb) | exact Hib].
  Qed.

  Theorem guarded_correct_or a b :
    Sound0 a -> Sound0 b -> flag_ok b -> G_or E eqb a b = true -> Sound0 (combine OpOr a b).
  Proof.
    intros Sa Sb Hfl HG. apply or_core; [exact Sa | exact Sb|]. intros ia ib e Hia Hib.
    apply (G_or_facts_eff a b ia ib e HG Hfl (snd_nodup _ _ _ _ Sb) Hia Hib).
  Qed.

  Lemma flag_ok_cached b : use_cache b = true -> flag_ok b.
  Proof. intros H H'. congruence. Qed.
  Lemma flag_ok_init l uc : flag_ok (init E l uc).
  Proof. intros _. split; reflexivity. Qed.

  (* guarded results answer every query like the fresh poset (with C09's nonmut_step_ok) *)
  Corollary guarded_queries_spec (r : state) q :
    Sound0 r -> valid_op E r q -> mutating E q = false ->
    snd (step E leq eqb r q) = spec_query E leq eqb (els r) (use_cache r) q.
  Proof. intros S V M. apply (nonmut_step_ok E leq eqb PO [] r q S V M). Qed.
End C10.

(* ------------------------------------------------------------------ concrete instances *)
Lemma Sound0_intro E leq (s : state E) :
  NoDup (els s) -> leq_ok0 E leq (els s) (c_leq s) ->
  (forall up, closed_ok0 E leq (els s) up (closed_cache E up s)) ->
  (forall up, cover_ok0 E leq (els s) up (cover_cache E up s)) ->
  dom_ok E s -> Sound E leq [] s.
Proof.
  intros H1 H2 H3 H4 H5. constructor; [exact H1 | apply leq_ok0_iff; exact H2 | | | exact H5].
  - intros up. apply closed_ok0_iff. apply H3.
  - intros up. apply cover_ok0_iff. apply H4.
Qed.

Ltac c10_nodup := repeat (apply NoDup_cons; [simpl; intuition discriminate|]); apply NoDup_nil.
Ltac c10_split_in H :=
  repeat (destruct H as [H | H]; [inversion H; subst; clear H|]); try (destruct H).
Ltac c10_sound :=
  let H := fresh "Hin" in
  apply Sound0_intro;
  [ vm_compute; c10_nodup
  | intros ? ? ? H; vm_compute in H; c10_split_in H; vm_compute; (split; [lia | split; [lia | reflexivity]])
  | intros up ? ? H; destruct up; vm_compute in H; c10_split_in H; vm_compute;
    (split; [lia | split; [c10_nodup | intros ?; tauto]])
  | intros up ? ? H; destruct up; vm_compute in H; c10_split_in H; vm_compute;
    (split; [lia | split; [c10_nodup | intros ?; tauto]])
  | intros up ? ? H; apply lk_In in H; destruct up; vm_compute in H; c10_split_in H;
    vm_compute; eexists; reflexivity ].

Definition c10_mleq (m : list (list bool)) (a b : nat) : bool := nth b (nth a m []) false.

(* the order of the chain 0 < 1 < 2, and of the sets {} (0), {0,1,2} (1), {2} (2) under inclusion *)
Definition m_chain : list (list bool) :=
  [[true; true; true]; [false; true; true]; [false; false; true]].
Definition m_sets : list (list bool) :=
  [[true; true; true]; [false; true; false]; [false; true; true]].

Definition refuted_shape (o : setop) (G : state nat -> state nat -> bool) : Prop :=
  exists (m : list (list bool)) (a b : list nat) (wa wb : list (op nat)) (q : op nat),
    let leq := c10_mleq m in
    let sa := fst (run nat leq Nat.eqb (init nat a true) wa) in
    let sb := fst (run nat leq Nat.eqb (init nat b true) wb) in
    let r := combine nat Nat.eqb o sa sb in
    Sound nat leq [] sa /\ Sound nat leq [] sb /\ G sa sb = false /\
    valid_op nat r q /\ mutating nat q = false /\
    snd (step nat leq Nat.eqb r q) <> spec_query nat leq Nat.eqb (els r) true q.

(* chain 0<1<2, A=[0,1,2] after A.parents(0)={1}, B=[0,2]: (A&B).parents(0) answers {} not {1} *)
Theorem and_cover_refuted : refuted_shape OpAnd (G_and nat Nat.eqb).
Proof.
  exists m_chain, [0; 1; 2], [0; 2], [QCover true 0], [], (QCover true 0). cbv zeta.
  split; [c10_sound|]. split; [c10_sound|]. split; [vm_compute; reflexivity|].
  split; [vm_compute; lia|]. split; [reflexivity|]. vm_compute. discriminate.
Qed.

(* A=[{},{0,1,2},{2}], B=[{0,1,2}] after B.children(0): B's empty descendants entry of the
   common element is kept, (A|B).ancestors(0) misses index 1 *)
Theorem or_closed_refuted : refuted_shape OpOr (G_or nat Nat.eqb).
Proof.
  exists m_sets, [0; 1; 2], [1], [], [QCover false 0], (QClosed true 0). cbv zeta.
  split; [c10_sound|]. split; [c10_sound|]. split; [vm_compute; reflexivity|].
  split; [vm_compute; lia|]. split; [reflexivity|]. vm_compute. discriminate.
Qed.

(* chain, A=[0,2], B=[0,1,2], parents(0) cached in both: (A|B).parents(0) = {1,2} *)
Theorem or_cover_refuted : refuted_shape OpOr (G_or nat Nat.eqb).
Proof.
  exists m_chain, [0; 2], [0; 1; 2], [QCover true 0], [QCover true 0], (QCover true 0). cbv zeta.
  split; [c10_sound|]. split; [c10_sound|]. split; [vm_compute; reflexivity|].
  split; [vm_compute; lia|]. split; [reflexivity|]. vm_compute. discriminate.
Qed.

(* chain, A=[0,1,2] after A.parents(0)={1}, B=[1]: (A-B).parents(0) answers {} not {1} *)
Theorem sub_cover_refuted : refuted_shape OpSub (G_sub nat Nat.eqb).
Proof.
  exists m_chain, [0; 1; 2], [1], [QCover true 0], [], (QCover true 0). cbv zeta.
  split; [c10_sound|]. split; [c10_sound|]. split; [vm_compute; reflexivity|].
  split; [vm_compute; lia|]. split; [reflexivity|]. vm_compute. discriminate.
Qed.

(* ------------------------------------------------------------------ over a genuine partial order *)
Lemma leb_po : partial_order nat Nat.leb Nat.eqb.
Proof.
  constructor.
  - intros x. apply Nat.leb_refl.
  - intros x y H1 H2. apply Nat.leb_le in H1, H2. lia.
  - intros x y z H1 H2. apply Nat.leb_le in H1, H2. apply Nat.leb_le. lia.
  - intros x y. apply Nat.eqb_eq.
Qed.

Definition st_leb (l : list nat) (w : list (op nat)) : state nat :=
  fst (run nat Nat.leb Nat.eqb (init nat l true) w).

(* hence the unguarded claim "Sound operands give a Sound result" is false for &, | and - *)
Lemma unsound_by_answer (r : state nat) q :
  valid_op nat r q -> mutating nat q = false ->
  snd (step nat Nat.leb Nat.eqb r q) <> spec_query nat Nat.leb Nat.eqb (els r) (use_cache r) q ->
  ~ Sound nat Nat.leb [] r.
Proof.
  intros V M H S. apply H. apply (nonmut_step_ok nat Nat.leb Nat.eqb leb_po [] r q S V M).
Qed.

Theorem and_unguarded_refuted :
  ~ (forall a b, Sound nat Nat.leb [] a -> Sound nat Nat.leb [] b ->
                 Sound nat Nat.leb [] (combine nat Nat.eqb OpAnd a b)).
Proof.
  intros H. specialize (H (st_leb [0; 1; 2] [QCover true 0]) (st_leb [0; 2] [])).
  apply (unsound_by_answer _ (QCover true 0)) with (4 := H ltac:(c10_sound) ltac:(c10_sound));
    [vm_compute; lia | reflexivity | vm_compute; discriminate].
Qed.

Theorem sub_unguarded_refuted :
  ~ (forall a b, Sound nat Nat.leb [] a -> Sound nat Nat.leb [] b ->
                 Sound nat Nat.leb [] (combine nat Nat.eqb OpSub a b)).
Proof.
  intros H. specialize (H (st_leb [0; 1; 2] [QCover true 0]) (st_leb [1] [])).
  apply (unsound_by_answer _ (QCover true 0)) with (4 := H ltac:(c10_sound) ltac:(c10_sound));
    [vm_compute; lia | reflexivity | vm_compute; discriminate].
Qed.

Theorem or_unguarded_refuted :
  ~ (forall a b, Sound nat Nat.leb [] a -> Sound nat Nat.leb [] b ->
                 Sound nat Nat.leb [] (combine nat Nat.eqb OpOr a b)).
Proof.
  intros H. specialize (H (st_leb [0; 2] [QCover true 0]) (st_leb [0; 1; 2] [QCover true 0])).
  apply (unsound_by_answer _ (QCover true 0)) with (4 := H ltac:(c10_sound) ltac:(c10_sound));
    [vm_compute; lia | reflexivity | vm_compute; discriminate].
Qed.

(* the full statement of guarded_correct_or without the flag hypothesis is false, but only on a
   state no run produces: flag off, ancestors cache non-empty *)
Definition guarded_correct_or_statement : Prop :=
  forall a b, Sound nat Nat.leb [] a -> Sound nat Nat.leb [] b -> G_or nat Nat.eqb a b = true ->
              Sound nat Nat.leb [] (combine nat Nat.eqb OpOr a b).

Theorem guarded_correct_or_flagless_refuted : ~ guarded_correct_or_statement.
Proof.
  intros H.
  specialize (H (mk_state [0] [] [] [(0, [])] [] [] true) (mk_state [0; 1] [] [] [(0, [1])] [] [] false)).
  apply (unsound_by_answer _ (QClosed true 0))
    with (4 := H ltac:(c10_sound) ltac:(c10_sound) ltac:(vm_compute; reflexivity));
    [vm_compute; lia | reflexivity | vm_compute; discriminate].
Qed.

(* ------------------------------------------------------------------ non-vacuity of the guarded theorems *)
Example guarded_and_nonvacuous :
  let sa := st_leb [0; 1; 2] [QCover true 1; QClosed false 2] in
  let sb := st_leb [2; 1] [QCover false 0] in
  Sound nat Nat.leb [] sa /\ Sound nat Nat.leb [] sb /\ G_and nat Nat.eqb sa sb = true /\
  c_par sa <> [] /\ c_ch sb <> [] /\ c_par (combine nat Nat.eqb OpAnd sa sb) <> [] /\
  Sound nat Nat.leb [] (combine nat Nat.eqb OpAnd sa sb).
Proof.
  cbv zeta.
  assert (Sa : Sound nat Nat.leb [] (st_leb [0; 1; 2] [QCover true 1; QClosed false 2])) by c10_sound.
  assert (Sb : Sound nat Nat.leb [] (st_leb [2; 1] [QCover false 0])) by c10_sound.
  split; [exact Sa|]. split; [exact Sb|]. split; [vm_compute; reflexivity|].
  split; [vm_compute; discriminate|]. split; [vm_compute; discriminate|]. split; [vm_compute; discriminate|].
  apply (guarded_correct_and nat Nat.leb Nat.eqb leb_po); [exact Sa | exact Sb | vm_compute; reflexivity].
Qed.

Example guarded_sub_nonvacuous :
  let sa := st_leb [0; 1; 2] [QCover true 1; QClosed false 2] in
  let sb := st_leb [0] [QClosed true 0] in
  Sound nat Nat.leb [] sa /\ Sound nat Nat.leb [] sb /\ G_sub nat Nat.eqb sa sb = true /\
  c_par sa <> [] /\ c_par (combine nat Nat.eqb OpSub sa sb) <> [] /\
  Sound nat Nat.leb [] (combine nat Nat.eqb OpSub sa sb).
Proof.
  cbv zeta.
  assert (Sa : Sound nat Nat.leb [] (st_leb [0; 1; 2] [QCover true 1; QClosed false 2])) by c10_sound.
  assert (Sb : Sound nat Nat.leb [] (st_leb [0] [QClosed true 0])) by c10_sound.
  split; [exact Sa|]. split; [exact Sb|]. split; [vm_compute; reflexivity|].
  split; [vm_compute; discriminate|]. split; [vm_compute; discriminate|].
  apply (guarded_correct_sub nat Nat.leb Nat.eqb leb_po); [exact Sa | exact Sb | vm_compute; reflexivity].
Qed.

Example guarded_or_nonvacuous :
  let sa := st_leb [0; 1] [QClosed true 0; QCover true 1] in
  let sb := st_leb [0; 2] [QClosed true 0] in
  Sound nat Nat.leb [] sa /\ Sound nat Nat.leb [] sb /\ flag_ok nat sb /\ G_or nat Nat.eqb sa sb = true /\
  c_anc sa <> [] /\ c_par sa <> [] /\ c_anc sb <> [] /\ c_anc (combine nat Nat.eqb OpOr sa sb) <> [] /\
  Sound nat Nat.leb [] (combine nat Nat.eqb OpOr sa sb).
Proof.
  cbv zeta.
  assert (Sa : Sound nat Nat.leb [] (st_leb [0; 1] [QClosed true 0; QCover true 1])) by c10_sound.
  assert (Sb : Sound nat Nat.leb [] (st_leb [0; 2] [QClosed true 0])) by c10_sound.
  assert (Fb : flag_ok nat (st_leb [0; 2] [QClosed true 0])) by (intros H; vm_compute in H; discriminate).
  split; [exact Sa|]. split; [exact Sb|]. split; [exact Fb|]. split; [vm_compute; reflexivity|].
  split; [vm_compute; discriminate|]. split; [vm_compute; discriminate|].
  split; [vm_compute; discriminate|]. split; [vm_compute; discriminate|].
  apply (guarded_correct_or nat Nat.leb Nat.eqb leb_po); [exact Sa | exact Sb | exact Fb | vm_compute; reflexivity].
Qed.

Example xor_nonvacuous :
  let sa := st_leb [0; 1] [QClosed true 0; QCover true 1] in
  let sb := st_leb [0; 2] [QCover true 0] in
  c_anc sa <> [] /\ c_par sb <> [] /\ c_leq (combine nat Nat.eqb OpXor sa sb) <> [] /\
  Sound nat Nat.leb [] (combine nat Nat.eqb OpXor sa sb).
Proof.
  cbv zeta. split; [vm_compute; discriminate|]. split; [vm_compute; discriminate|].
  split; [vm_compute; discriminate|].
  apply (xor_sound nat Nat.leb Nat.eqb leb_po); c10_sound.
Qed.

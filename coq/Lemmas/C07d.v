(* Lemmas/C07d.v — PatternConcept json round trip. *)
From FCA Require Import Base.ListSet Base.C07_Str Model.C07_Serial Spec.C07_Roundtrip Lemmas.C07a Lemmas.C07c.

(* ------------------------------------------------------------------ pointwise tools *)

Lemma smap_nth {A B} (f : A -> sres B) (l : list A) (r : list B) da db :
  length l = length r ->
  (forall k, k < length l -> f (nth k l da) = SOk (nth k r db)) -> smap f l = SOk r.
Proof.
  revert r. induction l as [|x l IH]; intros [|y r] Hl H; simpl in *; try lia; [reflexivity|].
  rewrite (H 0) by lia. simpl. rewrite (IH r); [reflexivity | lia|].
  intros k Hk. apply (H (S k)). lia.
Qed.

Lemma smap2_nth {A B C} (f : A -> B -> sres C) a b r da db dc :
  smap2 f a b = SOk r -> length a = length b ->
  length r = length a /\ forall k, k < length a -> f (nth k a da) (nth k b db) = SOk (nth k r dc).
Proof.
  revert b r. induction a as [|x a IH]; intros [|y b] r H Hl; simpl in *; try lia.
  - inversion H. subst. split; [reflexivity | intros k Hk; lia].
  - destruct (f x y) as [z|] eqn:E; simpl in H; [|discriminate].
    destruct (smap2 f a b) as [rs|] eqn:E2; simpl in H; [|discriminate].
    inversion H. subst r. destruct (IH b rs E2) as [L P]; [lia|].
    split; [simpl; lia|]. intros [|k] Hk; simpl; [exact E | apply P; lia].
Qed.

Lemma sdict_last_nth {A} (names : list str) (vals : list A) k acc d :
  NoDup names -> length names = length vals -> k < length names ->
  sdict_last (nth k names []) (combine names vals) acc = Some (nth k vals d).
Proof.
  revert vals k acc. induction names as [|a names IH]; intros [|v vals] k acc Hn Hl Hk; simpl in *; try lia.
  inversion Hn as [|? ? Ha Hn']; subst. destruct k as [|k].
  - rewrite str_eqb_refl. apply sdict_last_notin. rewrite map_fst_combine by lia. exact Ha.
  - rewrite str_eqb_neq.
    + apply IH; try assumption; lia.
    + intros E. apply Ha. rewrite <- E. apply nth_In. lia.
Qed.

Lemma combine_maps {A B C} (f : A -> B) (g : A -> C) l :
  combine (map f l) (map g l) = map (fun x => (f x, g x)) l.
Proof. induction l as [|x l IH]; simpl; [reflexivity | rewrite IH; reflexivity]. Qed.

Lemma nth_error_nth' {A} (l : list A) k d : k < length l -> nth_error l k = Some (nth k l d).
Proof. revert k. induction l as [|x l IH]; intros [|k] H; simpl in *; try lia; [reflexivity | apply IH; lia]. Qed.

(* ------------------------------------------------------------------ PatternConcept *)

Definition pc_after (c : pcv) : pcv :=
  mk_pcv (pv_extent_i c) (pv_extent c) (pv_intent c) (pv_ptypes c) (pv_anames c)
         (pc_measures_after c) (pv_hash c).

Lemma ptypes_dict_read an pts :
  length an = length pts ->
  smap (fun kv : str * jv => sbind (as_str (snd kv)) (fun n => sbind (ptype_of_name n) (fun p => SOk (fst kv, p))))
       (combine an (map (fun p => JStr (ptype_name p)) pts)) = SOk (combine an pts).
Proof.
  revert pts. induction an as [|a an IH]; intros [|p pts] H; simpl in *; try lia; [reflexivity|].
  rewrite ptype_name_roundtrip. simpl. rewrite IH by lia. reflexivity.
Qed.

Lemma pc_dict_roundtrip_shape c :
  pc_admissibleb c = true ->
  exists D i n k pt an, pc_to_dict c = SOk (JObj D)
    /\ dget s_Int D = Some (JObj [(s_Inds, i); (s_Names, n); (s_Count, k); (s_PTypes, pt); (s_AttrNames, an)])
    /\ pc_from_dict (JObj D) = SOk (pc_after c).
Proof.
  unfold pc_admissibleb. rewrite !andb_true_iff, !Nat.eqb_eq.
  intros [[[[[Hext Hint] Han] Hnd] Hcells] Hm].
  apply str_nodupb_NoDup in Hnd.
  unfold meas_okb in Hm. apply andb_true_iff in Hm. destruct Hm as [_ Hres].
  destruct (reserved_split _ Hres) as [HmI [HmE HmK]].
  destruct c as [ext_i ext intent pts an meas h]. simpl in *.
  destruct (row_roundtrip pts intent Hint Hcells) as [docs [W1 [W2 W3]]].
  unfold pc_to_dict. simpl pv_ptypes. simpl pv_intent. rewrite W1. cbn [sbind].
  simpl pv_extent_i. simpl pv_extent. simpl pv_anames. simpl pv_measures. simpl pv_hash.
  remember (length docs) as n eqn:Hn_.
  set (IntObj := JObj [(s_Inds, JObj (combine (map nat_str (seq 0 n)) docs));
                       (s_Names, JObj (combine an docs)); (s_Count, jnat n);
                       (s_PTypes, JObj (combine an (map (fun p => JStr (ptype_name p)) pts)));
                       (s_AttrNames, jstrs an)]).
  set (ExtObj := JObj [(s_Inds, JArr (map jnat ext_i)); (s_Names, jstrs ext); (s_Count, jnat (length ext_i))]).
  set (base := [(s_Ext, ExtObj); (s_Int, IntObj); (s_Supp, jnat (length ext_i))]).
  change (fold_left (fun d kv => dset (fst kv) (snd kv) d) meas base) with (fold_left dstep meas base).
  set (D := dset s_Context_Hash (jhash h) (fold_left dstep meas base)).
  exists D. do 5 eexists. split; [reflexivity|].
  assert (GI : dget s_Int D = Some IntObj).
  { unfold D. rewrite dget_dset_other by reflexivity. rewrite dget_fold_other by exact HmI. reflexivity. }
  assert (GE : dget s_Ext D = Some ExtObj).
  { unfold D. rewrite dget_dset_other by reflexivity. rewrite dget_fold_other by exact HmE. reflexivity. }
  assert (GH : dget s_Context_Hash D = Some (jhash h)) by (unfold D; apply dget_dset_same).
  assert (GF : filter not_int_ext D = pc_measures_after (mk_pcv ext_i ext intent pts an meas h)).
  { change not_int_ext with (fun kv : str * jv => keyp_meas (fst kv)).
    unfold D. rewrite filter_dset by reflexivity. rewrite filter_fold by exact HmK. reflexivity. }
  split; [rewrite GI; reflexivity|].
  (* reading *)
  assert (Ln : n = length pts) by lia.
  assert (Lan : length an = n) by lia.
  assert (P2 : forall k, k < n -> cell_from_json (nth k pts PInterval) (nth k docs JNull) = SOk (nth k intent CNone)).
  { destruct (smap2_nth cell_from_json pts docs intent PInterval JNull CNone W2) as [_ P]; [lia|].
    intros k Hk. apply P. lia. }
  assert (BYIDX : smap (decode_by_idx (combine an pts) an) (combine (map nat_str (seq 0 n)) docs)
                  = SOk (map (fun k => (k, (nth k pts PInterval, nth k intent CNone))) (seq 0 n))).
  { apply (smap_nth _ _ _ ([], JNull) (0, (PInterval, CNone))).
    - rewrite combine_length, !map_length, seq_length. lia.
    - intros k Hk. rewrite combine_length, map_length, seq_length in Hk.
      assert (Hk' : k < n) by lia.
      rewrite combine_nth by (rewrite map_length, seq_length; exact Hn_).
      rewrite (nth_indep _ [] (nat_str 0)) by (rewrite map_length, seq_length; exact Hk').
      rewrite (map_nth nat_str), seq_nth by exact Hk'. simpl plus.
      rewrite (nth_indep (map _ (seq 0 n)) _ ((fun k0 => (k0, (nth k0 pts PInterval, nth k0 intent CNone))) 0))
        by (rewrite map_length, seq_length; exact Hk').
      rewrite (map_nth (fun k0 => (k0, (nth k0 pts PInterval, nth k0 intent CNone)))), seq_nth by exact Hk'.
      simpl plus. unfold decode_by_idx. cbn [fst snd]. rewrite parse_nat_str.
      rewrite (nth_error_nth' an k []) by lia.
      rewrite (sdict_last_nth an pts k None PInterval) by (try assumption; lia).
      rewrite P2 by exact Hk'. reflexivity. }
  assert (BYNAME : smap (decode_by_name (combine an pts)) (combine an docs) = SOk (combine an intent)).
  { apply (smap_nth _ _ _ ([], JNull) ([], CNone)).
    - rewrite !combine_length. lia.
    - intros k Hk. rewrite combine_length in Hk. assert (Hk' : k < n) by lia.
      rewrite (combine_nth an docs) by lia. rewrite (combine_nth an intent) by lia.
      unfold decode_by_name. cbn [fst snd].
      rewrite (sdict_last_nth an pts k None PInterval) by (try assumption; lia).
      rewrite P2 by exact Hk'. reflexivity. }
  unfold pc_from_dict. cbn [as_obj sbind]. unfold dkey at 1. rewrite GI. cbn [sbind].
  unfold IntObj at 1. unfold dkey at 1. rewrite GE. cbn [sbind]. unfold ExtObj at 1. cbn [as_obj sbind].
  unfold IntObj at 1. cbn [as_obj sbind].
  change (dkey s_PTypes _) with (SOk (JObj (combine an (map (fun p => JStr (ptype_name p)) pts)))) at 1.
  cbn [sbind as_obj]. rewrite ptypes_dict_read by lia. cbn [sbind].
  change (dkey s_AttrNames _) with (SOk (jstrs an)) at 1. cbn [sbind]. unfold jstrs at 1. cbn [as_arr sbind].
  rewrite smap_as_str. cbn [sbind].
  change (dkey s_Inds _) with (SOk (JObj (combine (map nat_str (seq 0 n)) docs))) at 1.
  cbn [sbind as_obj]. rewrite BYIDX. cbn [sbind].
  change (dkey s_Names _) with (SOk (JObj (combine an docs))) at 1.
  cbn [sbind as_obj]. rewrite BYNAME. cbn [sbind].
  change (dkey s_Inds [(s_Inds, JArr (map jnat ext_i)); (s_Names, jstrs ext); (s_Count, jnat (length ext_i))])
    with (SOk (JArr (map jnat ext_i))).
  cbn [sbind]. unfold nat_list_of. cbn [as_arr sbind]. rewrite smap_as_nat. cbn [sbind].
  rewrite names_or_empty_ok. cbn [sbind].
  unfold read_hash. rewrite GH.
  assert (RH : match jhash h with
               | JNull => SOk None | JInt z => SOk (Some z) | _ => SErr EOther end = SOk h)
    by (destruct h; reflexivity).
  rewrite RH. cbn [sbind].
  rewrite Hext, Nat.eqb_refl. simpl negb. cbv iota.
  rewrite !map_length, seq_length, combine_length, Lan, <- W3.
  rewrite Nat.min_id, Nat.eqb_refl. simpl negb. cbv iota.
  assert (CK : forallb (fun ik : nat * (nat * (ptype * cellv)) => Nat.eqb (fst ik) (fst (snd ik)))
                 (combine (seq 0 n) (map (fun k => (k, (nth k pts PInterval, nth k intent CNone))) (seq 0 n))) = true).
  { rewrite <- (map_id (seq 0 n)) at 1. rewrite combine_maps. apply forallb_forall.
    intros x Hx. apply in_map_iff in Hx. destruct Hx as [k [E _]]. subst x. simpl. apply Nat.eqb_refl. }
  rewrite CK. simpl negb. cbv iota.
  rewrite GF. unfold pc_after. simpl.
  rewrite map_map. simpl.
  assert (EI : map (fun x : nat => nth x intent CNone) (seq 0 n) = intent).
  { rewrite W3. apply map_nth_seq. }
  rewrite EI. rewrite map_snd_combine by lia. reflexivity.
Qed.

Theorem pc_dict_roundtrip c :
  pc_admissibleb c = true -> exists v, pc_to_dict c = SOk v /\ pc_from_dict v = SOk (pc_after c).
Proof.
  intros H. destruct (pc_dict_roundtrip_shape c H) as [D [i [n [k [pt [an [H1 [_ H3]]]]]]]].
  exists (JObj D). split; assumption.
Qed.

(* ------------------------------------------------------------------ lattices *)

Definition conceptv_after (c : conceptv) : conceptv :=
  match c with FC f => FC (fc_after f) | PC p => PC (pc_after p) end.

Lemma c_leq_after a b : c_leq (conceptv_after a) (conceptv_after b) = c_leq a b.
Proof. destruct a, b; reflexivity. Qed.

Lemma c_lt_after a b : c_lt (conceptv_after a) (conceptv_after b) = c_lt a b.
Proof. unfold c_lt. rewrite !c_leq_after. reflexivity. Qed.

Lemma at_after cs j : j < length cs -> at_ (map conceptv_after cs) j = conceptv_after (at_ cs j).
Proof.
  intros Hj. unfold at_.
  rewrite (nth_indep _ _ (conceptv_after (FC (mk_fcv [] [] [] [] [] None false)))) by (rewrite map_length; exact Hj).
  apply map_nth.
Qed.

Lemma lower_covers_after cs i :
  i < length cs -> lower_covers (map conceptv_after cs) i = lower_covers cs i.
Proof.
  intros Hi. unfold lower_covers. rewrite map_length. apply filter_ext_in'. intros j Hj.
  apply in_seq in Hj. rewrite !at_after by lia. rewrite c_lt_after. f_equal. f_equal.
  apply existsb_ext_in. intros k Hk. apply in_seq in Hk. rewrite !at_after by lia.
  rewrite !c_lt_after. reflexivity.
Qed.

Lemma derived_children_after cs :
  derived_children (map conceptv_after cs) = derived_children cs.
Proof.
  unfold derived_children. rewrite map_length. apply map_ext_in. intros i Hi. apply in_seq in Hi.
  rewrite lower_covers_after by lia. reflexivity.
Qed.

Lemma is_top_after cs i : i < length cs -> is_top (map conceptv_after cs) i = is_top cs i.
Proof.
  intros Hi. unfold is_top. rewrite forallb_map. apply forallb_ext_in. intros c _.
  rewrite at_after by exact Hi. apply c_leq_after.
Qed.

Lemma is_bottom_after cs i : i < length cs -> is_bottom (map conceptv_after cs) i = is_bottom cs i.
Proof.
  intros Hi. unfold is_bottom. rewrite forallb_map. apply forallb_ext_in. intros c _.
  rewrite at_after by exact Hi. apply c_leq_after.
Qed.

(* every node of a formal lattice *)
Lemma nodes_formal objs attrs cs :
  forallb (fun c => match c with FC f => fc_admissibleb objs attrs f | _ => false end) cs = true ->
  exists nodes,
    smap (fun c => match c with FC f => fc_to_dict objs attrs f | PC _ => SErr EType end) cs = SOk nodes
    /\ smap (fun c => sbind (fc_from_dict c) (fun f => SOk (FC f))) nodes = SOk (map conceptv_after cs)
    /\ (cs <> [] -> exists D i n k rest, nodes = JObj D :: rest
                    /\ dget s_Int D = Some (JObj [(s_Inds, i); (s_Names, n); (s_Count, k)])).
Proof.
  induction cs as [|c cs IH]; intros H.
  - exists []. repeat split; try reflexivity. intros X. contradiction.
  - simpl in H. apply andb_true_iff in H. destruct H as [Hc Hcs]. destruct c as [f|p]; [|discriminate].
    destruct (fc_dict_roundtrip_shape objs attrs f Hc) as [D [i [n [k [H1 [H2 H3]]]]]].
    destruct (IH Hcs) as [nodes [N1 [N2 _]]].
    exists (JObj D :: nodes). cbn [smap]. rewrite H1. cbn [sbind]. rewrite N1. cbn [sbind].
    split; [reflexivity|]. split.
    + rewrite H3. cbn [sbind]. rewrite N2. reflexivity.
    + intros _. exists D, i, n, k, nodes. split; [reflexivity | exact H2].
Qed.

Lemma nodes_pattern cs :
  forallb (fun c => match c with PC p => pc_admissibleb p | _ => false end) cs = true ->
  exists nodes,
    smap (fun c => match c with PC p => pc_to_dict p | FC _ => SErr EType end) cs = SOk nodes
    /\ smap (fun c => sbind (pc_from_dict c) (fun p => SOk (PC p))) nodes = SOk (map conceptv_after cs)
    /\ (cs <> [] -> exists D i n k pt an rest, nodes = JObj D :: rest
                    /\ dget s_Int D = Some (JObj [(s_Inds, i); (s_Names, n); (s_Count, k);
                                                  (s_PTypes, pt); (s_AttrNames, an)])).
Proof.
  induction cs as [|c cs IH]; intros H.
  - exists []. repeat split; try reflexivity. intros X. contradiction.
  - simpl in H. apply andb_true_iff in H. destruct H as [Hc Hcs]. destruct c as [f|p]; [discriminate|].
    destruct (pc_dict_roundtrip_shape p Hc) as [D [i [n [k [pt [an [H1 [H2 H3]]]]]]]].
    destruct (IH Hcs) as [nodes [N1 [N2 _]]].
    exists (JObj D :: nodes). cbn [smap]. rewrite H1. cbn [sbind]. rewrite N1. cbn [sbind].
    split; [reflexivity|]. split.
    + rewrite H3. cbn [sbind]. rewrite N2. reflexivity.
    + intros _. exists D, i, n, k, pt, an, nodes. split; [reflexivity | exact H2].
Qed.

Lemma arcs_readable ch :
  exists r, smap (fun a => sbind (as_obj a) (fun d_ => sbind (dkey s_S d_) (fun _ => dkey s_D d_)))
                 (arcs_of ch) = SOk r.
Proof.
  eexists. apply (smap_ok_in _ (fun a => match a with JObj [_; (_, d)] => d | _ => JNull end)).
  intros a Ha. unfold arcs_of in Ha. apply in_flat_map in Ha. destruct Ha as [[s ds] [_ Ha]].
  apply in_map_iff in Ha. destruct Ha as [d [E _]]. subst a. reflexivity.
Qed.

Theorem lattice_json_roundtrip objs attrs L :
  lat_admissibleb objs attrs L = true ->
  exists v, write_lattice_json objs attrs L = SOk v
    /\ read_lattice_json v = SOk (map conceptv_after (lv_concepts L))
    /\ children_eqb (lv_children L) (derived_children (map conceptv_after (lv_concepts L))) = true
    /\ is_top (map conceptv_after (lv_concepts L)) (lv_top L) = true
    /\ is_bottom (map conceptv_after (lv_concepts L)) (lv_bottom L) = true.
Proof.
  unfold lat_admissibleb. rewrite !andb_true_iff, !Nat.ltb_lt.
  intros [[[[[[Hlen Hch] Htl] Htop] Hbl] Hbot] Hcls].
  apply Nat.leb_le in Hlen.
  destruct L as [cs ch top bottom]. simpl in *.
  assert (Hne : cs <> []) by (destruct cs; [simpl in Hlen; lia | discriminate]).
  assert (Post : children_eqb ch (derived_children (map conceptv_after cs)) = true
                 /\ is_top (map conceptv_after cs) top = true
                 /\ is_bottom (map conceptv_after cs) bottom = true).
  { rewrite derived_children_after, is_top_after, is_bottom_after by assumption. auto. }
  assert (Hlt : Nat.ltb (length cs) 3 = false) by (apply Nat.ltb_ge; exact Hlen).
  destruct (arcs_readable ch) as [ar Har].
  unfold write_lattice_json. simpl lv_concepts. simpl lv_children. simpl lv_top. simpl lv_bottom.
  rewrite Hlt.
  destruct cs as [|c0 cs']; [contradiction|]. destruct c0 as [f0|p0].
  - (* formal lattice *)
    destruct (nodes_formal objs attrs (FC f0 :: cs') Hcls) as [nodes [N1 [N2 N3]]].
    destruct (N3 Hne) as [D [i [n [k [rest [EN GI]]]]]].
    rewrite N1. cbn [sbind]. eexists. split; [reflexivity|]. split; [|exact Post].
    unfold read_lattice_json. cbn [as_obj sbind].
    change (dkey s_Top _) with (SOk (JArr [jnat top])) at 1. cbn [sbind as_arr].
    change (dkey s_Bottom _) with (SOk (JArr [jnat bottom])) at 1. cbn [sbind as_arr as_obj].
    change (dkey s_Nodes [(s_Nodes, JArr nodes)]) with (SOk (JArr nodes)). cbn [sbind as_arr].
    rewrite EN. cbn [as_obj sbind]. unfold dkey at 1. rewrite GI. cbn [sbind].
    change (dget s_PTypes [(s_Inds, i); (s_Names, n); (s_Count, k)]) with (@None jv). cbv iota.
    rewrite <- EN. rewrite N2. cbn [sbind].
    change (dkey s_Arcs _) with (SOk (JArr (arcs_of ch))) at 1. cbn [sbind as_arr].
    rewrite Har. reflexivity.
  - (* pattern lattice *)
    destruct (nodes_pattern (PC p0 :: cs') Hcls) as [nodes [N1 [N2 N3]]].
    destruct (N3 Hne) as [D [i [n [k [pt [an [rest [EN GI]]]]]]]].
    rewrite N1. cbn [sbind]. eexists. split; [reflexivity|]. split; [|exact Post].
    unfold read_lattice_json. cbn [as_obj sbind].
    change (dkey s_Top _) with (SOk (JArr [jnat top])) at 1. cbn [sbind as_arr].
    change (dkey s_Bottom _) with (SOk (JArr [jnat bottom])) at 1. cbn [sbind as_arr as_obj].
    change (dkey s_Nodes [(s_Nodes, JArr nodes)]) with (SOk (JArr nodes)). cbn [sbind as_arr].
    rewrite EN. cbn [as_obj sbind]. unfold dkey at 1. rewrite GI. cbn [sbind].
    change (dget s_PTypes [(s_Inds, i); (s_Names, n); (s_Count, k); (s_PTypes, pt); (s_AttrNames, an)])
      with (Some pt). cbv iota.
    rewrite <- EN. rewrite N2. cbn [sbind].
    change (dkey s_Arcs _) with (SOk (JArr (arcs_of ch))) at 1. cbn [sbind as_arr].
    rewrite Har. reflexivity.
Qed.

Lemma conceptv_after_measures c : concept_measures (conceptv_after c) = concept_measures_after c.
Proof. destruct c; reflexivity. Qed.

(* Lemmas/C20.v — proofs for property C20 (decision lattice of a regression tree). *)
From Coq Require Import ZArith QArith Setoid Morphisms.
From FCA Require Import Base.ListSet Model.C20_DecisionLattice Spec.C20_TreeSpec.
Local Open Scope nat_scope.

(* ------------------------------------------------------------------ small facts *)
Lemma path_values_head t row : path_values t row = rval t :: tl (path_values t row).
Proof. destruct t; reflexivity. Qed.

Lemma rval_deltas_from pv t : rval (deltas_from pv t) = (rval t - pv)%Q.
Proof. destruct t; reflexivity. Qed.

Lemma rval_map_values h t : rval (map_values h t) = h (rval t).
Proof. destruct t; reflexivity. Qed.

Lemma cell_row X g f : cell X g f = nth f (row_of X g) 0%Q.
Proof. reflexivity. Qed.

(* ------------------------------------------------------------------ telescoping *)
Lemma telescoping_from pv t row :
  (qsum (path_values (deltas_from pv t) row) == tree_predict t row - pv)%Q.
Proof.
  revert pv. induction t as [v | v f thr l IHl r IHr]; intro pv; cbn [deltas_from path_values tree_predict qsum fold_right].
  - ring.
  - destruct (Qle_bool (nth f row 0%Q) thr).
    + fold (qsum (path_values (deltas_from v l) row)). rewrite IHl. ring.
    + fold (qsum (path_values (deltas_from v r) row)). rewrite IHr. ring.
Qed.

Lemma telescoping t row : (qsum (path_values (deltas t) row) == tree_predict t row)%Q.
Proof.
  destruct t as [v | v f thr l r]; cbn [deltas path_values tree_predict qsum fold_right].
  - ring.
  - destruct (Qle_bool (nth f row 0%Q) thr).
    + fold (qsum (path_values (deltas_from v l) row)). rewrite telescoping_from. ring.
    + fold (qsum (path_values (deltas_from v r) row)). rewrite telescoping_from. ring.
Qed.

(* ------------------------------------------------------------------ shape *)
(* two trees with the same splits (only the numbers at the nodes may differ) *)
Fixpoint same_shape (a b : rtree) : Prop :=
  match a, b with
  | RLeaf _, RLeaf _ => True
  | RNode _ f thr l r, RNode _ f' thr' l' r' => f = f' /\ thr = thr' /\ same_shape l l' /\ same_shape r r'
  | _, _ => False
  end.

Lemma same_shape_deltas_from pv t : same_shape t (deltas_from pv t).
Proof. revert pv; induction t; intro; cbn; auto. Qed.
Lemma same_shape_deltas t : same_shape t (deltas t).
Proof. destruct t; cbn; auto using same_shape_deltas_from. Qed.
Lemma same_shape_map_values h t : same_shape t (map_values h t).
Proof. induction t; cbn; auto. Qed.

Lemma fitted_on_shape X a b : same_shape a b -> forall ext, fitted_on X a ext = fitted_on X b ext.
Proof.
  revert b. induction a as [v | v f thr l IHl r IHr]; intros [v' | v' f' thr' l' r'] H ext; cbn in H; try contradiction.
  - reflexivity.
  - destruct H as (-> & -> & Hl & Hr). cbn [fitted_on]. rewrite (IHl _ Hl), (IHr _ Hr). reflexivity.
Qed.

(* ------------------------------------------------------------------ routing *)
Lemma eps_pos : (0 < eps)%Q.
Proof. reflexivity. Qed.

Lemma left_ext X f thr ext : sub_ext X f (left_ival thr) ext = filter (goes_left X f thr) ext.
Proof. reflexivity. Qed.

Lemma Qle_bool_false_lt a b : Qle_bool a b = false -> (b < a)%Q.
Proof.
  intro H. apply Qnot_le_lt. intro L. apply Qle_bool_iff in L. congruence.
Qed.

Lemma right_ext X f thr ext :
  existsb (in_gap X f thr) ext = false ->
  sub_ext X f (right_ival thr) ext = filter (fun g => negb (goes_left X f thr g)) ext.
Proof.
  intro G. unfold sub_ext. apply filter_ext_in'. intros g Hg.
  unfold in_ival, right_ival, goes_left. cbn [fst snd]. rewrite andb_true_r.
  assert (Hgap : in_gap X f thr g = false).
  { destruct (in_gap X f thr g) eqn:E; [|reflexivity].
    exfalso. assert (existsb (in_gap X f thr) ext = true) by (apply existsb_exists; eauto). congruence. }
  unfold in_gap in Hgap.
  destruct (Qle_bool (cell X g f) thr) eqn:L; destruct (Qle_bool (thr + eps) (cell X g f)) eqn:R; cbn in *; try congruence.
  (* both true is impossible: thr + eps <= x <= thr *)
  apply Qle_bool_iff in L. apply Qle_bool_iff in R.
  exfalso. assert (thr + eps <= thr)%Q by (eapply Qle_trans; eauto).
  assert (thr + 0 < thr + eps)%Q by (apply Qplus_lt_r; exact eps_pos).
  rewrite Qplus_0_r in H0. apply (Qlt_irrefl thr). eapply Qlt_le_trans; eauto.
Qed.

Lemma visit_incl X dt : forall ext r, In r (visit X dt ext) -> incl (fst r) ext.
Proof.
  induction dt as [v | v f thr l IHl r IHr]; intros ext rc H; cbn [visit] in H.
  - contradiction.
  - destruct H as [<- | [<- | H]].
    + cbn. intros x Hx. apply filter_In in Hx. tauto.
    + cbn. intros x Hx. apply filter_In in Hx. tauto.
    + apply in_app_or in H. destruct H as [H | H].
      * destruct (nonempty _); [|contradiction].
        intros x Hx. apply (IHl _ _ H) in Hx. apply filter_In in Hx. tauto.
      * destruct (nonempty _); [|contradiction].
        intros x Hx. apply (IHr _ _ H) in Hx. apply filter_In in Hx. tauto.
Qed.

Definition hits (g : nat) (r : list nat * Q) : bool := mem g (fst r).
Lemma hits_pair g a b : hits g (a, b) = mem g a.
Proof. reflexivity. Qed.

Lemma filter_nil_iff {A} (p : A -> bool) l : (forall x, In x l -> p x = false) -> filter p l = [].
Proof.
  induction l as [|a l IH]; intro H; cbn; [reflexivity|].
  rewrite (H a (or_introl eq_refl)). apply IH. intros x Hx. apply H. now right.
Qed.

Lemma visit_misses X dt ext g : ~ In g ext -> filter (hits g) (visit X dt ext) = [].
Proof.
  intro Hn. apply filter_nil_iff. intros r Hr. unfold hits.
  apply mem_false_iff. intro Hg. apply Hn. eapply visit_incl; eauto.
Qed.

Lemma nonempty_In g l : In g l -> nonempty l = true.
Proof. destruct l; [contradiction | reflexivity]. Qed.

Lemma routing_visit X dt : forall ext g,
  fitted_on X dt ext = true -> In g ext ->
  map snd (filter (hits g) (visit X dt ext)) = tl (path_values dt (row_of X g)).
Proof.
  induction dt as [v | v f thr l IHl r IHr]; intros ext g F Hg.
  - reflexivity.
  - cbn [fitted_on] in F. apply andb_true_iff in F. destruct F as [_ F].
    apply andb_true_iff in F. destruct F as [F Fr]. apply andb_true_iff in F. destruct F as [G Fl].
    apply negb_true_iff in G.
    cbn [visit path_values tl]. rewrite (right_ext _ _ _ _ G), left_ext.
    set (el := filter (goes_left X f thr) ext) in *.
    set (er := filter (fun g0 => negb (goes_left X f thr g0)) ext) in *.
    rewrite <- cell_row. fold (goes_left X f thr g).
    cbn [filter]. rewrite !hits_pair.
    destruct (goes_left X f thr g) eqn:L.
    + assert (Hel : In g el) by (apply filter_In; auto).
      assert (Her : ~ In g er) by (intro H; apply filter_In in H; rewrite L in H; cbn in H; destruct H; discriminate).
      rewrite (proj2 (mem_In g el) Hel). rewrite (proj2 (mem_false_iff g er) Her).
      rewrite (nonempty_In _ _ Hel). rewrite filter_app.
      replace (filter (hits g) (if nonempty er then visit X r er else [])) with (@nil (list nat * Q)).
      2:{ destruct (nonempty er); [symmetry; apply visit_misses; exact Her | reflexivity]. }
      rewrite app_nil_r. cbn [map snd]. rewrite (IHl _ _ Fl Hel).
      symmetry. apply path_values_head.
    + assert (Her : In g er) by (apply filter_In; rewrite L; auto).
      assert (Hel : ~ In g el) by (intro H; apply filter_In in H; destruct H; congruence).
      rewrite (proj2 (mem_In g er) Her). rewrite (proj2 (mem_false_iff g el) Hel).
      rewrite (nonempty_In _ _ Her). rewrite filter_app.
      replace (filter (hits g) (if nonempty el then visit X l el else [])) with (@nil (list nat * Q)).
      2:{ destruct (nonempty el); [symmetry; apply visit_misses; exact Hel | reflexivity]. }
      cbn [app map snd]. rewrite (IHr _ _ Fr Her).
      symmetry. apply path_values_head.
Qed.

(* the generators traced for row g, in tracing order, carry exactly the decisions of the nodes
   on g's root-to-leaf path, each once *)
Lemma routing_records X dt g :
  fitted X dt = true -> g < length X ->
  map snd (filter (hits g) (records X dt)) = path_values dt (row_of X g).
Proof.
  intros F Hg. unfold records. cbn [filter]. unfold hits at 1. cbn [fst].
  assert (In g (all_rows X)) by (apply in_seq; lia).
  rewrite (proj2 (mem_In _ _) H). cbn [map snd].
  rewrite (routing_visit X dt _ g F H). symmetry. apply path_values_head.
Qed.

(* ------------------------------------------------------------------ prediction = sum over hits *)
Lemma predict_row_acc recs g : forall acc,
  (fold_left (fun a r => if mem g (fst r) then Qred (a + snd r) else a) recs acc
   == acc + qsum (map snd (filter (hits g) recs)))%Q.
Proof.
  induction recs as [|r recs IH]; intro acc; cbn [fold_left filter].
  - cbn. ring.
  - unfold hits at 1. destruct (mem g (fst r)).
    + rewrite IH. rewrite Qred_correct. cbn [map qsum fold_right]. fold (qsum (map snd (filter (hits g) recs))). ring.
    + apply IH.
Qed.

Lemma predict_row_sum recs g : (predict_row recs g == qsum (map snd (filter (hits g) recs)))%Q.
Proof. unfold predict_row. rewrite predict_row_acc. ring. Qed.

Lemma map_rows X (h : list Q -> Q) : map h X = map (fun g => h (row_of X g)) (all_rows X).
Proof.
  unfold all_rows, row_of. induction X as [|row X IH]; [reflexivity|].
  cbn [length seq map]. f_equal. rewrite IH. rewrite <- seq_shift, map_map. reflexivity.
Qed.

Definition qs_eq (a b : list Q) : Prop := Forall2 Qeq a b.

Lemma qs_eq_map_seq (u w : nat -> Q) n :
  (forall g, g < n -> (u g == w g)%Q) -> qs_eq (map u (seq 0 n)) (map w (seq 0 n)).
Proof.
  intro H. assert (forall s, (forall g, s <= g < s + n -> (u g == w g)%Q) -> qs_eq (map u (seq s n)) (map w (seq s n))).
  { clear H. induction n as [|n IH]; intros s H; cbn; constructor.
    - apply H. lia.
    - apply IH. intros g Hg. apply H. lia. }
  apply H0. intros g Hg. apply H. lia.
Qed.

Lemma predict_deltas X t :
  fitted X t = true -> qs_eq (predict X (deltas t)) (map (tree_predict t) X).
Proof.
  intro F. rewrite (map_rows X (tree_predict t)). unfold predict, all_rows.
  apply qs_eq_map_seq. intros g Hg.
  rewrite predict_row_sum. rewrite routing_records; [apply telescoping | | exact Hg].
  unfold fitted. rewrite <- (fitted_on_shape X t (deltas t) (same_shape_deltas t)). exact F.
Qed.

(* ------------------------------------------------------------------ scaling *)
Lemma visit_map_values X h dt : forall ext,
  visit X (map_values h dt) ext = map (fun r => (fst r, h (snd r))) (visit X dt ext).
Proof.
  induction dt as [v | v f thr l IHl r IHr]; intro ext; cbn [map_values visit map]; [reflexivity|].
  rewrite !rval_map_values. cbn [fst snd]. f_equal. f_equal. rewrite map_app. f_equal.
  - destruct (nonempty _); [apply IHl | reflexivity].
  - destruct (nonempty _); [apply IHr | reflexivity].
Qed.

Lemma records_map_values X h dt :
  records X (map_values h dt) = map (fun r => (fst r, h (snd r))) (records X dt).
Proof. unfold records. cbn [map fst snd]. rewrite rval_map_values, visit_map_values. reflexivity. Qed.

Lemma filter_hits_map g (h : Q -> Q) recs :
  map snd (filter (hits g) (map (fun r => (fst r, h (snd r))) recs)) = map h (map snd (filter (hits g) recs)).
Proof.
  induction recs as [|[e d] recs IH]; [reflexivity|].
  cbn [map fst snd filter]. rewrite !hits_pair.
  destruct (mem g e); cbn [map snd]; rewrite <- IH; reflexivity.
Qed.

Lemma qsum_scale k l : (qsum (map (fun v => v * k) l) == qsum l * k)%Q.
Proof.
  induction l as [|a l IH]; cbn [map qsum fold_right].
  - ring.
  - fold (qsum (map (fun v => (v * k)%Q) l)). fold (qsum l). rewrite IH. ring.
Qed.

Lemma predict_mul X dt k :
  qs_eq (predict X (dl_mul dt k)) (map (fun v => v * k)%Q (predict X dt)).
Proof.
  unfold predict. rewrite map_map. apply qs_eq_map_seq. intros g _.
  rewrite !predict_row_sum. unfold dl_mul. rewrite records_map_values.
  pose proof (filter_hits_map g (fun v => (v * k)%Q) (records X dt)) as E. cbv beta in E. rewrite E.
  apply qsum_scale.
Qed.

Lemma dl_div_ok dt k : ~ (k == 0)%Q -> dl_div dt k = DOk (dl_mul dt (1 / k)%Q).
Proof.
  intro H. unfold dl_div. destruct (Qeq_bool k 0) eqn:E; [|reflexivity].
  apply Qeq_bool_iff in E. contradiction.
Qed.

Lemma dl_div_zero dt k : (k == 0)%Q -> dl_div dt k = DErr 11.
Proof. intro H. unfold dl_div. apply Qeq_bool_iff in H. rewrite H. reflexivity. Qed.

Lemma predict_div X dt k :
  ~ (k == 0)%Q ->
  qs_eq (predict X (dl_mul dt (1 / k)%Q)) (map (fun v => v / k)%Q (predict X dt)).
Proof.
  intro H. pose proof (predict_mul X dt (1 / k)%Q) as P.
  revert P. generalize (predict X (dl_mul dt (1 / k)%Q)) (predict X dt). intros a b P.
  unfold qs_eq in *. revert a P. induction b as [|y b IH]; intros a P; inversion P as [|x y' a' b' Hxy Hrest]; subst; cbn [map]; constructor.
  - rewrite Hxy. field. exact H.
  - apply IH. assumption.
Qed.

(* ------------------------------------------------------------------ the conversion succeeds on
   fitted trees: accumulated premises describe exactly the rows routed to the node *)
Definition prem_wf (p : premise) : Prop := NoDup (map fst p).

Lemma qle_max a b x : Qle_bool (if Qle_bool a b then b else a) x = Qle_bool a x && Qle_bool b x.
Proof.
  destruct (Qle_bool a b) eqn:AB.
  - apply Qle_bool_iff in AB. destruct (Qle_bool b x) eqn:BX.
    + apply Qle_bool_iff in BX. rewrite andb_true_r. symmetry. apply Qle_bool_iff. eapply Qle_trans; eauto.
    + now rewrite andb_false_r.
  - apply Qle_bool_false_lt in AB. destruct (Qle_bool a x) eqn:AX.
    + apply Qle_bool_iff in AX. cbn. symmetry. apply Qle_bool_iff.
      apply Qlt_le_weak. eapply Qlt_le_trans; eauto.
    + reflexivity.
Qed.

Lemma qle_min a b x : Qle_bool x (if Qle_bool a b then a else b) = Qle_bool x a && Qle_bool x b.
Proof.
  destruct (Qle_bool a b) eqn:AB.
  - apply Qle_bool_iff in AB. destruct (Qle_bool x a) eqn:XA.
    + apply Qle_bool_iff in XA. cbn. symmetry. apply Qle_bool_iff. eapply Qle_trans; eauto.
    + reflexivity.
  - apply Qle_bool_false_lt in AB. destruct (Qle_bool x b) eqn:XB.
    + apply Qle_bool_iff in XB. rewrite andb_true_r. symmetry. apply Qle_bool_iff.
      apply Qlt_le_weak. eapply Qle_lt_trans; eauto.
    + now rewrite andb_false_r.
Qed.

Lemma meet_spec x (d1 d2 : ival) :
  in_ival x (lo_max (fst d1) (fst d2), hi_min (snd d1) (snd d2)) = in_ival x d1 && in_ival x d2.
Proof.
  destruct d1 as [[a1|] [b1|]], d2 as [[a2|] [b2|]]; unfold in_ival; cbn [fst snd lo_max hi_min];
    rewrite ?qle_max, ?qle_min;
    repeat match goal with |- context [Qle_bool ?u ?w] => destruct (Qle_bool u w) end; reflexivity.
Qed.

Lemma in_ival_nonempty x d : in_ival x d = true -> ival_nonempty d = true.
Proof.
  destruct d as [[lo|] [hi|]]; unfold in_ival, ival_nonempty; cbn [fst snd]; intro H; try reflexivity.
  apply andb_true_iff in H. destruct H as [A B]. apply Qle_bool_iff in A. apply Qle_bool_iff in B.
  apply Qle_bool_iff. eapply Qle_trans; eauto.
Qed.

Definition sat_others (X : table) (p : premise) (f g : nat) : bool :=
  forallb (fun fd => Nat.eqb (fst fd) f || in_ival (cell X g (fst fd)) (snd fd)) p.

Lemma prem_get_none p f : prem_get p f = None <-> ~ In f (map fst p).
Proof.
  induction p as [|[f' d] p IH]; cbn [prem_get map fst In]; [tauto|].
  destruct (Nat.eqb f f') eqn:E.
  - apply Nat.eqb_eq in E. subst. split; [discriminate | intro H; exfalso; apply H; auto].
  - apply Nat.eqb_neq in E. rewrite IH. split; [intros H [H1|H1]; [congruence | auto] | intros H H1; apply H; auto].
Qed.

Lemma prem_set_new p f d : prem_get p f = None -> prem_set p f d = p ++ [(f, d)].
Proof.
  induction p as [|[f' d'] p IH]; cbn [prem_get prem_set app]; [reflexivity|].
  destruct (Nat.eqb f f'); [discriminate|]. intro H. now rewrite IH.
Qed.

Lemma sat_others_all X p f g : ~ In f (map fst p) -> sat_others X p f g = satisfies X p g.
Proof.
  intro H. unfold sat_others, satisfies. apply forallb_ext_in. intros [f' d] Hin. cbn [fst snd].
  destruct (Nat.eqb f' f) eqn:E; [|reflexivity].
  apply Nat.eqb_eq in E. subst. exfalso. apply H. apply in_map_iff. exists (f, d). auto.
Qed.

Lemma sat_split X p f d' g :
  prem_wf p -> prem_get p f = Some d' ->
  satisfies X p g = in_ival (cell X g f) d' && sat_others X p f g.
Proof.
  unfold prem_wf. induction p as [|[f' e] p IH]; cbn [prem_get map fst]; [discriminate|].
  intros W H. inversion W as [|? ? Hn W']; subst.
  unfold satisfies, sat_others. cbn [forallb fst snd].
  destruct (Nat.eqb f f') eqn:E.
  - apply Nat.eqb_eq in E. subst f'. inversion H; subst e. rewrite Nat.eqb_refl. cbn [orb].
    fold (sat_others X p f g). rewrite (sat_others_all X p f g Hn). reflexivity.
  - rewrite Nat.eqb_sym, E. cbn [orb]. fold (satisfies X p g). fold (sat_others X p f g).
    rewrite (IH W' H). destruct (in_ival (cell X g f') e), (in_ival (cell X g f) d'); reflexivity.
Qed.

Lemma sat_set X p f d' d g :
  prem_wf p -> prem_get p f = Some d' ->
  satisfies X (prem_set p f d) g = in_ival (cell X g f) d && sat_others X p f g.
Proof.
  unfold prem_wf. induction p as [|[f' e] p IH]; cbn [prem_get prem_set map fst]; [discriminate|].
  intros W H. inversion W as [|? ? Hn W']; subst.
  destruct (Nat.eqb f f') eqn:E.
  - apply Nat.eqb_eq in E. subst f'. unfold satisfies, sat_others. cbn [forallb fst snd].
    rewrite Nat.eqb_refl. cbn [orb]. fold (satisfies X p g). fold (sat_others X p f g).
    rewrite (sat_others_all X p f g Hn). reflexivity.
  - unfold satisfies, sat_others. cbn [forallb fst snd]. rewrite Nat.eqb_sym, E. cbn [orb].
    fold (satisfies X (prem_set p f d) g). fold (sat_others X p f g).
    rewrite (IH W' H). destruct (in_ival (cell X g f') e), (in_ival (cell X g f) d); reflexivity.
Qed.

Lemma keys_set p f d d' : prem_get p f = Some d' -> map fst (prem_set p f d) = map fst p.
Proof.
  induction p as [|[f' e] p IH]; cbn [prem_get prem_set map fst]; [discriminate|].
  destruct (Nat.eqb f f') eqn:E; intro H.
  - apply Nat.eqb_eq in E. subst. reflexivity.
  - cbn [map fst]. now rewrite IH.
Qed.

Lemma prem_add_spec X p f d :
  prem_wf p ->
  (exists g, satisfies X p g = true /\ in_ival (cell X g f) d = true) ->
  exists p', prem_add p f d = Some p' /\ prem_wf p' /\
             forall g, satisfies X p' g = satisfies X p g && in_ival (cell X g f) d.
Proof.
  intros W (g0 & S0 & I0). unfold prem_add. destruct (prem_get p f) as [d'|] eqn:G.
  - set (d'' := (lo_max (fst d') (fst d), hi_min (snd d') (snd d))).
    assert (N : ival_nonempty d'' = true).
    { apply (in_ival_nonempty (cell X g0 f)). unfold d''. rewrite meet_spec.
      rewrite (sat_split X p f d' g0 W G) in S0. apply andb_true_iff in S0. destruct S0 as [S0 _].
      now rewrite S0, I0. }
    rewrite N. eexists. split; [reflexivity|]. split.
    + unfold prem_wf. rewrite (keys_set p f d'' d' G). exact W.
    + intro g. rewrite (sat_set X p f d' d'' g W G), (sat_split X p f d' g W G). unfold d''.
      rewrite meet_spec.
      destruct (in_ival (cell X g f) d'), (in_ival (cell X g f) d), (sat_others X p f g); reflexivity.
  - eexists. split; [reflexivity|]. rewrite (prem_set_new p f d G). split.
    + unfold prem_wf. rewrite map_app. cbn [map fst].
      apply prem_get_none in G.
      clear - W G. unfold prem_wf in W. induction (map fst p) as [|a l IH]; cbn.
      * constructor; [intros []|constructor].
      * inversion W; subst. constructor.
        -- intro H. apply in_app_or in H. destruct H as [H|[H|[]]]; [contradiction|]. subst. apply G. now left.
        -- apply IH; [assumption|]. intro H. apply G. now right.
    + intro g. unfold satisfies. rewrite forallb_app. cbn [forallb fst snd]. now rewrite andb_true_r.
Qed.

Lemma gap_right X f thr ext g :
  existsb (in_gap X f thr) ext = false -> In g ext ->
  negb (goes_left X f thr g) = in_ival (cell X g f) (right_ival thr).
Proof.
  intros G Hg.
  pose proof (right_ext X f thr ext G) as E. unfold sub_ext in E.
  assert (In g (filter (fun g0 => in_ival (cell X g0 f) (right_ival thr)) ext) <->
          In g (filter (fun g0 => negb (goes_left X f thr g0)) ext)) by (rewrite E; tauto).
  rewrite !filter_In in H.
  destruct (negb (goes_left X f thr g)), (in_ival (cell X g f) (right_ival thr)); try reflexivity; exfalso.
  - destruct H as [_ H]. destruct (H (conj Hg eq_refl)). discriminate.
  - destruct H as [H _]. destruct (H (conj Hg eq_refl)). discriminate.
Qed.

Lemma nonzero_exists (l : list nat) : negb (Nat.eqb (length l) 0) = true -> exists g, In g l.
Proof. destruct l as [|g l]; [discriminate | exists g; now left]. Qed.

Lemma exists_nonzero (l : list nat) g : In g l -> negb (Nat.eqb (length l) 0) = true.
Proof. destruct l; [contradiction | reflexivity]. Qed.

Lemma fitted_conversion X t : forall p ext,
  prem_wf p ->
  (forall g, In g ext <-> In g (all_rows X) /\ satisfies X p g = true) ->
  fitted_on X t ext = true ->
  prems_ok p t = true /\ all_reached X p t = true.
Proof.
  induction t as [v | v f thr l IHl r IHr]; intros p ext W E F; cbn [fitted_on] in F.
  - cbn [prems_ok all_reached]. split; [reflexivity|]. rewrite andb_true_r.
    rewrite andb_true_r in F. destruct (nonzero_exists _ F) as [g Hg].
    apply (exists_nonzero _ g). unfold extension. apply filter_In. apply E in Hg. tauto.
  - apply andb_true_iff in F. destruct F as [Fne F].
    apply andb_true_iff in F. destruct F as [F Fr]. apply andb_true_iff in F. destruct F as [G Fl].
    apply negb_true_iff in G.
    set (el := filter (goes_left X f thr) ext) in *.
    set (er := filter (fun g0 => negb (goes_left X f thr g0)) ext) in *.
    (* witnesses in both children *)
    assert (Nl : negb (Nat.eqb (length el) 0) = true) by (destruct l; cbn [fitted_on] in Fl; apply andb_true_iff in Fl; tauto).
    assert (Nr : negb (Nat.eqb (length er) 0) = true) by (destruct r; cbn [fitted_on] in Fr; apply andb_true_iff in Fr; tauto).
    destruct (nonzero_exists _ Nl) as [gl Hgl]. destruct (nonzero_exists _ Nr) as [gr Hgr].
    apply filter_In in Hgl. destruct Hgl as [Hgl Ll]. apply filter_In in Hgr. destruct Hgr as [Hgr Lr].
    destruct (prem_add_spec X p f (left_ival thr) W) as (pl & Al & Wl & Sl).
    { exists gl. split; [apply E in Hgl; tauto|]. exact Ll. }
    destruct (prem_add_spec X p f (right_ival thr) W) as (pr & Ar & Wr & Sr).
    { exists gr. split; [apply E in Hgr; tauto|]. rewrite <- (gap_right X f thr ext gr G Hgr). exact Lr. }
    assert (El : forall g, In g el <-> In g (all_rows X) /\ satisfies X pl g = true).
    { intro g. unfold el. rewrite filter_In, Sl, E, andb_true_iff. unfold goes_left, in_ival, left_ival. cbn [fst snd]. tauto. }
    assert (Er : forall g, In g er <-> In g (all_rows X) /\ satisfies X pr g = true).
    { intro g. unfold er. rewrite filter_In, Sr, andb_true_iff. split.
      - intros [Hg Hn]. rewrite (gap_right X f thr ext g G Hg) in Hn. apply E in Hg. tauto.
      - intros [Hr [Hs Hi]]. assert (Hg : In g ext) by (apply E; tauto).
        split; [exact Hg|]. now rewrite (gap_right X f thr ext g G Hg). }
    destruct (IHl pl el Wl El Fl) as [Pl Rl]. destruct (IHr pr er Wr Er Fr) as [Pr Rr].
    cbn [prems_ok all_reached]. rewrite Al, Ar, Pl, Pr, Rl, Rr. split; [reflexivity|].
    rewrite !andb_true_r. destruct (nonzero_exists _ Fne) as [g Hg].
    apply (exists_nonzero _ g). unfold extension. apply filter_In. apply E in Hg. tauto.
Qed.

Lemma from_tree_fitted X t : fitted X t = true -> from_tree X t = DOk (deltas t).
Proof.
  intro F. unfold from_tree.
  destruct (fitted_conversion X t [] (all_rows X)) as [P R].
  - constructor.
  - intro g. cbn. tauto.
  - exact F.
  - rewrite P, R. reflexivity.
Qed.

Lemma predict_agrees X t :
  fitted X t = true ->
  exists dl, from_tree X t = DOk dl /\ qs_eq (predict X dl) (map (tree_predict t) X).
Proof.
  intro F. exists (deltas t). split; [apply from_tree_fitted; exact F | apply predict_deltas; exact F].
Qed.

(* the traced generators of a fitted tree, for the decision lattice itself *)
Lemma routing_agrees X t g :
  fitted X t = true -> g < length X ->
  map snd (filter (hits g) (records X (deltas t))) = path_values (deltas t) (row_of X g).
Proof.
  intros F Hg. apply routing_records; [|exact Hg].
  unfold fitted. rewrite <- (fitted_on_shape X t (deltas t) (same_shape_deltas t)). exact F.
Qed.

Lemma qs_eq_trans_map (h : Q -> Q) a b c :
  (forall x y, (x == y)%Q -> (h x == h y)%Q) ->
  qs_eq a (map h b) -> qs_eq b c -> qs_eq a (map h c).
Proof.
  intros Hh. unfold qs_eq. revert a c. induction b as [|y b IH]; intros a c Hab Hbc.
  - inversion Hbc; subst. exact Hab.
  - inversion Hbc as [|? z ? c' Hyz Hrest]; subst. cbn [map] in *.
    inversion Hab as [|x ? a' ? Hxy Hrest']; subst. constructor.
    + rewrite Hxy. apply Hh. exact Hyz.
    + apply IH; assumption.
Qed.

Lemma scaled_tree X t k :
  fitted X t = true ->
  qs_eq (predict X (dl_mul (deltas t) k)) (map (fun row => tree_predict t row * k)%Q X).
Proof.
  intro F. rewrite <- (map_map (tree_predict t) (fun v => (v * k)%Q)).
  eapply qs_eq_trans_map; [| apply predict_mul | apply predict_deltas; exact F].
  intros x y H. now rewrite H.
Qed.

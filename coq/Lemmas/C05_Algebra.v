(* Lemmas/C05_Algebra.v — transpose, complement, & and |, equality, to_list and conversion between
   the classes: each back-end model equals the back-end-free spec. *)
From FCA Require Import Base.ListSet Model.BinTable Model.BinTableOps Spec.Galois
     Spec.BinTableOpsSpec Lemmas.BitRow.
From FCA Require Import Lemmas.C05_Base.

(* ---------------------------------------------------------------- T *)

Lemma T_m_correct b t : T_m b t = S_T t.
Proof.
  destruct b; unfold T_m.
  - reflexivity.
  - unfold N_T, S_T. apply map_ext. intros k. apply column_cells.
  - reflexivity.
Qed.

Lemma height_S_T t : height (S_T t) = width t.
Proof. unfold height, S_T, cols_of. rewrite map_length, seq_length. reflexivity. Qed.

Lemma width_S_T t : 0 < width t -> width (S_T t) = height t.
Proof.
  intros Hw. unfold S_T, cols_of. destruct (width t) as [|w]; [lia|].
  simpl. unfold rows_of. rewrite map_length, seq_length. reflexivity.
Qed.

(* the cells of the transpose *)
Lemma cell_S_T t i j : i < height t -> j < width t -> cell (S_T t) j i = cell t i j.
Proof.
  intros Hi Hj. unfold cell at 1, row, S_T, cols_of, rows_of.
  rewrite (nth_map_seq (fun j => map (fun i => cell t i j) (seq 0 (height t))) (width t) j []) by exact Hj.
  rewrite (nth_map_seq (fun i => cell t i j) (height t) i false) by exact Hi. reflexivity.
Qed.

Lemma wf_S_T t : wf (S_T t).
Proof.
  unfold wf. apply Forall_forall. intros r Hr.
  assert (Hlen : length r = height t).
  { unfold S_T in Hr. apply in_map_iff in Hr. destruct Hr as [j [E _]]. subst r.
    unfold rows_of. rewrite map_length, seq_length. reflexivity. }
  rewrite Hlen. unfold S_T, cols_of in *. destruct (width t) as [|w]; [destruct Hr|].
  simpl. unfold rows_of. rewrite map_length, seq_length. reflexivity.
Qed.

(* transposing twice gives the table back *)
Lemma S_T_involutive t : wf t -> 0 < height t -> 0 < width t -> S_T (S_T t) = t.
Proof.
  intros Hwf Hh Hw. rewrite (table_cells t Hwf) at 2.
  unfold S_T at 1. unfold sub, cols_of, rows_of. rewrite width_S_T, height_S_T by exact Hw.
  apply map_ext_in. intros i Hi. apply in_seq in Hi. apply map_ext_in. intros j Hj. apply in_seq in Hj.
  apply cell_S_T; lia.
Qed.

(* ---------------------------------------------------------------- ~ *)

Lemma map_rows t (f : list bool -> list bool) :
  map f t = map (fun i => f (row t i)) (rows_of t).
Proof.
  transitivity (map f (map (row t) (seq 0 (height t)))).
  - f_equal. symmetry. apply map_row_seq.
  - rewrite map_map. reflexivity.
Qed.

Lemma invert_m_correct b t : wf t -> invert_m b t = S_invert t.
Proof.
  intros Hwf.
  assert (E : map (fun r => map negb r) t = S_invert t).
  { rewrite map_rows. unfold S_invert. apply map_ext_in. intros i Hi. apply in_seq in Hi.
    rewrite (row_cells t i Hwf) by lia. rewrite map_map. reflexivity. }
  destruct b; exact E.
Qed.

(* ---------------------------------------------------------------- & | *)

Lemma map2_rows {A} (f : list bool -> list bool -> A) t u :
  height t = height u ->
  map2 f t u = map (fun i => f (row t i) (row u i)) (rows_of t).
Proof.
  intros Hh. rewrite <- (map_row_seq t) at 1. rewrite <- (map_row_seq u) at 1.
  rewrite <- Hh. apply map2_map_map.
Qed.

Lemma pointwise_correct (f : bool -> bool -> bool) t u :
  wf t -> wf u -> same_shape t u = true ->
  map2 (fun ra rb => map2 f ra rb) t u = S_pointwise f t u.
Proof.
  intros Ht Hu Hs. unfold same_shape in Hs. apply andb_true_iff in Hs. destruct Hs as [Hh Hw].
  apply Nat.eqb_eq in Hh, Hw.
  rewrite map2_rows by exact Hh. unfold S_pointwise. apply map_ext_in. intros i Hi. apply in_seq in Hi.
  rewrite (row_cells t i Ht) by lia. rewrite (row_cells u i Hu) by lia.
  unfold cols_of. rewrite <- Hw. apply map2_map_map.
Qed.

Lemma and_m_correct b t u :
  wf t -> wf u ->
  and_m b t u = if same_shape t u then ROk (S_pointwise andb t u) else RErr E_Assertion.
Proof.
  intros Ht Hu. unfold and_m. change (shape_eqb t u) with (same_shape t u).
  destruct (same_shape t u) eqn:E; simpl; [|reflexivity]. f_equal.
  destruct b; apply (pointwise_correct andb); assumption.
Qed.

Lemma or_m_correct b t u :
  wf t -> wf u ->
  or_m b t u = if same_shape t u then ROk (S_pointwise orb t u) else RErr E_Assertion.
Proof.
  intros Ht Hu. unfold or_m. change (shape_eqb t u) with (same_shape t u).
  destruct (same_shape t u) eqn:E; simpl; [|reflexivity]. f_equal.
  destruct b; apply (pointwise_correct orb); assumption.
Qed.

(* the cells of the results *)
Lemma cell_map_seq2 (g : nat -> nat -> bool) h w i j :
  i < h -> j < w -> cell (map (fun i => map (fun j => g i j) (seq 0 w)) (seq 0 h)) i j = g i j.
Proof.
  intros Hi Hj. unfold cell, row.
  rewrite (nth_map_seq (fun i => map (fun j => g i j) (seq 0 w)) h i []) by exact Hi.
  apply (nth_map_seq (fun j => g i j) w j false). exact Hj.
Qed.

Lemma cell_S_pointwise f t u i j :
  i < height t -> j < width t -> cell (S_pointwise f t u) i j = f (cell t i j) (cell u i j).
Proof. intros Hi Hj. unfold S_pointwise, rows_of, cols_of.
  apply (cell_map_seq2 (fun i j => f (cell t i j) (cell u i j)) _ _ i j Hi Hj). Qed.

Lemma cell_S_invert t i j :
  i < height t -> j < width t -> cell (S_invert t) i j = negb (cell t i j).
Proof. intros Hi Hj. unfold S_invert, rows_of, cols_of.
  apply (cell_map_seq2 (fun i j => negb (cell t i j)) _ _ i j Hi Hj). Qed.

(* ---------------------------------------------------------------- == *)

Lemma list_eqb_length {A} (e : A -> A -> bool) a b : list_eqb e a b = true -> length a = length b.
Proof.
  revert b. induction a as [|x a IH]; intros [|y b] H; simpl in *; try discriminate; [reflexivity|].
  apply andb_true_iff in H. f_equal. apply IH. apply H.
Qed.

Lemma table_eqb_eq t u : table_eqb t u = true <-> t = u.
Proof.
  unfold table_eqb. apply list_eqb_eq. intros x y. apply bool_list_eqb_eq.
Qed.

Lemma forallb_map2_eqb (a b : list bool) :
  length a = length b -> forallb id (map2 Bool.eqb a b) = list_eqb Bool.eqb a b.
Proof.
  revert b. induction a as [|x a IH]; intros [|y b] H; simpl in *; try discriminate; [reflexivity|].
  unfold id at 1. rewrite IH by lia. reflexivity.
Qed.

Lemma N_eq_data (t u : table) w :
  length t = length u -> Forall (fun r => length r = w) t -> Forall (fun r => length r = w) u ->
  forallb (fun r => forallb id r) (map2 (fun ra rb => map2 Bool.eqb ra rb) t u) = table_eqb t u.
Proof.
  unfold table_eqb. revert u. induction t as [|r t IH]; intros [|s u] Hl Ht Hu; simpl in *;
    try discriminate; [reflexivity|].
  inversion Ht; subst. inversion Hu; subst.
  rewrite forallb_map2_eqb by congruence. rewrite IH by (try assumption; lia). reflexivity.
Qed.

Lemma width_neq_table_eqb t u :
  height t = height u -> 0 < height t -> width t <> width u -> table_eqb t u = false.
Proof.
  intros Hh Hp Hw. destruct t as [|r t]; [simpl in Hp; lia|]. destruct u as [|s u]; [discriminate|].
  unfold table_eqb. simpl in *. destruct (list_eqb Bool.eqb r s) eqn:E; [|reflexivity].
  apply list_eqb_length in E. contradiction.
Qed.

Lemma eq_m_correct b t u :
  wf t -> wf u -> 0 < height t -> eq_m b t u = table_eqb t u.
Proof.
  intros Ht Hu Hp.
  assert (Hcommon : forall data_eq : bool,
    (height t = height u -> width t = width u -> data_eq = table_eqb t u) ->
    (if negb (Nat.eqb (height t) (height u)) then false
     else if negb (Nat.eqb (width t) (width u)) then false else data_eq) = table_eqb t u).
  { intros d Hd. destruct (Nat.eqb_spec (height t) (height u)) as [Hh|Hh]; simpl.
    - destruct (Nat.eqb_spec (width t) (width u)) as [Hw|Hw]; simpl.
      + apply Hd; assumption.
      + symmetry. apply width_neq_table_eqb; assumption.
    - destruct (table_eqb t u) eqn:E; [|reflexivity]. apply list_eqb_length in E. contradiction. }
  destruct b; unfold eq_m, L_eq, N_eq, B_eq; apply Hcommon; intros Hh Hw.
  - reflexivity.
  - apply (N_eq_data t u (width t)); [exact Hh | exact Ht | rewrite Hw; exact Hu].
  - reflexivity.
Qed.

(* ---------------------------------------------------------------- to_list, conversion *)

Lemma map_map_id (d : table) : map (fun r => map (fun v : bool => v) r) d = d.
Proof. rewrite <- (map_id d) at 2. apply map_ext. intros r. apply map_id. Qed.

Lemma to_list_m_ok b d : to_list_m b d = ROk d.
Proof. destruct b; simpl; try reflexivity. rewrite map_map_id. reflexivity. Qed.

Lemma observe_ok b d : observe b d = ROk (tval d).
Proof. unfold observe. rewrite to_list_m_ok. reflexivity. Qed.

Lemma construct_ok c k d : construct c k d = ROk d.
Proof.
  unfold construct. destruct d as [|r d]; [reflexivity|].
  destruct (backend_eqb k c); [reflexivity|].
  rewrite to_list_m_ok. reflexivity.
Qed.

Lemma backend_eqb_eq a b : backend_eqb a b = true <-> a = b.
Proof. destruct a, b; simpl; split; intros H; try reflexivity; try discriminate. Qed.

(* converting a non-empty table between any two classes preserves the content; asking for
   'auto' with a table object is rejected by every class *)
Lemma conv_op_correct b t via target :
  t <> [] ->
  conv_op b t via target
  = match via, target with
    | 0, None => RErr E_Type
    | _, _ => ROk (VConv (default BBitarray target) (height t) (width t) t)
    end.
Proof.
  intros Hne. unfold conv_op, init_bintable.
  destruct via as [|via]; destruct target as [c|]; simpl.
  - destruct (backend_eqb b c) eqn:E; simpl.
    + apply backend_eqb_eq in E. subst c. rewrite to_list_m_ok. reflexivity.
    + rewrite construct_ok. simpl. rewrite to_list_m_ok. reflexivity.
  - destruct t; [contradiction | reflexivity].
  - rewrite construct_ok. simpl. rewrite to_list_m_ok. reflexivity.
  - rewrite construct_ok. simpl. rewrite map_map_id. reflexivity.
Qed.

(* to_list of a table built in class b1 and converted to class b2 is the original content *)
Lemma conversion_preserves b1 b2 t via :
  t <> [] ->
  rbind (init_bintable b1 t via (Some b2)) (fun cd => to_list_m (fst cd) (snd cd)) = ROk t
  /\ rbind (init_bintable b1 t via (Some b2)) (fun cd => ROk (fst cd)) = ROk b2.
Proof.
  intros Hne. unfold init_bintable. destruct via as [|via]; simpl.
  - destruct (backend_eqb b1 b2) eqn:E; simpl.
    + apply backend_eqb_eq in E. subst. rewrite to_list_m_ok. auto.
    + rewrite construct_ok. simpl. rewrite to_list_m_ok. auto.
  - rewrite construct_ok. simpl. rewrite to_list_m_ok. auto.
Qed.

(* Lemmas/C09Base.v — association lists, index sets and finite-order facts used by the proofs
   of the poset cluster (C09, C10, C11). *)
From FCA Require Import Base.ListSet Spec.PosetSpec Model.Poset.
From Coq Require Import Permutation.

(* ------------------------------------------------------------------ association lists *)
Section AssocLemmas.
  Context {K V : Type}.
  Variable keqb : K -> K -> bool.
  Hypothesis keqb_spec : forall a b, keqb a b = true <-> a = b.

  Lemma keqb_refl k : keqb k k = true.
  Proof. apply keqb_spec. reflexivity. Qed.

  Lemma keqb_neq a b : a <> b -> keqb a b = false.
  Proof. intros H. destruct (keqb a b) eqn:Hk; [apply keqb_spec in Hk; contradiction | reflexivity]. Qed.

  Lemma lookup_In (c : list (K * V)) k v : lookup keqb c k = Some v -> In (k, v) c.
  Proof.
    induction c as [|[k' v'] c IH]; simpl; [discriminate|].
    destruct (keqb k k') eqn:Hk.
    - intros H. injection H as <-. apply keqb_spec in Hk. subst. left. reflexivity.
    - intros H. right. apply IH. exact H.
  Qed.

  Lemma In_remove_key (c : list (K * V)) k x : In x (remove_key keqb k c) -> In x c /\ fst x <> k.
  Proof.
    induction c as [|[k' v'] c IH]; simpl; [tauto|].
    destruct (keqb k k') eqn:Hk.
    - intros H. destruct (IH H). tauto.
    - intros [<- | H].
      + split; [left; reflexivity|]. simpl. intros ->. rewrite keqb_refl in Hk. discriminate.
      + destruct (IH H). tauto.
  Qed.

  Lemma In_update (c : list (K * V)) k v x : In x (update keqb k v c) -> x = (k, v) \/ (In x c /\ fst x <> k).
  Proof.
    unfold update. intros [<- | H]; [left; reflexivity | right; apply In_remove_key; exact H].
  Qed.

  Lemma lookup_remove_key (c : list (K * V)) k k' :
    lookup keqb (remove_key keqb k c) k' = if keqb k' k then None else lookup keqb c k'.
  Proof.
    induction c as [|[k1 v1] c IH]; simpl.
    - destruct (keqb k' k); reflexivity.
    - destruct (keqb k k1) eqn:H1.
      + apply keqb_spec in H1. subst k1. rewrite IH. destruct (keqb k' k); reflexivity.
      + simpl. rewrite IH. destruct (keqb k' k1) eqn:H2; [|reflexivity].
        apply keqb_spec in H2. subst k1.
        destruct (keqb k' k) eqn:H3; [|reflexivity].
        apply keqb_spec in H3. subst. rewrite keqb_refl in H1. discriminate.
  Qed.

  Lemma lookup_update (c : list (K * V)) k v k' :
    lookup keqb (update keqb k v c) k' = if keqb k' k then Some v else lookup keqb c k'.
  Proof.
    unfold update. simpl. destruct (keqb k' k) eqn:H; [reflexivity|].
    rewrite lookup_remove_key, H. reflexivity.
  Qed.

  Lemma lookup_update_same (c : list (K * V)) k v : lookup keqb (update keqb k v c) k = Some v.
  Proof. rewrite lookup_update, keqb_refl. reflexivity. Qed.

  Lemma lookup_update_other (c : list (K * V)) k v k' :
    k' <> k -> lookup keqb (update keqb k v c) k' = lookup keqb c k'.
  Proof. intros H. rewrite lookup_update, keqb_neq by exact H. reflexivity. Qed.
End AssocLemmas.

Lemma pair_eqb_spec (p q : nat * nat) : pair_eqb p q = true <-> p = q.
Proof.
  destruct p as [a b], q as [c d]. unfold pair_eqb. simpl.
  rewrite andb_true_iff, !Nat.eqb_eq. split; [intros [-> ->]; reflexivity | intros H; injection H; auto].
Qed.

Lemma lk_In (c : cache) k v : lk c k = Some v -> In (k, v) c.
Proof. apply lookup_In. apply Nat.eqb_eq. Qed.
Lemma lkl_In (c : lcache) k v : lkl c k = Some v -> In (k, v) c.
Proof. apply lookup_In. apply pair_eqb_spec. Qed.
Lemma In_upd (c : cache) k v x : In x (upd k v c) -> x = (k, v) \/ (In x c /\ fst x <> k).
Proof. apply In_update. apply Nat.eqb_eq. Qed.
Lemma In_updl (c : lcache) k v x : In x (updl k v c) -> x = (k, v) \/ (In x c /\ fst x <> k).
Proof. apply In_update. apply pair_eqb_spec. Qed.
Lemma lk_upd (c : cache) k v k' : lk (upd k v c) k' = if Nat.eqb k' k then Some v else lk c k'.
Proof. apply lookup_update. apply Nat.eqb_eq. Qed.
Lemma lk_upd_same (c : cache) k v : lk (upd k v c) k = Some v.
Proof. rewrite lk_upd, Nat.eqb_refl. reflexivity. Qed.
Lemma lk_upd_other (c : cache) k v k' : k' <> k -> lk (upd k v c) k' = lk c k'.
Proof. intros H. rewrite lk_upd. apply Nat.eqb_neq in H. rewrite H. reflexivity. Qed.
Lemma lkl_updl (c : lcache) k v k' : lkl (updl k v c) k' = if pair_eqb k' k then Some v else lkl c k'.
Proof. apply lookup_update. apply pair_eqb_spec. Qed.
Lemma lkl_updl_same (c : lcache) k v : lkl (updl k v c) k = Some v.
Proof. rewrite lkl_updl. replace (pair_eqb k k) with true; [reflexivity|]. symmetry. apply pair_eqb_spec. reflexivity. Qed.
Lemma lkl_updl_other (c : lcache) k v k' : k' <> k -> lkl (updl k v c) k' = lkl c k'.
Proof.
  intros H. rewrite lkl_updl. destruct (pair_eqb k' k) eqn:Hp; [|reflexivity].
  apply pair_eqb_spec in Hp. contradiction.
Qed.
Lemma In_remove_key_nat (c : cache) k x : In x (remove_key Nat.eqb k c) -> In x c /\ fst x <> k.
Proof. apply In_remove_key. apply Nat.eqb_eq. Qed.
Lemma lk_remove_key (c : cache) k k' : lk (remove_key Nat.eqb k c) k' = if Nat.eqb k' k then None else lk c k'.
Proof. apply lookup_remove_key. apply Nat.eqb_eq. Qed.

(* ------------------------------------------------------------------ index sets *)
Lemma NoDup_filter {A} (p : A -> bool) l : NoDup l -> NoDup (filter p l).
Proof.
  induction 1 as [|x l Hx Hl IH]; simpl; [constructor|].
  destruct (p x); [constructor; [rewrite filter_In; tauto | exact IH] | exact IH].
Qed.

Lemma In_diff x a b : In x (diff a b) <-> In x a /\ ~ In x b.
Proof. apply diff_In. Qed.
Lemma In_inter x a b : In x (inter a b) <-> In x a /\ In x b.
Proof. apply inter_In. Qed.
Lemma NoDup_diff a b : NoDup a -> NoDup (diff a b).
Proof. apply NoDup_filter. Qed.
Lemma NoDup_inter a b : NoDup a -> NoDup (inter a b).
Proof. apply NoDup_filter. Qed.

Lemma In_union x a b : In x (union a b) <-> In x a \/ In x b.
Proof.
  unfold union. rewrite in_app_iff, In_diff. split; [tauto|].
  intros [H | H]; [left; exact H|]. destruct (in_dec Nat.eq_dec x a); tauto.
Qed.

Lemma NoDup_app_intro {A} (a b : list A) :
  NoDup a -> NoDup b -> (forall x, In x a -> ~ In x b) -> NoDup (a ++ b).
Proof.
  induction 1 as [|x a Hx Ha IH]; simpl; intros Hb Hd; [exact Hb|].
  constructor.
  - rewrite in_app_iff. intros [H | H]; [contradiction | apply (Hd x); [left; reflexivity | exact H]].
  - apply IH; [exact Hb | intros y Hy; apply Hd; right; exact Hy].
Qed.

Lemma NoDup_union a b : NoDup a -> NoDup b -> NoDup (union a b).
Proof.
  intros Ha Hb. unfold union. apply NoDup_app_intro; [exact Ha | apply NoDup_diff; exact Hb|].
  intros x Hx. rewrite In_diff. tauto.
Qed.

Lemma In_add1 x y l : In x (add1 y l) <-> x = y \/ In x l.
Proof.
  unfold add1. destruct (mem y l) eqn:H.
  - apply mem_In in H. split; [tauto | intros [-> | H']; assumption].
  - rewrite in_app_iff. simpl. split; [intros [H' | [<- | []]]; tauto | intros [-> | H']; tauto].
Qed.

Lemma NoDup_add1 y l : NoDup l -> NoDup (add1 y l).
Proof.
  intros Hl. unfold add1. destruct (mem y l) eqn:H; [exact Hl|].
  apply mem_false_iff in H. apply NoDup_app_intro; [exact Hl | constructor; [simpl; tauto | constructor]|].
  intros x Hx [<- | []]. contradiction.
Qed.

Lemma In_seq0 n x : In x (seq 0 n) <-> x < n.
Proof. rewrite in_seq. lia. Qed.

(* two duplicate-free listings of one set: singleton together *)
Lemma same_members_singleton (l1 l2 : list nat) :
  NoDup l1 -> NoDup l2 -> (forall x, In x l1 <-> In x l2) ->
  match l1 with [z] => Some z | _ => None end = match l2 with [z] => Some z | _ => None end.
Proof.
  intros H1 H2 H.
  assert (P : Permutation l1 l2) by (apply NoDup_Permutation; assumption).
  pose proof (Permutation_length P) as L.
  destruct l1 as [|a [|b l1]], l2 as [|c [|d l2]]; simpl in L; try discriminate; try reflexivity.
  assert (In a [c]) by (apply H; left; reflexivity). destruct H0 as [-> | []]. reflexivity.
Qed.

Lemma is_nil_same_members (l1 l2 : list nat) :
  (forall x, In x l1 <-> In x l2) -> is_nil l1 = is_nil l2.
Proof.
  intros H. destruct l1 as [|a l1], l2 as [|b l2]; simpl; try reflexivity.
  - exfalso. apply (H b). left. reflexivity.
  - exfalso. apply (H a). left. reflexivity.
Qed.

(* norm lists the members in ascending order; it only depends on the set of members *)
Lemma list_max_ge x l : In x l -> x <= list_max l.
Proof.
  induction l as [|y l IH]; simpl; [tauto|]. intros [-> | H]; [lia | specialize (IH H); lia].
Qed.

Lemma In_norm x l : In x (norm l) <-> In x l.
Proof.
  unfold norm. rewrite filter_In, mem_In, In_seq0. split; [tauto|].
  intros H. split; [|exact H]. pose proof (list_max_ge x l H). lia.
Qed.

Lemma filter_seq_shrink (p : nat -> bool) n m :
  n <= m -> (forall x, p x = true -> x < n) -> filter p (seq 0 m) = filter p (seq 0 n).
Proof.
  intros Hnm Hp. replace m with (n + (m - n)) by lia. rewrite seq_app, filter_app. simpl.
  replace (filter p (seq n (m - n))) with (@nil nat); [rewrite app_nil_r; reflexivity|].
  symmetry. generalize (m - n) as k. intros k.
  assert (forall a, n <= a -> filter p (seq a k) = []) as G.
  { induction k as [|k IH]; intros a Ha; simpl; [reflexivity|].
    destruct (p a) eqn:Hpa; [apply Hp in Hpa; lia | apply IH; lia]. }
  apply G. lia.
Qed.

Lemma norm_bounded l n :
  (forall x, In x l -> x < n) -> norm l = filter (fun j => mem j l) (seq 0 n).
Proof.
  intros H. unfold norm.
  destruct (Nat.le_gt_cases (S (list_max l)) n) as [Hle | Hgt].
  - symmetry. apply filter_seq_shrink; [exact Hle|].
    intros x Hx. apply mem_In in Hx. pose proof (list_max_ge x l Hx). lia.
  - apply filter_seq_shrink; [lia|]. intros x Hx. apply mem_In in Hx. apply H. exact Hx.
Qed.

Lemma norm_eq_filter (p : nat -> bool) l n :
  (forall x, In x l <-> x < n /\ p x = true) -> norm l = filter p (seq 0 n).
Proof.
  intros H. rewrite (norm_bounded l n) by (intros x Hx; apply H in Hx; tauto).
  apply filter_ext_in'. intros x Hx. apply In_seq0 in Hx.
  apply bool_eq_iff. rewrite mem_In, H. tauto.
Qed.

Lemma filter_length_mono {A} (p q : A -> bool) (L : list A) :
  (forall x, In x L -> p x = true -> q x = true) ->
  length (filter p L) <= length (filter q L).
Proof.
  induction L as [|z L IH]; simpl; intros Hpq; [lia|].
  assert (length (filter p L) <= length (filter q L)) as H.
  { apply IH. intros x Hx. apply Hpq. right. exact Hx. }
  destruct (p z) eqn:Hpz.
  - rewrite (Hpq z (or_introl eq_refl) Hpz). simpl. lia.
  - destruct (q z); simpl; lia.
Qed.

Lemma filter_length_lt {A} (p q : A -> bool) (L : list A) (x0 : A) :
  (forall x, In x L -> p x = true -> q x = true) ->
  In x0 L -> q x0 = true -> p x0 = false ->
  length (filter p L) < length (filter q L).
Proof.
  induction L as [|y L IH]; simpl; intros Hpq Hin Hq Hp; [destruct Hin|].
  assert (Hpq' : forall x, In x L -> p x = true -> q x = true).
  { intros x Hx. apply Hpq. right. exact Hx. }
  pose proof (filter_length_mono p q L Hpq') as Hle.
  destruct Hin as [<- | Hin].
  - rewrite Hq, Hp. simpl. lia.
  - pose proof (IH Hpq' Hin Hq Hp) as Hlt.
    destruct (p y) eqn:Hpy.
    + rewrite (Hpq y (or_introl eq_refl) Hpy). simpl. lia.
    + destruct (q y); simpl; lia.
Qed.

(* ------------------------------------------------------------------ the order on indexes *)
Section OrderLemmas.
  Variable E : Type.
  Variable leq : E -> E -> bool.
  Variable eqb : E -> E -> bool.
  Hypothesis PO : partial_order E leq eqb.

  Notation lq := (lq E leq).
  Notation ldir := (ldir E leq).
  Notation strict_rel := (strict_rel E leq).
  Notation covers := (covers E leq).
  Notation index_of := (index_of E eqb).
  Notation memE := (memE E eqb).

  Lemma lq_refl l a : a < length l -> lq l a a = true.
  Proof.
    intros H. unfold PosetSpec.lq. destruct (nth_error l a) eqn:Hn.
    - apply (po_refl _ _ _ PO).
    - apply nth_error_None in Hn. lia.
  Qed.

  Lemma lq_range l a b : lq l a b = true -> a < length l /\ b < length l.
  Proof.
    unfold PosetSpec.lq. destruct (nth_error l a) eqn:Ha; [|discriminate].
    destruct (nth_error l b) eqn:Hb; [|discriminate]. intros _.
    split; apply nth_error_Some; congruence.
  Qed.

  Lemma lq_trans l a b c : lq l a b = true -> lq l b c = true -> lq l a c = true.
  Proof.
    unfold PosetSpec.lq. destruct (nth_error l a), (nth_error l b), (nth_error l c); try discriminate.
    apply (po_trans _ _ _ PO).
  Qed.

  Lemma NoDup_nth_error_inj (l : list E) a b x :
    NoDup l -> nth_error l a = Some x -> nth_error l b = Some x -> a = b.
  Proof.
    intros Hn Ha Hb. apply (proj1 (NoDup_nth_error l) Hn).
    - apply nth_error_Some. congruence.
    - congruence.
  Qed.

  Lemma lq_antisym l a b : NoDup l -> lq l a b = true -> lq l b a = true -> a = b.
  Proof.
    unfold PosetSpec.lq. intros Hn. destruct (nth_error l a) eqn:Ha; [|discriminate].
    destruct (nth_error l b) eqn:Hb; [|discriminate]. intros H1 H2.
    pose proof (po_antisym _ _ _ PO _ _ H1 H2). subst. eapply NoDup_nth_error_inj; eauto.
  Qed.

  Lemma ldir_refl l up a : a < length l -> ldir l up a a = true.
  Proof. destruct up; apply lq_refl. Qed.
  Lemma ldir_range l up a b : ldir l up a b = true -> a < length l /\ b < length l.
  Proof. destruct up; simpl; intros H; apply lq_range in H; tauto. Qed.
  Lemma ldir_trans l up a b c : ldir l up a b = true -> ldir l up b c = true -> ldir l up a c = true.
  Proof. destruct up; simpl; intros H1 H2; eapply lq_trans; eauto. Qed.
  Lemma ldir_antisym l up a b : NoDup l -> ldir l up a b = true -> ldir l up b a = true -> a = b.
  Proof. destruct up; simpl; intros Hn H1 H2; [eapply lq_antisym | symmetry; eapply lq_antisym]; eauto. Qed.
  Lemma ldir_flip l up a b : ldir l (negb up) a b = ldir l up b a.
  Proof. destruct up; reflexivity. Qed.

  Lemma In_strict_rel l up i j :
    In j (strict_rel l up i) <-> ldir l up i j = true /\ j <> i.
  Proof.
    unfold PosetSpec.strict_rel, idxs. rewrite filter_In, In_seq0, andb_true_iff, negb_true_iff, Nat.eqb_neq.
    split; [tauto|]. intros [H1 H2]. split; [|tauto]. apply ldir_range in H1. tauto.
  Qed.

  Lemma NoDup_strict_rel l up i : NoDup (strict_rel l up i).
  Proof. apply NoDup_filter. apply seq_NoDup. Qed.

  Lemma In_covers l up i j :
    In j (covers l up i) <->
    In j (strict_rel l up i) /\ forall k, In k (strict_rel l up i) -> ~ In j (strict_rel l up k).
  Proof.
    unfold PosetSpec.covers. rewrite filter_In, negb_true_iff. split.
    - intros [H1 H2]. split; [exact H1|]. intros k Hk Hj.
      assert (existsb (fun k0 => mem j (strict_rel l up k0)) (strict_rel l up i) = true).
      { apply existsb_exists. exists k. split; [exact Hk | apply mem_In; exact Hj]. }
      congruence.
    - intros [H1 H2]. split; [exact H1|].
      destruct (existsb _ _) eqn:He; [|reflexivity].
      apply existsb_exists in He. destruct He as [k [Hk Hj]]. apply mem_In in Hj.
      exfalso. exact (H2 k Hk Hj).
  Qed.

  Lemma NoDup_covers l up i : NoDup (covers l up i).
  Proof. apply NoDup_filter. apply NoDup_strict_rel. Qed.

  (* strictly related: i < j in direction up *)
  Definition sdir l up i j := ldir l up i j = true /\ j <> i.

  Lemma sdir_trans l up a b c : NoDup l -> sdir l up a b -> sdir l up b c -> sdir l up a c.
  Proof.
    intros Hn [H1 N1] [H2 N2]. split; [eapply ldir_trans; eauto|].
    intros ->. apply N1. eapply ldir_antisym; eauto.
  Qed.

  (* finite order: below every member of a list there is a minimal member of the list *)
  Lemma exists_minimal_below l up (L : list nat) :
    NoDup l -> forall j, In j L -> j < length l ->
    exists m, In m L /\ ldir l up m j = true /\ forall k, In k L -> sdir l up k m -> False.
  Proof.
    intros Hn.
    set (P := fun j k => ldir l up k j && negb (Nat.eqb k j)).
    assert (G : forall cnt j, In j L -> j < length l ->
              length (filter (P j) L) < cnt ->
              exists m, In m L /\ ldir l up m j = true /\ forall k, In k L -> sdir l up k m -> False).
    { induction cnt as [|cnt IH]; intros j Hj Hr Hc; [lia|].
      destruct (filter (P j) L) as [|k0 rest] eqn:Hf.
      - exists j. split; [exact Hj|]. split; [apply ldir_refl; exact Hr|].
        intros k Hk [H1 H2].
        assert (In k (filter (P j) L)).
        { apply filter_In. split; [exact Hk|]. unfold P. rewrite H1. simpl.
          apply negb_true_iff, Nat.eqb_neq. intros ->. apply H2. reflexivity. }
        rewrite Hf in H. destruct H.
      - assert (Hk0 : In k0 (filter (P j) L)) by (rewrite Hf; left; reflexivity).
        apply filter_In in Hk0. destruct Hk0 as [Hk0L Hk0]. unfold P in Hk0.
        apply andb_true_iff in Hk0. destruct Hk0 as [Hk0j Hk0n].
        apply negb_true_iff, Nat.eqb_neq in Hk0n.
        assert (Hk0r : k0 < length l) by (apply ldir_range in Hk0j; tauto).
        destruct (IH k0 Hk0L Hk0r) as [m [HmL [Hmk Hmin]]].
        + assert (length (filter (P k0) L) < length (filter (P j) L)).
          { apply (filter_length_lt (P k0) (P j) L k0).
            - intros x _ Hx. unfold P in *. apply andb_true_iff in Hx. destruct Hx as [Hx1 Hx2].
              apply negb_true_iff, Nat.eqb_neq in Hx2.
              destruct (sdir_trans l up x k0 j Hn) as [Ht Hne]; [split; auto | split; auto|].
              rewrite Ht. simpl. apply negb_true_iff, Nat.eqb_neq. auto.
            - exact Hk0L.
            - unfold P. rewrite Hk0j. simpl. apply negb_true_iff, Nat.eqb_neq. exact Hk0n.
            - unfold P. rewrite Nat.eqb_refl. simpl. apply andb_false_r. }
          rewrite Hf in H. simpl in *. lia.
        + exists m. split; [exact HmL|]. split; [eapply ldir_trans; eauto | exact Hmin]. }
    intros j Hj Hr. apply (G (S (length L)) j Hj Hr).
    pose proof (filter_length_mono (P j) (fun _ => true) L (fun _ _ _ => eq_refl)) as H.
    assert (length (filter (fun _ : nat => true) L) = length L) as H'.
    { clear. induction L; simpl; congruence. }
    lia.
  Qed.
End OrderLemmas.

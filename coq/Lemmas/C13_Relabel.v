(* Lemmas/C13_Relabel.v — the interval engines commute with every strictly increasing relabelling of
   the end points (C13 order invariance): the justification of the scale / +-infinity encodings. *)
From FCA Require Import Base.ListSet Model.PatternStructure Spec.PatternSpec Spec.Galois Lemmas.C13.

(* The interval engines are ORDER-THEORETIC: they only compare end points and take minima /
   maxima.  Hence every strictly increasing relabelling f of the end points commutes with them.
   This is what justifies the two encodings used by the correspondence: dyadic floats value/scale
   are sent to the integers value (f = multiplication by the scale), and the extended reals a
   case uses (finite grid values and +-infinity) are sent to Z by an order embedding that puts
   +-infinity at +-2^62, beyond every finite grid value. *)
Section Relabel.
Variable f : Z -> Z.
Hypothesis f_mono : forall a b, (a < b)%Z -> (f a < f b)%Z.

Lemma f_le a b : (f a <=? f b)%Z = (a <=? b)%Z.
Proof.
  destruct (Z.leb_spec a b) as [H|H].
  - apply Z.leb_le. destruct (Z.eq_dec a b) as [E|E]; [subst; lia|]. assert (a < b)%Z by lia. pose proof (f_mono a b H0). lia.
  - apply Z.leb_gt. apply f_mono. exact H.
Qed.
Lemma f_lt a b : (f a <? f b)%Z = (a <? b)%Z.
Proof. rewrite !Z.ltb_antisym, f_le. reflexivity. Qed.
Lemma f_eq a b : (f a =? f b)%Z = (a =? b)%Z.
Proof.
  destruct (Z.eqb_spec a b) as [E|E]; [subst; apply Z.eqb_refl|]. apply Z.eqb_neq.
  destruct (Z.lt_total a b) as [H|[H|H]]; [pose proof (f_mono a b H); lia | contradiction | pose proof (f_mono b a H); lia].
Qed.
Lemma f_min a b : Z.min (f a) (f b) = f (Z.min a b).
Proof.
  destruct (Z.leb_spec a b) as [H|H].
  - rewrite (Z.min_l a b) by lia. apply Z.min_l. apply Z.leb_le. rewrite f_le. apply Z.leb_le. exact H.
  - rewrite (Z.min_r a b) by lia. apply Z.min_r. apply Z.leb_le. rewrite f_le. apply Z.leb_le. lia.
Qed.
Lemma f_max a b : Z.max (f a) (f b) = f (Z.max a b).
Proof.
  destruct (Z.leb_spec a b) as [H|H].
  - rewrite (Z.max_r a b) by lia. apply Z.max_r. apply Z.leb_le. rewrite f_le. apply Z.leb_le. exact H.
  - rewrite (Z.max_l a b) by lia. apply Z.max_l. apply Z.leb_le. rewrite f_le. apply Z.leb_le. lia.
Qed.

Definition relabel1 (v : iv) : iv := (f (fst v), f (snd v)).
Definition relabel (data : list iv) : list iv := map relabel1 data.

Lemma fold_min_f l x : fold_left Z.min (map f l) (f x) = f (fold_left Z.min l x).
Proof. revert x. induction l as [|y l IH]; intros x; simpl; [reflexivity|]. rewrite f_min. apply IH. Qed.
Lemma fold_max_f l x : fold_left Z.max (map f l) (f x) = f (fold_left Z.max l x).
Proof. revert x. induction l as [|y l IH]; intros x; simpl; [reflexivity|]. rewrite f_max. apply IH. Qed.
Lemma zmin_of_f l : l <> [] -> zmin_of (map f l) = f (zmin_of l).
Proof. destruct l as [|x t]; [congruence|]. intros _. simpl. apply fold_min_f. Qed.
Lemma zmax_of_f l : l <> [] -> zmax_of (map f l) = f (zmax_of l).
Proof. destruct l as [|x t]; [congruence|]. intros _. simpl. apply fold_max_f. Qed.

Lemma zinsert_uniq_f x l : zinsert_uniq (f x) (map f l) = map f (zinsert_uniq x l).
Proof.
  induction l as [|y l IH]; [reflexivity|]. cbn [map zinsert_uniq]. rewrite f_lt, f_eq.
  destruct (x <? y)%Z; [reflexivity|]. destruct (x =? y)%Z; [reflexivity|]. cbn [map]. rewrite IH. reflexivity.
Qed.
Lemma zsort_uniq_f l : zsort_uniq (map f l) = map f (zsort_uniq l).
Proof. induction l as [|x l IH]; [reflexivity|]. cbn [map zsort_uniq fold_right]. fold (zsort_uniq (map f l)). fold (zsort_uniq l). rewrite IH. apply zinsert_uniq_f. Qed.

Lemma iv_at_relabel data g : g < length data -> iv_at (relabel data) g = relabel1 (iv_at data g).
Proof.
  intros Hg. unfold iv_at, relabel. rewrite (nth_indep _ (0%Z, 0%Z) (relabel1 (0%Z, 0%Z))) by (rewrite map_length; exact Hg).
  apply map_nth.
Qed.

Lemma ivl_test_relabel d v : ivl_test (relabel1 d) (relabel1 v) = ivl_test d v.
Proof. unfold ivl_test, relabel1. cbn [fst snd]. rewrite !f_le. reflexivity. Qed.

Theorem extension_relabel data d base :
  opt_in_range (length data) base ->
  ivl_extension (relabel data) (option_map relabel1 d) base = ivl_extension data d base.
Proof.
  intros Hr. destruct d as [d|]; [|reflexivity]. cbn [option_map ivl_extension].
  unfold relabel at 2. rewrite map_length. apply filter_ext_in'. intros g Hg.
  rewrite iv_at_relabel; [apply ivl_test_relabel|].
  destruct base as [b|]; cbn [default] in Hg; [apply Hr; exact Hg | apply in_seq in Hg; lia].
Qed.

Theorem intention_relabel data A :
  in_range (length data) A ->
  ivl_intention (relabel data) A = option_map relabel1 (ivl_intention data A).
Proof.
  intros Hr. destruct A as [|g0 rest]; [reflexivity|]. rewrite !ivl_intention_minmax. cbn [option_map]. f_equal.
  unfold relabel1 at 1. cbn [fst snd].
  assert (E1 : map (fun g => fst (iv_at (relabel data) g)) (g0 :: rest)
               = map f (map (fun g => fst (iv_at data g)) (g0 :: rest))).
  { rewrite map_map. apply map_ext_in. intros g Hg. rewrite iv_at_relabel by (apply Hr; exact Hg). reflexivity. }
  assert (E2 : map (fun g => snd (iv_at (relabel data) g)) (g0 :: rest)
               = map f (map (fun g => snd (iv_at data g)) (g0 :: rest))).
  { rewrite map_map. apply map_ext_in. intros g Hg. rewrite iv_at_relabel by (apply Hr; exact Hg). reflexivity. }
  rewrite E1, E2, zmin_of_f, zmax_of_f by discriminate. reflexivity.
Qed.

Theorem bin_attrs_relabel data :
  data <> [] ->
  ivl_bin_attrs (relabel data) = map (fun p => (option_map relabel1 (fst p), snd p)) (ivl_bin_attrs data) /\
  ivl_n_bin_attrs (relabel data) = ivl_n_bin_attrs data.
Proof.
  intros Hd.
  assert (Hf : map fst (relabel data) = map f (map fst data)) by (unfold relabel; rewrite !map_map; reflexivity).
  assert (Hs : map snd (relabel data) = map f (map snd data)) by (unfold relabel; rewrite !map_map; reflexivity).
  assert (N1 : zsort_uniq (map fst data) <> []) by (apply zsort_uniq_nonempty; destruct data; [congruence | discriminate]).
  assert (N2 : zsort_uniq (map snd data) <> []) by (apply zsort_uniq_nonempty; destruct data; [congruence | discriminate]).
  split.
  - unfold ivl_bin_attrs. rewrite Hf, Hs, !zsort_uniq_f, zmin_of_f, zmax_of_f by assumption.
    set (ul := zsort_uniq (map fst data)). set (ur := zsort_uniq (map snd data)).
    rewrite !map_app. cbn [map option_map fst snd]. unfold relabel1 at 1. cbn [fst snd].
    f_equal; [f_equal; unfold relabel; rewrite map_map; reflexivity|]. f_equal; [|f_equal].
    + rewrite map_map. destruct ul as [|h t]; [reflexivity|]. cbn [map tl]. rewrite map_map. apply map_ext. intros lb.
      cbn [option_map fst snd]. unfold relabel1. cbn [fst snd]. f_equal. unfold relabel. rewrite map_map.
      apply map_ext. intros v. cbn [fst]. apply f_le.
    + rewrite map_map. rewrite <- map_rev. destruct (rev ur) as [|h t]; [reflexivity|]. cbn [map tl]. rewrite map_map.
      apply map_ext. intros rb. cbn [option_map fst snd]. unfold relabel1. cbn [fst snd]. f_equal. unfold relabel.
      rewrite map_map. apply map_ext. intros v. cbn [snd]. apply f_le.
    + unfold relabel. rewrite map_map. reflexivity.
  - unfold ivl_n_bin_attrs. rewrite Hf, Hs, !zsort_uniq_f, !map_length. reflexivity.
Qed.

End Relabel.

Theorem order_invariance (f : Z -> Z) :
  (forall a b, (a < b)%Z -> (f a < f b)%Z) ->
  (forall data d base, opt_in_range (length data) base ->
     ivl_extension (relabel f data) (option_map (relabel1 f) d) base = ivl_extension data d base) /\
  (forall data A, in_range (length data) A ->
     ivl_intention (relabel f data) A = option_map (relabel1 f) (ivl_intention data A)) /\
  (forall data, data <> [] ->
     ivl_bin_attrs (relabel f data)
       = map (fun p => (option_map (relabel1 f) (fst p), snd p)) (ivl_bin_attrs data) /\
     ivl_n_bin_attrs (relabel f data) = ivl_n_bin_attrs data).
Proof.
  intros Hf. split; [|split].
  - intros data d base. apply extension_relabel. exact Hf.
  - intros data A. apply intention_relabel. exact Hf.
  - intros data. apply bin_attrs_relabel. exact Hf.
Qed.

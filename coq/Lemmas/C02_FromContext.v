(* Lemmas/C02_FromContext.v — ConceptLattice.from_context's algorithm choice on top of the
   miners: the default (Lindig), 'CbO', 'Lindig' in either direction and 'Sofia' (exact regime)
   all list every concept exactly once and nothing else. *)
From FCA Require Import Base.ListSet Model.BinTable Model.FormalContext Model.ConceptConstruction
     Spec.Galois Spec.Closure Lemmas.C02 Lemmas.C02_Sofia Lemmas.C02_CbOModel Lemmas.C02_CloseByOne
     Lemmas.C02_Lindig Lemmas.C02_LindigComplete.

Theorem from_context_exact K algo ie lmax :
  wf (k_table K) -> 0 < k_w K ->
  algo = 1 \/ (3 <= algo /\ length (concepts_spec (k_table K)) <= lmax) ->
  exists l, from_context_concepts K algo ie lmax = Some l /\
            lists_all_concepts (k_table K) (map pair_of_concept l) /\ Forall (views_agree K) l.
Proof.
  intros Hwf Hw [->|[Ha Hl]].
  - exists (close_by_one K). split; [reflexivity|]. apply close_by_one_all_concepts; assumption.
  - destruct (sofia_exact K lmax Hwf Hl) as [l [E H]]. exists l. split; [|exact H].
    destruct algo as [|[|[|a]]]; try lia. exact E.
Qed.

Theorem lindig_instance_sound K ie :
  wf (k_table K) ->
  exists cs, lindig K ie = Some cs /\ Forall (concept_ok K) cs /\ NoDup (map pair_of_concept cs).
Proof.
  intros Hwf. unfold lindig. apply lindig_sound; [exact Hwf | intros l x Hx; exact Hx |].
  intros q Hq. destruct q; [congruence | simpl; lia].
Qed.

Theorem from_context_lindig_partial K algo ie lmax :
  wf (k_table K) -> algo = 0 \/ algo = 2 ->
  exists cs, from_context_concepts K algo ie lmax = Some cs /\
             Forall (concept_ok K) cs /\ NoDup (map pair_of_concept cs).
Proof.
  intros Hwf [->| ->]; cbn [from_context_concepts]; apply lindig_instance_sound; exact Hwf.
Qed.

Theorem lindig_instance_complete K ie :
  wf (k_table K) ->
  exists cs, lindig K ie = Some cs /\
             lists_all_concepts (k_table K) (map pair_of_concept cs) /\ Forall (views_agree K) cs.
Proof.
  intros Hwf. unfold lindig. apply lindig_complete; [exact Hwf | intros l; apply Permutation.Permutation_refl |].
  intros q Hq. destruct q; [congruence | simpl; lia].
Qed.

(* every algorithm choice of from_context that C02 names *)
Theorem from_context_all_exact K algo ie lmax :
  wf (k_table K) -> 0 < k_w K ->
  algo <= 2 \/ length (concepts_spec (k_table K)) <= lmax ->
  exists l, from_context_concepts K algo ie lmax = Some l /\
            lists_all_concepts (k_table K) (map pair_of_concept l) /\ Forall (views_agree K) l.
Proof.
  intros Hwf Hw H. destruct algo as [|[|[|a]]].
  - apply lindig_instance_complete. exact Hwf.
  - apply from_context_exact; auto.
  - apply lindig_instance_complete. exact Hwf.
  - destruct H as [H|H]; [lia|]. apply from_context_exact; [assumption | assumption |]. right. split; [lia | exact H].
Qed.

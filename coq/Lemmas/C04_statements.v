(* Lemmas/C04_statements.v -- the theorems of Props/C04.v that need a few lines of glue on top of
   the lemmas they come from, stated here in exactly the form Props/C04.v restates them. *)
From FCA Require Import Base.ListSet Base.Order Model.LatticeOrder Spec.Closure Spec.LatticeOrderSpec
     Lemmas.C03 Lemmas.C03_lattice Lemmas.C04.

Lemma C04_labels_are_object_concepts_proof : forall t cs i g, full_lattice t cs ->
  i < length cs -> g < height t ->
  (In g (new_extent_i cs i) <-> extent cs i = cl_obj t [g]).
Proof. intros t cs i g H. exact (new_extent_char t cs H i g). Qed.

Lemma C04_labels_are_attribute_concepts_proof : forall t cs i m, full_lattice t cs ->
  i < length cs -> m < width t ->
  (In m (new_intent_i cs i) <-> intent cs i = cl_attr t [m]).
Proof. intros t cs i m H. exact (new_intent_char t cs H i m). Qed.

Lemma C04_object_concept_unique_proof : forall t cs g, full_lattice t cs -> g < height t ->
  exists i, (i < length cs /\ In g (new_extent_i cs i) /\ extent cs i = cl_obj t [g]) /\
            forall j, j < length cs -> In g (new_extent_i cs j) -> j = i.
Proof. intros t cs g H. exact (object_concept_unique t cs H g). Qed.

Lemma C04_attribute_concept_unique_proof : forall t cs m, full_lattice t cs -> m < width t ->
  exists i, (i < length cs /\ In m (new_intent_i cs i) /\ intent cs i = cl_attr t [m]) /\
            forall j, j < length cs -> In m (new_intent_i cs j) -> j = i.
Proof. intros t cs m H. exact (attribute_concept_unique t cs H m). Qed.

Lemma C04_reconstruct_proof : forall t cs g m a b, full_lattice t cs ->
  g < height t -> m < width t -> a < length cs -> b < length cs ->
  In g (new_extent_i cs a) -> In m (new_intent_i cs b) ->
  (I t g m = true <-> leq_i cs a b = true).
Proof. intros t cs g m a b H. exact (reconstruct t cs H g m a b). Qed.

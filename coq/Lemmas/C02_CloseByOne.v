(* Lemmas/C02_CloseByOne.v — close_by_one's shape dispatch: wide tables are mined directly,
   the others through the transposed context, each concept rebuilt from the (transposed)
   intent.  Either way every concept of the table is listed exactly once. *)
From FCA Require Import Base.ListSet Model.BinTable Model.FormalContext Model.ConceptConstruction
     Spec.Galois Spec.Closure Lemmas.BitRow Lemmas.C01 Lemmas.C02 Lemmas.C02_Sofia Lemmas.C02_CbO
     Lemmas.C02_CbOModel.

Section Transpose.
Variable t : table.
Hypothesis Hwf : wf t.
Hypothesis Hw : 0 < width t.

Lemma transpose_height : height (transpose t) = width t.
Proof. unfold transpose, height. rewrite map_length, seq_length. reflexivity. Qed.

Lemma column_len j : length (column t j) = height t.
Proof. unfold column. rewrite map_length. reflexivity. Qed.

Lemma transpose_width : width (transpose t) = height t.
Proof.
  unfold transpose. destruct (width t) as [|w'] eqn:E; [lia|]. simpl. apply column_len.
Qed.

Lemma transpose_wf : wf (transpose t).
Proof.
  unfold wf. rewrite transpose_width. unfold transpose. apply Forall_forall. intros r Hr.
  apply in_map_iff in Hr. destruct Hr as [j [E _]]. subst. apply column_len.
Qed.

Lemma nth_nil_false k : nth k (@nil bool) false = false.
Proof. destruct k; reflexivity. Qed.

Lemma transpose_cell j g : cell (transpose t) j g = cell t g j.
Proof.
  unfold cell, row. destruct (Nat.lt_ge_cases j (width t)) as [Hj|Hj].
  - unfold transpose. rewrite (nth_map_seq (column t) (width t) j []) by exact Hj.
    unfold column. destruct (Nat.lt_ge_cases g (height t)) as [Hg|Hg].
    + rewrite (nth_map_in (fun r => nth j r false) t g false []) by exact Hg. reflexivity.
    + rewrite (nth_overflow (map _ t)) by (rewrite map_length; exact Hg).
      rewrite (nth_overflow t) by exact Hg. symmetry. apply nth_nil_false.
  - rewrite (nth_overflow (transpose t)) by (fold (height (transpose t)); rewrite transpose_height; exact Hj).
    rewrite nth_nil_false. symmetry.
    destruct (Nat.lt_ge_cases g (height t)) as [Hg|Hg].
    + apply nth_overflow. fold (row t g). rewrite (wf_row_length t g Hwf Hg). exact Hj.
    + rewrite (nth_overflow t) by exact Hg. apply nth_nil_false.
Qed.

Lemma ext_transpose B : ext (transpose t) B = int t B.
Proof.
  unfold ext, int, ext_spec, int_spec, all_objs, all_attrs. rewrite transpose_height.
  apply filter_ext. intros j. apply forallb_ext_in. intros g _. unfold I. apply transpose_cell.
Qed.

Lemma int_transpose A : int (transpose t) A = ext t A.
Proof.
  unfold ext, int, ext_spec, int_spec, all_objs, all_attrs. rewrite transpose_width.
  apply filter_ext. intros g. apply forallb_ext_in. intros j _. unfold I. apply transpose_cell.
Qed.

End Transpose.

Lemma cbo_fbarray_views K c : In c (cbo_fbarray K) -> views_agree K c.
Proof.
  unfold cbo_fbarray. intros [H|H]; [subst; apply from_objects_views|].
  revert H. generalize (extension_iter (k_table K) (intention_ba (k_table K) []) (seq 0 (k_n K))) as E.
  generalize [intention_ba (k_table K) []] as found. generalize (seq 0 (k_n K)) as cands.
  induction cands as [|g rest IH]; intros found E H; [destruct H|].
  cbn [cbo_fb_children] in H.
  destruct (mem g E).
  - destruct (cbo_fb_children K E rest found) as [ys2 f2] eqn:E2. simpl in H.
    apply (IH found E). rewrite E2. exact H.
  - destruct (found_mem _ found).
    + destruct (cbo_fb_children K E rest found) as [ys2 f2] eqn:E2. simpl in H.
      apply (IH found E). rewrite E2. exact H.
    + destruct (extension_iter _ _ (filter _ (seq 0 g))).
      * match type of H with context [cbo_fb_children K ?E1 rest ?F1] =>
          destruct (cbo_fb_children K E1 rest F1) as [ys f'] eqn:E1' end.
        destruct (cbo_fb_children K E rest f') as [ys2 f2] eqn:E2. simpl in H.
        destruct H as [H|H]; [subst; apply from_objects_views|].
        apply in_app_or in H. destruct H as [H|H].
        -- eapply IH. rewrite E1'. exact H.
        -- eapply IH. rewrite E2. exact H.
      * destruct (cbo_fb_children K E rest found) as [ys2 f2] eqn:E2. simpl in H.
        apply (IH found E). rewrite E2. exact H.
Qed.

Theorem close_by_one_all_concepts K :
  wf (k_table K) -> 0 < k_w K ->
  lists_all_concepts (k_table K) (map pair_of_concept (close_by_one K)) /\
  Forall (views_agree K) (close_by_one K).
Proof.
  intros Hwf Hw. unfold close_by_one. destruct (Nat.ltb (k_n K) (k_w K)).
  - split; [apply cbo_fbarray_all_concepts; exact Hwf|].
    apply Forall_forall. intros c Hc. apply cbo_fbarray_views. exact Hc.
  - split; [|apply Forall_forall; intros c Hc; apply in_map_iff in Hc;
              destruct Hc as [c' [E _]]; subst; apply from_objects_views].
    set (t := k_table K) in *. unfold k_w in Hw. fold t in Hw.
    set (tT := transpose t).
    assert (HwfT : wf tT) by (apply transpose_wf; assumption).
    assert (EK : k_table (ctx_T K) = tT) by reflexivity.
    rewrite (cbo_fbarray_concepts (ctx_T K)) by (rewrite EK; exact HwfT). rewrite EK.
    rewrite !map_map.
    (* each element: (ext t X, int t (ext t X)) for X in cbo_tuples tT *)
    assert (Hel : forall X, In X (cbo_tuples tT) ->
              pair_of_concept (from_objects K (c_int_i (concept_of (ctx_T K) (cl_obj tT X) (int tT X))) true)
              = (ext t X, cl_obj tT X)).
    { intros X HX. cbn [c_int_i concept_of]. unfold tT at 1. rewrite int_transpose by assumption.
      rewrite from_objects_extent; [|exact Hwf | apply ext_in_range].
      unfold pair_of_concept. cbn [c_ext_i c_int_i concept_of]. fold t. f_equal.
      unfold cl_obj, tT. rewrite int_transpose, ext_transpose by assumption. reflexivity. }
    rewrite (map_ext_in _ _ _ Hel).
    destruct (cbo_tuples_exact tT) as [Hnd Hiff].
    assert (HX : forall X, In X (cbo_tuples tT) -> in_range (width t) X).
    { intros X HX. destruct (cbo_tuples_sound tT X HX) as [[Hr _] _].
      unfold tT in Hr. rewrite transpose_height in Hr. exact Hr. }
    split.
    + apply (NoDup_map_transfer (cl_obj tT)); [|exact Hnd]. intros x y _ _ E. inversion E. reflexivity.
    + intros A B. rewrite in_map_iff. split.
      * intros [X [E HXin]]. inversion E; subst A B. apply concepts_spec_complete.
        unfold cl_obj, tT. rewrite int_transpose, ext_transpose by assumption.
        split; [|apply int_in_range]. split; [|reflexivity].
        symmetry. apply ext_int_ext. apply HX. exact HXin.
      * intros H. apply concepts_spec_complete in H. destruct H as [[HA HB] Hr].
        assert (HBext : In B (extents_spec tT)).
        { apply extents_spec_complete. exists A. split.
          - unfold tT. rewrite transpose_width by assumption. subst A. apply ext_in_range.
          - unfold tT. rewrite ext_transpose by assumption. exact HB. }
        apply Hiff in HBext. apply in_map_iff in HBext. destruct HBext as [X [EX HXin]].
        exists X. split; [|exact HXin]. f_equal; [|exact EX].
        rewrite <- (ext_int_ext t X) by (apply HX; exact HXin).
        replace (int t (ext t X)) with (cl_obj tT X).
        -- rewrite EX. symmetry. exact HA.
        -- unfold cl_obj, tT. rewrite int_transpose, ext_transpose by assumption. reflexivity.
Qed.

(* Lemmas/C12Order.v — facts about the cover relation of a finite strict order on indexes
   (Spec/Covers.v) and about the small list/map vocabulary of Model/OrderConstruction.v. *)
From FCA Require Export Model.OrderConstruction Spec.Covers.

(* ------------------------------------------------------------------ sets as lists *)
Lemma add_In x y s : In y (add x s) <-> y = x \/ In y s.
Proof.
  unfold add. destruct (mem x s) eqn:E.
  - apply mem_In in E. split; [auto|]. intros [H|H]; [subst; exact E | exact H].
  - simpl. split; intros [H|H]; auto.
Qed.

Lemma union_In y a b : In y (union a b) <-> In y a \/ In y b.
Proof.
  unfold union. induction a as [|x a IH]; simpl; [tauto|].
  rewrite add_In, IH. split; intros H; intuition auto.
Qed.

Lemma mem_add x y s : mem y (add x s) = Nat.eqb y x || mem y s.
Proof.
  apply bool_eq_iff. rewrite orb_true_iff, !mem_In, add_In, Nat.eqb_eq. tauto.
Qed.

Lemma upd_same f i v : upd f i v i = v.
Proof. unfold upd. rewrite Nat.eqb_refl. reflexivity. Qed.
Lemma upd_other f i v j : j <> i -> upd f i v j = f j.
Proof. intros H. unfold upd. apply Nat.eqb_neq in H. rewrite H. reflexivity. Qed.

Lemma fold_left_seq_inv {S} (f : S -> nat -> S) (P : nat -> S -> Prop) n init :
  P 0 init -> (forall k s, k < n -> P k s -> P (Datatypes.S k) (f s k)) ->
  P n (fold_left f (seq 0 n) init).
Proof.
  intros H0 Hstep.
  assert (G : forall m k s, k + m = n -> P k s -> P n (fold_left f (seq k m) s)).
  { induction m as [|m IH]; intros k s E Hk; simpl.
    - replace n with k by lia. exact Hk.
    - apply IH; [lia|]. apply Hstep; [lia | exact Hk]. }
  apply (G n 0 init); [lia | exact H0].
Qed.

Lemma filter_filter2 {A} (p q : A -> bool) l :
  filter p (filter q l) = filter (fun x => q x && p x) l.
Proof.
  induction l as [|x l IH]; simpl; [reflexivity|].
  destruct (q x); simpl; [destruct (p x)|]; rewrite IH; reflexivity.
Qed.

Lemma fold_left_diff (D : imap) bs cur :
  fold_left (fun cur b => diff cur (D b)) bs cur
  = filter (fun y => forallb (fun b => negb (mem y (D b))) bs) cur.
Proof.
  revert cur. induction bs as [|b bs IH]; intros cur; simpl.
  - induction cur as [|x cur IHc]; simpl; [reflexivity|]. rewrite <- IHc. reflexivity.
  - rewrite IH. unfold diff. rewrite filter_filter2. reflexivity.
Qed.

Lemma filter_length_le {A} (p : A -> bool) l : length (filter p l) <= length l.
Proof. induction l as [|x l IH]; simpl; [lia|]. destruct (p x); simpl; lia. Qed.

Lemma filter_length_imp {A} (p q : A -> bool) l :
  (forall x, In x l -> p x = true -> q x = true) -> length (filter p l) <= length (filter q l).
Proof.
  induction l as [|y l IH]; simpl; intros Himp; [lia|].
  assert (IH' := IH (fun x H => Himp x (or_intror H))).
  destruct (p y) eqn:Ep.
  - rewrite (Himp y (or_introl eq_refl) Ep). simpl. lia.
  - destruct (q y); simpl; lia.
Qed.

Lemma filter_length_lt {A} (p q : A -> bool) l z :
  (forall x, In x l -> p x = true -> q x = true) -> In z l -> q z = true -> p z = false ->
  length (filter p l) < length (filter q l).
Proof.
  induction l as [|x l IH]; simpl; intros Himp Hz Hq Hp; [contradiction|].
  assert (Hle := filter_length_imp p q l (fun x0 H => Himp x0 (or_intror H))).
  destruct Hz as [Hz|Hz].
  - subst x. rewrite Hq, Hp. simpl. lia.
  - assert (IH' := IH (fun x0 H => Himp x0 (or_intror H)) Hz Hq Hp).
    destruct (p x) eqn:Ep.
    + rewrite (Himp x (or_introl eq_refl) Ep). simpl. lia.
    + destruct (q x); simpl; lia.
Qed.

(* ------------------------------------------------------------------ strict orders on 0..n-1 *)
Section OrderFacts.
Variable lt : nat -> nat -> bool.
Variable n : nat.
Hypothesis SO : strict_order lt n.

Lemma lt_irrefl i : i < n -> lt i i = false.
Proof. apply SO. Qed.
Lemma lt_trans i j k : i < n -> j < n -> k < n -> lt i j = true -> lt j k = true -> lt i k = true.
Proof. apply SO. Qed.
Lemma lt_asym i j : i < n -> j < n -> lt i j = true -> lt j i = false.
Proof.
  intros Hi Hj H. destruct (lt j i) eqn:E; [|reflexivity].
  rewrite <- (lt_irrefl i Hi). symmetry. apply (lt_trans i j i); assumption.
Qed.

Lemma between_spec x a : between lt n x a = true <-> exists b, b < n /\ lt x b = true /\ lt b a = true.
Proof.
  unfold between. rewrite existsb_exists. split.
  - intros [b [Hb H]]. apply in_seq in Hb. apply andb_true_iff in H. exists b. split; [lia | exact H].
  - intros [b [Hb [H1 H2]]]. exists b. split; [apply in_seq; lia | rewrite H1, H2; reflexivity].
Qed.

Lemma lower_covers_In a x :
  In x (lower_covers lt n a) <-> x < n /\ lt x a = true /\ between lt n x a = false.
Proof.
  unfold lower_covers, is_lower_cover. rewrite filter_In, in_seq, andb_true_iff, negb_true_iff.
  split; intros H; intuition lia.
Qed.

Lemma upper_covers_In a x :
  In x (upper_covers lt n a) <-> x < n /\ lt a x = true /\ between lt n a x = false.
Proof.
  unfold upper_covers, is_lower_cover. rewrite filter_In, in_seq, andb_true_iff, negb_true_iff.
  split; intros H; intuition lia.
Qed.

Lemma strict_down_In a x : In x (strict_down lt n a) <-> x < n /\ lt x a = true.
Proof. unfold strict_down. rewrite filter_In, in_seq. split; intros H; intuition lia. Qed.
Lemma strict_up_In a x : In x (strict_up lt n a) <-> x < n /\ lt a x = true.
Proof. unfold strict_up. rewrite filter_In, in_seq. split; intros H; intuition lia. Qed.

(* every strict predecessor lies below-or-at some lower cover; dually every strict successor
   lies above-or-at an upper cover.  Finite: induction on the number of elements between. *)
Lemma cover_above_aux m : forall y b, y < n -> b < n -> lt y b = true ->
  length (filter (fun z => lt y z && lt z b) (seq 0 n)) <= m ->
  exists b', b' < n /\ is_lower_cover lt n b' y = true /\ (b' = b \/ lt b' b = true).
Proof.
  induction m as [|m IH]; intros y b Hy Hb Hlt Hlen.
  - exists b. split; [exact Hb|]. split; [|left; reflexivity].
    unfold is_lower_cover. rewrite Hlt. simpl. apply negb_true_iff.
    destruct (between lt n y b) eqn:E; [|reflexivity].
    apply between_spec in E. destruct E as [z [Hz [H1 H2]]].
    assert (X : In z (filter (fun z => lt y z && lt z b) (seq 0 n))).
    { apply filter_In. split; [apply in_seq; lia | rewrite H1, H2; reflexivity]. }
    destruct (filter (fun z => lt y z && lt z b) (seq 0 n)); [contradiction | simpl in Hlen; lia].
  - destruct (between lt n y b) eqn:E.
    + apply between_spec in E. destruct E as [z [Hz [H1 H2]]].
      destruct (IH y z Hy Hz H1) as [b' [Hb' [Hc Hr]]].
      * assert (L : length (filter (fun z0 => lt y z0 && lt z0 z) (seq 0 n))
                    < length (filter (fun z0 => lt y z0 && lt z0 b) (seq 0 n))).
        { apply (filter_length_lt _ _ _ z).
          - intros x Hx Hp. apply in_seq in Hx. apply andb_true_iff in Hp. destruct Hp as [P1 P2].
            rewrite P1. simpl. apply (lt_trans x z b); try assumption; lia.
          - apply in_seq. lia.
          - rewrite H1, H2. reflexivity.
          - rewrite (lt_irrefl z Hz). apply andb_false_r. }
        lia.
      * exists b'. split; [exact Hb'|]. split; [exact Hc|]. right.
        destruct Hr as [Hr|Hr]; [subst; exact H2 | apply (lt_trans b' z b); assumption].
    + exists b. split; [exact Hb|]. split; [|left; reflexivity].
      unfold is_lower_cover. rewrite Hlt, E. reflexivity.
Qed.

Lemma cover_above y b : y < n -> b < n -> lt y b = true ->
  exists b', b' < n /\ is_lower_cover lt n b' y = true /\ (b' = b \/ lt b' b = true).
Proof. intros Hy Hb H. apply (cover_above_aux n y b Hy Hb H). rewrite <- (seq_length n 0) at 2. apply filter_length_le. Qed.

Lemma cover_below_aux m : forall y b, y < n -> b < n -> lt y b = true ->
  length (filter (fun z => lt y z && lt z b) (seq 0 n)) <= m ->
  exists y', y' < n /\ is_lower_cover lt n b y' = true /\ (y' = y \/ lt y y' = true).
Proof.
  induction m as [|m IH]; intros y b Hy Hb Hlt Hlen.
  - exists y. split; [exact Hy|]. split; [|left; reflexivity].
    unfold is_lower_cover. rewrite Hlt. simpl. apply negb_true_iff.
    destruct (between lt n y b) eqn:E; [|reflexivity].
    apply between_spec in E. destruct E as [z [Hz [H1 H2]]].
    assert (X : In z (filter (fun z => lt y z && lt z b) (seq 0 n))).
    { apply filter_In. split; [apply in_seq; lia | rewrite H1, H2; reflexivity]. }
    destruct (filter (fun z => lt y z && lt z b) (seq 0 n)); [contradiction | simpl in Hlen; lia].
  - destruct (between lt n y b) eqn:E.
    + apply between_spec in E. destruct E as [z [Hz [H1 H2]]].
      destruct (IH z b Hz Hb H2) as [y' [Hy' [Hc Hr]]].
      * assert (L : length (filter (fun z0 => lt z z0 && lt z0 b) (seq 0 n))
                    < length (filter (fun z0 => lt y z0 && lt z0 b) (seq 0 n))).
        { apply (filter_length_lt _ _ _ z).
          - intros x Hx Hp. apply in_seq in Hx. apply andb_true_iff in Hp. destruct Hp as [P1 P2].
            rewrite P2, andb_true_r. apply (lt_trans y z x); try assumption; lia.
          - apply in_seq. lia.
          - rewrite H1, H2. reflexivity.
          - rewrite (lt_irrefl z Hz). reflexivity. }
        lia.
      * exists y'. split; [exact Hy'|]. split; [exact Hc|]. right.
        destruct Hr as [Hr|Hr]; [subst; exact H1 | apply (lt_trans y z y'); assumption].
    + exists y. split; [exact Hy|]. split; [|left; reflexivity].
      unfold is_lower_cover. rewrite Hlt, E. reflexivity.
Qed.

Lemma cover_below y b : y < n -> b < n -> lt y b = true ->
  exists y', y' < n /\ is_lower_cover lt n b y' = true /\ (y' = y \/ lt y y' = true).
Proof. intros Hy Hb H. apply (cover_below_aux n y b Hy Hb H). rewrite <- (seq_length n 0) at 2. apply filter_length_le. Qed.

Lemma is_lower_cover_lt a x : is_lower_cover lt n a x = true -> lt x a = true.
Proof. unfold is_lower_cover. intros H. apply andb_true_iff in H. tauto. Qed.

Lemma is_lower_cover_no_between a x b :
  is_lower_cover lt n a x = true -> b < n -> lt x b = true -> lt b a = true -> False.
Proof.
  unfold is_lower_cover. intros H Hb H1 H2. apply andb_true_iff in H. destruct H as [_ H].
  apply negb_true_iff in H. assert (X : between lt n x a = true) by (apply between_spec; exists b; auto).
  congruence.
Qed.

End OrderFacts.

(* ------------------------------------------------------------------ boolean versions, for concrete instances *)
Lemma strict_orderb_spec lt n : strict_orderb lt n = true -> strict_order lt n.
Proof.
  unfold strict_orderb, strict_order. rewrite andb_true_iff, !forallb_forall. intros [H1 H2]. split.
  - intros i Hi. apply negb_true_iff. apply H1. apply in_seq. lia.
  - intros i j k Hi Hj Hk Hij Hjk.
    assert (Hi' : In i (seq 0 n)) by (apply in_seq; lia).
    assert (Hj' : In j (seq 0 n)) by (apply in_seq; lia).
    assert (Hk' : In k (seq 0 n)) by (apply in_seq; lia).
    specialize (H2 i Hi'). rewrite forallb_forall in H2. specialize (H2 j Hj').
    rewrite forallb_forall in H2. specialize (H2 k Hk'). rewrite Hij, Hjk in H2. exact H2.
Qed.

Lemma is_topb_spec lt n t : is_topb lt n t = true -> is_top lt n t.
Proof.
  unfold is_topb, is_top. rewrite andb_true_iff, Nat.ltb_lt, forallb_forall. intros [H1 H2].
  split; [exact H1|]. intros i Hi Hne. assert (Hi' : In i (seq 0 n)) by (apply in_seq; lia).
  specialize (H2 i Hi'). apply orb_true_iff in H2. destruct H2 as [H2|H2]; [|exact H2].
  apply Nat.eqb_eq in H2. contradiction.
Qed.

Lemma is_bottomb_spec lt n b : is_bottomb lt n b = true -> is_bottom lt n b.
Proof.
  unfold is_bottomb, is_bottom. rewrite andb_true_iff, Nat.ltb_lt, forallb_forall. intros [H1 H2].
  split; [exact H1|]. intros i Hi Hne. assert (Hi' : In i (seq 0 n)) by (apply in_seq; lia).
  specialize (H2 i Hi'). apply orb_true_iff in H2. destruct H2 as [H2|H2]; [|exact H2].
  apply Nat.eqb_eq in H2. contradiction.
Qed.

(* Lemmas/C07b.v — round trips at the text level: cxt and csv. *)
From FCA Require Import Base.C07_Str Model.C07_Serial Spec.C07_Roundtrip Lemmas.C07a.

(* ------------------------------------------------------------------ strings *)

Lemma has_char_false c s : has_char c s = false -> ~ In c s.
Proof.
  unfold has_char. intros H Hin.
  assert (X : existsb (N.eqb c) s = true)
    by (apply existsb_exists; exists c; split; [exact Hin | apply N.eqb_refl]).
  congruence.
Qed.

Lemma no_nn_app p s : ~ In NL p -> no_nn s -> no_nn (p ++ s).
Proof.
  induction p as [|x p IH]; intros Hp Hs; [exact Hs|].
  assert (Hx : x <> NL) by (intros E; apply Hp; left; exact E).
  assert (Hp' : ~ In NL p) by (intros H; apply Hp; right; exact H).
  specialize (IH Hp' Hs). simpl. destruct (p ++ s) eqn:E; [exact I|].
  split; [intros [E1 _]; contradiction | exact IH].
Qed.

Lemma no_nn_nl s : hd 0%N s <> NL -> no_nn s -> no_nn (NL :: s).
Proof.
  intros Hh Hs. simpl. destruct s as [|y s]; [exact I|]. simpl in Hh.
  split; [intros [_ E]; contradiction | exact Hs].
Qed.

Definition line_ok (l : str) : Prop := ~ In NL l /\ l <> [].

Lemma hd_app_nonempty (a b : str) : a <> [] -> hd 0%N (a ++ b) = hd 0%N a.
Proof. destruct a; [contradiction | reflexivity]. Qed.

Lemma hd_join lines : lines <> [] -> hd [] lines <> [] -> hd 0%N (join_char NL lines) = hd 0%N (hd [] lines).
Proof.
  destruct lines as [|p ps]; [contradiction|]. intros _ Hp. simpl in Hp.
  destruct ps; [reflexivity|]. change (join_char NL (p :: l :: ps)) with (p ++ NL :: join_char NL (l :: ps)).
  apply hd_app_nonempty. exact Hp.
Qed.

Lemma hd_line_not_nl l : line_ok l -> hd 0%N l <> NL.
Proof. intros [H1 H2]. destruct l; [contradiction|]. simpl. intros E. apply H1. left. exact E. Qed.

Lemma no_nn_join lines :
  Forall line_ok lines -> lines <> [] -> no_nn (join_char NL lines ++ [NL]).
Proof.
  induction lines as [|p ps IH]; intros Hf Hne; [contradiction|].
  inversion Hf as [|? ? Hp Hps]; subst. destruct ps as [|q ps].
  - simpl. apply no_nn_app; [apply Hp | exact I].
  - change (join_char NL (p :: q :: ps)) with (p ++ NL :: join_char NL (q :: ps)).
    rewrite <- app_assoc. apply no_nn_app; [apply Hp|]. simpl app.
    apply no_nn_nl; [|apply IH; [exact Hps | discriminate]].
    inversion Hps as [|? ? Hq _]; subst.
    rewrite hd_app_nonempty.
    + destruct ps; [|rewrite hd_app_nonempty by apply Hq]; apply hd_line_not_nl; exact Hq.
    + destruct q; [exfalso; apply Hq; reflexivity|]. destruct ps; simpl; discriminate.
Qed.

Lemma join_app c (a b : list str) :
  a <> [] -> b <> [] -> join_char c (a ++ b) = join_char c a ++ c :: join_char c b.
Proof.
  induction a as [|p a IH]; intros Ha Hb; [contradiction|].
  destruct a as [|q a].
  - simpl. destruct b; [contradiction | reflexivity].
  - change ((p :: q :: a) ++ b) with (p :: (q :: a) ++ b).
    change (join_char c (p :: (q :: a) ++ b)) with (p ++ c :: join_char c ((q :: a) ++ b)).
    rewrite IH by (try discriminate; exact Hb).
    change (join_char c (p :: q :: a)) with (p ++ c :: join_char c (q :: a)).
    rewrite <- app_assoc. reflexivity.
Qed.

Lemma join_ends c0 (L0 : list str) r' ch :
  exists X', join_char c0 (L0 ++ [r' ++ [ch]]) = X' ++ [ch].
Proof.
  destruct L0 as [|p L0].
  - exists r'. reflexivity.
  - rewrite join_app by discriminate. exists (join_char c0 (p :: L0) ++ c0 :: r').
    simpl join_char at 2. rewrite <- app_assoc. reflexivity.
Qed.

Lemma join_starts c0 x (o' : str) (rest : list str) :
  exists B, join_char c0 (@cons str (x :: o') rest) = x :: B.
Proof. destruct rest; simpl; eexists; reflexivity. Qed.

Lemma strip_block x B X' ch :
  is_space x = false -> is_space ch = false -> x :: B = X' ++ [ch] ->
  strip ((x :: B) ++ [NL]) = x :: B.
Proof.
  intros Hx Hc E. unfold strip. simpl app. rewrite lstrip_nonspace by exact Hx.
  change (x :: B ++ [NL]) with ((x :: B) ++ [NL]). rewrite rstrip_app_space by reflexivity.
  rewrite E. apply rstrip_app_nonspace. exact Hc.
Qed.

Lemma strip_c_block x B X' ch :
  x <> NL -> ch <> NL -> x :: B = X' ++ [ch] -> strip_c NL ((x :: B) ++ [NL]) = x :: B.
Proof.
  intros Hx Hc E. unfold strip_c. simpl app. rewrite lstrip_c_other by exact Hx.
  change (x :: B ++ [NL]) with ((x :: B) ++ [NL]). rewrite rstrip_c_app_same.
  rewrite E. apply rstrip_c_app_other. exact Hc.
Qed.

(* ------------------------------------------------------------------ cxt *)

Lemma row_str_no_nl r : ~ In NL (row_str r).
Proof.
  unfold row_str. intros H. apply in_map_iff in H. destruct H as [b [E _]].
  destruct b; unfold NL, ch_X, ch_dot in E; discriminate.
Qed.

Lemma row_str_read r : map (fun c => N.eqb c ch_X) (row_str r) = r.
Proof.
  unfold row_str. rewrite map_map. rewrite <- (map_id r) at 2. apply map_ext.
  intros b. destruct b; reflexivity.
Qed.

Lemma cxt_name_ok_line s : cxt_name_okb s = true -> line_ok s.
Proof.
  unfold cxt_name_okb. rewrite andb_true_iff, negb_true_iff. intros [H1 H2]. split.
  - apply has_char_false. exact H1.
  - destruct s; [discriminate | discriminate].
Qed.

Lemma firstn_app_exact {A} (a b : list A) : firstn (length a) (a ++ b) = a.
Proof. induction a; simpl; [destruct b; reflexivity | f_equal; assumption]. Qed.
Lemma skipn_app_exact {A} (a b : list A) : skipn (length a) (a ++ b) = b.
Proof. induction a; simpl; [reflexivity | assumption]. Qed.

Lemma nat_str_line n : line_ok (nat_str n).
Proof. split; [apply nat_str_no_nl | apply uint_str_nonempty]. Qed.

Lemma not_ends_nl_app (a b : str) : b <> [] -> ~ In NL b -> not_ends_nl (a ++ b).
Proof.
  intros Hb Hn. unfold not_ends_nl.
  assert (X : forall (a b : str), b <> [] -> last (a ++ b) 0%N = last b 0%N).
  { clear. intros a b Hb. induction a as [|x a IH]; [reflexivity|].
    simpl. destruct (a ++ b) eqn:E; [|exact IH]. apply app_eq_nil in E. destruct E; contradiction. }
  rewrite X by exact Hb. intros E. apply Hn. rewrite <- E. apply last_in. exact Hb.
Qed.

Theorem cxt_roundtrip K :
  cxt_admissibleb K = true ->
  read_cxt (write_cxt K) = SOk (mk_sctx (sc_onames K) (sc_anames K) None (sc_table K)).
Proof.
  unfold cxt_admissibleb. rewrite !andb_true_iff. intros [[[Hok Hon] Han] Hfirst].
  pose proof (table_okb_spec K Hok) as [Hn [Hw [Hf [Ho Ha]]]].
  destruct K as [on an desc t]. simpl in *.
  assert (Lon : Forall line_ok on)
    by (apply Forall_forall; intros s Hs; apply cxt_name_ok_line; rewrite forallb_forall in Hon; auto).
  assert (Lan : Forall line_ok an)
    by (apply Forall_forall; intros s Hs; apply cxt_name_ok_line; rewrite forallb_forall in Han; auto).
  assert (Lrows : Forall line_ok (map row_str t)).
  { apply Forall_forall. intros s Hs. apply in_map_iff in Hs. destruct Hs as [r [E Hr]]. subst s.
    split; [apply row_str_no_nl|]. rewrite forallb_forall in Hf. specialize (Hf r Hr).
    apply Nat.eqb_eq in Hf. destruct r; [simpl in Hf; lia | discriminate]. }
  assert (Non : on <> []) by (destruct on; [simpl in Ho; lia | discriminate]).
  assert (Nan : an <> []) by (destruct an; [simpl in Ha; lia | discriminate]).
  assert (Nt : map row_str t <> []) by (destruct t; [simpl in Hn; lia | discriminate]).
  set (LINES := on ++ an ++ map row_str t).
  assert (LL : Forall line_ok LINES) by (unfold LINES; rewrite !Forall_app; auto).
  assert (NL_ : LINES <> []) by (unfold LINES; destruct on; [contradiction | discriminate]).
  set (NS := nat_str (length t) ++ [NL] ++ nat_str (t_width t)).
  assert (EW : write_cxt (mk_sctx on an desc t)
               = [66%N] ++ NL :: NL :: NS ++ NL :: NL :: (join_char NL LINES ++ [NL])).
  { unfold write_cxt, LINES, NS. simpl sc_table. simpl sc_onames. simpl sc_anames.
    rewrite (join_app NL on) by (try assumption; intros E; apply app_eq_nil in E; destruct E as [E _]; exact (Nan E)).
    rewrite (join_app NL an) by assumption.
    repeat (rewrite <- app_assoc; cbn [app]). cbn [app]. reflexivity. }
  rewrite EW. unfold read_cxt, split_nn.
  rewrite (split_nn_go_part [66%N]) by (try exact I; try discriminate; unfold not_ends_nl, NL; simpl; discriminate).
  assert (NS1 : no_nn NS).
  { unfold NS. apply no_nn_app; [apply nat_str_no_nl|]. simpl app. apply no_nn_nl.
    - apply hd_line_not_nl, nat_str_line.
    - rewrite <- (app_nil_r (nat_str (t_width t))). apply no_nn_app; [apply nat_str_no_nl | exact I]. }
  assert (NS2 : not_ends_nl NS).
  { unfold NS. rewrite app_assoc. apply not_ends_nl_app; [apply uint_str_nonempty | apply nat_str_no_nl]. }
  assert (NS3 : NS <> []) by (unfold NS; intros E; apply app_eq_nil in E; destruct E as [E _]; revert E; apply uint_str_nonempty).
  rewrite (split_nn_go_part NS) by assumption.
  rewrite split_nn_go_last by (apply no_nn_join; assumption).
  simpl rev. rewrite !app_nil_l.
  assert (EN : map parse_nat (split_char NL NS) = [Some (length t); Some (t_width t)]).
  { unfold NS. simpl app. rewrite split_char_app_sep by apply nat_str_no_nl.
    unfold split_char at 1. rewrite split_go_part by apply nat_str_no_nl. simpl.
    rewrite !parse_nat_str. reflexivity. }
  rewrite EN.
  (* strip *)
  assert (ES : strip (join_char NL LINES ++ [NL]) = join_char NL LINES).
  { destruct on as [|[|x o'] on']; try contradiction; try discriminate.
    unfold LINES. cbn [app].
    destruct (join_starts NL x o' (on' ++ an ++ map row_str t)) as [B EB]. rewrite EB.
    (* the last line is a non-empty row *)
    destruct (exists_last Nt) as [rows0 [rl Erl]].
    assert (Hrl : In rl (map row_str t)) by (rewrite Erl; apply in_or_app; right; left; reflexivity).
    rewrite Forall_forall in Lrows. pose proof (Lrows rl Hrl) as [_ Hrl_ne].
    destruct (exists_last Hrl_ne) as [r0 [ch Ech]].
    assert (Hch : is_space ch = false).
    { apply in_map_iff in Hrl. destruct Hrl as [r [Er _]]. subst rl.
      assert (In ch (row_str r)) by (rewrite Ech; apply in_or_app; right; left; reflexivity).
      unfold row_str in H. apply in_map_iff in H. destruct H as [b [Eb _]]. subst ch.
      destruct b; reflexivity. }
    assert (EJ : exists X', x :: B = X' ++ [ch]).
    { destruct (join_ends NL (@cons str (x :: o') (on' ++ an ++ rows0)) r0 ch) as [X' EX].
      exists X'. rewrite <- EX, <- EB. f_equal. rewrite Erl, Ech. cbn [app].
      repeat rewrite <- app_assoc. reflexivity. }
    destruct EJ as [X' EX]. apply (strip_block x B X' ch); [|exact Hch | exact EX].
    apply negb_true_iff. exact Hfirst. }
  rewrite ES. rewrite split_join_char by (try assumption; apply Forall_forall; intros l Hl; rewrite Forall_forall in LL; apply LL; exact Hl).
  unfold LINES. rewrite <- Ho. rewrite firstn_app_exact, skipn_app_exact.
  rewrite <- Ha. rewrite firstn_app_exact, skipn_app_exact.
  rewrite map_map.
  assert (ER : map (fun x => map (fun c => N.eqb c ch_X) (row_str x)) t = t).
  { transitivity (map (fun r : list bool => r) t); [|apply map_id]. apply map_ext. apply row_str_read. }
  rewrite ER.
  apply (make_ctx_ok (mk_sctx on an None t)). exact Hok.
Qed.

(* ------------------------------------------------------------------ csv *)

Fixpoint csv_lines (sep : N) (wt wf : str) (onames : list str) (t : list (list bool)) : list str :=
  match onames, t with
  | g :: onames', r :: t' => (g ++ sep :: join_char sep (map (word wt wf) r)) :: csv_lines sep wt wf onames' t'
  | _, _ => []
  end.

Lemma zip_lines_concat sep wt wf onames t :
  zip_lines sep wt wf onames t = concat (map (fun l => l ++ [NL]) (csv_lines sep wt wf onames t)).
Proof.
  revert t. induction onames as [|g on IH]; intros [|r t]; simpl; try reflexivity.
  rewrite IH. repeat (rewrite <- app_assoc; cbn [app]). reflexivity.
Qed.

Lemma join_concat (lines : list str) :
  lines <> [] -> concat (map (fun l => l ++ [NL]) lines) = join_char NL lines ++ [NL].
Proof.
  induction lines as [|p ps IH]; intros Hne; [contradiction|].
  destruct ps as [|q ps].
  - simpl. rewrite app_nil_r. reflexivity.
  - change (join_char NL (p :: q :: ps)) with (p ++ NL :: join_char NL (q :: ps)).
    simpl concat. simpl in IH. rewrite IH by discriminate. rewrite <- !app_assoc. reflexivity.
Qed.

Lemma csv_lines_length sep wt wf onames t :
  length onames = length t -> length (csv_lines sep wt wf onames t) = length t.
Proof. revert t. induction onames as [|g on IH]; intros [|r t] H; simpl in *; try lia. rewrite IH; lia. Qed.

Lemma In_csv_lines sep wt wf onames t l :
  In l (csv_lines sep wt wf onames t) ->
  exists g r, In g onames /\ In r t /\ l = g ++ sep :: join_char sep (map (word wt wf) r).
Proof.
  revert t. induction onames as [|g on IH]; intros [|r t] H; simpl in H; try contradiction.
  destruct H as [H|H].
  - exists g, r. repeat split; [left; reflexivity | left; reflexivity | symmetry; exact H].
  - destruct (IH t H) as [g' [r' [H1 [H2 H3]]]]. exists g', r'. repeat split; [right | right |]; assumption.
Qed.

Lemma join_forall (P : N -> Prop) c parts :
  P c -> Forall (fun p => Forall P p) parts -> Forall P (join_char c parts).
Proof.
  intros Hc. induction parts as [|p ps IH]; intros Hf; [constructor|].
  inversion Hf as [|? ? Hp Hps]; subst. destruct ps as [|q ps]; [exact Hp|].
  change (join_char c (p :: q :: ps)) with (p ++ c :: join_char c (q :: ps)).
  apply Forall_app. split; [exact Hp|]. constructor; [exact Hc | apply IH; exact Hps].
Qed.

Lemma forallb_Forall {A} (p : A -> bool) l : forallb p l = true -> Forall (fun x => p x = true) l.
Proof. intros H. apply Forall_forall. apply forallb_forall. exact H. Qed.

Lemma parse_vals_words wt wf r :
  str_eqb wt wf = false -> parse_vals wt wf (map (word wt wf) r) = SOk r.
Proof.
  intros Hne. induction r as [|b r IH]; simpl; [reflexivity|]. rewrite IH.
  destruct b; simpl; rewrite ?str_eqb_refl; simpl; [reflexivity|].
  assert (X : str_eqb wf wt = false).
  { destruct (str_eqb wf wt) eqn:E; [|reflexivity]. apply str_eqb_eq in E. subst.
    rewrite str_eqb_refl in Hne. discriminate. }
  rewrite X. reflexivity.
Qed.

Lemma csv_word_ok_spec sep w :
  csv_word_okb sep w = true -> ~ In sep w /\ ~ In NL w.
Proof.
  unfold csv_word_okb. rewrite !andb_true_iff, !negb_true_iff. intros [[H1 H2] _].
  split; apply has_char_false; assumption.
Qed.

Lemma parse_lines_ok sep wt wf onames t :
  str_eqb wt wf = false -> ~ In sep wt -> ~ In sep wf ->
  Forall (fun g => ~ In sep g) onames -> Forall (fun r : list bool => r <> []) t ->
  length onames = length t ->
  parse_lines sep wt wf (csv_lines sep wt wf onames t) = SOk (onames, t).
Proof.
  intros Hne Hwt Hwf. revert t. induction onames as [|g on IH]; intros [|r t] Hg Hr Hl; simpl in *;
    try reflexivity; try lia.
  inversion Hg as [|? ? Hg1 Hg2]; subst. inversion Hr as [|? ? Hr1 Hr2]; subst.
  rewrite split_char_app_sep by exact Hg1.
  rewrite split_join_char.
  - simpl tl. simpl hd. rewrite parse_vals_words by exact Hne. simpl.
    rewrite IH by (try assumption; lia). reflexivity.
  - destruct r; [contradiction | discriminate].
  - apply Forall_forall. intros w Hw. apply in_map_iff in Hw. destruct Hw as [b [E _]]. subst w.
    destruct b; assumption.
Qed.

Lemma split_char_leading_sep c s : split_char c (c :: s) = [] :: split_char c s.
Proof. apply (split_char_app_sep c [] s). intros []. Qed.

Theorem csv_roundtrip sep wt wf K :
  csv_admissibleb sep wt wf K = true ->
  read_csv sep wt wf (write_csv sep wt wf K)
  = SOk (mk_sctx (sc_onames K) (sc_anames K) None (sc_table K)).
Proof.
  unfold csv_admissibleb. rewrite !andb_true_iff, !negb_true_iff.
  intros [[[[[[[Hok HsNL] HsCR] Hon] Han] Hwt] Hwf] Hne].
  pose proof (table_okb_spec K Hok) as [Hn [Hwd [Hf [Ho Ha]]]].
  destruct K as [on an desc t]. simpl in *.
  destruct (csv_word_ok_spec _ _ Hwt) as [Wt1 Wt2]. destruct (csv_word_ok_spec _ _ Hwf) as [Wf1 Wf2].
  assert (HsepNL : sep <> NL) by (intros E; subst; rewrite N.eqb_refl in HsNL; discriminate).
  assert (Names : forall l, forallb (csv_name_okb sep) l = true ->
                            Forall (fun g => ~ In sep g) l /\ Forall (fun g => ~ In NL g) l).
  { intros l H. split; apply Forall_forall; intros g Hg; rewrite forallb_forall in H; specialize (H g Hg);
      unfold csv_name_okb in H; rewrite !andb_true_iff, !negb_true_iff in H; destruct H as [[H1 H2] H3];
      apply has_char_false; assumption. }
  destruct (Names on Hon) as [On1 On2]. destruct (Names an Han) as [An1 An2].
  assert (Rows : Forall (fun r : list bool => r <> []) t).
  { apply Forall_forall. intros r Hr. rewrite forallb_forall in Hf. specialize (Hf r Hr).
    apply Nat.eqb_eq in Hf. intros E. subst r. simpl in Hf. lia. }
  set (HEADER := sep :: join_char sep an).
  set (LS := csv_lines sep wt wf on t).
  assert (NLS : LS <> []).
  { unfold LS. intros E. assert (X : length (csv_lines sep wt wf on t) = length t) by (apply csv_lines_length; exact Ho).
    rewrite E in X. simpl in X. lia. }
  assert (EW : write_csv sep wt wf (mk_sctx on an desc t) = join_char NL (HEADER :: LS) ++ [NL]).
  { unfold write_csv. simpl sc_anames. simpl sc_onames. simpl sc_table.
    rewrite zip_lines_concat. rewrite <- join_concat by discriminate. simpl concat.
    fold LS. unfold HEADER. simpl. rewrite <- app_assoc. reflexivity. }
  rewrite EW. unfold read_csv.
  (* no word row contains a line break *)
  assert (WordsF : forall r, Forall (fun c => c <> NL) (join_char sep (map (word wt wf) r))).
  { intros r. apply join_forall; [exact HsepNL|]. apply Forall_forall. intros w Hw.
    apply in_map_iff in Hw. destruct Hw as [b [E _]]. subst w.
    apply Forall_forall. intros c Hc E. subst c. destruct b; [apply Wt2 | apply Wf2]; exact Hc. }
  assert (WordsNL : forall r, ~ In NL (join_char sep (map (word wt wf) r))).
  { intros r Hin. pose proof (WordsF r) as F. rewrite Forall_forall in F. apply (F NL Hin). reflexivity. }
  assert (LinesNL : Forall (fun l => ~ In NL l) (HEADER :: LS)).
  { constructor.
    - unfold HEADER. intros [E|Hin]; [apply HsepNL; exact E|].
      assert (F : Forall (fun c => c <> NL) (join_char sep an)).
      { apply join_forall; [exact HsepNL|]. apply Forall_forall. intros g Hg.
        apply Forall_forall. intros c Hc E. subst c. rewrite Forall_forall in An2. apply (An2 g Hg). exact Hc. }
      rewrite Forall_forall in F. apply (F NL Hin). reflexivity.
    - apply Forall_forall. intros l Hl. apply In_csv_lines in Hl. destruct Hl as [g [r [Hg [Hr E]]]]. subst l.
      intros Hin. apply in_app_or in Hin. destruct Hin as [Hin|[E|Hin]].
      + rewrite Forall_forall in On2. apply (On2 g Hg). exact Hin.
      + apply HsepNL. exact E.
      + apply (WordsNL r). exact Hin. }
  (* strip('\n') only removes the final line break *)
  assert (ES : strip_c NL (join_char NL (HEADER :: LS) ++ [NL]) = join_char NL (HEADER :: LS)).
  { assert (EB' : exists B, join_char NL (HEADER :: LS) = sep :: B) by (unfold HEADER; apply join_starts).
    destruct EB' as [B EB]. rewrite EB.
    destruct (exists_last NLS) as [L0 [ll Ell]].
    assert (Hll : In ll LS) by (rewrite Ell; apply in_or_app; right; left; reflexivity).
    apply In_csv_lines in Hll. destruct Hll as [g [r [_ [_ Eg]]]].
    assert (Hne' : sep :: join_char sep (map (word wt wf) r) <> []) by discriminate.
    destruct (exists_last Hne') as [J0 [ch Ech]].
    assert (Hch : ch <> NL).
    { assert (F : Forall (fun c => c <> NL) (sep :: join_char sep (map (word wt wf) r)))
        by (constructor; [exact HsepNL | apply WordsF]).
      rewrite Forall_forall in F. apply F. rewrite Ech. apply in_or_app. right. left. reflexivity. }
    destruct (join_ends NL (HEADER :: L0) (g ++ J0) ch) as [X' EX].
    apply (strip_c_block sep B X' ch); [exact HsepNL | exact Hch|].
    rewrite <- EX, <- EB. f_equal. rewrite Ell, Eg, Ech. cbn [app].
    rewrite <- (app_assoc g J0 [ch]). reflexivity. }
  rewrite ES. rewrite split_join_char by (try discriminate; exact LinesNL).
  unfold HEADER. rewrite split_char_leading_sep.
  assert (Nan : an <> []) by (destruct an; [simpl in Ha; lia | discriminate]).
  rewrite split_join_char by assumption. simpl tl.
  unfold LS. rewrite parse_lines_ok by assumption. simpl sbind.
  apply (make_ctx_ok (mk_sctx on an None t)). exact Hok.
Qed.

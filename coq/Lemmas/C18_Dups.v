(* Lemmas/C18_Dups.v — a base generator listed with repeated attributes denotes the same set: the
   search then returns listings with the same repeats, whose underlying sets are exactly the
   minimum generators. *)
From FCA Require Import Model.C18_MinGen Spec.C18_MinGenSpec Lemmas.C01 Lemmas.C18.
From Coq Require Import Lia.
Local Open Scope nat_scope.

Lemma insert_sorted_In' x y l : In x (insert_sorted y l) <-> x = y \/ In x l.
Proof.
  induction l as [|z l IH]; cbn [insert_sorted In]; [intuition|].
  destruct (Nat.leb y z); cbn [In]; [intuition|]. rewrite IH. intuition.
Qed.

Lemma sort_nat_In' x l : In x (sort_nat l) <-> In x l.
Proof.
  induction l as [|y l IH]; [reflexivity|]. cbn [sort_nat fold_right]. fold (sort_nat l).
  rewrite insert_sorted_In', IH. cbn [In]. intuition.
Qed.

Lemma mem_nodup x l : mem x (nodup Nat.eq_dec l) = mem x l.
Proof. apply bool_eq_iff. rewrite !mem_In, nodup_In. reflexivity. Qed.

Lemma mingens_spec_nodup t intent bg bo :
  mingens_spec t intent (nodup Nat.eq_dec bg) bo = mingens_spec t intent bg bo.
Proof.
  assert (E : forall D, is_genb t intent (nodup Nat.eq_dec bg) bo D = is_genb t intent bg bo D).
  { intros D. unfold is_genb. f_equal. apply bool_eq_iff. rewrite !subsetb_incl. unfold incl.
    split; intros H x Hx; apply H; [apply nodup_In | apply nodup_In in Hx]; exact Hx. }
  unfold mingens_spec, gens_spec.
  rewrite (filter_ext_in' (is_genb t intent (nodup Nat.eq_dec bg) bo) (is_genb t intent bg bo)) by (intros D _; apply E).
  reflexivity.
Qed.

Section Dups.
Variable b : backend.
Variable t : table.
Variables intent bg bo : list nat.
Hypothesis Hwf : wf t.
Hypothesis Hbo : in_range (height t) bo.
Hypothesis Hbg : in_range (width t) bg.

Let w := width t.
Let bg' := nodup Nat.eq_dec bg.
Let attrs := filter (fun m => negb (mem m bg)) (seq 0 w).

Lemma attrs_same : filter (fun m => negb (mem m bg')) (seq 0 w) = attrs.
Proof. unfold attrs, bg'. apply filter_ext_in'. intros m _. rewrite mem_nodup. reflexivity. Qed.

Lemma Hbg' : in_range w bg'.
Proof. intros x Hx. apply nodup_In in Hx. apply Hbg. exact Hx. Qed.

Lemma level_dedupe k :
  map (canon_set w) (mingen_level b t intent bg bo attrs k) = mingen_level b t intent bg' bo attrs k.
Proof.
  unfold mingen_level. rewrite map_map.
  assert (Hc : forall comb, In comb (combs k attrs) ->
            NoDup (bg' ++ comb) /\ in_range w (bg' ++ comb) /\ in_range w (bg ++ comb)).
  { intros comb Hcomb. destruct (combs_props attrs k comb Hcomb) as [_ [Hi Hn]].
    assert (Hin : forall x, In x comb -> x < w /\ ~ In x bg).
    { intros x Hx. apply Hi in Hx. unfold attrs in Hx. apply filter_In in Hx. destruct Hx as [H1 H2].
      apply in_seq in H1. apply negb_true_iff, mem_false_iff in H2. split; [lia | exact H2]. }
    split; [|split].
    - apply NoDup_app_disjoint; [apply NoDup_nodup | apply Hn, NoDup_filter, seq_NoDup |].
      intros x Hx Hx2. apply nodup_In in Hx. apply Hin in Hx2. tauto.
    - intros x Hx. apply in_app_or in Hx. destruct Hx as [Hx|Hx]; [apply Hbg'; exact Hx | apply Hin; exact Hx].
    - intros x Hx. apply in_app_or in Hx. destruct Hx as [Hx|Hx]; [apply Hbg; exact Hx | apply Hin; exact Hx]. }
  assert (Hss : forall comb, same_set (bg ++ comb) (bg' ++ comb)).
  { intros comb x. rewrite !in_app_iff. unfold bg'. rewrite nodup_In. reflexivity. }
  rewrite (filter_ext_in' (fun comb => same_setb (closure_in_m b t (bg ++ comb) bo) intent)
                          (fun comb => same_setb (closure_in_m b t (bg' ++ comb) bo) intent)).
  - apply map_ext_in. intros comb Hcomb. apply filter_In in Hcomb. destruct Hcomb as [Hcomb _].
    destruct (Hc comb Hcomb) as [Hnd [Hr _]].
    rewrite (sort_nat_canon w _ Hnd Hr). apply canon_set_same.
    intros x. rewrite sort_nat_In'. apply Hss.
  - intros comb Hcomb. destruct (Hc comb Hcomb) as [_ [Hr' Hr]].
    rewrite (closure_in_m_correct b t bo Hwf Hbo _ Hr), (closure_in_m_correct b t bo Hwf Hbo _ Hr').
    rewrite (closure_in_same t bo _ _ (Hss comb)). reflexivity.
Qed.

Lemma levels_dedupe ks :
  map (canon_set w) (mingen_levels b t intent bg bo attrs ks) = mingen_levels b t intent bg' bo attrs ks.
Proof.
  induction ks as [|k ks IH]; [reflexivity|]. cbn [mingen_levels].
  rewrite <- (level_dedupe k).
  destruct (mingen_level b t intent bg bo attrs k) as [|x r]; [exact IH | reflexivity].
Qed.

End Dups.

Theorem get_minimal_generators_i_dups b t intent bg bo :
  wf t -> opt_in_range (height t) bo -> in_range (width t) (default [] bg) ->
  let l := get_minimal_generators_i b t intent bg bo in
  let spec := mingens_spec t intent (default [] bg) (default (all_objs t) bo) in
  (forall D', In D' l -> In (canon_set (width t) D') spec) /\
  (forall D, In D spec -> exists D', In D' l /\ canon_set (width t) D' = D).
Proof.
  intros Hwf Hbo Hbg l spec.
  set (g := default [] bg) in *. set (o := default (all_objs t) bo) in *.
  assert (Ho : in_range (height t) o).
  { unfold o. destruct bo as [bo|]; cbn [default]; [exact Hbo|]. intros x Hx. apply in_seq in Hx. lia. }
  pose proof (get_minimal_generators_i_exact b t intent (Some (nodup Nat.eq_dec g)) (Some o) Hwf Ho) as X.
  cbn [default] in X. destruct X as [_ X].
  { intros x Hx. apply nodup_In in Hx. apply Hbg. exact Hx. }
  { apply NoDup_nodup. }
  rewrite mingens_spec_nodup in X.
  assert (L : forall D, In D (get_minimal_generators_i b t intent (Some (nodup Nat.eq_dec g)) (Some o))
                        <-> exists D', In D' l /\ canon_set (width t) D' = D).
  { intros D. unfold l, get_minimal_generators_i. cbn [default].
    change (default (seq 0 (height t)) bo) with o. change (default [] bg) with g.
    rewrite (attrs_same g (width t)) || rewrite attrs_same.
    split.
    - intros H. apply (proj1 (nodup_lists_In _ _)) in H.
      rewrite <- (levels_dedupe b t intent g o Hwf Ho Hbg) in H. apply in_map_iff in H.
      destruct H as [D' [H1 H2]]. exists D'. split; [apply (proj2 (nodup_lists_In _ _)); exact H2 | exact H1].
    - intros [D' [H1 H2]]. apply (proj2 (nodup_lists_In _ _)).
      rewrite <- (levels_dedupe b t intent g o Hwf Ho Hbg). apply in_map_iff. exists D'.
      split; [exact H2 | apply (proj1 (nodup_lists_In _ _)); exact H1]. }
  split.
  - intros D' HD'. apply X. apply L. exists D'. tauto.
  - intros D HD. apply L. apply X. exact HD.
Qed.

(* Lemmas/C03_corr.v — soundness of the cheap completeness criterion used by Corr/C03.v for
   tables with more than 7 rows: if the full object set is listed and the listed extents are
   closed under intersection with every attribute extent, every concept is listed. *)
From FCA Require Import Base.ListSet Base.Order Model.LatticeOrder Spec.Closure Spec.LatticeOrderSpec
     Lemmas.C03 Lemmas.C03_lattice Corr.C03.

Lemma ext_cons t m B : ext t (m :: B) = filter (fun g => I t g m) (ext t B).
Proof.
  unfold ext, ext_spec. rewrite filter_filter'. apply filter_ext_in'. intros g _. simpl.
  apply andb_comm.
Qed.

Lemma existsb_eqb_In (x : list nat) l : existsb (nat_list_eqb x) l = true -> In x l.
Proof.
  intros H. apply existsb_exists in H. destruct H as [y [Hy E]]. apply nat_list_eqb_eq in E.
  subst. exact Hy.
Qed.

Lemma generated_extents t exts : complete_by_generation t exts = true ->
  forall B, in_range (width t) B -> In (ext t B) exts.
Proof.
  unfold complete_by_generation. intros H. apply andb_true_iff in H. destruct H as [Htop Hcl].
  rewrite forallb_forall in Hcl.
  induction B as [|m B IH]; intros Hr.
  - rewrite ext_nil. apply existsb_eqb_In. exact Htop.
  - rewrite ext_cons.
    assert (HB : In (ext t B) exts) by (apply IH; intros x Hx; apply Hr; right; exact Hx).
    specialize (Hcl _ HB). rewrite forallb_forall in Hcl.
    apply existsb_eqb_In. apply Hcl. apply in_seq. assert (m < width t) by (apply Hr; left; reflexivity). lia.
Qed.

Theorem generation_criterion t cs : concepts_of t cs ->
  complete_by_generation t (map fst cs) = true -> complete_for t cs.
Proof.
  intros Hc Hg A B [EA EB].
  assert (Hin : In A (map fst cs)).
  { rewrite EA. apply (generated_extents t _ Hg). rewrite EB. apply int_in_range. }
  apply in_map_iff in Hin. destruct Hin as [[A' B'] [E Hin]]. simpl in E. subst A'.
  destruct (Hc _ Hin) as [_ EB']. simpl in EB'. rewrite EB' in Hin. rewrite EB. exact Hin.
Qed.

(* Lemmas/C09Ext.v — property C09 for the rest of POSet's public surface (Model/PosetExt.v):
   trace_element as a public call, the four *_dict properties, supremum / infimum.  Every such
   call preserves the invariant and returns the cache-free answer; lifted to all histories. *)
From FCA Require Import Base.ListSet Spec.PosetSpec Model.Poset Model.PosetExt Lemmas.C09Base
     Lemmas.C09Query Lemmas.C09Add Lemmas.C09Del Lemmas.C09.

#[local] Arguments upd : simpl never.
#[local] Arguments updl : simpl never.
#[local] Arguments lk : simpl never.
#[local] Arguments lkl : simpl never.

Section C09Ext.
  Variable E : Type.
  Variable leq : E -> E -> bool.
  Variable eqb : E -> E -> bool.
  Hypothesis PO : partial_order E leq eqb.

  Notation state := (state E).
  Notation Sound := (Sound E leq []).
  Notation ext := (ext E).
  Notation xstep := (xstep E leq eqb).
  Notation xspec_step := (xspec_step E leq eqb).
  Notation xrun := (xrun E leq eqb).
  Notation xspec_run := (xspec_run E leq eqb).

  (* ---------------------------------------------------------------- the *_dict properties *)
  Lemma collect_spec (f : state -> nat -> state * list nat) (g : nat -> list nat) (I : state -> Prop) js :
    (forall s j, I s -> In j js -> I (fst (f s j)) /\ norm (snd (f s j)) = g j) ->
    forall s, I s -> I (fst (collect E f s js)) /\ snd (collect E f s js) = map g js.
  Proof.
    induction js as [|j js IH]; intros Hf s Hs; simpl; [auto|].
    destruct (Hf s j Hs (or_introl eq_refl)) as [H1 H2].
    destruct (f s j) as [s1 r]. simpl in H1, H2.
    destruct (IH (fun s' j' Hs' Hj' => Hf s' j' Hs' (or_intror Hj')) s1 H1) as [H3 H4].
    destruct (collect E f s1 js) as [s2 rest]. simpl in *. subst. rewrite H2. auto.
  Qed.

  Lemma collect_id (f : state -> nat -> state * list nat) js :
    (forall s j, use_cache s = false -> fst (f s j) = s) ->
    forall s, use_cache s = false -> fst (collect E f s js) = s.
  Proof.
    intros Hf. induction js as [|j js IH]; intros s Hs; simpl; [reflexivity|].
    pose proof (Hf s j Hs) as H1. destruct (f s j) as [s1 r]. simpl in H1. subst s1.
    pose proof (IH s Hs) as H2. destruct (collect E f s js) as [s2 rest]. exact H2.
  Qed.

  Lemma dict_ok (cv up : bool) (s : state) :
    Sound s ->
    let r := collect E (if cv then cover E leq up else closed E leq up) s (seq 0 (size E s)) in
    Sound (fst r) /\ ext s (fst r) /\
    snd r = map (if cv then covers E leq (els s) up else strict_rel E leq (els s) up) (idxs E (els s)).
  Proof.
    intros HS. cbv zeta.
    pose (I := fun s' => Sound s' /\ ext s s').
    destruct (collect_spec (if cv then cover E leq up else closed E leq up)
                (if cv then covers E leq (els s) up else strict_rel E leq (els s) up) I (seq 0 (size E s)))
      with (s := s) as [[H1 H2] H3].
    - intros s0 j [HS0 Hx0] Hj. apply In_seq0 in Hj.
      assert (Hsz : size E s0 = size E s) by (unfold size; rewrite (ext_els _ _ _ Hx0); reflexivity).
      destruct cv.
      + destruct (cover_ok_q E leq eqb PO [] up s0 j HS0) as [A [B [C [D _]]]]; [lia|].
        destruct (cover E leq up s0 j) as [s' r]. cbn [fst snd] in *.
        split; [split; [exact A | eapply ext_trans; eauto]|].
        rewrite (ext_els _ _ _ Hx0) in D. apply norm_covers. exact D.
      + destruct (closed_ok_q E leq [] up s0 j HS0) as [A [B [C [D _]]]]; [lia|].
        destruct (closed E leq up s0 j) as [s' r]. cbn [fst snd] in *.
        split; [split; [exact A | eapply ext_trans; eauto]|].
        rewrite (ext_els _ _ _ Hx0) in D. apply norm_strict_rel. exact D.
    - split; [exact HS | apply ext_refl].
    - split; [exact H1|]. split; [exact H2|]. exact H3.
  Qed.

  (* ---------------------------------------------------------------- trace_element *)
  Lemma bfs_id (mv : bool) (cmp : nat -> bool) : forall fuel (s : state) todo traced final,
    use_cache s = false -> fst (bfs E fuel (cover E leq mv) cmp s todo traced final) = s.
  Proof.
    induction fuel as [|f IH]; intros s todo traced final H; destruct todo as [|el rest]; simpl; try reflexivity.
    pose proof (cover_id E leq mv s el H) as H1. destruct (cover E leq mv s el) as [s1 nx]. simpl in H1. subst s1.
    destruct (filter cmp nx); apply IH; exact H.
  Qed.

  Lemma trace_id (mv : bool) (s : state) (e : E) : use_cache s = false -> fst (trace E leq (extremes_q E leq) mv s e) = s.
  Proof.
    intros H. unfold trace.
    pose proof (extremes_id E leq (negb mv) s H) as H1.
    destruct (extremes_q E leq (negb mv) s) as [s1 st]. simpl in H1. subst s1. apply bfs_id. exact H.
  Qed.

  Lemma trace_public_ok (mv : bool) (s : state) (e : E) :
    Sound s ->
    exists s' fin tr,
      trace E leq (extremes_q E leq) mv s e = (s', Some (fin, tr)) /\ Sound s' /\ ext s s' /\
      (norm fin, norm tr) = trace_spec E leq (els s) mv e.
  Proof.
    intros HS.
    destruct (trace_ok E leq eqb PO [] (extremes_q E leq) s mv e HS (extremes_q_starts_ok E leq [] (els s)))
      as [s' [fin [tr [R1 [R2 [R3 [R4 [R5 [R6 [R7 _]]]]]]]]]].
    exists s', fin, tr. split; [exact R1|]. split; [exact R2|]. split; [exact R3|].
    unfold trace_spec, idxs. rewrite filter_filter. f_equal.
    - apply norm_eq_filter. intros x. rewrite R7, andb_true_iff, negb_true_iff. split.
      + intros [[Hx Hc] Hmax]. split; [exact Hx|]. split; [exact Hc|].
        destruct (existsb _ _) eqn:Hex; [|reflexivity]. exfalso.
        apply existsb_exists in Hex. destruct Hex as [y [Hy Hxy]].
        apply filter_In in Hy. destruct Hy as [Hy Hcy]. apply In_seq0 in Hy.
        apply andb_true_iff in Hxy. destruct Hxy as [H1 H2]. apply negb_true_iff, Nat.eqb_neq in H2.
        apply (Hmax y Hy Hcy). split; assumption.
      + intros [Hx [Hc Hno]]. split; [auto|]. intros y Hy Hcy [H1 H2].
        assert (existsb (fun y0 => ldir E leq (els s) mv x y0 && negb (Nat.eqb y0 x))
                        (filter (cmp_elem E leq (els s) mv e) (seq 0 (length (els s)))) = true); [|congruence].
        apply existsb_exists. exists y. split; [apply filter_In; split; [apply In_seq0; exact Hy | exact Hcy]|].
        rewrite H1. apply Nat.eqb_neq in H2. rewrite H2. reflexivity.
    - apply norm_eq_filter. intros x. rewrite R6. reflexivity.
  Qed.

  (* ---------------------------------------------------------------- one call *)
  Definition xvalid (s : state) (o : xop E) : Prop :=
    match o with
    | XB o => valid_op E s o
    | XSup _ l => forall x, In x l -> x < size E s
    | _ => True
    end.

  Theorem xstep_ok s o :
    Inv E leq s -> xvalid s o ->
    Inv E leq (fst (xstep s o)) /\
    snd (xstep s o) = snd (xspec_step (els s) (use_cache s) o) /\
    els (fst (xstep s o)) = fst (xspec_step (els s) (use_cache s) o) /\
    use_cache (fst (xstep s o)) = use_cache s.
  Proof.
    intros HI Hv. destruct o as [o | e mv | cv up | up l]; cbn [PosetExt.xstep PosetExt.xspec_step xvalid] in *.
    - destruct (step_ok E leq eqb PO s o HI Hv) as [A [B [C D]]].
      destruct (step E leq eqb s o) as [s' r]. destruct (spec_step E leq eqb (els s) (use_cache s) o) as [l' r'].
      cbn [fst snd] in *. subst. auto.
    - destruct HI as [HS HT].
      destruct (trace_public_ok mv s e HS) as [s' [fin [tr [R1 [R2 [R3 R4]]]]]].
      pose proof (trace_id mv s e) as Hid. rewrite R1 in *. cbn [fst snd] in *.
      destruct (trace_spec E leq (els s) mv e) as [sf st]. injection R4 as <- <-.
      split; [split; [exact R2|]|].
      + intros Hc. rewrite (ext_uc _ _ _ R3) in Hc. rewrite (Hid Hc). apply HT. exact Hc.
      + split; [reflexivity|]. split; [apply (ext_els _ _ _ R3) | apply (ext_uc _ _ _ R3)].
    - destruct HI as [HS HT].
      destruct (dict_ok cv up s HS) as [A [B C]].
      assert (Hid : use_cache s = false ->
                    fst (collect E (if cv then cover E leq up else closed E leq up) s (seq 0 (size E s))) = s).
      { intros Hc. apply collect_id; [|exact Hc].
        intros s0 j H0. destruct cv; [apply cover_id | apply closed_id]; exact H0. }
      destruct (collect E _ s (seq 0 (size E s))) as [s' l]. cbn [fst snd] in *.
      split; [split; [exact A|]|].
      + intros Hc. rewrite (ext_uc _ _ _ B) in Hc. rewrite (Hid Hc). apply HT. exact Hc.
      + split; [rewrite C; reflexivity|]. split; [apply (ext_els _ _ _ B) | apply (ext_uc _ _ _ B)].
    - destruct (step_ok E leq eqb PO s (QBound up l) HI Hv) as [A [B [C D]]].
      cbn [Poset.step PosetSpec.spec_step] in A, B, C, D.
      destruct (bound_q E leq up s l) as [s' r]. cbn [fst snd] in *. subst. auto.
  Qed.

  (* ---------------------------------------------------------------- all histories *)
  Definition xvalidl (l : list E) (o : xop E) : Prop := xvalid (init E l true) o.

  Fixpoint xvalid_history (l : list E) (uc : bool) (ops : list (xop E)) : Prop :=
    match ops with
    | [] => True
    | o :: ops' => xvalidl l o /\ xvalid_history (fst (xspec_step l uc o)) uc ops'
    end.

  Lemma xvalid_els s s' o : els s' = els s -> xvalid s o -> xvalid s' o.
  Proof.
    intros H. destruct o; cbn [xvalid]; auto.
    - apply valid_op_els. exact H.
    - unfold size. rewrite H. auto.
  Qed.

  Theorem xrun_ok : forall ops s,
    Inv E leq s -> xvalid_history (els s) (use_cache s) ops ->
    Inv E leq (fst (xrun s ops)) /\
    snd (xrun s ops) = snd (xspec_run (els s) (use_cache s) ops) /\
    els (fst (xrun s ops)) = fst (xspec_run (els s) (use_cache s) ops) /\
    use_cache (fst (xrun s ops)) = use_cache s.
  Proof.
    induction ops as [|o ops IH]; intros s HI Hv; cbn [PosetExt.xrun PosetExt.xspec_run]; [auto|].
    destruct Hv as [Hv1 Hv2].
    assert (Hv1' : xvalid s o) by (apply (xvalid_els (init E (els s) true) s o eq_refl Hv1)).
    destruct (xstep_ok s o HI Hv1') as [A [B [C D]]].
    destruct (xstep s o) as [s1 r]. cbn [fst snd] in A, B, C, D.
    destruct (xspec_step (els s) (use_cache s) o) as [l1 r'] eqn:Hss. cbn [fst snd] in B, C, Hv2.
    subst r' l1.
    destruct (IH s1 A) as [P [Q [R T]]]; [rewrite D; exact Hv2|].
    destruct (xrun s1 ops) as [s2 rs]. cbn [fst snd] in P, Q, R, T.
    rewrite D in Q, R. destruct (xspec_run (els s1) (use_cache s) ops) as [l2 rs']. cbn [fst snd] in *.
    subst. split; [exact P|]. split; [reflexivity|]. split; [reflexivity | congruence].
  Qed.

  (* ---------------------------------------------------------------- the executable soundness
     test of raw cache dictionaries is the invariant's cache part *)
  Theorem raw_sound_of_Sound s :
    Sound s ->
    raw_sound E leq (els s) (c_leq s) (c_desc s) (c_anc s) (c_ch s) (c_par s) = true.
  Proof.
    intros [S1 S2 S3 S4 S5]. unfold raw_sound. rewrite !andb_true_iff. repeat split.
    - apply forallb_forall. intros [[a b] r] Hin. destruct (S2 a b r Hin) as [Ha [Hb [H _]]].
      rewrite app_nil_r in Ha, Hb. cbn [fst snd]. rewrite !andb_true_iff. repeat split.
      + apply Nat.ltb_lt. exact Ha.
      + apply Nat.ltb_lt. exact Hb.
      + rewrite (H Ha Hb). destruct (lq E leq (els s) a b); reflexivity.
    - apply forallb_forall. intros [i X] Hin. destruct (S3 false i X Hin) as [Hi [H _]].
      rewrite app_nil_r in Hi. cbn [fst snd]. rewrite andb_true_iff. split; [apply Nat.ltb_lt; exact Hi|].
      apply same_setb_spec. intros x. apply (H Hi).
    - apply forallb_forall. intros [i X] Hin. destruct (S3 true i X Hin) as [Hi [H _]].
      rewrite app_nil_r in Hi. cbn [fst snd]. rewrite andb_true_iff. split; [apply Nat.ltb_lt; exact Hi|].
      apply same_setb_spec. intros x. apply (H Hi).
    - apply forallb_forall. intros [i X] Hin. destruct (S4 false i X Hin) as [Hi [H _]].
      rewrite app_nil_r in Hi. cbn [fst snd]. rewrite andb_true_iff. split; [apply Nat.ltb_lt; exact Hi|].
      apply same_setb_spec. intros x. apply (H Hi).
    - apply forallb_forall. intros [i X] Hin. destruct (S4 true i X Hin) as [Hi [H _]].
      rewrite app_nil_r in Hi. cbn [fst snd]. rewrite andb_true_iff. split; [apply Nat.ltb_lt; exact Hi|].
      apply same_setb_spec. intros x. apply (H Hi).
  Qed.
End C09Ext.

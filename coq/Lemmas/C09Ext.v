(* Lemmas/C09Ext.v — property C09 for the rest of POSet's public surface (Model/PosetExt.v):
   trace_element as a public call, the four *_dict properties, supremum / infimum.  Every such
   call preserves the invariant and returns the cache-free answer; lifted to all histories. *)
From FCA Require Import Base.ListSet Spec.PosetSpec Model.Poset Model.PosetExt Lemmas.C09Base
     Lemmas.C09Query Lemmas.C09Add Lemmas.C09Del Lemmas.C09.

#[local] Arguments upd : simpl never.
#[local] Arguments updl : simpl never.
#[local] Arguments lk : simpl never.
#[local] Arguments lkl : simpl never.

Section C09Ext.
  Variable E : Type.
  Variable leq : E -> E -> bool.
  Variable eqb : E -> E -> bool.
  Hypothesis PO : partial_order E leq eqb.

  Notation state := (state E).
  Notation Sound := (Sound E leq []).
  Notation ext := (ext E).
  Notation xstep := (xstep E leq eqb).
  Notation xspec_step := (xspec_step E leq eqb).
  Notation xrun := (xrun E leq eqb).
  Notation xspec_run := (xspec_run E leq eqb).

  (* ---------------------------------------------------------------- the *_dict properties *)
  Lemma collect_spec (f : state -> nat -> state * list nat) (g : nat -> list nat) (I : state -> Prop) js :
    (forall s j, I s -> In j js -> I (fst (f s j)) /\ norm (snd (f s j)) = g j) ->
    forall s, I s -> I (fst (collect E f s js)) /\ snd (collect E f s js) = map g js.
  Proof.
    induction js as [|j js IH]; intros Hf s Hs; simpl; [auto|].
    destruct (Hf s j Hs (or_introl eq_refl)) as [H1 H2].
    destruct (f s j) as [s1 r]. simpl in H1, H2.
    destruct (IH (fun s' j' Hs' Hj' => Hf s' j' Hs' (or_intror Hj')) s1 H1) as [H3 H4].
    destruct (collect E f s1 js) as [s2 rest]. simpl in *. subst. rewrite H2. auto.
  Qed.

  Lemma collect_id (f : state -> nat -> state * list nat) js :
    (forall s j, use_cache s = false -> fst (f s j) = s) ->
    forall s, use_cache s = false -> fst (collect E f s js) = s.
  Proof.
    intros Hf. induction js as [|j js IH]; intros s Hs; simpl; [reflexivity|].
    pose proof (Hf s j Hs) as H1. destruct (f s j) as [s1 r]. simpl in H1. subst s1.
    pose proof (IH s Hs) as H2. destruct (collect E f s js) as [s2 rest]. exact H2.
  Qed.

  Lemma dict_ok (cv up : bool) (s : state) :
    Sound s ->
    let r := collect E (if cv then cover E leq up else closed E leq up) s (seq 0 (size E s)) in
    Sound (fst r) /\ ext s (fst r) /\
    snd r = map (if cv then covers E leq (els s) up else strict_rel E leq (els s) up) (idxs E (els s)).
  Proof.
    intros HS. cbv zeta.
    pose (I := fun s' => Sound s' /\ ext s s').
    destruct (collect_spec (if cv then cover E leq up else closed E leq up)
                (if cv then covers E leq (els s) up else strict_rel E leq (els s) up) I (seq 0 (size E s)))
      with (s := s) as [[H1 H2] H3].
    - intros s0 j [HS0 Hx0] Hj. apply In_seq0 in Hj.
      assert (Hsz : size E s0 = size E s) by (unfold size; rewrite (ext_els _ _ _ Hx0); reflexivity).
      destruct cv.
      + destruct (cover_ok_q E leq eqb PO [] up s0 j HS0) as [A [B [C [D _]]]]; [lia|].
        destruct (cover E leq up s0 j) as [s' r]. cbn [fst snd] in *.
        split; [split; [exact A | eapply ext_trans; eauto]|].
        rewrite (ext_els _ _ _ Hx0) in D. apply norm_covers. exact D.
      + destruct (closed_ok_q E leq [] up s0 j HS0) as [A [B [C [D _]]]]; [lia|].
        destruct (closed E leq up s0 j) as [s' r]. cbn [fst snd] in *.
        split; [split; [exact A | eapply ext_trans; eauto]|].
        rewrite (ext_els _ _ _ Hx0) in D. apply norm_strict_rel. exact D.
    - split; [exact HS | apply ext_refl].
    - split; [exact H1|]. split; [exact H2|]. exact H3.
  Qed.

  (* ---------------------------------------------------------------- trace_element *)
  Lemma bfs_id (mv : bool) (cmp : nat -> bool) : forall fuel (s : state) todo traced final,
    use_cache s = false -> fst (bfs E fuel (cover E leq mv) cmp s todo traced final) = s.
  Proof.
    induction fuel as [|f IH]; intros s todo traced final H; destruct todo as [|el rest]; simpl; try reflexivity.
    pose proof (cover_id E leq mv s el H) as H1. destruct (cover E leq mv s el) as [s1 nx]. simpl in H1. subst s1.
    destruct (filter cmp nx); apply IH; exact H.
  Qed.

  Lemma trace_id (mv : bool) (s : state) (e : E) : use_cache s = false -> fst (trace E leq (extremes_q E leq) mv s e) = s.
  Proof.
    intros H. unfold trace.
    pose proof (extremes_id E leq (negb mv) s H) as H1.
    destruct (extremes_q E leq (negb mv) s) as [s1 st]. simpl in H1. subst s1. apply bfs_id. exact H.
  Qed.

  Lemma trace_public_ok (mv : bool) (s : state) (e : E) :
    Sound s ->
    exists s' fin tr,
      trace E leq (extremes_q E leq) mv s e = (s', Some (fin, tr)) /\ Sound s' /\ ext s s' /\
      (norm fin, norm tr) = trace_spec E leq (els s) mv e.
  Proof.
    intros HS.
    destruct (trace_ok E leq eqb PO [] (extremes_q E leq) s mv e HS (extremes_q_starts_ok E leq [] (els s)))
      as [s' [fin [tr [R1 [R2 [R3 [R4 [R5 [R6 [R7 _]]]]]]]]]].
    exists s', fin, tr. split; [exact R1|]. split; [exact R2|]. split; [exact R3|].
    unfold trace_spec, idxs. rewrite filter_filter. f_equal.
    - apply norm_eq_filter. intros x. rewrite R7, andb_true_iff, negb_true_iff. split.
      + intros [[Hx Hc] Hmax]. split; [exact Hx|]. split; [exact Hc|].
        destruct (existsb _ _) eqn:Hex; [|reflexivity]. exfalso.
        apply existsb_exists in Hex. destruct Hex as [y [Hy Hxy]].
        apply filter_In in Hy. destruct Hy as [Hy Hcy]. apply In_seq0 in Hy.
        apply andb_true_iff in Hxy. destruct Hxy as [H1 H2]. apply negb_true_iff, Nat.eqb_neq in H2.
        apply (Hmax y Hy Hcy). split; assumption.
      + intros [Hx [Hc Hno]]. split; [auto|]. intros y Hy Hcy [H1 H2].
        assert (existsb (fun y0 => ldir E leq (els s) mv x y0 && negb (Nat.eqb y0 x))
                        (filter (cmp_elem E leq (els s) mv e) (seq 0 (length (els s)))) = true); [|congruence].
        apply existsb_exists. exists y. split; [apply filter_In; split; [apply In_seq0; exact Hy | exact Hcy]|].
        rewrite H1. apply Nat.eqb_neq in H2. rewrite H2. reflexivity.
    - apply norm_eq_filter. intros x. rewrite R6. reflexivity.
  Qed.

  (* ---------------------------------------------------------------- == between posets over
     different comparisons *)
  Section Eq2.
    Variable la lb : E -> E -> bool.
    Hypothesis POa : partial_order E la eqb.
    Hypothesis POb : partial_order E lb eqb.

    Definition agree (l1 : list E) (e : E) : bool :=
      forallb (fun y => eqb y e || Bool.eqb (la y e) (lb y e)) l1.

    Lemma mb_char l1 l2 i2 e d2 j :
      NoDup l1 -> NoDup l2 -> (forall x, In x l1 <-> In x l2) -> nth_error l2 i2 = Some e ->
      (forall j2, In j2 d2 <-> In j2 (strict_rel E lb l2 false i2)) ->
      (In j (map_back E eqb l1 l2 d2) <-> exists y, nth_error l1 j = Some y /\ lb y e = true /\ y <> e).
    Proof.
      intros N1 N2 Hs Hi2 Hd. unfold map_back. rewrite in_flat_map. split.
      - intros [j2 [Hj2 Hin]]. apply Hd in Hj2. apply In_strict_rel in Hj2. cbn [ldir] in Hj2.
        unfold PosetSpec.lq in Hj2. rewrite Hi2 in Hj2. destruct Hj2 as [Hle Hne].
        destruct (nth_error l2 j2) as [x|] eqn:Hx; [|discriminate].
        destruct (index_of E eqb x l1) as [j'|] eqn:Hidx; [|destruct Hin].
        destruct Hin as [<- | []]. apply (index_of_Some E la eqb POa) in Hidx.
        exists x. split; [exact Hidx|]. split; [exact Hle|]. intros ->. apply Hne.
        eapply (NoDup_nth_error_inj _ l2); eauto.
      - intros [y [Hy [Hle Hne]]].
        assert (Hy2 : In y l2) by (apply Hs; eapply nth_error_In; eauto).
        apply In_nth_error in Hy2. destruct Hy2 as [j2 Hj2]. exists j2. split.
        + apply Hd. apply In_strict_rel. cbn [ldir]. unfold PosetSpec.lq. rewrite Hj2, Hi2.
          split; [exact Hle|]. intros ->. apply Hne. congruence.
        + rewrite Hj2, (index_of_nth E la eqb POa l1 j y N1 Hy). left. reflexivity.
    Qed.

    Lemma same_setb_agree l1 l2 i i2 e d1 d2 :
      NoDup l1 -> NoDup l2 -> (forall x, In x l1 <-> In x l2) ->
      nth_error l1 i = Some e -> nth_error l2 i2 = Some e ->
      (forall j, In j d1 <-> In j (strict_rel E la l1 false i)) ->
      (forall j, In j d2 <-> In j (strict_rel E lb l2 false i2)) ->
      same_setb d1 (map_back E eqb l1 l2 d2) = agree l1 e.
    Proof.
      intros N1 N2 Hs Hi Hi2 H1 H2. apply bool_eq_iff.
      assert (Hd1 : forall j, In j d1 <-> exists y, nth_error l1 j = Some y /\ la y e = true /\ y <> e).
      { intros j. rewrite H1, In_strict_rel. cbn [ldir]. unfold PosetSpec.lq. rewrite Hi. split.
        - intros [Hle Hne]. destruct (nth_error l1 j) as [y|] eqn:Hy; [|discriminate].
          exists y. split; [reflexivity|]. split; [exact Hle|]. intros ->. apply Hne.
          eapply (NoDup_nth_error_inj _ l1); eauto.
        - intros [y [Hy [Hle Hne]]]. rewrite Hy. split; [exact Hle|]. intros ->. apply Hne. congruence. }
      rewrite same_setb_spec. unfold agree. rewrite forallb_forall. split.
      - intros Heq y Hy. destruct (eqb y e) eqn:Hye; [reflexivity|]. cbn [orb].
        assert (Hne : y <> e) by (intros ->; rewrite (proj2 (po_eqb _ _ _ POa e e) eq_refl) in Hye; discriminate).
        apply In_nth_error in Hy. destruct Hy as [j Hj].
        apply eqb_true_iff. apply bool_eq_iff. split; intros H.
        + assert (In j d1) as Hin by (apply Hd1; eauto).
          apply Heq in Hin. apply (mb_char l1 l2 i2 e d2 j N1 N2 Hs Hi2 H2) in Hin.
          destruct Hin as [y' [Hy' [Hle _]]]. congruence.
        + assert (In j (map_back E eqb l1 l2 d2)) as Hin by (apply (mb_char l1 l2 i2 e d2 j N1 N2 Hs Hi2 H2); eauto).
          apply Heq in Hin. apply Hd1 in Hin. destruct Hin as [y' [Hy' [Hle _]]]. congruence.
      - intros Hag j. rewrite Hd1, (mb_char l1 l2 i2 e d2 j N1 N2 Hs Hi2 H2).
        split; intros [y [Hy [Hle Hne]]]; exists y; (split; [exact Hy|]); (split; [|exact Hne]);
          assert (Hin : In y l1) by (eapply nth_error_In; eauto);
          specialize (Hag y Hin);
          (destruct (eqb y e) eqn:Hye; [apply (po_eqb _ _ _ POa) in Hye; contradiction|]);
          cbn [orb] in Hag; apply eqb_prop in Hag; congruence.
    Qed.

    Lemma eq_loop2_ok : forall is s1 s2,
      C09Query.Sound E la [] s1 -> C09Query.Sound E lb [] s2 ->
      (forall e, In e (els s1) <-> In e (els s2)) -> (forall i, In i is -> i < size E s1) ->
      let r := eq_loop2 E eqb la lb is s1 s2 in
      C09Query.Sound E la [] (fst (fst r)) /\ ext s1 (fst (fst r)) /\
      C09Query.Sound E lb [] (snd (fst r)) /\ ext s2 (snd (fst r)) /\
      snd r = forallb (fun i => match nth_error (els s1) i with Some e => agree (els s1) e | None => true end) is.
    Proof.
      induction is as [|i is IH]; intros s1 s2 S1 S2 Hs Hr; cbn [eq_loop2 forallb fst snd].
      - auto using ext_refl.
      - assert (Hi : i < size E s1) by (apply Hr; left; reflexivity).
        destruct (nth_error (els s1) i) as [e|] eqn:He; [|apply nth_error_None in He; unfold size in Hi; lia].
        assert (He2 : In e (els s2)) by (apply Hs; eapply nth_error_In; eauto).
        destruct (index_of_In E la eqb POa e _ He2) as [i2 Hi2]. rewrite Hi2.
        pose proof (index_of_Some E la eqb POa _ _ _ Hi2) as Hn2.
        assert (Hi2r : i2 < size E s2) by (unfold size; apply nth_error_Some; congruence).
        destruct (closed_ok_q E la [] false s1 i S1 Hi) as [A1 [B1 [C1 [D1 _]]]].
        destruct (closed E la false s1 i) as [s1' d1]. cbn [fst snd] in A1, B1, C1, D1.
        destruct (closed_ok_q E lb [] false s2 i2 S2 Hi2r) as [A2 [B2 [C2 [D2 _]]]].
        destruct (closed E lb false s2 i2) as [s2' d2]. cbn [fst snd] in A2, B2, C2, D2.
        rewrite (same_setb_agree (els s1) (els s2) i i2 e d1 d2
                   (snd_nodup _ _ _ _ S1) (snd_nodup _ _ _ _ S2) Hs He Hn2 D1 D2).
        destruct (agree (els s1) e) eqn:Hag.
        + destruct (IH s1' s2' A1 A2) as [P1 [P2 [P3 [P4 P5]]]].
          * rewrite (ext_els _ _ _ B1), (ext_els _ _ _ B2). exact Hs.
          * intros k Hk. unfold size. rewrite (ext_els _ _ _ B1). apply Hr. right. exact Hk.
          * split; [exact P1|]. split; [eapply ext_trans; eauto|]. split; [exact P3|].
            split; [eapply ext_trans; eauto|]. rewrite P5, (ext_els _ _ _ B1). reflexivity.
        + cbn [fst snd]. auto.
    Qed.

    Lemma forallb_nth_seq {A} (f : A -> bool) (l : list A) :
      forallb (fun i => match nth_error l i with Some e => f e | None => true end) (seq 0 (length l)) = forallb f l.
    Proof.
      apply bool_eq_iff. rewrite !forallb_forall. split.
      - intros H x Hx. apply In_nth_error in Hx. destruct Hx as [i Hi].
        specialize (H i). rewrite Hi in H. apply H. apply In_seq0. apply nth_error_Some. congruence.
      - intros H i _. destruct (nth_error l i) eqn:Hi; [|reflexivity]. apply H. eapply nth_error_In; eauto.
    Qed.

    Lemma poset_eq2_ok s1 s2 :
      C09Query.Sound E la [] s1 -> C09Query.Sound E lb [] s2 ->
      let r := poset_eq2 E eqb la lb s1 s2 in
      C09Query.Sound E la [] (fst (fst r)) /\ ext s1 (fst (fst r)) /\
      C09Query.Sound E lb [] (snd (fst r)) /\ ext s2 (snd (fst r)) /\
      snd r = spec_eq2 E eqb la lb (els s1) (els s2).
    Proof.
      intros S1 S2. unfold poset_eq2, spec_eq2.
      change (spec_eq E eqb (els s1) (els s2)) with (set_eqE E eqb (els s1) (els s2)).
      destruct (set_eqE E eqb (els s1) (els s2)) eqn:Hse.
      - pose proof (proj1 (set_eqE_spec E la eqb POa _ _) Hse) as Hse'.
        destruct (eq_loop2_ok (seq 0 (size E s1)) s1 s2 S1 S2 Hse') as [P1 [P2 [P3 [P4 P5]]]].
        { intros i Hi. apply In_seq0 in Hi. exact Hi. }
        split; [exact P1|]. split; [exact P2|]. split; [exact P3|]. split; [exact P4|].
        rewrite P5. unfold size. rewrite (forallb_nth_seq (agree (els s1)) (els s1)). reflexivity.
      - cbn [fst snd andb]. auto using ext_refl.
    Qed.

    Lemma eq_loop2_id is : forall s1 s2,
      (use_cache s1 = false -> fst (fst (eq_loop2 E eqb la lb is s1 s2)) = s1) /\
      (use_cache s2 = false -> snd (fst (eq_loop2 E eqb la lb is s1 s2)) = s2).
    Proof.
      induction is as [|i is IH]; intros s1 s2; cbn [eq_loop2]; [split; reflexivity|].
      destruct (nth_error (els s1) i); [|split; reflexivity].
      destruct (index_of E eqb e (els s2)) as [i2|]; [|split; reflexivity].
      pose proof (closed_id E la false s1 i) as H1. destruct (closed E la false s1 i) as [s1' d1].
      pose proof (closed_id E lb false s2 i2) as H2. destruct (closed E lb false s2 i2) as [s2' d2].
      cbn [fst] in H1, H2. destruct (same_setb d1 _).
      - destruct (IH s1' s2') as [I1 I2]. split; intros H.
        + rewrite <- (H1 H) in *. apply I1. rewrite (H1 H). exact H.
        + rewrite <- (H2 H) in *. apply I2. rewrite (H2 H). exact H.
      - cbn [fst snd]. split; intros H; [apply H1 | apply H2]; exact H.
    Qed.
  End Eq2.

  (* ---------------------------------------------------------------- one call *)
  Definition xvalid (s : state) (o : xop E) : Prop :=
    match o with
    | XB o => valid_op E s o
    | XSup _ l => forall x, In x l -> x < size E s
    | XEq2 other _ leq2 _ => NoDup other /\ partial_order E leq2 eqb
    | _ => True
    end.

  Theorem xstep_ok s o :
    Inv E leq s -> xvalid s o ->
    Inv E leq (fst (xstep s o)) /\
    snd (xstep s o) = snd (xspec_step (els s) (use_cache s) o) /\
    els (fst (xstep s o)) = fst (xspec_step (els s) (use_cache s) o) /\
    use_cache (fst (xstep s o)) = use_cache s.
  Proof.
    intros HI Hv. destruct o as [o | e mv | cv up | up l | other oc leq2 rev]; cbn [PosetExt.xstep PosetExt.xspec_step xvalid] in *.
    - destruct (step_ok E leq eqb PO s o HI Hv) as [A [B [C D]]].
      destruct (step E leq eqb s o) as [s' r]. destruct (spec_step E leq eqb (els s) (use_cache s) o) as [l' r'].
      cbn [fst snd] in *. subst. auto.
    - destruct HI as [HS HT].
      destruct (trace_public_ok mv s e HS) as [s' [fin [tr [R1 [R2 [R3 R4]]]]]].
      pose proof (trace_id mv s e) as Hid. rewrite R1 in *. cbn [fst snd] in *.
      destruct (trace_spec E leq (els s) mv e) as [sf st]. injection R4 as <- <-.
      split; [split; [exact R2|]|].
      + intros Hc. rewrite (ext_uc _ _ _ R3) in Hc. rewrite (Hid Hc). apply HT. exact Hc.
      + split; [reflexivity|]. split; [apply (ext_els _ _ _ R3) | apply (ext_uc _ _ _ R3)].
    - destruct HI as [HS HT].
      destruct (dict_ok cv up s HS) as [A [B C]].
      assert (Hid : use_cache s = false ->
                    fst (collect E (if cv then cover E leq up else closed E leq up) s (seq 0 (size E s))) = s).
      { intros Hc. apply collect_id; [|exact Hc].
        intros s0 j H0. destruct cv; [apply cover_id | apply closed_id]; exact H0. }
      destruct (collect E _ s (seq 0 (size E s))) as [s' l]. cbn [fst snd] in *.
      split; [split; [exact A|]|].
      + intros Hc. rewrite (ext_uc _ _ _ B) in Hc. rewrite (Hid Hc). apply HT. exact Hc.
      + split; [rewrite C; reflexivity|]. split; [apply (ext_els _ _ _ B) | apply (ext_uc _ _ _ B)].
    - destruct (step_ok E leq eqb PO s (QBound up l) HI Hv) as [A [B [C D]]].
      cbn [Poset.step PosetSpec.spec_step] in A, B, C, D.
      destruct (bound_q E leq up s l) as [s' r]. cbn [fst snd] in *. subst. auto.
    - destruct HI as [HS HT]. destruct Hv as [Hnd PO2].
      pose proof (init_sound E leq2 [] other oc Hnd) as HS2.
      destruct rev.
      + destruct (poset_eq2_ok leq2 leq PO2 (init E other oc) s HS2 HS) as [_ [_ [A [B C]]]].
        destruct (eq_loop2_id leq2 leq (seq 0 (size E (init E other oc))) (init E other oc) s) as [_ Hid].
        unfold poset_eq2 in *.
        destruct (set_eqE E eqb (els (init E other oc)) (els s)).
        * destruct (eq_loop2 E eqb leq2 leq _ (init E other oc) s) as [[so s'] b]. cbn [fst snd] in *.
          split; [split; [exact A|]|].
          -- intros Hc. rewrite (ext_uc _ _ _ B) in Hc. rewrite (Hid Hc). apply HT. exact Hc.
          -- split; [rewrite C; reflexivity|]. split; [apply (ext_els _ _ _ B) | apply (ext_uc _ _ _ B)].
        * cbn [fst snd] in *. split; [split; assumption|]. split; [rewrite C; reflexivity | auto].
      + destruct (poset_eq2_ok leq leq2 PO s (init E other oc) HS HS2) as [A [B [_ [_ C]]]].
        destruct (eq_loop2_id leq leq2 (seq 0 (size E s)) s (init E other oc)) as [Hid _].
        unfold poset_eq2 in *.
        destruct (set_eqE E eqb (els s) (els (init E other oc))).
        * destruct (eq_loop2 E eqb leq leq2 _ s (init E other oc)) as [[s' so] b]. cbn [fst snd] in *.
          split; [split; [exact A|]|].
          -- intros Hc. rewrite (ext_uc _ _ _ B) in Hc. rewrite (Hid Hc). apply HT. exact Hc.
          -- split; [rewrite C; reflexivity|]. split; [apply (ext_els _ _ _ B) | apply (ext_uc _ _ _ B)].
        * cbn [fst snd] in *. split; [split; assumption|]. split; [rewrite C; reflexivity | auto].
  Qed.

  (* ---------------------------------------------------------------- all histories *)
  Definition xvalidl (l : list E) (o : xop E) : Prop := xvalid (init E l true) o.

  Fixpoint xvalid_history (l : list E) (uc : bool) (ops : list (xop E)) : Prop :=
    match ops with
    | [] => True
    | o :: ops' => xvalidl l o /\ xvalid_history (fst (xspec_step l uc o)) uc ops'
    end.

  Lemma xvalid_els s s' o : els s' = els s -> xvalid s o -> xvalid s' o.
  Proof.
    intros H. destruct o; cbn [xvalid]; auto.
    - apply valid_op_els. exact H.
    - unfold size. rewrite H. auto.
  Qed.

  (* == is symmetric in what it computes: both directions equal the same symmetric meaning *)
  Lemma spec_eq2_sym la lb l1 l2 :
    NoDup l1 -> NoDup l2 -> spec_eq2 E eqb la lb l1 l2 = spec_eq2 E eqb lb la l2 l1.
  Proof.
    intros N1 N2. unfold spec_eq2, spec_eq.
    destruct (forallb (fun e => memE E eqb e l2) l1 && forallb (fun e => memE E eqb e l1) l2) eqn:Hs.
    - rewrite andb_comm in Hs. rewrite Hs. cbn [andb]. rewrite andb_comm in Hs.
      apply andb_true_iff in Hs. destruct Hs as [H12 H21]. rewrite forallb_forall in H12, H21.
      apply bool_eq_iff. rewrite !forallb_forall. split; intros H x Hx; apply forallb_forall; intros y Hy.
      + assert (Hx1 : In x l1) by (apply (memE_In E leq eqb PO); apply H21; exact Hx).
        assert (Hy1 : In y l1) by (apply (memE_In E leq eqb PO); apply H21; exact Hy).
        pose proof (H x Hx1) as Hrow. rewrite forallb_forall in Hrow. specialize (Hrow y Hy1).
        destruct (eqb y x); [reflexivity|]. cbn [orb] in *. apply eqb_prop in Hrow. rewrite Hrow. apply eqb_reflx.
      + assert (Hx2 : In x l2) by (apply (memE_In E leq eqb PO); apply H12; exact Hx).
        assert (Hy2 : In y l2) by (apply (memE_In E leq eqb PO); apply H12; exact Hy).
        pose proof (H x Hx2) as Hrow. rewrite forallb_forall in Hrow. specialize (Hrow y Hy2).
        destruct (eqb y x); [reflexivity|]. cbn [orb] in *. apply eqb_prop in Hrow. rewrite Hrow. apply eqb_reflx.
    - rewrite andb_comm in Hs. rewrite Hs. reflexivity.
  Qed.

  Theorem xrun_ok : forall ops s,
    Inv E leq s -> xvalid_history (els s) (use_cache s) ops ->
    Inv E leq (fst (xrun s ops)) /\
    snd (xrun s ops) = snd (xspec_run (els s) (use_cache s) ops) /\
    els (fst (xrun s ops)) = fst (xspec_run (els s) (use_cache s) ops) /\
    use_cache (fst (xrun s ops)) = use_cache s.
  Proof.
    induction ops as [|o ops IH]; intros s HI Hv; cbn [PosetExt.xrun PosetExt.xspec_run]; [auto|].
    destruct Hv as [Hv1 Hv2].
    assert (Hv1' : xvalid s o) by (apply (xvalid_els (init E (els s) true) s o eq_refl Hv1)).
    destruct (xstep_ok s o HI Hv1') as [A [B [C D]]].
    destruct (xstep s o) as [s1 r]. cbn [fst snd] in A, B, C, D.
    destruct (xspec_step (els s) (use_cache s) o) as [l1 r'] eqn:Hss. cbn [fst snd] in B, C, Hv2.
    subst r' l1.
    destruct (IH s1 A) as [P [Q [R T]]]; [rewrite D; exact Hv2|].
    destruct (xrun s1 ops) as [s2 rs]. cbn [fst snd] in P, Q, R, T.
    rewrite D in Q, R. destruct (xspec_run (els s1) (use_cache s) ops) as [l2 rs']. cbn [fst snd] in *.
    subst. split; [exact P|]. split; [reflexivity|]. split; [reflexivity | congruence].
  Qed.

  (* ---------------------------------------------------------------- the executable soundness
     test of raw cache dictionaries is the invariant's cache part *)
  Theorem raw_sound_of_Sound s :
    Sound s ->
    raw_sound E leq (els s) (c_leq s) (c_desc s) (c_anc s) (c_ch s) (c_par s) = true.
  Proof.
    intros [S1 S2 S3 S4 S5]. unfold raw_sound. rewrite !andb_true_iff. repeat split.
    - apply forallb_forall. intros [[a b] r] Hin. destruct (S2 a b r Hin) as [Ha [Hb [H _]]].
      rewrite app_nil_r in Ha, Hb. cbn [fst snd]. rewrite !andb_true_iff. repeat split.
      + apply Nat.ltb_lt. exact Ha.
      + apply Nat.ltb_lt. exact Hb.
      + rewrite (H Ha Hb). destruct (lq E leq (els s) a b); reflexivity.
    - apply forallb_forall. intros [i X] Hin. destruct (S3 false i X Hin) as [Hi [H _]].
      rewrite app_nil_r in Hi. cbn [fst snd]. rewrite andb_true_iff. split; [apply Nat.ltb_lt; exact Hi|].
      apply same_setb_spec. intros x. apply (H Hi).
    - apply forallb_forall. intros [i X] Hin. destruct (S3 true i X Hin) as [Hi [H _]].
      rewrite app_nil_r in Hi. cbn [fst snd]. rewrite andb_true_iff. split; [apply Nat.ltb_lt; exact Hi|].
      apply same_setb_spec. intros x. apply (H Hi).
    - apply forallb_forall. intros [i X] Hin. destruct (S4 false i X Hin) as [Hi [H _]].
      rewrite app_nil_r in Hi. cbn [fst snd]. rewrite andb_true_iff. split; [apply Nat.ltb_lt; exact Hi|].
      apply same_setb_spec. intros x. apply (H Hi).
    - apply forallb_forall. intros [i X] Hin. destruct (S4 true i X Hin) as [Hi [H _]].
      rewrite app_nil_r in Hi. cbn [fst snd]. rewrite andb_true_iff. split; [apply Nat.ltb_lt; exact Hi|].
      apply same_setb_spec. intros x. apply (H Hi).
  Qed.
End C09Ext.

(* Lemmas/C02_Check.v — the boolean check evaluated by Corr/C02.v on every case means what it
   should: it is true exactly when the returned (canonicalised) pairs are a duplicate-free
   listing of [concepts_spec] and every returned concept has agreeing, in-range,
   duplicate-free views. *)
From FCA Require Import Base.ListSet Model.BinTable Model.ConceptConstruction Spec.Galois Spec.Closure
     Corr.C02 Lemmas.C02.

Lemma pair_eqb_eq p q : pair_eqb p q = true <-> p = q.
Proof.
  destruct p as [a b], q as [c d]. unfold pair_eqb. simpl.
  rewrite andb_true_iff, !nat_list_eqb_eq. split; [intros [-> ->]; reflexivity | intros E; inversion E; auto].
Qed.

Lemma pair_mem_In p l : pair_mem p l = true <-> In p l.
Proof.
  unfold pair_mem. rewrite existsb_exists. split.
  - intros [q [Hq E]]. apply pair_eqb_eq in E. subst. exact Hq.
  - intros H. exists p. split; [exact H | apply pair_eqb_eq; reflexivity].
Qed.

Lemma pair_nodupb_NoDup l : pair_nodupb l = true <-> NoDup l.
Proof.
  induction l as [|x l IH]; simpl.
  - split; [constructor | reflexivity].
  - rewrite andb_true_iff, negb_true_iff, IH. split.
    + intros [H1 H2]. constructor; [|exact H2]. intros H. apply pair_mem_In in H. congruence.
    + intros H. inversion H; subst. split; [|assumption].
      destruct (pair_mem x l) eqn:E; [|reflexivity]. apply pair_mem_In in E. contradiction.
Qed.

Theorem exactly_all_concepts_spec c l :
  exactly_all_concepts c l = true <->
  forallb (views_ok c) l = true /\ lists_all_concepts (c_table c) (map (pair_of c) l).
Proof.
  unfold exactly_all_concepts. rewrite !andb_true_iff, <- check_all_concepts_spec.
  unfold check_all_concepts. rewrite !forallb_forall, pair_nodupb_NoDup.
  split.
  - intros [[[Hv Hc] Hnd] Hall]. split; [exact Hv|]. split; [|split; [exact Hnd|]].
    + intros p Hp. apply is_conceptb_spec. apply Hc. exact Hp.
    + intros S HS. apply pair_mem_In. apply Hall. exact HS.
  - intros [Hv [Hc [Hnd Hall]]]. repeat split; try assumption.
    + intros p Hp. apply is_conceptb_spec. apply Hc. exact Hp.
    + intros S HS. apply pair_mem_In. apply Hall. exact HS.
Qed.

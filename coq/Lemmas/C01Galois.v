(* Lemmas/C01Galois.v — the modelled derivation operators form a Galois connection
   (corollaries of C01 + Spec/Closure). *)
From FCA Require Import Base.ListSet Model.BinTable Model.FormalContext Spec.Galois Spec.Closure Lemmas.C01.

Lemma extension_i_is_ext b t B : wf t -> in_range (width t) B -> extension_i b t B None = ext t B.
Proof. intros Hwf HB. rewrite extension_i_correct by (try assumption; exact Logic.I). reflexivity. Qed.

Lemma intention_i_is_int b t A : wf t -> in_range (height t) A -> intention_i b t A None = int t A.
Proof. intros Hwf HA. rewrite intention_i_correct by (try assumption; exact Logic.I). reflexivity. Qed.

Theorem model_galois_extensive b t A :
  wf t -> in_range (height t) A -> incl A (extension_i b t (intention_i b t A None) None).
Proof.
  intros Hwf HA. rewrite intention_i_is_int by assumption.
  rewrite extension_i_is_ext by (try assumption; apply int_in_range).
  apply ext_int_extensive. exact HA.
Qed.

Theorem model_triple_prime b t B :
  wf t -> in_range (width t) B ->
  extension_i b t (intention_i b t (extension_i b t B None) None) None = extension_i b t B None.
Proof.
  intros Hwf HB. rewrite (extension_i_is_ext b t B) by assumption.
  rewrite intention_i_is_int by (try assumption; apply ext_in_range).
  rewrite extension_i_is_ext by (try assumption; apply int_in_range).
  apply ext_int_ext. exact HB.
Qed.

Theorem model_closure_is_concept b t A :
  wf t -> in_range (height t) A ->
  is_concept t (extension_i b t (intention_i b t A None) None) (intention_i b t A None).
Proof.
  intros Hwf HA. rewrite intention_i_is_int by assumption.
  rewrite extension_i_is_ext by (try assumption; apply int_in_range).
  apply closure_is_concept. exact HA.
Qed.

Theorem model_backend_free b1 b2 t B base :
  wf t -> in_range (width t) B -> opt_in_range (height t) base ->
  extension_i b1 t B base = extension_i b2 t B base.
Proof. intros. rewrite !extension_i_correct by assumption. reflexivity. Qed.

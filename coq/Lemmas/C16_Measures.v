(* Lemmas/C16_Measures.v — calc_concepts_measures stores one value per concept and
   ConceptLattice.measures returns equally long arrays (no AssertionError). *)
From FCA Require Import Base.C16_Dyadic Model.C16_Stability.
From Coq Require Import Lia.
Local Open Scope nat_scope.

Section Dict.
Context {V : Type}.

Definition keys {W} (d : mdict W) : list nat := map fst d.
Definition add_key (ks : list nat) (k : nat) : list nat := if mem k ks then ks else ks ++ [k].
Definition keys_after (ks kl : list nat) : list nat := fold_left add_key kl ks.

Lemma keys_dict_set (d : mdict V) k v : keys (dict_set d k v) = add_key (keys d) k.
Proof.
  unfold add_key, keys. induction d as [|[k' v'] d IH]; cbn [dict_set map fst mem existsb]; [reflexivity|].
  fold (mem k (map fst d)). destruct (Nat.eqb k k') eqn:E; cbn [orb].
  - apply Nat.eqb_eq in E. subst. reflexivity.
  - cbn [map fst]. rewrite IH. destruct (mem k (map fst d)); reflexivity.
Qed.

Lemma keys_dict_set_all (d : mdict V) kvs : keys (dict_set_all d kvs) = keys_after (keys d) (map fst kvs).
Proof.
  unfold dict_set_all, keys_after. revert d. induction kvs as [|[k v] kvs IH]; intros d; cbn [fold_left map fst snd]; [reflexivity|].
  rewrite IH, keys_dict_set. reflexivity.
Qed.

Lemma calc_from_keys (f : nat -> list (nat * V)) kl ks st i :
  (forall j, map fst (f j) = kl) -> (forall d, In d st -> keys d = ks) ->
  forall d, In d (calc_from i f st) -> keys d = keys_after ks kl.
Proof.
  intros Hf. revert i. induction st as [|d0 st IH]; intros i Hst d Hd; cbn [calc_from] in Hd; [destruct Hd|].
  destruct Hd as [Hd|Hd].
  - subst d. rewrite keys_dict_set_all, Hf, (Hst d0 (or_introl eq_refl)). reflexivity.
  - apply (IH (S i)); [|exact Hd]. intros d' Hd'. apply Hst. right. exact Hd'.
Qed.

Lemma calc_from_length (f : nat -> list (nat * V)) st i : length (calc_from i f st) = length st.
Proof. revert i. induction st as [|d st IH]; intros i; cbn [calc_from length]; [reflexivity|]. rewrite IH. reflexivity. Qed.

Lemma add_key_NoDup ks k : NoDup ks -> NoDup (add_key ks k).
Proof.
  intros H. unfold add_key. destruct (mem k ks) eqn:E; [exact H|].
  apply mem_false_iff in E.
  clear -H E. induction ks as [|x ks IH]; cbn [app]; [constructor; [intros []|constructor]|].
  inversion H; subst. constructor.
  - rewrite in_app_iff. intros [X|[X|[]]]; [tauto|]. subst. apply E. left. reflexivity.
  - apply IH; [assumption|]. intros X. apply E. right. exact X.
Qed.

Lemma keys_after_NoDup ks kl : NoDup ks -> NoDup (keys_after ks kl).
Proof.
  unfold keys_after. revert ks. induction kl as [|k kl IH]; intros ks H; cbn [fold_left]; [exact H|].
  apply IH. apply add_key_NoDup. exact H.
Qed.

Lemma add_key_In ks k x : In x (add_key ks k) <-> In x ks \/ x = k.
Proof.
  unfold add_key. destruct (mem k ks) eqn:E.
  - apply mem_In in E. split; [tauto|]. intros [H|H]; [exact H | subst; exact E].
  - rewrite in_app_iff. cbn [In]. intuition.
Qed.

Lemma keys_after_In ks kl x : In x (keys_after ks kl) <-> In x ks \/ In x kl.
Proof.
  unfold keys_after. revert ks. induction kl as [|k kl IH]; intros ks; cbn [fold_left In]; [tauto|].
  rewrite IH, add_key_In. intuition.
Qed.

(* ---- ConceptLattice.measures, seen through "length of the array stored under key k" *)
Definition lenf (md : mdict (list (option V))) (k : nat) : option nat :=
  match find (fun kv => Nat.eqb k (fst kv)) md with Some kv => Some (length (snd kv)) | None => None end.

Definition bump (i : nat) (o : option nat) : option nat :=
  match o with Some n => Some (S n) | None => Some (S i) end.

Lemma lenf_md_append md i k v k' :
  lenf (md_append md i k v) k' = if Nat.eqb k' k then bump i (lenf md k) else lenf md k'.
Proof.
  unfold lenf. induction md as [|[k0 vs] md IH]; simpl.
  - destruct (Nat.eqb k' k) eqn:E; simpl; [|reflexivity]. rewrite app_length, repeat_length. simpl. f_equal. lia.
  - destruct (Nat.eqb k k0) eqn:E0; simpl.
    + apply Nat.eqb_eq in E0. subst k0. destruct (Nat.eqb k' k) eqn:E; simpl.
      * rewrite app_length. simpl. f_equal. lia.
      * reflexivity.
    + destruct (Nat.eqb k' k0) eqn:E1; simpl.
      * destruct (Nat.eqb k' k) eqn:E; [|reflexivity].
        apply Nat.eqb_eq in E. apply Nat.eqb_eq in E1. subst. rewrite Nat.eqb_refl in E0. discriminate.
      * rewrite IH. destruct (Nat.eqb k' k); reflexivity.
Qed.

Lemma keys_md_append (md : mdict (list (option V))) i k (v : V) : keys (md_append md i k v) = add_key (keys md) k.
Proof.
  unfold add_key, keys. induction md as [|[k' vs] md IH]; cbn [md_append map fst mem existsb]; [reflexivity|].
  fold (mem k (map fst md)). destruct (Nat.eqb k k') eqn:E; cbn [orb map fst].
  - reflexivity.
  - rewrite IH. destruct (mem k (map fst md)); reflexivity.
Qed.

(* one concept's dict folded into the arrays *)
Lemma fold_dict_lenf (d : mdict V) i : forall md k',
  NoDup (keys d) ->
  lenf (fold_left (fun md kv => md_append md i (fst kv) (snd kv)) d md) k'
  = if mem k' (keys d) then bump i (lenf md k') else lenf md k'.
Proof.
  induction d as [|[k v] d IH]; intros md k' Hnd; [reflexivity|].
  change (keys ((k, v) :: d)) with (k :: keys d) in *. cbn [fold_left fst snd mem existsb].
  fold (mem k' (keys d)). inversion Hnd as [|? ? Hk Hd]; subst.
  rewrite IH by exact Hd. rewrite lenf_md_append.
  destruct (Nat.eqb k' k) eqn:E; cbn [orb].
  - apply Nat.eqb_eq in E. subst k'.
    assert (X : mem k (keys d) = false) by (apply mem_false_iff; exact Hk). rewrite X. reflexivity.
  - destruct (mem k' (keys d)); reflexivity.
Qed.

Lemma fold_dict_keys (d : mdict V) i : forall md,
  keys (fold_left (fun md kv => md_append md i (fst kv) (snd kv)) d md) = keys_after (keys md) (keys d).
Proof.
  unfold keys_after. induction d as [|[k v] d IH]; intros md; [reflexivity|].
  change (keys ((k, v) :: d)) with (k :: keys d). cbn [fold_left fst snd].
  rewrite IH, keys_md_append. reflexivity.
Qed.

Definition arr_inv (ks : list nat) (i : nat) (md : mdict (list (option V))) : Prop :=
  forall k, lenf md k = if mem k ks then (match i with 0 => None | _ => Some i end) else None.

Lemma measures_from_inv ks : NoDup ks -> forall (st : list (mdict V)) i md,
  (forall d, In d st -> keys d = ks) -> arr_inv ks i md ->
  arr_inv ks (i + length st) (measures_from i st md).
Proof.
  intros Hks. induction st as [|d st IH]; intros i md Hst Hinv; cbn [measures_from length].
  - rewrite Nat.add_0_r. exact Hinv.
  - replace (i + S (length st)) with (S i + length st) by lia. apply IH.
    + intros d' Hd'. apply Hst. right. exact Hd'.
    + intros k. rewrite fold_dict_lenf by (rewrite (Hst d (or_introl eq_refl)); exact Hks).
      rewrite (Hst d (or_introl eq_refl)). rewrite (Hinv k).
      destruct (mem k ks); [|reflexivity]. destruct i; reflexivity.
Qed.

Lemma measures_from_keys ks : forall (st : list (mdict V)) i md,
  (forall d, In d st -> keys d = ks) -> incl (keys md) ks ->
  NoDup (keys md) -> NoDup (keys (measures_from i st md)) /\ incl (keys (measures_from i st md)) ks.
Proof.
  induction st as [|d st IH]; intros i md Hst Hinc Hnd; cbn [measures_from]; [tauto|].
  apply IH.
  - intros d' Hd'. apply Hst. right. exact Hd'.
  - rewrite fold_dict_keys. intros x Hx. apply keys_after_In in Hx. destruct Hx as [Hx|Hx]; [apply Hinc; exact Hx|].
    rewrite (Hst d (or_introl eq_refl)) in Hx. exact Hx.
  - rewrite fold_dict_keys. apply keys_after_NoDup. exact Hnd.
Qed.

Lemma lenf_of_entry md kv : NoDup (keys md) -> In kv md -> lenf md (fst kv) = Some (length (snd kv)).
Proof.
  unfold lenf, keys. induction md as [|kv0 md IH]; intros Hnd Hin; [destruct Hin|].
  cbn [find]. cbn [map] in Hnd. inversion Hnd as [|? ? Hk Hd]; subst. destruct Hin as [Hin|Hin].
  - subst. rewrite Nat.eqb_refl. reflexivity.
  - destruct (Nat.eqb (fst kv) (fst kv0)) eqn:E.
    + apply Nat.eqb_eq in E. exfalso. apply Hk. rewrite <- E. apply in_map. exact Hin.
    + apply IH; assumption.
Qed.

(* if every concept holds the same keys, `measures` succeeds and every array has one entry per concept *)
Theorem measures_shape (st : list (mdict V)) ks :
  NoDup ks -> (forall d, In d st -> keys d = ks) ->
  exists md, measures_m st = Some md /\
             (forall kv, In kv md -> length (snd kv) = length st) /\
             (forall k, In k (keys md) -> In k ks) /\
             (st <> [] -> forall k, In k ks -> In k (keys md)).
Proof.
  intros Hks Hst.
  set (md := measures_from 0 st []).
  assert (Hinv : arr_inv ks (length st) md).
  { apply (measures_from_inv ks Hks st 0 [] Hst). intros k. unfold lenf. cbn. destruct (mem k ks); reflexivity. }
  destruct (measures_from_keys ks st 0 [] Hst) as [Hnd Hinc]; [intros x [] | constructor |]. fold md in Hnd, Hinc.
  assert (Hlen : forall kv, In kv md -> length (snd kv) = length st).
  { intros kv Hkv. pose proof (lenf_of_entry md kv Hnd Hkv) as E. rewrite (Hinv (fst kv)) in E.
    assert (X : mem (fst kv) ks = true).
    { apply mem_In. apply Hinc. unfold keys. apply in_map. exact Hkv. }
    rewrite X in E. destruct (length st); [discriminate|]. inversion E. reflexivity. }
  exists md. split; [|split; [exact Hlen | split; [exact Hinc|]]].
  - unfold measures_m. fold md.
    assert (X : all_same_length md = true).
    { unfold all_same_length. destruct md as [|[k0 vs] md'] eqn:Emd; [reflexivity|].
      apply forallb_forall. intros kv Hkv. apply Nat.eqb_eq.
      rewrite (Hlen kv (or_intror Hkv)). symmetry. apply (Hlen (k0, vs)). left. reflexivity. }
    rewrite X. reflexivity.
  - intros Hne k Hk. destruct st as [|d st']; [congruence|]. cbn [length] in Hinv.
    pose proof (Hinv k) as E. apply mem_In in Hk. rewrite Hk in E.
    unfold lenf in E. destruct (find (fun kv => Nat.eqb k (fst kv)) md) as [kv|] eqn:F; [|discriminate].
    apply find_some in F. destruct F as [F1 F2]. apply Nat.eqb_eq in F2. subst k.
    unfold keys. apply in_map. exact F1.
Qed.

End Dict.

(* every call of calc_concepts_measures for a stability measure writes the same keys into every
   concept; so after any sequence of calls every concept holds every key written so far *)
Definition op_keys (op : nat) : list nat :=
  match op with 0 => [1; 2] | 1 => [3] | _ => [4] end.

Lemma measure_op_keys b t L ch op i : map fst (measure_op b t L ch op i) = op_keys op.
Proof. unfold measure_op, op_keys. destruct op as [|[|op]]; reflexivity. Qed.

Definition keys_of_ops (ops : list nat) : list nat :=
  fold_left (fun ks op => keys_after ks (op_keys op)) ops [].

Lemma run_measures_keys b t L ch ops :
  let st := run_measures b t L ch ops in
  length st = length L /\ forall d, In d st -> keys d = keys_of_ops ops.
Proof.
  unfold run_measures, keys_of_ops.
  assert (G : forall ops st ks, length st = length L -> (forall d, In d st -> keys d = ks) ->
              let st' := fold_left (fun st op => calc (measure_op b t L ch op) st) ops st in
              length st' = length L /\
              forall d, In d st' -> keys d = fold_left (fun ks op => keys_after ks (op_keys op)) ops ks).
  { clear ops. induction ops as [|op ops IH]; intros st ks Hl Hk; cbn [fold_left]; [tauto|].
    apply IH.
    - unfold calc. rewrite calc_from_length. exact Hl.
    - intros d Hd. unfold calc in Hd.
      apply (calc_from_keys (measure_op b t L ch op) (op_keys op) ks st 0); try assumption.
      intros j. apply measure_op_keys. }
  apply G.
  - apply repeat_length.
  - intros d Hd. apply repeat_spec in Hd. subst. reflexivity.
Qed.

Lemma keys_of_ops_NoDup ops : NoDup (keys_of_ops ops).
Proof.
  unfold keys_of_ops. assert (G : forall ks, NoDup ks -> NoDup (fold_left (fun ks op => keys_after ks (op_keys op)) ops ks)).
  { induction ops as [|op ops IH]; intros ks H; cbn [fold_left]; [exact H|]. apply IH. apply keys_after_NoDup. exact H. }
  apply G. constructor.
Qed.

Lemma keys_of_ops_In ops k : In k (keys_of_ops ops) <-> exists op, In op ops /\ In k (op_keys op).
Proof.
  unfold keys_of_ops.
  assert (G : forall ks, In k (fold_left (fun ks op => keys_after ks (op_keys op)) ops ks)
                         <-> In k ks \/ exists op, In op ops /\ In k (op_keys op)).
  { induction ops as [|op ops IH]; intros ks; cbn [fold_left].
    - split; [tauto|]. intros [H|[op [[] _]]]. exact H.
    - rewrite IH, keys_after_In. split.
      + intros [[H|H]|[op' [H1 H2]]]; [tauto | right; exists op; split; [left; reflexivity | exact H] |
                                         right; exists op'; split; [right; exact H1 | exact H2]].
      + intros [H|[op' [[H1|H1] H2]]]; [tauto | subst; tauto | right; exists op'; tauto]. }
  rewrite G. cbn [In]. tauto.
Qed.

Theorem measures_shape_run b t L ch ops :
  let st := run_measures b t L ch ops in
  (* every concept holds every computed key *)
  (forall d k op, In d st -> In op ops -> In k (op_keys op) -> In k (keys d)) /\
  (* and `measures` returns arrays with one entry per concept *)
  exists md, measures_m st = Some md /\
             (forall kv, In kv md -> length (snd kv) = length L) /\
             (L <> [] -> forall k op, In op ops -> In k (op_keys op) -> In k (keys md)).
Proof.
  intros st. destruct (run_measures_keys b t L ch ops) as [Hl Hk]. fold st in Hl, Hk. split.
  - intros d k op Hd Hop Hkk. rewrite (Hk d Hd). apply keys_of_ops_In. exists op. tauto.
  - destruct (measures_shape st (keys_of_ops ops) (keys_of_ops_NoDup ops) Hk) as [md [E [H1 [H2 H3]]]].
    exists md. split; [exact E|]. split.
    + intros kv Hkv. rewrite (H1 kv Hkv). exact Hl.
    + intros HL k op Hop Hkk. apply H3.
      * intros X. apply HL. destruct L; [reflexivity|]. rewrite X in Hl. discriminate.
      * apply keys_of_ops_In. exists op. tauto.
Qed.

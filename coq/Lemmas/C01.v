(* Lemmas/C01.v — every back-end's all_i / any_i is the filter by the incidence;
   FormalContext derivation operators equal the prime-set specs. *)
From FCA Require Import Base.ListSet Model.BinTable Model.FormalContext Spec.Galois Lemmas.BitRow.

Section Backends.
Variable t : table.
Hypothesis Hwf : wf t.

Definition P_all_row (c : list nat) (g : nat) := forallb (fun m => cell t g m) c.
Definition P_all_col (r : list nat) (m : nat) := forallb (fun g => cell t g m) r.
Definition P_any_row (c : list nat) (g : nat) := existsb (fun m => cell t g m) c.
Definition P_any_col (r : list nat) (m : nat) := existsb (fun g => cell t g m) r.

(* ---------------- flags, per back-end *)

Lemma L_all_per_row_flags rows c :
  L_all_per_row t rows (Some c) = map (P_all_row c) (rows_or t rows).
Proof. unfold L_all_per_row. apply map_ext. intros i. rewrite forallb_map. reflexivity. Qed.

Lemma L_any_per_row_flags rows c :
  L_any_per_row t rows (Some c) = map (P_any_row c) (rows_or t rows).
Proof. unfold L_any_per_row. apply map_ext. intros i. rewrite existsb_map. reflexivity. Qed.

Lemma L_all_per_column_flags r cols :
  L_all_per_column t (Some r) cols = map (P_all_col r) (cols_or t cols).
Proof.
  unfold L_all_per_column. rewrite L_apc_loop_spec by apply repeat_length.
  simpl rows_or.
  rewrite <- (map_length (fun j => forallb (fun i => cell t i j) r) (cols_or t cols)).
  apply map2_andb_repeat_true.
Qed.

Lemma L_any_per_column_flags r cols :
  L_any_per_column t (Some r) cols = map (P_any_col r) (cols_or t cols).
Proof.
  unfold L_any_per_column. rewrite L_anypc_loop_spec by apply repeat_length.
  simpl rows_or.
  rewrite <- (map_length (fun j => existsb (fun i => cell t i j) r) (cols_or t cols)).
  apply map2_orb_repeat_false.
Qed.

Lemma B_all_per_row_flags rows c :
  opt_in_range (height t) rows -> in_range (width t) c ->
  B_all_per_row t rows (Some c) = map (P_all_row c) (rows_or t rows).
Proof.
  intros Hr Hc. unfold B_all_per_row. apply map_ext_in. intros i Hi.
  apply ball_bor_mask; [|exact Hc]. apply wf_row_length; [exact Hwf|].
  apply (rows_or_in_range t rows Hr). exact Hi.
Qed.

Lemma B_any_per_row_flags rows c :
  opt_in_range (height t) rows -> in_range (width t) c ->
  B_any_per_row t rows (Some c) = map (P_any_row c) (rows_or t rows).
Proof.
  intros Hr Hc. unfold B_any_per_row. apply map_ext_in. intros i Hi.
  apply bany_band_mask; [|exact Hc]. apply wf_row_length; [exact Hwf|].
  apply (rows_or_in_range t rows Hr). exact Hi.
Qed.

Lemma B_all_per_column_flags r cols :
  in_range (height t) r -> opt_in_range (width t) cols ->
  B_all_per_column t (Some r) cols = map (P_all_col r) (cols_or t cols).
Proof.
  intros Hr Hc. unfold B_all_per_column. simpl rows_or.
  assert (Hrow : forall i, In i r -> length (row t i) = width t).
  { intros i Hi. apply wf_row_length; [exact Hwf | apply Hr; exact Hi]. }
  destruct cols as [c|]; simpl cols_or.
  - apply map_ext_in. intros j Hj.
    rewrite (B_apc_loop_nth t _ (fun j => In j c) r _ (width t)); try assumption.
    + rewrite nth_repeat_lt by (apply Hc; exact Hj). reflexivity.
    + intros v k Hv Hb Hk.
      pose proof (existsb_false_nth _ k Hb) as N.
      unfold band in N. rewrite (nth_map2 andb _ _ _ false false) in N
        by (rewrite ?mask_in_length, ?Hv; apply Hc; exact Hk).
      rewrite nth_mask_in in N by (apply Hc; exact Hk).
      apply mem_In in Hk. rewrite Hk, andb_true_r in N. exact N.
    + apply repeat_length.
    + apply Hc. exact Hj.
  - apply (nth_ext _ _ false false).
    + rewrite (B_apc_loop_length t _ r _ (width t)); [| apply repeat_length | exact Hrow].
      rewrite map_length, seq_length. reflexivity.
    + intros j Hj.
      rewrite (B_apc_loop_length t _ r _ (width t)) in Hj; [| apply repeat_length | exact Hrow].
      rewrite (B_apc_loop_nth t _ (fun _ => True) r _ (width t)); try assumption; try exact Logic.I.
      * rewrite nth_repeat_lt by exact Hj. rewrite nth_map_seq by exact Hj. reflexivity.
      * intros v k _ Hb _. apply existsb_false_nth. exact Hb.
      * apply repeat_length.
Qed.

Lemma forallb_true_nth (l : list bool) k : forallb id l = true -> k < length l -> nth k l false = true.
Proof. intros H Hk. apply (proj1 (forallb_nth id l false) H k Hk). Qed.

Lemma B_any_per_column_flags r cols :
  in_range (height t) r -> opt_in_range (width t) cols ->
  B_any_per_column t (Some r) cols = map (P_any_col r) (cols_or t cols).
Proof.
  intros Hr Hc. unfold B_any_per_column. simpl rows_or.
  assert (Hrow : forall i, In i r -> length (row t i) = width t).
  { intros i Hi. apply wf_row_length; [exact Hwf | apply Hr; exact Hi]. }
  destruct cols as [c|]; simpl cols_or.
  - apply map_ext_in. intros j Hj.
    rewrite (B_anypc_loop_nth t _ (fun j => In j c) r _ (width t)); try assumption.
    + rewrite nth_repeat_lt by (apply Hc; exact Hj). reflexivity.
    + intros v k Hv Hb Hk.
      assert (Hkw : k < width t) by (apply Hc; exact Hk).
      pose proof (forallb_true_nth _ k Hb) as N.
      unfold bor in N. rewrite map2_length, mask_not_in_length, Hv, Nat.min_id in N.
      specialize (N Hkw).
      rewrite (nth_map2 orb _ _ _ false false) in N by (rewrite ?mask_not_in_length, ?Hv; exact Hkw).
      rewrite nth_mask_not_in in N by exact Hkw.
      apply mem_In in Hk. rewrite Hk in N. simpl in N. rewrite orb_false_r in N. exact N.
    + apply repeat_length.
    + apply Hc. exact Hj.
  - apply (nth_ext _ _ false false).
    + rewrite (B_anypc_loop_length t _ r _ (width t)); [| apply repeat_length | exact Hrow].
      rewrite map_length, seq_length. reflexivity.
    + intros j Hj.
      rewrite (B_anypc_loop_length t _ r _ (width t)) in Hj; [| apply repeat_length | exact Hrow].
      rewrite (B_anypc_loop_nth t _ (fun j => j < width t) r _ (width t)); try assumption.
      * rewrite nth_repeat_lt by exact Hj. rewrite nth_map_seq by exact Hj. reflexivity.
      * intros v k Hv Hb Hk. apply forallb_true_nth; [exact Hb | rewrite Hv; exact Hk].
      * apply repeat_length.
Qed.

(* numpy *)
Lemma N_slice_rows rows :
  match rows with None => t | Some r => map (row t) r end = map (row t) (rows_or t rows).
Proof. destruct rows; simpl; [reflexivity | symmetry; apply map_row_seq]. Qed.

Lemma N_all_row_flags rows c :
  N_all t 1 rows (Some c) = map (P_all_row c) (rows_or t rows).
Proof.
  unfold N_all, N_reduce, N_slice. rewrite N_slice_rows, !map_map. apply map_ext. intros i.
  rewrite forallb_map. reflexivity.
Qed.

Lemma N_any_row_flags rows c :
  N_any t 1 rows (Some c) = map (P_any_row c) (rows_or t rows).
Proof.
  unfold N_any, N_reduce, N_slice. rewrite N_slice_rows, !map_map. apply map_ext. intros i.
  rewrite existsb_map. reflexivity.
Qed.

Lemma N_all_col_flags r cols :
  N_all t 0 (Some r) cols = map (P_all_col r) (cols_or t cols).
Proof.
  unfold N_all, N_reduce, N_slice, N_ncols. destruct cols as [c|]; simpl cols_or.
  - rewrite <- (map_over_nth_seq (P_all_col r) c 0).
    apply map_ext_in. intros k Hk. apply in_seq in Hk.
    rewrite !map_map, forallb_map. unfold P_all_col. apply forallb_ext_in. intros i _.
    unfold id, cell. apply (nth_map_in (fun j => nth j (row t i) false) c k false 0). lia.
  - apply map_ext. intros k. rewrite map_map, forallb_map. reflexivity.
Qed.

Lemma N_any_col_flags r cols :
  N_any t 0 (Some r) cols = map (P_any_col r) (cols_or t cols).
Proof.
  unfold N_any, N_reduce, N_slice, N_ncols. destruct cols as [c|]; simpl cols_or.
  - rewrite <- (map_over_nth_seq (P_any_col r) c 0).
    apply map_ext_in. intros k Hk. apply in_seq in Hk.
    rewrite !map_map, existsb_map. unfold P_any_col. apply existsb_ext_in. intros i _.
    unfold id, cell. apply (nth_map_in (fun j => nth j (row t i) false) c k false 0). lia.
  - apply map_ext. intros k. rewrite map_map, existsb_map. reflexivity.
Qed.

(* ---------------- index translation, per back-end *)

Lemma abs_index_rows rows cols (P : nat -> bool) :
  abs_index t 1 rows cols (map P (rows_or t rows)) = filter P (rows_or t rows).
Proof.
  unfold abs_index. destruct rows as [r|]; simpl rows_or.
  - apply select_map_filter.
  - rewrite map_length, seq_length. apply select_map_filter.
Qed.

Lemma abs_index_cols rows cols (P : nat -> bool) :
  abs_index t 0 rows cols (map P (cols_or t cols)) = filter P (cols_or t cols).
Proof.
  unfold abs_index. destruct cols as [r|]; simpl cols_or.
  - apply select_map_filter.
  - rewrite map_length, seq_length. apply select_map_filter.
Qed.

Lemma bit_index_rows rows cols (P : nat -> bool) :
  bit_index 1 rows cols (map P (rows_or t rows)) = filter P (rows_or t rows).
Proof.
  unfold bit_index. destruct rows as [r|]; simpl rows_or.
  - rewrite map_nth_search1 by (rewrite map_length; reflexivity). apply select_map_filter.
  - rewrite search1_select, map_length, seq_length. apply select_map_filter.
Qed.

Lemma bit_index_cols rows cols (P : nat -> bool) :
  bit_index 0 rows cols (map P (cols_or t cols)) = filter P (cols_or t cols).
Proof.
  unfold bit_index. destruct cols as [r|]; simpl cols_or.
  - rewrite map_nth_search1 by (rewrite map_length; reflexivity). apply select_map_filter.
  - rewrite search1_select, map_length, seq_length. apply select_map_filter.
Qed.

Lemma N_index_rows rows cols (P : nat -> bool) :
  N_index t 1 rows cols (map P (rows_or t rows)) = filter P (rows_or t rows).
Proof. unfold N_index. apply select_map_filter. Qed.

Lemma N_index_cols rows cols (P : nat -> bool) :
  N_index t 0 rows cols (map P (cols_or t cols)) = filter P (cols_or t cols).
Proof. unfold N_index. apply select_map_filter. Qed.

(* ---------------- the four all_i / any_i facts, for every back-end *)

Theorem all_i_rows b rows c :
  opt_in_range (height t) rows -> in_range (width t) c ->
  all_i b t 1 rows (Some c) = filter (P_all_row c) (rows_or t rows).
Proof.
  intros Hr Hc. destruct b; cbn [all_i any_i].
  - unfold L_all_i. rewrite L_all_per_row_flags. apply abs_index_rows.
  - unfold N_all_i. rewrite N_all_row_flags. apply N_index_rows.
  - unfold B_all_i. rewrite B_all_per_row_flags by assumption. apply bit_index_rows.
Qed.

Theorem any_i_rows b rows c :
  opt_in_range (height t) rows -> in_range (width t) c ->
  any_i b t 1 rows (Some c) = filter (P_any_row c) (rows_or t rows).
Proof.
  intros Hr Hc. destruct b; cbn [all_i any_i].
  - unfold L_any_i. rewrite L_any_per_row_flags. apply abs_index_rows.
  - unfold N_any_i. rewrite N_any_row_flags. apply N_index_rows.
  - unfold B_any_i. rewrite B_any_per_row_flags by assumption. apply bit_index_rows.
Qed.

Theorem all_i_cols b r cols :
  in_range (height t) r -> opt_in_range (width t) cols ->
  all_i b t 0 (Some r) cols = filter (P_all_col r) (cols_or t cols).
Proof.
  intros Hr Hc. destruct b; cbn [all_i any_i].
  - unfold L_all_i. rewrite L_all_per_column_flags. apply abs_index_cols.
  - unfold N_all_i. rewrite N_all_col_flags. apply N_index_cols.
  - unfold B_all_i. rewrite B_all_per_column_flags by assumption. apply bit_index_cols.
Qed.

Theorem any_i_cols b r cols :
  in_range (height t) r -> opt_in_range (width t) cols ->
  any_i b t 0 (Some r) cols = filter (P_any_col r) (cols_or t cols).
Proof.
  intros Hr Hc. destruct b; cbn [all_i any_i].
  - unfold L_any_i. rewrite L_any_per_column_flags. apply abs_index_cols.
  - unfold N_any_i. rewrite N_any_col_flags. apply N_index_cols.
  - unfold B_any_i. rewrite B_any_per_column_flags by assumption. apply bit_index_cols.
Qed.

End Backends.

(* ------------------------------------------------------------------ FormalContext level *)

Lemma filter_true_id {A} (l : list A) : filter (fun _ => true) l = l.
Proof. induction l; simpl; congruence. Qed.

Theorem extension_i_correct b t B base :
  wf t -> in_range (width t) B -> opt_in_range (height t) base ->
  extension_i b t B base = ext_spec t B (default (all_objs t) base).
Proof.
  intros Hwf HB Hbase. unfold extension_i, ext_spec.
  destruct B as [|m B'].
  - simpl. rewrite filter_true_id. reflexivity.
  - rewrite all_i_rows by assumption. reflexivity.
Qed.

Theorem intention_i_correct b t A base :
  wf t -> in_range (height t) A -> opt_in_range (width t) base ->
  intention_i b t A base = int_spec t A (default (all_attrs t) base).
Proof.
  intros Hwf HA Hbase. unfold intention_i, int_spec.
  destruct A as [|g A'].
  - simpl. rewrite filter_true_id. reflexivity.
  - rewrite all_i_cols by assumption. reflexivity.
Qed.

(* The monotone extension: the code short-cuts on |B| = number of attributes (pinned by the
   suite to "all objects"); the property excludes the full attribute set, so the theorem is
   stated for |B| <> width. *)
Theorem extension_mono_correct b t B base :
  wf t -> in_range (width t) B -> opt_in_range (height t) base ->
  length B <> width t ->
  extension_monotone_i b t B base = ext_mono_spec t B (default (all_objs t) base).
Proof.
  intros Hwf HB Hbase Hlen. unfold extension_monotone_i, ext_mono_spec.
  destruct (Nat.eqb_spec (length B) (width t)) as [E|_]; [contradiction|].
  rewrite any_i_rows by assumption. reflexivity.
Qed.

Lemma NoDup_incl_seq_length n l :
  NoDup l -> in_range n l -> length l = n -> forall x, x < n -> In x l.
Proof.
  intros Hnd Hr Hl x Hx.
  assert (Hincl : incl (seq 0 n) l).
  { apply NoDup_length_incl; [exact Hnd | rewrite seq_length; lia |].
    intros y Hy. apply in_seq. specialize (Hr y Hy). lia. }
  apply Hincl. apply in_seq. lia.
Qed.

(* Listings: a listing with repeats denotes the set of its elements.  The code's length
   shortcut is sound for duplicate-free listings; a listing with repeats is answered by the
   complement scan, which only looks at membership, PROVIDED its length is not the number of
   objects (then the shortcut fires although the set is not full - outside the property). *)
Theorem intention_mono_correct_listing b t A base :
  wf t -> in_range (height t) A -> (NoDup A \/ length A <> height t) -> opt_in_range (width t) base ->
  intention_monotone_i b t A base = int_mono_spec t A (default (all_attrs t) base).
Proof.
  intros Hwf HA Hnd' Hbase. unfold intention_monotone_i, int_mono_spec, diff.
  destruct (Nat.eqb_spec (length A) (height t)) as [E|NE].
  - (* every object is in A: the complement is empty *)
    assert (Hnd : NoDup A) by (destruct Hnd' as [H|H]; [exact H | contradiction]).
    assert (Hemp : filter (fun x => negb (mem x A)) (seq 0 (height t)) = []).
    { rewrite filter_ext_in' with (q := fun _ => false).
      - clear. induction (seq 0 (height t)); simpl; auto.
      - intros x Hx. apply in_seq in Hx. apply negb_false_iff. apply mem_In.
        apply (NoDup_incl_seq_length (height t)); auto; lia. }
    rewrite Hemp. simpl. rewrite filter_true_id. reflexivity.
  - rewrite any_i_cols; try assumption.
    + unfold all_attrs, cols_or.
      apply filter_ext_in'. intros m Hm.
      apply bool_eq_iff. rewrite negb_true_iff, mem_false_iff, filter_In, forallb_forall.
      unfold P_any_col. split.
      * intros H g Hg. apply negb_true_iff. destruct (I t g m) eqn:EI; [|reflexivity].
        exfalso. apply H. split; [exact Hm|]. apply existsb_exists. exists g. auto.
      * intros H [_ Hex]. apply existsb_exists in Hex. destruct Hex as [g [Hg Hc]].
        specialize (H g Hg). unfold I in H. rewrite Hc in H. discriminate.
    + intros g Hg. apply filter_In in Hg. destruct Hg as [Hg _]. apply in_seq in Hg. lia.
Qed.

Theorem intention_mono_correct b t A base :
  wf t -> in_range (height t) A -> NoDup A -> opt_in_range (width t) base ->
  intention_monotone_i b t A base = int_mono_spec t A (default (all_attrs t) base).
Proof. intros Hwf HA Hnd Hbase. apply intention_mono_correct_listing; auto. Qed.

(* ------------------------------------------------------------------ by-name wrappers *)

Lemma index_last_notin k names x acc : ~ In x names -> index_last_from k names x acc = acc.
Proof.
  revert k acc. induction names as [|y ys IH]; intros k acc H; simpl; [reflexivity|].
  destruct (Nat.eqb_spec x y) as [E|NE].
  - exfalso. apply H. left. symmetry. exact E.
  - apply IH. intros Hin. apply H. right. exact Hin.
Qed.

Lemma index_last_nodup k names i acc d :
  NoDup names -> i < length names ->
  index_last_from k names (nth i names d) acc = Some (k + i).
Proof.
  revert k i acc. induction names as [|y ys IH]; intros k i acc Hnd Hi; simpl in *; [lia|].
  inversion Hnd as [|? ? Hy Hys]; subst.
  destruct i as [|i].
  - rewrite Nat.eqb_refl. rewrite index_last_notin by exact Hy. f_equal. lia.
  - destruct (Nat.eqb_spec (nth i ys d) y) as [E|NE].
    + exfalso. apply Hy. rewrite <- E. apply nth_In. lia.
    + rewrite IH by (try assumption; lia). f_equal. lia.
Qed.

Lemma name_index_nth names i d : NoDup names -> i < length names -> name_index names (nth i names d) = Some i.
Proof. intros Hnd Hi. unfold name_index. rewrite (index_last_nodup 0) by assumption. reflexivity. Qed.

Lemma name_index_unknown names x : ~ In x names -> name_index names x = None.
Proof. intros H. unfold name_index. apply index_last_notin. exact H. Qed.

Lemma names_to_idx_ok names idxs :
  NoDup names -> in_range (length names) idxs ->
  names_to_idx names (map (fun i => nth i names 0) idxs) = Ok idxs.
Proof.
  intros Hnd. induction idxs as [|i idxs IH]; intros Hr; simpl; [reflexivity|].
  rewrite name_index_nth by (try assumption; apply Hr; left; reflexivity).
  rewrite IH; [reflexivity|]. intros x Hx. apply Hr. right. exact Hx.
Qed.

Lemma names_to_idx_err names known x rest :
  NoDup names -> in_range (length names) known -> ~ In x names ->
  names_to_idx names (map (fun i => nth i names 0) known ++ x :: rest) = ErrKey x.
Proof.
  intros Hnd Hr Hx. induction known as [|i known IH]; simpl.
  - rewrite name_index_unknown by exact Hx. reflexivity.
  - rewrite name_index_nth by (try assumption; apply Hr; left; reflexivity).
    rewrite IH; [reflexivity|]. intros y Hy. apply Hr. right. exact Hy.
Qed.

Definition oname (names : list nat) (i : nat) := nth i names 0.

Theorem extension_named_ok b t onames anames ai bi :
  wf t -> NoDup onames -> NoDup anames ->
  length onames = height t -> length anames = width t ->
  in_range (width t) ai -> in_range (height t) bi ->
  extension_named b t onames anames (map (oname anames) ai) (Some (map (oname onames) bi)) false
  = Ok (map (oname onames) (ext_spec t ai bi)).
Proof.
  intros Hwf Hno Hna Hlo Hla Hai Hbi. unfold extension_named, oname.
  rewrite names_to_idx_ok by (try assumption; rewrite Hla; exact Hai).
  rewrite names_to_idx_ok by (try assumption; rewrite Hlo; exact Hbi).
  rewrite extension_i_correct by assumption. reflexivity.
Qed.

Theorem extension_named_nobase_ok b t onames anames ai :
  wf t -> NoDup anames -> length anames = width t -> in_range (width t) ai ->
  extension_named b t onames anames (map (oname anames) ai) None false
  = Ok (map (oname onames) (ext_spec t ai (all_objs t))).
Proof.
  intros Hwf Hna Hla Hai. unfold extension_named, oname.
  rewrite names_to_idx_ok by (try assumption; rewrite Hla; exact Hai).
  rewrite extension_i_correct; try assumption; [reflexivity|].
  simpl. intros x Hx. apply in_seq in Hx. lia.
Qed.

Theorem extension_named_mono_ok b t onames anames ai bi :
  wf t -> NoDup onames -> NoDup anames ->
  length onames = height t -> length anames = width t ->
  in_range (width t) ai -> in_range (height t) bi -> length ai <> width t ->
  extension_named b t onames anames (map (oname anames) ai) (Some (map (oname onames) bi)) true
  = Ok (map (oname onames) (ext_mono_spec t ai bi)).
Proof.
  intros Hwf Hno Hna Hlo Hla Hai Hbi Hlen. unfold extension_named, oname.
  rewrite names_to_idx_ok by (try assumption; rewrite Hla; exact Hai).
  rewrite names_to_idx_ok by (try assumption; rewrite Hlo; exact Hbi).
  rewrite extension_mono_correct by assumption. reflexivity.
Qed.

Theorem intention_named_ok b t onames anames oi :
  wf t -> NoDup onames -> length onames = height t -> in_range (height t) oi ->
  intention_named b t onames anames (map (oname onames) oi) false
  = Ok (map (oname anames) (int_spec t oi (all_attrs t))).
Proof.
  intros Hwf Hno Hlo Hoi. unfold intention_named, oname.
  rewrite names_to_idx_ok by (try assumption; rewrite Hlo; exact Hoi).
  rewrite intention_i_correct by (try assumption; exact Logic.I). reflexivity.
Qed.

Theorem intention_named_mono_ok b t onames anames oi :
  wf t -> NoDup onames -> length onames = height t -> in_range (height t) oi -> NoDup oi ->
  intention_named b t onames anames (map (oname onames) oi) true
  = Ok (map (oname anames) (int_mono_spec t oi (all_attrs t))).
Proof.
  intros Hwf Hno Hlo Hoi Hnd. unfold intention_named, oname.
  rewrite names_to_idx_ok by (try assumption; rewrite Hlo; exact Hoi).
  rewrite intention_mono_correct by (try assumption; exact Logic.I). reflexivity.
Qed.

(* unknown names: the first unknown attribute name, else the first unknown base object name *)
Theorem extension_named_keyerr_attr b t onames anames known x rest base mono :
  NoDup anames -> in_range (length anames) known -> ~ In x anames ->
  extension_named b t onames anames (map (oname anames) known ++ x :: rest) base mono = ErrKey x.
Proof.
  intros Hna Hk Hx. unfold extension_named, oname. rewrite names_to_idx_err by assumption. reflexivity.
Qed.

Theorem extension_named_keyerr_obj b t onames anames ai known x rest mono :
  NoDup anames -> NoDup onames -> in_range (length anames) ai ->
  in_range (length onames) known -> ~ In x onames ->
  extension_named b t onames anames (map (oname anames) ai)
                  (Some (map (oname onames) known ++ x :: rest)) mono = ErrKey x.
Proof.
  intros Hna Hno Hai Hk Hx. unfold extension_named, oname.
  rewrite names_to_idx_ok by assumption. rewrite names_to_idx_err by assumption. reflexivity.
Qed.

Theorem intention_named_keyerr b t onames anames known x rest mono :
  NoDup onames -> in_range (length onames) known -> ~ In x onames ->
  intention_named b t onames anames (map (oname onames) known ++ x :: rest) mono = ErrKey x.
Proof.
  intros Hno Hk Hx. unfold intention_named, oname. rewrite names_to_idx_err by assumption. reflexivity.
Qed.

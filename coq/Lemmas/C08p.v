(* Lemmas/C08p.v — PatternConcept.from_objects on interval-valued contexts builds the closure:
   the intent is the column-wise interval hull of the given objects, the extent is the set of all
   objects falling under it (so it contains the given objects). *)
From FCA Require Import Base.ListSet Model.BinTable Model.FormalContext Spec.Galois Spec.Closure
  Model.C08_Concept Spec.C08_Order Spec.C08_Pattern Lemmas.C08.

Definition hull_step (K : mvctx) (j : nat) (acc : Z * Z) (g : nat) : Z * Z :=
  let v := mv_cell K g j in
  ((if Z.ltb (fst v) (fst acc) then fst v else fst acc),
   (if Z.ltb (snd acc) (snd v) then snd v else snd acc)).

Lemma hull_fold K j rest g0 done acc :
  is_hull K j (g0 :: done) (Some acc) ->
  is_hull K j (g0 :: done ++ rest) (Some (fold_left (hull_step K j) rest acc)).
Proof.
  revert done acc. induction rest as [|g rest IH]; intros done acc H.
  - rewrite app_nil_r. exact H.
  - simpl fold_left.
    replace (g0 :: done ++ g :: rest) with (g0 :: (done ++ [g]) ++ rest)
      by (rewrite <- app_assoc; reflexivity).
    apply IH. destruct acc as [lo hi]. simpl in H. destruct H as [Hb [[gl [Hgl El]] [gh [Hgh Eh]]]].
    unfold hull_step. simpl fst. simpl snd. fold (cell_lo K j g). fold (cell_hi K j g).
    assert (In1 : forall x, In x (g0 :: done) -> In x (g0 :: done ++ [g])).
    { intros x [E|Hx]; [left; exact E | right; apply in_or_app; left; exact Hx]. }
    assert (In2 : In g (g0 :: done ++ [g])) by (right; apply in_or_app; right; left; reflexivity).
    simpl. split; [|split].
    + intros x Hx. assert (Hx' : x = g \/ In x (g0 :: done)).
      { destruct Hx as [E|Hx]; [right; left; exact E|]. apply in_app_or in Hx.
        destruct Hx as [Hx|[E|[]]]; [right; right; exact Hx | left; symmetry; exact E]. }
      destruct (Z.ltb_spec (cell_lo K j g) lo); destruct (Z.ltb_spec hi (cell_hi K j g));
        destruct Hx' as [E|Hx']; subst; try (specialize (Hb x Hx')); lia.
    + destruct (Z.ltb_spec (cell_lo K j g) lo).
      * exists g. split; [exact In2 | reflexivity].
      * exists gl. split; [apply In1; exact Hgl | exact El].
    + destruct (Z.ltb_spec hi (cell_hi K j g)).
      * exists g. split; [exact In2 | reflexivity].
      * exists gh. split; [apply In1; exact Hgh | exact Eh].
Qed.

Theorem ips_intention_is_hull K j A : is_hull K j A (ips_intention K j A).
Proof.
  destruct A as [|g0 rest]; [exact Logic.I|].
  unfold ips_intention.
  change (fold_left _ rest (mv_cell K g0 j)) with (fold_left (hull_step K j) rest (mv_cell K g0 j)).
  apply (hull_fold K j rest g0 [] (mv_cell K g0 j)).
  destruct (mv_cell K g0 j) as [lo hi] eqn:E. simpl. split; [|split].
  - intros g [Hg|[]]. subst g. unfold cell_lo, cell_hi. rewrite E. simpl. lia.
  - exists g0. split; [left; reflexivity | unfold cell_lo; rewrite E; reflexivity].
  - exists g0. split; [left; reflexivity | unfold cell_hi; rewrite E; reflexivity].
Qed.

Lemma ips_extension_filter K j d base : ips_extension K j d base = filter (in_desc K j d) base.
Proof.
  unfold ips_extension, in_desc. destruct d as [[lo hi]|]; [reflexivity|].
  induction base; simpl; auto.
Qed.

(* the early exit on an empty intermediate extent is harmless *)
Lemma mv_ext_loop_filter K j ds ext : mv_ext_loop K j ds ext = filter (covered_from K j ds) ext.
Proof.
  revert j ext. induction ds as [|d ds IH]; intros j ext; simpl.
  - induction ext; simpl; [reflexivity | f_equal; assumption].
  - rewrite ips_extension_filter.
    assert (E : filter (fun g => in_desc K j d g && covered_from K (S j) ds g) ext
                = filter (covered_from K (S j) ds) (filter (in_desc K j d) ext))
      by (rewrite filter_filter'; reflexivity).
    rewrite E. destruct (filter (in_desc K j d) ext) eqn:F; [reflexivity|]. apply IH.
Qed.

Theorem mv_extension_is_filter K ds : mv_extension_i K ds = ext_mv K ds.
Proof. unfold mv_extension_i, ext_mv. apply mv_ext_loop_filter. Qed.

Definition hull_desc (K : mvctx) (A : list nat) : list desc := mv_intention_i K A.

Theorem hull_desc_is_hull K A j :
  j < mv_width K -> is_hull K j A (nth j (hull_desc K A) None).
Proof.
  intros Hj. unfold hull_desc, mv_intention_i.
  rewrite (nth_indep _ None ((fun j0 => ips_intention K j0 A) 0)) by (rewrite map_length, seq_length; exact Hj).
  rewrite (map_nth (fun j0 => ips_intention K j0 A)), seq_nth by exact Hj. apply ips_intention_is_hull.
Qed.

Theorem pc_from_objects_is_closure HM K A :
  pc_from_objects HM K (ByIndex A) false false
  = COk (mk_pc (ext_mv K (hull_desc K A)) (map (name_of (mv_onames K)) (ext_mv K (hull_desc K A)))
               (hull_desc K A) [] (Some (HM K))).
Proof. unfold pc_from_objects. rewrite mv_extension_is_filter. reflexivity. Qed.

(* every given object of a non-empty argument is in the resulting extent (the closure is extensive) *)
Lemma covered_from_hull K A g j0 ds :
  In g A ->
  (forall i, i < length ds -> is_hull K (j0 + i) A (nth i ds None)) ->
  covered_from K j0 ds g = true.
Proof.
  intros Hg. revert j0. induction ds as [|d ds IH]; intros j0 H; simpl; [reflexivity|].
  apply andb_true_iff. split.
  - specialize (H 0 (Nat.lt_0_succ _)). simpl in H. rewrite Nat.add_0_r in H.
    destruct A as [|a A]; [contradiction|]. destruct d as [[lo hi]|]; [|contradiction].
    simpl in H. destruct H as [Hb _]. specialize (Hb g Hg). simpl.
    apply andb_true_iff. split; apply Z.leb_le; tauto.
  - apply IH. intros i Hi. specialize (H (S i)). simpl in H.
    replace (S j0 + i) with (j0 + S i) by lia. apply H. lia.
Qed.

Theorem pc_from_objects_extensive K A g :
  In g A -> g < mv_height K -> In g (ext_mv K (hull_desc K A)).
Proof.
  intros Hg Hr. unfold ext_mv. apply filter_In. split; [apply in_seq; lia|].
  apply (covered_from_hull K A g 0); [exact Hg|].
  intros i Hi. simpl. apply hull_desc_is_hull.
  unfold hull_desc, mv_intention_i in Hi. rewrite map_length, seq_length in Hi. exact Hi.
Qed.

Theorem pc_from_objects_by_name HM K A :
  NoDup (mv_onames K) -> in_range (length (mv_onames K)) A ->
  pc_from_objects HM K (ByName (map (name_of (mv_onames K)) A)) false false
  = pc_from_objects HM K (ByIndex A) false false.
Proof. intros Hn Hr. unfold pc_from_objects. rewrite names_index_ok by assumption. reflexivity. Qed.

(* Lemmas/C09DelOrder.v — order-theoretic facts behind POSet.__delitem__ (property C09, delete
   step): re-indexing after [remove_nth], and the cover relation of a finite order after one
   element has been taken out. *)
From FCA Require Import Base.ListSet Spec.PosetSpec Model.Poset Lemmas.C09Base.

(* ------------------------------------------------------------------ re-indexing *)
(* the old index of the element that has index j after position t was deleted *)
Definition incr (t j : nat) : nat := if Nat.ltb j t then j else S j.

Lemma decr_incr t j : decr t (incr t j) = j.
Proof.
  unfold decr, incr. destruct (Nat.ltb_spec j t) as [H | H].
  - destruct (Nat.ltb_spec t j); lia.
  - destruct (Nat.ltb_spec t (S j)); lia.
Qed.

Lemma incr_neq t j : incr t j <> t.
Proof. unfold incr. destruct (Nat.ltb_spec j t); lia. Qed.

Lemma incr_decr t i : i <> t -> incr t (decr t i) = i.
Proof.
  intros H. unfold decr, incr. destruct (Nat.ltb_spec t i) as [H1 | H1].
  - destruct (Nat.ltb_spec (i - 1) t); lia.
  - destruct (Nat.ltb_spec i t); lia.
Qed.

Lemma decr_inj t a b : a <> t -> b <> t -> decr t a = decr t b -> a = b.
Proof.
  intros Ha Hb H. rewrite <- (incr_decr t a Ha), <- (incr_decr t b Hb), H. reflexivity.
Qed.

Lemma incr_inj t a b : incr t a = incr t b -> a = b.
Proof. intros H. rewrite <- (decr_incr t a), <- (decr_incr t b), H. reflexivity. Qed.

Lemma decr_lt t i n : i < n -> i <> t -> t < n -> decr t i < n - 1.
Proof. intros H1 H2 H3. unfold decr. destruct (Nat.ltb_spec t i); lia. Qed.

Lemma incr_lt t j n : j < n - 1 -> incr t j < n.
Proof. intros H. unfold incr. destruct (Nat.ltb_spec j t); lia. Qed.

Lemma incr_S t j : incr (S t) (S j) = S (incr t j).
Proof. unfold incr. destruct (Nat.ltb_spec j t), (Nat.ltb_spec (S j) (S t)); lia. Qed.

Lemma nth_error_remove_nth {A} (l : list A) : forall k j,
  nth_error (remove_nth k l) j = nth_error l (incr k j).
Proof.
  induction l as [|x l IH]; intros k j.
  - destruct k, j, (incr _ _); reflexivity.
  - destruct k as [|k].
    + reflexivity.
    + destruct j as [|j]; [reflexivity|]. rewrite incr_S. simpl. apply IH.
Qed.

Lemma length_remove_nth {A} (l : list A) : forall k,
  k < length l -> length (remove_nth k l) = length l - 1.
Proof.
  induction l as [|x l IH]; intros k Hk; [simpl in Hk; lia|].
  destruct k as [|k]; simpl in *; [lia|]. rewrite IH by lia. lia.
Qed.

Lemma In_remove_nth {A} (l : list A) : forall k x, In x (remove_nth k l) -> In x l.
Proof.
  induction l as [|y l IH]; intros k x; [destruct k; simpl; tauto|].
  destruct k as [|k]; simpl; [tauto|]. intros [H | H]; [tauto | right; eapply IH; eauto].
Qed.

Lemma NoDup_remove_nth {A} (l : list A) : forall k, NoDup l -> NoDup (remove_nth k l).
Proof.
  induction l as [|y l IH]; intros k Hn; [destruct k; constructor|].
  inversion Hn as [|? ? Hy Hl]; subst.
  destruct k as [|k]; simpl; [exact Hl|]. constructor; [|apply IH; exact Hl].
  intros H. apply Hy. eapply In_remove_nth; eauto.
Qed.

Lemma NoDup_map_inj {A B} (f : A -> B) (l : list A) :
  (forall a b, In a l -> In b l -> f a = f b -> a = b) -> NoDup l -> NoDup (map f l).
Proof.
  intros Hf Hn. induction Hn as [|x l Hx Hl IH]; simpl; [constructor|].
  constructor.
  - rewrite in_map_iff. intros [y [Hy Hyl]]. apply Hx.
    assert (y = x) by (apply Hf; [right; exact Hyl | left; reflexivity | exact Hy]).
    subst. exact Hyl.
  - apply IH. intros a b Ha Hb. apply Hf; right; assumption.
Qed.

(* the value stored by decrement_dict for a set X of old indexes *)
Definition shift (t : nat) (X : list nat) : list nat :=
  map (decr t) (filter (fun i => negb (Nat.eqb i t)) X).

Lemma In_shift t X j : In j (shift t X) <-> In (incr t j) X.
Proof.
  unfold shift. rewrite in_map_iff. split.
  - intros [i [Hi Hin]]. apply filter_In in Hin. destruct Hin as [Hin Hne].
    apply negb_true_iff, Nat.eqb_neq in Hne. subst j. rewrite incr_decr by exact Hne. exact Hin.
  - intros H. exists (incr t j). split; [apply decr_incr|].
    apply filter_In. split; [exact H|]. apply negb_true_iff, Nat.eqb_neq. apply incr_neq.
Qed.

Lemma NoDup_shift t X : NoDup X -> NoDup (shift t X).
Proof.
  intros H. unfold shift. apply NoDup_map_inj; [|apply NoDup_filter; exact H].
  intros a b Ha Hb. apply filter_In in Ha, Hb.
  destruct Ha as [_ Ha], Hb as [_ Hb]. apply negb_true_iff, Nat.eqb_neq in Ha, Hb.
  apply decr_inj; assumption.
Qed.

(* ------------------------------------------------------------------ the order without one element *)
Section SubPoset.
  Variable E : Type.
  Variable leq eqb : E -> E -> bool.
  Hypothesis PO : partial_order E leq eqb.
  Variable l : list E.
  Hypothesis Hnd : NoDup l.
  Variable key : nat.

  Notation lq := (lq E leq).
  Notation ldir := (ldir E leq).
  Notation SR := (strict_rel E leq).
  Notation covers := (covers E leq).
  Notation l' := (remove_nth key l).
  Notation u := (incr key).

  Lemma lq_remove a b : lq l' a b = lq l (u a) (u b).
  Proof. unfold PosetSpec.lq. rewrite !nth_error_remove_nth. reflexivity. Qed.

  Lemma ldir_remove up a b : ldir l' up a b = ldir l up (u a) (u b).
  Proof. destruct up; simpl; apply lq_remove. Qed.

  Lemma In_SR_remove up i j : In j (SR l' up i) <-> In (u j) (SR l up (u i)).
  Proof.
    rewrite !In_strict_rel, ldir_remove. split; intros [H1 H2]; (split; [exact H1|]).
    - intros H. apply H2. eapply incr_inj; eauto.
    - intros ->. apply H2. reflexivity.
  Qed.

  (* j is a cover of i (direction up) in the order without [key]; i, j are old indexes *)
  Definition subcov (up : bool) (i j : nat) : Prop :=
    In j (SR l up i) /\ j <> key /\
    forall k, k <> key -> In k (SR l up i) -> ~ In j (SR l up k).

  Lemma In_covers_remove up i j : In j (covers l' up i) <-> subcov up (u i) (u j).
  Proof.
    rewrite In_covers, In_SR_remove. unfold subcov. split.
    - intros [H1 H2]. split; [exact H1|]. split; [apply incr_neq|].
      intros k Hk Hki Hjk. apply (H2 (decr key k)).
      + apply In_SR_remove. rewrite incr_decr by exact Hk. exact Hki.
      + apply In_SR_remove. rewrite incr_decr by exact Hk. exact Hjk.
    - intros [H1 [_ H2]]. split; [exact H1|]. intros k Hk Hjk.
      apply In_SR_remove in Hk, Hjk. apply (H2 (u k)); [apply incr_neq | exact Hk | exact Hjk].
  Qed.

  (* ---- general facts on strict_rel / covers of l *)
  Lemma SR_trans up a b c : In b (SR l up a) -> In c (SR l up b) -> In c (SR l up a).
  Proof.
    rewrite !In_strict_rel. intros H1 H2.
    exact (sdir_trans E leq eqb PO l up a b c Hnd H1 H2).
  Qed.

  Lemma SR_irrefl up a : ~ In a (SR l up a).
  Proof. rewrite In_strict_rel. tauto. Qed.

  Lemma SR_asym up a b : In b (SR l up a) -> ~ In a (SR l up b).
  Proof. intros H1 H2. apply (SR_irrefl up a). eapply SR_trans; eauto. Qed.

  Lemma SR_range up a b : In b (SR l up a) -> a < length l /\ b < length l.
  Proof. rewrite In_strict_rel. intros [H _]. eapply ldir_range; eauto. Qed.

  Lemma SR_flip up a b : In b (SR l up a) <-> In a (SR l (negb up) b).
  Proof.
    rewrite !In_strict_rel, ldir_flip. split; intros [H1 H2]; (split; [exact H1 | congruence]).
  Qed.

  Lemma covers_flip up a b : In b (covers l up a) <-> In a (covers l (negb up) b).
  Proof.
    pose proof (fun x y => proj1 (SR_flip up x y)) as F1.
    pose proof (fun x y => proj2 (SR_flip up x y)) as F2.
    rewrite !In_covers. split; intros [H1 H2].
    - split; [apply F1; exact H1|]. intros k Hk Hak. apply (H2 k); apply F2; assumption.
    - split; [apply F2; exact H1|]. intros k Hk Hbk. apply (H2 k); apply F1; assumption.
  Qed.

  Lemma covers_SR up a b : In b (covers l up a) -> In b (SR l up a).
  Proof. rewrite In_covers. tauto. Qed.

  (* every strict relative of a lies on or above a cover of a *)
  Lemma cover_below up a k :
    In k (SR l up a) -> exists m, In m (covers l up a) /\ (m = k \/ In k (SR l up m)).
  Proof.
    intros Hk.
    destruct (exists_minimal_below E leq eqb PO l up (SR l up a) Hnd k Hk) as [m [Hm [Hmk Hmin]]].
    { apply SR_range in Hk. tauto. }
    exists m. split.
    - apply In_covers. split; [exact Hm|]. intros x Hx Hmx. apply (Hmin x Hx).
      apply In_strict_rel in Hmx. exact Hmx.
    - destruct (Nat.eq_dec m k) as [-> | Hne]; [left; reflexivity | right].
      apply In_strict_rel. split; [exact Hmk | congruence].
  Qed.

  (* a strict relative that is not a cover has something in between *)
  Lemma not_cover_between up a j :
    In j (SR l up a) -> ~ In j (covers l up a) ->
    exists k, In k (SR l up a) /\ In j (SR l up k).
  Proof.
    intros Hj Hn. destruct (cover_below up a j Hj) as [m [Hm [-> | Hjm]]]; [contradiction|].
    exists m. split; [apply covers_SR; exact Hm | exact Hjm].
  Qed.

  (* ---- the two cases of "covers after removing key" *)
  Lemma subcov_untouched up i j :
    ~ In key (covers l up i) -> j <> key ->
    (In j (covers l up i) <-> subcov up i j).
  Proof.
    intros Hk Hj. rewrite In_covers. unfold subcov. split.
    - intros [H1 H2]. split; [exact H1|]. split; [exact Hj|]. intros k _. apply H2.
    - intros [H1 [_ H2]]. split; [exact H1|]. intros k Hk1 Hk2.
      destruct (Nat.eq_dec k key) as [-> | Hne]; [|exact (H2 k Hne Hk1 Hk2)].
      destruct (not_cover_between up i key Hk1 Hk) as [k' [Hk'1 Hk'2]].
      apply (H2 k').
      + intros ->. exact (SR_irrefl up key Hk'2).
      + exact Hk'1.
      + eapply SR_trans; eauto.
  Qed.

  Lemma subcov_patched up p j :
    In key (covers l up p) ->
    (((In j (covers l up p) \/ In j (covers l up key)) /\ j <> key) /\
     (forall c, (In c (covers l up p) \/ In c (covers l up key)) /\ c <> key -> ~ In j (SR l up c))
     <-> subcov up p j).
  Proof.
    intros Hkp. pose proof (covers_SR up p key Hkp) as Hkp'.
    assert (Hcand : forall c, (In c (covers l up p) \/ In c (covers l up key)) -> In c (SR l up p)).
    { intros c [Hc | Hc]; [apply covers_SR; exact Hc|].
      eapply SR_trans; [exact Hkp' | apply covers_SR; exact Hc]. }
    unfold subcov. split.
    - intros [[Hj Hjk] Hmin]. split; [apply Hcand; exact Hj|]. split; [exact Hjk|].
      intros k Hk Hkp1 Hjk1.
      destruct (cover_below up p k Hkp1) as [m [Hm Hmk]].
      assert (Hjm : In j (SR l up m)).
      { destruct Hmk as [-> | Hmk]; [exact Hjk1 | eapply SR_trans; eauto]. }
      destruct (Nat.eq_dec m key) as [-> | Hmne].
      + destruct Hmk as [-> | Hmk]; [contradiction|].
        destruct (cover_below up key k Hmk) as [m' [Hm' Hm'k]].
        apply (Hmin m').
        * split; [right; exact Hm'|]. intros ->. apply covers_SR in Hm'. exact (SR_irrefl up key Hm').
        * destruct Hm'k as [-> | Hm'k]; [exact Hjk1 | eapply SR_trans; eauto].
      + apply (Hmin m); [|exact Hjm]. split; [left; exact Hm | exact Hmne].
    - intros [Hj [Hjk Hmin]]. split.
      + split; [|exact Hjk].
        destruct (cover_below up p j Hj) as [m [Hm Hmj]].
        destruct (Nat.eq_dec m key) as [-> | Hmne].
        * destruct Hmj as [-> | Hmj]; [contradiction|].
          destruct (cover_below up key j Hmj) as [m' [Hm' Hm'j]].
          destruct Hm'j as [-> | Hm'j]; [right; exact Hm'|].
          exfalso. apply (Hmin m'); [|apply Hcand; right; exact Hm' | exact Hm'j].
          intros ->. apply covers_SR in Hm'. exact (SR_irrefl up key Hm').
        * destruct Hmj as [-> | Hmj]; [left; exact Hm|].
          exfalso. apply (Hmin m); [exact Hmne | apply covers_SR; exact Hm | exact Hmj].
      + intros c [Hc Hck] Hjc. apply (Hmin c); [exact Hck | apply Hcand; exact Hc | exact Hjc].
  Qed.
End SubPoset.

(* Lemmas/C02_Sofia.v — Sofia in the exact regime: after processing the first k attributes the
   working set is, without repetition, exactly { (B)' | B a set of attributes below k }; after
   all attributes it is the set of all extents. *)
From Coq Require Import Permutation.
From FCA Require Import Base.ListSet Model.BinTable Model.FormalContext Model.ConceptConstruction
     Spec.Galois Spec.Closure Lemmas.BitRow Lemmas.C01 Lemmas.C02.

(* the characteristic vector of B' *)
Definition extbits (t : table) (B : list nat) : list bool :=
  map (fun g => forallb (fun m => I t g m) B) (seq 0 (height t)).

Lemma column_seq t j : column t j = map (fun g => cell t g j) (seq 0 (height t)).
Proof.
  unfold column. rewrite <- (map_row_seq t) at 1. rewrite map_map. reflexivity.
Qed.

Lemma map2_map_same {A} (op : bool -> bool -> bool) (f g : A -> bool) l :
  map2 op (map f l) (map g l) = map (fun x => op (f x) (g x)) l.
Proof. induction l as [|x l IH]; simpl; [reflexivity|]. rewrite IH. reflexivity. Qed.

Lemma extbits_length t B : length (extbits t B) = height t.
Proof. unfold extbits. rewrite map_length, seq_length. reflexivity. Qed.

Lemma map_const_repeat {A} (l : list A) : map (fun _ => true) l = repeat true (length l).
Proof. induction l as [|x l IH]; simpl; [reflexivity|]. rewrite IH. reflexivity. Qed.

Lemma extbits_nil t : extbits t [] = repeat true (height t).
Proof.
  unfold extbits. simpl. rewrite map_const_repeat, seq_length. reflexivity.
Qed.

Lemma extbits_snoc t B j : extbits t (B ++ [j]) = band (extbits t B) (column t j).
Proof.
  unfold extbits, band. rewrite column_seq, map2_map_same. apply map_ext. intros g.
  rewrite forallb_app. simpl. rewrite andb_true_r. reflexivity.
Qed.

Lemma search1_extbits t B : search1 (extbits t B) = ext t B.
Proof.
  rewrite search1_select, extbits_length. unfold extbits. rewrite select_map_filter. reflexivity.
Qed.

Lemma extbits_same_set t B1 B2 : same_set B1 B2 -> extbits t B1 = extbits t B2.
Proof.
  intros H. unfold extbits. apply map_ext. intros g. apply bool_eq_iff.
  rewrite !forallb_forall. split; intros Hp m Hm; apply Hp, H, Hm.
Qed.

(* k in B: B' = (B \ {k})' /\ k' *)
Lemma extbits_remove t B k :
  In k B -> extbits t B = band (extbits t (filter (fun m => negb (Nat.eqb m k)) B)) (column t k).
Proof.
  intros Hk. rewrite <- extbits_snoc. apply extbits_same_set. intros m.
  rewrite in_app_iff, filter_In, negb_true_iff, Nat.eqb_neq. simpl. split.
  - intros Hm. destruct (Nat.eq_dec m k) as [e|ne]; [right; left; congruence | left; auto].
  - intros [[Hm _]|[E|[]]]; [exact Hm | subst; exact Hk].
Qed.

(* ------------------------------------------------------------ list-as-set plumbing *)

Lemma found_mem_In x l : found_mem x l = true <-> In x l.
Proof.
  unfold found_mem. rewrite existsb_exists. split.
  - intros [y [Hy E]]. apply bool_list_eqb_eq in E. subst. exact Hy.
  - intros H. exists x. split; [exact H | apply bool_list_eqb_eq; reflexivity].
Qed.

Lemma add_new_In old news x : In x (add_new old news) <-> In x old \/ In x news.
Proof.
  revert old. induction news as [|y news IH]; intros old; simpl; [tauto|].
  destruct (found_mem y old) eqn:E.
  - rewrite IH. apply found_mem_In in E. split; [tauto|]. intros [H|[H|H]]; subst; auto.
  - rewrite IH, in_app_iff. simpl. tauto.
Qed.

Lemma NoDup_app_snoc {A} (l : list A) x : NoDup l -> ~ In x l -> NoDup (l ++ [x]).
Proof.
  intros Hnd Hx. apply NoDup_rev in Hnd. rewrite <- (rev_involutive (l ++ [x])).
  apply NoDup_rev. rewrite rev_app_distr. simpl. constructor; [|exact Hnd].
  rewrite <- in_rev. exact Hx.
Qed.

Lemma add_new_NoDup old news : NoDup old -> NoDup (add_new old news).
Proof.
  revert old. induction news as [|y news IH]; intros old Hnd; simpl; [exact Hnd|].
  destruct (found_mem y old) eqn:E; [apply IH; exact Hnd|].
  apply IH. apply NoDup_app_snoc; [exact Hnd|].
  intros H. apply found_mem_In in H. congruence.
Qed.

Lemma insert_by_count_perm x l : Permutation (insert_by_count x l) (x :: l).
Proof.
  induction l as [|y l IH]; simpl; [apply Permutation_refl|].
  destruct (Nat.ltb (bcount x) (bcount y)); [apply Permutation_refl|].
  eapply Permutation_trans; [apply perm_skip; exact IH | apply perm_swap].
Qed.

Lemma sort_by_count_perm l : Permutation (sort_by_count l) l.
Proof.
  unfold sort_by_count.
  assert (G : forall acc, Permutation (fold_left (fun a x => insert_by_count x a) l acc) (l ++ acc)).
  { induction l as [|x l IH]; intros acc; simpl; [apply Permutation_refl|].
    eapply Permutation_trans; [apply IH|].
    eapply Permutation_trans; [apply Permutation_app_head; apply insert_by_count_perm|].
    apply Permutation_sym. apply Permutation_middle. }
  specialize (G []). rewrite app_nil_r in G. exact G.
Qed.

(* ------------------------------------------------------------ the invariant *)

Section Sofia.
Variable t : table.
Hypothesis Hwf : wf t.

Definition Inv (k : nat) (W : list (list bool)) : Prop :=
  NoDup W /\ forall x, In x W <-> exists B, in_range k B /\ x = extbits t B.

Lemma Inv_init : Inv 0 [repeat true (height t)].
Proof.
  split; [constructor; [intros []|constructor]|].
  intros x. simpl. split.
  - intros [E|[]]. exists []. split; [intros y []|]. rewrite extbits_nil. auto.
  - intros [B [HB E]]. left. destruct B as [|b B]; [rewrite E, extbits_nil; reflexivity|].
    specialize (HB b (or_introl eq_refl)). lia.
Qed.

Lemma ball_band_id e col : length e = length col -> ball col = true -> band e col = e.
Proof.
  unfold ball, band. revert col. induction e as [|a e IH]; intros [|c col] Hl Hb; simpl in *;
    try discriminate; [reflexivity|].
  apply andb_true_iff in Hb. destruct Hb as [Hc Hb]. unfold id in Hc. subst c.
  rewrite andb_true_r. rewrite IH; [reflexivity | lia | exact Hb].
Qed.

Lemma column_length j : length (column t j) = height t.
Proof. unfold column. rewrite map_length. reflexivity. Qed.

(* the step as a set: W' = W  u  { x /\ col_k | x in W } *)
Lemma Inv_step k W W' lmax :
  Inv k W -> sofia_step lmax (Some W) (column t k) = Some W' -> Inv (S k) W'.
Proof.
  intros [Hnd HW] Hs. unfold sofia_step in Hs.
  assert (Hset : NoDup W' /\ forall x, In x W' <-> In x W \/ exists e, In e W /\ x = band e (column t k)).
  { destruct (ball (column t k)) eqn:Eb.
    - inversion Hs; subst W'. split; [exact Hnd|]. intros x. split; [auto|].
      intros [H|[e [He E]]]; [exact H|]. subst x. rewrite ball_band_id; [exact He | | exact Eb].
      apply HW in He. destruct He as [B [_ E]]. subst e. rewrite extbits_length, column_length. reflexivity.
    - destruct (Nat.ltb lmax _); [discriminate|]. inversion Hs; subst W'. clear Hs. split.
      + eapply Permutation_NoDup; [apply Permutation_sym, sort_by_count_perm|].
        apply add_new_NoDup. exact Hnd.
      + intros x. split.
        * intros H. eapply Permutation_in in H; [|apply sort_by_count_perm].
          apply add_new_In in H. destruct H as [H|H]; [auto|]. right.
          apply in_map_iff in H. destruct H as [e [E He]]. exists e. auto.
        * intros H. eapply Permutation_in; [apply Permutation_sym, sort_by_count_perm|].
          apply add_new_In. destruct H as [H|[e [He E]]]; [auto|]. right.
          apply in_map_iff. exists e. auto. }
  destruct Hset as [Hnd' Hset]. split; [exact Hnd'|]. intros x. rewrite Hset. split.
  - intros [H|[e [He E]]].
    + apply HW in H. destruct H as [B [HB E]]. exists B. split; [|exact E].
      intros y Hy. specialize (HB y Hy). lia.
    + apply HW in He. destruct He as [B [HB E']]. subst. exists (B ++ [k]). split.
      * intros y Hy. apply in_app_or in Hy. destruct Hy as [Hy|[Hy|[]]]; [specialize (HB y Hy)|]; lia.
      * symmetry. apply extbits_snoc.
  - intros [B [HB E]]. subst x. destruct (in_dec Nat.eq_dec k B) as [Hk|Hk].
    + right. exists (extbits t (filter (fun m => negb (Nat.eqb m k)) B)). split.
      * apply HW. eexists. split; [|reflexivity]. intros y Hy. apply filter_In in Hy.
        destruct Hy as [Hy Hne]. apply negb_true_iff, Nat.eqb_neq in Hne. specialize (HB y Hy). lia.
      * apply extbits_remove. exact Hk.
    + left. apply HW. exists B. split; [|reflexivity]. intros y Hy.
      specialize (HB y Hy). assert (y <> k) by congruence. lia.
Qed.

Lemma fold_step_None lmax cols : fold_left (sofia_step lmax) cols None = None.
Proof. induction cols as [|c cols IH]; simpl; [reflexivity | exact IH]. Qed.

Lemma Inv_fold lmax k W :
  fold_left (sofia_step lmax) (map (column t) (seq 0 k)) (Some [repeat true (height t)]) = Some W ->
  Inv k W.
Proof.
  revert W. induction k as [|k IH]; intros W H.
  - simpl in H. inversion H. apply Inv_init.
  - rewrite seq_S, map_app, fold_left_app in H. simpl in H.
    destruct (fold_left (sofia_step lmax) (map (column t) (seq 0 k)) (Some [repeat true (height t)]))
      as [Wk|] eqn:E.
    + eapply Inv_step; [apply IH; reflexivity | exact H].
    + simpl in H. discriminate.
Qed.

(* every working set is, injectively, a set of extents: it never exceeds their number *)
Lemma search1_inj (a b : list bool) : length a = length b -> search1 a = search1 b -> a = b.
Proof.
  unfold search1. generalize 0 as k. revert b.
  induction a as [|x a IH]; intros [|y b] k Hl E; simpl in *; try discriminate; [reflexivity|].
  assert (Hge : forall fl k' z, In z (search1_from k' fl) -> k' <= z).
  { induction fl as [|f fl IHf]; intros k' z Hz; simpl in Hz; [destruct Hz|].
    destruct f; [destruct Hz as [Hz|Hz]; [lia|]|]; apply IHf in Hz; lia. }
  destruct x, y.
  - inversion E. f_equal. eapply IH; [lia | eassumption].
  - exfalso. assert (X : In k (search1_from (S k) b)) by (rewrite <- E; left; reflexivity).
    apply Hge in X. lia.
  - exfalso. assert (X : In k (search1_from (S k) a)) by (rewrite E; left; reflexivity).
    apply Hge in X. lia.
  - f_equal. eapply IH; [lia | eassumption].
Qed.

Lemma NoDup_map_inj_in {A B} (f : A -> B) l :
  (forall a b, In a l -> In b l -> f a = f b -> a = b) -> NoDup l -> NoDup (map f l).
Proof.
  induction l as [|x l IH]; intros Hinj Hnd; simpl; [constructor|].
  inversion Hnd; subst. constructor.
  - intros H. apply in_map_iff in H. destruct H as [y [E Hy]].
    assert (y = x) by (apply Hinj; [right; exact Hy | left; reflexivity | exact E]). subst. contradiction.
  - apply IH; [|assumption]. intros a b Ha Hb. apply Hinj; right; assumption.
Qed.

Lemma Inv_extents k W : k <= width t -> Inv k W ->
  NoDup (map search1 W) /\ incl (map search1 W) (extents_spec t).
Proof.
  intros Hk [Hnd HW]. split.
  - apply NoDup_map_inj_in; [|exact Hnd]. intros a b Ha Hb E.
    apply HW in Ha. apply HW in Hb. destruct Ha as [Ba [_ Ea]]. destruct Hb as [Bb [_ Eb]].
    apply search1_inj; [|exact E]. subst. rewrite !extbits_length. reflexivity.
  - intros A HA. apply in_map_iff in HA. destruct HA as [x [E Hx]]. apply HW in Hx.
    destruct Hx as [B [HB Ex]]. subst. rewrite search1_extbits. apply extents_spec_complete.
    exists B. split; [|reflexivity]. intros y Hy. specialize (HB y Hy). lia.
Qed.

Lemma Inv_length k W : k <= width t -> Inv k W -> length W <= length (concepts_spec t).
Proof.
  intros Hk HI. destruct (Inv_extents k W Hk HI) as [Hnd Hincl].
  unfold concepts_spec. rewrite map_length. rewrite <- (map_length search1 W).
  apply NoDup_incl_length; assumption.
Qed.

(* with L_max at least the number of concepts the pruning branch is never taken *)
Lemma fold_not_pruned lmax k :
  length (concepts_spec t) <= lmax -> k <= width t ->
  exists W, fold_left (sofia_step lmax) (map (column t) (seq 0 k)) (Some [repeat true (height t)]) = Some W.
Proof.
  intros Hl. induction k as [|k IH]; intros Hk.
  - simpl. eexists. reflexivity.
  - destruct IH as [Wk EW]; [lia|]. rewrite seq_S, map_app, fold_left_app, EW. simpl.
    destruct (ball (column t k)) eqn:Eb; [eexists; reflexivity|].
    match goal with |- context [Nat.ltb lmax ?n] => destruct (Nat.ltb lmax n) eqn:El end;
      [|eexists; reflexivity].
    exfalso. apply Nat.ltb_lt in El.
    assert (HI : Inv (S k) (sort_by_count (add_new Wk (map (fun e => band e (column t k)) Wk)))).
    { eapply (Inv_step k Wk _ (length (concepts_spec t) + length (sort_by_count (add_new Wk (map (fun e => band e (column t k)) Wk))))).
      - apply (Inv_fold lmax). exact EW.
      - unfold sofia_step. rewrite Eb.
        match goal with |- context [Nat.ltb ?a ?b] => destruct (Nat.ltb_spec a b) as [X|X] end; [lia | reflexivity]. }
    apply Inv_length in HI; [lia | exact Hk].
Qed.

End Sofia.

(* ------------------------------------------------------------ the theorem *)

Definition pair_of_concept (c : fconcept) : list nat * list nat := (c_ext_i c, c_int_i c).

Theorem sofia_exact K lmax :
  wf (k_table K) -> length (concepts_spec (k_table K)) <= lmax ->
  exists l, sofia K lmax = Some l /\
            lists_all_concepts (k_table K) (map pair_of_concept l) /\
            Forall (views_agree K) l.
Proof.
  intros Hwf Hl. set (t := k_table K) in *.
  destruct (fold_not_pruned t lmax (width t) Hl (le_n _)) as [W EW].
  assert (HI : Inv t (width t) W) by (apply (Inv_fold t lmax); exact EW).
  unfold sofia, sofia_extents, attr_extents, k_n. fold t. rewrite EW.
  eexists. split; [reflexivity|].
  destruct (Inv_extents t (width t) W (le_n _) HI) as [Hnd Hincl].
  destruct HI as [HndW HW].
  assert (Hpairs : map pair_of_concept (map (fun e => from_objects K (search1 e) true) W)
                   = map (fun A => (A, int t A)) (map search1 W)).
  { rewrite !map_map. apply map_ext_in. intros e He. apply HW in He. destruct He as [B [HB E]]. subst e.
    rewrite from_objects_extent; [reflexivity | exact Hwf|].
    rewrite search1_extbits. apply ext_in_range. }
  split; [|apply Forall_forall; intros c Hc; apply in_map_iff in Hc; destruct Hc as [e [E _]]; subst;
           apply from_objects_views].
  rewrite Hpairs. split.
  - apply NoDup_map_inj_in; [|exact Hnd]. intros a b _ _ E. inversion E. reflexivity.
  - intros A B. unfold concepts_spec. rewrite !in_map_iff. split.
    + intros [A' [E HA]]. exists A'. split; [exact E|]. apply Hincl. exact HA.
    + intros [A' [E HA]]. exists A'. split; [exact E|].
      apply extents_spec_complete in HA. destruct HA as [B' [HB' EA]]. subst A'.
      apply in_map_iff. exists (extbits t B'). split; [apply search1_extbits|].
      apply HW. exists B'. split; [exact HB' | reflexivity].
Qed.

(* Lemmas/C03_lattice.v — proofs for property C03 (part 2): top / bottom of a complete concept
   list, sort_concepts (listing by non-increasing support, top first, bottom last),
   meet = intersection of extents, join = intersection of intents. *)
From Coq Require Import Sorting.Sorted Permutation.
From FCA Require Import Base.ListSet Base.Order Model.LatticeOrder Spec.Closure Spec.LatticeOrderSpec
     Lemmas.C03.

(* ------------------------------------------------------------------ helpers *)
Lemma filter_all_true {A} (p : A -> bool) (l : list A) :
  (forall x, In x l -> p x = true) -> filter p l = l.
Proof.
  induction l as [|a l IH]; intros H; simpl; [reflexivity|].
  rewrite H by (left; reflexivity). rewrite IH; [reflexivity|]. intros x Hx. apply H. right. exact Hx.
Qed.

Lemma ext_nil t : ext t [] = all_objs t.
Proof. unfold ext, ext_spec. apply filter_all_true. intros x _. reflexivity. Qed.

Lemma in_range_nil n : in_range n [].
Proof. intros x []. Qed.

Lemma top_is_concept t : is_concept t (all_objs t) (int t (all_objs t)).
Proof.
  split; [|reflexivity]. rewrite <- (ext_nil t).
  symmetry. apply ext_int_ext. apply in_range_nil.
Qed.

Lemma in_range_all_attrs t : in_range (width t) (all_attrs t).
Proof. intros x Hx. apply in_seq in Hx. lia. Qed.

Lemma bottom_is_concept t :
  is_concept t (ext t (all_attrs t)) (int t (ext t (all_attrs t))).
Proof. split; [|reflexivity]. symmetry. apply ext_int_ext. apply in_range_all_attrs. Qed.

Lemma mem_filter_in (p : nat -> bool) l y : In y l -> mem y (filter p l) = p y.
Proof.
  intros Hy. apply bool_eq_iff. rewrite mem_In, filter_In. tauto.
Qed.

Lemma NoDup_incl_lt (a b : list nat) :
  NoDup a -> NoDup b -> incl a b -> ~ incl b a -> length a < length b.
Proof.
  intros Ha Hb Hab Hnba. assert (L := NoDup_incl_length Ha Hab).
  destruct (Nat.eq_dec (length a) (length b)) as [E|E]; [|lia].
  exfalso. apply Hnba. apply NoDup_length_incl; auto. lia.
Qed.

Lemma StronglySorted_nth {A} (R : A -> A -> Prop) (l : list A) d :
  StronglySorted R l -> forall i j, i < j -> j < length l -> R (nth i l d) (nth j l d).
Proof.
  induction 1 as [|a l Hs IH Hall]; intros i j Hij Hj; simpl in Hj; [lia|].
  destruct j as [|j]; [lia|]. destruct i as [|i]; simpl.
  - rewrite Forall_forall in Hall. apply Hall. apply nth_In. lia.
  - apply IH; lia.
Qed.

(* ------------------------------------------------------------------ sort_concepts *)
Definition by_support (c d : concept) : Prop := support d <= support c.
Definition key_leP (c d : concept) : Prop := key_le c d = true.

Lemma str_leb_total a b : str_leb a b = false -> str_leb b a = true.
Proof.
  revert b. induction a as [|x a IH]; intros [|y b]; simpl; intros H; try reflexivity; try discriminate.
  destruct (Nat.ltb x y) eqn:L1; [discriminate|].
  destruct (Nat.ltb y x) eqn:L2; [reflexivity|]. apply IH. exact H.
Qed.

Lemma key_le_total c d : key_le c d = false -> key_le d c = true.
Proof.
  unfold key_le. destruct (Nat.ltb (support d) (support c)) eqn:L1; [discriminate|].
  destruct (Nat.ltb (support c) (support d)) eqn:L2; [reflexivity|]. apply str_leb_total.
Qed.

Lemma key_le_support c d : key_le c d = true -> by_support c d.
Proof.
  unfold key_le, by_support. destruct (Nat.ltb (support d) (support c)) eqn:L1.
  - apply Nat.ltb_lt in L1. lia.
  - destruct (Nat.ltb (support c) (support d)) eqn:L2; [discriminate|].
    apply Nat.ltb_ge in L1. apply Nat.ltb_ge in L2. lia.
Qed.

Lemma insert_perm x l : Permutation (x :: l) (insert_concept x l).
Proof.
  induction l as [|y l IH]; simpl; [apply Permutation_refl|].
  destruct (key_le x y); [apply Permutation_refl|].
  eapply Permutation_trans; [apply perm_swap|]. apply perm_skip. exact IH.
Qed.

Lemma sort_perm cs : Permutation cs (sort_concepts cs).
Proof.
  induction cs as [|c cs IH]; simpl; [constructor|].
  eapply Permutation_trans; [apply perm_skip; exact IH | apply insert_perm].
Qed.

Lemma insert_sorted x l : Sorted key_leP l -> Sorted key_leP (insert_concept x l).
Proof.
  induction l as [|y l IH]; intros Hs; simpl; [repeat constructor|].
  destruct (key_le x y) eqn:K.
  - constructor; [exact Hs | constructor; exact K].
  - inversion Hs as [|? ? Hs' Hd]; subst. constructor; [apply IH; exact Hs'|].
    destruct l as [|z l]; simpl.
    + constructor. apply key_le_total. exact K.
    + destruct (key_le x z); constructor.
      * apply key_le_total. exact K.
      * inversion Hd; subst. assumption.
Qed.

Lemma sort_sorted_key cs : Sorted key_leP (sort_concepts cs).
Proof. induction cs as [|c cs IH]; simpl; [constructor | apply insert_sorted; exact IH]. Qed.

Lemma Sorted_impl {A} (R Q : A -> A -> Prop) l :
  (forall a b, R a b -> Q a b) -> Sorted R l -> Sorted Q l.
Proof.
  intros H. induction 1 as [|a l Hs IH Hd]; constructor; [exact IH|].
  destruct Hd; constructor. apply H. assumption.
Qed.

(* the listing is by non-increasing support *)
Theorem sizes_sorted cs : StronglySorted by_support (sort_concepts cs).
Proof.
  apply Sorted_StronglySorted.
  - intros a b c H1 H2. unfold by_support in *. lia.
  - apply (Sorted_impl key_leP); [apply key_le_support | apply sort_sorted_key].
Qed.

Lemma full_lattice_perm t cs cs' : Permutation cs cs' -> full_lattice t cs -> full_lattice t cs'.
Proof.
  intros P [[Hc Hn] Hf]. split; [split|].
  - intros c Hin. apply Hc. eapply Permutation_in; [apply Permutation_sym|]; eauto.
  - eapply Permutation_NoDup; [apply Permutation_map; exact P | exact Hn].
  - intros A B H. eapply Permutation_in; [exact P|]. apply Hf. exact H.
Qed.

Lemma concept_list_perm t cs cs' : Permutation cs cs' -> concept_list t cs -> concept_list t cs'.
Proof.
  intros P [Hc Hn]. split.
  - intros c Hin. apply Hc. eapply Permutation_in; [apply Permutation_sym|]; eauto.
  - eapply Permutation_NoDup; [apply Permutation_map; exact P | exact Hn].
Qed.

(* ------------------------------------------------------------------ a complete concept list *)
Section Full.
  Variable t : table.
  Variable cs : list concept.
  Hypothesis HF : full_lattice t cs.
  Let n := length cs.
  Let HL : concept_list t cs := proj1 HF.
  Let PO := leq_i_partial_order t cs HL.

  Lemma concept_index A B : is_concept t A B ->
    exists k, k < n /\ extent cs k = A /\ intent cs k = B.
  Proof.
    intros H. apply (proj2 HF) in H.
    destruct (In_nth cs (A, B) cdefault H) as [k [Hk E]]. exists k. split; [exact Hk|].
    unfold extent, intent, cnth. rewrite E. split; reflexivity.
  Qed.

  Lemma extent_in_range i : i < n -> incl (extent cs i) (all_objs t).
  Proof.
    intros Hi g Hg. rewrite (extent_eq_ext t cs HL i Hi) in Hg. apply ext_in_range in Hg.
    apply in_seq. lia.
  Qed.

  Lemma leq_incl i j : i < n -> (leq_i cs i j = true <-> incl (extent cs i) (extent cs j)).
  Proof. intros Hi. rewrite (leq_i_subset t cs HL i j Hi). apply subsetb_incl. Qed.

  Lemma NoDup_idxs : NoDup (idxs cs).
  Proof. apply seq_NoDup. Qed.

  (* ---------------------------------------------------------------- top and bottom *)
  Theorem top_exists :
    exists k, k < n /\ top_index cs = Some k /\ extent cs k = all_objs t.
  Proof.
    destruct (concept_index _ _ (top_is_concept t)) as [k [Hk [E _]]].
    exists k. repeat split; auto.
    unfold top_index, extremes_of, ancestors_nocache, strict_up.
    change (seq 0 (length cs)) with (idxs cs).
    rewrite (unique_least nat Nat.eqb (flip_leq (leq_i cs)) nat_eqb_ok (idxs cs)
               (partial_order_on_flip _ _ PO) k NoDup_idxs); [reflexivity | |].
    - apply In_idxs. exact Hk.
    - intros u Hu. apply In_idxs in Hu. unfold flip_leq. apply leq_incl; [exact Hu|].
      rewrite E. apply extent_in_range. exact Hu.
  Qed.

  Theorem bottom_exists :
    exists k, k < n /\ bottom_index cs = Some k /\ extent cs k = ext t (all_attrs t).
  Proof.
    destruct (concept_index _ _ (bottom_is_concept t)) as [k [Hk [E _]]].
    exists k. repeat split; auto.
    unfold bottom_index, extremes_of, descendants_nocache.
    change (seq 0 (length cs)) with (idxs cs).
    rewrite (unique_least nat Nat.eqb (leq_i cs) nat_eqb_ok (idxs cs) PO k NoDup_idxs);
      [reflexivity | |].
    - apply In_idxs. exact Hk.
    - intros u Hu. apply In_idxs in Hu. apply leq_incl; [exact Hk|].
      rewrite E, (extent_eq_ext t cs HL u Hu). apply ext_antitone.
      rewrite (intent_eq_int t cs HL u Hu). intros m Hm. apply int_in_range in Hm.
      apply in_seq. lia.
  Qed.

  Lemma support_lt i j : i < n -> j < n -> i <> j -> incl (extent cs i) (extent cs j) ->
    support (cnth cs i) < support (cnth cs j).
  Proof.
    intros Hi Hj Hne Hin. unfold support. fold (extent cs i). fold (extent cs j).
    apply NoDup_incl_lt; auto using (extent_NoDup t cs HL).
    intros Hji. apply Hne. apply (extent_same_set_eq t cs HL); auto.
  Qed.

  (* in a listing by non-increasing support the top is first and the bottom last *)
  Theorem top_first : StronglySorted by_support cs ->
    top_index cs = Some 0 /\ extent cs 0 = all_objs t.
  Proof.
    intros Hs. destruct top_exists as [k [Hk [Ht E]]].
    destruct (Nat.eq_dec k 0) as [->|Hne]; [split; assumption|]. exfalso.
    assert (H0 : 0 < n) by lia.
    assert (R := StronglySorted_nth by_support cs cdefault Hs 0 k ltac:(lia) Hk).
    unfold by_support in R. fold (cnth cs 0) in R. fold (cnth cs k) in R.
    assert (L : support (cnth cs 0) < support (cnth cs k)).
    { apply support_lt; auto. rewrite E. apply extent_in_range. exact H0. }
    lia.
  Qed.

  Theorem bottom_last : StronglySorted by_support cs ->
    bottom_index cs = Some (n - 1) /\ extent cs (n - 1) = ext t (all_attrs t).
  Proof.
    intros Hs. destruct bottom_exists as [k [Hk [Ht E]]].
    destruct (Nat.eq_dec k (n - 1)) as [->|Hne]; [split; assumption|]. exfalso.
    assert (Hl : n - 1 < n) by lia.
    assert (R := StronglySorted_nth by_support cs cdefault Hs k (n - 1) ltac:(lia) Hl).
    unfold by_support in R. fold (cnth cs (n - 1)) in R. fold (cnth cs k) in R.
    assert (L : support (cnth cs k) < support (cnth cs (n - 1))).
    { apply support_lt; auto. rewrite E, (extent_eq_ext t cs HL (n - 1) Hl). apply ext_antitone.
      rewrite (intent_eq_int t cs HL (n - 1) Hl). intros m Hm. apply int_in_range in Hm.
      apply in_seq. lia. }
    lia.
  Qed.
End Full.

(* ------------------------------------------------------------------ meet and join *)
Lemma int_app t A1 A2 : int t (A1 ++ A2) = filter (fun m => mem m (int t A2)) (int t A1).
Proof.
  unfold int at 1 3. unfold int_spec, all_attrs. rewrite filter_filter'.
  apply filter_seq_ext. intros m Hm. rewrite forallb_app.
  f_equal. apply bool_eq_iff. rewrite mem_In, int_In, forallb_forall. split.
  - intros H. split; [exact Hm | exact H].
  - intros [_ H]. exact H.
Qed.

Lemma int_canon t A m : mem m (int t A) = (Nat.ltb m (width t) && forallb (fun g => I t g m) A).
Proof.
  apply bool_eq_iff. rewrite mem_In, int_In, andb_true_iff, Nat.ltb_lt, forallb_forall. tauto.
Qed.

Lemma inter_all_ext t Bs : inter_all (all_objs t) (map (ext t) Bs) = ext t (concat Bs).
Proof.
  unfold inter_all, ext at 2, ext_spec. apply filter_ext_in'. intros g Hg.
  apply in_seq in Hg. induction Bs as [|B Bs IH]; simpl; [reflexivity|].
  rewrite forallb_app, IH, ext_canon.
  replace (Nat.ltb g (height t)) with true by (symmetry; apply Nat.ltb_lt; lia). reflexivity.
Qed.

Lemma inter_all_int t As : inter_all (all_attrs t) (map (int t) As) = int t (concat As).
Proof.
  unfold inter_all, int at 2, int_spec. apply filter_ext_in'. intros m Hm.
  apply in_seq in Hm. induction As as [|A As IH]; simpl; [reflexivity|].
  rewrite forallb_app, IH, int_canon.
  replace (Nat.ltb m (width t)) with true by (symmetry; apply Nat.ltb_lt; lia). reflexivity.
Qed.

Lemma In_inter_all base sets x :
  In x (inter_all base sets) <-> In x base /\ forall s, In s sets -> In x s.
Proof.
  unfold inter_all. rewrite filter_In, forallb_forall. split; intros [H1 H2]; split; auto.
  - intros s Hs. apply mem_In. apply H2. exact Hs.
  - intros s Hs. apply mem_In. apply H2. exact Hs.
Qed.

(* the candidate set computed by meet / join is the set of common bounds *)
Lemma with_self_filter n (q : nat -> nat -> bool) (down : nat -> list nat) s :
  (forall y, y < n -> mem y (down s) = q y s) ->
  with_self n down s = filter (fun y => Nat.eqb y s || q y s) (seq 0 n).
Proof.
  intros H. unfold with_self. apply filter_ext_in'. intros y Hy. apply in_seq in Hy.
  rewrite H by lia. reflexivity.
Qed.

Lemma fold_inter_filter n (q : nat -> nat -> bool) (down : nat -> list nat) rest :
  (forall s y, y < n -> mem y (down s) = q y s) ->
  forall p,
  fold_left (fun acc s => interE Nat.eqb acc (with_self n down s)) rest (filter p (seq 0 n)) =
  filter (fun y => p y && forallb (fun s => Nat.eqb y s || q y s) rest) (seq 0 n).
Proof.
  intros H. induction rest as [|s rest IH]; intros p; simpl.
  - apply filter_ext_in'. intros y _. rewrite andb_true_r. reflexivity.
  - rewrite (with_self_filter n q down s) by (intros y Hy; apply H; exact Hy).
    unfold interE. rewrite filter_filter'. rewrite IH. apply filter_ext_in'. intros y Hy.
    change (memE Nat.eqb y ?l) with (mem y l).
    rewrite mem_filter_in by exact Hy. rewrite andb_assoc. reflexivity.
Qed.

Lemma bound_candidates_filter n (q : nat -> nat -> bool) (down : nat -> list nat) Sq :
  Sq <> [] -> (forall s y, y < n -> mem y (down s) = q y s) ->
  bound_candidates n down Sq = filter (fun y => forallb (fun s => Nat.eqb y s || q y s) Sq) (seq 0 n).
Proof.
  intros Hne H. destruct Sq as [|s0 rest]; [contradiction|]. unfold bound_candidates.
  rewrite (with_self_filter n q down s0) by (intros y Hy; apply H; exact Hy).
  rewrite (fold_inter_filter n q down rest H). reflexivity.
Qed.

Section MeetJoin.
  Variable t : table.
  Variable cs : list concept.
  Hypothesis HF : full_lattice t cs.
  Let n := length cs.
  Let HL : concept_list t cs := proj1 HF.
  Let PO := leq_i_partial_order t cs HL.

  Lemma mem_descendants s y : y < n ->
    mem y (descendants_nocache cs s) = slt Nat.eqb (leq_i cs) y s.
  Proof.
    intros Hy. unfold descendants_nocache, strict_down.
    apply (mem_filter_in (fun y0 => slt Nat.eqb (leq_i cs) y0 s)).
    apply (In_idxs cs). exact Hy.
  Qed.

  Lemma mem_ancestors s y : y < n ->
    mem y (ancestors_nocache cs s) = slt Nat.eqb (flip_leq (leq_i cs)) y s.
  Proof.
    intros Hy. unfold ancestors_nocache, strict_up, strict_down.
    apply (mem_filter_in (fun y0 => slt Nat.eqb (flip_leq (leq_i cs)) y0 s)).
    apply (In_idxs cs). exact Hy.
  Qed.

  Lemma intents_in_range Sq : (forall s, In s Sq -> s < n) ->
    in_range (width t) (concat (map (intent cs) Sq)).
  Proof.
    intros HS m Hm. apply in_concat in Hm. destruct Hm as [B [HB Hm]].
    apply in_map_iff in HB. destruct HB as [s [<- Hs]].
    rewrite (intent_eq_int t cs HL s (HS s Hs)) in Hm. apply int_in_range in Hm. exact Hm.
  Qed.

  Lemma extents_in_range Sq : (forall s, In s Sq -> s < n) ->
    in_range (height t) (concat (map (extent cs) Sq)).
  Proof.
    intros HS g Hg. apply in_concat in Hg. destruct Hg as [A [HA Hg]].
    apply in_map_iff in HA. destruct HA as [s [<- Hs]].
    rewrite (extent_eq_ext t cs HL s (HS s Hs)) in Hg. apply ext_in_range in Hg. exact Hg.
  Qed.

  Theorem meet_is_intersection Sq : Sq <> [] -> (forall s, In s Sq -> s < n) ->
    exists k, k < n /\ meet_nocache cs Sq = Some k /\
              extent cs k = inter_all (all_objs t) (map (extent cs) Sq).
  Proof.
    intros Hne HS.
    set (B0 := concat (map (intent cs) Sq)).
    assert (EA : inter_all (all_objs t) (map (extent cs) Sq) = ext t B0).
    { unfold B0. rewrite <- inter_all_ext. f_equal. rewrite map_map. apply map_ext_in.
      intros s Hs. apply (extent_eq_ext t cs HL). apply HS. exact Hs. }
    assert (HC : is_concept t (ext t B0) (int t (ext t B0))).
    { split; [|reflexivity]. symmetry. apply ext_int_ext. apply intents_in_range. exact HS. }
    destruct (concept_index t cs HF _ _ HC) as [k [Hk [Ek _]]]. fold n in Hk.
    exists k. split; [exact Hk|]. split; [|rewrite EA; exact Ek].
    unfold meet_nocache, meet_of. fold n.
    replace (match Sq with [] => seq 0 n | _ :: _ => Sq end) with Sq by (destruct Sq; [contradiction | reflexivity]).
    rewrite (bound_candidates_filter n (slt Nat.eqb (leq_i cs)) (descendants_nocache cs) Sq Hne)
      by (intros s y Hy; apply mem_descendants; exact Hy).
    change (seq 0 n) with (idxs cs).
    unfold descendants_nocache at 1.
    rewrite (extremes_loop_greatest nat Nat.eqb (leq_i cs) nat_eqb_ok (idxs cs) PO _ _ k);
      [reflexivity | apply NoDup_idxs | intros c; tauto | |].
    - (* k is a common lower bound *)
      apply filter_In. split; [apply (In_idxs cs); exact Hk|]. apply forallb_forall. intros s Hs.
      assert (Hsn := HS s Hs). apply orb_true_iff.
      assert (L : leq_i cs k s = true).
      { apply (leq_incl t cs HF); [exact Hk|]. rewrite Ek, (extent_eq_ext t cs HL s Hsn).
        apply ext_antitone. intros m Hm. unfold B0. apply in_concat. exists (intent cs s).
        split; [apply in_map; exact Hs | exact Hm]. }
      destruct (leq_cases nat Nat.eqb (leq_i cs) nat_eqb_ok (idxs cs) k s) as [->|L2]; auto.
      + apply (In_idxs cs); exact Hk.
      + apply (In_idxs cs); exact Hsn.
      + left. apply Nat.eqb_refl.
    - (* and the greatest one *)
      intros u Hu. apply filter_In in Hu. destruct Hu as [Hu Hall]. apply (In_idxs cs) in Hu.
      rewrite forallb_forall in Hall. apply (leq_incl t cs HF); [exact Hu|].
      rewrite Ek, <- EA. intros g Hg. apply In_inter_all. split.
      + apply (extent_in_range t cs HF u Hu). exact Hg.
      + intros A HA. apply in_map_iff in HA. destruct HA as [s [<- Hs]].
        assert (L : leq_i cs u s = true).
        { specialize (Hall s Hs). apply orb_true_iff in Hall. destruct Hall as [E|L].
          - apply Nat.eqb_eq in E. subst. apply PO. apply (In_idxs cs). exact Hu.
          - apply (slt_leq nat Nat.eqb (leq_i cs) nat_eqb_ok). exact L. }
        apply (leq_incl t cs HF) in L; [|exact Hu]. apply L. exact Hg.
  Qed.

  Theorem join_is_intent_intersection Sq : Sq <> [] -> (forall s, In s Sq -> s < n) ->
    exists k, k < n /\ join_nocache cs Sq = Some k /\
              intent cs k = inter_all (all_attrs t) (map (intent cs) Sq).
  Proof.
    intros Hne HS.
    set (X := concat (map (extent cs) Sq)).
    assert (EB : inter_all (all_attrs t) (map (intent cs) Sq) = int t X).
    { unfold X. rewrite <- inter_all_int. f_equal. rewrite map_map. apply map_ext_in.
      intros s Hs. apply (intent_eq_int t cs HL). apply HS. exact Hs. }
    assert (HC : is_concept t (ext t (int t X)) (int t X)).
    { split; [reflexivity|]. symmetry. apply int_ext_int. apply extents_in_range. exact HS. }
    destruct (concept_index t cs HF _ _ HC) as [k [Hk [Ek Ik]]]. fold n in Hk.
    exists k. split; [exact Hk|]. split; [|rewrite EB; exact Ik].
    unfold join_nocache, meet_of. fold n.
    replace (match Sq with [] => seq 0 n | _ :: _ => Sq end) with Sq by (destruct Sq; [contradiction | reflexivity]).
    rewrite (bound_candidates_filter n (slt Nat.eqb (flip_leq (leq_i cs))) (ancestors_nocache cs) Sq Hne)
      by (intros s y Hy; apply mem_ancestors; exact Hy).
    change (seq 0 n) with (idxs cs).
    unfold ancestors_nocache at 1. unfold strict_up.
    rewrite (extremes_loop_greatest nat Nat.eqb (flip_leq (leq_i cs)) nat_eqb_ok (idxs cs)
               (partial_order_on_flip _ _ PO) _ _ k);
      [reflexivity | apply NoDup_idxs | intros c; tauto | |].
    - (* k is a common upper bound *)
      apply filter_In. split; [apply (In_idxs cs); exact Hk|]. apply forallb_forall. intros s Hs.
      assert (Hsn := HS s Hs). apply orb_true_iff.
      assert (L : leq_i cs s k = true).
      { apply (leq_incl t cs HF); [exact Hsn|]. rewrite Ek. intros g Hg. apply ext_In. split.
        - apply (extent_in_range t cs HF s Hsn) in Hg. apply in_seq in Hg. lia.
        - intros m Hm. apply int_In in Hm. apply Hm. unfold X. apply in_concat.
          exists (extent cs s). split; [apply in_map; exact Hs | exact Hg]. }
      destruct (leq_cases nat Nat.eqb (flip_leq (leq_i cs)) nat_eqb_ok (idxs cs) k s) as [->|L2]; auto.
      + apply (In_idxs cs); exact Hk.
      + apply (In_idxs cs); exact Hsn.
      + left. apply Nat.eqb_refl.
    - (* and the least one *)
      intros u Hu. apply filter_In in Hu. destruct Hu as [Hu Hall]. apply (In_idxs cs) in Hu.
      rewrite forallb_forall in Hall. unfold flip_leq. apply (leq_incl t cs HF); [exact Hk|].
      rewrite Ek, (extent_eq_ext t cs HL u Hu). apply ext_antitone.
      rewrite (intent_eq_int t cs HL u Hu). intros m Hm. apply int_In in Hm. destruct Hm as [Hm Hall'].
      apply int_In. split; [exact Hm|]. intros g Hg. apply Hall'. unfold X in Hg.
      apply in_concat in Hg. destruct Hg as [A [HA Hg]]. apply in_map_iff in HA.
      destruct HA as [s [<- Hs]].
      assert (L : leq_i cs s u = true).
      { specialize (Hall s Hs). apply orb_true_iff in Hall. destruct Hall as [E|L].
        - apply Nat.eqb_eq in E. subst. apply PO. apply (In_idxs cs). exact Hu.
        - apply (slt_leq nat Nat.eqb (flip_leq (leq_i cs)) nat_eqb_ok) in L. exact L. }
      apply (leq_incl t cs HF) in L; [|apply HS; exact Hs]. apply L. exact Hg.
  Qed.
End MeetJoin.

(* ------------------------------------------------------------------ the hypotheses are satisfiable:
   the oracle enumeration of Spec/Closure.v is a complete, duplicate-free concept list, and so
   is its sorted listing *)
Theorem concepts_spec_full t : full_lattice t (concepts_spec t).
Proof.
  split; [split|].
  - intros [A B] Hin. apply concepts_spec_complete in Hin. apply Hin.
  - apply concepts_spec_NoDup.
  - intros A B H. apply concepts_spec_complete. split; [exact H|].
    destruct H as [_ ->]. apply int_in_range.
Qed.

Theorem listing_full t raw : full_lattice t raw ->
  full_lattice t (sort_concepts raw) /\ StronglySorted by_support (sort_concepts raw).
Proof.
  intros H. split; [|apply sizes_sorted]. eapply full_lattice_perm; [apply sort_perm | exact H].
Qed.

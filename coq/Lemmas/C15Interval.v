(* Lemmas/C15Interval.v — many-valued contexts with interval columns: the model of
   IntervalPS/MVContext equals the containment / min-max spec, the two operators form a Galois
   connection, intersections with the binary attributes keep extents closed (Sofia), the rows
   inside an axis-parallel box form a closed set when all cells are points, and the repaired
   random-forest miner returns genuine pattern concepts. *)
From Coq Require Import QArith Permutation.
From FCA Require Import Base.ListSet Model.BinTable Lemmas.BitRow Spec.Closure.
From FCA Require Import Model.Sofia Model.C15Interval Model.TreeExtents Spec.C15 Lemmas.C15Bits Lemmas.C15Sofia Lemmas.C15Formal Lemmas.C15Tree.
Local Open Scope nat_scope.

(* ------------------------------------------------------------ minima and maxima of lists *)

Lemma fold_min_lb x l v : In v (x :: l) -> (fold_right Z.min x l <= v)%Z.
Proof.
  induction l as [|y l IH]; simpl; intros H.
  - destruct H as [H|[]]. subst. lia.
  - destruct H as [H|[H|H]].
    + subst. specialize (IH (or_introl eq_refl)). lia.
    + subst. lia.
    + specialize (IH (or_intror H)). lia.
Qed.

Lemma fold_min_in x l : In (fold_right Z.min x l) (x :: l).
Proof.
  induction l as [|y l IH]; simpl; [left; reflexivity|].
  destruct (Z.min_spec y (fold_right Z.min x l)) as [[_ E]|[_ E]]; rewrite E.
  - right. left. reflexivity.
  - destruct IH as [IH|IH]; [left; exact IH|right; right; exact IH].
Qed.

Lemma fold_max_ub x l v : In v (x :: l) -> (v <= fold_right Z.max x l)%Z.
Proof.
  induction l as [|y l IH]; simpl; intros H.
  - destruct H as [H|[]]. subst. lia.
  - destruct H as [H|[H|H]].
    + subst. specialize (IH (or_introl eq_refl)). lia.
    + subst. lia.
    + specialize (IH (or_intror H)). lia.
Qed.

Lemma fold_max_in x l : In (fold_right Z.max x l) (x :: l).
Proof.
  induction l as [|y l IH]; simpl; [left; reflexivity|].
  destruct (Z.max_spec y (fold_right Z.max x l)) as [[_ E]|[_ E]]; rewrite E.
  - destruct IH as [IH|IH]; [left; exact IH|right; right; exact IH].
  - right. left. reflexivity.
Qed.

Lemma fold_min_shift a v l : fold_right Z.min (Z.min a v) l = Z.min v (fold_right Z.min a l).
Proof. induction l as [|y l IH]; simpl; [lia|]. rewrite IH. lia. Qed.
Lemma fold_max_shift a v l : fold_right Z.max (Z.max a v) l = Z.max v (fold_right Z.max a l).
Proof. induction l as [|y l IH]; simpl; [lia|]. rewrite IH. lia. Qed.

(* ------------------------------------------------------------ model = spec *)

Lemma ips_fold_spec c A a b :
  fold_left (fun acc g' =>
               let v := cellv c g' in
               ((if (fst v <? fst acc)%Z then fst v else fst acc),
                (if (snd acc <? snd v)%Z then snd v else snd acc))) A (a, b)
  = (fold_right Z.min a (map (fun g' => fst (cellv c g')) A),
     fold_right Z.max b (map (fun g' => snd (cellv c g')) A)).
Proof.
  revert a b. induction A as [|g A IH]; intros a b; simpl; [reflexivity|].
  rewrite IH. f_equal.
  - rewrite <- fold_min_shift. f_equal. destruct (Z.ltb_spec (fst (cellv c g)) a); lia.
  - rewrite <- fold_max_shift. f_equal. destruct (Z.ltb_spec b (snd (cellv c g))); lia.
Qed.

Theorem ips_intention_spec c A : ips_intention c A = col_int_spec c A.
Proof.
  destruct A as [|g A]; [reflexivity|]. unfold ips_intention, col_int_spec.
  rewrite (surjective_pairing (cellv c g)) at 1. rewrite ips_fold_spec. reflexivity.
Qed.

Theorem mv_intention_spec K A : mv_intention K A = mv_int_spec K A.
Proof. unfold mv_intention, mv_int_spec. apply map_ext. intros c. apply ips_intention_spec. Qed.

Lemma ips_extension_filter c d ext :
  ips_extension c d ext = filter (fun g => ival_in d (cellv c g)) ext.
Proof.
  destruct d as [[mn mx]|]; simpl; [reflexivity|].
  induction ext as [|x ext IH]; simpl; [reflexivity|exact IH].
Qed.

Lemma mv_ext_loop_filter K ds ext :
  mv_ext_loop K ds ext
  = filter (fun g => forallb (fun cd => ival_in (snd cd) (cellv (fst cd) g)) (combine K ds)) ext.
Proof.
  revert ds ext. induction K as [|c K IH]; intros ds ext.
  - simpl. symmetry. apply Lemmas.C01.filter_true_id.
  - destruct ds as [|d ds].
    + simpl. symmetry. apply Lemmas.C01.filter_true_id.
    + cbn [mv_ext_loop combine forallb fst snd].
      rewrite <- (filter_filter' (fun g => forallb (fun cd => ival_in (snd cd) (cellv (fst cd) g)) (combine K ds))
                                 (fun g => ival_in d (cellv c g))).
      rewrite <- ips_extension_filter.
      destruct (ips_extension c d ext) as [|x e] eqn:E; [reflexivity|]. apply IH.
Qed.

Theorem mv_extension_spec K ds : mv_extension K ds = mv_ext_spec K ds.
Proof. unfold mv_extension, mv_ext_spec, mv_covers. apply mv_ext_loop_filter. Qed.

(* ------------------------------------------------------------ the Galois connection *)

Definition covered (K : mvctx) (A : list nat) (g : nat) : Prop := mv_covers K (mv_int_spec K A) g = true.

Lemma covered_iff K A g :
  covered K A g <-> forall c, In c K -> ival_in (col_int_spec c A) (cellv c g) = true.
Proof.
  unfold covered, mv_covers, mv_int_spec. rewrite forallb_forall. split.
  - intros H c Hc. apply (H (c, col_int_spec c A)).
    clear H. induction K as [|c' K IH]; simpl in *; [contradiction|].
    destruct Hc as [Hc|Hc]; [subst; left; reflexivity|right; apply IH; exact Hc].
  - intros H [c d] Hcd. simpl.
    assert (X : In c K /\ d = col_int_spec c A).
    { clear H. revert Hcd. induction K as [|c' K IH]; simpl; [tauto|].
      intros [E|Hcd]; [inversion E; subst; split; [left|]; reflexivity|].
      destruct (IH Hcd) as [H1 H2]. split; [right; exact H1|exact H2]. }
    destruct X as [Hc E]. subst d. apply H. exact Hc.
Qed.

Lemma col_int_nil c : col_int_spec c [] = None.
Proof. reflexivity. Qed.

Lemma col_int_some c A : A <> [] -> exists mn mx, col_int_spec c A = Some (mn, mx).
Proof. destruct A as [|g A]; [congruence|]. intros _. simpl. eauto. Qed.

Lemma col_int_bounds c A mn mx g :
  col_int_spec c A = Some (mn, mx) -> In g A ->
  (mn <= fst (cellv c g))%Z /\ (snd (cellv c g) <= mx)%Z.
Proof.
  destruct A as [|g0 A]; [discriminate|]. simpl. intros E Hg. inversion E; subst; clear E. split.
  - apply fold_min_lb. destruct Hg as [Hg|Hg]; [subst; left; reflexivity|right].
    apply in_map_iff. exists g. auto.
  - apply fold_max_ub. destruct Hg as [Hg|Hg]; [subst; left; reflexivity|right].
    apply in_map_iff. exists g. auto.
Qed.

Lemma col_int_attained c A mn mx :
  col_int_spec c A = Some (mn, mx) ->
  (exists g1, In g1 A /\ fst (cellv c g1) = mn) /\ (exists g2, In g2 A /\ snd (cellv c g2) = mx).
Proof.
  destruct A as [|g0 A]; [discriminate|]. simpl. intros E. inversion E; subst; clear E. split.
  - destruct (fold_min_in (fst (cellv c g0)) (map (fun g' => fst (cellv c g')) A)) as [H|H].
    + exists g0. split; [left; reflexivity|exact H].
    + apply in_map_iff in H. destruct H as [g [E Hg]]. exists g. split; [right; exact Hg|exact E].
  - destruct (fold_max_in (snd (cellv c g0)) (map (fun g' => snd (cellv c g')) A)) as [H|H].
    + exists g0. split; [left; reflexivity|exact H].
    + apply in_map_iff in H. destruct H as [g [E Hg]]. exists g. split; [right; exact Hg|exact E].
Qed.

Lemma covered_nonempty K A g c : In c K -> covered K A g -> A <> [].
Proof.
  intros Hc H. apply covered_iff with (c := c) in H; [|exact Hc]. intros E. subst A. discriminate.
Qed.

Lemma covered_extensive K A g : In g A -> covered K A g.
Proof.
  intros Hg. apply covered_iff. intros c _.
  destruct (col_int_some c A) as [mn [mx E]]; [intros E; subst; contradiction|].
  rewrite E. destruct (col_int_bounds c A mn mx g E Hg) as [H1 H2].
  simpl. apply andb_true_iff. split; apply Z.leb_le; assumption.
Qed.

Lemma covered_monotone K A' A g : incl A' A -> A' <> [] -> covered K A' g -> covered K A g.
Proof.
  intros Hi Hne H. apply covered_iff. intros c Hc. apply covered_iff with (c := c) in H; [|exact Hc].
  destruct (col_int_some c A' Hne) as [mn' [mx' E']].
  assert (HneA : A <> []).
  { destruct A' as [|x A'']; [congruence|]. intros E. subst A. apply (Hi x). left. reflexivity. }
  destruct (col_int_some c A HneA) as [mn [mx E]].
  rewrite E' in H. rewrite E. simpl in *. apply andb_true_iff in H. destruct H as [H1 H2].
  apply Z.leb_le in H1. apply Z.leb_le in H2.
  destruct (col_int_attained c A' mn' mx' E') as [[g1 [Hg1 E1]] [g2 [Hg2 E2]]].
  destruct (col_int_bounds c A mn mx g1 E (Hi g1 Hg1)) as [B1 _].
  destruct (col_int_bounds c A mn mx g2 E (Hi g2 Hg2)) as [_ B2].
  apply andb_true_iff. split; apply Z.leb_le; lia.
Qed.

Lemma mv_ext_spec_In K ds g : In g (mv_ext_spec K ds) <-> g < mv_nobj K /\ mv_covers K ds g = true.
Proof. unfold mv_ext_spec. rewrite filter_In, in_seq. split; intros [H1 H2]; split; auto; lia. Qed.

Lemma mv_cl_In K A g : In g (mv_cl K A) <-> g < mv_nobj K /\ covered K A g.
Proof. unfold mv_cl. apply mv_ext_spec_In. Qed.

Lemma mv_cl_extensive K A : in_range (mv_nobj K) A -> incl A (mv_cl K A).
Proof. intros Hr g Hg. apply mv_cl_In. split; [apply Hr; exact Hg|apply covered_extensive; exact Hg]. Qed.

Lemma col_int_cl K A c : In c K -> in_range (mv_nobj K) A -> col_int_spec c (mv_cl K A) = col_int_spec c A.
Proof.
  intros Hc Hr. destruct A as [|g0 A'] eqn:EA.
  - assert (E : mv_cl K [] = []).
    { destruct (mv_cl K []) as [|x l] eqn:E; [reflexivity|].
      assert (Hx : In x (mv_cl K [])) by (rewrite E; left; reflexivity).
      apply mv_cl_In in Hx. destruct Hx as [_ Hx]. exfalso. apply (covered_nonempty K [] x c Hc Hx). reflexivity. }
    rewrite E. reflexivity.
  - rewrite <- EA in *. assert (HneA : A <> []) by (rewrite EA; discriminate).
    assert (Hsub : incl A (mv_cl K A)) by (apply mv_cl_extensive; exact Hr).
    assert (Hne : mv_cl K A <> []).
    { intros E. rewrite EA in Hsub. specialize (Hsub g0 (or_introl eq_refl)). rewrite <- EA, E in Hsub. contradiction. }
    destruct (col_int_some c A HneA) as [mn [mx E]].
    destruct (col_int_some c _ Hne) as [mn2 [mx2 E2]].
    rewrite E, E2. f_equal.
    destruct (col_int_attained c _ mn2 mx2 E2) as [[g1 [Hg1 E1]] [g2 [Hg2 E3]]].
    destruct (col_int_attained c A mn mx E) as [[h1 [Hh1 F1]] [h2 [Hh2 F3]]].
    apply mv_cl_In in Hg1. apply mv_cl_In in Hg2. destruct Hg1 as [_ Hg1]. destruct Hg2 as [_ Hg2].
    apply covered_iff with (c := c) in Hg1; [|exact Hc]. apply covered_iff with (c := c) in Hg2; [|exact Hc].
    rewrite E in Hg1, Hg2. simpl in Hg1, Hg2.
    apply andb_true_iff in Hg1. apply andb_true_iff in Hg2.
    destruct Hg1 as [G1 _]. destruct Hg2 as [_ G2]. apply Z.leb_le in G1. apply Z.leb_le in G2.
    destruct (col_int_bounds c _ mn2 mx2 h1 E2 (Hsub h1 Hh1)) as [B1 _].
    destruct (col_int_bounds c _ mn2 mx2 h2 E2 (Hsub h2 Hh2)) as [_ B2].
    f_equal; lia.
Qed.

(* (A'', A') is a pattern concept *)
Theorem mv_closure_is_concept K A :
  in_range (mv_nobj K) A -> mv_is_concept K (mv_cl K A) (mv_int_spec K A).
Proof.
  intros Hr. split; [reflexivity|]. unfold mv_int_spec. apply map_ext_in. intros c Hc.
  symmetry. apply col_int_cl; assumption.
Qed.

Lemma mv_is_conceptb_spec K A ds : mv_is_conceptb K A ds = true <-> mv_is_concept K A ds.
Proof.
  unfold mv_is_conceptb, mv_is_concept. rewrite andb_true_iff, nat_list_eqb_eq.
  assert (X : forall a b, descr_eqb a b = true <-> a = b).
  { apply list_eqb_eq. intros [[a1 a2]|] [[b1 b2]|]; simpl; split; intros H; try discriminate; try reflexivity.
    - unfold ival_eqb in H. simpl in H. apply andb_true_iff in H. destruct H as [H1 H2].
      apply Z.eqb_eq in H1. apply Z.eqb_eq in H2. subst. reflexivity.
    - inversion H; subst. unfold ival_eqb. simpl. rewrite !Z.eqb_refl. reflexivity. }
  rewrite X. tauto.
Qed.

(* ------------------------------------------------------------ Sofia on interval columns *)

Definition halfspace (phi : ival -> bool) : Prop :=
  forall v w1 w2, phi w1 = true -> phi w2 = true ->
                  (fst w1 <= fst v)%Z -> (snd v <= snd w2)%Z -> phi v = true.

Lemma bin_attr_halfspace c a :
  In a (ips_bin_attr_extents c) -> exists phi, halfspace phi /\ a = map phi c.
Proof.
  unfold ips_bin_attr_extents. intros H.
  apply in_app_or in H. destruct H as [H|H].
  { destruct H as [H|[]]. subst. exists (fun _ => true). split; [intros v w1 w2 _ _ _ _; reflexivity|reflexivity]. }
  apply in_app_or in H. destruct H as [H|H].
  { apply in_map_iff in H. destruct H as [lb [E _]]. subst.
    exists (fun v => (lb <=? fst v)%Z). split; [|reflexivity].
    intros v w1 w2 H1 _ H3 _. apply Z.leb_le in H1. apply Z.leb_le. lia. }
  apply in_app_or in H. destruct H as [H|H].
  { apply in_map_iff in H. destruct H as [rb [E _]]. subst.
    exists (fun v => (snd v <=? rb)%Z). split; [|reflexivity].
    intros v w1 w2 _ H2 _ H4. apply Z.leb_le in H2. apply Z.leb_le. lia. }
  destruct H as [H|[]]. subst. exists (fun _ => false). split; [intros v w1 w2 H; discriminate|reflexivity].
Qed.

Lemma mv_bin_attr_extents_In K a :
  In a (mv_bin_attr_extents K) -> exists c phi, In c K /\ halfspace phi /\ a = map phi c.
Proof.
  unfold mv_bin_attr_extents. rewrite in_flat_map. intros [c [Hc Ha]].
  destruct (bin_attr_halfspace c a Ha) as [phi [H1 H2]]. exists c, phi. auto.
Qed.

Lemma nth_map_cell (phi : ival -> bool) c g : g < length c -> nth g (map phi c) false = phi (cellv c g).
Proof. intros H. unfold cellv. apply nth_map_in. exact H. Qed.

Definition closed_row (K : mvctx) (e : extent) : Prop :=
  length e = mv_nobj K /\ forall g, g < mv_nobj K -> covered K (search1 e) g -> nth g e false = true.

Lemma closed_row_top K : closed_row K (repeat true (mv_nobj K)).
Proof. split; [apply repeat_length|]. intros g Hg _. apply nth_repeat_lt. exact Hg. Qed.

Lemma closed_row_band K e a :
  mv_wf K -> closed_row K e -> In a (mv_bin_attr_extents K) -> closed_row K (band e a).
Proof.
  intros [_ Hwf] [Hl Hc] Ha. destruct (mv_bin_attr_extents_In K a Ha) as [c [phi [HcK [Hphi E]]]].
  assert (Lc : length c = mv_nobj K) by (rewrite Forall_forall in Hwf; apply Hwf; exact HcK).
  assert (La : length a = mv_nobj K) by (subst a; rewrite map_length; exact Lc).
  split; [rewrite band_length, Hl, La; apply Nat.min_id|].
  intros g Hg Hcov. rewrite nth_band by lia.
  assert (Hsub : incl (search1 (band e a)) (search1 e)).
  { rewrite search1_band by lia. intros x Hx. apply filter_In in Hx. tauto. }
  assert (Hne : search1 (band e a) <> []) by (eapply covered_nonempty; eassumption).
  apply andb_true_iff. split.
  - apply Hc; [exact Hg|]. eapply covered_monotone; eassumption.
  - subst a. rewrite nth_map_cell by lia.
    destruct (col_int_some c _ Hne) as [mn [mx Ei]].
    apply covered_iff with (c := c) in Hcov; [|exact HcK]. rewrite Ei in Hcov. simpl in Hcov.
    apply andb_true_iff in Hcov. destruct Hcov as [C1 C2]. apply Z.leb_le in C1. apply Z.leb_le in C2.
    destruct (col_int_attained c _ mn mx Ei) as [[g1 [Hg1 E1]] [g2 [Hg2 E2]]].
    assert (P1 : forall x, In x (search1 (band e (map phi c))) -> phi (cellv c x) = true).
    { intros x Hx. pose proof (search1_lt _ _ Hx) as Lx. rewrite band_length, Hl, map_length, Lc, Nat.min_id in Lx.
      apply In_search1 in Hx. rewrite nth_band in Hx by (rewrite map_length; lia).
      apply andb_true_iff in Hx. destruct Hx as [_ Hx]. rewrite nth_map_cell in Hx by lia. exact Hx. }
    apply (Hphi (cellv c g) (cellv c g1) (cellv c g2)); [apply P1; exact Hg1|apply P1; exact Hg2|lia|lia].
Qed.

Lemma closed_row_concept K e :
  closed_row K e -> mv_is_concept K (search1 e) (mv_int_spec K (search1 e)).
Proof.
  intros [Hl Hc]. split; [|reflexivity].
  rewrite search1_filter at 1. unfold mv_ext_spec. rewrite Hl.
  apply filter_seq_ext. intros g Hg. apply bool_eq_iff. split.
  - intros H. apply covered_extensive. apply In_search1. exact H.
  - intros H. apply Hc; [exact Hg|exact H].
Qed.

Section SofiaMV.
  Variable shuffle : list extent -> list extent.
  Variable mu : list extent -> list Q.
  Hypothesis shuffle_perm : forall l, Permutation l (shuffle l).
  Variable K : mvctx.
  Hypothesis Hwf : mv_wf K.
  Variable L : nat.
  Variable min_supp : Q.

  Let n := mv_nobj K.
  Let ms := eff_min_supp min_supp n.
  Let res := sofia_mv shuffle mu K L min_supp.

  Lemma mv_attrs_len : forall a, In a (mv_bin_attr_extents K) -> length a = n.
  Proof.
    intros a Ha. destruct (mv_bin_attr_extents_In K a Ha) as [c [phi [Hc [_ E]]]]. subst a.
    rewrite map_length. destruct Hwf as [_ H]. rewrite Forall_forall in H. apply H. exact Hc.
  Qed.

  Lemma mv_Inv : Inv n ms (closed_row K) (sofia_extents shuffle mu n (mv_bin_attr_extents K) ms L).
  Proof.
    apply sofia_extents_Inv.
    - exact shuffle_perm.
    - exact mv_attrs_len.
    - apply closed_row_top.
    - intros e a _ He Ha. apply closed_row_band; assumption.
  Qed.

  Lemma mv_fst : map fst res = map search1 (sofia_extents shuffle mu n (mv_bin_attr_extents K) ms L).
  Proof. unfold res, sofia_mv. rewrite map_map. reflexivity. Qed.

  Theorem sofia_mv_genuine : forall A d, In (A, d) res -> mv_is_concept K A d.
  Proof.
    intros A d H. unfold res, sofia_mv in H. apply in_map_iff in H. destruct H as [e [E He]].
    unfold mv_from_objects in E. inversion E; subst A d; clear E.
    rewrite mv_intention_spec. apply closed_row_concept. apply (inv_P _ _ _ _ mv_Inv e He).
  Qed.

  Theorem sofia_mv_distinct : NoDup (map fst res).
  Proof. rewrite mv_fst. apply generic_distinct; [exact shuffle_perm|exact mv_attrs_len]. Qed.

  Theorem sofia_mv_support : forall A, In A (tl (map fst res)) -> (ms <= inject_Z (Z.of_nat (length A)))%Q.
  Proof. rewrite mv_fst. apply generic_support; [exact shuffle_perm|exact mv_attrs_len]. Qed.

  Hypothesis mu_len : forall l, length (mu l) = length l.

  Theorem sofia_mv_top_least :
    In (seq 0 n) (map fst res) /\
    exists A0 rest, map fst res = A0 :: rest /\ forall A, In A rest -> incl A0 A.
  Proof.
    rewrite mv_fst. split.
    - apply generic_top; [exact shuffle_perm|exact mv_attrs_len|exact mu_len].
    - apply generic_least; [exact shuffle_perm|exact mv_attrs_len|exact mu_len].
  Qed.

  Theorem sofia_mv_limit : length res <= L + 2.
  Proof.
    rewrite <- (map_length fst), mv_fst.
    apply generic_limit; [exact shuffle_perm|exact mv_attrs_len|exact mu_len].
  Qed.

  Theorem sofia_mv_is_lattice :
    let R := map fst res in
    (exists top, In top R /\ (forall A, In A R -> incl A top) /\
                 forall top', In top' R -> (forall A, In A R -> incl A top') -> top' = top) /\
    (exists bot, In bot R /\ (forall A, In A R -> incl bot A) /\
                 forall bot', In bot' R -> (forall A, In A R -> incl bot' A) -> bot' = bot).
  Proof.
    cbv zeta. rewrite mv_fst.
    apply generic_is_lattice; [exact shuffle_perm|exact mv_attrs_len|exact mu_len].
  Qed.
End SofiaMV.

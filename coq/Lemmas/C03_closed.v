(* Lemmas/C03_closed.v — the children_dict constructor path of POSet: _transpose_hierarchy and
   _closed_relation_cache_by_direct_cache.  Generic in the order: elements are numbers, [leq] is
   any partial order on the list [els], the dictionary [direct] maps every element to (a list
   with the members of) its lower covers.  Result: the loop never gets stuck and never misses a
   key, and WHEN it ends the closed dictionary holds exactly the strict down-sets.  Termination
   within 2^k rounds is not proved here (see Props/C03.v). *)
From Coq Require Import Permutation.
From FCA Require Import Base.ListSet Base.Order Model.LatticeOrder Lemmas.C03.

(* ------------------------------------------------------------------ dictionaries *)
Lemma lookup_upd_same k v a : lookup k (upd k v a) = Some v.
Proof.
  induction a as [|[k' v'] a IH]; simpl; [rewrite Nat.eqb_refl; reflexivity|].
  destruct (Nat.eqb k k') eqn:E; simpl; rewrite ?Nat.eqb_refl, ?E; auto.
Qed.

Lemma lookup_upd_other k k' v a : k <> k' -> lookup k' (upd k v a) = lookup k' a.
Proof.
  intros Hne. induction a as [|[k2 v2] a IH]; simpl.
  - destruct (Nat.eqb k' k) eqn:E; [apply Nat.eqb_eq in E; congruence | reflexivity].
  - destruct (Nat.eqb k k2) eqn:E; simpl.
    + apply Nat.eqb_eq in E. subst k2.
      destruct (Nat.eqb k' k) eqn:E2; [apply Nat.eqb_eq in E2; congruence | reflexivity].
    + destruct (Nat.eqb k' k2); [reflexivity | exact IH].
Qed.

Lemma get_upd_same k v a : get (upd k v a) k = v.
Proof. unfold get. rewrite lookup_upd_same. reflexivity. Qed.

Lemma get_upd_other k k' v a : k <> k' -> get (upd k v a) k' = get a k'.
Proof. intros H. unfold get. rewrite lookup_upd_other by exact H. reflexivity. Qed.

Definition has_key (a : assoc) (k : nat) : Prop := lookup k a <> None.

Lemma has_key_upd k v a e : has_key (upd k v a) e <-> e = k \/ has_key a e.
Proof.
  unfold has_key. destruct (Nat.eq_dec k e) as [->|Hne].
  - rewrite lookup_upd_same. split; [left; reflexivity | intros _; discriminate].
  - rewrite lookup_upd_other by exact Hne. split; [right; assumption | intros [->|H]; [contradiction | exact H]].
Qed.

Lemma In_set_add x y l : In y (set_add x l) <-> y = x \/ In y l.
Proof.
  unfold set_add. destruct (mem x l) eqn:M.
  - apply mem_In in M. split; [right; assumption | intros [->|H]; assumption].
  - rewrite in_app_iff. simpl. split; [intros [H|[H|[]]]; auto | intros [H|H]; auto].
Qed.

Lemma In_set_union x a b : In x (set_union a b) <-> In x a \/ In x b.
Proof.
  unfold set_union. rewrite in_app_iff, diff_In. split; [tauto|].
  intros [H|H]; [left; exact H|]. destruct (mem x a) eqn:M.
  - left. apply mem_In. exact M.
  - right. split; [exact H | apply mem_false_iff; exact M].
Qed.

Lemma lookup_In_NoDup k v (a : assoc) : NoDup (map fst a) -> In (k, v) a -> lookup k a = Some v.
Proof.
  induction a as [|[k' v'] a IH]; intros Hn Hin; [destruct Hin|]. simpl in *.
  inversion Hn as [|? ? Hnot Hn']; subst. destruct Hin as [E|Hin].
  - inversion E; subst. rewrite Nat.eqb_refl. reflexivity.
  - destruct (Nat.eqb k k') eqn:E.
    + apply Nat.eqb_eq in E. subst. exfalso. apply Hnot. apply in_map_iff. exists (k', v). auto.
    + apply IH; assumption.
Qed.

Lemma lookup_Some_In k v (a : assoc) : lookup k a = Some v -> In (k, v) a.
Proof.
  induction a as [|[k' v'] a IH]; simpl; [discriminate|].
  destruct (Nat.eqb k k') eqn:E.
  - apply Nat.eqb_eq in E. subst. intros H. inversion H. left. reflexivity.
  - intros H. right. apply IH. exact H.
Qed.

Lemma has_key_In k (a : assoc) : has_key a k <-> In k (map fst a).
Proof.
  unfold has_key. induction a as [|[k' v'] a IH]; simpl; [split; [congruence | intros []]|].
  destruct (Nat.eqb k k') eqn:E.
  - apply Nat.eqb_eq in E. subst. split; [left; reflexivity | intros _; discriminate].
  - apply Nat.eqb_neq in E. rewrite IH. split; [right; assumption | intros [H|H]; [congruence | exact H]].
Qed.

Lemma In_keys_upd k v a x : In x (map fst (upd k v a)) <-> x = k \/ In x (map fst a).
Proof. rewrite <- !has_key_In. apply has_key_upd. Qed.

Lemma NoDup_keys_upd k v a : NoDup (map fst a) -> NoDup (map fst (upd k v a)).
Proof.
  induction a as [|[k' v'] a IH]; simpl; intros Hn; [repeat constructor; intros []|].
  inversion Hn as [|? ? Hnot Hn']; subst.
  destruct (Nat.eqb k k') eqn:E; simpl.
  - apply Nat.eqb_eq in E. subst. constructor; assumption.
  - apply Nat.eqb_neq in E. constructor; [|apply IH; exact Hn'].
    rewrite In_keys_upd. intros [H|H]; [congruence | contradiction].
Qed.

(* ------------------------------------------------------------------ _transpose_hierarchy *)
Definition addk (k : nat) (nw : assoc) (v : nat) : assoc := upd v (set_add k (get nw v)) nw.
Definition ensure (k : nat) (new : assoc) : assoc :=
  match lookup k new with None => upd k [] new | Some _ => new end.
Definition tstep (new : assoc) (kv : nat * list nat) : assoc :=
  fold_left (addk (fst kv)) (snd kv) (ensure (fst kv) new).

Lemma transpose_unfold h : transpose_hierarchy h = fold_left tstep h [].
Proof. reflexivity. Qed.

Lemma get_addk k nw v e p :
  In p (get (addk k nw v) e) <-> In p (get nw e) \/ (p = k /\ e = v).
Proof.
  unfold addk. destruct (Nat.eq_dec v e) as [->|Hne].
  - rewrite get_upd_same, In_set_add. split; [intros [H|H]; auto | intros [H|[H _]]; auto].
  - rewrite get_upd_other by exact Hne. split; [auto | intros [H|[_ H]]; [exact H | congruence]].
Qed.

Lemma get_inner k vs : forall nw e p,
  In p (get (fold_left (addk k) vs nw) e) <-> In p (get nw e) \/ (p = k /\ In e vs).
Proof.
  induction vs as [|v vs IH]; intros nw e p; simpl; [tauto|].
  rewrite IH, get_addk. split.
  - intros [[H|[H1 H2]]|[H1 H2]]; auto.
  - intros [H|[H1 [H2|H2]]]; auto.
Qed.

Lemma get_ensure k new e : get (ensure k new) e = get new e.
Proof.
  unfold ensure. destruct (lookup k new) eqn:L; [reflexivity|].
  destruct (Nat.eq_dec k e) as [->|Hne].
  - rewrite get_upd_same. unfold get. rewrite L. reflexivity.
  - apply get_upd_other. exact Hne.
Qed.

Lemma get_tstep new kv e p :
  In p (get (tstep new kv) e) <-> In p (get new e) \/ (p = fst kv /\ In e (snd kv)).
Proof. unfold tstep. rewrite get_inner, get_ensure. reflexivity. Qed.

Lemma get_fold_tstep h : forall new e p,
  In p (get (fold_left tstep h new) e) <->
  In p (get new e) \/ exists vs, In (p, vs) h /\ In e vs.
Proof.
  induction h as [|[k vs] h IH]; intros new e p; simpl.
  - split; [auto | intros [H|[vs [[] _]]]; exact H].
  - rewrite IH, get_tstep. simpl. split.
    + intros [[H|[-> H]]|[vs' [H1 H2]]]; auto.
      * right. exists vs. auto.
      * right. exists vs'. auto.
    + intros [H|[vs' [[E|H1] H2]]]; auto.
      * inversion E; subst. left. right. auto.
      * right. exists vs'. auto.
Qed.

Theorem get_transpose h e p :
  In p (get (transpose_hierarchy h) e) <-> exists vs, In (p, vs) h /\ In e vs.
Proof.
  rewrite transpose_unfold, get_fold_tstep. unfold get. simpl. split; [intros [[]|H]; exact H | auto].
Qed.

Lemma has_key_inner k vs : forall nw e, has_key nw e -> has_key (fold_left (addk k) vs nw) e.
Proof.
  induction vs as [|v vs IH]; intros nw e H; simpl; [exact H|].
  apply IH. unfold addk. apply has_key_upd. right. exact H.
Qed.

Lemma has_key_ensure k new e : (e = k \/ has_key new e) -> has_key (ensure k new) e.
Proof.
  unfold ensure. intros [->|H].
  - destruct (lookup k new) eqn:L; [unfold has_key; congruence | apply has_key_upd; left; reflexivity].
  - destruct (lookup k new) eqn:L; [exact H | apply has_key_upd; right; exact H].
Qed.

Lemma has_key_fold_tstep h : forall new e,
  (has_key new e \/ In e (map fst h)) -> has_key (fold_left tstep h new) e.
Proof.
  induction h as [|[k vs] h IH]; intros new e H; simpl in *.
  - destruct H as [H|[]]. exact H.
  - apply IH. destruct H as [H|[->|H]]; auto.
    + left. unfold tstep. apply has_key_inner. apply has_key_ensure. right. exact H.
    + left. unfold tstep. apply has_key_inner. apply has_key_ensure. left. reflexivity.
Qed.

Lemma NoDup_set_add x l : NoDup l -> NoDup (set_add x l).
Proof.
  intros H. unfold set_add. destruct (mem x l) eqn:M; [exact H|].
  apply mem_false_iff in M. apply NoDup_rev in H. rewrite <- (rev_involutive (l ++ [x])).
  apply NoDup_rev. rewrite rev_app_distr. simpl. constructor; [rewrite <- in_rev; exact M | exact H].
Qed.

Lemma NoDup_values_inner k vs : forall nw,
  (forall e, NoDup (get nw e)) -> forall e, NoDup (get (fold_left (addk k) vs nw) e).
Proof.
  induction vs as [|v vs IH]; intros nw H e; simpl; [apply H|]. apply IH. intros e'.
  unfold addk. destruct (Nat.eq_dec v e') as [->|Hne].
  - rewrite get_upd_same. apply NoDup_set_add. apply H.
  - rewrite get_upd_other by exact Hne. apply H.
Qed.

Lemma NoDup_values_fold_tstep h : forall new,
  (forall e, NoDup (get new e)) -> forall e, NoDup (get (fold_left tstep h new) e).
Proof.
  induction h as [|kv h IH]; intros new H e; simpl; [apply H|]. apply IH. intros e'.
  unfold tstep. apply NoDup_values_inner. intros e''. rewrite get_ensure. apply H.
Qed.

Lemma NoDup_values_transpose h e : NoDup (get (transpose_hierarchy h) e).
Proof. rewrite transpose_unfold. apply NoDup_values_fold_tstep. intros e'. constructor. Qed.

Theorem has_key_transpose h e : In e (map fst h) -> has_key (transpose_hierarchy h) e.
Proof. intros H. rewrite transpose_unfold. apply has_key_fold_tstep. right. exact H. Qed.

(* ------------------------------------------------------------------ the closure loop *)
Lemma find_ready_some direct visited tv e :
  find_ready direct visited tv = Some e -> In e tv /\ incl (get direct e) visited.
Proof.
  induction tv as [|x tv IH]; simpl; [discriminate|].
  destruct (subsetb (get direct x) visited) eqn:S.
  - intros H. inversion H; subst. split; [left; reflexivity | apply subsetb_incl; exact S].
  - intros H. destruct (IH H). split; [right; assumption | assumption].
Qed.

Lemma find_ready_none direct visited tv :
  find_ready direct visited tv = None -> forall e, In e tv -> ~ incl (get direct e) visited.
Proof.
  induction tv as [|x tv IH]; simpl; [intros _ e []|].
  destruct (subsetb (get direct x) visited) eqn:S; [discriminate|].
  intros H e [<-|He]; [|apply IH; assumption].
  intros Hi. apply subsetb_incl in Hi. congruence.
Qed.

Lemma In_remove_first x e l : In x l -> x <> e -> In x (remove_first e l).
Proof.
  induction l as [|y l IH]; simpl; [auto|]. intros [->|H] Hne.
  - destruct (Nat.eqb e x) eqn:E; [apply Nat.eqb_eq in E; congruence | left; reflexivity].
  - destruct (Nat.eqb e y); [exact H | right; apply IH; assumption].
Qed.

Lemma remove_first_incl e l : incl (remove_first e l) l.
Proof.
  induction l as [|y l IH]; simpl; [apply incl_refl|].
  destruct (Nat.eqb e y); [apply incl_tl, incl_refl|].
  intros x [->|H]; [left; reflexivity | right; apply IH; exact H].
Qed.

Lemma union_closed_some closed rels : forall acc,
  (forall r, In r rels -> exists v, lookup r closed = Some v) ->
  exists v, union_closed closed rels acc = Some v /\
            forall y, In y v <-> In y acc \/ exists r, In r rels /\ In y (get closed r).
Proof.
  induction rels as [|r rels IH]; intros acc H; simpl.
  - exists acc. split; [reflexivity|]. intros y. split; [auto | intros [Hy|[r [[] _]]]; exact Hy].
  - destruct (H r (or_introl eq_refl)) as [v Hv]. rewrite Hv.
    destruct (IH (set_union acc v)) as [w [Hw Hmem]]; [intros r' Hr'; apply H; right; exact Hr'|].
    exists w. split; [exact Hw|]. intros y. rewrite Hmem, In_set_union. split.
    + intros [[Hy|Hy]|[r' [Hr' Hy]]]; auto.
      * right. exists r. split; [left; reflexivity|]. unfold get. rewrite Hv. exact Hy.
      * right. exists r'. split; [right; exact Hr' | exact Hy].
    + intros [Hy|[r' [[<-|Hr'] Hy]]]; auto.
      * left. right. unfold get in Hy. rewrite Hv in Hy. exact Hy.
      * right. exists r'. auto.
Qed.

Section Closure.
  Variable leq : nat -> nat -> bool.
  Variable els : list nat.
  Hypothesis PO : partial_order_on leq els.
  Variable direct : assoc.
  Hypothesis Hnodup : NoDup (map fst direct).
  Hypothesis Hkeys : forall x, In x els <-> In x (map fst direct).
  Hypothesis Hcov : forall x, In x els ->
    forall y, In y (get direct x) <-> In y (lower_covers Nat.eqb leq els x).
  Variable ord : list nat -> list nat.
  Hypothesis Hord : forall l x, In x (ord l) <-> In x l.

  Let trans := transpose_hierarchy direct.
  Let down := strict_down Nat.eqb leq els.

  Definition good_value (closed : assoc) (e : nat) : Prop :=
    exists v, lookup e closed = Some v /\ forall y, In y v <-> In y (down e).

  Record Inv (s : cstate) : Prop := {
    inv_visited : forall e, In e (cs_visited s) -> In e els /\ good_value (cs_closed s) e;
    inv_tv : forall e, In e (cs_to_visit s) -> In e els;
    inv_front : forall x, In x els ->
        (get direct x = [] \/ exists c, In c (get direct x) /\ In c (cs_visited s)) ->
        In x (cs_visited s) \/ In x (cs_to_visit s);
    inv_ready : forall e, In e (cs_visited s) -> incl (get direct e) (cs_visited s);
    inv_keys : NoDup (map fst (cs_closed s)) /\ forall k, In k (map fst (cs_closed s)) -> In k els
  }.

  Definition Post (closed : assoc) : Prop :=
    (forall x, In x els -> good_value closed x) /\
    NoDup (map fst closed) /\ forall k, In k (map fst closed) -> In k els.

  Lemma covers_in_els x c : In x els -> In c (get direct x) -> In c els /\ slt Nat.eqb leq c x = true.
  Proof.
    intros Hx Hc. apply (Hcov x Hx) in Hc. apply In_lower_covers in Hc. tauto.
  Qed.

  Lemma direct_pair p vs : In (p, vs) direct -> In p els /\ vs = get direct p.
  Proof.
    intros H. split.
    - apply Hkeys. apply in_map_iff. exists (p, vs). auto.
    - unfold get. rewrite (lookup_In_NoDup p vs direct Hnodup H). reflexivity.
  Qed.

  Lemma trans_members e p : In p (get trans e) <-> In p els /\ In e (get direct p).
  Proof.
    unfold trans. rewrite get_transpose. split.
    - intros [vs [H1 H2]]. destruct (direct_pair p vs H1) as [Hp ->]. auto.
    - intros [Hp He]. exists (get direct p). split; [|exact He].
      apply Hkeys in Hp. apply has_key_In in Hp. unfold has_key in Hp.
      destruct (lookup p direct) as [v|] eqn:L; [|congruence].
      unfold get. rewrite L. apply lookup_Some_In. exact L.
  Qed.

  (* every element is visited once nothing is left to visit *)
  Lemma all_visited s : Inv s -> cs_to_visit s = [] -> forall x, In x els -> In x (cs_visited s).
  Proof.
    intros HI Hemp.
    apply (order_induction nat Nat.eqb leq nat_eqb_ok els PO (fun x => In x (cs_visited s))).
    intros x Hx IH.
    destruct (inv_front s HI x Hx) as [H|H]; [|exact H|rewrite Hemp in H; destruct H].
    destruct (get direct x) as [|c rest] eqn:G; [left; reflexivity|].
    right. exists c. split; [left; reflexivity|].
    assert (Hc : In c (get direct x)) by (rewrite G; left; reflexivity).
    destruct (covers_in_els x c Hx Hc) as [Hce L]. apply IH; assumption.
  Qed.

  (* some element waiting to be visited has all its covers visited *)
  Lemma ready_exists s : Inv s -> forall x, In x (cs_to_visit s) ->
    exists e, In e (cs_to_visit s) /\ incl (get direct e) (cs_visited s).
  Proof.
    intros HI x0 Hx0.
    assert (G : forall x, In x els -> ~ In x (cs_visited s) ->
                exists e, In e (cs_to_visit s) /\ incl (get direct e) (cs_visited s)).
    { apply (order_induction nat Nat.eqb leq nat_eqb_ok els PO
               (fun x => ~ In x (cs_visited s) ->
                         exists e, In e (cs_to_visit s) /\ incl (get direct e) (cs_visited s))).
      intros x Hx IH Hnv.
      destruct (forallb (fun c => mem c (cs_visited s)) (get direct x)) eqn:F.
      - rewrite forallb_forall in F. exists x. split.
        + destruct (inv_front s HI x Hx) as [H|H]; [|contradiction|exact H].
          destruct (get direct x) as [|c rest] eqn:Gx; [left; reflexivity|].
          right. exists c. split; [left; reflexivity|]. apply mem_In. apply F. left. reflexivity.
        + intros c Hc. apply mem_In. apply F. exact Hc.
      - assert (exists c, In c (get direct x) /\ ~ In c (cs_visited s)) as [c [Hc Hcv]].
        { clear -F. induction (get direct x) as [|c l IHl]; simpl in F; [discriminate|].
          destruct (mem c (cs_visited s)) eqn:M.
          - destruct (IHl F) as [c' [H1 H2]]. exists c'. split; [right; exact H1 | exact H2].
          - exists c. split; [left; reflexivity | apply mem_false_iff; exact M]. }
        destruct (covers_in_els x c Hx Hc) as [Hce L]. apply (IH c Hce L Hcv). }
    destruct (mem x0 (cs_visited s)) eqn:M.
    - apply mem_In in M. exists x0. split; [exact Hx0 | apply (inv_ready s HI); exact M].
    - apply mem_false_iff in M. apply (G x0); [apply (inv_tv s HI); exact Hx0 | exact M].
  Qed.

  Lemma good_value_upd closed e v x :
    good_value closed x -> (x = e -> forall y, In y v <-> In y (down e)) -> good_value (upd e v closed) x.
  Proof.
    intros [w [Hw Hm]] He. unfold good_value. destruct (Nat.eq_dec e x) as [->|Hne].
    - exists v. rewrite lookup_upd_same. split; [reflexivity | apply He; reflexivity].
    - exists w. rewrite lookup_upd_other by exact Hne. auto.
  Qed.

  Lemma step_ok s : Inv s ->
    match closed_step ord direct trans s with
    | inl s' => Inv s'
    | inr (CDone a) => Post a
    | inr _ => False
    end.
  Proof.
    intros HI. unfold closed_step.
    destruct (cs_to_visit s) as [|x0 tv0] eqn:TV.
    - split; [|exact (inv_keys s HI)].
      intros x Hx. apply (inv_visited s HI). apply all_visited; assumption.
    - rewrite <- TV.
      destruct (find_ready direct (cs_visited s) (cs_to_visit s)) as [e|] eqn:FR.
      2:{ destruct (ready_exists s HI x0) as [e [He Hr]]; [rewrite TV; left; reflexivity|].
          apply (find_ready_none _ _ _ FR e He Hr). }
      destruct (find_ready_some _ _ _ _ FR) as [Hetv Hready].
      assert (Hee : In e els) by (apply (inv_tv s HI); exact Hetv).
      destruct (union_closed_some (cs_closed s) (get direct e) (get direct e)) as [v [Hv Hmem]].
      { intros r Hr. destruct (inv_visited s HI r (Hready r Hr)) as [_ [w [Hw _]]]. exists w. exact Hw. }
      rewrite Hv.
      assert (Hgood : forall y, In y v <-> In y (down e)).
      { intros y. rewrite Hmem. unfold down.
        rewrite (strict_down_via_covers nat Nat.eqb leq nat_eqb_ok els PO e Hee y).
        rewrite <- (Hcov e Hee y). split.
        - intros [H|[r [Hr Hy]]]; [left; exact H|]. right. exists r. split; [apply (Hcov e Hee); exact Hr|].
          destruct (inv_visited s HI r (Hready r Hr)) as [_ [w [Hw Hwm]]].
          unfold get in Hy. rewrite Hw in Hy. apply Hwm. exact Hy.
        - intros [H|[r [Hr Hy]]]; [left; exact H|]. right. apply (Hcov e Hee) in Hr. exists r. split; [exact Hr|].
          destruct (inv_visited s HI r (Hready r Hr)) as [_ [w [Hw Hwm]]].
          unfold get. rewrite Hw. apply Hwm. exact Hy. }
      assert (Hk : has_key trans e).
      { unfold trans. apply has_key_transpose. apply Hkeys. exact Hee. }
      unfold has_key in Hk. destruct (lookup e trans) as [ps|] eqn:LT; [|congruence].
      assert (Hps : forall p, In p ps <-> In p els /\ In e (get direct p)).
      { intros p. rewrite <- trans_members. unfold get. rewrite LT. reflexivity. }
      constructor; simpl.
      + intros x Hx. apply In_set_add in Hx. destruct Hx as [->|Hx].
        * split; [exact Hee|]. exists v. rewrite lookup_upd_same. split; [reflexivity | exact Hgood].
        * destruct (inv_visited s HI x Hx) as [Hxe Hg]. split; [exact Hxe|].
          apply good_value_upd; [exact Hg | intros _; exact Hgood].
      + intros x Hx. apply in_app_iff in Hx. destruct Hx as [Hx|Hx].
        * apply (inv_tv s HI). apply (remove_first_incl e). exact Hx.
        * apply (proj1 (Hord _ _)) in Hx. apply Hps in Hx. tauto.
      + intros x Hx Hc.
        assert (Hold : (get direct x = [] \/ exists c, In c (get direct x) /\ In c (cs_visited s)) \/
                       In e (get direct x)).
        { destruct Hc as [Hc|[c [Hc1 Hc2]]]; [left; left; exact Hc|].
          apply In_set_add in Hc2. destruct Hc2 as [->|Hc2]; [right; exact Hc1|].
          left. right. exists c. auto. }
        destruct Hold as [Hold|Hnew].
        * destruct (inv_front s HI x Hx Hold) as [H|H].
          -- left. apply In_set_add. right. exact H.
          -- destruct (Nat.eq_dec x e) as [->|Hne].
             ++ left. apply In_set_add. left. reflexivity.
             ++ right. apply in_app_iff. left. apply In_remove_first; assumption.
        * right. apply in_app_iff. right. apply Hord. apply Hps. auto.
      + intros x Hx c Hc. apply In_set_add. apply In_set_add in Hx. destruct Hx as [->|Hx].
        * right. apply Hready. exact Hc.
        * right. apply (inv_ready s HI x Hx). exact Hc.
      + destruct (inv_keys s HI) as [K1 K2]. split; [apply NoDup_keys_upd; exact K1|].
        intros k0 Hk0. apply In_keys_upd in Hk0. destruct Hk0 as [->|Hk0]; [exact Hee | apply K2; exact Hk0].
  Qed.

  Lemma run_ok k : forall s, Inv s ->
    match closed_run ord direct trans k s with
    | inl s' => Inv s'
    | inr (CDone a) => Post a
    | inr _ => False
    end.
  Proof.
    induction k as [|k IH]; intros s HI; simpl; [apply step_ok; exact HI|].
    assert (H1 := IH s HI). destruct (closed_run ord direct trans k s) as [s'|r]; [|exact H1].
    apply IH. exact H1.
  Qed.

  Lemma init_inv :
    Inv {| cs_to_visit := map fst (filter (fun kv => match snd kv with [] => true | _ => false end) direct);
           cs_visited := []; cs_closed := [] |}.
  Proof.
    constructor; simpl.
    - intros e [].
    - intros e He. apply in_map_iff in He. destruct He as [[k v] [<- Hin]]. apply filter_In in Hin.
      apply Hkeys. apply in_map_iff. exists (k, v). tauto.
    - intros x Hx [Hg|[c [_ []]]]. right.
      apply Hkeys in Hx. apply has_key_In in Hx. unfold has_key in Hx.
      destruct (lookup x direct) as [v|] eqn:L; [|congruence].
      assert (v = []) by (unfold get in Hg; rewrite L in Hg; exact Hg). subst v.
      apply in_map_iff. exists (x, []). split; [reflexivity|]. apply filter_In.
      split; [apply lookup_Some_In; exact L | reflexivity].
    - intros e [].
    - split; [constructor | intros k []].
  Qed.

  (* the loop never gets stuck, never misses a key, and when it ends (within the 2^(k+1) rounds
     allowed) the closed dictionary holds exactly the strict down-sets *)
  Theorem closed_by_direct_partial k :
    match closed_relation ord k direct with
    | CDone a => (forall x, In x els ->
                  exists v, lookup x a = Some v /\
                            forall y, In y v <-> In y (strict_down Nat.eqb leq els x)) /\
                 NoDup (map fst a) /\ (forall k, In k (map fst a) -> In k els)
    | COutOfFuel => True
    | _ => False
    end.
  Proof.
    unfold closed_relation. assert (H := run_ok k _ init_inv). fold trans.
    destruct (closed_run ord direct trans k _) as [s'|r]; [exact I|].
    destruct r; try exact H; exact I.
  Qed.

  (* ---------------------------------------------------------------- termination.
     Phi x = number of upward paths of cover steps starting at x; one round removes one
     occurrence of e from the waiting list and appends the upper covers of e, so the sum of
     Phi over the waiting list drops by exactly one per round. *)
  Hypothesis Hndels : NoDup els.
  Hypothesis Hperm : forall l, Permutation (ord l) l.

  Let ups := upper_covers Nat.eqb leq els.
  Let anc := strict_up Nat.eqb leq els.

  Fixpoint paths_from (d : nat) (x : nat) : nat :=
    match d with
    | 0 => 1
    | S d' => 1 + list_sum (map (paths_from d') (ups x))
    end.
  Definition Phi (x : nat) : nat := paths_from (length els) x.
  Definition Psi (tv : list nat) : nat := list_sum (map Phi tv).

  Lemma ups_in_anc x p : In p (ups x) -> In p (anc x).
  Proof. apply (lower_covers_sub nat Nat.eqb (flip_leq leq)). Qed.

  Lemma anc_decrease x p : In x els -> In p (ups x) -> length (anc p) < length (anc x).
  Proof.
    intros Hx Hp. apply (In_upper_covers Nat.eqb leq nat_eqb_ok) in Hp. destruct Hp as [Hpe [Lxp _]].
    unfold anc, strict_up, strict_down. apply (filter_length_lt _ _ els p).
    - intros a Ha La. rewrite (slt_flip Nat.eqb leq nat_eqb_ok) in *.
      apply (slt_trans nat Nat.eqb leq nat_eqb_ok els PO x p a); auto.
    - exact Hpe.
    - rewrite (slt_flip Nat.eqb leq nat_eqb_ok). exact Lxp.
    - apply slt_irrefl. exact nat_eqb_ok.
  Qed.

  Lemma ups_els x p : In p (ups x) -> In p els.
  Proof. intros Hp. apply (In_upper_covers Nat.eqb leq nat_eqb_ok) in Hp. tauto. Qed.

  Lemma paths_stable : forall d x, In x els -> length (anc x) <= d ->
    paths_from d x = paths_from (length (anc x)) x.
  Proof.
    induction d as [d IH] using lt_wf_ind. intros x Hx Hd.
    assert (Hsum : forall a, length (anc x) <= S a -> S a <= d ->
              list_sum (map (paths_from a) (ups x)) =
              list_sum (map (fun p => paths_from (length (anc p)) p) (ups x))).
    { intros a Ha Had. f_equal. apply map_ext_in. intros p Hp.
      assert (L := anc_decrease x p Hx Hp).
      apply IH; [lia | apply (ups_els x); exact Hp | lia]. }
    destruct (length (anc x)) as [|a] eqn:La.
    - destruct d as [|d]; [reflexivity|]. simpl.
      assert (E : ups x = []).
      { destruct (ups x) as [|p l] eqn:U; [reflexivity|]. exfalso.
        assert (Hp : In p (anc x)) by (apply ups_in_anc; rewrite U; left; reflexivity).
        destruct (anc x); [destruct Hp | discriminate]. }
      rewrite E. reflexivity.
    - destruct d as [|d]; [lia|]. simpl.
      rewrite (Hsum d) by lia. rewrite (Hsum a) by lia. reflexivity.
  Qed.

  Lemma anc_length_le x : length (anc x) <= length els.
  Proof. unfold anc, strict_up, strict_down. apply filter_length_le. Qed.

  Lemma Phi_rec x : In x els -> Phi x = 1 + list_sum (map Phi (ups x)).
  Proof.
    intros Hx. unfold Phi.
    rewrite (paths_stable (length els) x Hx (anc_length_le x)).
    rewrite <- (paths_stable (S (length els)) x Hx) by (pose proof (anc_length_le x); lia).
    reflexivity.
  Qed.

  Lemma Phi_pos x : 1 <= Phi x.
  Proof. unfold Phi. destruct (length els); simpl; lia. Qed.

  Lemma Psi_app a b : Psi (a ++ b) = Psi a + Psi b.
  Proof. unfold Psi. rewrite map_app, list_sum_app. reflexivity. Qed.

  Lemma Psi_perm a b : Permutation a b -> Psi a = Psi b.
  Proof.
    unfold Psi. induction 1; simpl; try lia.
  Qed.

  Lemma Psi_remove_first e tv : In e tv -> Psi (remove_first e tv) + Phi e = Psi tv.
  Proof.
    unfold Psi. induction tv as [|y tv IH]; intros H; [destruct H|]. simpl.
    destruct (Nat.eqb e y) eqn:E.
    - apply Nat.eqb_eq in E. subst. lia.
    - apply Nat.eqb_neq in E. destruct H as [H|H]; [congruence|]. simpl. specialize (IH H). lia.
  Qed.

  Lemma NoDup_ups x : NoDup (ups x).
  Proof. unfold ups, upper_covers, lower_covers. apply NoDup_filter. exact Hndels. Qed.

  Lemma trans_is_ups e : In e els -> Permutation (get trans e) (ups e).
  Proof.
    intros He. apply NoDup_Permutation; [apply NoDup_values_transpose | apply NoDup_ups|].
    intros p. rewrite trans_members. unfold ups. rewrite (In_upper_covers Nat.eqb leq nat_eqb_ok). split.
    - intros [Hp H]. apply (Hcov p Hp) in H. apply In_lower_covers in H. tauto.
    - intros [Hp H]. split; [exact Hp|]. apply (Hcov p Hp). apply In_lower_covers. tauto.
  Qed.

  Lemma step_measure s s' : Inv s -> closed_step ord direct trans s = inl s' ->
    Psi (cs_to_visit s') + 1 = Psi (cs_to_visit s).
  Proof.
    intros HI. unfold closed_step.
    destruct (cs_to_visit s) as [|x0 tv0] eqn:TV; [discriminate|]. rewrite <- TV.
    destruct (find_ready direct (cs_visited s) (cs_to_visit s)) as [e|] eqn:FR; [|discriminate].
    destruct (find_ready_some _ _ _ _ FR) as [Hetv _].
    assert (Hee : In e els) by (apply (inv_tv s HI); exact Hetv).
    destruct (union_closed (cs_closed s) (get direct e) (get direct e)); [|discriminate].
    destruct (lookup e trans) as [ps|] eqn:LT; [|discriminate].
    intros H. inversion H. simpl.
    assert (Gps : get trans e = ps) by (unfold get; rewrite LT; reflexivity).
    rewrite Psi_app, (Psi_perm _ _ (Hperm ps)), <- Gps, (Psi_perm _ _ (trans_is_ups e Hee)).
    assert (R := Psi_remove_first e (cs_to_visit s) Hetv).
    assert (P := Phi_rec e Hee). unfold Psi in *. lia.
  Qed.

  Lemma run_measure k : forall s, Inv s ->
    match closed_run ord direct trans k s with
    | inl s' => Psi (cs_to_visit s') + 2 ^ k = Psi (cs_to_visit s)
    | inr _ => True
    end.
  Proof.
    induction k as [|k IH]; intros s HI.
    - simpl. destruct (closed_step ord direct trans s) as [s'|r] eqn:ST; [|exact I].
      apply step_measure; assumption.
    - cbn [closed_run]. assert (H1 := IH s HI). assert (I1 := run_ok k s HI).
      destruct (closed_run ord direct trans k s) as [s1|r]; [|exact I].
      assert (H2 := IH s1 I1). destruct (closed_run ord direct trans k s1) as [s2|r]; [|exact I].
      rewrite Nat.pow_succ_r'. lia.
  Qed.

  (* total correctness: with enough rounds the loop ends and returns the strict down-sets *)
  Theorem closed_by_direct_total :
    exists k a, closed_relation ord k direct = CDone a /\
      (forall x, In x els ->
         exists v, lookup x a = Some v /\
                   forall y, In y v <-> In y (strict_down Nat.eqb leq els x)) /\
      NoDup (map fst a) /\ (forall x, In x (map fst a) -> In x els).
  Proof.
    pose (start := {| cs_to_visit := map fst (filter (fun kv => match snd kv with [] => true | _ => false end) direct);
                      cs_visited := []; cs_closed := [] |}).
    pose (K := Psi (cs_to_visit start)).
    assert (HM := run_measure K start init_inv).
    assert (HR := run_ok K start init_inv).
    assert (E : closed_relation ord K direct =
                match closed_run ord direct trans K start with inl _ => COutOfFuel | inr r => r end)
      by reflexivity.
    destruct (closed_run ord direct trans K start) as [s'|r].
    - exfalso. pose proof (Nat.pow_gt_lin_r 2 K). unfold K in *. lia.
    - destruct r as [a| | |]; try contradiction.
      exists K, a. split; [exact E | exact HR].
  Qed.
End Closure.

(* Lemmas/C14_Order.v — C14 lattice_order: the cover relation of the lattice object built from a
   many-valued context is the relation of lower covers w.r.t. extent inclusion.  Instantiates
   Lemmas/C03.v (children_spec / parents_spec / leq_spec, themselves on Base/Order.v) at the
   membership table of the extents. *)
From FCA Require Import Base.ListSet Base.Order Model.MVContext Spec.MVLatticeSpec Spec.LatticeOrderSpec
     Lemmas.C03 Lemmas.C13 Lemmas.C14 Lemmas.C14_Lattice Lemmas.C14_Objectwise.
From FCA Require Import Lemmas.C02 Lemmas.C02_Sofia Lemmas.C02_CbO Lemmas.C02_CbOModel Lemmas.C02_CloseByOne.
From Coq Require Import Permutation.


(* ------------------------------------------------------------------ the cover relation of ANY
   list of extent tuples that are duplicate-free, in range and pairwise different as sets is the
   relation of lower covers w.r.t. inclusion.  Lemmas/C03.v proves this for the concepts of a
   boolean table; the table used here is the membership table of the extents themselves, in
   which every one of them is an extent. *)
Section GenericOrder.
Variable n : nat.
Variable exts : list (list nat).
Hypothesis Hgood : forall E, In E exts -> NoDup E /\ in_range n E.
Hypothesis Hnd : NoDup (map (canon_set n) exts).

Let cexts := map (canon_set n) exts.
Let T : table := map (fun g => map (fun E => mem g E) cexts) (seq 0 n).
Let cs_raw : list concept := map (fun E => (E, @nil nat)) exts.
Let cs' : list concept := map (fun E => (canon_set n E, int T (canon_set n E))) exts.

Lemma T_height : height T = n.
Proof. unfold height, T. rewrite map_length, seq_length. reflexivity. Qed.

Lemma T_incidence g j : g < n -> I T g j = mem g (nth j cexts []).
Proof.
  intros Hg. unfold I, cell, row, T.
  rewrite (nth_map_seq (fun g => map (fun E => mem g E) cexts) n g [] Hg).
  change false with ((fun E => mem g E) []). apply map_nth.
Qed.

Lemma canon_mem E g : g < n -> mem g (canon_set n E) = mem g E.
Proof. intros Hg. unfold canon_set. apply mem_filter_seq. exact Hg. Qed.

Lemma T_width_ge j : j < length cexts -> n <> 0 -> j < width T.
Proof.
  intros Hj Hn. unfold width, T. destruct n as [|n']; [congruence|]. cbn. rewrite map_length. exact Hj.
Qed.

Lemma canon_is_extent E : n <> 0 -> In E exts ->
  canon_set n E = ext T (int T (canon_set n E)).
Proof.
  intros Hn HE. unfold ext at 1. unfold ext_spec, all_objs. rewrite T_height. unfold canon_set at 1.
  apply filter_ext_in'. intros g Hg. apply in_seq in Hg. apply bool_eq_iff. rewrite mem_In, forallb_forall. split.
  - intros HgE m Hm. apply int_In in Hm. destruct Hm as [_ Hm]. apply Hm.
    apply canon_set_In. split; [lia | exact HgE].
  - intros H. destruct (In_nth exts E [] HE) as [j [Hj Ej]].
    assert (Hjc : j < length cexts) by (unfold cexts; rewrite map_length; exact Hj).
    assert (Hnth : nth j cexts [] = canon_set n E).
    { unfold cexts. rewrite (nth_indep _ [] (canon_set n [])) by exact Hjc.
      rewrite (map_nth (canon_set n)). rewrite Ej. reflexivity. }
    assert (Hin : In j (int T (canon_set n E))).
    { apply int_In. split; [apply T_width_ge; assumption|]. intros a Ha.
      apply canon_set_In in Ha. destruct Ha as [Han HaE].
      rewrite T_incidence by exact Han. rewrite Hnth. rewrite canon_mem by exact Han. apply mem_In. exact HaE. }
    specialize (H j Hin). rewrite T_incidence in H by lia. rewrite Hnth, canon_mem in H by lia.
    apply mem_In. exact H.
Qed.

Lemma cs'_concept_list : n <> 0 -> concept_list T cs'.
Proof.
  intros Hn. split.
  - intros c Hc. unfold cs' in Hc. apply in_map_iff in Hc. destruct Hc as [E [Ec HE]]. subst c. cbn [fst snd].
    split; [apply canon_is_extent; assumption | reflexivity].
  - unfold cs'. rewrite map_map. cbn [fst]. exact Hnd.
Qed.

(* ---- raw tuples and canonical extents compare alike *)
Lemma canon_length E : NoDup E -> in_range n E -> length (canon_set n E) = length E.
Proof.
  intros Hn Hr. apply Permutation_length. apply NoDup_Permutation.
  - unfold canon_set. apply NoDup_filter. apply seq_NoDup.
  - exact Hn.
  - intros x. rewrite canon_set_In. split; [tauto | intros Hx; split; [apply Hr; exact Hx | exact Hx]].
Qed.

Lemma canon_nil : canon_set n [] = [].
Proof. unfold canon_set. apply filter_false_all. Qed.

Lemma cnth_raw i : cnth cs_raw i = (nth i exts [], []).
Proof. unfold cnth, cs_raw, cdefault. apply (map_nth (fun E => (E, @nil nat)) exts [] i). Qed.

Lemma cnth_c i : fst (cnth cs' i) = canon_set n (nth i exts []).
Proof.
  unfold cnth, cs'. destruct (Nat.lt_ge_cases i (length exts)) as [Hi|Hi].
  - rewrite (nth_indep _ cdefault ((fun E => (canon_set n E, int T (canon_set n E))) []))
      by (rewrite map_length; exact Hi).
    rewrite (map_nth (fun E => (canon_set n E, int T (canon_set n E)))). reflexivity.
  - rewrite nth_overflow by (rewrite map_length; exact Hi).
    rewrite (nth_overflow exts) by exact Hi. rewrite canon_nil. reflexivity.
Qed.

Lemma nth_good i : NoDup (nth i exts []) /\ in_range n (nth i exts []).
Proof.
  destruct (Nat.lt_ge_cases i (length exts)) as [Hi|Hi].
  - apply Hgood. apply nth_In. exact Hi.
  - rewrite nth_overflow by exact Hi. split; [constructor | intros x []].
Qed.

Lemma leq_raw_canon i j : leq_i cs_raw i j = leq_i cs' i j.
Proof.
  unfold leq_i, concept_le, support. rewrite !cnth_raw, !cnth_c. cbn [fst].
  destruct (nth_good i) as [Hni Hri]. destruct (nth_good j) as [Hnj Hrj].
  rewrite !canon_length by assumption.
  destruct (Nat.ltb (length (nth j exts [])) (length (nth i exts []))); [reflexivity|].
  apply bool_eq_iff. rewrite !forallb_forall. split.
  - intros H g Hg. apply canon_set_In in Hg. destruct Hg as [Hgn Hg]. rewrite canon_mem by exact Hgn. apply H. exact Hg.
  - intros H g Hg. assert (Hgn : g < n) by (apply Hri; exact Hg).
    rewrite <- (canon_mem (nth j exts []) g Hgn). apply H. apply canon_set_In. tauto.
Qed.

Lemma sub_loop_ext (d1 d2 : nat -> list nat) order cur :
  (forall c, d1 c = d2 c) -> sub_loop Nat.eqb d1 order cur = sub_loop Nat.eqb d2 order cur.
Proof.
  intros H. revert cur. induction order as [|c rest IH]; intros cur; [reflexivity|].
  cbn [sub_loop]. rewrite H, !IH. reflexivity.
Qed.

Lemma lengths_eq : length cs_raw = length cs'.
Proof. unfold cs_raw, cs'. rewrite !map_length. reflexivity. Qed.

Lemma descendants_raw_canon e : descendants_nocache cs_raw e = descendants_nocache cs' e.
Proof.
  unfold descendants_nocache, strict_down, idxs. rewrite lengths_eq. apply filter_ext. intros y.
  unfold slt. rewrite leq_raw_canon. reflexivity.
Qed.

Lemma ancestors_raw_canon e : ancestors_nocache cs_raw e = ancestors_nocache cs' e.
Proof.
  unfold ancestors_nocache, strict_up, strict_down, idxs. rewrite lengths_eq. apply filter_ext. intros y.
  unfold slt, flip_leq. rewrite leq_raw_canon. reflexivity.
Qed.

Lemma children_raw_canon e : children_nocache cs_raw e = children_nocache cs' e.
Proof.
  unfold children_nocache, children_of. rewrite descendants_raw_canon.
  apply sub_loop_ext. apply descendants_raw_canon.
Qed.

Lemma parents_raw_canon e : parents_nocache cs_raw e = parents_nocache cs' e.
Proof.
  unfold parents_nocache, children_of. rewrite ancestors_raw_canon.
  apply sub_loop_ext. apply ancestors_raw_canon.
Qed.

(* ---- the specification does not see the order inside the tuples either *)
Lemma set_at_canon j : set_at (map (canon_set n) exts) j = canon_set n (set_at exts j).
Proof.
  unfold set_at. rewrite <- canon_nil at 1. apply (map_nth (canon_set n)).
Qed.

Lemma subsetb_canon A B : in_range n A -> subsetb (canon_set n A) (canon_set n B) = subsetb A B.
Proof.
  intros Hr. apply bool_eq_iff. rewrite !subsetb_incl. split.
  - intros H x Hx. assert (Hxn : x < n) by (apply Hr; exact Hx).
    assert (X : In x (canon_set n A)) by (apply canon_set_In; tauto). apply H in X. apply canon_set_In in X. tauto.
  - intros H x Hx. apply canon_set_In in Hx. apply canon_set_In. split; [tauto | apply H; tauto].
Qed.

Lemma psubset_canon i j :
  psubset (set_at (map (canon_set n) exts) i) (set_at (map (canon_set n) exts) j)
  = psubset (set_at exts i) (set_at exts j).
Proof.
  unfold psubset. rewrite !set_at_canon. unfold set_at.
  rewrite !subsetb_canon by apply nth_good. reflexivity.
Qed.

Lemma spec_children_canon i : spec_children (map (canon_set n) exts) i = spec_children exts i.
Proof.
  unfold spec_children, n_sets. rewrite map_length. apply filter_ext. intros j.
  rewrite psubset_canon. f_equal. f_equal. apply existsb_ext_in. intros k _. rewrite !psubset_canon. reflexivity.
Qed.

Lemma spec_parents_canon i : spec_parents (map (canon_set n) exts) i = spec_parents exts i.
Proof.
  unfold spec_parents, n_sets. rewrite map_length. apply filter_ext. intros j.
  rewrite psubset_canon. f_equal. f_equal. apply existsb_ext_in. intros k _. rewrite !psubset_canon. reflexivity.
Qed.

Theorem generic_order i :
  n <> 0 -> i < length exts ->
  children_nocache cs_raw i = spec_children exts i /\
  parents_nocache cs_raw i = spec_parents exts i /\
  (forall j, leq_i cs_raw i j = subsetb (set_at exts i) (set_at exts j)).
Proof.
  intros Hn Hi.
  assert (Hi' : i < length cs') by (unfold cs'; rewrite map_length; exact Hi).
  assert (Hfst : map fst cs' = map (canon_set n) exts) by (unfold cs'; rewrite map_map; reflexivity).
  pose proof (cs'_concept_list Hn) as HL.
  split; [|split].
  - rewrite children_raw_canon, (children_spec T cs' HL i Hi'), Hfst. apply spec_children_canon.
  - rewrite parents_raw_canon, (parents_spec T cs' HL i Hi'), Hfst. apply spec_parents_canon.
  - intros j. rewrite leq_raw_canon, (leq_spec T cs' HL i j Hi'), Hfst. unfold spec_leq.
    rewrite !set_at_canon. apply subsetb_canon. unfold set_at. apply nth_good.
Qed.

End GenericOrder.

Lemma spec_extent_good K E :
  In E (mv_extents_spec (mv_cols K) (mv_n K)) -> NoDup E /\ in_range (mv_n K) E.
Proof.
  intros H. unfold mv_extents_spec in H. apply (proj1 (nodup_lists_In _ _)) in H. apply in_map_iff in H.
  destruct H as [X [EX _]]. subst E. unfold mv_cl_spec, mv_ext_spec. split.
  - apply NoDup_filter. apply seq_NoDup.
  - intros g Hg. apply filter_In in Hg. destruct Hg as [Hg _]. apply in_seq in Hg. lia.
Qed.

Lemma from_context_good K thr cs :
  mv_wf K -> mv_n K <> 0 -> mv_cols K <> [] -> guard_D16 K = true -> guard_D17 K = true ->
  mv_from_context K thr = Some cs ->
  forall c, In c cs -> NoDup (pc_ext c) /\ in_range (mv_n K) (pc_ext c).
Proof.
  intros Hwf Hn Hc H16 H17 Hfc c Hin.
  destruct (Nat.ltb_spec thr (mv_n_bin_attrs K)) as [Hlt|Hge].
  - assert (Ecs : cs = mv_cbo_objectwise K).
    { unfold mv_from_context, mv_close_by_one in Hfc.
      destruct (Nat.ltb_spec thr (mv_n_bin_attrs K)); [|lia].
      destruct (has_dup_extent (mv_cbo_objectwise K)); [discriminate | inversion Hfc; reflexivity]. }
    subst cs. assert (X : In (pc_ext c) (map pc_ext (mv_cbo_objectwise K))) by (apply in_map; exact Hin).
    rewrite (objectwise_extents K Hwf Hn) in X.
    pose proof (conv_good K Hn) as HS0. rewrite <- (mv_binarize_height K).
    destruct X as [X|X].
    + rewrite <- X. destruct HS0 as [Hr Hnd]. split; assumption.
    + assert (Hk : 0 + mv_n K = height (mv_binarize K)) by (rewrite mv_binarize_height; reflexivity).
      destruct (tuples_sound (mv_binarize K) (mv_n K) 0 (mv_cl K []) Hk HS0 _ X) as [[Hr Hnd] _].
      split; assumption.
  - destruct (lattice_exact K thr Hwf Hn Hc Hge H17) as [cs' [E1 [_ [_ [Hiff _]]]]].
    rewrite Hfc in E1. inversion E1; subst cs'. apply spec_extent_good. apply Hiff. apply in_map. exact Hin.
Qed.

(* ------------------------------------------------------------------ C14 lattice_order: in the
   lattice object built from a many-valued context (either path, any listing order of the
   concepts - sort_concepts is one permutation), children / parents are exactly the lower / upper
   covers w.r.t. proper inclusion of extents, and <= is inclusion of extents *)
Theorem lattice_order K thr cs L :
  mv_wf K -> mv_n K <> 0 -> mv_cols K <> [] -> guard_D16 K = true -> guard_D17 K = true ->
  mv_from_context K thr = Some cs -> Permutation cs L ->
  forall i, i < length L ->
    mv_children L i = spec_children (map pc_ext L) i /\
    mv_parents L i = spec_parents (map pc_ext L) i /\
    (forall j, mv_leq L i j = subsetb (set_at (map pc_ext L) i) (set_at (map pc_ext L) j)).
Proof.
  intros Hwf Hn Hc H16 H17 Hfc Hperm i Hi.
  assert (Hgood : forall E, In E (map pc_ext L) -> NoDup E /\ in_range (mv_n K) E).
  { intros E HE. apply in_map_iff in HE. destruct HE as [c [Ec Hc']]. subst E.
    apply (from_context_good K thr cs Hwf Hn Hc H16 H17 Hfc).
    apply (Permutation_in c (Permutation_sym Hperm)). exact Hc'. }
  assert (Hnd : NoDup (map (canon_set (mv_n K)) (map pc_ext L))).
  { destruct (from_context_exact K thr Hwf Hn Hc H16 H17) as [cs' [E1 [Hnd' _]]].
    rewrite Hfc in E1. inversion E1; subst cs'.
    apply (Permutation_NoDup (l := map (canon_set (mv_n K)) (map pc_ext cs))); [|exact Hnd'].
    apply Permutation_map. apply Permutation_map. exact Hperm. }
  assert (Hraw : map pc_concept L = map (fun E => (E, @nil nat)) (map pc_ext L))
    by (rewrite map_map; reflexivity).
  unfold mv_children, mv_parents, mv_leq. rewrite Hraw.
  apply (generic_order (mv_n K) (map pc_ext L) Hgood Hnd i Hn). rewrite map_length. exact Hi.
Qed.

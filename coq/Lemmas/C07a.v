(* Lemmas/C07a.v — round trips at the value level: formal context json, pandas frame,
   FormalConcept dict/json. *)
From FCA Require Import Base.C07_Str Model.C07_Serial Spec.C07_Roundtrip.

(* ------------------------------------------------------------------ generalities *)

Lemma str_eqb_refl s : str_eqb s s = true.
Proof. apply str_eqb_eq. reflexivity. Qed.

Lemma str_eqb_neq a b : a <> b -> str_eqb a b = false.
Proof. intros H. destruct (str_eqb a b) eqn:E; [|reflexivity]. apply str_eqb_eq in E. contradiction. Qed.

Lemma smap_map_ok {A B} (f : A -> sres B) (g : B -> A) l :
  (forall x, f (g x) = SOk x) -> smap f (map g l) = SOk l.
Proof. intros H. induction l as [|x l IH]; simpl; [reflexivity|]. rewrite H, IH. reflexivity. Qed.

Lemma smap_ok_in {A B} (f : A -> sres B) (g : A -> B) l :
  (forall x, In x l -> f x = SOk (g x)) -> smap f l = SOk (map g l).
Proof.
  induction l as [|x l IH]; intros H; simpl; [reflexivity|].
  rewrite H by (left; reflexivity). rewrite IH by (intros y Hy; apply H; right; exact Hy). reflexivity.
Qed.

Lemma as_nat_jnat n : as_nat (jnat n) = SOk n.
Proof.
  unfold as_nat, jnat. rewrite (proj2 (Z.leb_le 0 (Z.of_nat n)) (Nat2Z.is_nonneg n)).
  rewrite Nat2Z.id. reflexivity.
Qed.

Lemma smap_as_str l : smap as_str (map JStr l) = SOk l.
Proof. apply smap_map_ok. reflexivity. Qed.
Lemma smap_as_nat l : smap as_nat (map jnat l) = SOk l.
Proof. apply smap_map_ok. exact as_nat_jnat. Qed.

Lemma opt_strs_jstrs l : opt_strs (Some (jstrs l)) = SOk (Some l).
Proof. unfold opt_strs, jstrs. simpl. rewrite smap_as_str. reflexivity. Qed.

Lemma map_nth_seq_from {A} (l pre : list A) d :
  map (fun j => nth j (pre ++ l) d) (seq (length pre) (length l)) = l.
Proof.
  revert pre. induction l as [|x l IH]; intros pre; simpl; [reflexivity|].
  rewrite app_nth2 by lia. rewrite Nat.sub_diag. simpl. f_equal.
  replace (pre ++ x :: l) with ((pre ++ [x]) ++ l) by (rewrite <- app_assoc; reflexivity).
  replace (S (length pre)) with (length (pre ++ [x])) by (rewrite app_length; simpl; lia).
  apply IH.
Qed.

Lemma map_nth_seq {A} (l : list A) d : map (fun j => nth j l d) (seq 0 (length l)) = l.
Proof. apply (map_nth_seq_from l [] d). Qed.

Lemma mem_nat_In x l : mem_nat x l = true <-> In x l.
Proof.
  unfold mem_nat. rewrite existsb_exists. split.
  - intros [y [Hy E]]. apply Nat.eqb_eq in E. subst. exact Hy.
  - intros H. exists x. split; [exact H | apply Nat.eqb_refl].
Qed.

Lemma mem_nat_filter_seq (p : nat -> bool) w j :
  j < w -> mem_nat j (filter p (seq 0 w)) = p j.
Proof.
  intros Hj. destruct (p j) eqn:E.
  - apply mem_nat_In. apply filter_In. split; [apply in_seq; lia | exact E].
  - destruct (mem_nat j (filter p (seq 0 w))) eqn:M; [|reflexivity].
    apply mem_nat_In, filter_In in M. destruct M as [_ M]. congruence.
Qed.

(* reading the "Inds" of a row back gives the row *)
Lemma row_read r :
  map (fun j => mem_nat j (filter (fun j => nth j r false) (seq 0 (length r)))) (seq 0 (length r)) = r.
Proof.
  transitivity (map (fun j => nth j r false) (seq 0 (length r))); [|apply map_nth_seq].
  apply map_ext_in. intros j Hj. apply in_seq in Hj.
  apply (mem_nat_filter_seq (fun j0 => nth j0 r false)). lia.
Qed.

(* ------------------------------------------------------------------ table_okb unpacked *)

Lemma table_okb_spec K :
  table_okb K = true ->
  0 < length (sc_table K) /\ 0 < t_width (sc_table K)
  /\ forallb (fun r => Nat.eqb (length r) (t_width (sc_table K))) (sc_table K) = true
  /\ length (sc_onames K) = length (sc_table K) /\ length (sc_anames K) = t_width (sc_table K).
Proof.
  unfold table_okb. rewrite !andb_true_iff, !Nat.ltb_lt, !Nat.eqb_eq. tauto.
Qed.

Lemma make_ctx_ok K :
  table_okb K = true -> make_ctx (sc_table K) (sc_onames K) (sc_anames K) (sc_desc K) = SOk K.
Proof.
  intros H. apply table_okb_spec in H. destruct H as [_ [_ [Hf [Ho Ha]]]].
  unfold make_ctx. rewrite Hf, Ho, Ha, !Nat.eqb_refl. simpl. destruct K; reflexivity.
Qed.

(* ------------------------------------------------------------------ formal context: json *)

Lemma read_rows w t :
  smap (fun line => sbind (as_obj line) (fun ld => sbind (dkey s_Inds ld) (fun i =>
          sbind (as_arr i) (smap as_nat)))) (map (row_obj w) t)
  = SOk (map (fun r => filter (fun j => nth j r false) (seq 0 w)) t).
Proof.
  induction t as [|r t IH]; [reflexivity|].
  change (map (row_obj w) (r :: t)) with (row_obj w r :: map (row_obj w) t).
  cbn [smap]. rewrite IH.
  unfold row_obj at 1. cbn [as_obj sbind]. unfold dkey. cbn [dget].
  change (str_eqb s_Inds s_Count) with false. change (str_eqb s_Inds s_Inds) with true.
  cbn [sbind as_arr]. rewrite smap_as_nat. reflexivity.
Qed.

Theorem ctx_json_roundtrip K :
  table_okb K = true -> read_ctx_json (write_ctx_json K) = SOk K.
Proof.
  intros Hok. pose proof (table_okb_spec K Hok) as [_ [_ [Hf [Ho Ha]]]].
  destruct K as [on an desc t]. simpl in *.
  unfold write_ctx_json, read_ctx_json. cbn [sc_desc sc_onames sc_anames sc_table].
  assert (G1 : dget s_ObjNames ((match desc with Some x => [(s_Description, JStr x)] | None => [] end)
                  ++ [(s_ObjNames, jstrs on); (s_Params, JObj [(s_AttrNames, jstrs an)])])
               = Some (jstrs on)) by (destruct desc; reflexivity).
  assert (G2 : dget s_Params ((match desc with Some x => [(s_Description, JStr x)] | None => [] end)
                  ++ [(s_ObjNames, jstrs on); (s_Params, JObj [(s_AttrNames, jstrs an)])])
               = Some (JObj [(s_AttrNames, jstrs an)])) by (destruct desc; reflexivity).
  assert (G3 : opt_str (dget s_Description ((match desc with Some x => [(s_Description, JStr x)] | None => [] end)
                  ++ [(s_ObjNames, jstrs on); (s_Params, JObj [(s_AttrNames, jstrs an)])]))
               = SOk desc) by (destruct desc; reflexivity).
  rewrite G1, G2, G3. rewrite opt_strs_jstrs. cbn [sbind as_obj].
  change (dget s_AttrNames [(s_AttrNames, jstrs an)]) with (Some (jstrs an)).
  rewrite opt_strs_jstrs. cbn [sbind]. rewrite read_rows. cbn [sbind]. rewrite map_map.
  assert (Hrows : map (fun x : list bool =>
                         map (fun j => mem_nat j (filter (fun j0 => nth j0 x false) (seq 0 (t_width t))))
                             (seq 0 (length an))) t = t).
  { rewrite Ha. transitivity (map (fun r : list bool => r) t); [|apply map_id].
    apply map_ext_in. intros r Hr.
    rewrite forallb_forall in Hf. specialize (Hf r Hr). apply Nat.eqb_eq in Hf.
    rewrite <- Hf. apply row_read. }
  rewrite Hrows.
  apply (make_ctx_ok (mk_sctx on an desc t) Hok).
Qed.

(* ------------------------------------------------------------------ pandas *)

Theorem pandas_roundtrip K :
  table_okb K = true ->
  from_pandas (to_pandas K) = SOk (mk_sctx (sc_onames K) (sc_anames K) None (sc_table K)).
Proof.
  intros Hok. unfold from_pandas, to_pandas. simpl.
  assert (H' : table_okb (mk_sctx (sc_onames K) (sc_anames K) None (sc_table K)) = true) by exact Hok.
  apply (make_ctx_ok _ H').
Qed.

(* ------------------------------------------------------------------ dictionaries *)

Lemma dget_dset_same k v d : dget k (dset k v d) = Some v.
Proof.
  induction d as [|[k' v'] d IH]; simpl.
  - rewrite str_eqb_refl. reflexivity.
  - destruct (str_eqb k k') eqn:E; simpl; rewrite ?str_eqb_refl, ?E; [reflexivity | exact IH].
Qed.

Lemma dget_dset_other k k' v d : str_eqb k k' = false -> dget k (dset k' v d) = dget k d.
Proof.
  intros Hne. induction d as [|[k2 v2] d IH]; simpl.
  - rewrite Hne. reflexivity.
  - destruct (str_eqb k' k2) eqn:E; simpl.
    + apply str_eqb_eq in E. subst k2. rewrite Hne. reflexivity.
    + destruct (str_eqb k k2); [reflexivity | exact IH].
Qed.

Definition dstep (d : list (str * jv)) (kv : str * jv) := dset (fst kv) (snd kv) d.

Lemma dget_fold_other k m base :
  forallb (fun kv => negb (str_eqb k (fst kv))) m = true ->
  dget k (fold_left dstep m base) = dget k base.
Proof.
  revert base. induction m as [|[k' v'] m IH]; intros base H; simpl; [reflexivity|].
  simpl in H. apply andb_true_iff in H. destruct H as [H1 H2].
  rewrite IH by exact H2. unfold dstep. simpl. apply dget_dset_other.
  apply negb_true_iff in H1. exact H1.
Qed.

Lemma filter_dset (keyp : str -> bool) k v d :
  keyp k = true ->
  filter (fun kv : str * jv => keyp (fst kv)) (dset k v d)
  = dset k v (filter (fun kv : str * jv => keyp (fst kv)) d).
Proof.
  intros Hk. induction d as [|[k' v'] d IH]; simpl.
  - rewrite Hk. reflexivity.
  - destruct (str_eqb k k') eqn:E.
    + apply str_eqb_eq in E. subst k'. simpl. rewrite Hk. simpl. rewrite str_eqb_refl. reflexivity.
    + simpl. destruct (keyp k'); simpl; rewrite ?E, IH; reflexivity.
Qed.

Lemma filter_fold (keyp : str -> bool) m base :
  forallb (fun kv : str * jv => keyp (fst kv)) m = true ->
  filter (fun kv : str * jv => keyp (fst kv)) (fold_left dstep m base)
  = fold_left dstep m (filter (fun kv : str * jv => keyp (fst kv)) base).
Proof.
  revert base. induction m as [|[k' v'] m IH]; intros base H; simpl; [reflexivity|].
  simpl in H. apply andb_true_iff in H. destruct H as [H1 H2].
  rewrite IH by exact H2. unfold dstep at 2 4. simpl. rewrite filter_dset by exact H1. reflexivity.
Qed.

(* ------------------------------------------------------------------ name orders, sorting *)

Lemma str_nodupb_NoDup l : str_nodupb l = true -> NoDup l.
Proof.
  induction l as [|x l IH]; simpl; intros H; [constructor|].
  apply andb_true_iff in H. destruct H as [H1 H2]. constructor; [|apply IH; exact H2].
  intros Hin. apply negb_true_iff in H1.
  assert (X : existsb (str_eqb x) l = true)
    by (apply existsb_exists; exists x; split; [exact Hin | apply str_eqb_refl]).
  congruence.
Qed.

Lemma sil_notin k order x acc : ~ In x order -> sindex_last_from k order x acc = acc.
Proof.
  revert k acc. induction order as [|y ys IH]; intros k acc H; simpl; [reflexivity|].
  rewrite str_eqb_neq by (intros E; apply H; left; symmetry; exact E).
  apply IH. intros Hin. apply H. right. exact Hin.
Qed.

Lemma sil_nodup k order i acc :
  NoDup order -> i < length order ->
  sindex_last_from k order (nth i order []) acc = Some (k + i).
Proof.
  revert k i acc. induction order as [|y ys IH]; intros k i acc Hn Hi; simpl in *; [lia|].
  inversion Hn as [|? ? Hy Hn']; subst. destruct i as [|i].
  - rewrite str_eqb_refl. rewrite sil_notin by exact Hy. f_equal. lia.
  - rewrite str_eqb_neq.
    + rewrite IH by (try assumption; lia). f_equal. lia.
    + intros E. apply Hy. rewrite <- E. apply nth_In. lia.
Qed.

Lemma sindex_nth order i :
  NoDup order -> i < length order -> sindex order (nth i order []) = SOk i.
Proof. intros Hn Hi. unfold sindex. rewrite sil_nodup by assumption. reflexivity. Qed.

Lemma nat_increasingb_tail x l : nat_increasingb (x :: l) = true -> nat_increasingb l = true.
Proof. destruct l as [|y l]; simpl; [reflexivity|]. intros H. apply andb_true_iff in H. tauto. Qed.

Lemma sort_keyed_increasing {A} (l : list (nat * A)) :
  nat_increasingb (map fst l) = true -> sort_keyed l = l.
Proof.
  induction l as [|[k x] l IH]; intros H; [reflexivity|].
  unfold sort_keyed in *. simpl fold_right. simpl in IH.
  rewrite IH by (apply (nat_increasingb_tail k); exact H). simpl.
  destruct l as [|[k' y] l]; [reflexivity|].
  simpl in H. apply andb_true_iff in H. destruct H as [H _].
  simpl. rewrite H. reflexivity.
Qed.

Lemma sorted_nats_increasing l : nat_increasingb l = true -> sorted_nats l = l.
Proof.
  intros H. unfold sorted_nats. rewrite sort_keyed_increasing.
  - rewrite map_map. simpl. apply map_id.
  - rewrite map_map. simpl. rewrite map_id. exact H.
Qed.

Lemma sorted_names_canonical order idx :
  NoDup order -> nat_increasingb idx = true -> forallb (fun i => Nat.ltb i (length order)) idx = true ->
  sorted_names order (names_at order idx) = SOk (names_at order idx).
Proof.
  intros Hn Hinc Hr. unfold sorted_names, names_at.
  rewrite (smap_ok_in _ (fun g => (match sindex_last_from 0 order g None with Some i => i | None => 0 end, g))).
  - simpl. rewrite map_map.
    assert (E : map (fun x => (match sindex_last_from 0 order (nth x order []) None with
                               | Some i => i | None => 0 end, nth x order [])) idx
                = map (fun i => (i, nth i order [])) idx).
    { apply map_ext_in. intros i Hi. rewrite forallb_forall in Hr. specialize (Hr i Hi).
      apply Nat.ltb_lt in Hr. rewrite sil_nodup by assumption. reflexivity. }
    rewrite E. rewrite sort_keyed_increasing.
    + rewrite map_map. reflexivity.
    + rewrite map_map. simpl. rewrite map_id. exact Hinc.
  - intros g Hg. apply in_map_iff in Hg. destruct Hg as [i [E Hi]]. subst g.
    rewrite forallb_forall in Hr. specialize (Hr i Hi). apply Nat.ltb_lt in Hr.
    rewrite sindex_nth by assumption. simpl. rewrite sil_nodup by assumption. reflexivity.
Qed.

(* ------------------------------------------------------------------ FormalConcept dict / json *)

Definition keyp_meas (k : str) : bool := negb (str_eqb k s_Int || str_eqb k s_Ext).

Lemma strs_eqb_eq a b : strs_eqb a b = true -> a = b.
Proof.
  revert b. induction a as [|x a IH]; intros [|y b]; simpl; intros H; try reflexivity; try discriminate.
  apply andb_true_iff in H. destruct H as [H1 H2]. apply str_eqb_eq in H1. subst.
  f_equal. apply IH. exact H2.
Qed.

Definition fc_after (c : fcv) : fcv :=
  mk_fcv (fv_extent_i c) (fv_extent c) (fv_intent_i c) (fv_intent c) (fc_measures_after c)
         (fv_hash c) (fv_mono c).

Lemma reserved_split m :
  forallb (fun kv : str * jv => negb (reserved_key (fst kv))) m = true ->
  forallb (fun kv : str * jv => negb (str_eqb s_Int (fst kv))) m = true
  /\ forallb (fun kv : str * jv => negb (str_eqb s_Ext (fst kv))) m = true
  /\ forallb (fun kv : str * jv => keyp_meas (fst kv)) m = true.
Proof.
  intros H. repeat split; apply forallb_forall; intros kv Hkv;
    rewrite forallb_forall in H; specialize (H kv Hkv); unfold reserved_key, keyp_meas in *;
    apply negb_true_iff in H; rewrite !orb_false_iff in H; destruct H as [[[[H1 H2] H3] H4] H5].
  - apply negb_true_iff. destruct (str_eqb s_Int (fst kv)) eqn:E; [|reflexivity].
    apply str_eqb_eq in E. rewrite <- E in H2. rewrite str_eqb_refl in H2. discriminate.
  - apply negb_true_iff. destruct (str_eqb s_Ext (fst kv)) eqn:E; [|reflexivity].
    apply str_eqb_eq in E. rewrite <- E in H1. rewrite str_eqb_refl in H1. discriminate.
  - rewrite H1, H2. reflexivity.
Qed.

Lemma names_or_empty_ok i l n :
  names_or_empty [(s_Inds, i); (s_Names, jstrs l); (s_Count, n)] = SOk l.
Proof.
  unfold names_or_empty.
  change (dget s_Names [(s_Inds, i); (s_Names, jstrs l); (s_Count, n)]) with (Some (jstrs l)).
  unfold jstrs. cbn [as_arr sbind]. apply smap_as_str.
Qed.

Lemma fc_dict_roundtrip_shape objs attrs c :
  fc_admissibleb objs attrs c = true ->
  exists D i n k, fc_to_dict objs attrs c = SOk (JObj D)
                  /\ dget s_Int D = Some (JObj [(s_Inds, i); (s_Names, n); (s_Count, k)])
                  /\ fc_from_dict (JObj D) = SOk (fc_after c).
Proof.
  unfold fc_admissibleb. rewrite !andb_true_iff.
  intros [[[[[[[[Hno Hna] Hei] Her] Hii] Hir] Hen] Hin] Hm].
  apply str_nodupb_NoDup in Hno. apply str_nodupb_NoDup in Hna.
  apply strs_eqb_eq in Hen. apply strs_eqb_eq in Hin.
  unfold meas_okb in Hm. apply andb_true_iff in Hm. destruct Hm as [_ Hres].
  destruct (reserved_split _ Hres) as [HmI [HmE HmK]].
  unfold fc_to_dict. rewrite Hen, Hin.
  rewrite !sorted_names_canonical by assumption. cbn [sbind].
  rewrite !sorted_nats_increasing by assumption.
  eexists. eexists. eexists. eexists. split; [reflexivity|].
  set (base := [(s_Ext, _); (s_Int, _); (s_Supp, _)]).
  change (fold_left (fun d kv => dset (fst kv) (snd kv) d) (fv_measures c) base)
    with (fold_left dstep (fv_measures c) base).
  set (D := dset s_Monotone _ (dset s_Context_Hash _ (fold_left dstep (fv_measures c) base))).
  assert (GI : dget s_Int D = dget s_Int base).
  { unfold D. rewrite !dget_dset_other by reflexivity. apply dget_fold_other. exact HmI. }
  assert (GE : dget s_Ext D = dget s_Ext base).
  { unfold D. rewrite !dget_dset_other by reflexivity. apply dget_fold_other. exact HmE. }
  assert (GH : dget s_Context_Hash D = Some (jhash (fv_hash c))).
  { unfold D. rewrite dget_dset_other by reflexivity. apply dget_dset_same. }
  assert (GM : dget s_Monotone D = Some (JBool (fv_mono c))) by (unfold D; apply dget_dset_same).
  assert (GF : filter (fun kv : str * jv => negb (str_eqb (fst kv) s_Int || str_eqb (fst kv) s_Ext)) D
               = fc_measures_after c).
  { change (fun kv : str * jv => negb (str_eqb (fst kv) s_Int || str_eqb (fst kv) s_Ext))
      with (fun kv : str * jv => keyp_meas (fst kv)).
    unfold D. rewrite !filter_dset by reflexivity. rewrite filter_fold by exact HmK.
    unfold fc_measures_after. reflexivity. }
  split; [rewrite GI; unfold base; reflexivity|].
  unfold fc_from_dict. cbn [as_obj sbind]. unfold dkey. rewrite GI, GE, GH, GM. unfold base.
  cbn [dget sbind as_obj as_arr names_or_empty].
  change (str_eqb s_Int s_Ext) with false. change (str_eqb s_Int s_Int) with true.
  change (str_eqb s_Ext s_Ext) with true. cbn [sbind as_obj as_arr dget].
  change (str_eqb s_Inds s_Inds) with true. cbn [sbind as_arr].
  change (str_eqb s_Names s_Inds) with false. change (str_eqb s_Names s_Names) with true.
  cbn [sbind as_arr]. rewrite !smap_as_nat, !names_or_empty_ok. cbn [sbind].
  rewrite GF. unfold fc_after. rewrite Hen, Hin.
  destruct (fv_hash c); reflexivity.
Qed.

Theorem fc_dict_roundtrip objs attrs c :
  fc_admissibleb objs attrs c = true ->
  exists v, fc_to_dict objs attrs c = SOk v /\ fc_from_dict v = SOk (fc_after c).
Proof.
  intros H. destruct (fc_dict_roundtrip_shape objs attrs c H) as [D [i [n [k [H1 [_ H3]]]]]].
  exists (JObj D). split; assumption.
Qed.

Lemma fc_after_fields c :
  (fv_extent_i (fc_after c), fv_extent (fc_after c), fv_intent_i (fc_after c), fv_intent (fc_after c),
   fv_hash (fc_after c), fv_mono (fc_after c))
  = (fv_extent_i c, fv_extent c, fv_intent_i c, fv_intent c, fv_hash c, fv_mono c)
  /\ fv_measures (fc_after c) = fc_measures_after c.
Proof. split; reflexivity. Qed.

(* Lemmas/C09Query.v — the invariant [Sound] of the cached poset and its preservation by every
   query; every query answers what the cache-free spec answers (property C09, query part). *)
From FCA Require Import Base.ListSet Spec.PosetSpec Model.Poset Lemmas.C09Base.

#[local] Arguments upd : simpl never.
#[local] Arguments updl : simpl never.
#[local] Arguments lk : simpl never.
#[local] Arguments lkl : simpl never.

Section Query.
  Variable E : Type.
  Variable leq : E -> E -> bool.
  Variable eqb : E -> E -> bool.
  Hypothesis PO : partial_order E leq eqb.
  (* [fut] = elements about to be appended.  It is [] for every state between two public calls;
     POSet.add works for a while with cache entries of the element it is going to append
     (fut = [e]): an entry whose key points beyond the element list must be correct for the
     extended list.  Such entries are never read by a call with in-range arguments. *)
  Variable fut : list E.

  Notation state := (state E).
  Notation lq := (lq E leq).
  Notation ldir := (ldir E leq).
  Notation strict_rel := (strict_rel E leq).
  Notation covers := (covers E leq).
  Notation index_of := (index_of E eqb).
  Notation memE := (memE E eqb).
  Notation leq_elements := (leq_elements E leq).
  Notation closed := (closed E leq).
  Notation closed_nocache := (closed_nocache E leq).
  Notation cover := (cover E leq).
  Notation cover_nocache := (cover_nocache E leq).
  Notation scan := (scan E).
  Notation prune := (prune E).

  (* ---------------------------------------------------------------- the invariant *)
  Definition leq_ok (l : list E) (c : lcache) : Prop :=
    forall a b r, In ((a, b), r) c ->
      a < length (l ++ fut) /\ b < length (l ++ fut) /\
      (a < length l -> b < length l -> r = lq l a b) /\
      (~ (a < length l /\ b < length l) -> r = lq (l ++ fut) a b).
  Definition closed_ok (l : list E) (up : bool) (c : cache) : Prop :=
    forall i X, In (i, X) c ->
      i < length (l ++ fut) /\
      (i < length l -> NoDup X /\ forall j, In j X <-> In j (strict_rel l up i)) /\
      (~ i < length l -> NoDup X /\ forall j, In j X <-> In j (strict_rel (l ++ fut) up i)).
  Definition cover_ok (l : list E) (up : bool) (c : cache) : Prop :=
    forall i X, In (i, X) c ->
      i < length (l ++ fut) /\
      (i < length l -> NoDup X /\ forall j, In j X <-> In j (covers l up i)) /\
      (~ i < length l -> NoDup X /\ forall j, In j X <-> In j (covers (l ++ fut) up i)).
  (* an element with cached parents (children) has cached ancestors (descendants) *)
  Definition dom_ok (s : state) : Prop :=
    forall up i X, lk (cover_cache E up s) i = Some X -> exists Y, lk (closed_cache E up s) i = Some Y.

  Record Sound (s : state) : Prop := mk_Sound {
    snd_nodup : NoDup (els s);
    snd_leq : leq_ok (els s) (c_leq s);
    snd_closed : forall up, closed_ok (els s) up (closed_cache E up s);
    snd_cover : forall up, cover_ok (els s) up (cover_cache E up s);
    snd_dom : dom_ok s
  }.

  (* caches only grow along queries *)
  Record ext (s s' : state) : Prop := mk_ext {
    ext_els : els s' = els s;
    ext_uc : use_cache s' = use_cache s;
    ext_leq : forall k v, lkl (c_leq s) k = Some v -> lkl (c_leq s') k = Some v;
    ext_closed : forall up k v, lk (closed_cache E up s) k = Some v -> lk (closed_cache E up s') k = Some v;
    ext_cover : forall up k v, lk (cover_cache E up s) k = Some v -> lk (cover_cache E up s') k = Some v
  }.

  Lemma ext_refl s : ext s s.
  Proof. constructor; auto. Qed.

  Lemma ext_trans s1 s2 s3 : ext s1 s2 -> ext s2 s3 -> ext s1 s3.
  Proof.
    intros [A1 A2 A3 A4 A5] [B1 B2 B3 B4 B5]. constructor; try congruence; auto.
  Qed.

  Lemma init_sound l uc : NoDup l -> Sound (init E l uc).
  Proof.
    intros H. constructor; simpl; [exact H | intros a b r [] | intros [] i X [] | intros [] i X [] |].
    intros [] i X; discriminate.
  Qed.

  (* ---------------------------------------------------------------- leq_elements *)
  Lemma leq_elements_ok s a b :
    Sound s -> a < size E s -> b < size E s ->
    Sound (fst (leq_elements s a b)) /\ ext s (fst (leq_elements s a b)) /\
    snd (leq_elements s a b) = lq (els s) a b.
  Proof.
    intros HS Ha Hb. unfold Poset.leq_elements, size in *.
    destruct (use_cache s) eqn:Huc; [|simpl; auto using ext_refl].
    destruct (lkl (c_leq s) (a, b)) as [r|] eqn:Hl.
    { simpl. split; [exact HS|]. split; [apply ext_refl|].
      apply lkl_In in Hl. apply (snd_leq s HS) in Hl. destruct Hl as [_ [_ [Hl _]]]. auto. }
    destruct (if Nat.eqb a b then None else lk (c_desc s) b) as [d|] eqn:Hd.
    { simpl. split; [exact HS|]. split; [apply ext_refl|].
      destruct (Nat.eqb a b) eqn:Hab; [discriminate|]. apply Nat.eqb_neq in Hab.
      apply lk_In in Hd. destruct (snd_closed s HS false b d Hd) as [_ [Hm _]]. destruct (Hm Hb) as [_ Hm'].
      clear Hm. rename Hm' into Hm.
      apply bool_eq_iff. rewrite mem_In, Hm, In_strict_rel. simpl. tauto. }
    destruct (if Nat.eqb a b then None else lk (c_anc s) a) as [u|] eqn:Hu.
    { simpl. split; [exact HS|]. split; [apply ext_refl|].
      destruct (Nat.eqb a b) eqn:Hab; [discriminate|]. apply Nat.eqb_neq in Hab.
      apply lk_In in Hu. destruct (snd_closed s HS true a u Hu) as [_ [Hm _]]. destruct (Hm Ha) as [_ Hm'].
      clear Hm. rename Hm' into Hm.
      apply bool_eq_iff. rewrite mem_In, Hm, In_strict_rel. simpl.
      split; [tauto|]. intros H. split; [exact H | auto]. }
    simpl. split; [|split; [|reflexivity]].
    - destruct HS as [H1 H2 H3 H4 H5]. constructor; simpl.
      + exact H1.
      + intros a' b' r Hin. apply In_updl in Hin. destruct Hin as [Heq | [Hin _]].
        * injection Heq as -> -> ->. rewrite app_length.
          split; [lia|]. split; [lia|]. split; [auto | intros Hc; exfalso; apply Hc; lia].
        * apply H2. exact Hin.
      + intros up. specialize (H3 up). destruct up; exact H3.
      + intros up. specialize (H4 up). destruct up; exact H4.
      + intros up i X. specialize (H5 up i X). destruct up; exact H5.
    - constructor; simpl.
      + reflexivity.
      + reflexivity.
      + intros k v Hk. rewrite lkl_updl_other; [exact Hk | congruence].
      + intros up k v. destruct up; auto.
      + intros up k v. destruct up; auto.
  Qed.

  (* ---------------------------------------------------------------- scan *)
  Lemma scan_spec (f : state -> nat -> state * bool) (p : nat -> bool) (I : state -> Prop) js :
    (forall s j, I s -> In j js -> I (fst (f s j)) /\ snd (f s j) = p j) ->
    forall s, I s -> I (fst (scan f s js)) /\ snd (scan f s js) = filter p js.
  Proof.
    induction js as [|j js IH]; intros Hf s Hs; simpl; [auto|].
    destruct (f s j) as [s1 r] eqn:Hfj.
    destruct (Hf s j Hs (or_introl eq_refl)) as [H1 H2]. rewrite Hfj in H1, H2. simpl in H1, H2.
    assert (Hf' : forall s j, I s -> In j js -> I (fst (f s j)) /\ snd (f s j) = p j).
    { intros s' j' Hs' Hj'. apply Hf; [exact Hs' | right; exact Hj']. }
    destruct (IH Hf' s1 H1) as [H3 H4].
    destruct (scan f s1 js) as [s2 rest]. simpl in *. subst. auto.
  Qed.

  Lemma Sound_ext_els s s' : ext s s' -> size E s' = size E s.
  Proof. intros H. unfold size. rewrite (ext_els _ _ H). reflexivity. Qed.

  (* ---------------------------------------------------------------- ancestors / descendants *)
  Lemma closed_nocache_ok up s i :
    Sound s -> i < size E s ->
    Sound (fst (closed_nocache up s i)) /\ ext s (fst (closed_nocache up s i)) /\
    snd (closed_nocache up s i) = strict_rel (els s) up i.
  Proof.
    intros HS Hi. unfold Poset.closed_nocache.
    pose (I := fun s' => Sound s' /\ ext s s').
    pose (p := fun j => ldir (els s) up i j && negb (Nat.eqb j i)).
    destruct (scan_spec
                (fun s0 j => let '(s', r) := if up then leq_elements s0 i j else leq_elements s0 j i in
                             (s', r && negb (Nat.eqb j i)))
                p I (seq 0 (size E s))) with (s := s) as [[H1 H2] H3].
    - intros s0 j [HS0 Hx0] Hj. apply In_seq0 in Hj.
      assert (Hsz : size E s0 = size E s) by (apply Sound_ext_els; exact Hx0).
      destruct up.
      + destruct (leq_elements_ok s0 i j HS0) as [A [B C]]; try lia.
        destruct (leq_elements s0 i j) as [s' r]. simpl in *.
        split; [split; [exact A | eapply ext_trans; eauto]|].
        unfold p. simpl. rewrite C, (ext_els _ _ Hx0). reflexivity.
      + destruct (leq_elements_ok s0 j i HS0) as [A [B C]]; try lia.
        destruct (leq_elements s0 j i) as [s' r]. simpl in *.
        split; [split; [exact A | eapply ext_trans; eauto]|].
        unfold p. simpl. rewrite C, (ext_els _ _ Hx0). reflexivity.
    - split; [exact HS | apply ext_refl].
    - split; [exact H1|]. split; [exact H2|]. rewrite H3. reflexivity.
  Qed.

  Lemma closed_cache_set_closed up up' s c :
    closed_cache E up' (set_closed E up s c) = if Bool.eqb up up' then c else closed_cache E up' s.
  Proof. destruct up, up'; reflexivity. Qed.
  Lemma cover_cache_set_closed up up' s c : cover_cache E up' (set_closed E up s c) = cover_cache E up' s.
  Proof. destruct up, up'; reflexivity. Qed.
  Lemma closed_cache_set_cover up up' s c : closed_cache E up' (set_cover E up s c) = closed_cache E up' s.
  Proof. destruct up, up'; reflexivity. Qed.
  Lemma cover_cache_set_cover up up' s c :
    cover_cache E up' (set_cover E up s c) = if Bool.eqb up up' then c else cover_cache E up' s.
  Proof. destruct up, up'; reflexivity. Qed.
  Lemma els_set_closed up s c : els (set_closed E up s c) = els s.
  Proof. destruct up; reflexivity. Qed.
  Lemma els_set_cover up s c : els (set_cover E up s c) = els s.
  Proof. destruct up; reflexivity. Qed.
  Lemma uc_set_closed up s c : use_cache (set_closed E up s c) = use_cache s.
  Proof. destruct up; reflexivity. Qed.
  Lemma uc_set_cover up s c : use_cache (set_cover E up s c) = use_cache s.
  Proof. destruct up; reflexivity. Qed.
  Lemma leq_set_closed up s c : c_leq (set_closed E up s c) = c_leq s.
  Proof. destruct up; reflexivity. Qed.
  Lemma leq_set_cover up s c : c_leq (set_cover E up s c) = c_leq s.
  Proof. destruct up; reflexivity. Qed.

  (* writing one sound entry into a closed cache *)
  Lemma Sound_set_closed up s i X :
    Sound s -> i < size E s -> NoDup X -> (forall j, In j X <-> In j (strict_rel (els s) up i)) ->
    Sound (set_closed E up s (upd i X (closed_cache E up s))).
  Proof.
    intros [H1 H2 H3 H4 H5] Hi HX HXm. constructor.
    - rewrite els_set_closed. exact H1.
    - rewrite els_set_closed, leq_set_closed. exact H2.
    - intros up'. rewrite els_set_closed, closed_cache_set_closed.
      destruct (Bool.eqb up up') eqn:Hu; [|apply H3].
      apply eqb_prop in Hu. subst up'. intros k Y Hin. apply In_upd in Hin.
      destruct Hin as [Heq | [Hin _]]; [injection Heq as -> ->; unfold size in Hi; rewrite app_length;
                                        split; [lia | split; [auto | intros Hc; exfalso; apply Hc; exact Hi]]
                                       | apply (H3 up); exact Hin].
    - intros up'. rewrite els_set_closed, cover_cache_set_closed. apply H4.
    - intros up' k Y. rewrite cover_cache_set_closed, closed_cache_set_closed. intros Hk.
      destruct (H5 up' k Y Hk) as [Z HZ].
      destruct (Bool.eqb up up') eqn:Hu; [|eauto].
      apply eqb_prop in Hu. subst up'. rewrite lk_upd. destruct (Nat.eqb k i); eauto.
  Qed.

  Lemma Sound_set_cover up s i X :
    Sound s -> i < size E s -> NoDup X -> (forall j, In j X <-> In j (covers (els s) up i)) ->
    (exists Y, lk (closed_cache E up s) i = Some Y) ->
    Sound (set_cover E up s (upd i X (cover_cache E up s))).
  Proof.
    intros [H1 H2 H3 H4 H5] Hi HX HXm Hcl. constructor.
    - rewrite els_set_cover. exact H1.
    - rewrite els_set_cover, leq_set_cover. exact H2.
    - intros up'. rewrite els_set_cover, closed_cache_set_cover. apply H3.
    - intros up'. rewrite els_set_cover, cover_cache_set_cover.
      destruct (Bool.eqb up up') eqn:Hu; [|apply H4].
      apply eqb_prop in Hu. subst up'. intros k Y Hin. apply In_upd in Hin.
      destruct Hin as [Heq | [Hin _]]; [injection Heq as -> ->; unfold size in Hi; rewrite app_length;
                                        split; [lia | split; [auto | intros Hc; exfalso; apply Hc; exact Hi]]
                                       | apply (H4 up); exact Hin].
    - intros up' k Y. rewrite cover_cache_set_cover, closed_cache_set_cover.
      destruct (Bool.eqb up up') eqn:Hu; [|apply H5].
      apply eqb_prop in Hu. subst up'. rewrite lk_upd.
      destruct (Nat.eqb k i) eqn:Hk; [apply Nat.eqb_eq in Hk; subst; intros _; exact Hcl | apply H5].
  Qed.

  Lemma ext_set_closed up s s1 i X :
    ext s s1 -> lk (closed_cache E up s) i = None ->
    ext s (set_closed E up s1 (upd i X (closed_cache E up s1))).
  Proof.
    intros [A1 A2 A3 A4 A5] Hn. constructor.
    - rewrite els_set_closed. exact A1.
    - rewrite uc_set_closed. exact A2.
    - rewrite leq_set_closed. auto.
    - intros up' k v Hk. rewrite closed_cache_set_closed.
      destruct (Bool.eqb up up') eqn:Hu; [|auto].
      apply eqb_prop in Hu. subst up'. rewrite lk_upd_other; [auto | congruence].
    - intros up' k v Hk. rewrite cover_cache_set_closed. auto.
  Qed.

  Lemma ext_set_cover up s s1 i X :
    ext s s1 -> lk (cover_cache E up s) i = None ->
    ext s (set_cover E up s1 (upd i X (cover_cache E up s1))).
  Proof.
    intros [A1 A2 A3 A4 A5] Hn. constructor.
    - rewrite els_set_cover. exact A1.
    - rewrite uc_set_cover. exact A2.
    - rewrite leq_set_cover. auto.
    - intros up' k v Hk. rewrite closed_cache_set_cover. auto.
    - intros up' k v Hk. rewrite cover_cache_set_cover.
      destruct (Bool.eqb up up') eqn:Hu; [|auto].
      apply eqb_prop in Hu. subst up'. rewrite lk_upd_other; [auto | congruence].
  Qed.

  (* what a relation accessor guarantees *)
  Definition rel_post (spec : list E -> bool -> nat -> list nat)
             (cache_of : bool -> state -> cache) (up : bool) (s : state) (i : nat)
             (r : state * list nat) : Prop :=
    Sound (fst r) /\ ext s (fst r) /\ NoDup (snd r) /\
    (forall j, In j (snd r) <-> In j (spec (els s) up i)) /\
    (use_cache s = true -> lk (cache_of up (fst r)) i = Some (snd r)).

  Lemma closed_ok_q up s i :
    Sound s -> i < size E s -> rel_post strict_rel (closed_cache E) up s i (closed up s i).
  Proof.
    intros HS Hi. unfold rel_post, Poset.closed.
    destruct (closed_nocache_ok up s i HS Hi) as [A [B C]].
    destruct (use_cache s) eqn:Huc.
    - destruct (lk (closed_cache E up s) i) as [r|] eqn:Hl.
      + simpl. pose proof (lk_In _ _ _ Hl) as Hin.
        destruct (snd_closed s HS up i r Hin) as [_ [Hq _]]. destruct (Hq Hi) as [Hnd Hm].
        split; [exact HS|]. split; [apply ext_refl|]. split; [exact Hnd|]. split; [exact Hm|].
        intros _. exact Hl.
      + destruct (closed_nocache up s i) as [s1 r]. simpl in *. subst r.
        assert (Hsz : size E s1 = size E s) by (apply Sound_ext_els; exact B).
        split; [|split; [|split; [|split]]].
        * apply Sound_set_closed; [exact A | lia | apply NoDup_strict_rel |].
          rewrite (ext_els _ _ B). tauto.
        * apply ext_set_closed; assumption.
        * apply NoDup_strict_rel.
        * tauto.
        * intros _. rewrite closed_cache_set_closed, eqb_reflx. apply lk_upd_same.
    - destruct (closed_nocache up s i) as [s1 r]. simpl in *. subst r.
      split; [exact A|]. split; [exact B|]. split; [apply NoDup_strict_rel|]. split; [tauto|].
      discriminate.
  Qed.

  (* ---------------------------------------------------------------- parents / children *)
  Lemma prune_ok up s0 (C : list nat) :
    (forall x, In x C -> x < size E s0) ->
    forall todo s cur, Sound s -> ext s0 s -> incl todo C -> incl cur C -> NoDup cur ->
    Sound (fst (prune (closed up) s todo cur)) /\ ext s (fst (prune (closed up) s todo cur)) /\
    NoDup (snd (prune (closed up) s todo cur)) /\ incl (snd (prune (closed up) s todo cur)) cur /\
    (forall j, In j cur -> (forall x, In x C -> ~ In j (strict_rel (els s0) up x)) ->
               In j (snd (prune (closed up) s todo cur))) /\
    (forall m j, In m todo -> In m cur -> (forall x, In x C -> ~ In m (strict_rel (els s0) up x)) ->
                 In j (strict_rel (els s0) up m) -> ~ In j (snd (prune (closed up) s todo cur))).
  Proof.
    intros HC. induction todo as [|x t IH]; intros s cur HS Hx Ht Hc Hnd; simpl.
    - split; [exact HS|]. split; [apply ext_refl|]. split; [exact Hnd|]. split; [apply incl_refl|].
      split; [auto|]. intros m j [].
    - assert (Ht' : incl t C) by (intros y Hy; apply Ht; right; exact Hy).
      destruct (mem x cur) eqn:Hmx.
      + apply mem_In in Hmx.
        assert (Hxr : x < size E s).
        { rewrite (Sound_ext_els _ _ Hx). apply HC. apply Ht. left. reflexivity. }
        destruct (closed_ok_q up s x HS Hxr) as [A [B [Cn [D _]]]].
        destruct (closed up s x) as [s1 r]. simpl in A, B, Cn, D.
        rewrite (ext_els _ _ Hx) in D.
        assert (Hx1 : ext s0 s1) by (eapply ext_trans; eauto).
        assert (Hc1 : incl (diff cur r) C) by (intros y Hy; apply In_diff in Hy; apply Hc; tauto).
        destruct (IH s1 (diff cur r) A Hx1 Ht' Hc1 (NoDup_diff _ _ Hnd)) as [P1 [P2 [P3 [P4 [P5 P6]]]]].
        split; [exact P1|]. split; [eapply ext_trans; eauto|]. split; [exact P3|].
        split; [intros y Hy; apply P4 in Hy; apply In_diff in Hy; tauto|].
        split.
        * intros j Hj Hmin. apply P5; [|exact Hmin]. apply In_diff. split; [exact Hj|].
          rewrite D. apply Hmin. apply Ht. left. reflexivity.
        * intros m j [<- | Hm] Hmc Hmin Hj.
          -- intros Hjr. apply P4 in Hjr. apply In_diff in Hjr. apply (proj2 Hjr). apply D. exact Hj.
          -- apply (P6 m j Hm); [|exact Hmin | exact Hj].
             apply In_diff. split; [exact Hmc|]. rewrite D. apply Hmin.
             apply Ht. left. reflexivity.
      + apply mem_false_iff in Hmx.
        destruct (IH s cur HS Hx Ht' Hc Hnd) as [P1 [P2 [P3 [P4 [P5 P6]]]]].
        split; [exact P1|]. split; [exact P2|]. split; [exact P3|]. split; [exact P4|].
        split; [exact P5|]. intros m j [<- | Hm] Hmc Hmin Hj; [contradiction | apply (P6 m j Hm Hmc Hmin Hj)].
  Qed.

  Lemma cover_nocache_ok up s i :
    Sound s -> i < size E s ->
    Sound (fst (cover_nocache up s i)) /\ ext s (fst (cover_nocache up s i)) /\
    NoDup (snd (cover_nocache up s i)) /\
    (forall j, In j (snd (cover_nocache up s i)) <-> In j (covers (els s) up i)) /\
    (use_cache s = true -> exists Y, lk (closed_cache E up (fst (cover_nocache up s i))) i = Some Y).
  Proof.
    intros HS Hi. unfold Poset.cover_nocache.
    destruct (closed_ok_q up s i HS Hi) as [A [B [Cn [D Dk]]]].
    destruct (closed up s i) as [s1 sup]. simpl in A, B, Cn, D, Dk.
    assert (HC : forall x, In x sup -> x < size E s).
    { intros x Hx. apply D in Hx. apply In_strict_rel in Hx. destruct Hx as [Hx _].
      apply ldir_range in Hx. unfold size. tauto. }
    assert (Hnorm : incl (norm sup) sup) by (intros x Hx; apply In_norm; exact Hx).
    destruct (prune_ok up s sup HC (norm sup) s1 sup A B Hnorm (incl_refl _) Cn)
      as [P1 [P2 [P3 [P4 [P5 P6]]]]].
    split; [exact P1|]. split; [eapply ext_trans; eauto|]. split; [exact P3|].
    split; [|intros Huc; exists sup; apply (ext_closed _ _ P2); auto].
    intros j. rewrite In_covers. split.
    - intros Hj. assert (Hjs : In j sup) by (apply P4; exact Hj).
      split; [apply D; exact Hjs|]. intros k Hk Hjk.
      apply D in Hk.
      destruct (exists_minimal_below E leq eqb PO (els s) up sup (snd_nodup s HS) k Hk) as [m [Hm [Hmk Hmin]]].
      { apply HC. exact Hk. }
      apply In_strict_rel in Hjk. destruct Hjk as [Hkj Hne].
      apply (P6 m j (proj2 (In_norm m sup) Hm) Hm).
      + intros x Hx Hmx. apply In_strict_rel in Hmx. apply (Hmin x Hx). exact Hmx.
      + apply In_strict_rel. split; [eapply ldir_trans; eauto|].
        intros ->. apply Hne. symmetry. eapply ldir_antisym; eauto. exact (snd_nodup s HS).
      + exact Hj.
    - intros [Hj Hmin]. apply P5; [apply D; exact Hj|].
      intros x Hx. apply Hmin. apply D. exact Hx.
  Qed.

  Lemma cover_ok_q up s i :
    Sound s -> i < size E s -> rel_post covers (cover_cache E) up s i (cover up s i).
  Proof.
    intros HS Hi. unfold rel_post, Poset.cover.
    destruct (cover_nocache_ok up s i HS Hi) as [A [B [C [D Dk]]]].
    destruct (use_cache s) eqn:Huc.
    - destruct (lk (cover_cache E up s) i) as [r|] eqn:Hl.
      + simpl. pose proof (lk_In _ _ _ Hl) as Hin.
        destruct (snd_cover s HS up i r Hin) as [_ [Hq _]]. destruct (Hq Hi) as [Hnd Hm].
        split; [exact HS|]. split; [apply ext_refl|]. split; [exact Hnd|]. split; [exact Hm|].
        intros _. exact Hl.
      + destruct (cover_nocache up s i) as [s1 r]. simpl in *.
        assert (Hsz : size E s1 = size E s) by (apply Sound_ext_els; exact B).
        split; [|split; [|split; [|split]]].
        * apply Sound_set_cover; [exact A | lia | exact C | | auto].
          rewrite (ext_els _ _ B). exact D.
        * apply ext_set_cover; assumption.
        * exact C.
        * exact D.
        * intros _. rewrite cover_cache_set_cover, eqb_reflx. apply lk_upd_same.
    - destruct (cover_nocache up s i) as [s1 r]. simpl in *.
      split; [exact A|]. split; [exact B|]. split; [exact C|]. split; [exact D|]. discriminate.
  Qed.

  (* ---------------------------------------------------------------- tops / bottoms *)
  Lemma extremes_q_ok up s :
    Sound s ->
    Sound (fst (extremes_q E leq up s)) /\ ext s (fst (extremes_q E leq up s)) /\
    snd (extremes_q E leq up s) = extremes E leq (els s) up.
  Proof.
    intros HS. unfold extremes_q.
    pose (I := fun s' => Sound s' /\ ext s s').
    destruct (scan_spec (fun s0 j => let '(s', r) := closed up s0 j in (s', is_nil r))
                        (fun j => is_nil (strict_rel (els s) up j)) I (seq 0 (size E s)))
      with (s := s) as [[H1 H2] H3].
    - intros s0 j [HS0 Hx0] Hj. apply In_seq0 in Hj.
      assert (Hsz : size E s0 = size E s) by (apply Sound_ext_els; exact Hx0).
      destruct (closed_ok_q up s0 j HS0) as [A [B [C [D _]]]]; [lia|].
      destruct (closed up s0 j) as [s' r]. simpl in *.
      split; [split; [exact A | eapply ext_trans; eauto]|].
      apply is_nil_same_members. rewrite <- (ext_els _ _ Hx0). exact D.
    - split; [exact HS | apply ext_refl].
    - split; [exact H1|]. split; [exact H2|]. rewrite H3. reflexivity.
  Qed.

  (* ---------------------------------------------------------------- join / meet *)
  Lemma fold_closed_inv up (g : list nat -> list nat -> nat -> list nat)
        (Inv : list nat -> list nat -> Prop) s0 :
    (forall done c y a, Inv done c -> y < size E s0 -> NoDup a ->
                        (forall j, In j a <-> In j (strict_rel (els s0) up y)) ->
                        Inv (done ++ [y]) (g c a y)) ->
    forall ys done s c, (forall y, In y ys -> y < size E s0) -> Sound s -> ext s0 s -> Inv done c ->
      let r := fold_left (fun (sc : state * list nat) y =>
                            let '(s', a) := closed up (fst sc) y in (s', g (snd sc) a y)) ys (s, c) in
      Sound (fst r) /\ ext s (fst r) /\ Inv (done ++ ys) (snd r).
  Proof.
    intros Hg. induction ys as [|y ys IH]; intros done s c Hr HS Hx HI; simpl.
    - rewrite app_nil_r. split; [exact HS|]. split; [apply ext_refl | exact HI].
    - assert (Hy : y < size E s) by (rewrite (Sound_ext_els _ _ Hx); apply Hr; left; reflexivity).
      destruct (closed_ok_q up s y HS Hy) as [A [B [C [D _]]]].
      destruct (closed up s y) as [s1 a]. simpl in A, B, C, D. rewrite (ext_els _ _ Hx) in D.
      assert (Hr' : forall y0, In y0 ys -> y0 < size E s0) by (intros y0 H0; apply Hr; right; exact H0).
      destruct (IH (done ++ [y]) s1 (g c a y) Hr' A (ext_trans _ _ _ Hx B)) as [P1 [P2 P3]].
      + apply Hg; auto. apply Hr. left. reflexivity.
      + split; [exact P1|]. split; [eapply ext_trans; eauto|].
        rewrite <- app_assoc in P3. exact P3.
  Qed.

  Lemma In_upset l up x a j :
    x < length l -> (forall j, In j a <-> In j (strict_rel l up x)) ->
    In j (union a [x]) <-> ldir l up x j = true.
  Proof.
    intros Hx Ha. rewrite In_union, Ha, In_strict_rel. simpl. split.
    - intros [[H _] | [<- | []]]; [exact H | eapply ldir_refl; eauto].
    - intros H. destruct (Nat.eq_dec j x) as [-> | Hne]; [right; left; reflexivity | left; tauto].
  Qed.

  Lemma In_bounds l up (ls : list nat) x j :
    In x ls -> (In j (bounds E leq l up ls) <-> forall i, In i ls -> ldir l up i j = true).
  Proof.
    intros Hx. unfold bounds, idxs. rewrite filter_In, In_seq0, forallb_forall. split; [tauto|].
    intros H. split; [|exact H]. specialize (H x Hx). apply ldir_range in H. tauto.
  Qed.

  Lemma In_minimal_of l up (c : list nat) j :
    In j (minimal_of E leq l up c) <-> In j c /\ forall k, In k c -> ~ In j (strict_rel l up k).
  Proof.
    unfold minimal_of. rewrite filter_In, negb_true_iff. split.
    - intros [H1 H2]. split; [exact H1|]. intros k Hk Hj. apply In_strict_rel in Hj.
      assert (existsb (fun k0 => ldir l up k0 j && negb (Nat.eqb k0 j)) c = true); [|congruence].
      apply existsb_exists. exists k. split; [exact Hk|]. destruct Hj as [-> Hne]. simpl.
      apply negb_true_iff, Nat.eqb_neq. auto.
    - intros [H1 H2]. split; [exact H1|]. destruct (existsb _ c) eqn:He; [|reflexivity].
      apply existsb_exists in He. destruct He as [k [Hk Hkj]]. apply andb_true_iff in Hkj.
      destruct Hkj as [Hd Hne]. apply negb_true_iff, Nat.eqb_neq in Hne.
      exfalso. apply (H2 k Hk). apply In_strict_rel. split; auto.
  Qed.

  Lemma bound_q_ok up s l :
    Sound s -> (forall x, In x l -> x < size E s) ->
    Sound (fst (bound_q E leq up s l)) /\ ext s (fst (bound_q E leq up s l)) /\
    snd (bound_q E leq up s l) = spec_query E leq eqb (els s) (use_cache s) (QBound up l).
  Proof.
    intros HS Hl. unfold bound_q. cbn [spec_query]. unfold bound_spec, idxs.
    change (length (els s)) with (size E s).
    set (l' := match l with [] => seq 0 (size E s) | _ => l end).
    assert (Hl' : forall x, In x l' -> x < size E s).
    { subst l'. destruct l; [intros x Hx; apply In_seq0 in Hx; exact Hx | exact Hl]. }
    assert (Hnil : l' = [] -> els s = []).
    { subst l'. destruct l; [|discriminate]. unfold size. destruct (els s); [reflexivity | discriminate]. }
    clearbody l'. clear Hl.
    destruct l' as [|x rest].
    - rewrite (Hnil eq_refl). simpl. split; [exact HS|]. split; [apply ext_refl | reflexivity].
    - clear Hnil.
      assert (Hxr : x < size E s) by (apply Hl'; left; reflexivity).
      assert (Hne : els s <> []) by (unfold size in Hxr; destruct (els s); [simpl in Hxr; lia | discriminate]).
      destruct (closed_ok_q up s x HS Hxr) as [A [B [C [D _]]]].
      destruct (closed up s x) as [s1 a0]. simpl in A, B, C, D.
      pose (Inv1 := fun (done c : list nat) =>
                      NoDup c /\ forall j, In j c <-> forall i, In i (x :: done) -> ldir (els s) up i j = true).
      destruct (fold_closed_inv up (fun c a y => inter c (union a [y])) Inv1 s) with
        (ys := rest) (done := @nil nat) (s := s1) (c := union a0 [x]) as [P1 [P2 [P3 P4]]].
      { intros done c y a [Hc1 Hc2] Hy Ha1 Ha2. split; [apply NoDup_inter; exact Hc1|].
        intros j. rewrite In_inter, Hc2, (In_upset (els s) up y a j Hy Ha2). split.
        - intros [H1 H2] i Hi. rewrite app_comm_cons in Hi. apply in_app_or in Hi.
          destruct Hi as [Hi | [<- | []]]; auto.
        - intros H. split; [intros i Hi; apply H; rewrite app_comm_cons; apply in_or_app; left; exact Hi|].
          apply H. rewrite app_comm_cons. apply in_or_app. right. left. reflexivity. }
      { intros y Hy. apply Hl'. right. exact Hy. }
      { exact A. }
      { exact B. }
      { split; [apply NoDup_union; [exact C | constructor; [simpl; tauto | constructor]]|].
        intros j. rewrite (In_upset (els s) up x a0 j Hxr D). split.
        - intros H i [<- | []]. exact H.
        - intros H. apply H. left. reflexivity. }
      cbn [app] in P4.
      destruct (fold_left _ rest (s1, union a0 [x])) as [s2 cur]. cbn [fst snd] in P1, P2, P3, P4.
      assert (Hcur : forall y, In y cur -> y < size E s).
      { intros y Hy. pose proof (proj1 (P4 y) Hy x (or_introl eq_refl)) as Hy'. clear Hy. rename Hy' into Hy.
        apply ldir_range in Hy. unfold size. tauto. }
      pose (Inv2 := fun (done c : list nat) =>
                      NoDup c /\ forall j, In j c <-> In j cur /\
                                                   forall y, In y done -> ~ In j (strict_rel (els s) up y)).
      destruct (fold_closed_inv up (fun c a _ => diff c a) Inv2 s) with
        (ys := cur) (done := @nil nat) (s := s2) (c := cur) as [Q1 [Q2 [Q3 Q4]]].
      { intros done c y a [Hc1 Hc2] Hy Ha1 Ha2. split; [apply NoDup_diff; exact Hc1|].
        intros j. rewrite In_diff, Hc2, Ha2. split.
        - intros [[H1 H2] H3]. split; [exact H1|]. intros y0 Hy0. apply in_app_or in Hy0.
          destruct Hy0 as [Hy0 | [<- | []]]; auto.
        - intros [H1 H2]. split; [split; [exact H1|]|].
          + intros y0 Hy0. apply H2. apply in_or_app. left. exact Hy0.
          + apply H2. apply in_or_app. right. left. reflexivity. }
      { exact Hcur. }
      { exact P1. }
      { eapply ext_trans; eauto. }
      { split; [exact P3|]. intros j. split; [intros H; split; [exact H | intros y []] | tauto]. }
      cbn [app] in Q4.
      destruct (fold_left _ cur (s2, cur)) as [s3 fin]. cbn [fst snd] in Q1, Q2, Q3, Q4. cbn [fst snd].
      split; [exact Q1|]. split; [eapply ext_trans; [exact B|]; eapply ext_trans; eauto|].
      assert (Hm : forall (X Y : out E), match els s with [] => X | _ :: _ => Y end = Y)
        by (intros; destruct (els s); [contradiction | reflexivity]).
      rewrite Hm. f_equal.
      apply same_members_singleton.
      + exact Q3.
      + unfold minimal_of. apply NoDup_filter. unfold bounds. apply NoDup_filter. apply seq_NoDup.
      + intros j. rewrite Q4, In_minimal_of.
        assert (Hb : forall k, In k cur <-> In k (bounds E leq (els s) up (x :: rest))).
        { intros k. rewrite P4, (In_bounds (els s) up (x :: rest) x k (or_introl eq_refl)). reflexivity. }
        rewrite Hb. split; intros [H1 H2]; (split; [exact H1|]); intros k Hk; apply H2; apply Hb; exact Hk.
  Qed.

  (* ---------------------------------------------------------------- index / membership *)
  Lemma memE_In e l : memE e l = true <-> In e l.
  Proof.
    unfold PosetSpec.memE. rewrite existsb_exists. split.
    - intros [x [Hx He]]. apply (po_eqb _ _ _ PO) in He. subst. exact Hx.
    - intros H. exists e. split; [exact H | apply (po_eqb _ _ _ PO); reflexivity].
  Qed.

  Lemma index_from_Some k e l i :
    index_from E eqb k e l = Some i -> k <= i /\ nth_error l (i - k) = Some e.
  Proof.
    revert k. induction l as [|x l IH]; intros k; simpl; [discriminate|].
    destruct (eqb e x) eqn:He.
    - intros H. injection H as <-. apply (po_eqb _ _ _ PO) in He. subst.
      rewrite Nat.sub_diag. simpl. auto.
    - intros H. apply IH in H. destruct H as [H1 H2]. split; [lia|].
      replace (i - k) with (S (i - S k)) by lia. exact H2.
  Qed.

  Lemma index_of_Some e l i : index_of e l = Some i -> nth_error l i = Some e.
  Proof.
    intros H. apply index_from_Some in H. destruct H as [_ H]. rewrite Nat.sub_0_r in H. exact H.
  Qed.

  Lemma index_from_nth l : forall k j x,
    NoDup l -> nth_error l j = Some x -> index_from E eqb k x l = Some (k + j).
  Proof.
    induction l as [|y l IH]; intros k j x Hn Hj; [destruct j; discriminate|].
    inversion Hn as [|? ? Hy Hl]; subst. destruct j as [|j]; simpl in *.
    - injection Hj as ->. replace (eqb x x) with true; [f_equal; lia|].
      symmetry. apply (po_eqb _ _ _ PO). reflexivity.
    - destruct (eqb x y) eqn:He.
      + apply (po_eqb _ _ _ PO) in He. subst. exfalso. apply Hy. eapply nth_error_In; eauto.
      + rewrite (IH (S k) j x Hl Hj). f_equal. lia.
  Qed.

  Lemma index_of_nth l j x : NoDup l -> nth_error l j = Some x -> index_of x l = Some j.
  Proof. intros Hn Hj. unfold PosetSpec.index_of. rewrite (index_from_nth l 0 j x Hn Hj). reflexivity. Qed.

  Lemma index_of_In e l : In e l -> exists i, index_of e l = Some i.
  Proof.
    unfold PosetSpec.index_of. generalize 0. induction l as [|x l IH]; intros k; simpl; [tauto|].
    destruct (eqb e x) eqn:He; [eauto|]. intros [-> | H]; [|apply IH; exact H].
    assert (eqb e e = true) by (apply (po_eqb _ _ _ PO); reflexivity). congruence.
  Qed.

  (* ---------------------------------------------------------------- __eq__ *)
  Lemma set_eqE_spec l1 l2 : set_eqE E eqb l1 l2 = true <-> (forall e, In e l1 <-> In e l2).
  Proof.
    unfold set_eqE. rewrite andb_true_iff, !forallb_forall. split.
    - intros [H1 H2] e. split; intros H; apply memE_In; auto.
    - intros H. split; intros e He; apply memE_In; apply H; exact He.
  Qed.

  Lemma map_back_members l1 l2 i i2 e d1 d2 :
    NoDup l1 -> NoDup l2 -> (forall x, In x l1 <-> In x l2) ->
    nth_error l1 i = Some e -> nth_error l2 i2 = Some e ->
    (forall j, In j d1 <-> In j (strict_rel l1 false i)) ->
    (forall j, In j d2 <-> In j (strict_rel l2 false i2)) ->
    forall j, In j d1 <-> In j (map_back E eqb l1 l2 d2).
  Proof.
    intros N1 N2 Hs Hi Hi2 H1 H2 j. unfold map_back. rewrite in_flat_map, H1, In_strict_rel. simpl.
    unfold PosetSpec.lq. rewrite Hi. split.
    - intros [Hle Hne]. destruct (nth_error l1 j) as [x|] eqn:Hj; [|discriminate].
      assert (Hx2 : In x l2) by (apply Hs; eapply nth_error_In; eauto).
      apply In_nth_error in Hx2. destruct Hx2 as [j2 Hj2].
      exists j2. split.
      + apply H2. apply In_strict_rel. simpl. unfold PosetSpec.lq. rewrite Hj2, Hi2.
        split; [exact Hle|]. intros ->. apply Hne. rewrite Hi2 in Hj2. injection Hj2 as ->.
        eapply (NoDup_nth_error_inj _ l1); eauto.
      + rewrite Hj2, (index_of_nth l1 j x N1 Hj). left. reflexivity.
    - intros [j2 [Hj2 Hin]]. apply H2 in Hj2. apply In_strict_rel in Hj2. simpl in Hj2.
      unfold PosetSpec.lq in Hj2. rewrite Hi2 in Hj2. destruct Hj2 as [Hle Hne].
      destruct (nth_error l2 j2) as [x|] eqn:Hx; [|discriminate].
      destruct (index_of x l1) as [j'|] eqn:Hidx; [|destruct Hin].
      destruct Hin as [<- | []]. apply index_of_Some in Hidx. rewrite Hidx.
      split; [exact Hle|]. intros ->. apply Hne. rewrite Hi in Hidx. injection Hidx as ->.
      eapply (NoDup_nth_error_inj _ l2); eauto.
  Qed.

  Lemma eq_loop_ok : forall is s1 s2,
    Sound s1 -> Sound s2 -> (forall e, In e (els s1) <-> In e (els s2)) ->
    (forall i, In i is -> i < size E s1) ->
    let r := eq_loop E leq eqb is s1 s2 in
    Sound (fst (fst r)) /\ ext s1 (fst (fst r)) /\ Sound (snd (fst r)) /\ ext s2 (snd (fst r)) /\
    snd r = true.
  Proof.
    induction is as [|i is IH]; intros s1 s2 S1 S2 Hs Hr; simpl.
    - auto using ext_refl.
    - assert (Hi : i < size E s1) by (apply Hr; left; reflexivity).
      destruct (nth_error (els s1) i) as [e|] eqn:He; [|apply nth_error_None in He; unfold size in Hi; lia].
      assert (He2 : In e (els s2)) by (apply Hs; eapply nth_error_In; eauto).
      destruct (index_of_In e _ He2) as [i2 Hi2]. rewrite Hi2.
      pose proof (index_of_Some _ _ _ Hi2) as Hn2.
      assert (Hi2r : i2 < size E s2) by (unfold size; apply nth_error_Some; congruence).
      destruct (closed_ok_q false s1 i S1 Hi) as [A1 [B1 [C1 [D1 _]]]].
      destruct (closed false s1 i) as [s1' d1]. simpl in A1, B1, C1, D1.
      destruct (closed_ok_q false s2 i2 S2 Hi2r) as [A2 [B2 [C2 [D2 _]]]].
      destruct (closed false s2 i2) as [s2' d2]. simpl in A2, B2, C2, D2.
      replace (same_setb d1 (map_back E eqb (els s1) (els s2) d2)) with true.
      + destruct (IH s1' s2' A1 A2) as [P1 [P2 [P3 [P4 P5]]]].
        * rewrite (ext_els _ _ B1), (ext_els _ _ B2). exact Hs.
        * intros k Hk. rewrite (Sound_ext_els _ _ B1). apply Hr. right. exact Hk.
        * split; [exact P1|]. split; [eapply ext_trans; eauto|]. split; [exact P3|].
          split; [eapply ext_trans; eauto | exact P5].
      + symmetry. apply same_setb_spec. intros j.
        apply (map_back_members (els s1) (els s2) i i2 e d1 d2); auto using snd_nodup.
  Qed.

  Lemma poset_eq_ok s1 s2 :
    Sound s1 -> Sound s2 ->
    let r := poset_eq E leq eqb s1 s2 in
    Sound (fst (fst r)) /\ ext s1 (fst (fst r)) /\ Sound (snd (fst r)) /\ ext s2 (snd (fst r)) /\
    snd r = spec_eq E eqb (els s1) (els s2).
  Proof.
    intros S1 S2. unfold poset_eq. change (spec_eq E eqb (els s1) (els s2)) with (set_eqE E eqb (els s1) (els s2)).
    destruct (set_eqE E eqb (els s1) (els s2)) eqn:Hse.
    - pose proof (proj1 (set_eqE_spec _ _) Hse) as Hse'. apply eq_loop_ok; auto.
      intros i Hi. apply In_seq0 in Hi. exact Hi.
    - simpl. auto using ext_refl.
  Qed.

  (* ---------------------------------------------------------------- fill_up_* *)
  Lemma fold_state_inv (f : state -> nat -> state) s0 js :
    (forall s j, Sound s -> ext s0 s -> In j js -> Sound (f s j) /\ ext s (f s j)) ->
    forall s, Sound s -> ext s0 s -> Sound (fold_left f js s) /\ ext s (fold_left f js s).
  Proof.
    induction js as [|j js IH]; intros Hf s HS Hx; simpl; [auto using ext_refl|].
    destruct (Hf s j HS Hx (or_introl eq_refl)) as [A B].
    destruct (IH (fun s j H1 H2 H3 => Hf s j H1 H2 (or_intror H3)) (f s j) A (ext_trans _ _ _ Hx B)) as [P Q].
    split; [exact P | eapply ext_trans; eauto].
  Qed.

  Lemma fill_rel_ok (f : state -> nat -> state * list nat) s :
    (forall s i, Sound s -> i < size E s -> Sound (fst (f s i)) /\ ext s (fst (f s i))) ->
    Sound s -> Sound (fill_rel E f s) /\ ext s (fill_rel E f s).
  Proof.
    intros Hf HS. unfold fill_rel. apply (fold_state_inv (fun s i => fst (f s i)) s).
    - intros s' j HS' Hx Hj. apply Hf; [exact HS'|]. rewrite (Sound_ext_els _ _ Hx). apply In_seq0. exact Hj.
    - exact HS.
    - apply ext_refl.
  Qed.

  Lemma fill_leq_ok s : Sound s -> Sound (fill_leq E leq s) /\ ext s (fill_leq E leq s).
  Proof.
    intros HS. unfold fill_leq. apply (fold_state_inv _ s); [|exact HS | apply ext_refl].
    intros s1 i HS1 Hx1 Hi. apply In_seq0 in Hi.
    apply (fold_state_inv _ s1); [|exact HS1 | apply ext_refl].
    intros s2 j HS2 Hx2 Hj. apply In_seq0 in Hj.
    destruct (lkl (c_leq s2) (i, j)); [auto using ext_refl|].
    destruct (leq_elements_ok s2 i j HS2) as [A [B _]].
    - rewrite (Sound_ext_els _ _ Hx2), (Sound_ext_els _ _ Hx1). exact Hi.
    - rewrite (Sound_ext_els _ _ Hx2). exact Hj.
    - auto.
  Qed.

  Lemma fill_ok k s : Sound s -> Sound (fill E leq k s) /\ ext s (fill E leq k s).
  Proof.
    intros HS.
    assert (Hc : forall up s, Sound s -> Sound (fill_rel E (closed up) s) /\ ext s (fill_rel E (closed up) s)).
    { intros up s0 H0. apply fill_rel_ok; [|exact H0]. intros s1 i H1 Hi.
      destruct (closed_ok_q up s1 i H1 Hi) as [A [B _]]. auto. }
    assert (Hv : forall up s, Sound s -> Sound (fill_rel E (cover up) s) /\ ext s (fill_rel E (cover up) s)).
    { intros up s0 H0. apply fill_rel_ok; [|exact H0]. intros s1 i H1 Hi.
      destruct (cover_ok_q up s1 i H1 Hi) as [A [B _]]. auto. }
    unfold fill. destruct k as [|[|[|[|[|k]]]]]; auto using fill_leq_ok.
    destruct (fill_leq_ok s HS) as [A1 B1].
    destruct (Hc false _ A1) as [A2 B2]. destruct (Hc true _ A2) as [A3 B3].
    destruct (Hv false _ A3) as [A4 B4]. destruct (Hv true _ A4) as [A5 B5].
    split; [exact A5|]. repeat (eapply ext_trans; [eassumption|]). apply ext_refl.
  Qed.

  (* ---------------------------------------------------------------- every non-mutating call *)
  Definition valid_op (s : state) (o : op E) : Prop :=
    match o with
    | QLeq a b => a < size E s /\ b < size E s
    | QClosed _ i | QCover _ i | ODel i => i < size E s
    | QBound _ l => forall x, In x l -> x < size E s
    | QEq other _ => NoDup other
    | _ => True
    end.

  Definition mutating (o : op E) : bool :=
    match o with OAdd _ _ | ODel _ | ORemove _ => true | _ => false end.

  Lemma filter_filter {A} (p q : A -> bool) l : filter q (filter p l) = filter (fun x => p x && q x) l.
  Proof.
    induction l as [|x l IH]; simpl; [reflexivity|].
    destruct (p x); simpl; [destruct (q x); rewrite IH; reflexivity | exact IH].
  Qed.

  Lemma norm_strict_rel l up i r :
    (forall j, In j r <-> In j (strict_rel l up i)) -> norm r = strict_rel l up i.
  Proof.
    intros H. unfold PosetSpec.strict_rel, idxs. apply norm_eq_filter.
    intros x. rewrite H. unfold PosetSpec.strict_rel, idxs. rewrite filter_In, In_seq0. reflexivity.
  Qed.

  Lemma covers_filter_form l up i : exists q, covers l up i = filter q (seq 0 (length l)).
  Proof.
    unfold PosetSpec.covers. set (q := fun j : nat => negb _).
    unfold PosetSpec.strict_rel, idxs. rewrite filter_filter. eexists. reflexivity.
  Qed.

  Lemma norm_covers l up i r :
    (forall j, In j r <-> In j (covers l up i)) -> norm r = covers l up i.
  Proof.
    intros H. destruct (covers_filter_form l up i) as [q Hq]. rewrite Hq in *.
    apply norm_eq_filter. intros x. rewrite H, filter_In, In_seq0. reflexivity.
  Qed.

  Theorem nonmut_step_ok s o :
    Sound s -> valid_op s o -> mutating o = false ->
    Sound (fst (step E leq eqb s o)) /\ ext s (fst (step E leq eqb s o)) /\
    snd (step E leq eqb s o) = spec_query E leq eqb (els s) (use_cache s) o.
  Proof.
    intros HS Hv Hm. destruct o; try discriminate; cbn [step spec_query valid_op] in *.
    - destruct Hv as [Ha Hb]. destruct (leq_elements_ok s a b HS Ha Hb) as [A [B C]].
      destruct (leq_elements s a b). simpl in *. subst. auto.
    - destruct (closed_ok_q up s i HS Hv) as [A [B [C [D _]]]].
      destruct (closed up s i). simpl in *. split; [exact A|]. split; [exact B|]. f_equal.
      apply norm_strict_rel. exact D.
    - destruct (cover_ok_q up s i HS Hv) as [A [B [C [D _]]]].
      destruct (cover up s i). simpl in *. split; [exact A|]. split; [exact B|]. f_equal.
      apply norm_covers. exact D.
    - destruct (extremes_q_ok up s HS) as [A [B C]].
      destruct (extremes_q E leq up s). simpl in *. subst. auto.
    - apply bound_q_ok; assumption.
    - simpl. auto using ext_refl.
    - simpl. auto using ext_refl.
    - simpl. auto using ext_refl.
    - destruct (poset_eq_ok s (init E other other_cache) HS (init_sound other other_cache Hv)) as [A [B [_ [_ C]]]].
      destruct (poset_eq E leq eqb s (init E other other_cache)) as [[s1 s2] b]. simpl in *. subst. auto.
    - destruct (use_cache s); simpl; [|auto using ext_refl].
      destruct (fill_ok k s HS). auto.
  Qed.
End Query.

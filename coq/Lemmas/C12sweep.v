(* Lemmas/C12sweep.v — construct_lattice_from_spanning_tree: sweeping all chains for every
   concept, with the per-chain resume pointers, yields exactly the cover relation. *)
From Coq Require Import Permutation Sorted.
From FCA Require Export Lemmas.C12Order Lemmas.C12rem.

Lemma sorted_split_pre {A} (R : A -> A -> Prop) pre c post :
  StronglySorted R (pre ++ c :: post) -> forall p, In p pre -> R p c.
Proof.
  induction pre as [|q pre IH]; simpl; intros Hs p Hp; [contradiction|].
  inversion Hs as [|? ? Hs' Hall]; subst. destruct Hp as [Hp|Hp].
  - subst q. rewrite Forall_forall in Hall. apply Hall. apply in_or_app. right. left. reflexivity.
  - apply IH; assumption.
Qed.

Lemma In_firstn_In {A} (k : nat) (l : list A) (x : A) : In x (firstn k l) -> In x l.
Proof.
  revert l. induction k as [|k IH]; intros l H; simpl in H; [contradiction|].
  destruct l as [|y l]; [contradiction|]. destruct H as [H|H]; [left; exact H | right; apply IH; exact H].
Qed.

Lemma Forall2_impl_in {A B} (P Q : A -> B -> Prop) l1 l2 :
  (forall a b, In a l1 -> P a b -> Q a b) -> Forall2 P l1 l2 -> Forall2 Q l1 l2.
Proof.
  intros H HF. induction HF as [|a b l1 l2 Hab HF IH]; constructor.
  - apply H; [left; reflexivity | exact Hab].
  - apply IH. intros a' b' Ha'. apply H. right. exact Ha'.
Qed.

Lemma Forall2_repeat0 {A} (P : A -> nat -> Prop) (l : list A) :
  (forall a, P a 0) -> Forall2 P l (repeat 0 (length l)).
Proof. intros H. induction l as [|a l IH]; simpl; constructor; [apply H | exact IH]. Qed.

Section Sweep.
Variable lt : nat -> nat -> bool.
Variable rank : nat -> nat.
Variable n : nat.
Hypothesis SO : strict_order lt n.
Hypothesis Hrank : forall i j, i < n -> j < n -> lt i j = true -> rank j < rank i.
Variable t : nat.
Hypothesis Ht : is_top lt n t.

(* a chain: consecutive elements strictly descending *)
Fixpoint descending (ch : list nat) : Prop :=
  match ch with
  | x :: ((y :: _) as ch') => lt y x = true /\ descending ch'
  | _ => True
  end.

Definition valid_chain (ch : list nat) : Prop :=
  (exists rest, ch = t :: rest) /\ descending ch /\ (forall x, In x ch -> x < n).

Definition U (c x : nat) : Prop := x < n /\ lt c x = true.
Definition is_ucover (c x : nat) : Prop := In x (upper_covers lt n c).

Lemma desc_strong ch : (forall x, In x ch -> x < n) -> descending ch ->
  StronglySorted (fun a b => lt b a = true) ch.
Proof.
  induction ch as [|x ch IH]; intros Hb Hd; [constructor|].
  assert (Hb' : forall y, In y ch -> y < n) by (intros y Hy; apply Hb; right; exact Hy).
  destruct ch as [|y ch'].
  - constructor; constructor.
  - destruct Hd as [Hyx Hd']. specialize (IH Hb' Hd'). constructor; [exact IH|].
    constructor; [exact Hyx|]. inversion IH as [|? ? _ Hall]; subst.
    rewrite Forall_forall in *. intros z Hz. specialize (Hall z Hz).
    apply (lt_trans lt n SO z y x); auto.
    + apply Hb'. right. exact Hz.
    + apply Hb'. left. reflexivity.
    + apply Hb. left. reflexivity.
Qed.

Lemma U_top c : c < n -> c <> t -> U c t.
Proof. intros Hc Hne. split; [apply Ht | apply Ht; assumption]. Qed.

(* ------------------------------------------------------------------ one chain *)
Definition LI (c : nat) (l : local) (pend : option nat) : Prop :=
  (forall x, In x (l_S l) -> U c x) /\
  (forall x, In x (l_A l) -> U c x) /\
  (forall x, In x (l_I l) -> x < n /\ lt c x = false) /\
  (forall x, In x (l_A l) -> is_ucover c x -> In x (l_S l) \/ pend = Some x).

Section OneChain.
Variable c : nat.
Hypothesis Hc : c < n.
Variable ch : list nat.
Hypothesis Hb : forall x, In x ch -> x < n.
Hypothesis Hss : StronglySorted (fun a b => lt b a = true) ch.
Hypothesis Hhead : exists rest, ch = t :: rest.

(* under the invariant the computed flag is the truth *)
Lemma is_super_truth l pend x : LI c l pend -> x < n ->
  (if mem x (l_I l) then false else if Nat.ltb (rank x) (rank c) then lt c x else false) = lt c x.
Proof.
  intros [_ [_ [L3 _]]] Hx. destruct (mem x (l_I l)) eqn:E.
  - apply mem_In in E. symmetry. apply L3. exact E.
  - destruct (Nat.ltb (rank x) (rank c)) eqn:E2; [reflexivity|]. apply Nat.ltb_ge in E2.
    destruct (lt c x) eqn:E3; [|reflexivity]. assert (X := Hrank c x Hc Hx E3). lia.
Qed.

Lemma not_cover_between x z : x < n -> z < n -> lt c x = true -> lt x z = true -> ~ is_ucover c z.
Proof.
  intros Hx Hz H1 H2 Hcov. apply (upper_covers_In lt n) in Hcov. destruct Hcov as [_ [_ Hnb]].
  assert (X : between lt n c z = true) by (apply (between_spec lt n); exists x; auto). congruence.
Qed.

Lemma iter_loop_ok : forall suffix pre prev l start pend,
  ch = pre ++ suffix ->
  LI c l pend -> (forall x, In x pre -> In x (l_A l)) ->
  (forall z, pend = Some z -> suffix <> [] /\ exists pre', pre = pre' ++ [z]) ->
  (forall pre' z, pre = pre' ++ [z] -> prev = z) ->
  In t (l_A l) -> start <= length pre ->
  let '(l', p') := iter_loop lt rank c (length ch) suffix (length pre) prev l start in
  LI c l' None /\ (forall x, In x ch -> U c x -> In x (l_A l')) /\
  (forall x, In x (firstn p' ch) -> In x (l_A l')) /\
  (forall x, In x (l_A l) -> In x (l_A l')) /\ (forall x, In x (l_S l) -> In x (l_S l')) /\
  (forall x, In x (l_I l) -> In x (l_I l')) /\ p' <= length ch.
Proof.
  induction suffix as [|x rest IH]; intros pre prev l start pend E HLI Hpre Hpend Hprev HtA Hstart.
  - simpl. rewrite app_nil_r in E. subst pre.
    assert (pend = None).
    { destruct pend as [z|]; [|reflexivity]. destruct (Hpend z eq_refl) as [H _]. contradiction. }
    subst pend. split; [exact HLI|]. split; [intros x Hx _; apply Hpre; exact Hx|].
    split; [intros x Hx; apply Hpre; apply (In_firstn_In _ _ _ Hx)|]. auto.
  - cbn [iter_loop]. unfold iter_body.
    assert (Hxn : x < n) by (apply Hb; rewrite E; apply in_or_app; right; left; reflexivity).
    (* x is below every element of pre; everything in rest is below x *)
    assert (Hbelow : forall p, In p pre -> lt x p = true).
    { intros p Hp. rewrite E in Hss. apply (sorted_split_pre _ pre x rest Hss p Hp). }
    assert (Hafter : forall y, In y rest -> lt y x = true).
    { intros y Hy. rewrite E in Hss. apply (sorted_split _ pre x rest Hss y Hy). }
    destruct HLI as [L1 [L2 [L3 L4]]].
    (* a pending element is not a cover once x (below it) is known to be above c *)
    assert (Hclear : lt c x = true -> forall z, pend = Some z -> ~ is_ucover c z).
    { intros Hcx z Hz. destruct (Hpend z Hz) as [_ [pre' Ep]].
      assert (Hzp : In z pre) by (rewrite Ep; apply in_or_app; right; left; reflexivity).
      apply (not_cover_between x z Hxn); [apply Hb; rewrite E; apply in_or_app; left; exact Hzp | exact Hcx | apply Hbelow; exact Hzp]. }
    destruct (mem x (l_A l)) eqn:EA.
    + (* continue *)
      apply mem_In in EA. assert (Hcx : lt c x = true) by (apply L2; exact EA).
      specialize (IH (pre ++ [x]) x l start None).
      rewrite app_length in IH. cbn [length] in IH. replace (length pre + 1) with (S (length pre)) in IH by lia.
      apply IH; clear IH.
      * rewrite <- app_assoc. exact E.
      * split; [exact L1|]. split; [exact L2|]. split; [exact L3|].
        intros y Hy Hcov. destruct (L4 y Hy Hcov) as [H|H]; [left; exact H|].
        exfalso. exact (Hclear Hcx y H Hcov).
      * intros y Hy. apply in_app_or in Hy. destruct Hy as [Hy|[Hy|[]]]; [apply Hpre; exact Hy | subst; exact EA].
      * intros z Hz. discriminate.
      * intros pre' z Ep. apply app_inj_tail in Ep. apply Ep.
      * exact HtA.
      * lia.
    + apply mem_false_iff in EA.
      assert (Hsup := is_super_truth l pend x (conj L1 (conj L2 (conj L3 L4))) Hxn).
      set (is_super := if mem x (l_I l) then false else if Nat.ltb (rank x) (rank c) then lt c x else false) in *.
      set (I' := if negb (mem x (l_I l)) && Nat.ltb (rank x) (rank c) && negb is_super then add x (l_I l) else l_I l).
      assert (HI' : forall y, In y I' -> y < n /\ lt c y = false).
      { intros y Hy. unfold I' in Hy.
        destruct (negb (mem x (l_I l)) && Nat.ltb (rank x) (rank c) && negb is_super) eqn:Eg; [|apply L3; exact Hy].
        apply add_In in Hy. destruct Hy as [Hy|Hy]; [|apply L3; exact Hy]. subst y.
        apply andb_true_iff in Eg. destruct Eg as [_ Eg]. apply negb_true_iff in Eg. rewrite Hsup in Eg. auto. }
      assert (HImon : forall y, In y (l_I l) -> In y I').
      { intros y Hy. unfold I'. destruct (negb (mem x (l_I l)) && Nat.ltb (rank x) (rank c) && negb is_super); [apply add_In; right|]; exact Hy. }
      (* x is not the first element of the chain: the top is already in A *)
      assert (Hpre_ne : pre <> []).
      { intros ->. simpl in E. destruct Hhead as [r Er]. rewrite Er in E. inversion E; subst. contradiction. }
      destruct (exists_last Hpre_ne) as [pre' [z Ez]].
      assert (Hpz : prev = z) by (apply (Hprev pre' z Ez)).
      assert (HzA : In z (l_A l)) by (apply Hpre; rewrite Ez; apply in_or_app; right; left; reflexivity).
      assert (Hlast : Nat.eqb (length pre) (length ch - 1) = match rest with [] => true | _ => false end).
      { rewrite E, app_length. simpl. destruct rest; simpl.
        - apply Nat.eqb_eq. lia.
        - apply Nat.eqb_neq. lia. }
      rewrite Hlast. rewrite Hsup. destruct (lt c x) eqn:Hcx.
      * (* x is a super-concept *)
        destruct rest as [|y rest'].
        -- (* last in chain: break *)
           simpl. split; [|split; [|split; [|split; [|split; [|split]]]]].
           ++ split; [|split; [|split]]; cbn [l_S l_A l_I].
              ** intros w Hw. apply add_In in Hw. destruct Hw as [Hw|Hw]; [subst; split; assumption | apply L1; exact Hw].
              ** intros w Hw. apply add_In in Hw. destruct Hw as [Hw|Hw]; [subst; split; assumption | apply L2; exact Hw].
              ** exact HI'.
              ** intros w Hw Hcov. left. apply add_In. apply add_In in Hw. destruct Hw as [Hw|Hw]; [left; exact Hw|].
                 destruct (L4 w Hw Hcov) as [H|H]; [right; exact H|]. exfalso. exact (Hclear eq_refl w H Hcov).
           ++ cbn [l_A]. intros w Hw _. rewrite E in Hw. apply add_In. apply in_app_or in Hw.
              destruct Hw as [Hw|[Hw|[]]]; [right; apply Hpre; exact Hw | left; symmetry; exact Hw].
           ++ cbn [l_A]. intros w Hw. apply In_firstn_In in Hw. rewrite E in Hw. apply add_In. apply in_app_or in Hw.
              destruct Hw as [Hw|[Hw|[]]]; [right; apply Hpre; exact Hw | left; symmetry; exact Hw].
           ++ cbn [l_A]. intros w Hw. apply add_In. right. exact Hw.
           ++ cbn [l_S]. intros w Hw. apply add_In. right. exact Hw.
           ++ cbn [l_I]. exact HImon.
           ++ rewrite E, app_length. simpl. lia.
        -- (* go on with x pending *)
           cbn [andb negb].
           specialize (IH (pre ++ [x]) x {| l_S := l_S l; l_A := add x (l_A l); l_I := I' |} start (Some x)).
           rewrite app_length in IH. cbn [length] in IH. replace (length pre + 1) with (S (length pre)) in IH by lia.
           assert (IH' := IH); clear IH.
           match type of IH' with ?P1 -> ?P2 -> ?P3 -> ?P4 -> ?P5 -> ?P6 -> ?P7 -> _ =>
             assert (H1 : P1) by (rewrite <- app_assoc; exact E);
             assert (H2 : P2);
             [ split; [|split; [|split]]; cbn [l_S l_A l_I];
               [ exact L1
               | intros w Hw; apply add_In in Hw; destruct Hw as [Hw|Hw]; [subst; split; assumption | apply L2; exact Hw]
               | exact HI'
               | intros w Hw Hcov; apply add_In in Hw; destruct Hw as [Hw|Hw]; [right; subst; reflexivity|];
                 destruct (L4 w Hw Hcov) as [H|H]; [left; exact H|]; exfalso; exact (Hclear eq_refl w H Hcov) ]
             | ]
           end.
           assert (H3 : forall w, In w (pre ++ [x]) -> In w (add x (l_A l))).
           { intros w Hw. apply add_In. apply in_app_or in Hw. destruct Hw as [Hw|[Hw|[]]]; [right; apply Hpre; exact Hw | left; symmetry; exact Hw]. }
           assert (H4 : forall z0, Some x = Some z0 -> y :: rest' <> [] /\ exists pre'0, pre ++ [x] = pre'0 ++ [z0]).
           { intros z0 Hz0. injection Hz0 as <-. split; [discriminate | exists pre; reflexivity]. }
           assert (H5 : forall pre'0 z0, pre ++ [x] = pre'0 ++ [z0] -> x = z0).
           { intros pre'0 z0 Ep. apply app_inj_tail in Ep. apply Ep. }
           assert (H6 : In t (add x (l_A l))) by (apply add_In; right; exact HtA).
           assert (H7 : start <= S (length pre)) by lia.
           specialize (IH' H1 H2 H3 H4 H5 H6 H7). revert IH'.
           destruct (iter_loop lt rank c (length ch) (y :: rest') (S (length pre)) x
                       {| l_S := l_S l; l_A := add x (l_A l); l_I := I' |} start) as [l' p'].
           cbn [l_S l_A l_I]. intros IH'.
           destruct IH' as [R1 [R2 [R3 [R4 [R5 [R6 R7]]]]]].
           split; [exact R1|]. split; [exact R2|]. split; [exact R3|].
           split; [intros w Hw; apply R4; apply add_In; right; exact Hw|].
           split; [exact R5|]. split; [|exact R7]. intros w Hw. apply R6. cbn [l_I]. apply HImon. exact Hw.
      * (* x is not a super-concept: the previous element is a candidate; break *)
        cbn [andb negb]. rewrite Hpz.
        split; [|split; [|split; [|split; [|split; [|split]]]]].
        -- split; [|split; [|split]]; cbn [l_S l_A l_I].
           ++ intros w Hw. apply add_In in Hw. destruct Hw as [Hw|Hw]; [subst; apply L2; exact HzA | apply L1; exact Hw].
           ++ exact L2.
           ++ exact HI'.
           ++ intros w Hw Hcov. left. apply add_In. destruct (L4 w Hw Hcov) as [H|H]; [right; exact H|].
              left. destruct (Hpend w H) as [_ [pre'' Ep]]. rewrite Ez in Ep. apply app_inj_tail in Ep. symmetry. apply Ep.
        -- cbn [l_A]. intros w Hw [Hwn Hcw]. rewrite E in Hw. apply in_app_or in Hw.
           destruct Hw as [Hw|[Hw|Hw]]; [apply Hpre; exact Hw | subst; congruence |].
           exfalso. assert (X : lt c x = true).
           { apply (lt_trans lt n SO c w x); auto. }
           congruence.
        -- cbn [l_A]. intros w Hw. apply Hpre.
           assert (Efn : firstn (length pre) ch = pre).
           { rewrite E. rewrite firstn_app, Nat.sub_diag. simpl. rewrite app_nil_r. apply firstn_all. }
           rewrite Efn in Hw. exact Hw.
        -- auto.
        -- cbn [l_S]. intros w Hw. apply add_In. right. exact Hw.
        -- cbn [l_I]. exact HImon.
        -- rewrite E, app_length. simpl. lia.
Qed.

(* iterate_chain from a resume pointer below which everything is already in A *)
Lemma iterate_chain_ok l start : start <= length ch ->
  LI c l None -> In t (l_A l) -> (forall x, In x (firstn start ch) -> In x (l_A l)) ->
  let '(l', p') := iterate_chain lt rank c ch start l in
  LI c l' None /\ (forall x, In x ch -> U c x -> In x (l_A l')) /\
  (forall x, In x (firstn p' ch) -> In x (l_A l')) /\
  (forall x, In x (l_A l) -> In x (l_A l')) /\ (forall x, In x (l_S l) -> In x (l_S l')) /\
  (forall x, In x (l_I l) -> In x (l_I l')) /\ p' <= length ch.
Proof.
  intros Hle HLI HtA Hstart. unfold iterate_chain.
  - assert (Hlen : length (firstn start ch) = start) by (apply firstn_length_le; exact Hle).
    assert (G := iter_loop_ok (skipn start ch) (firstn start ch) (prev_of ch start) l start None).
    rewrite Hlen in G. apply G; clear G.
    + symmetry. apply firstn_skipn.
    + exact HLI.
    + exact Hstart.
    + intros z Hz. discriminate.
    + intros pre' z Ep. unfold prev_of. destruct start as [|k]; [destruct pre'; discriminate|].
      assert (Hk : k < length ch) by lia.
      assert (X : nth k (firstn (S k) ch) 0 = nth k ch 0).
      { rewrite <- (firstn_skipn (S k) ch) at 2. rewrite app_nth1 by lia. reflexivity. }
      rewrite <- X, Ep. assert (Hl : length pre' = k).
      { assert (Y : length (pre' ++ [z]) = S k) by (rewrite <- Ep; exact Hlen). rewrite app_length in Y. simpl in Y. lia. }
      rewrite app_nth2 by lia. rewrite Hl, Nat.sub_diag. reflexivity.
    + exact HtA.
    + lia.
Qed.
End OneChain.

(* ------------------------------------------------------------------ all chains for one concept *)
Variable chains : list (list nat).
Hypothesis Hchains : forall ch, In ch chains -> valid_chain ch.
Hypothesis Hcover : forall i, i < n -> exists ch, In ch chains /\ In i ch.

Lemma scan_chains_ok c : c < n -> forall chs ptrs l,
  (forall ch, In ch chs -> valid_chain ch) ->
  LI c l None -> In t (l_A l) ->
  Forall2 (fun ch p => p <= length ch /\ forall x, In x (firstn p ch) -> In x (l_A l)) chs ptrs ->
  let '(l', ptrs') := scan_chains lt rank c chs ptrs l in
  LI c l' None /\ (forall x, In x (l_A l) -> In x (l_A l')) /\ (forall x, In x (l_S l) -> In x (l_S l')) /\
  (forall ch, In ch chs -> forall x, In x ch -> U c x -> In x (l_A l')) /\
  Forall2 (fun ch p => p <= length ch /\ forall x, In x (firstn p ch) -> In x (l_A l')) chs ptrs'.
Proof.
  intros Hc. induction chs as [|ch chs IH]; intros ptrs l Hv HLI HtA HF.
  - inversion HF; subst. simpl. split; [exact HLI|]. split; [auto|]. split; [auto|].
    split; [intros ch []|constructor].
  - inversion HF as [|? p ? ptrs0 Hp HF']; subst. cbn [scan_chains].
    destruct (Hv ch (or_introl eq_refl)) as [Hhd [Hdesc Hb]]. destruct Hp as [Hple Hp].
    assert (G := iterate_chain_ok c Hc ch Hb (desc_strong ch Hb Hdesc) Hhd l p Hple HLI HtA Hp).
    destruct (iterate_chain lt rank c ch p l) as [l1 p1].
    destruct G as [G1 [G2 [G3 [G4 [G5 [G6 G7]]]]]].
    assert (HF1 : Forall2 (fun ch p => p <= length ch /\ forall x, In x (firstn p ch) -> In x (l_A l1)) chs ptrs0).
    { eapply Forall2_impl_in; [|exact HF']. intros a b _ [H0 H]. split; [exact H0|]. intros x0 Hx0. apply G4. apply H. exact Hx0. }
    specialize (IH ptrs0 l1 (fun ch' H => Hv ch' (or_intror H)) G1 (G4 t HtA) HF1).
    destruct (scan_chains lt rank c chs ptrs0 l1) as [l2 ps].
    destruct IH as [I1 [I2 [I3 [I4 I5]]]].
    split; [exact I1|]. split; [intros x Hx; apply I2, G4; exact Hx|].
    split; [intros x Hx; apply I3, G5; exact Hx|]. split.
    + intros ch' [E|Hin] x Hx HU; [subst ch'; apply I2; apply G2; assumption | apply (I4 ch' Hin x Hx HU)].
    + constructor; [|exact I5]. split; [exact G7|]. intros x Hx. apply I2. apply G3. exact Hx.
Qed.

(* what the sweep needs from the routine that scans all chains for one concept; the sequential
   scan_chains has it, and so has every complete interleaving of threads (Lemmas/C12conc.v) *)
Definition ptr_ok (l : local) (ch : list nat) (p : nat) : Prop :=
  p <= length ch /\ forall x, In x (firstn p ch) -> In x (l_A l).

Definition good_scan (scan : nat -> list nat -> local -> local * list nat) : Prop :=
  forall c, c < n -> forall ptrs l, LI c l None -> In t (l_A l) -> Forall2 (ptr_ok l) chains ptrs ->
  let '(l', ptrs') := scan c ptrs l in
  LI c l' None /\ (forall x, In x (l_A l) -> In x (l_A l')) /\ (forall x, In x (l_S l) -> In x (l_S l')) /\
  (forall ch, In ch chains -> forall x, In x ch -> U c x -> In x (l_A l')) /\
  Forall2 (ptr_ok l') chains ptrs'.

Lemma scan_chains_good : good_scan (fun c => scan_chains lt rank c chains).
Proof. intros c Hc ptrs l HLI HtA HF. apply (scan_chains_ok c Hc chains ptrs l Hchains HLI HtA HF). Qed.

Variable scan : nat -> list nat -> local -> local * list nat.
Hypothesis Hgood : good_scan scan.

(* ------------------------------------------------------------------ the global state *)
Definition GInv (g : gstate) : Prop :=
  (forall c, g_S g c <> [] ->
     c < n /\ c <> t /\ (forall x, In x (g_S g c) -> U c x) /\ (forall x, In x (g_A g c) <-> U c x) /\
     (forall x, is_ucover c x -> In x (g_S g c))) /\
  (forall c, g_S g c = [] -> g_A g c = [] /\ g_I g c = []).

Definition ready (g : gstate) (c : nat) : Prop := c = t \/ g_S g c <> [].

Lemma U_of_top x : ~ U t x.
Proof.
  intros [Hx Hlt]. destruct Ht as [Htn Htop].
  destruct (Nat.eq_dec x t) as [E|E].
  - subst. rewrite (lt_irrefl lt n SO t Htn) in Hlt. discriminate.
  - rewrite (lt_asym lt n SO x t Hx Htn (Htop x Hx E)) in Hlt. discriminate.
Qed.

Lemma A_exact g c : GInv g -> ready g c -> forall x, In x (g_A g c) <-> U c x.
Proof.
  intros [G1 G2] [E|R].
  - subst c. destruct (list_eq_dec Nat.eq_dec (g_S g t) []) as [D|D].
    + destruct (G2 t D) as [H _]. rewrite H. intros x. split; [intros [] | intros H'; exact (U_of_top x H')].
    + apply G1. exact D.
  - apply G1. exact R.
Qed.

Definition PI (p : nat) (ptrs : list nat) : Prop :=
  Forall2 (fun ch ptr => ptr <= length ch /\ forall x, In x (firstn ptr ch) -> x = p \/ lt p x = true) chains ptrs.

Lemma process_ok p c g ptrs :
  GInv g -> ready g p -> p < n -> c < n -> lt c p = true -> PI p ptrs ->
  let '(g', ptrs') := process scan p c (g, ptrs) in
  GInv g' /\ ready g' c /\ (forall c', ready g c' -> ready g' c') /\ PI c ptrs'.
Proof.
  intros HG Hrp Hp Hc Hcp HPI. unfold process.
  assert (Hpn : forall x, x = p \/ lt p x = true -> x < n -> lt c x = true).
  { intros x [E|E] Hx; [subst; exact Hcp | apply (lt_trans lt n SO c p x); auto]. }
  destruct (g_S g c) as [|s0 S0] eqn:ES.
  - (* first visit *)
    destruct HG as [G1 G2]. destruct (G2 c ES) as [EA EI]. rewrite EA, EI.
    assert (HAp := A_exact g p (conj G1 G2) Hrp).
    set (l0 := {| l_S := [p]; l_A := union (p :: g_A g p) []; l_I := [] |}).
    assert (HA0 : forall x, In x (l_A l0) <-> x = p \/ U p x).
    { intros x. unfold l0. cbn [l_A]. rewrite union_In. simpl. rewrite HAp. intuition. }
    assert (Hct : c <> t).
    { intros ->. destruct Ht as [Htn Htop].
      destruct (Nat.eq_dec p t) as [E|E]; [subst; rewrite (lt_irrefl lt n SO t Htn) in Hcp; discriminate|].
      rewrite (lt_asym lt n SO p t Hp Htn (Htop p Hp E)) in Hcp. discriminate. }
    assert (HLI0 : LI c l0 None).
    { split; [|split; [|split]].
      - intros x [E|[]]. subst. split; assumption.
      - intros x Hx. apply HA0 in Hx. destruct Hx as [E|[Hx1 Hx2]]; [subst; split; assumption|].
        split; [exact Hx1 | apply (lt_trans lt n SO c p x); auto].
      - intros x [].
      - intros x Hx Hcov. left. apply HA0 in Hx. destruct Hx as [E|[Hx1 Hx2]]; [subst; left; reflexivity|].
        exfalso. exact (not_cover_between c p x Hp Hx1 Hcp Hx2 Hcov). }
    assert (HtA0 : In t (l_A l0)).
    { apply HA0. destruct (Nat.eq_dec t p) as [E|E]; [left; exact E | right; apply U_top; auto]. }
    assert (HF0 : Forall2 (ptr_ok l0) chains ptrs).
    { unfold PI in HPI. eapply Forall2_impl_in; [|exact HPI]. intros ch ptr Hch [Hle H]. split; [exact Hle|]. intros x Hx.
      apply HA0. destruct (H x Hx) as [E|E]; [left; exact E|]. right. split; [|exact E].
      apply (Hchains ch Hch). apply (In_firstn_In _ _ _ Hx). }
    assert (R := Hgood c Hc ptrs l0 HLI0 HtA0 HF0).
    destruct (scan c ptrs l0) as [l1 ptrs'].
    destruct R as [[L1 [L2 [L3 L4]]] [R2 [R3 [R4 R5]]]].
    assert (HS1 : l_S l1 <> []).
    { intros E. assert (X : In p (l_S l1)) by (apply R3; left; reflexivity). rewrite E in X. contradiction. }
    assert (HA1 : forall x, In x (l_A l1) <-> U c x).
    { intros x. split; [apply L2|]. intros HU. destruct (Hcover x (proj1 HU)) as [ch [Hch Hx]].
      apply (R4 ch Hch x Hx HU). }
    split; [|split; [|split]].
    + split.
      * intros c'. cbn [g_S g_A g_I]. destruct (Nat.eq_dec c' c) as [E|E].
        -- subst c'. rewrite !upd_same. intros _. split; [exact Hc|]. split; [exact Hct|].
           split; [exact L1|]. split; [exact HA1|].
           intros x Hcov. assert (HU : U c x).
           { apply (upper_covers_In lt n) in Hcov. split; tauto. }
           destruct (L4 x (proj2 (HA1 x) HU) Hcov) as [H|H]; [exact H | discriminate].
        -- rewrite !upd_other by exact E. apply G1.
      * intros c'. cbn [g_S g_A g_I]. destruct (Nat.eq_dec c' c) as [E|E].
        -- subst c'. rewrite !upd_same. intros H. contradiction.
        -- rewrite !upd_other by exact E. apply G2.
    + right. cbn [g_S]. rewrite upd_same. exact HS1.
    + intros c' [E|R]; [left; exact E|]. right. cbn [g_S]. destruct (Nat.eq_dec c' c) as [E|E].
      * subst. rewrite upd_same. exact HS1.
      * rewrite upd_other by exact E. exact R.
    + unfold PI. eapply Forall2_impl_in; [|exact R5]. intros ch ptr Hch [Hle H]. split; [exact Hle|]. intros x Hx.
      right. apply HA1. apply H. exact Hx.
  - (* already processed: the pointers stay *)
    split; [exact HG|]. split; [right; rewrite ES; discriminate|]. split; [auto|].
    unfold PI in *. eapply Forall2_impl_in; [|exact HPI]. intros ch ptr Hch [Hle H]. split; [exact Hle|]. intros x Hx.
    right. apply Hpn; [apply H; exact Hx|]. apply (Hchains ch Hch). apply (In_firstn_In _ _ _ Hx).
Qed.

Lemma pass_loop_ok : forall rest p g ptrs,
  GInv g -> ready g p -> p < n -> descending (p :: rest) -> (forall x, In x rest -> x < n) -> PI p ptrs ->
  let '(g', ptrs') := pass_loop scan p rest (g, ptrs) in
  GInv g' /\ (forall x, In x rest -> ready g' x) /\ (forall c', ready g c' -> ready g' c').
Proof.
  induction rest as [|c rest IH]; intros p g ptrs HG Hrp Hp Hd Hb HPI.
  - simpl. split; [exact HG|]. split; [intros x []|auto].
  - cbn [pass_loop]. destruct Hd as [Hcp Hd'].
    assert (Hc : c < n) by (apply Hb; left; reflexivity).
    assert (P := process_ok p c g ptrs HG Hrp Hp Hc Hcp HPI).
    destruct (process scan p c (g, ptrs)) as [g1 ptrs1].
    destruct P as [P1 [P2 [P3 P4]]].
    specialize (IH c g1 ptrs1 P1 P2 Hc Hd' (fun x H => Hb x (or_intror H)) P4).
    destruct (pass_loop scan c rest (g1, ptrs1)) as [g2 ptrs2].
    destruct IH as [I1 [I2 I3]].
    split; [exact I1|]. split.
    + intros x [E|Hx]; [subst; apply I3; exact P2 | apply I2; exact Hx].
    + intros c' Hc'. apply I3, P3. exact Hc'.
Qed.

Lemma PI_zero p : PI p (repeat 0 (length chains)).
Proof.
  unfold PI. apply Forall2_repeat0. intros ch. split; [lia | intros x []].
Qed.

Lemma pass_ok g ch : GInv g -> valid_chain ch ->
  let g' := pass scan (length chains) g ch in
  GInv g' /\ (forall x, In x ch -> ready g' x) /\ (forall c', ready g c' -> ready g' c').
Proof.
  intros HG [[rest E] [Hd Hb]]. subst ch. cbn [pass].
  assert (R := pass_loop_ok rest t g (repeat 0 (length chains)) HG (or_introl eq_refl) (proj1 Ht) Hd
                 (fun x H => Hb x (or_intror H)) (PI_zero t)).
  destruct (pass_loop scan t rest (g, repeat 0 (length chains))) as [g' ptrs'].
  destruct R as [R1 [R2 R3]]. cbn [fst]. split; [exact R1|]. split; [|exact R3].
  intros x [E|Hx]; [left; symmetry; exact E | apply R2; exact Hx].
Qed.

Lemma GInv_g0 : GInv g0.
Proof. split; [intros c H; exfalso; apply H; reflexivity | intros c _; split; reflexivity]. Qed.

Lemma sweep_ok :
  let g := sweep scan chains in
  GInv g /\ forall c, c < n -> ready g c.
Proof.
  unfold sweep.
  assert (G : forall chs g, (forall ch, In ch chs -> In ch chains) -> GInv g ->
            let g' := fold_left (pass scan (length chains)) chs g in
            GInv g' /\ (forall ch, In ch chs -> forall x, In x ch -> ready g' x) /\
            (forall c', ready g c' -> ready g' c')).
  { induction chs as [|ch chs IH]; intros g Hsub HG; simpl.
    - split; [exact HG|]. split; [intros ch []|auto].
    - assert (P := pass_ok g ch HG (Hchains ch (Hsub ch (or_introl eq_refl)))).
      destruct P as [P1 [P2 P3]].
      specialize (IH _ (fun ch' H => Hsub ch' (or_intror H)) P1). destruct IH as [I1 [I2 I3]].
      split; [exact I1|]. split.
      + intros ch' [E|Hin] x Hx; [subst ch'; apply I3, P2; exact Hx | apply (I2 ch' Hin x Hx)].
      + intros c' Hc'. apply I3, P3. exact Hc'. }
  destruct (G chains g0 (fun ch H => H) GInv_g0) as [G1 [G2 _]].
  split; [exact G1|]. intros c Hc. destruct (Hcover c Hc) as [ch [Hch Hx]]. apply (G2 ch Hch c Hx).
Qed.
End Sweep.

(* ------------------------------------------------------------------ the final filtering loop *)
Fixpoint filt2 (A : imap) (fuel : nat) (rest : list nat) : list nat :=
  match fuel with
  | 0 => rest
  | S f => match rest with
           | [] => []
           | sc :: r => sc :: filt2 A f (filter (fun i => negb (mem i (A sc))) r)
           end
  end.

Lemma filter_all_pass {A} (f : A -> bool) l : (forall x, In x l -> f x = true) -> filter f l = l.
Proof.
  induction l as [|x l IH]; simpl; intros H; [reflexivity|].
  rewrite (H x (or_introl eq_refl)). rewrite IH; [reflexivity|]. intros y Hy. apply H. right. exact Hy.
Qed.

Lemma StronglySorted_filter {A} (R : A -> A -> Prop) (f : A -> bool) l :
  StronglySorted R l -> StronglySorted R (filter f l).
Proof.
  induction 1 as [|x l Hs IH Hall]; simpl; [constructor|].
  destruct (f x); [|exact IH]. constructor; [exact IH|].
  rewrite Forall_forall in *. intros y Hy. apply filter_In in Hy. apply Hall. tauto.
Qed.

Lemma filt_loop_eq (A : imap) : forall fuel done rest,
  (forall sc, In sc rest -> ~ In sc (A sc)) ->
  (forall sc d, In sc rest -> In d done -> ~ In d (A sc)) ->
  StronglySorted (fun a b => ~ In a (A b)) rest ->
  filt_loop A fuel (length done) (done ++ rest) = done ++ filt2 A fuel rest.
Proof.
  induction fuel as [|f IH]; intros done rest Hirr Hdone Hs; [reflexivity|].
  cbn [filt_loop filt2]. destruct rest as [|sc r].
  - rewrite app_nil_r. rewrite (proj2 (nth_error_None done (length done))) by lia. reflexivity.
  - rewrite nth_error_app2 by lia. rewrite Nat.sub_diag. cbn [nth_error].
    rewrite filter_app. cbn [filter].
    assert (E1 : filter (fun i => negb (mem i (A sc))) done = done).
    { apply filter_all_pass. intros d Hd. apply negb_true_iff, mem_false_iff. apply (Hdone sc d); [left; reflexivity | exact Hd]. }
    assert (E2 : negb (mem sc (A sc)) = true).
    { apply negb_true_iff, mem_false_iff. apply Hirr. left. reflexivity. }
    rewrite E1, E2.
    inversion Hs as [|? ? Hs' Hall]; subst. rewrite Forall_forall in Hall.
    set (r' := filter (fun i => negb (mem i (A sc))) r).
    assert (G := IH (done ++ [sc]) r').
    rewrite app_length in G. cbn [length] in G. replace (length done + 1) with (S (length done)) in G by lia.
    rewrite <- app_assoc in G. cbn [app] in G. rewrite G.
    + rewrite <- app_assoc. reflexivity.
    + intros z Hz. apply filter_In in Hz. apply Hirr. right. tauto.
    + intros z d Hz Hd. apply filter_In in Hz. destruct Hz as [Hz _]. apply in_app_or in Hd.
      destruct Hd as [Hd|[Hd|[]]]; [apply (Hdone z d); [right; exact Hz | exact Hd] | subst d; apply Hall; exact Hz].
    + apply StronglySorted_filter. exact Hs'.
Qed.

Lemma filt2_props (A : imap) : forall fuel rest, length rest <= fuel ->
  (forall sc, In sc rest -> ~ In sc (A sc)) ->
  StronglySorted (fun a b => ~ In a (A b)) rest ->
  let res := filt2 A fuel rest in
  (forall y, In y res -> In y rest) /\
  (forall y, In y rest -> ~ In y res -> exists z, In z res /\ In y (A z)) /\
  (forall z y, In z res -> In y res -> ~ In y (A z)).
Proof.
  induction fuel as [|f IH]; intros rest Hlen Hirr Hs.
  - destruct rest; [|simpl in Hlen; lia]. simpl. split; [auto|]. split; [intros y []|intros z y []].
  - destruct rest as [|sc r]; cbn [filt2].
    + split; [auto|]. split; [intros y []|intros z y []].
    + inversion Hs as [|? ? Hs' Hall]; subst. rewrite Forall_forall in Hall.
      set (r' := filter (fun i => negb (mem i (A sc))) r).
      assert (Hr' : forall y, In y r' <-> In y r /\ ~ In y (A sc)).
      { intros y. unfold r'. rewrite filter_In, negb_true_iff, mem_false_iff. tauto. }
      destruct (IH r') as [I1 [I2 I3]].
      * assert (X := filter_length_le (fun i => negb (mem i (A sc))) r). fold r' in X. simpl in Hlen. lia.
      * intros z Hz. apply Hirr. right. apply Hr' in Hz. tauto.
      * apply StronglySorted_filter. exact Hs'.
      * split; [|split].
        -- intros y [E|Hy]; [left; exact E | right; apply I1 in Hy; apply Hr' in Hy; tauto].
        -- intros y [E|Hy] Hny; [exfalso; apply Hny; left; exact E|].
           destruct (in_dec Nat.eq_dec y (A sc)) as [D|D]; [exists sc; split; [left; reflexivity | exact D]|].
           destruct (I2 y) as [z [Hz1 Hz2]]; [apply Hr'; auto | intros H; apply Hny; right; exact H|].
           exists z. split; [right; exact Hz1 | exact Hz2].
        -- intros z y [Ez|Hz] [Ey|Hy].
           ++ subst. apply Hirr. left. reflexivity.
           ++ subst z. apply I1 in Hy. apply Hr' in Hy. tauto.
           ++ subst y. apply Hall. apply I1 in Hz. apply Hr' in Hz. tauto.
           ++ apply I3; assumption.
Qed.

(* ------------------------------------------------------------------ the theorem *)
Section Final.
Variable lt : nat -> nat -> bool.
Variable rank : nat -> nat.
Variable n : nat.
Hypothesis SO : strict_order lt n.
Hypothesis Hrank : forall i j, i < n -> j < n -> lt i j = true -> rank j < rank i.
Variable t : nat.
Hypothesis Ht : is_top lt n t.
Variable chains : list (list nat).
Hypothesis Hchains : forall ch, In ch chains -> valid_chain lt n t ch.
Hypothesis Hcover : forall i, i < n -> exists ch, In ch chains /\ In i ch.

(* for any state in which every concept has exact A and sound, complete candidates *)
Lemma final_sups_ok g c :
  GInv lt n t g -> (forall c, c < n -> ready t g c) -> c < n ->
  forall x, In x (final_sups rank g c) <-> In x (upper_covers lt n c).
Proof.
  intros HG Hready Hc x. unfold final_sups.
  set (l := sort_by_desc rank (g_S g c)).
  assert (Hperm : Permutation l (g_S g c)) by apply sort_by_desc_perm'.
  assert (HlS : forall y, In y l <-> In y (g_S g c)).
  { intros y. split; intros H; [apply (Permutation_in _ Hperm H) | apply (Permutation_in _ (Permutation_sym Hperm) H)]. }
  assert (HAex : forall z, z < n -> forall y, In y (g_A g z) <-> U lt n z y).
  { intros z Hz. apply (A_exact lt n SO t Ht g z HG (Hready z Hz)). }
  destruct (list_eq_dec Nat.eq_dec (g_S g c) []) as [D|D].
  - (* never processed: the top *)
    assert (El : l = []) by (unfold l; rewrite D; reflexivity). rewrite El. simpl.
    split; [intros []|]. intros Hx. exfalso.
    destruct (Hready c Hc) as [E|R]; [|contradiction]. subst c.
    apply (upper_covers_In lt n) in Hx. apply (U_of_top lt n SO t Ht x). split; tauto.
  - destruct HG as [G1 G2]. destruct (G1 c D) as [_ [Hct [HS [HA HC]]]].
    assert (HlU : forall y, In y l -> U lt n c y) by (intros y Hy; apply HS, HlS, Hy).
    assert (Hirr : forall sc, In sc l -> ~ In sc (g_A g sc)).
    { intros sc Hsc H. destruct (HlU sc Hsc) as [Hn _]. apply (HAex sc Hn) in H. destruct H as [_ H].
      rewrite (lt_irrefl lt n SO sc Hn) in H. discriminate. }
    assert (Hsorted : StronglySorted (fun a b => ~ In a (g_A g b)) l).
    { assert (Hs := sort_by_desc_sorted rank (g_S g c)). fold l in Hs.
      assert (Hin : forall y, In y l -> y < n) by (intros y Hy; apply (HlU y Hy)).
      clear - Hs Hin HAex Hrank. induction Hs as [|a l0 Hs IH Hall]; constructor.
      - apply IH. intros y Hy. apply Hin. right. exact Hy.
      - rewrite Forall_forall in *. intros b Hb Hab.
        assert (Hbn : b < n) by (apply Hin; right; exact Hb).
        assert (Han : a < n) by (apply Hin; left; reflexivity).
        apply (HAex b Hbn) in Hab. destruct Hab as [_ Hab].
        assert (X := Hrank b a Hbn Han Hab). specialize (Hall b Hb). lia. }
    assert (E := filt_loop_eq (g_A g) (length l) [] l Hirr (fun _ _ _ H => match H with end) Hsorted).
    simpl in E. rewrite E.
    destruct (filt2_props (g_A g) (length l) l (le_n _) Hirr Hsorted) as [P1 [P2 P3]].
    split.
    + intros Hx. assert (HxU := HlU x (P1 x Hx)). destruct HxU as [Hxn Hcx].
      apply (upper_covers_In lt n). split; [exact Hxn|]. split; [exact Hcx|].
      destruct (between lt n c x) eqn:Eb; [|reflexivity]. exfalso.
      apply (between_spec lt n) in Eb. destruct Eb as [b [Hb [B1 B2]]].
      destruct (cover_above lt n SO c b Hc Hb B1) as [z [Hz [Hcov Hr]]].
      assert (Hzx : lt z x = true) by (destruct Hr as [Hr|Hr]; [subst; exact B2 | apply (lt_trans lt n SO z b x); auto]).
      assert (Hzcov : In z (upper_covers lt n c)).
      { unfold upper_covers. apply filter_In. split; [apply in_seq; lia | exact Hcov]. }
      assert (Hzl : In z l) by (apply HlS, HC; exact Hzcov).
      (* z survives: nothing removes a cover *)
      assert (Hzres : In z (filt2 (g_A g) (length l) l)).
      { destruct (in_dec Nat.eq_dec z (filt2 (g_A g) (length l) l)) as [Y|N]; [exact Y|]. exfalso.
        destruct (P2 z Hzl N) as [w [Hw Hzw]].
        destruct (HlU w (P1 w Hw)) as [Hwn Hcw]. apply (HAex w Hwn) in Hzw. destruct Hzw as [_ Hwz].
        apply (upper_covers_In lt n) in Hzcov. destruct Hzcov as [_ [_ Hnb]].
        assert (X : between lt n c z = true) by (apply (between_spec lt n); exists w; auto). congruence. }
      apply (P3 z x Hzres Hx). apply (HAex z Hz). split; assumption.
    + intros Hx. assert (Hxl : In x l) by (apply HlS, HC; exact Hx).
      destruct (in_dec Nat.eq_dec x (filt2 (g_A g) (length l) l)) as [Y|N]; [exact Y|]. exfalso.
      destruct (P2 x Hxl N) as [w [Hw Hxw]].
      destruct (HlU w (P1 w Hw)) as [Hwn Hcw]. apply (HAex w Hwn) in Hxw. destruct Hxw as [_ Hwx].
      apply (upper_covers_In lt n) in Hx. destruct Hx as [_ [_ Hnb]].
      assert (X : between lt n c x = true) by (apply (between_spec lt n); exists w; auto). congruence.
Qed.

Lemma children_of_ok (sups : imap) :
  (forall c, c < n -> forall x, In x (sups c) <-> In x (upper_covers lt n c)) ->
  forall y, y < n -> forall c, In c (children_of n sups y) <-> In c (lower_covers lt n y).
Proof.
  intros H y Hy c. unfold children_of. rewrite filter_In, in_seq, mem_In.
  rewrite (lower_covers_In lt n). split.
  - intros [Hc Hin]. assert (Hcn : c < n) by lia. apply (H c Hcn) in Hin.
    apply (upper_covers_In lt n) in Hin. tauto.
  - intros [Hc [H1 H2]]. split; [lia|]. apply (H c Hc). apply (upper_covers_In lt n). tauto.
Qed.

(* for every scanning routine that meets [good_scan] *)
Theorem sweep_covers scan : good_scan lt n t chains scan -> forall y, y < n ->
  same_set (children_of n (final_sups rank (sweep scan chains)) y) (lower_covers lt n y).
Proof.
  intros Hgood y Hy c.
  destruct (sweep_ok lt n SO t Ht chains Hchains Hcover scan Hgood) as [HG Hready].
  apply children_of_ok; [|exact Hy]. intros c' Hc'. apply final_sups_ok; assumption.
Qed.

Theorem from_spanning_tree_covers y : y < n ->
  same_set (from_spanning_tree lt rank n chains y) (lower_covers lt n y).
Proof.
  intros Hy. unfold from_spanning_tree. apply sweep_covers; [|exact Hy].
  apply (scan_chains_good lt rank n SO Hrank t Ht chains Hchains).
Qed.
End Final.

(* Lemmas/C18_Term.v — inside the guard the many-valued search answers within three rounds
   (IntervalPS columns, an intent with finite end points on every column). *)
From FCA Require Import Model.C18_MinGen Spec.C18_MinGenSpec Lemmas.C18 Lemmas.C18_MV Lemmas.C18_Diff.
From Coq Require Import ZArith Lia.
Local Open Scope nat_scope.

(* ------------------------------------------------------------------ bounds *)
Lemma bleb_total a b : bleb a b = true \/ bleb b a = true.
Proof. destruct a, b; cbn; auto. destruct (Z.leb_spec z z0); [left; reflexivity|]. right. apply Z.leb_le. lia. Qed.

Lemma bleb_bmax a b x : bleb (bmax a b) x = bleb a x && bleb b x.
Proof.
  unfold bmax. destruct (bleb a b) eqn:E.
  - destruct (bleb b x) eqn:E2; [|rewrite andb_false_r; reflexivity].
    rewrite (bleb_trans a b x E E2). reflexivity.
  - assert (E' : bleb b a = true) by (destruct (bleb_total a b); congruence).
    destruct (bleb a x) eqn:E2; [|reflexivity]. rewrite (bleb_trans b a x E' E2). reflexivity.
Qed.

Lemma bleb_bmin x a b : bleb x (bmin a b) = bleb x a && bleb x b.
Proof.
  unfold bmin. destruct (bleb a b) eqn:E.
  - destruct (bleb x a) eqn:E2; [|reflexivity]. rewrite (bleb_trans x a b E2 E). reflexivity.
  - assert (E' : bleb b a = true) by (destruct (bleb_total a b); congruence).
    destruct (bleb x b) eqn:E2; [|rewrite andb_false_r; reflexivity].
    rewrite (bleb_trans x b a E2 E'). reflexivity.
Qed.

Lemma fold_bmax_le l : forall a x, bleb (fold_left bmax l a) x = bleb a x && forallb (fun y => bleb y x) l.
Proof.
  induction l as [|y l IH]; intros a x; cbn [fold_left forallb]; [rewrite andb_true_r; reflexivity|].
  rewrite IH, bleb_bmax, andb_assoc. reflexivity.
Qed.

Lemma fold_bmin_ge l : forall a x, bleb x (fold_left bmin l a) = bleb x a && forallb (fun y => bleb x y) l.
Proof.
  induction l as [|y l IH]; intros a x; cbn [fold_left forallb]; [rewrite andb_true_r; reflexivity|].
  rewrite IH, bleb_bmin, andb_assoc. reflexivity.
Qed.

Lemma filter_false {X} (l : list X) : filter (fun _ => false) l = [].
Proof. induction l; [reflexivity | exact IHl]. Qed.

(* ------------------------------------------------------------------ IntervalPS: no exception *)
Section Plain.
Variable K : mvctx.
Hypothesis Hplain : mv_numpy K = false.

Lemma ps_extension_plain ps d base : ps_extension K ps d base = ROk (filter (satisfies1 K ps d) base).
Proof.
  unfold ps_extension, satisfies1, in_iv, within. destruct d as [|lo hi|x].
  - rewrite filter_false. reflexivity.
  - reflexivity.
  - rewrite Hplain. reflexivity.
Qed.

Lemma mv_ext_loop_plain items : forall e, mv_ext_loop K items e = ROk (filter (satisfies K items) e).
Proof.
  induction items as [|[ps d] items IH]; intros e; cbn [mv_ext_loop].
  - unfold satisfies. cbn [forallb]. f_equal. induction e as [|x l IHl]; [reflexivity|]. cbn [filter]. f_equal. exact IHl.
  - rewrite ps_extension_plain. cbn [rbind].
    assert (Hf : filter (satisfies K ((ps, d) :: items)) e = filter (satisfies K items) (filter (satisfies1 K ps d) e)).
    { rewrite filter_filter'. apply filter_ext_in'. intros g _. unfold satisfies. cbn [forallb fst snd]. reflexivity. }
    rewrite Hf. destruct (filter (satisfies1 K ps d) e) as [|g e1] eqn:E; [reflexivity|]. apply IH.
Qed.

Lemma mv_extension_plain items bo : mv_extension K items (Some bo) = ROk (filter (satisfies K items) bo).
Proof. unfold mv_extension. destruct bo as [|g bo]; [reflexivity|]. apply mv_ext_loop_plain. Qed.

Lemma mv_extension_plain_all items : mv_extension K items None = ROk (filter (satisfies K items) (seq 0 (mv_n K))).
Proof. unfold mv_extension. apply mv_ext_loop_plain. Qed.

End Plain.

(* ------------------------------------------------------------------ combining generators of one column *)
Definition gsat (g : descr) (v : Z * Z) : bool := bleb (gen_lo g) (Fin (fst v)) && bleb (Fin (snd v)) (gen_hi g).

Lemma sat_val_gsat g v : is_dnone g = false -> sat_val g v = gsat g v.
Proof. destruct g; cbn; [discriminate | reflexivity | reflexivity]. Qed.

Lemma gens_to_descr_ok (g : descr) (gs : list descr) (X Y : bound) :
  existsb is_dnone (g :: gs) = false ->
  (forall h, In h (g :: gs) -> bleb (gen_lo h) X = true /\ bleb Y (gen_hi h) = true) ->
  bleb X Y = true ->
  exists d, generators_to_description (g :: gs) = ROk d /\
            forall v, sat_val d v = forallb (fun h => gsat h v) (g :: gs).
Proof.
  intros Hn Hb HXY. unfold generators_to_description. rewrite Hn.
  set (lo := fold_left bmax (map gen_lo gs) (gen_lo g)).
  set (hi := fold_left bmin (map gen_hi gs) (gen_hi g)).
  assert (Hlo : bleb lo X = true).
  { unfold lo. rewrite fold_bmax_le. apply andb_true_iff. split; [apply Hb; left; reflexivity|].
    apply forallb_forall. intros y Hy. apply in_map_iff in Hy. destruct Hy as [h [<- Hh]]. apply Hb. right. exact Hh. }
  assert (Hhi : bleb Y hi = true).
  { unfold hi. rewrite fold_bmin_ge. apply andb_true_iff. split; [apply Hb; left; reflexivity|].
    apply forallb_forall. intros y Hy. apply in_map_iff in Hy. destruct Hy as [h [<- Hh]]. apply Hb. right. exact Hh. }
  assert (Hlh : bleb lo hi = true) by (eapply bleb_trans; [exact Hlo | eapply bleb_trans; [exact HXY | exact Hhi]]).
  rewrite Hlh.
  assert (Hw : forall v, within v lo hi = forallb (fun h => gsat h v) (g :: gs)).
  { intros v. unfold within, lo, hi. rewrite fold_bmax_le, fold_bmin_ge. cbn [forallb]. unfold gsat at 1.
    rewrite !forallb_map.
    assert (E : forallb (fun h => gsat h v) gs
                = forallb (fun x => bleb (gen_lo x) (Fin (fst v))) gs && forallb (fun x => bleb (Fin (snd v)) (gen_hi x)) gs).
    { clear. induction gs as [|h l IH]; [reflexivity|]. cbn [forallb]. rewrite IH. unfold gsat.
      destruct (bleb (gen_lo h) (Fin (fst v))), (bleb (Fin (snd v)) (gen_hi h)),
        (forallb (fun x => bleb (gen_lo x) (Fin (fst v))) l); reflexivity. }
    rewrite E.
    destruct (bleb (gen_lo g) (Fin (fst v))), (bleb (Fin (snd v)) (gen_hi g)),
      (forallb (fun x => bleb (gen_lo x) (Fin (fst v))) gs), (forallb (fun x => bleb (Fin (snd v)) (gen_hi x)) gs); reflexivity. }
  destruct (beqb lo hi) eqn:E.
  - exists (DNum lo). split; [reflexivity|]. intros v. cbn [sat_val]. rewrite <- Hw.
    apply beqb_eq in E. rewrite <- E. reflexivity.
  - exists (DIv lo hi). split; [reflexivity|]. intros v. cbn [sat_val]. apply Hw.
Qed.

(* ------------------------------------------------------------------ small list facts *)
Lemma insert_sorted_In x y l : In x (insert_sorted y l) <-> x = y \/ In x l.
Proof.
  induction l as [|z l IH]; cbn [insert_sorted In]; [intuition|].
  destruct (Nat.leb y z); cbn [In]; [intuition|]. rewrite IH. intuition.
Qed.

Lemma sort_nat_In x l : In x (sort_nat l) <-> In x l.
Proof.
  induction l as [|y l IH]; [reflexivity|]. cbn [sort_nat fold_right]. fold (sort_nat l).
  rewrite insert_sorted_In, IH. cbn [In]. intuition.
Qed.

Lemma ps_set_In comb ps : In ps (ps_set comb) <-> In ps (map fst comb).
Proof. unfold ps_set. rewrite sort_nat_In, nodup_In. reflexivity. Qed.

Lemma insert_by_vol_In x y l : In x (insert_by_vol y l) <-> x = y \/ In x l.
Proof.
  induction l as [|z l IH]; cbn [insert_by_vol In]; [intuition|].
  destruct (Nat.ltb (snd y) (snd z)); cbn [In]; [intuition|]. rewrite IH. intuition.
Qed.

Lemma sort_by_vol_In x l : In x (sort_by_vol l) <-> In x l.
Proof.
  induction l as [|y l IH]; [reflexivity|]. cbn [sort_by_vol fold_right]. fold (sort_by_vol l).
  rewrite insert_by_vol_In, IH. cbn [In]. intuition.
Qed.

Lemma insert_by_vol_count (q : pgen * nat -> bool) y l :
  length (filter q (insert_by_vol y l)) = length (filter q (y :: l)).
Proof.
  induction l as [|z l IH]; [reflexivity|]. cbn [insert_by_vol].
  destruct (Nat.ltb (snd y) (snd z)); [reflexivity|].
  cbn [filter] in *. destruct (q z); cbn [length]; rewrite IH; destruct (q y); reflexivity.
Qed.

Lemma sort_by_vol_count (q : pgen * nat -> bool) l : length (filter q (sort_by_vol l)) = length (filter q l).
Proof.
  induction l as [|y l IH]; [reflexivity|]. cbn [sort_by_vol fold_right]. fold (sort_by_vol l).
  rewrite insert_by_vol_count. cbn [filter]. destruct (q y); cbn [length]; rewrite IH; reflexivity.
Qed.

Lemma filter_length_le {X} (q : X -> bool) l : length (filter q l) <= length l.
Proof. induction l as [|x l IH]; cbn [filter length]; [lia|]. destruct (q x); cbn [length]; lia. Qed.

Lemma filter_length_all {X} (q : X -> bool) l : length (filter q l) = length l -> forall x, In x l -> q x = true.
Proof.
  induction l as [|y l IH]; intros H x Hx; [destruct Hx|]. cbn [filter length] in H.
  destruct (q y) eqn:E.
  - cbn [length] in H. destruct Hx as [<-|Hx]; [exact E | apply IH; [lia | exact Hx]].
  - pose proof (filter_length_le q l). lia.
Qed.

Lemma filter_all {X} (q : X -> bool) l : (forall x, In x l -> q x = true) -> filter q l = l.
Proof.
  induction l as [|y l IH]; intros H; [reflexivity|]. cbn [filter]. rewrite (H y (or_introl eq_refl)).
  f_equal. apply IH. intros x Hx. apply H. right. exact Hx.
Qed.

Lemma filter_filter_length_le {X} (q r : X -> bool) l : length (filter q (filter r l)) <= length (filter q l).
Proof.
  induction l as [|x l IH]; cbn [filter length]; [lia|].
  destruct (r x); cbn [filter]; destruct (q x); cbn [length]; lia.
Qed.

Lemma combs_one {X} (l : list X) : combs 1 l = map (fun x => [x]) l.
Proof.
  induction l as [|x l IH]; [reflexivity|]. cbn [combs map]. rewrite IH. f_equal.
  destruct l; reflexivity.
Qed.

Lemma descr_eqb_eq a b : descr_eqb a b = true <-> a = b.
Proof.
  destruct a, b; cbn; split; intros H; try reflexivity; try discriminate.
  - apply andb_true_iff in H. destruct H as [H1 H2]. apply beqb_eq in H1. apply beqb_eq in H2. subst. reflexivity.
  - inversion H; subst. apply andb_true_iff. split; apply beqb_eq; reflexivity.
  - apply beqb_eq in H. subst. reflexivity.
  - inversion H; subst. apply beqb_eq. reflexivity.
Qed.

Lemma pgen_eqb_eq a b : pgen_eqb a b = true <-> a = b.
Proof.
  unfold pgen_eqb. rewrite andb_true_iff, Nat.eqb_eq, descr_eqb_eq. destruct a, b; cbn. split.
  - intros [-> ->]. reflexivity.
  - intros H. inversion H. tauto.
Qed.

Lemma vol_of_map (f : pgen -> nat) l g : In g l -> vol_of l (map f l) g = f g.
Proof.
  intros Hg. unfold vol_of.
  assert (Ec : combine l (map f l) = map (fun x => (x, f x)) l).
  { clear. induction l as [|x l IH]; [reflexivity|]. cbn [map combine]. rewrite IH. reflexivity. }
  rewrite Ec. destruct (find _ (rev (map (fun x => (x, f x)) l))) as [[g' v]|] eqn:F.
  - apply find_some in F. destruct F as [F1 F2]. cbn [fst] in F2. apply pgen_eqb_eq in F2. subst g'.
    apply in_rev in F1. apply in_map_iff in F1. destruct F1 as [x [E _]]. inversion E; subst. reflexivity.
  - exfalso. pose proof (find_none _ _ F (g, f g)) as X. cbn [fst] in X.
    rewrite (proj2 (pgen_eqb_eq g g) eq_refl) in X. 
    assert (discr : true = false -> False) by discriminate. apply discr. apply X.
    apply -> in_rev. apply in_map_iff. exists g. tauto.
Qed.

(* ------------------------------------------------------------------ evaluating candidates *)
Section Search.
Variable K : mvctx.
Hypothesis Hplain : mv_numpy K = false.
Variables lo hi : nat -> Z.
Hypothesis Hlh : forall ps, (lo ps <= hi ps)%Z.
Variable bo : list nat.
Variable T : list nat.

Definition iv (ps : nat) : descr := DIv (Fin (lo ps)) (Fin (hi ps)).
Definition gL (ps : nat) : descr := DIv NegInf (Fin (hi ps)).
Definition gR (ps : nat) : descr := DIv (Fin (lo ps)) PosInf.

Definition good (pg : pgen) : Prop :=
  snd pg = gL (fst pg) \/ snd pg = gR (fst pg) \/ snd pg = iv (fst pg).

Definition comb_sat (comb : list pgen) (g : nat) : bool :=
  forallb (fun pg => satisfies1 K (fst pg) (snd pg) g) comb.
Definition E (comb : list pgen) : list nat := filter (comb_sat comb) bo.

Lemma good_bounds pg : good pg ->
  is_dnone (snd pg) = false /\
  bleb (gen_lo (snd pg)) (Fin (lo (fst pg))) = true /\ bleb (Fin (hi (fst pg))) (gen_hi (snd pg)) = true.
Proof.
  intros [H|[H|H]]; rewrite H; cbn; repeat split; try reflexivity; apply Z.leb_refl.
Qed.

Lemma descr_of_ok comb : (forall pg, In pg comb -> good pg) ->
  forall pss, (forall ps, In ps pss -> In ps (map fst comb)) ->
  exists d, descr_of comb pss = ROk d /\
    forall g, satisfies K d g =
      forallb (fun ps => forallb (fun pg => satisfies1 K (fst pg) (snd pg) g)
                                 (filter (fun pg => Nat.eqb (fst pg) ps) comb)) pss.
Proof.
  intros Hgood. induction pss as [|ps pss IH]; intros Hin.
  - exists []. split; reflexivity.
  - destruct IH as [rest [Hr Hs]]; [intros q Hq; apply Hin; right; exact Hq|].
    set (sel := filter (fun pg => Nat.eqb (fst pg) ps) comb).
    assert (Hsel : forall pg, In pg sel -> In pg comb /\ fst pg = ps).
    { intros pg Hpg. apply filter_In in Hpg. destruct Hpg as [H1 H2]. apply Nat.eqb_eq in H2. tauto. }
    assert (Hne : sel <> []).
    { specialize (Hin ps (or_introl eq_refl)). apply in_map_iff in Hin. destruct Hin as [pg [E1 Hpg]].
      intros X. assert (In pg sel) by (apply filter_In; split; [exact Hpg | apply Nat.eqb_eq; exact E1]).
      rewrite X in H. destruct H. }
    destruct (map snd sel) as [|g0 gs] eqn:Eg; [destruct sel; [congruence | discriminate]|].
    assert (Hh : forall h, In h (g0 :: gs) -> exists pg, In pg sel /\ snd pg = h).
    { intros h Hh. rewrite <- Eg in Hh. apply in_map_iff in Hh. destruct Hh as [pg [E1 Hpg]]. exists pg. tauto. }
    destruct (gens_to_descr_ok g0 gs (Fin (lo ps)) (Fin (hi ps))) as [d [Hd Hv]].
    + destruct (existsb is_dnone (g0 :: gs)) eqn:X; [|reflexivity]. exfalso.
      apply existsb_exists in X. destruct X as [h [Hh1 Hh2]]. destruct (Hh h Hh1) as [pg [Hpg E1]].
      destruct (Hsel pg Hpg) as [Hc _]. destruct (good_bounds pg (Hgood pg Hc)) as [Y _]. rewrite E1 in Y. congruence.
    + intros h Hh1. destruct (Hh h Hh1) as [pg [Hpg E1]]. destruct (Hsel pg Hpg) as [Hc Hps].
      destruct (good_bounds pg (Hgood pg Hc)) as [_ [Y1 Y2]]. rewrite E1, Hps in Y1, Y2. tauto.
    + cbn. apply Z.leb_le. apply Hlh.
    + exists ((ps, d) :: rest). split.
      * cbn [descr_of]. fold sel. rewrite Eg, Hd. cbn [rbind]. rewrite Hr. reflexivity.
      * intros g. unfold satisfies at 1. cbn [forallb fst snd]. fold (satisfies K rest g). rewrite Hs. f_equal.
        fold sel. rewrite satisfies1_val, Hv, <- Eg, forallb_map.
        apply forallb_ext_in. intros pg Hpg. destruct (Hsel pg Hpg) as [Hc Hps].
        rewrite satisfies1_val, Hps. symmetry. apply sat_val_gsat.
        apply (good_bounds pg (Hgood pg Hc)).
Qed.

Lemma eval_comb_ok comb : comb <> [] -> (forall pg, In pg comb -> good pg) ->
  exists d, eval_comb K [] bo comb = ROk (d, E comb).
Proof.
  intros Hne Hgood. unfold eval_comb. cbn [app].
  destruct (descr_of_ok comb Hgood (ps_set comb)) as [d [Hd Hs]]; [intros ps Hps; apply ps_set_In; exact Hps|].
  exists d. rewrite Hd. cbn [rbind]. rewrite (mv_extension_plain K Hplain). cbn [rbind]. f_equal. f_equal.
  unfold E. apply filter_ext_in'. intros g _. rewrite Hs. unfold comb_sat.
  apply bool_eq_iff. rewrite !forallb_forall. split.
  - intros H pg Hpg.
    assert (Hps : In (fst pg) (ps_set comb)) by (apply ps_set_In; apply in_map; exact Hpg).
    specialize (H _ Hps). rewrite forallb_forall in H. apply H. apply filter_In. split; [exact Hpg | apply Nat.eqb_refl].
  - intros H ps _. apply forallb_forall. intros pg Hpg. apply filter_In in Hpg. apply H. tauto.
Qed.

Lemma add_gen_nonempty found d : add_gen found d <> [].
Proof.
  unfold add_gen. destruct (existsb (dd_eqb d) found) eqn:X.
  - destruct found; [discriminate X | discriminate].
  - destruct found; discriminate.
Qed.

Lemma scan_combs_ok : forall cs found vols,
  (forall c, In c cs -> c <> [] /\ forall pg, In pg c -> good pg) ->
  exists found', scan_combs K [] bo T cs found vols = ROk (found', vols ++ map (fun c => length (E c)) cs) /\
    (found <> [] -> found' <> []) /\
    ((exists c, In c cs /\ E c = T) -> found' <> []).
Proof.
  induction cs as [|c cs IH]; intros found vols Hcs.
  - exists found. cbn [scan_combs map]. rewrite app_nil_r. split; [reflexivity|]. split; [tauto|]. intros [c [[] _]].
  - destruct (Hcs c (or_introl eq_refl)) as [Hne Hg]. destruct (eval_comb_ok c Hne Hg) as [d Hd].
    cbn [scan_combs]. rewrite Hd. cbn [rbind fst snd].
    set (found1 := if nat_list_eqb (E c) T then add_gen found d else found).
    destruct (IH found1 (vols ++ [length (E c)])) as [found' [H1 [H2 H3]]]; [intros c' Hc'; apply Hcs; right; exact Hc'|].
    exists found'. split; [rewrite H1; cbn [map]; rewrite <- app_assoc; reflexivity|]. split.
    + intros Hf. apply H2. unfold found1. destruct (nat_list_eqb (E c) T); [apply add_gen_nonempty | exact Hf].
    + intros [c' [[<-|Hc'] Ec']].
      * apply H2. unfold found1. rewrite (proj2 (nat_list_eqb_eq _ _) Ec'). apply add_gen_nonempty.
      * apply H3. exists c'. tauto.
Qed.

Lemma scan_sizes_ok gti' : (forall pg, In pg gti' -> good pg) ->
  forall sizes, (forall k, In k sizes -> 1 <= k) ->
  exists r, scan_sizes K [] bo T gti' sizes = ROk r /\
    ((exists k c, In k sizes /\ In c (combs k gti') /\ E c = T) -> r <> []).
Proof.
  intros Hg. induction sizes as [|k sizes IH]; intros Hk.
  - exists []. split; [reflexivity|]. intros [k [c [[] _]]].
  - destruct (scan_combs_ok (combs k gti') [] []) as [f [H1 [_ H3]]].
    { intros c Hc. destruct (combs_props gti' k c Hc) as [Hl [Hi _]]. split.
      - intros X. subst c. cbn in Hl. specialize (Hk k (or_introl eq_refl)). lia.
      - intros pg Hpg. apply Hg, Hi, Hpg. }
    destruct IH as [r [Hr Hr2]]; [intros k' Hk'; apply Hk; right; exact Hk'|].
    cbn [scan_sizes]. rewrite H1. cbn [rbind fst].
    destruct f as [|d0 f'].
    + exists r. split; [exact Hr|]. intros [k' [c [[<-|Hk'] [Hc Ec]]]].
      * exfalso. apply H3; [|reflexivity]. exists c. tauto.
      * apply Hr2. exists k', c. tauto.
    + exists (d0 :: f'). split; [reflexivity | intros _; discriminate].
Qed.

End Search.

(* ------------------------------------------------------------------ the rounds *)
Lemma flat_map_ext_in {X Y} (f g : X -> list Y) l : (forall a, In a l -> f a = g a) -> flat_map f l = flat_map g l.
Proof.
  induction l as [|a l IH]; intros H; [reflexivity|]. cbn [flat_map].
  rewrite (H a (or_introl eq_refl)), IH; [reflexivity|]. intros b Hb. apply H. right. exact Hb.
Qed.

Lemma filter_map_length {X Y} (f : X -> Y) (q : Y -> bool) l :
  length (filter q (map f l)) = length (filter (fun x => q (f x)) l).
Proof. induction l as [|x l IH]; [reflexivity|]. cbn [map filter]. destruct (q (f x)); cbn [length]; rewrite IH; reflexivity. Qed.

Section Rounds.
Variable K : mvctx.
Hypothesis Hplain : mv_numpy K = false.
Variables lo hi : nat -> Z.
Hypothesis Hlh : forall ps, (lo ps <= hi ps)%Z.
Let p := length (mv_cols K).
Hypothesis Hp : 1 <= p.
Let intent : ddict := map (fun ps => (ps, iv lo hi ps)) (seq 0 p).
Variable bo : list nat.
Hypothesis Hbo : bo = filter (fun g => mem g bo) (seq 0 (mv_n K)).
Let T := filter (satisfies K intent) (seq 0 (mv_n K)).
Hypothesis Hguard : incl T bo.

Notation good := (good lo hi).
Notation E := (E K bo).

Lemma dd_get_intent ps : ps < p -> dd_get intent ps = iv lo hi ps.
Proof.
  intros H. unfold dd_get, intent.
  assert (G : forall n a, a <= ps < a + n ->
            find (fun kv : nat * descr => Nat.eqb (fst kv) ps) (map (fun q => (q, iv lo hi q)) (seq a n))
            = Some (ps, iv lo hi ps)).
  { induction n as [|n IH]; intros a Ha; [lia|]. cbn [seq map find fst].
    destruct (Nat.eqb a ps) eqn:E1; [apply Nat.eqb_eq in E1; subst; reflexivity|].
    apply Nat.eqb_neq in E1. apply IH. lia. }
  rewrite (G p 0); [reflexivity | lia].
Qed.

Lemma sat_intent g : satisfies K intent g = forallb (fun ps => satisfies1 K ps (iv lo hi ps) g) (seq 0 p).
Proof. unfold satisfies, intent. rewrite forallb_map. reflexivity. Qed.

Lemma T_in_bo : T = filter (satisfies K intent) bo.
Proof.
  rewrite Hbo at 1. rewrite filter_filter'. unfold T. apply filter_ext_in'. intros g Hg.
  destruct (satisfies K intent g) eqn:S; [|rewrite andb_false_r; reflexivity].
  assert (X : In g T) by (apply filter_In; split; assumption).
  apply Hguard in X. apply mem_In in X. rewrite X. reflexivity.
Qed.

Definition gti (maxp : nat) : list pgen :=
  flat_map (fun ps => map (pair ps) (get_generators (dd_get intent ps) 1 maxp)) (seq 0 p).

Lemma gti_good maxp pg : In pg (gti maxp) -> good pg /\ fst pg < p.
Proof.
  unfold gti. intros H. apply in_flat_map in H. destruct H as [ps [Hps H]]. apply in_seq in Hps.
  rewrite dd_get_intent in H by lia. apply in_map_iff in H. destruct H as [g [<- Hg]]. cbn [fst snd].
  split; [|lia]. unfold get_generators in Hg. apply in_flat_map in Hg. destruct Hg as [q [Hq Hg]].
  apply in_seq in Hq. unfold description_to_generators, iv in Hg. cbn [fst snd] in Hg.
  destruct q as [|[|q]]; [lia | |].
  - destruct Hg as [<-|[<-|[]]]; [left | right; left]; reflexivity.
  - destruct Hg as [<-|[]]. right. right. reflexivity.
Qed.

Lemma gti_two : gti 2 = flat_map (fun ps => [(ps, gL hi ps); (ps, gR lo ps); (ps, iv lo hi ps)]) (seq 0 p).
Proof.
  unfold gti. apply flat_map_ext_in. intros ps Hps. apply in_seq in Hps.
  rewrite dd_get_intent by lia. reflexivity.
Qed.

Definition isB (pg : pgen) : bool := descr_eqb (snd pg) (iv lo hi (fst pg)).

Lemma gti_two_length : length (gti 2) = 3 * p.
Proof.
  rewrite gti_two.
  assert (G : forall l, length (flat_map (fun ps => [(ps, gL hi ps); (ps, gR lo ps); (ps, iv lo hi ps)]) l) = 3 * length l).
  { induction l as [|a l IH]; [reflexivity|]. cbn [flat_map app length]. rewrite IH. lia. }
  rewrite G, seq_length. reflexivity.
Qed.

Lemma gti_two_isB : length (filter isB (gti 2)) = p.
Proof.
  rewrite gti_two.
  assert (G : forall l, length (filter isB (flat_map (fun ps => [(ps, gL hi ps); (ps, gR lo ps); (ps, iv lo hi ps)]) l)) = length l).
  { induction l as [|a l IH]; [reflexivity|].
    assert (E1 : isB (a, gL hi a) = false) by reflexivity.
    assert (E2 : isB (a, gR lo a) = false).
    { unfold isB, gR, iv. cbn [fst snd descr_eqb beqb]. apply andb_false_r. }
    assert (E3 : isB (a, iv lo hi a) = true) by (apply descr_eqb_eq; reflexivity).
    cbn [flat_map app filter]. rewrite E1, E2, E3. cbn [length]. rewrite IH. reflexivity. }
  rewrite G, seq_length. reflexivity.
Qed.

Lemma gti_two_B ps : ps < p -> In (ps, iv lo hi ps) (gti 2).
Proof.
  intros H. rewrite gti_two. apply in_flat_map. exists ps. split; [apply in_seq; lia|]. right. right. left. reflexivity.
Qed.

(* the candidates kept after the first pass *)
Definition kept_of (g : list pgen) (vols : list nat) : list pgen :=
  map fst (sort_by_vol (filter (fun gv => Nat.ltb (snd gv) (length bo))
                               (map (fun x => (x, vol_of g vols x)) g))).
Definition kept_gti (g : list pgen) : list pgen :=
  kept_of g (map (fun c => length (E c)) (combs 1 g)).

Lemma mv_round_eq maxp :
  mv_round K intent [] bo T (seq 0 p) 1 maxp =
  match length (gti maxp) with
  | 0 => ROk []
  | 1 => ROk []
  | _ => rbind (scan_combs K [] bo T (combs 1 (gti maxp)) [] []) (fun fv =>
           match fst fv with
           | [] => scan_sizes K [] bo T (kept_of (gti maxp) (snd fv)) (seq 2 (length (gti maxp) - 2))
           | found => ROk found
           end)
  end.
Proof. reflexivity. Qed.

Lemma kept_gti_In g pg : In pg (kept_gti g) <-> In pg g /\ length (E [pg]) < length bo.
Proof.
  unfold kept_gti, kept_of. rewrite combs_one, map_map.
  rewrite in_map_iff. split.
  - intros [[x v] [<- H]]. cbn [fst]. apply (proj1 (sort_by_vol_In _ _)) in H. apply filter_In in H. destruct H as [H1 H2].
    apply in_map_iff in H1. destruct H1 as [y [Ey Hy]]. inversion Ey; subst. cbn [snd] in H2.
    rewrite (vol_of_map (fun x => length (E [x])) g x Hy) in H2. apply Nat.ltb_lt in H2. tauto.
  - intros [H1 H2]. exists (pg, length (E [pg])). split; [reflexivity|]. apply sort_by_vol_In. apply filter_In. split.
    + apply in_map_iff. exists pg. split; [|exact H1]. f_equal. apply (vol_of_map (fun x => length (E [x])) g pg H1).
    + cbn [snd]. apply Nat.ltb_lt. exact H2.
Qed.

Lemma kept_gti_isB_count g : length (filter isB (kept_gti g)) <= length (filter isB g).
Proof.
  unfold kept_gti, kept_of. rewrite filter_map_length, sort_by_vol_count.
  eapply Nat.le_trans; [apply filter_filter_length_le|]. rewrite <- filter_map_length with (f := fst) (q := isB).
  rewrite map_map. cbn [fst]. rewrite map_id. apply Nat.le_refl.
Qed.

(* a pruned candidate does not restrict the base objects *)
Lemma pruned_all pg g : ~ length (E [pg]) < length bo -> In g bo -> satisfies1 K (fst pg) (snd pg) g = true.
Proof.
  intros H Hg. unfold C18_Term.E in H.
  assert (X : length (filter (comb_sat K [pg]) bo) = length bo) by (pose proof (filter_length_le (comb_sat K [pg]) bo); lia).
  pose proof (filter_length_all _ _ X g Hg) as Y. unfold comb_sat in Y. cbn [forallb] in Y.
  rewrite andb_true_r in Y. exact Y.
Qed.

Lemma round_total maxp : exists r, mv_round K intent [] bo T (seq 0 p) 1 maxp = ROk r.
Proof.
  rewrite mv_round_eq.
  destruct (length (gti maxp)) as [|[|m]] eqn:En; [exists []; reflexivity | exists []; reflexivity |].
  destruct (scan_combs_ok K Hplain lo hi Hlh bo T (combs 1 (gti maxp)) [] []) as [f [H1 _]].
  { intros c Hc. rewrite combs_one in Hc. apply in_map_iff in Hc. destruct Hc as [x [<- Hx]].
    split; [discriminate|]. intros pg [<-|[]]. apply (gti_good maxp), Hx. }
  rewrite H1. cbn [rbind fst snd app].
  destruct f as [|d0 f']; [|exists (d0 :: f'); reflexivity].
  fold (kept_gti (gti maxp)).
  destruct (scan_sizes_ok K Hplain lo hi Hlh bo T (kept_gti (gti maxp))) with (sizes := seq 2 (S (S m) - 2)) as [r [Hr _]].
  - intros pg Hpg. apply kept_gti_In in Hpg. apply (gti_good maxp). tauto.
  - intros k Hk. apply in_seq in Hk. lia.
  - exists r. exact Hr.
Qed.

Lemma E_star : E (filter isB (kept_gti (gti 2))) = T.
Proof.
  rewrite T_in_bo. unfold C18_Term.E. apply filter_ext_in'. intros g Hg.
  rewrite sat_intent. unfold comb_sat. apply bool_eq_iff. rewrite !forallb_forall. split.
  - intros H ps Hps. apply in_seq in Hps.
    destruct (Nat.ltb (length (E [(ps, iv lo hi ps)])) (length bo)) eqn:V.
    + apply Nat.ltb_lt in V. apply (H (ps, iv lo hi ps)). apply filter_In. split.
      * apply kept_gti_In. split; [apply gti_two_B; lia | exact V].
      * unfold isB. cbn [fst snd]. apply descr_eqb_eq. reflexivity.
    + apply Nat.ltb_ge in V. apply (pruned_all (ps, iv lo hi ps) g); [apply Nat.le_ngt; exact V | exact Hg].
  - intros H pg Hpg. apply filter_In in Hpg. destruct Hpg as [H1 H2]. apply kept_gti_In in H1. destruct H1 as [H1 _].
    destruct (gti_good 2 pg H1) as [_ Hlt]. unfold isB in H2. apply descr_eqb_eq in H2. rewrite H2.
    apply H. apply in_seq. lia.
Qed.

Lemma round_two_nonempty : exists r, mv_round K intent [] bo T (seq 0 p) 1 2 = ROk r /\ r <> [].
Proof.
  rewrite mv_round_eq.
  pose proof gti_two_length as Hn.
  destruct (length (gti 2)) as [|[|m]] eqn:En; [lia | lia |].
  destruct (scan_combs_ok K Hplain lo hi Hlh bo T (combs 1 (gti 2)) [] []) as [f [H1 [_ H3]]].
  { intros c Hc. rewrite combs_one in Hc. apply in_map_iff in Hc. destruct Hc as [x [<- Hx]].
    split; [discriminate|]. intros pg [<-|[]]. apply (gti_good 2), Hx. }
  rewrite H1. cbn [rbind fst snd app].
  destruct f as [|d0 f']; [|exists (d0 :: f'); split; [reflexivity | discriminate]].
  fold (kept_gti (gti 2)).
  set (star := filter isB (kept_gti (gti 2))).
  assert (Nohit : forall pg, In pg (gti 2) -> E [pg] <> T).
  { intros pg Hpg X. apply H3; [|reflexivity]. exists [pg]. split; [|exact X].
    rewrite combs_one. apply in_map_iff. exists pg. tauto. }
  assert (Hlen : 2 <= length star).
  { destruct star as [|pg1 [|pg2 rest]] eqn:Es; [| |cbn [length]; lia]; exfalso.
    - (* nothing kept among the full intervals: the first column alone already gives T *)
      apply (Nohit (0, iv lo hi 0)); [apply gti_two_B; lia|].
      rewrite <- E_star. fold star. rewrite Es. unfold C18_Term.E. apply filter_ext_in'. intros g Hg.
      unfold comb_sat. cbn [forallb fst snd]. rewrite andb_true_r.
      apply (pruned_all (0, iv lo hi 0) g); [|exact Hg].
      intros V. assert (X : In (0, iv lo hi 0) star).
      { apply filter_In. split; [apply kept_gti_In; split; [apply gti_two_B; lia | exact V]|].
        unfold isB. apply descr_eqb_eq. reflexivity. }
      rewrite Es in X. destruct X.
    - apply (Nohit pg1).
      + assert (X : In pg1 star) by (rewrite Es; left; reflexivity).
        apply filter_In in X. destruct X as [X _]. apply kept_gti_In in X. tauto.
      + rewrite <- E_star. fold star. rewrite Es. reflexivity. }
  assert (Hle : length star <= p).
  { unfold star. eapply Nat.le_trans; [apply kept_gti_isB_count|]. rewrite gti_two_isB. apply Nat.le_refl. }
  destruct (scan_sizes_ok K Hplain lo hi Hlh bo T (kept_gti (gti 2))) with (sizes := seq 2 (S (S m) - 2)) as [r [Hr Hr2]].
  - intros pg Hpg. apply kept_gti_In in Hpg. apply (gti_good 2). tauto.
  - intros k Hk. apply in_seq in Hk. lia.
  - exists r. split; [exact Hr|]. apply Hr2. exists (length star), star. split; [apply in_seq; lia|].
    split; [apply filter_in_combs | apply E_star].
Qed.

End Rounds.

(* ------------------------------------------------------------------ the theorem *)
Lemma mv_loop_two K intent bg bo T pti r1 r2 :
  mv_round K intent bg bo T pti 1 1 = ROk r1 ->
  mv_round K intent bg bo T pti 1 2 = ROk r2 -> r2 <> [] ->
  exists l, mv_loop 3 K intent bg bo T pti 1 1 = MOk l.
Proof.
  intros H1 H2 Hne. cbn [mv_loop]. rewrite H1. destruct r1 as [|d r1']; [|eexists; reflexivity].
  rewrite H2. destruct r2 as [|d r2']; [congruence|]. eexists; reflexivity.
Qed.

Definition full_intent (K : mvctx) (lo hi : nat -> Z) : ddict :=
  map (fun ps => (ps, iv lo hi ps)) (seq 0 (length (mv_cols K))).

Theorem mv_terminates K lo hi base :
  let bo := default (seq 0 (mv_n K)) base in
  mv_numpy K = false ->
  1 <= length (mv_cols K) ->
  (forall ps, (lo ps <= hi ps)%Z) ->
  bo = filter (fun g => mem g bo) (seq 0 (mv_n K)) ->
  incl (mv_ext_spec K (full_intent K lo hi) (seq 0 (mv_n K))) bo ->
  exists l, mv_get_minimal_generators 3 K (full_intent K lo hi) None base None 1 = MOk l.
Proof.
  intros bo Hplain Hp Hlh Hbo Hguard. unfold mv_get_minimal_generators. cbn [default]. fold bo.
  rewrite (mv_extension_plain_all K Hplain). unfold full_intent in *. unfold mv_ext_spec in Hguard.
  destruct (round_total K Hplain lo hi Hlh Hp bo 1) as [r1 H1].
  destruct (round_two_nonempty K Hplain lo hi Hlh Hp bo Hbo Hguard) as [r2 [H2 Hne]].
  exact (mv_loop_two _ _ _ _ _ _ r1 r2 H1 H2 Hne).
Qed.

(* Lemmas/C05_Base.v — list facts shared by the C05 proofs: Python's sum, counting, map2
   algebra, the cell view of well-formed tables. *)
From FCA Require Import Base.ListSet Model.BinTable Model.BinTableOps Spec.Galois
     Spec.BinTableOpsSpec Lemmas.BitRow.
From Coq Require Import Permutation.

(* ---------------------------------------------------------------- sums and counts *)

Lemma fold_left_add_acc l a : fold_left Nat.add l a = a + list_sum l.
Proof. revert a. induction l as [|x l IH]; intros a; simpl; [lia|]. rewrite IH. lia. Qed.

Lemma py_sum_list_sum l : py_sum l = list_sum l.
Proof. unfold py_sum. rewrite fold_left_add_acc. reflexivity. Qed.

Lemma list_sum_b2n_map {A} (f : A -> bool) l :
  list_sum (map b2n (map f l)) = count_true f l.
Proof.
  unfold count_true. induction l as [|x l IH]; simpl; [reflexivity|].
  destruct (f x); simpl; rewrite IH; reflexivity.
Qed.

Lemma list_sum_b2n_map' {A} (f : A -> bool) l :
  list_sum (map (fun x => b2n (f x)) l) = count_true f l.
Proof. rewrite <- list_sum_b2n_map, map_map. reflexivity. Qed.

Lemma count_true_cons {A} (f : A -> bool) x l :
  count_true f (x :: l) = b2n (f x) + count_true f l.
Proof. unfold count_true. simpl. destruct (f x); reflexivity. Qed.

(* ---------------------------------------------------------------- map2 *)

Lemma map2_map_map {A B C D} (f : B -> C -> D) (g : A -> B) (h : A -> C) l :
  map2 f (map g l) (map h l) = map (fun x => f (g x) (h x)) l.
Proof. induction l as [|x l IH]; simpl; [reflexivity|]. rewrite IH. reflexivity. Qed.

Lemma map2_add_assoc {A} (vals : list nat) (f g : A -> nat) cs :
  map2 Nat.add vals (map (fun j => f j + g j) cs)
  = map2 Nat.add (map2 Nat.add vals (map f cs)) (map g cs).
Proof.
  revert vals. induction cs as [|x cs IH]; intros [|v vals]; simpl; try reflexivity.
  rewrite IH, Nat.add_assoc. reflexivity.
Qed.

Lemma map2_add_zero_r {A} (vals : list nat) (cs : list A) :
  length vals = length cs -> map2 Nat.add vals (map (fun _ => 0) cs) = vals.
Proof.
  revert vals. induction cs as [|x cs IH]; intros [|v vals] H; simpl in *;
    try reflexivity; try discriminate.
  rewrite Nat.add_0_r, IH by lia. reflexivity.
Qed.

Lemma map2_add_repeat_zero (l : list nat) : map2 Nat.add (repeat 0 (length l)) l = l.
Proof. induction l as [|x l IH]; simpl; [reflexivity|]. rewrite IH. reflexivity. Qed.

(* the column-sum accumulation loop shared by the lists and bitarray back-ends *)
Lemma sum_columns_loop (f : nat -> nat -> bool) (cs rs : list nat) (vals : list nat) :
  length vals = length cs ->
  fold_left (fun vals i => map2 Nat.add vals (map (fun j => b2n (f i j)) cs)) rs vals
  = map2 Nat.add vals (map (fun j => count_true (fun i => f i j) rs) cs).
Proof.
  revert vals. induction rs as [|i rs IH]; intros vals Hl; simpl.
  - unfold count_true. simpl. symmetry. apply map2_add_zero_r. exact Hl.
  - rewrite IH by (rewrite map2_length, map_length, Hl; apply Nat.min_id).
    rewrite <- map2_add_assoc. f_equal. apply map_ext. intros j.
    rewrite count_true_cons. reflexivity.
Qed.

Lemma sum_columns_loop0 (f : nat -> nat -> bool) (cs rs : list nat) :
  fold_left (fun vals i => map2 Nat.add vals (map (fun j => b2n (f i j)) cs)) rs
            (repeat 0 (length cs))
  = map (fun j => count_true (fun i => f i j) rs) cs.
Proof.
  rewrite sum_columns_loop by apply repeat_length.
  rewrite <- (map_length (fun j => count_true (fun i => f i j) rs) cs).
  apply map2_add_repeat_zero.
Qed.

(* ---------------------------------------------------------------- vals[pos] += x *)

Lemma add_at_app pre v vals x k :
  length pre = k -> add_at k x (pre ++ v :: vals) = pre ++ (v + x) :: vals.
Proof.
  revert k. induction pre as [|p pre IH]; intros k Hk; subst; simpl; [reflexivity|].
  rewrite IH by reflexivity. reflexivity.
Qed.

(* for pos, j in enumerate(columns): vals[pos] += g j *)
Lemma enum_add_fold (g : nat -> nat) (c : list nat) (vals pre : list nat) k :
  length pre = k -> length vals = length c ->
  fold_left (fun vs pj => add_at (fst pj) (g (snd pj)) vs) (combine (seq k (length c)) c) (pre ++ vals)
  = pre ++ map2 Nat.add vals (map g c).
Proof.
  revert vals pre k. induction c as [|x c IH]; intros [|v vals] pre k Hk Hl; simpl in *;
    try reflexivity; try discriminate.
  rewrite add_at_app by exact Hk.
  replace (pre ++ (v + g x) :: vals) with ((pre ++ [v + g x]) ++ vals)
    by (rewrite <- app_assoc; reflexivity).
  rewrite IH by (try rewrite app_length; simpl; lia).
  rewrite <- app_assoc. reflexivity.
Qed.

(* for j in row.search(1): vals[j] += 1 *)
Lemma search_add_fold (r : list bool) (vals pre : list nat) k :
  length pre = k -> length vals = length r ->
  fold_left (fun vs j => add_at j 1 vs) (search1_from k r) (pre ++ vals)
  = pre ++ map2 Nat.add vals (map b2n r).
Proof.
  revert vals pre k. induction r as [|x r IH]; intros [|v vals] pre k Hk Hl; simpl in *;
    try reflexivity; try discriminate.
  destruct x; simpl.
  - rewrite add_at_app by exact Hk.
    replace (pre ++ (v + 1) :: vals) with ((pre ++ [v + 1]) ++ vals)
      by (rewrite <- app_assoc; reflexivity).
    rewrite IH by (try rewrite app_length; simpl; lia).
    rewrite <- app_assoc. reflexivity.
  - replace (pre ++ v :: vals) with ((pre ++ [v]) ++ vals) by (rewrite <- app_assoc; reflexivity).
    rewrite IH by (try rewrite app_length; simpl; lia).
    rewrite <- app_assoc, Nat.add_0_r. reflexivity.
Qed.

(* ---------------------------------------------------------------- the cell view *)

Lemma row_cells t i : wf t -> i < height t -> row t i = map (fun j => cell t i j) (cols_of t).
Proof.
  intros Hwf Hi. unfold cols_of, cell. rewrite <- (wf_row_length t i Hwf Hi).
  symmetry. apply map_nth_seq.
Qed.

Lemma column_cells t k :
  map (fun r => nth k r false) t = map (fun i => cell t i k) (rows_of t).
Proof.
  transitivity (map (fun r => nth k r false) (map (row t) (seq 0 (height t)))).
  - f_equal. symmetry. apply map_row_seq.
  - rewrite map_map. reflexivity.
Qed.

Lemma table_cells t : wf t -> t = sub t (rows_of t) (cols_of t).
Proof.
  intros Hwf. unfold sub, rows_of.
  transitivity (map (row t) (seq 0 (height t))); [symmetry; apply map_row_seq|].
  apply map_ext_in. intros i Hi. apply in_seq in Hi. apply row_cells; [exact Hwf | lia].
Qed.

Lemma rows_sub t rs : wf t -> in_range (height t) rs -> map (row t) rs = sub t rs (cols_of t).
Proof.
  intros Hwf Hr. unfold sub. apply map_ext_in. intros i Hi. apply row_cells; [exact Hwf|].
  apply Hr. exact Hi.
Qed.

Lemma height_sub t rs cs : height (sub t rs cs) = length rs.
Proof. unfold height, sub. apply map_length. Qed.

Lemma rows_of_in_range t : in_range (height t) (rows_of t).
Proof. intros x Hx. apply in_seq in Hx. lia. Qed.
Lemma cols_of_in_range t : in_range (width t) (cols_of t).
Proof. intros x Hx. apply in_seq in Hx. lia. Qed.

Definition sel_ok (n : nat) (l : list nat) : Prop := in_range n l /\ NoDup l.
Definition opt_sel_ok (n : nat) (o : option (list nat)) : Prop :=
  match o with None => True | Some l => sel_ok n l end.

Lemma opt_sel_ok_range n o : opt_sel_ok n o -> opt_in_range n o.
Proof. destruct o; simpl; [intros [H _]; exact H | auto]. Qed.

Lemma rows_or_sel_ok t rows : opt_sel_ok (height t) rows -> sel_ok (height t) (rows_or t rows).
Proof.
  destruct rows as [r|]; simpl; intros H; [exact H|]. split; [apply rows_of_in_range | apply seq_NoDup].
Qed.
Lemma cols_or_sel_ok t cols : opt_sel_ok (width t) cols -> sel_ok (width t) (cols_or t cols).
Proof.
  destruct cols as [r|]; simpl; intros H; [exact H|]. split; [apply cols_of_in_range | apply seq_NoDup].
Qed.

(* counting through a mask: the bits of r at the positions of a duplicate-free selection *)
Lemma count_mask (r : list bool) (c : list nat) w :
  length r = w -> in_range w c -> NoDup c ->
  bcount (band r (mask_in c w)) = count_true (fun j => nth j r false) c.
Proof.
  intros Hl Hc Hnd. unfold bcount, band, mask_in.
  rewrite <- (map_nth_seq r false) at 1. rewrite Hl.
  rewrite map2_map_map, list_sum_b2n_map. unfold count_true.
  apply Permutation_length. apply NoDup_Permutation.
  - apply NoDup_filter. apply seq_NoDup.
  - apply NoDup_filter. exact Hnd.
  - intros x. rewrite !filter_In, andb_true_iff, mem_In, in_seq. split.
    + intros [_ [H1 H2]]. auto.
    + intros [H1 H2]. specialize (Hc x H1). repeat split; auto; lia.
Qed.

(* Lemmas/C19_Shift.v — shift_node moves the node min(|k|, room) places among its peers.
   Needs the invariant [slots_ok] (in every level the slots are exactly 0..m-1), which holds
   after loading and is preserved by every operation on in-range node indexes. *)
From Coq Require Import ZArith QArith Permutation Sorted.
From FCA Require Import Base.ListSet Model.C19_LineLayout Model.C19_Mover Lemmas.C19_Mover.
Local Open Scope nat_scope.

(* ------------------------------------------------------------------ sorting by a key *)
Section Sort.
Variable A : Type.
Variable f : A -> nat.
Let le := fun a b => Nat.leb (f a) (f b).
Let R := fun a b => f a <= f b.

Lemma insert_hdrel x y l : R y x -> HdRel R y l -> HdRel R y (insert_by le x l).
Proof.
  intros Hyx H. destruct l as [|a l]; cbn; [constructor; exact Hyx|].
  inversion H; subst. destruct (le x a); constructor; assumption.
Qed.

Lemma insert_sorted x l : Sorted R l -> Sorted R (insert_by le x l).
Proof.
  induction l as [|y t IH]; intro Hso; cbn.
  - constructor; constructor.
  - inversion Hso as [|? ? St Hd]; subst. destruct (le x y) eqn:E.
    + constructor; [exact Hso|]. constructor. unfold le in E. apply Nat.leb_le in E. exact E.
    + constructor; [apply IH; exact St|]. apply insert_hdrel; [|exact Hd].
      unfold le in E. apply Nat.leb_gt in E. unfold R. lia.
Qed.

Lemma isort_sorted l : Sorted R (isort le l).
Proof. induction l as [|a l IH]; [constructor|]. rewrite isort_cons. apply insert_sorted, IH. Qed.

Lemma sorted_map l : Sorted R l -> Sorted Nat.le (map f l).
Proof.
  induction l as [|a l IH]; intro Hso; cbn; [constructor|].
  inversion Hso as [|? ? St Hd]; subst. constructor; [apply IH, St|].
  destruct l as [|b l]; cbn; constructor. inversion Hd; subst. assumption.
Qed.
End Sort.

Lemma sorted_perm_seq : forall m l s, Sorted Nat.le l -> Permutation l (seq s m) -> l = seq s m.
Proof.
  induction m as [|m IH]; intros l s Hso P.
  - cbn in *. apply Permutation_sym, Permutation_nil in P. exact P.
  - cbn [seq] in *. destruct l as [|a t].
    + apply Permutation_nil in P. discriminate.
    + assert (SS : StronglySorted Nat.le (a :: t)).
      { apply Sorted_StronglySorted; [intros x y z; apply Nat.le_trans | exact Hso]. }
      inversion SS as [|? ? SSt Fa]; subst. rewrite Forall_forall in Fa.
      assert (Hs : In s (a :: t)) by (apply (Permutation_in _ (Permutation_sym P)); now left).
      assert (Ha : In a (s :: seq (S s) m)) by (apply (Permutation_in _ P); now left).
      assert (E : a = s).
      { destruct Hs as [Hs|Hs]; [exact Hs|]. specialize (Fa s Hs).
        destruct Ha as [Ha|Ha]; [now symmetry|]. apply in_seq in Ha. lia. }
      subst a. f_equal. apply IH.
      * inversion Hso; assumption.
      * eapply Permutation_cons_inv. exact P.
Qed.

(* ------------------------------------------------------------------ firstn / skipn / rev / last *)
Lemma nth_firstn_lt {A} (l : list A) a u d : u < a -> nth u (firstn a l) d = nth u l d.
Proof.
  revert a u. induction l as [|x l IH]; intros a u H.
  - now rewrite firstn_nil.
  - destruct a as [|a]; [lia|]. destruct u as [|u]; cbn; [reflexivity|]. apply IH. lia.
Qed.

Lemma nth_skipn_add {A} (l : list A) b u d : nth u (skipn b l) d = nth (b + u) l d.
Proof.
  revert l. induction b as [|b IH]; intro l; [reflexivity|]. destruct l as [|x l]; cbn [skipn].
  - destruct u; destruct b; reflexivity.
  - apply IH.
Qed.

Lemma in_firstn {A} (l : list A) a x : In x (firstn a l) -> In x l.
Proof. intro H. rewrite <- (firstn_skipn a l). apply in_or_app. now left. Qed.
Lemma in_skipn {A} (l : list A) a x : In x (skipn a l) -> In x l.
Proof. intro H. rewrite <- (firstn_skipn a l). apply in_or_app. now right. Qed.

Lemma nodup_app_parts {A} (a b : list A) : NoDup (a ++ b) -> NoDup a /\ NoDup b.
Proof.
  induction a as [|x a IH]; cbn; intro H; [split; [constructor | exact H]|].
  inversion H as [|? ? Hx H']; subst. destruct (IH H') as [Ha Hb]. split; [|exact Hb].
  constructor; [|exact Ha]. intro Hin. apply Hx. apply in_or_app. now left.
Qed.

Lemma nodup_firstn {A} (l : list A) a : NoDup l -> NoDup (firstn a l).
Proof. intro H. rewrite <- (firstn_skipn a l) in H. exact (proj1 (nodup_app_parts _ _ H)). Qed.
Lemma nodup_skipn {A} (l : list A) a : NoDup l -> NoDup (skipn a l).
Proof. intro H. rewrite <- (firstn_skipn a l) in H. exact (proj2 (nodup_app_parts _ _ H)). Qed.

Lemma nodup_app_disjoint {A} (a b : list A) x : NoDup (a ++ b) -> In x a -> ~ In x b.
Proof.
  induction a as [|y a IH]; intros ND Ha; [contradiction|]. cbn in ND. inversion ND as [|? ? Hy ND']; subst.
  destruct Ha as [->|Ha].
  - intro Hb. apply Hy. apply in_or_app. now right.
  - apply IH; assumption.
Qed.

Lemma last_nth {A} (l : list A) d : last l d = nth (length l - 1) l d.
Proof.
  induction l as [|a l IH]; [reflexivity|]. destruct l as [|b l]; [reflexivity|].
  change (last (a :: b :: l) d) with (last (b :: l) d). rewrite IH. cbn [length].
  replace (S (S (length l)) - 1) with (S (length l)) by lia. cbn [nth].
  replace (S (length l) - 1) with (length l) by lia. reflexivity.
Qed.

(* ------------------------------------------------------------------ the peers in slot order *)
Section Row.
Variable s : mstate.
Hypothesis OK : slots_ok s.
Variable lvl : nat.
Hypothesis Hlvl : lvl < length (m_ppeers s).
Let n := length (m_levels s).
Let row := peers_sorted s lvl.
Let m := length (nth lvl (m_ppeers s) []).

Lemma row_perm : Permutation row (level_nodes s lvl).
Proof. unfold row, peers_sorted. apply isort_perm. Qed.

Lemma row_slots : map (slot_of s) row = seq 0 m.
Proof.
  apply sorted_perm_seq.
  - unfold row, peers_sorted. apply (sorted_map nat (slot_of s)). apply isort_sorted.
  - eapply Permutation_trans; [apply Permutation_map, row_perm|]. apply (proj2 OK lvl Hlvl).
Qed.

Lemma row_length : length row = m.
Proof. pose proof (f_equal (@length nat) row_slots) as H. now rewrite map_length, seq_length in H. Qed.

Lemma row_slot j : j < m -> slot_of s (nth j row 0) = j.
Proof.
  intro Hj. pose proof (f_equal (fun l => nth j l 0) row_slots) as H. cbn beta in H.
  rewrite (nth_map_in (slot_of s) row j 0 0) in H by (rewrite row_length; exact Hj).
  rewrite seq_nth in H by exact Hj. exact H.
Qed.

Lemma row_nodup : NoDup row.
Proof. apply (Permutation_NoDup (Permutation_sym row_perm)). apply NoDup_filter, seq_NoDup. Qed.

Lemma row_in el : In el row <-> el < n /\ level_of s el = lvl.
Proof.
  split.
  - intro H. apply (Permutation_in _ row_perm) in H. apply filter_In in H. destruct H as [A B].
    apply in_seq in A. apply Nat.eqb_eq in B. split; [exact (proj2 A) | exact B].
  - intros [A B]. apply (Permutation_in _ (Permutation_sym row_perm)). apply filter_In. split.
    + apply in_seq. split; [lia | exact A].
    + apply Nat.eqb_eq. exact B.
Qed.

Lemma row_at el : In el row -> slot_of s el < m /\ nth (slot_of s el) row 0 = el.
Proof.
  intro H. destruct (In_nth _ _ 0 H) as (j & Hj & Ej). rewrite row_length in Hj.
  rewrite <- Ej at 1 2. rewrite (row_slot j Hj). split; [exact Hj | exact Ej].
Qed.
End Row.

(* ------------------------------------------------------------------ shift_exact *)
Section Shift.
Variable s : mstate.
Hypothesis OK : slots_ok s.
Variable i : nat.
Hypothesis Hi : i < length (m_levels s).

Let lvl := level_of s i.
Let pid := slot_of s i.
Let row := peers_sorted s lvl.
Let m := length (nth lvl (m_ppeers s) []).

Lemma lvl_ok : lvl < length (m_ppeers s).
Proof. exact (proj1 (proj2 (proj1 OK) i Hi)). Qed.
Lemma pid_ok : pid < m.
Proof. exact (proj2 (proj2 (proj1 OK) i Hi)). Qed.
Lemma i_in_row : In i row.
Proof. apply (proj2 (row_in s lvl lvl_ok i)). split; [exact Hi | reflexivity]. Qed.
Lemma i_at : nth pid row 0 = i.
Proof. exact (proj2 (row_at s OK lvl lvl_ok i i_in_row)). Qed.
Lemma row_len : length row = m.
Proof. exact (row_length s OK lvl lvl_ok). Qed.
Lemma order_len : length (m_order s) = length (m_levels s).
Proof. exact (proj1 (proj1 OK)). Qed.

Lemma js_in_range js : (forall x, In x js -> In x row) ->
  forall j, In j js -> j < length (m_order s) /\ level_of s j = level_of s i.
Proof.
  intros Sub j Hj. apply Sub in Hj. apply (row_in s lvl lvl_ok) in Hj. rewrite order_len. exact Hj.
Qed.

(* ---- to the right *)
Section Right.
Variable a : nat.
Let js := firstn a (skipn (S pid) row).
Let r := Nat.min a (m - S pid).

Lemma jsR_length : length js = r.
Proof. unfold js, r. rewrite firstn_length, skipn_length, row_len. reflexivity. Qed.

Lemma jsR_nth u : u < r -> nth u js 0 = nth (S pid + u) row 0.
Proof. intro H. unfold js. rewrite nth_firstn_lt by (unfold r in H; lia). apply nth_skipn_add. Qed.

Lemma jsR_sub x : In x js -> In x row.
Proof. intro H. apply in_firstn in H. apply in_skipn in H. exact H. Qed.

Lemma jsR_nodup : NoDup js.
Proof. apply nodup_firstn, nodup_skipn, (row_nodup s lvl). Qed.

Lemma jsR_not_i : ~ In i js.
Proof.
  intro H. apply in_firstn in H.
  pose proof (row_nodup s lvl) as ND. fold row in ND. rewrite <- (firstn_skipn (S pid) row) in ND.
  apply (nodup_app_disjoint _ _ i ND); [|exact H].
  rewrite <- i_at. rewrite <- (nth_firstn_lt row (S pid) pid 0) by lia.
  apply nth_In. rewrite firstn_length, row_len. pose proof pid_ok. lia.
Qed.

Lemma jsR_slot u : u < r -> slot_of s (nth u js 0) = S pid + u.
Proof. intro H. rewrite jsR_nth by exact H. apply (row_slot s OK lvl lvl_ok). unfold r in H. lia. Qed.

Lemma shift_right_exact :
  let res := swap_all s i js in
  snd res = 0 /\ m_ppeers (fst res) = m_ppeers s /\ m_v (fst res) = m_v s /\
  slot_of (fst res) i = pid + r /\
  forall el, el <> i ->
    slot_of (fst res) el =
      if Nat.eqb (level_of s el) lvl && Nat.ltb el (length (m_levels s))
         && Nat.ltb pid (slot_of s el) && Nat.leb (slot_of s el) (pid + r)
      then slot_of s el - 1 else slot_of s el.
Proof.
  destruct (swap_all_rot js s i jsR_nodup jsR_not_i) as (E0 & P & V & Si & Sj & So).
  { rewrite order_len. exact Hi. }
  { apply js_in_range. exact jsR_sub. }
  cbn zeta. split; [exact E0|]. split; [exact P|]. split; [exact V|]. split.
  - rewrite Si, last_nth, jsR_length. destruct r as [|r'] eqn:Er.
    + assert (js = []) by (apply length_zero_iff_nil; rewrite jsR_length; exact Er). rewrite H. cbn. fold pid. lia.
    + replace (S r' - 1) with r' by lia. rewrite (nth_indep js i 0) by (rewrite jsR_length; lia).
      rewrite jsR_slot by lia. lia.
  - intros el Nel.
    destruct (Nat.eqb (level_of s el) lvl && Nat.ltb el (length (m_levels s))
              && Nat.ltb pid (slot_of s el) && Nat.leb (slot_of s el) (pid + r)) eqn:C.
    + apply andb_true_iff in C. destruct C as [C C4]. apply andb_true_iff in C. destruct C as [C C3].
      apply andb_true_iff in C. destruct C as [C1 C2].
      apply Nat.eqb_eq in C1. apply Nat.ltb_lt in C2. apply Nat.ltb_lt in C3. apply Nat.leb_le in C4.
      assert (Hin : In el row) by (apply (proj2 (row_in s lvl lvl_ok el)); split; assumption).
      destruct (row_at s OK lvl lvl_ok el Hin) as [Hq Eq]. fold row in Eq.
      set (q := slot_of s el) in *. set (u := q - S pid).
      assert (Hu : u < r) by (unfold u; lia).
      assert (Eel : nth u js 0 = el) by (rewrite jsR_nth by exact Hu; unfold u; replace (S pid + (q - S pid)) with q by lia; exact Eq).
      rewrite <- Eel at 1. rewrite Sj by (rewrite jsR_length; exact Hu).
      destruct u as [|u'] eqn:Eu; [fold pid; lia|].
      rewrite jsR_slot by lia. lia.
    + apply So; [exact Nel|]. intro Hin.
      destruct (In_nth _ _ 0 Hin) as (u & Hu & Eu). rewrite jsR_length in Hu.
      pose proof (jsR_slot u Hu) as Su. rewrite Eu in Su.
      assert (Hr : In el row) by (apply jsR_sub; exact Hin). apply (row_in s lvl lvl_ok) in Hr. destruct Hr as [R1 R2].
      rewrite (proj2 (Nat.eqb_eq _ _) R2), (proj2 (Nat.ltb_lt _ _) R1) in C. cbn [andb] in C.
      apply andb_false_iff in C. destruct C as [C|C]; [apply Nat.ltb_ge in C | apply Nat.leb_gt in C]; lia.
Qed.
End Right.

(* ---- to the left *)
Section Left.
Variable a : nat.
Let js := firstn a (rev (firstn pid row)).
Let r := Nat.min a pid.

Lemma pre_length : length (firstn pid row) = pid.
Proof. rewrite firstn_length, row_len. pose proof pid_ok. lia. Qed.

Lemma jsL_length : length js = r.
Proof. unfold js, r. rewrite firstn_length, rev_length, pre_length. reflexivity. Qed.

Lemma jsL_nth u : u < r -> nth u js 0 = nth (pid - S u) row 0.
Proof.
  intro H. unfold js. rewrite nth_firstn_lt by (unfold r in H; lia).
  rewrite rev_nth by (rewrite pre_length; unfold r in H; lia). rewrite pre_length.
  apply nth_firstn_lt. unfold r in H. lia.
Qed.

Lemma jsL_sub x : In x js -> In x row.
Proof. intro H. apply in_firstn in H. apply in_rev in H. apply in_firstn in H. exact H. Qed.

Lemma jsL_nodup : NoDup js.
Proof. apply nodup_firstn, NoDup_rev, nodup_firstn, (row_nodup s lvl). Qed.

Lemma jsL_not_i : ~ In i js.
Proof.
  intro H. apply in_firstn in H. apply in_rev in H.
  pose proof (row_nodup s lvl) as ND. fold row in ND. rewrite <- (firstn_skipn pid row) in ND.
  apply (nodup_app_disjoint _ _ i ND H).
  assert (E : nth 0 (skipn pid row) 0 = i) by (rewrite nth_skipn_add, Nat.add_0_r; exact i_at).
  rewrite <- E. apply nth_In. rewrite skipn_length, row_len. pose proof pid_ok. lia.
Qed.

Lemma jsL_slot u : u < r -> slot_of s (nth u js 0) = pid - S u.
Proof. intro H. rewrite jsL_nth by exact H. apply (row_slot s OK lvl lvl_ok). pose proof pid_ok. lia. Qed.

Lemma shift_left_exact :
  let res := swap_all s i js in
  snd res = 0 /\ m_ppeers (fst res) = m_ppeers s /\ m_v (fst res) = m_v s /\
  slot_of (fst res) i = pid - r /\
  forall el, el <> i ->
    slot_of (fst res) el =
      if Nat.eqb (level_of s el) lvl && Nat.ltb el (length (m_levels s))
         && Nat.leb (pid - r) (slot_of s el) && Nat.ltb (slot_of s el) pid
      then slot_of s el + 1 else slot_of s el.
Proof.
  destruct (swap_all_rot js s i jsL_nodup jsL_not_i) as (E0 & P & V & Si & Sj & So).
  { rewrite order_len. exact Hi. }
  { apply js_in_range. exact jsL_sub. }
  assert (Rp : r <= pid) by (unfold r; lia).
  cbn zeta. split; [exact E0|]. split; [exact P|]. split; [exact V|]. split.
  - rewrite Si, last_nth, jsL_length. destruct r as [|r'] eqn:Er.
    + assert (js = []) by (apply length_zero_iff_nil; rewrite jsL_length; exact Er). rewrite H. cbn. fold pid. lia.
    + replace (S r' - 1) with r' by lia. rewrite (nth_indep js i 0) by (rewrite jsL_length; lia).
      rewrite jsL_slot by lia. lia.
  - intros el Nel.
    destruct (Nat.eqb (level_of s el) lvl && Nat.ltb el (length (m_levels s))
              && Nat.leb (pid - r) (slot_of s el) && Nat.ltb (slot_of s el) pid) eqn:C.
    + apply andb_true_iff in C. destruct C as [C C4]. apply andb_true_iff in C. destruct C as [C C3].
      apply andb_true_iff in C. destruct C as [C1 C2].
      apply Nat.eqb_eq in C1. apply Nat.ltb_lt in C2. apply Nat.leb_le in C3. apply Nat.ltb_lt in C4.
      assert (Hin : In el row) by (apply (proj2 (row_in s lvl lvl_ok el)); split; assumption).
      destruct (row_at s OK lvl lvl_ok el Hin) as [Hq Eq]. fold row in Eq.
      set (q := slot_of s el) in *. set (u := pid - S q).
      assert (Hu : u < r) by (unfold u; lia).
      assert (Eel : nth u js 0 = el) by (rewrite jsL_nth by exact Hu; unfold u; replace (pid - S (pid - S q)) with q by lia; exact Eq).
      rewrite <- Eel at 1. rewrite Sj by (rewrite jsL_length; exact Hu).
      destruct u as [|u'] eqn:Eu; [fold pid; lia|].
      rewrite jsL_slot by lia. lia.
    + apply So; [exact Nel|]. intro Hin.
      destruct (In_nth _ _ 0 Hin) as (u & Hu & Eu). rewrite jsL_length in Hu.
      pose proof (jsL_slot u Hu) as Su. rewrite Eu in Su.
      assert (Hr : In el row) by (apply jsL_sub; exact Hin). apply (row_in s lvl lvl_ok) in Hr. destruct Hr as [R1 R2].
      rewrite (proj2 (Nat.eqb_eq _ _) R2), (proj2 (Nat.ltb_lt _ _) R1) in C. cbn [andb] in C.
      apply andb_false_iff in C. destruct C as [C|C]; [apply Nat.leb_gt in C | apply Nat.ltb_ge in C]; lia.
Qed.
End Left.

(* shift_node itself *)
Lemma shift_node_right k : (0 <= k)%Z ->
  shift_node s i k = swap_all s i (firstn (Z.abs_nat k) (skipn (S pid) row)).
Proof. intro H. unfold shift_node. apply Z.leb_le in H. rewrite H. reflexivity. Qed.

Lemma shift_node_left k : (k < 0)%Z ->
  shift_node s i k = swap_all s i (firstn (Z.abs_nat k) (rev (firstn pid row))).
Proof. intro H. unfold shift_node. apply Z.leb_gt in H. rewrite H. reflexivity. Qed.
End Shift.

(* ------------------------------------------------------------------ slots_ok is an invariant *)
Definition tau (a b x : nat) : nat := if Nat.eqb x a then b else if Nat.eqb x b then a else x.

Lemma tau_invol a b x : tau a b (tau a b x) = x.
Proof.
  unfold tau. destruct (Nat.eqb x a) eqn:E1.
  - apply Nat.eqb_eq in E1. subst. destruct (Nat.eqb b a) eqn:E2.
    + apply Nat.eqb_eq in E2. exact E2.
    + now rewrite Nat.eqb_refl.
  - destruct (Nat.eqb x b) eqn:E2.
    + apply Nat.eqb_eq in E2. subst. now rewrite Nat.eqb_refl.
    + now rewrite E1, E2.
Qed.

Lemma tau_other a b x : x <> a -> x <> b -> tau a b x = x.
Proof. intros H1 H2. unfold tau. apply Nat.eqb_neq in H1. apply Nat.eqb_neq in H2. now rewrite H1, H2. Qed.

Lemma tau_in a b l x : In a l -> In b l -> In x l -> In (tau a b x) l.
Proof.
  intros Ha Hb Hx. unfold tau. destruct (Nat.eqb x a); [exact Hb|]. destruct (Nat.eqb x b); [exact Ha | exact Hx].
Qed.

Lemma tau_perm a b l : NoDup l -> (In a l <-> In b l) -> Permutation (map (tau a b) l) l.
Proof.
  intros ND Hab. destruct (in_dec Nat.eq_dec a l) as [Ha|Ha].
  - assert (Hb : In b l) by (apply Hab; exact Ha).
    apply NoDup_Permutation; [|exact ND|].
    + apply FinFun.Injective_map_NoDup; [|exact ND].
      intros x y E. rewrite <- (tau_invol a b x), <- (tau_invol a b y). now rewrite E.
    + intro x. split.
      * intro H. apply in_map_iff in H. destruct H as (y & <- & Hy). apply tau_in; assumption.
      * intro H. apply in_map_iff. exists (tau a b x). split; [apply tau_invol | apply tau_in; assumption].
  - assert (Hb : ~ In b l) by (intro H; apply Ha, Hab, H).
    rewrite (map_ext_in (tau a b) (fun x => x)); [rewrite map_id; apply Permutation_refl|].
    intros x Hx. apply tau_other; intro; subst; contradiction.
Qed.

Lemma swap_slot_tau s a b :
  a < length (m_order s) -> b < length (m_order s) -> level_of s a = level_of s b ->
  forall x, slot_of (fst (swap_nodes s a b)) x = slot_of s (tau a b x).
Proof.
  intros Ha Hb L x. destruct (Nat.eq_dec a b) as [<-|N].
  - unfold swap_nodes. rewrite Nat.eqb_refl. cbn [fst]. unfold slot_of at 1. cbn [m_order with_order].
    unfold tau. destruct (Nat.eqb x a) eqn:E.
    + apply Nat.eqb_eq in E. subst x. apply nth_set_nth_eq. now rewrite set_nth_length.
    + apply Nat.eqb_neq in E. rewrite !nth_set_nth_neq by congruence. reflexivity.
  - destruct (swap_slots s a b Ha Hb N (eq_sym L)) as (_ & _ & _ & _ & _ & Sa & Sb & So).
    unfold tau. destruct (Nat.eqb x a) eqn:E1.
    + apply Nat.eqb_eq in E1. subst. exact Sa.
    + destruct (Nat.eqb x b) eqn:E2.
      * apply Nat.eqb_eq in E2. subst. exact Sb.
      * apply Nat.eqb_neq in E1. apply Nat.eqb_neq in E2. apply So; assumption.
Qed.

Lemma swap_slots_ok s a b :
  slots_ok s -> a < length (m_levels s) -> b < length (m_levels s) -> slots_ok (fst (swap_nodes s a b)).
Proof.
  intros [W P] Ha Hb. split; [apply swap_wf; exact W|].
  destruct (Nat.eq_dec (level_of s a) (level_of s b)) as [L|L].
  2:{ rewrite (swap_rejected s a b L). exact P. }
  pose proof (swap_levels s a b) as [L1 _]. intros lvl Hl.
  assert (PP : m_ppeers (fst (swap_nodes s a b)) = m_ppeers s).
  { unfold swap_nodes. destruct (Nat.eqb _ _); reflexivity. }
  rewrite PP in *. specialize (P lvl Hl).
  assert (EN : level_nodes (fst (swap_nodes s a b)) lvl = level_nodes s lvl).
  { unfold level_nodes, level_of. now rewrite L1. }
  rewrite EN. eapply Permutation_trans; [|exact P].
  rewrite (map_ext (slot_of (fst (swap_nodes s a b))) (fun x => slot_of s (tau a b x))).
  2:{ apply swap_slot_tau; [rewrite (proj1 W); exact Ha | rewrite (proj1 W); exact Hb | exact L]. }
  rewrite <- (map_map (tau a b) (slot_of s)). apply Permutation_map. apply tau_perm.
  - apply NoDup_filter, seq_NoDup.
  - unfold level_nodes. rewrite !filter_In, !in_seq, !Nat.eqb_eq. rewrite L. split; intros [_ E]; split; auto; lia.
Qed.

Lemma swap_all_slots_ok i js : forall st,
  slots_ok (fst st) -> i < length (m_levels (fst st)) ->
  (forall j, In j js -> j < length (m_levels (fst st))) ->
  slots_ok (fst (fold_left (fun st j => if Nat.eqb (snd st) 0 then swap_nodes (fst st) i j else st) js st)).
Proof.
  induction js as [|j js IH]; intros st OK Hi Hjs; cbn [fold_left]; [exact OK|].
  apply IH.
  - destruct (Nat.eqb (snd st) 0); [|exact OK]. apply swap_slots_ok; [exact OK | exact Hi | apply Hjs; now left].
  - destruct (Nat.eqb (snd st) 0); [|exact Hi]. now rewrite (proj1 (swap_levels (fst st) i j)).
  - intros x Hx. destruct (Nat.eqb (snd st) 0); [rewrite (proj1 (swap_levels (fst st) i j))|]; apply Hjs; now right.
Qed.

Lemma shift_slots_ok s i k : slots_ok s -> i < length (m_levels s) -> slots_ok (fst (shift_node s i k)).
Proof.
  intros OK Hi. unfold shift_node, swap_all. apply (swap_all_slots_ok i _ (s, 0)); [exact OK | exact Hi|].
  intros j Hj. apply in_firstn in Hj.
  assert (In j (peers_sorted s (level_of s i))).
  { destruct (Z.leb 0 k); [apply in_skipn in Hj; exact Hj | apply in_rev in Hj; apply in_firstn in Hj; exact Hj]. }
  apply (Permutation_in _ (row_perm s (level_of s i))) in H. apply filter_In in H. destruct H as [H _].
  apply in_seq in H. cbn [fst]. lia.
Qed.

Lemma with_ppeers_slots_ok s lvl j x :
  slots_ok s -> slots_ok (with_ppeers s (set_nth lvl (set_nth j x (nth lvl (m_ppeers s) [])) (m_ppeers s))).
Proof.
  intros [W P]. split; [apply with_ppeers_wf; exact W|]. intros l Hl.
  cbn [m_ppeers with_ppeers] in *. rewrite set_nth_length in Hl.
  assert (EL : length (nth l (set_nth lvl (set_nth j x (nth lvl (m_ppeers s) [])) (m_ppeers s)) []) = length (nth l (m_ppeers s) [])).
  { destruct (Nat.eq_dec lvl l) as [->|N].
    - rewrite nth_set_nth_eq by exact Hl. apply set_nth_length.
    - now rewrite nth_set_nth_neq by exact N. }
  rewrite EL. exact (P l Hl).
Qed.

Lemma jitter_slots_ok s i dx : slots_ok s -> i < length (m_levels s) -> slots_ok (fst (jitter_node s i dx)).
Proof.
  intros OK Hi. unfold jitter_node.
  destruct (if Qle_bool 0 dx then _ else _); [apply with_ppeers_slots_ok; exact OK|].
  destruct (if Qle_bool 0 dx then _ else _); [apply with_ppeers_slots_ok; exact OK|].
  destruct (existsb _ _); [exact OK|].
  match goal with |- context [shift_node s i ?k] =>
    pose proof (shift_slots_ok s i k OK Hi) as W1; pose proof (shift_levels s i k) as L1;
    destruct (shift_node s i k) as [s1 e] end.
  cbn [fst snd] in *. destruct (Nat.eqb e 0); cbn [fst]; [|exact W1].
  rewrite <- (level_of_same s s1 i L1). apply with_ppeers_slots_ok. exact W1.
Qed.

Definition op_in_range (n : nat) (o : mop) : Prop :=
  match o with
  | Swap a b => a < n /\ b < n
  | Shift i _ | Jitter i _ | Place i _ => i < n
  | SetDir _ => True
  end.

Lemma step_slots_ok s o : slots_ok s -> op_in_range (length (m_levels s)) o -> slots_ok (fst (step s o)).
Proof.
  intros OK R. destruct o; cbn [step op_in_range] in *.
  - apply swap_slots_ok; tauto.
  - apply shift_slots_ok; assumption.
  - apply jitter_slots_ok; assumption.
  - apply jitter_slots_ok; assumption.
  - exact OK.
Qed.

Lemma run_slots_ok ops : forall s,
  slots_ok s -> Forall (op_in_range (length (m_levels s))) ops -> slots_ok (run s ops).
Proof.
  unfold run. induction ops as [|o ops IH]; intros s OK R; cbn [fold_left]; [exact OK|].
  inversion R as [|? ? Ro Rs]; subst. apply IH; [apply step_slots_ok; assumption|].
  rewrite (proj1 (step_levels s o)). exact Rs.
Qed.

(* ------------------------------------------------------------------ the statement *)
Theorem shift_exact s i k :
  slots_ok s -> i < length (m_levels s) ->
  let pid := slot_of s i in
  let m := length (nth (level_of s i) (m_ppeers s) []) in
  let r := if Z.leb 0 k then Nat.min (Z.abs_nat k) (m - S pid) else Nat.min (Z.abs_nat k) pid in
  let pid' := if Z.leb 0 k then pid + r else pid - r in
  let s' := fst (shift_node s i k) in
  snd (shift_node s i k) = 0 /\ m_ppeers s' = m_ppeers s /\ m_v s' = m_v s /\
  slot_of s' i = pid' /\
  forall el, el <> i ->
    slot_of s' el =
      if Nat.eqb (level_of s el) (level_of s i) && Nat.ltb el (length (m_levels s))
      then if Z.leb 0 k
           then if Nat.ltb pid (slot_of s el) && Nat.leb (slot_of s el) pid' then slot_of s el - 1 else slot_of s el
           else if Nat.leb pid' (slot_of s el) && Nat.ltb (slot_of s el) pid then slot_of s el + 1 else slot_of s el
      else slot_of s el.
Proof.
  intros OK Hi. cbn zeta. destruct (Z.leb 0 k) eqn:K.
  - apply Z.leb_le in K. rewrite (shift_node_right s i k K).
    destruct (shift_right_exact s OK i Hi (Z.abs_nat k)) as (E0 & P & V & Si & So).
    split; [exact E0|]. split; [exact P|]. split; [exact V|]. split; [exact Si|].
    intros el Nel. rewrite (So el Nel).
    destruct (Nat.eqb (level_of s el) (level_of s i)); destruct (Nat.ltb el (length (m_levels s))); reflexivity.
  - apply Z.leb_gt in K. rewrite (shift_node_left s i k K).
    destruct (shift_left_exact s OK i Hi (Z.abs_nat k)) as (E0 & P & V & Si & So).
    split; [exact E0|]. split; [exact P|]. split; [exact V|]. split; [exact Si|].
    intros el Nel. rewrite (So el Nel).
    destruct (Nat.eqb (level_of s el) (level_of s i)); destruct (Nat.ltb el (length (m_levels s))); reflexivity.
Qed.

Lemma load_levels_length v p : length (m_levels (load v p)) = length p.
Proof. cbn [m_levels load]. rewrite map_length. destruct v; [reflexivity | apply map_length]. Qed.

Theorem reachable_slots_ok v p ops :
  Forall (op_in_range (length p)) ops -> slots_ok (run (load v p) ops).
Proof.
  intro R. apply run_slots_ok; [apply load_slots_ok|]. rewrite load_levels_length. exact R.
Qed.

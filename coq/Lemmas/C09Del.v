(* Lemmas/C09Del.v — POSet.__delitem__ preserves the cache invariant [Sound] (property C09, the
   delete step): the prefetch caches everything reconnect_relatives subscripts (no KeyError),
   reconnect_relatives turns the caches into correct caches of the order without the deleted
   element (old indexing), decrement_dict re-indexes them. *)
From FCA Require Import Base.ListSet Spec.PosetSpec Model.Poset Lemmas.C09Base Lemmas.C09Query.
From FCA Require Import Lemmas.C09DelOrder Lemmas.C09DelCache.

#[local] Arguments upd : simpl never.
#[local] Arguments updl : simpl never.
#[local] Arguments lk : simpl never.
#[local] Arguments lkl : simpl never.

Section Del.
  Variable E : Type.
  Variable leq eqb : E -> E -> bool.
  Hypothesis PO : partial_order E leq eqb.

  Notation state := (state E).
  Notation Sound0 := (Sound E leq []).
  Notation SR := (strict_rel E leq).
  Notation covers := (covers E leq).
  Notation closed := (closed E leq).
  Notation cover := (cover E leq).

  (* a cache-free poset carries no cache entries *)
  Definition Tidy (s : state) : Prop :=
    use_cache s = false ->
    c_leq s = [] /\ c_desc s = [] /\ c_anc s = [] /\ c_ch s = [] /\ c_par s = [].

  (* ---------------------------------------------------------------- [Sound] with fut = [] *)
  Lemma leq_ok_plain l c : leq_ok E leq [] l c <-> leq_ok0 E leq l c.
  Proof.
    split; intros H a b r Hin; specialize (H a b r Hin).
    - rewrite app_nil_r in H. destruct H as [A [B [C _]]]. auto.
    - rewrite app_nil_r. destruct H as [A [B C]]. split; [exact A|]. split; [exact B|].
      split; [auto | intros Hn; exfalso; apply Hn; auto].
  Qed.

  Lemma closed_ok_plain l up c : closed_ok E leq [] l up c <-> clo_ok E leq l up c.
  Proof.
    split; intros H i X Hin; specialize (H i X Hin).
    - rewrite app_nil_r in H. destruct H as [A [B _]]. destruct (B A). auto.
    - rewrite app_nil_r. destruct H as [A [B C]]. split; [exact A|].
      split; [auto | intros Hn; contradiction].
  Qed.

  Lemma cover_ok_plain l up c : cover_ok E leq [] l up c <-> cov_ok E leq l up c.
  Proof.
    split; intros H i X Hin; specialize (H i X Hin).
    - rewrite app_nil_r in H. destruct H as [A [B _]]. destruct (B A). auto.
    - rewrite app_nil_r. destruct H as [A [B C]]. split; [exact A|].
      split; [auto | intros Hn; contradiction].
  Qed.

  Lemma dom_ok_has s :
    dom_ok E s <-> forall up i, has (cover_cache E up s) i -> has (closed_cache E up s) i.
  Proof.
    unfold dom_ok, has. split.
    - intros H up i [X HX]. eapply H; eauto.
    - intros H up i X HX. apply H. eauto.
  Qed.

  Lemma has_ext_closed s s' up k : ext E s s' -> has (closed_cache E up s) k -> has (closed_cache E up s') k.
  Proof. intros Hx [v Hv]. exists v. apply (ext_closed _ _ _ Hx). exact Hv. Qed.
  Lemma has_ext_cover s s' up k : ext E s s' -> has (cover_cache E up s) k -> has (cover_cache E up s') k.
  Proof. intros Hx [v Hv]. exists v. apply (ext_cover _ _ _ Hx). exact Hv. Qed.

  (* ---------------------------------------------------------------- the prefetch (repair D12) *)
  Definition pf_inner (up : bool) (s : state) (x : nat) : state := fst (closed up s x).
  Definition pf_step (up : bool) (key : nat) (s : state) (p : nat) : state :=
    let '(sa, cp) := cover up s p in
    let '(sb, ck) := cover up sa key in
    fold_left (pf_inner up) (union cp ck) sb.

  Lemma prefetch_eq s key :
    prefetch E leq s key =
    let '(s1, ps) := cover true s key in
    let s2 := fold_left (pf_step false key) ps s1 in
    let '(s3, cs) := cover false s2 key in
    let s4 := fold_left (pf_step true key) cs s3 in
    fst (closed false (fst (closed true s4 key)) key).
  Proof. reflexivity. Qed.

  Lemma pf_inner_ok up : forall xs s,
    Sound0 s -> use_cache s = true -> (forall x, In x xs -> x < size E s) ->
    let s' := fold_left (pf_inner up) xs s in
    Sound0 s' /\ ext E s s' /\ forall x, In x xs -> has (closed_cache E up s') x.
  Proof.
    induction xs as [|x xs IH]; intros s HS Huc Hr; cbn [fold_left].
    - split; [exact HS|]. split; [apply ext_refl | intros x []].
    - assert (Hx : x < size E s) by (apply Hr; left; reflexivity).
      destruct (closed_ok_q E leq [] up s x HS Hx) as [A [B [_ [_ C]]]].
      specialize (C Huc). change (pf_inner up s x) with (fst (closed up s x)).
      destruct (closed up s x) as [s1 r]. cbn [fst snd] in *.
      destruct (IH s1 A) as [P1 [P2 P3]].
      + rewrite (ext_uc _ _ _ B). exact Huc.
      + intros y Hy. rewrite (Sound_ext_els _ _ _ B). apply Hr. right. exact Hy.
      + split; [exact P1|]. split; [eapply ext_trans; eauto|].
        intros y [<- | Hy]; [|apply P3; exact Hy].
        apply (has_ext_closed s1); [exact P2 | exists r; exact C].
  Qed.

  Lemma pf_step_ok up key s p :
    Sound0 s -> use_cache s = true -> p < size E s -> key < size E s ->
    let s' := pf_step up key s p in
    Sound0 s' /\ ext E s s' /\
    forall x, In x (covers (els s) up p) \/ In x (covers (els s) up key) -> has (closed_cache E up s') x.
  Proof.
    intros HS Huc Hp Hk. unfold pf_step.
    destruct (cover_ok_q E leq eqb PO [] up s p HS Hp) as [A1 [B1 [_ [D1 _]]]].
    destruct (cover up s p) as [sa cp]. cbn [fst snd] in *.
    assert (Hk1 : key < size E sa) by (rewrite (Sound_ext_els _ _ _ B1); exact Hk).
    destruct (cover_ok_q E leq eqb PO [] up sa key A1 Hk1) as [A2 [B2 [_ [D2 _]]]].
    destruct (cover up sa key) as [sb ck]. cbn [fst snd] in *.
    rewrite (ext_els _ _ _ B1) in D2.
    assert (B12 : ext E s sb) by (eapply ext_trans; eauto).
    destruct (pf_inner_ok up (union cp ck) sb A2) as [P1 [P2 P3]].
    - rewrite (ext_uc _ _ _ B12). exact Huc.
    - intros x Hx. rewrite (Sound_ext_els _ _ _ B12). apply In_union in Hx.
      destruct Hx as [Hx | Hx]; [apply D1 in Hx | apply D2 in Hx];
        apply In_covers in Hx; destruct Hx as [Hx _]; apply In_strict_rel in Hx;
        destruct Hx as [Hx _]; apply ldir_range in Hx; unfold size; tauto.
    - split; [exact P1|]. split; [eapply ext_trans; eauto|].
      intros x Hx. apply P3. apply In_union. rewrite D1, D2. exact Hx.
  Qed.

  Lemma pf_loop_ok up key : forall ps s,
    Sound0 s -> use_cache s = true -> key < size E s -> (forall p, In p ps -> p < size E s) ->
    let s' := fold_left (pf_step up key) ps s in
    Sound0 s' /\ ext E s s' /\
    forall p x, In p ps -> In x (covers (els s) up p) \/ In x (covers (els s) up key) ->
                has (closed_cache E up s') x.
  Proof.
    induction ps as [|p ps IH]; intros s HS Huc Hk Hr; cbn [fold_left].
    - split; [exact HS|]. split; [apply ext_refl | intros p x []].
    - assert (Hp : p < size E s) by (apply Hr; left; reflexivity).
      destruct (pf_step_ok up key s p HS Huc Hp Hk) as [A [B C]].
      destruct (IH (pf_step up key s p) A) as [P1 [P2 P3]].
      + rewrite (ext_uc _ _ _ B). exact Huc.
      + rewrite (Sound_ext_els _ _ _ B). exact Hk.
      + intros q Hq. rewrite (Sound_ext_els _ _ _ B). apply Hr. right. exact Hq.
      + split; [exact P1|]. split; [eapply ext_trans; eauto|].
        rewrite (ext_els _ _ _ B) in P3.
        intros q x [<- | Hq] Hx; [|apply (P3 q x Hq Hx)].
        apply (has_ext_closed (pf_step up key s p)); [exact P2 | apply C; exact Hx].
  Qed.

  Lemma covers_range l up i j : In j (covers l up i) -> j < length l.
  Proof.
    intros H. apply In_covers in H. destruct H as [H _]. apply In_strict_rel in H.
    destruct H as [H _]. apply ldir_range in H. tauto.
  Qed.

  Theorem prefetch_ok s key :
    Sound0 s -> use_cache s = true -> key < size E s ->
    let s' := prefetch E leq s key in
    Sound0 s' /\ ext E s s' /\
    (forall up, has (cover_cache E up s') key) /\
    (forall up p x, In p (covers (els s) (negb up) key) ->
                    In x (covers (els s) up p) \/ In x (covers (els s) up key) ->
                    has (closed_cache E up s') x).
  Proof.
    intros HS Huc Hk. rewrite prefetch_eq.
    destruct (cover_ok_q E leq eqb PO [] true s key HS Hk) as [A1 [B1 [_ [D1 C1]]]].
    specialize (C1 Huc). destruct (cover true s key) as [s1 ps]. cbn [fst snd] in *.
    assert (U1 : use_cache s1 = true) by (rewrite (ext_uc _ _ _ B1); exact Huc).
    assert (K1 : key < size E s1) by (rewrite (Sound_ext_els _ _ _ B1); exact Hk).
    destruct (pf_loop_ok false key ps s1 A1 U1 K1) as [A2 [B2 C2]].
    { intros p Hp. apply D1 in Hp. apply covers_range in Hp.
      rewrite (Sound_ext_els _ _ _ B1). exact Hp. }
    rewrite (ext_els _ _ _ B1) in C2.
    set (s2 := fold_left (pf_step false key) ps s1) in *.
    assert (B02 : ext E s s2) by (eapply ext_trans; eauto).
    assert (U2 : use_cache s2 = true) by (rewrite (ext_uc _ _ _ B02); exact Huc).
    assert (K2 : key < size E s2) by (rewrite (Sound_ext_els _ _ _ B02); exact Hk).
    destruct (cover_ok_q E leq eqb PO [] false s2 key A2 K2) as [A3 [B3 [_ [D3 C3]]]].
    specialize (C3 U2). destruct (cover false s2 key) as [s3 cs]. cbn [fst snd] in *.
    rewrite (ext_els _ _ _ B02) in D3.
    assert (B03 : ext E s s3) by (eapply ext_trans; eauto).
    assert (U3 : use_cache s3 = true) by (rewrite (ext_uc _ _ _ B03); exact Huc).
    assert (K3 : key < size E s3) by (rewrite (Sound_ext_els _ _ _ B03); exact Hk).
    destruct (pf_loop_ok true key cs s3 A3 U3 K3) as [A4 [B4 C4]].
    { intros p Hp. apply D3 in Hp. apply covers_range in Hp.
      rewrite (Sound_ext_els _ _ _ B03). exact Hp. }
    rewrite (ext_els _ _ _ B03) in C4.
    set (s4 := fold_left (pf_step true key) cs s3) in *.
    assert (B04 : ext E s s4) by (eapply ext_trans; eauto).
    assert (K4 : key < size E s4) by (rewrite (Sound_ext_els _ _ _ B04); exact Hk).
    destruct (closed_ok_q E leq [] true s4 key A4 K4) as [A5 [B5 _]].
    set (s5 := fst (closed true s4 key)) in *.
    assert (B05 : ext E s s5) by (eapply ext_trans; eauto).
    assert (K5 : key < size E s5) by (rewrite (Sound_ext_els _ _ _ B05); exact Hk).
    destruct (closed_ok_q E leq [] false s5 key A5 K5) as [A6 [B6 _]].
    set (s6 := fst (closed false s5 key)) in *.
    assert (B46 : ext E s4 s6) by (eapply ext_trans; eauto).
    assert (B36 : ext E s3 s6) by (eapply ext_trans; eauto).
    assert (B26 : ext E s2 s6) by (eapply ext_trans; eauto).
    assert (B16 : ext E s1 s6) by (eapply ext_trans; eauto).
    split; [exact A6|]. split; [eapply ext_trans; eauto|]. split.
    - intros [|].
      + apply (has_ext_cover s1); [exact B16 | exists ps; exact C1].
      + apply (has_ext_cover s3); [exact B36 | exists cs; exact C3].
    - intros [|] p x Hp Hx; cbn [negb] in Hp.
      + apply (has_ext_closed s4); [exact B46|]. apply (C4 p x); [apply D3; exact Hp | exact Hx].
      + apply (has_ext_closed s2); [exact B26|]. apply (C2 p x); [apply D1; exact Hp | exact Hx].
  Qed.

  (* ---------------------------------------------------------------- __delitem__ *)
  Lemma closed_cache_set_els up (s : state) v : closed_cache E up (set_els E s v) = closed_cache E up s.
  Proof. destruct up; reflexivity. Qed.
  Lemma cover_cache_set_els up (s : state) v : cover_cache E up (set_els E s v) = cover_cache E up s.
  Proof. destruct up; reflexivity. Qed.

  Theorem delitem_ok : forall s key,
    Sound0 s -> Tidy s -> key < size E s ->
    let r := delitem E leq s key in
    Sound0 (fst r) /\ Tidy (fst r) /\ els (fst r) = remove_nth key (els s) /\
    snd r = OEls (els (fst r)) /\ use_cache (fst r) = use_cache s.
  Proof.
    intros s key HS HT Hk. unfold delitem. unfold size in Hk.
    pose proof (snd_nodup _ _ _ _ HS) as Hnd.
    destruct (use_cache s) eqn:Huc.
    - (* cached poset *)
      destruct (prefetch_ok s key HS Huc Hk) as [A1 [B1 [C1 D1]]].
      set (s1 := prefetch E leq s key) in *.
      rewrite (ext_els _ _ _ B1).
      set (l := els s) in *. set (s2 := set_els E s1 (remove_nth key l)).
      destruct (reconnect_relatives_ok E leq eqb PO l Hnd key s2) as [s3 [R1 [R2 [R3 [R4 [R5 [R6 R7]]]]]]].
      + intros up. unfold s2. rewrite closed_cache_set_els. apply closed_ok_plain.
        unfold l. rewrite <- (ext_els _ _ _ B1). apply (snd_closed _ _ _ _ A1).
      + intros up. unfold s2. rewrite cover_cache_set_els. apply cover_ok_plain.
        unfold l. rewrite <- (ext_els _ _ _ B1). apply (snd_cover _ _ _ _ A1).
      + intros up i. unfold s2. rewrite closed_cache_set_els, cover_cache_set_els.
        apply dom_ok_has. apply (snd_dom _ _ _ _ A1).
      + intros up. unfold s2. rewrite cover_cache_set_els. apply C1.
      + intros up p x. unfold s2. rewrite closed_cache_set_els. apply D1.
      + rewrite R1. cbn [fst snd els use_cache].
        assert (Hels : els s3 = remove_nth key l) by (rewrite R2; reflexivity).
        assert (Huc3 : use_cache s3 = true).
        { rewrite R3. unfold s2. cbn [set_els use_cache]. rewrite (ext_uc _ _ _ B1). exact Huc. }
        split; [|split; [|split; [exact Hels | split; [reflexivity | exact Huc3]]]].
        * constructor; cbn [els c_leq].
          -- rewrite Hels. apply NoDup_remove_nth. exact Hnd.
          -- rewrite Hels, R4. apply leq_ok_plain. apply leq_decrement; [exact Hk|].
             apply leq_ok_plain. unfold s2. cbn [set_els c_leq]. unfold l.
             rewrite <- (ext_els _ _ _ B1). apply (snd_leq _ _ _ _ A1).
          -- intros up. rewrite Hels. apply closed_ok_plain.
             replace (closed_cache E up _) with (decrement_cache key (closed_cache E up s3))
               by (destruct up; reflexivity).
             apply clo_sub_decrement; [exact Hk | apply R5].
          -- intros up. rewrite Hels. apply cover_ok_plain.
             replace (cover_cache E up _) with (decrement_cache key (cover_cache E up s3))
               by (destruct up; reflexivity).
             apply cov_sub_decrement; [exact Hk | apply R6].
          -- intros up i X HX.
             replace (cover_cache E up _) with (decrement_cache key (cover_cache E up s3)) in HX
               by (destruct up; reflexivity).
             replace (closed_cache E up _) with (decrement_cache key (closed_cache E up s3))
               by (destruct up; reflexivity).
             apply lk_In in HX. apply In_decrement_cache in HX.
             destruct HX as [k [v [Hin [Hne [-> _]]]]].
             apply In_has in Hin. apply R7 in Hin. destruct Hin as [Y HY].
             apply (has_decrement_cache key _ k Y); [apply lk_In; exact HY | exact Hne].
        * intros Hf. cbn [use_cache] in Hf. congruence.
    - (* cache-free poset: only the element list shrinks *)
      cbn [fst snd]. destruct (HT Huc) as [T1 [T2 [T3 [T4 T5]]]].
      split; [|split; [|split; [reflexivity | split; [reflexivity | exact Huc]]]].
      + constructor; cbn [set_els els c_leq].
        * apply NoDup_remove_nth. exact Hnd.
        * rewrite T1. intros a b r [].
        * intros up. replace (closed_cache E up _) with (@nil (nat * list nat))
            by (destruct up; cbn; congruence). intros i X [].
        * intros up. replace (cover_cache E up _) with (@nil (nat * list nat))
            by (destruct up; cbn; congruence). intros i X [].
        * intros up i X HX.
          replace (cover_cache E up _) with (@nil (nat * list nat)) in HX
            by (destruct up; cbn; congruence). discriminate.
      + intros _. cbn [set_els c_leq c_desc c_anc c_ch c_par]. auto.
  Qed.

  (* in particular the subscripts of reconnect_relatives never raise KeyError *)
  Corollary delitem_no_error s key e :
    Sound0 s -> Tidy s -> key < size E s -> snd (delitem E leq s key) <> OErr e.
  Proof.
    intros HS HT Hk. destruct (delitem_ok s key HS HT Hk) as [_ [_ [_ [H _]]]].
    rewrite H. discriminate.
  Qed.
End Del.

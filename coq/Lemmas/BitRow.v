(* Lemmas/BitRow.v — nth / mask / loop lemmas for the back-end models. *)
From FCA Require Import Base.ListSet Model.BinTable Spec.Galois.

Lemma nth_map_seq {A} (f : nat -> A) w k d : k < w -> nth k (map f (seq 0 w)) d = f k.
Proof.
  intros H. rewrite (nth_indep _ d (f 0)) by (rewrite map_length, seq_length; exact H).
  rewrite map_nth. rewrite seq_nth by exact H. reflexivity.
Qed.

Lemma map_nth_seq {A} (l : list A) d : map (fun i => nth i l d) (seq 0 (length l)) = l.
Proof.
  apply (nth_ext _ _ d d).
  - rewrite map_length, seq_length. reflexivity.
  - intros k Hk. rewrite map_length, seq_length in Hk. rewrite nth_map_seq by exact Hk. reflexivity.
Qed.

Lemma map_over_nth_seq {A B} (F : A -> B) (c : list A) d :
  map (fun k => F (nth k c d)) (seq 0 (length c)) = map F c.
Proof. rewrite <- (map_map (fun k => nth k c d) F). rewrite map_nth_seq. reflexivity. Qed.

Lemma nth_map_in {A B} (f : A -> B) l k d d' : k < length l -> nth k (map f l) d = f (nth k l d').
Proof.
  intros H. rewrite (nth_indep _ d (f d')) by (rewrite map_length; exact H). apply map_nth.
Qed.

Lemma nth_mask_in c w k d : k < w -> nth k (mask_in c w) d = mem k c.
Proof. intros H. unfold mask_in. rewrite (nth_map_seq (fun j => mem j c)) by exact H. reflexivity. Qed.

Lemma nth_mask_not_in c w k d : k < w -> nth k (mask_not_in c w) d = negb (mem k c).
Proof. intros H. unfold mask_not_in. rewrite (nth_map_seq (fun j => negb (mem j c))) by exact H. reflexivity. Qed.

Lemma mask_in_length c w : length (mask_in c w) = w.
Proof. unfold mask_in. rewrite map_length, seq_length. reflexivity. Qed.
Lemma mask_not_in_length c w : length (mask_not_in c w) = w.
Proof. unfold mask_not_in. rewrite map_length, seq_length. reflexivity. Qed.

Lemma existsb_nth {A} (p : A -> bool) l d :
  existsb p l = true <-> exists k, k < length l /\ p (nth k l d) = true.
Proof.
  rewrite existsb_exists. split.
  - intros [x [Hx Hp]]. destruct (In_nth l x d Hx) as [k [Hk E]]. exists k. rewrite E. auto.
  - intros [k [Hk Hp]]. exists (nth k l d). split; [apply nth_In; exact Hk | exact Hp].
Qed.

Lemma existsb_false_nth (l : list bool) k : existsb id l = false -> nth k l false = false.
Proof.
  intros H. destruct (Nat.lt_ge_cases k (length l)) as [Hk|Hk].
  - destruct (nth k l false) eqn:E; [|reflexivity].
    assert (existsb id l = true) by (apply (existsb_nth id l false); exists k; auto). congruence.
  - apply nth_overflow. exact Hk.
Qed.

Lemma ball_bor_mask r c w :
  length r = w -> in_range w c ->
  ball (bor r (mask_not_in c w)) = forallb (fun j => nth j r false) c.
Proof.
  intros Hl Hc. apply bool_eq_iff. unfold ball, bor.
  rewrite (forallb_nth id _ false), forallb_forall.
  rewrite map2_length, mask_not_in_length, Hl, Nat.min_id.
  split.
  - intros H j Hj. specialize (H j (Hc j Hj)).
    rewrite (nth_map2 orb _ _ _ false false) in H
      by (rewrite ?mask_not_in_length, ?Hl; apply Hc; exact Hj).
    rewrite nth_mask_not_in in H by (apply Hc; exact Hj).
    apply mem_In in Hj. rewrite Hj in H. simpl in H. unfold id in H.
    rewrite orb_false_r in H. exact H.
  - intros H k Hk.
    rewrite (nth_map2 orb _ _ _ false false) by (rewrite ?mask_not_in_length, ?Hl; exact Hk).
    rewrite nth_mask_not_in by exact Hk. unfold id.
    destruct (mem k c) eqn:E; simpl.
    + apply mem_In in E. rewrite (H k E). reflexivity.
    + apply orb_true_r.
Qed.

Lemma bany_band_mask r c w :
  length r = w -> in_range w c ->
  bany (band r (mask_in c w)) = existsb (fun j => nth j r false) c.
Proof.
  intros Hl Hc. apply bool_eq_iff. unfold bany, band.
  rewrite (existsb_nth id _ false), existsb_exists.
  rewrite map2_length, mask_in_length, Hl, Nat.min_id.
  split.
  - intros [k [Hk H]].
    rewrite (nth_map2 andb _ _ _ false false) in H by (rewrite ?mask_in_length, ?Hl; exact Hk).
    rewrite nth_mask_in in H by exact Hk. unfold id in H.
    apply andb_true_iff in H. destruct H as [H1 H2]. exists k. split; [apply mem_In; exact H2 | exact H1].
  - intros [j [Hj H]]. exists j. split; [apply Hc; exact Hj|].
    rewrite (nth_map2 andb _ _ _ false false) by (rewrite ?mask_in_length, ?Hl; apply Hc; exact Hj).
    rewrite nth_mask_in by (apply Hc; exact Hj). unfold id. rewrite H.
    apply mem_In in Hj. rewrite Hj. reflexivity.
Qed.

(* -------- list-level map2 algebra used by the BinTableLists loops *)

Lemma map2_andb_assoc {A} (vals : list bool) (f g : A -> bool) cs :
  map2 andb vals (map (fun j => f j && g j) cs)
  = map2 andb (map2 andb vals (map f cs)) (map g cs).
Proof.
  revert vals. induction cs as [|x cs IH]; intros [|v vals]; simpl; try reflexivity.
  rewrite IH, andb_assoc. reflexivity.
Qed.

Lemma map2_orb_assoc {A} (vals : list bool) (f g : A -> bool) cs :
  map2 orb vals (map (fun j => f j || g j) cs)
  = map2 orb (map2 orb vals (map f cs)) (map g cs).
Proof.
  revert vals. induction cs as [|x cs IH]; intros [|v vals]; simpl; try reflexivity.
  rewrite IH, orb_assoc. reflexivity.
Qed.

Lemma all_false_absorb (v u : list bool) :
  existsb id v = false -> length u = length v -> map2 andb v u = v.
Proof.
  revert u. induction v as [|x v IH]; intros [|y u] H Hl; simpl in *; try reflexivity; try discriminate.
  apply orb_false_iff in H. destruct H as [Hx Hv]. unfold id in Hx. subst x. simpl.
  rewrite IH; [reflexivity | exact Hv | lia].
Qed.

Lemma all_true_absorb (v u : list bool) :
  forallb id v = true -> length u = length v -> map2 orb v u = v.
Proof.
  revert u. induction v as [|x v IH]; intros [|y u] H Hl; simpl in *; try reflexivity; try discriminate.
  apply andb_true_iff in H. destruct H as [Hx Hv]. unfold id in Hx. subst x. simpl.
  rewrite IH; [reflexivity | exact Hv | lia].
Qed.

Lemma map2_andb_repeat_true (l : list bool) : map2 andb (repeat true (length l)) l = l.
Proof. induction l as [|x l IH]; simpl; [reflexivity|]. rewrite IH. reflexivity. Qed.

Lemma map2_orb_repeat_false (l : list bool) : map2 orb (repeat false (length l)) l = l.
Proof. induction l as [|x l IH]; simpl; [reflexivity|]. rewrite IH. reflexivity. Qed.

Lemma map2_andb_true_r {A} (vals : list bool) (cs : list A) :
  length vals = length cs -> map2 andb vals (map (fun _ => true) cs) = vals.
Proof.
  revert vals. induction cs as [|x cs IH]; intros [|v vals] H; simpl in *; try reflexivity; try discriminate.
  rewrite andb_true_r, IH by lia. reflexivity.
Qed.

Lemma map2_orb_false_r {A} (vals : list bool) (cs : list A) :
  length vals = length cs -> map2 orb vals (map (fun _ => false) cs) = vals.
Proof.
  revert vals. induction cs as [|x cs IH]; intros [|v vals] H; simpl in *; try reflexivity; try discriminate.
  rewrite orb_false_r, IH by lia. reflexivity.
Qed.

Lemma L_apc_loop_spec t cs rs vals :
  length vals = length cs ->
  L_apc_loop t cs rs vals
  = map2 andb vals (map (fun j => forallb (fun i => cell t i j) rs) cs).
Proof.
  revert vals. induction rs as [|i rs IH]; intros vals Hl; simpl.
  - symmetry. apply map2_andb_true_r. exact Hl.
  - rewrite (map2_andb_assoc vals (cell t i)).
    set (v' := map2 andb vals (map (cell t i) cs)).
    assert (Hv' : length v' = length cs).
    { unfold v'. rewrite map2_length, map_length, Hl. apply Nat.min_id. }
    destruct (existsb id v') eqn:E; simpl.
    + apply IH. exact Hv'.
    + symmetry. apply all_false_absorb; [exact E | rewrite map_length; lia].
Qed.

Lemma L_anypc_loop_spec t cs rs vals :
  length vals = length cs ->
  L_anypc_loop t cs rs vals
  = map2 orb vals (map (fun j => existsb (fun i => cell t i j) rs) cs).
Proof.
  revert vals. induction rs as [|i rs IH]; intros vals Hl; simpl.
  - symmetry. apply map2_orb_false_r. exact Hl.
  - rewrite (map2_orb_assoc vals (cell t i)).
    set (v' := map2 orb vals (map (cell t i) cs)).
    assert (Hv' : length v' = length cs).
    { unfold v'. rewrite map2_length, map_length, Hl. apply Nat.min_id. }
    destruct (forallb id v') eqn:E; simpl.
    + symmetry. apply all_true_absorb; [exact E | rewrite map_length; lia].
    + apply IH. exact Hv'.
Qed.

(* -------- bitarray loops: pointwise characterisation on the index set the break test watches *)

Lemma B_apc_loop_length t brk rs vals w :
  length vals = w -> (forall i, In i rs -> length (row t i) = w) ->
  length (B_apc_loop t brk rs vals) = w.
Proof.
  revert vals. induction rs as [|i rs IH]; intros vals Hl Hr; simpl; [exact Hl|].
  assert (L : length (band vals (row t i)) = w).
  { unfold band. rewrite map2_length, Hl, Hr by (left; reflexivity). apply Nat.min_id. }
  destruct (negb _); [exact L|]. apply IH; [exact L|]. intros k Hk. apply Hr. right. exact Hk.
Qed.

Lemma B_apc_loop_nth t brk (J : nat -> Prop) rs vals w :
  (forall v j, length v = w -> bany (brk v) = false -> J j -> nth j v false = false) ->
  length vals = w -> (forall i, In i rs -> length (row t i) = w) ->
  forall j, J j -> j < w ->
  nth j (B_apc_loop t brk rs vals) false
  = nth j vals false && forallb (fun i => cell t i j) rs.
Proof.
  intros Hbrk. revert vals. induction rs as [|i rs IH]; intros vals Hl Hr j HJ Hj; simpl.
  - rewrite andb_true_r. reflexivity.
  - assert (L : length (band vals (row t i)) = w).
    { unfold band. rewrite map2_length, Hl, Hr by (left; reflexivity). apply Nat.min_id. }
    assert (N : nth j (band vals (row t i)) false = nth j vals false && cell t i j).
    { unfold band, cell. apply nth_map2; [rewrite Hl | rewrite Hr by (left; reflexivity)]; exact Hj. }
    destruct (bany (brk (band vals (row t i)))) eqn:E; simpl.
    + rewrite IH; [| exact L | intros k Hk; apply Hr; right; exact Hk | exact HJ | exact Hj].
      rewrite N, andb_assoc. reflexivity.
    + rewrite (Hbrk _ j L E HJ). rewrite andb_assoc, <- N, (Hbrk _ j L E HJ). reflexivity.
Qed.

Lemma B_anypc_loop_length t brk rs vals w :
  length vals = w -> (forall i, In i rs -> length (row t i) = w) ->
  length (B_anypc_loop t brk rs vals) = w.
Proof.
  revert vals. induction rs as [|i rs IH]; intros vals Hl Hr; simpl; [exact Hl|].
  assert (L : length (bor vals (row t i)) = w).
  { unfold bor. rewrite map2_length, Hl, Hr by (left; reflexivity). apply Nat.min_id. }
  destruct (ball _); [exact L|]. apply IH; [exact L|]. intros k Hk. apply Hr. right. exact Hk.
Qed.

Lemma B_anypc_loop_nth t brk (J : nat -> Prop) rs vals w :
  (forall v j, length v = w -> ball (brk v) = true -> J j -> nth j v false = true) ->
  length vals = w -> (forall i, In i rs -> length (row t i) = w) ->
  forall j, J j -> j < w ->
  nth j (B_anypc_loop t brk rs vals) false
  = nth j vals false || existsb (fun i => cell t i j) rs.
Proof.
  intros Hbrk. revert vals. induction rs as [|i rs IH]; intros vals Hl Hr j HJ Hj; simpl.
  - rewrite orb_false_r. reflexivity.
  - assert (L : length (bor vals (row t i)) = w).
    { unfold bor. rewrite map2_length, Hl, Hr by (left; reflexivity). apply Nat.min_id. }
    assert (N : nth j (bor vals (row t i)) false = nth j vals false || cell t i j).
    { unfold bor, cell. apply nth_map2; [rewrite Hl | rewrite Hr by (left; reflexivity)]; exact Hj. }
    destruct (ball (brk (bor vals (row t i)))) eqn:E; simpl.
    + rewrite (Hbrk _ j L E HJ). rewrite orb_assoc, <- N, (Hbrk _ j L E HJ). reflexivity.
    + rewrite IH; [| exact L | intros k Hk; apply Hr; right; exact Hk | exact HJ | exact Hj].
      rewrite N, orb_assoc. reflexivity.
Qed.

Lemma nth_repeat_lt {A} (x d : A) n k : k < n -> nth k (repeat x n) d = x.
Proof. revert k. induction n as [|n IH]; intros [|k] H; simpl; try lia; [reflexivity|]. apply IH. lia. Qed.

Lemma wf_row_length t i : wf t -> i < height t -> length (row t i) = width t.
Proof.
  intros Hwf Hi. unfold wf in Hwf. rewrite Forall_forall in Hwf. apply Hwf.
  unfold row. apply nth_In. exact Hi.
Qed.

Lemma rows_or_in_range t rows : opt_in_range (height t) rows -> in_range (height t) (rows_or t rows).
Proof.
  destruct rows as [r|]; simpl; intros H; [exact H|].
  intros x Hx. apply in_seq in Hx. lia.
Qed.

Lemma cols_or_in_range t cols : opt_in_range (width t) cols -> in_range (width t) (cols_or t cols).
Proof.
  destruct cols as [r|]; simpl; intros H; [exact H|].
  intros x Hx. apply in_seq in Hx. lia.
Qed.

Lemma map_row_seq t : map (row t) (seq 0 (height t)) = t.
Proof. unfold row, height. apply map_nth_seq. Qed.

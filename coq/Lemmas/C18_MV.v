(* Lemmas/C18_MV.v — many-valued generator search: every returned description selects, inside
   the base objects, exactly the objects of the intent. *)
From FCA Require Import Model.C18_MinGen Spec.C18_MinGenSpec.
From Coq Require Import ZArith Lia.
Local Open Scope nat_scope.

Lemma rbind_ok {A B} (r : res A) (f : A -> res B) y :
  rbind r f = ROk y -> exists x, r = ROk x /\ f x = ROk y.
Proof. destruct r as [x|k]; cbn [rbind]; intros H; [exists x; tauto | discriminate]. Qed.

(* ---- the transcribed extension is the filter of the specification (when it does not raise) *)
Lemma ps_extension_spec K ps d base e :
  ps_extension K ps d base = ROk e -> e = filter (satisfies1 K ps d) base.
Proof.
  unfold ps_extension, satisfies1, in_iv, within. destruct d as [|lo hi|x].
  - intros H. inversion H. clear. induction base; [reflexivity | exact IHbase].
  - intros H. inversion H. reflexivity.
  - destruct (mv_numpy K); [discriminate|]. intros H. inversion H. reflexivity.
Qed.

Lemma filter_nil_and {X} (p q : X -> bool) l : filter p l = [] -> filter (fun x => p x && q x) l = [].
Proof.
  induction l as [|x l IH]; cbn [filter]; [reflexivity|]. destruct (p x); [discriminate|]. cbn [andb]. exact IH.
Qed.

Lemma mv_ext_loop_spec K items : forall extent e,
  mv_ext_loop K items extent = ROk e -> e = filter (satisfies K items) extent.
Proof.
  induction items as [|[ps d] items IH]; intros extent e H; cbn [mv_ext_loop] in H.
  - injection H as H. subst e. unfold satisfies. cbn [forallb]. clear. induction extent as [|x l IHl]; [reflexivity|].
    cbn [filter]. f_equal. exact IHl.
  - apply rbind_ok in H. destruct H as [e1 [H1 H2]]. apply ps_extension_spec in H1.
    assert (Hf : filter (satisfies K ((ps, d) :: items)) extent = filter (satisfies K items) e1).
    { rewrite H1. rewrite filter_filter'. apply filter_ext_in'. intros g _. unfold satisfies. cbn [forallb fst snd]. reflexivity. }
    rewrite Hf. destruct e1 as [|g e1'].
    + inversion H2. reflexivity.
    + apply IH. exact H2.
Qed.

Lemma mv_extension_spec K items base e :
  mv_extension K items base = ROk e ->
  e = mv_ext_spec K items (match base with Some bo => bo | None => seq 0 (mv_n K) end).
Proof.
  unfold mv_extension, mv_ext_spec. destruct base as [[|g bo]|]; intros H.
  - inversion H. reflexivity.
  - apply mv_ext_loop_spec. exact H.
  - apply mv_ext_loop_spec. exact H.
Qed.

(* ---- what the search tests *)
Section Sound.
Variable K : mvctx.
Variable base_gen : list pgen.
Variables base ext_true : list nat.

Definition tested (d : ddict) : Prop := mv_extension K d (Some base) = ROk ext_true.

Lemma add_gen_In found d x : In x (add_gen found d) -> In x found \/ x = d.
Proof.
  unfold add_gen. destruct (existsb (dd_eqb d) found); [tauto|]. rewrite in_app_iff. cbn [In]. intuition.
Qed.

Lemma scan_combs_sound : forall cs found vols found' vols',
  (forall d, In d found -> tested d) ->
  scan_combs K base_gen base ext_true cs found vols = ROk (found', vols') ->
  forall d, In d found' -> tested d.
Proof.
  induction cs as [|c cs IH]; intros found vols found' vols' Hf H; cbn [scan_combs] in H.
  - inversion H; subst. exact Hf.
  - apply rbind_ok in H. destruct H as [[d0 e0] [H1 H2]]. cbn [fst snd] in H2.
    revert H2. apply IH. intros d Hd.
    destruct (nat_list_eqb e0 ext_true) eqn:E; [|apply Hf; exact Hd].
    apply add_gen_In in Hd. destruct Hd as [Hd|Hd]; [apply Hf; exact Hd|]. subst d.
    apply nat_list_eqb_eq in E. subst e0. unfold eval_comb in H1.
    apply rbind_ok in H1. destruct H1 as [d1 [_ H1]]. apply rbind_ok in H1. destruct H1 as [e1 [H1 H3]].
    inversion H3; subst. exact H1.
Qed.

Lemma scan_sizes_sound gti : forall sizes found,
  scan_sizes K base_gen base ext_true gti sizes = ROk found -> forall d, In d found -> tested d.
Proof.
  induction sizes as [|k sizes IH]; intros found H; cbn [scan_sizes] in H.
  - inversion H. intros d [].
  - apply rbind_ok in H. destruct H as [[f v] [H1 H2]]. cbn [fst] in H2.
    destruct f as [|d0 f'].
    + apply IH. exact H2.
    + inversion H2; subst. apply (scan_combs_sound _ _ _ _ _ (fun d (X : In d []) => match X with end) H1).
Qed.

Lemma mv_round_sound intent pti pstart maxp found :
  mv_round K intent base_gen base ext_true pti pstart maxp = ROk found -> forall d, In d found -> tested d.
Proof.
  unfold mv_round. intros H.
  destruct (length (flat_map _ pti)) as [|[|n]] eqn:En.
  - inversion H. intros d [].
  - inversion H. intros d [].
  - apply rbind_ok in H. destruct H as [[f v] [H1 H2]]. cbn [fst snd] in H2.
    destruct f as [|d0 f'].
    + revert H2. apply scan_sizes_sound.
    + inversion H2; subst. apply (scan_combs_sound _ _ _ _ _ (fun d (X : In d []) => match X with end) H1).
Qed.

Lemma mv_loop_sound intent pti pstart : forall fuel maxp l,
  mv_loop fuel K intent base_gen base ext_true pti pstart maxp = MOk l ->
  l <> [] /\ forall d, In d l -> tested d.
Proof.
  induction fuel as [|fuel IH]; intros maxp l H; cbn [mv_loop] in H; [discriminate|].
  destruct (mv_round K intent base_gen base ext_true pti pstart maxp) as [[|d0 f]|k] eqn:E.
  - apply IH in H. exact H.
  - inversion H; subst. split; [discriminate|]. apply (mv_round_sound _ _ _ _ _ E).
  - discriminate.
Qed.

End Sound.

(* mv_sound: what the code tests — extension of d inside the base objects = extension of the intent *)
Theorem mv_sound fuel K intent bg base pti pstart l :
  mv_get_minimal_generators fuel K intent bg base pti pstart = MOk l ->
  l <> [] /\
  forall d, In d l ->
    exists e, mv_extension K intent None = ROk e /\
              mv_extension K d (Some (default (seq 0 (mv_n K)) base)) = ROk e.
Proof.
  unfold mv_get_minimal_generators. intros H.
  destruct (mv_extension K intent None) as [ext_true|k] eqn:E; [|discriminate].
  apply mv_loop_sound in H. destruct H as [H1 H2]. split; [exact H1|].
  intros d Hd. exists ext_true. split; [reflexivity | apply H2; exact Hd].
Qed.

(* mv_sound_in_base: what the property says — same objects as the intent inside the base set;
   and a returned answer implies that the base set contains the whole extension of the intent *)
Theorem mv_sound_in_base fuel K intent bg base pti pstart l :
  let bo := default (seq 0 (mv_n K)) base in
  in_range (mv_n K) bo ->
  mv_get_minimal_generators fuel K intent bg base pti pstart = MOk l ->
  incl (mv_ext_spec K intent (seq 0 (mv_n K))) bo /\
  forall d, In d l -> same_set (mv_ext_spec K d bo) (mv_ext_spec K intent bo).
Proof.
  intros bo Hbo H. destruct (mv_sound _ _ _ _ _ _ _ _ H) as [Hne Hs].
  assert (Hall : forall d, In d l ->
            mv_ext_spec K d bo = mv_ext_spec K intent (seq 0 (mv_n K))).
  { intros d Hd. destruct (Hs d Hd) as [e [E1 E2]].
    apply mv_extension_spec in E1. apply mv_extension_spec in E2. fold bo in E2. congruence. }
  split.
  - destruct l as [|d0 l']; [congruence|]. rewrite <- (Hall d0 (or_introl eq_refl)).
    intros x Hx. unfold mv_ext_spec in Hx. apply filter_In in Hx. tauto.
  - intros d Hd x. rewrite (Hall d Hd). unfold mv_ext_spec. rewrite !filter_In, in_seq. split.
    + intros [Hx Hsat]. split; [|exact Hsat].
      assert (X : In x (mv_ext_spec K d bo)).
      { rewrite (Hall d Hd). unfold mv_ext_spec. apply filter_In. rewrite in_seq. tauto. }
      unfold mv_ext_spec in X. apply filter_In in X. tauto.
    + intros [Hx Hsat]. split; [|exact Hsat]. apply Hbo in Hx. lia.
Qed.

(* the observation behind the non-termination: outside the guard no amount of fuel gives an answer *)
Theorem mv_no_answer_outside_guard fuel K intent bg base pti pstart :
  let bo := default (seq 0 (mv_n K)) base in
  in_range (mv_n K) bo ->
  ~ incl (mv_ext_spec K intent (seq 0 (mv_n K))) bo ->
  forall l, mv_get_minimal_generators fuel K intent bg base pti pstart <> MOk l.
Proof.
  intros bo Hbo Hn l H. apply Hn. apply (mv_sound_in_base fuel K intent bg base pti pstart l Hbo H).
Qed.

(* the by-name entry point is the by-index one on the arguments translated through the pattern
   structures' own names, its answer re-keyed by those names *)
Theorem mv_named_is_renamed_index fuel K snames onames intent bg base pti pstart l :
  mv_get_minimal_generators_named fuel K snames onames intent bg base pti pstart = MOk l ->
  exists l',
    mv_get_minimal_generators fuel K (by_struct_names snames intent)
      (match bg with Some d => Some (by_struct_names snames d) | None => None end)
      (match base with Some b => Some (idx_of_names onames b) | None => None end)
      (match pti with Some p => Some (map (name_to_ps snames) p) | None => None end) pstart = MOk l' /\
    l = map (rename_dd snames) l'.
Proof.
  unfold mv_get_minimal_generators_named.
  destruct (mv_get_minimal_generators fuel K _ _ _ _ pstart) as [l'| |]; intros H; inversion H.
  exists l'. split; reflexivity.
Qed.

(* a full by-name intent (every structure, keyed by its name) translates to the by-index intent *)
Lemma by_struct_names_full (snames : list nat) (f : nat -> descr) :
  NoDup snames ->
  by_struct_names snames (map (fun ps => (nth ps snames 0, f ps)) (seq 0 (length snames)))
  = map (fun ps => (ps, f ps)) (seq 0 (length snames)).
Proof.
  intros Hnd. unfold by_struct_names.
  set (d := map (fun ps => (nth ps snames 0, f ps)) (seq 0 (length snames))).
  assert (G : forall ps, ps < length snames -> lookup_name d (nth ps snames 0) = Some (f ps)).
  { intros ps Hps. unfold lookup_name.
    destruct (find (fun kv : nat * descr => Nat.eqb (fst kv) (nth ps snames 0)) d) as [[nm v]|] eqn:F.
    - apply find_some in F. destruct F as [F1 F2]. cbn [fst] in F2. apply Nat.eqb_eq in F2.
      unfold d in F1. apply in_map_iff in F1. destruct F1 as [q [E Hq]]. injection E as E1 E2. apply in_seq in Hq.
      assert (Hq2 : q = ps) by (apply (proj1 (NoDup_nth snames 0) Hnd); [lia | exact Hps | congruence]).
      rewrite <- E2, Hq2. reflexivity.
    - exfalso. pose proof (find_none _ _ F (nth ps snames 0, f ps)) as X. cbn [fst] in X.
      rewrite Nat.eqb_refl in X. assert (D : true = false -> False) by discriminate. apply D, X.
      unfold d. apply in_map_iff. exists ps. split; [reflexivity | apply in_seq; lia]. }
  assert (H : forall l, (forall ps, In ps l -> ps < length snames) ->
              flat_map (fun ps => match lookup_name d (nth ps snames 0) with Some v => [(ps, v)] | None => [] end) l
              = map (fun ps => (ps, f ps)) l).
  { induction l as [|a l IH]; intros Hl; [reflexivity|]. cbn [flat_map map].
    rewrite (G a (Hl a (or_introl eq_refl))). cbn [app]. f_equal. apply IH. intros q Hq. apply Hl. right. exact Hq. }
  apply H. intros ps Hps. apply in_seq in Hps. lia.
Qed.

(* Lemmas/C02_CbOModel.v — the two object-wise CbO generators of the model yield exactly the
   tuples of Lemmas/C02_CbO.v (the found-intents set of the fbarray variant never fires on a
   canonical candidate), hence close_by_one - also through the transposed context for tall
   tables - lists every concept exactly once. *)
From Coq Require Import Permutation.
From FCA Require Import Base.ListSet Model.BinTable Model.FormalContext Model.ConceptConstruction
     Spec.Galois Spec.Closure Lemmas.BitRow Lemmas.C01 Lemmas.C02 Lemmas.C02_Sofia Lemmas.C02_CbO.

(* ------------------------------------------------------------ small list facts *)

Lemma existsb_filter_nil {A} (f : A -> bool) l : existsb f l = false <-> filter f l = [].
Proof.
  induction l as [|x l IH]; simpl; [tauto|]. destruct (f x); simpl; [split; discriminate | exact IH].
Qed.

Lemma NoDup_app_r {A} (a b : list A) : NoDup (a ++ b) -> NoDup b.
Proof. induction a as [|x a IH]; simpl; intros H; [exact H|]. inversion H; auto. Qed.

Lemma NoDup_drop_mid {A} (a b c : list A) : NoDup (a ++ b ++ c) -> NoDup (a ++ c).
Proof.
  intros H. apply (NoDup_app_r b). eapply Permutation_NoDup; [|exact H].
  apply Permutation_app_swap_app.
Qed.

Lemma NoDup_map_transfer {A B C} (f : A -> B) (g : A -> C) l :
  (forall x y, In x l -> In y l -> g x = g y -> f x = f y) -> NoDup (map f l) -> NoDup (map g l).
Proof.
  induction l as [|x l IH]; intros Hinj Hnd; simpl; [constructor|].
  simpl in Hnd. inversion Hnd; subst. constructor.
  - intros H. apply in_map_iff in H. destruct H as [y [E Hy]]. apply H1.
    apply in_map_iff. exists y. split; [|exact Hy].
    apply Hinj; [right; exact Hy | left; reflexivity | exact E].
  - apply IH; [|assumption]. intros a b Ha Hb. apply Hinj; right; assumption.
Qed.

Section Bridge.
Variable K : context.
Let t := k_table K.
Let n := height t.
Let w := width t.
Hypothesis Hwf : wf t.

(* ------------------------------------------------------------ close_by_one_objectwise *)

(* K.extension_i(intent_i, base_objects_i=[h in range if h not in comb]) picks the new members
   of the closure *)
Lemma K_ext_new comb lo k :
  in_range n comb -> lo + k <= n ->
  K_ext K (int t comb) (Some (filter (fun h => negb (mem h comb)) (seq lo k)))
  = filter (newp comb (cl_obj t comb)) (seq lo k).
Proof.
  intros Hc Hk. rewrite K_ext_base_spec.
  - unfold ext_spec. rewrite filter_filter'. apply filter_ext_in'. intros h Hh. apply in_seq in Hh.
    unfold newp. f_equal. unfold cl_obj. rewrite ext_canon. fold t n.
    destruct (Nat.ltb_spec h n); [reflexivity | lia].
  - exact Hwf.
  - apply int_in_range.
  - intros h Hh. apply filter_In in Hh. destruct Hh as [Hh _]. apply in_seq in Hh. unfold k_n. fold t n. lia.
Qed.

Lemma cbo_obj_children_tuples k : forall lo E, lo + k = n -> good t E ->
  cbo_obj_children K E (seq lo k) = map (fun X => from_objects K X true) (tuples t E (seq lo k)).
Proof.
  induction k as [|k IH]; intros lo E Hlo HE; [reflexivity|].
  cbn [seq cbo_obj_children tuples]. rewrite map_app. rewrite <- (IH (S lo) E) by (try lia; exact HE).
  f_equal. destruct (mem lo E) eqn:Em; [reflexivity|]. apply mem_false_iff in Em.
  assert (Hg : lo < n) by lia.
  assert (Hc : in_range n (E ++ [lo])) by (apply comb_in_range; assumption).
  rewrite K_int_spec by assumption. fold t.
  replace (seq 0 lo) with (seq 0 lo) by reflexivity.
  rewrite (K_ext_new (E ++ [lo]) 0 lo) by (try assumption; lia).
  unfold k_n. fold t n.
  rewrite (K_ext_new (E ++ [lo]) (S lo) (n - S lo)) by (try assumption; lia).
  unfold lex_fails. fold n.
  destruct (existsb (newp (E ++ [lo]) (cl_obj t (E ++ [lo]))) (seq 0 lo)) eqn:Ex.
  - destruct (filter (newp (E ++ [lo]) (cl_obj t (E ++ [lo]))) (seq 0 lo)) eqn:Ef; [|reflexivity].
    apply existsb_filter_nil in Ef. congruence.
  - apply existsb_filter_nil in Ex. rewrite Ex. cbn [map]. fold (child_tuple t E lo).
    rewrite <- (IH (S lo) (child_tuple t E lo)); [reflexivity | lia | apply child_good; assumption].
Qed.

Theorem cbo_objectwise_tuples :
  cbo_objectwise K = map (fun X => from_objects K X true) (cbo_tuples t).
Proof.
  unfold cbo_objectwise, cbo_tuples. cbn [map].
  assert (E0 : K_ext K (K_int K []) (Some (seq 0 (k_n K))) = root_tuple t).
  { rewrite K_int_spec by (try assumption; intros x []). rewrite K_ext_base_spec.
    - reflexivity.
    - exact Hwf.
    - apply int_in_range.
    - intros x Hx. apply in_seq in Hx. lia. }
  rewrite E0. f_equal. unfold k_n. fold t n.
  apply (cbo_obj_children_tuples n 0); [lia | apply root_good].
Qed.

(* ------------------------------------------------------------ bit-vector intents *)

Definition ibits (X : list nat) : list bool :=
  map (fun m => forallb (fun g => cell t g m) X) (seq 0 w).

Lemma row_as_map g : g < n -> row t g = map (fun m => cell t g m) (seq 0 w).
Proof.
  intros Hg. unfold cell, w. rewrite <- (wf_row_length t g Hwf Hg). symmetry. apply map_nth_seq.
Qed.

Lemma fold_band_rows X : in_range n X -> forall f,
  fold_left (fun acc g => band acc (row t g)) X (map f (seq 0 w))
  = map (fun m => f m && forallb (fun g => cell t g m) X) (seq 0 w).
Proof.
  induction X as [|g X IH]; intros HX f; simpl.
  - apply map_ext. intros m. rewrite andb_true_r. reflexivity.
  - rewrite (row_as_map g) by (apply HX; left; reflexivity). unfold band. rewrite map2_map_same.
    rewrite IH by (intros x Hx; apply HX; right; exact Hx).
    apply map_ext. intros m. rewrite andb_assoc. reflexivity.
Qed.

Lemma map_const_true {A} (l : list A) : map (fun _ => true) l = repeat true (length l).
Proof. induction l as [|x l IH]; simpl; [reflexivity|]. rewrite IH. reflexivity. Qed.

Lemma intention_ba_ibits X : in_range n X -> intention_ba t X = ibits X.
Proof.
  intros HX. unfold intention_ba, ibits. fold w.
  rewrite <- (seq_length w 0) at 1. rewrite <- (map_const_true (seq 0 w)).
  rewrite fold_band_rows by exact HX. reflexivity.
Qed.

(* ibits X is the characteristic vector of X' *)
Lemma ibits_int X : ibits X = map (fun m => mem m (int t X)) (seq 0 w).
Proof.
  unfold ibits. apply map_ext_in. intros m Hm. apply in_seq in Hm. symmetry.
  apply bool_eq_iff. rewrite mem_In, int_In, forallb_forall. fold w. unfold I. split; [tauto|].
  intros H. split; [lia | exact H].
Qed.

Lemma ibits_eq_int X Y : int t X = int t Y -> ibits X = ibits Y.
Proof. intros E. rewrite !ibits_int, E. reflexivity. Qed.

Lemma ibits_inj X Y : ibits X = ibits Y -> int t X = int t Y.
Proof.
  intros E. rewrite !ibits_int in E. apply int_int_set. intros m. rewrite !int_In. fold w.
  assert (P : forall m, m < w -> mem m (int t X) = mem m (int t Y)).
  { intros m' Hm'. apply (proj1 map_ext_in_iff E). apply in_seq. lia. }
  split; intros [Hm H]; (split; [exact Hm|]); specialize (P m Hm).
  - assert (In m (int t Y)) by (apply mem_In; rewrite <- P; apply mem_In, int_In; auto).
    apply int_In in H0. tauto.
  - assert (In m (int t X)) by (apply mem_In; rewrite P; apply mem_In, int_In; auto).
    apply int_In in H0. tauto.
Qed.

(* intent_ba & row == intent_ba  iff  the object has every attribute of the intent *)
Lemma subset_test X g : g < n ->
  bool_list_eqb (band (ibits X) (row t g)) (ibits X) = mem g (cl_obj t X).
Proof.
  intros Hg. apply bool_eq_iff. rewrite bool_list_eqb_eq, mem_In.
  rewrite (row_as_map g Hg). unfold ibits, band. rewrite map2_map_same, map_ext_in_iff.
  unfold cl_obj. rewrite ext_In. fold t n. split.
  - intros H. split; [exact Hg|]. intros m Hm. apply int_In in Hm. destruct Hm as [Hm Hall].
    specialize (H m (proj2 (in_seq _ _ _) (conj (Nat.le_0_l m) Hm))).
    assert (F : forallb (fun g0 => cell t g0 m) X = true) by (apply forallb_forall; exact Hall).
    rewrite F in H. simpl in H. exact H.
  - intros [_ H] m Hm. apply in_seq in Hm.
    destruct (forallb (fun g0 => cell t g0 m) X) eqn:F; [|reflexivity]. simpl.
    apply H. apply int_In. split; [fold w; lia|]. apply forallb_forall. exact F.
Qed.

Lemma extension_iter_new comb lo k :
  in_range n comb -> lo + k <= n ->
  extension_iter t (ibits comb) (filter (fun h => negb (mem h comb)) (seq lo k))
  = filter (newp comb (cl_obj t comb)) (seq lo k).
Proof.
  intros Hc Hk. unfold extension_iter. rewrite filter_filter'. apply filter_ext_in'.
  intros h Hh. apply in_seq in Hh. unfold newp. f_equal. apply subset_test. lia.
Qed.

(* the intent of a child tuple is the intent of E + g *)
Lemma child_ibits E g : good t E -> g < n -> lex_fails t E g = false ->
  ibits (E ++ [g]) = ibits (child_tuple t E g).
Proof.
  intros HE Hg El. apply ibits_eq_int.
  rewrite (int_same_set t _ _ (child_is_closure t E g HE Hg El)).
  unfold cl_obj. symmetry. apply int_ext_int. apply comb_in_range; assumption.
Qed.

(* ------------------------------------------------------------ close_by_one_objectwise_fbarray *)

Lemma cbo_fb_children_tuples k : forall lo E found, lo + k = n -> good t E ->
  NoDup (map ibits (tuples t E (seq lo k)) ++ found) ->
  cbo_fb_children K E (seq lo k) found
  = (map (fun X => from_objects K X false) (tuples t E (seq lo k)),
     rev (map ibits (tuples t E (seq lo k))) ++ found).
Proof.
  induction k as [|k IH]; intros lo E found Hlo HE Hnd; [reflexivity|].
  cbn [seq cbo_fb_children tuples] in *.
  assert (Hg : lo < n) by lia.
  destruct (mem lo E) eqn:Em.
  - cbn [app] in *. rewrite (IH (S lo) E found) by (try lia; assumption). reflexivity.
  - apply mem_false_iff in Em.
    assert (Hc : in_range n (E ++ [lo])) by (apply comb_in_range; assumption).
    fold t. rewrite intention_ba_ibits by exact Hc.
    rewrite (extension_iter_new (E ++ [lo]) 0 lo) by (try assumption; lia).
    unfold k_n. fold t n.
    rewrite (extension_iter_new (E ++ [lo]) (S lo) (n - S lo)) by (try assumption; lia).
    unfold lex_fails in *. fold n. fold n in Hnd.
    destruct (existsb (newp (E ++ [lo]) (cl_obj t (E ++ [lo]))) (seq 0 lo)) eqn:Ex.
    + (* not canonical: skipped whatever the found set says *)
      cbn [app] in *.
      assert (Y : (if found_mem (ibits (E ++ [lo])) found then (@nil fconcept, found)
                   else match filter (newp (E ++ [lo]) (cl_obj t (E ++ [lo]))) (seq 0 lo) with
                        | [] => let '(ys, f') := cbo_fb_children K
                                   ((E ++ [lo]) ++ filter (newp (E ++ [lo]) (cl_obj t (E ++ [lo]))) (seq (S lo) (n - S lo)))
                                   (seq (S lo) k) (ibits (E ++ [lo]) :: found) in
                                (from_objects K ((E ++ [lo]) ++ filter (newp (E ++ [lo]) (cl_obj t (E ++ [lo]))) (seq (S lo) (n - S lo))) false :: ys, f')
                        | _ :: _ => ([], found)
                        end) = ([], found)).
      { destruct (found_mem _ found); [reflexivity|].
        destruct (filter (newp (E ++ [lo]) (cl_obj t (E ++ [lo]))) (seq 0 lo)) eqn:Ef; [|reflexivity].
        apply existsb_filter_nil in Ef. congruence. }
      rewrite Y. rewrite (IH (S lo) E found) by (try lia; assumption). reflexivity.
    + assert (El : lex_fails t E lo = false) by exact Ex.
      apply existsb_filter_nil in Ex. rewrite Ex.
      change ((E ++ [lo]) ++ filter (newp (E ++ [lo]) (cl_obj t (E ++ [lo]))) (seq (S lo) (n - S lo)))
        with (child_tuple t E lo).
      change (tuples t ((E ++ [lo]) ++ filter (newp (E ++ [lo]) (cl_obj t (E ++ [lo]))) (seq (S lo) (n - S lo))))
        with (tuples t (child_tuple t E lo)) in Hnd.
      set (E' := child_tuple t E lo) in *.
      set (T1 := tuples t E' (seq (S lo) k)) in *.
      set (T2 := tuples t E (seq (S lo) k)) in *.
      assert (HE' : good t E') by (apply child_good; assumption).
      assert (Eib : ibits (E ++ [lo]) = ibits E') by (apply child_ibits; assumption).
      rewrite Eib.
      (* Hnd : NoDup (map ibits ((E' :: T1) ++ T2) ++ found) *)
      rewrite map_app in Hnd. cbn [map] in Hnd. rewrite <- app_assoc in Hnd. cbn [app] in Hnd.
      assert (Hnf : found_mem (ibits E') found = false).
      { destruct (found_mem (ibits E') found) eqn:Ef; [|reflexivity]. exfalso.
        apply found_mem_In in Ef. inversion Hnd; subst. apply H1.
        apply in_or_app. right. apply in_or_app. right. exact Ef. }
      rewrite Hnf.
      assert (H1 : NoDup (map ibits T1 ++ ibits E' :: found)).
      { eapply Permutation_NoDup; [apply Permutation_middle|]. cbn [app].
        change (ibits E' :: map ibits T1 ++ found) with ((ibits E' :: map ibits T1) ++ found).
        apply (NoDup_drop_mid _ (map ibits T2)). exact Hnd. }
      unfold T1. rewrite (IH (S lo) E' (ibits E' :: found)) by (try lia; assumption).
      fold T1.
      assert (H2 : NoDup (map ibits T2 ++ rev (map ibits T1) ++ ibits E' :: found)).
      { eapply Permutation_NoDup; [|exact Hnd].
        change (ibits E' :: map ibits T1 ++ map ibits T2 ++ found)
          with ((ibits E' :: map ibits T1) ++ map ibits T2 ++ found).
        eapply Permutation_trans; [apply Permutation_app_swap_app|].
        apply Permutation_app_head.
        replace (rev (map ibits T1) ++ ibits E' :: found)
          with (rev (ibits E' :: map ibits T1) ++ found)
          by (cbn [rev]; rewrite <- app_assoc; reflexivity).
        apply Permutation_app_tail. apply Permutation_rev. }
      unfold T2. rewrite (IH (S lo) E _) by (try lia; assumption). fold T2.
      cbn [map app]. f_equal.
      * rewrite map_app. reflexivity.
      * rewrite map_app. cbn [rev]. rewrite rev_app_distr, <- !app_assoc. reflexivity.
Qed.

Lemma tuples_ibits_nodup : NoDup (map ibits (cbo_tuples t)).
Proof.
  apply (NoDup_map_transfer (canon_set n)); [|apply cbo_tuples_nodup].
  intros X Y HX HY E. apply ibits_inj in E.
  destruct (cbo_tuples_sound t X HX) as [[HrX _] HcX].
  destruct (cbo_tuples_sound t Y HY) as [[HrY _] HcY].
  unfold n. rewrite (canon_set_closed t X HrX HcX), (canon_set_closed t Y HrY HcY).
  unfold cl_obj. rewrite E. reflexivity.
Qed.

Theorem cbo_fbarray_tuples :
  cbo_fbarray K = map (fun X => from_objects K X false) (cbo_tuples t).
Proof.
  unfold cbo_fbarray, cbo_tuples. cbn [map]. fold t.
  rewrite intention_ba_ibits by (intros x []).
  assert (E0 : extension_iter t (ibits []) (seq 0 (k_n K)) = root_tuple t).
  { unfold extension_iter, root_tuple, ext, ext_spec, all_objs, k_n. fold t n.
    apply filter_ext_in'. intros g Hg. apply in_seq in Hg. rewrite subset_test by lia.
    unfold cl_obj. rewrite ext_canon. fold n. destruct (Nat.ltb_spec g n); [reflexivity | lia]. }
  rewrite E0. f_equal. unfold k_n. fold t n.
  assert (Eib : ibits [] = ibits (root_tuple t)).
  { apply ibits_eq_int. unfold root_tuple. symmetry. apply int_ext_int. intros x []. }
  rewrite Eib. rewrite (cbo_fb_children_tuples n 0); [reflexivity | lia | apply root_good |].
  pose proof tuples_ibits_nodup as H. unfold cbo_tuples in H. cbn [map] in H.
  eapply Permutation_NoDup; [|exact H]. apply Permutation_cons_append.
Qed.

End Bridge.

(* ------------------------------------------------------------ concept level *)

Lemma pairs_of_extents t L :
  NoDup L -> (forall A, In A L <-> In A (extents_spec t)) ->
  lists_all_concepts t (map (fun A => (A, int t A)) L).
Proof.
  intros Hnd Hiff. split.
  - apply (NoDup_map_transfer (fun A => A)); [|rewrite map_id; exact Hnd].
    intros x y _ _ E. inversion E. reflexivity.
  - intros A B. unfold concepts_spec. rewrite !in_map_iff. split.
    + intros [A' [E H]]. exists A'. split; [exact E | apply Hiff; exact H].
    + intros [A' [E H]]. exists A'. split; [exact E | apply Hiff; exact H].
Qed.

Theorem cbo_fbarray_concepts K :
  wf (k_table K) ->
  cbo_fbarray K = map (fun X => concept_of K (cl_obj (k_table K) X) (int (k_table K) X))
                      (cbo_tuples (k_table K)).
Proof.
  intros Hwf. rewrite cbo_fbarray_tuples by exact Hwf. apply map_ext_in. intros X HX.
  apply from_objects_closes; [exact Hwf|]. apply (cbo_tuples_sound _ X HX).
Qed.

Theorem cbo_fbarray_exact K :
  wf (k_table K) ->
  NoDup (map c_ext_i (cbo_fbarray K)) /\
  (forall A, In A (map c_ext_i (cbo_fbarray K)) <-> In A (extents_spec (k_table K))).
Proof.
  intros Hwf. rewrite cbo_fbarray_concepts by exact Hwf. rewrite map_map. cbn [c_ext_i concept_of].
  apply cbo_tuples_exact.
Qed.

Theorem cbo_fbarray_intents K c :
  wf (k_table K) -> In c (cbo_fbarray K) -> c_int_i c = int (k_table K) (c_ext_i c).
Proof.
  intros Hwf Hc. rewrite cbo_fbarray_concepts in Hc by exact Hwf. apply in_map_iff in Hc.
  destruct Hc as [X [E HX]]. subst c. cbn [c_ext_i c_int_i concept_of]. unfold cl_obj.
  symmetry. apply int_ext_int. apply (cbo_tuples_sound _ X HX).
Qed.

Theorem cbo_fbarray_all_concepts K :
  wf (k_table K) -> lists_all_concepts (k_table K) (map pair_of_concept (cbo_fbarray K)).
Proof.
  intros Hwf. destruct (cbo_fbarray_exact K Hwf) as [Hnd Hiff].
  replace (map pair_of_concept (cbo_fbarray K))
    with (map (fun A => (A, int (k_table K) A)) (map c_ext_i (cbo_fbarray K))).
  - apply pairs_of_extents; assumption.
  - rewrite map_map. apply map_ext_in. intros c Hc. unfold pair_of_concept.
    rewrite (cbo_fbarray_intents K c Hwf Hc). reflexivity.
Qed.

(* the object-wise generator yields the same concepts, with the extent as the (unsorted) tuple *)
Theorem cbo_objectwise_all_concepts K :
  wf (k_table K) ->
  lists_all_concepts (k_table K)
    (map (fun c => (canon_set (k_n K) (c_ext_i c), c_int_i c)) (cbo_objectwise K)) /\
  Forall (fun c => NoDup (c_ext_i c) /\ in_range (k_n K) (c_ext_i c)) (cbo_objectwise K).
Proof.
  intros Hwf. set (t := k_table K).
  rewrite cbo_objectwise_tuples by exact Hwf. fold t. split.
  - replace (map (fun c => (canon_set (k_n K) (c_ext_i c), c_int_i c))
                 (map (fun X => from_objects K X true) (cbo_tuples t)))
      with (map (fun A => (A, int t A)) (map (cl_obj t) (cbo_tuples t))).
    + apply pairs_of_extents; apply cbo_tuples_exact.
    + rewrite !map_map. apply map_ext_in. intros X HX.
      destruct (cbo_tuples_sound t X HX) as [[Hr Hnd] Hc].
      rewrite from_objects_extent by assumption. cbn [c_ext_i c_int_i concept_of]. fold t.
      unfold k_n. fold t. rewrite (canon_set_closed t X Hr Hc). f_equal.
      unfold cl_obj. apply int_ext_int. exact Hr.
  - apply Forall_forall. intros c Hc. apply in_map_iff in Hc. destruct Hc as [X [E HX]]. subst c.
    destruct (cbo_tuples_sound t X HX) as [[Hr Hnd] _].
    rewrite from_objects_extent by assumption. cbn [c_ext_i concept_of]. split; assumption.
Qed.

(* Lemmas/C16.v — stability equals its definition; the unstable sub-sets of an extent are the
   union of the power sets of its lower covers; the published bounds bracket the stability. *)
From FCA Require Import Base.C16_Dyadic Model.C16_Stability Spec.C16_StabilitySpec.
From FCA Require Import Lemmas.C16_Dyadic Lemmas.C01.
From Coq Require Import ZArith QArith Lia.
Local Open Scope nat_scope.

(* ------------------------------------------------------------------ strict inclusion, covers *)

Lemma proper_subb_spec C A : proper_subb C A = true <-> incl C A /\ ~ incl A C.
Proof.
  unfold proper_subb. destruct (subsetb C A) eqn:E1.
  - rewrite negb_true_iff. apply subsetb_incl in E1. split.
    + intros H. split; [exact E1|]. intros H2. apply subsetb_incl in H2. congruence.
    + intros [_ H]. destruct (subsetb A C) eqn:E2; [|reflexivity]. apply subsetb_incl in E2. tauto.
  - split; [discriminate|]. intros [H _]. apply subsetb_incl in H. congruence.
Qed.

Lemma lower_covers_In exts A C :
  In C (lower_covers exts A) <->
  In C exts /\ proper_subb C A = true /\
  forall D, In D exts -> ~ (proper_subb C D = true /\ proper_subb D A = true).
Proof.
  unfold lower_covers. rewrite filter_In. split.
  - intros [Hin H]. destruct (proper_subb C A) eqn:E; [|discriminate].
    split; [exact Hin|]. split; [reflexivity|]. intros D HD [H1 H2].
    apply negb_true_iff in H. 
    assert (X : existsb (fun D0 => if proper_subb C D0 then proper_subb D0 A else false) exts = true).
    { apply existsb_exists. exists D. split; [exact HD|]. rewrite H1. exact H2. }
    congruence.
  - intros [Hin [E H]]. split; [exact Hin|]. rewrite E. apply negb_true_iff.
    destruct (existsb _ exts) eqn:X; [|reflexivity]. exfalso.
    apply existsb_exists in X. destruct X as [D [HD HX]].
    destruct (proper_subb C D) eqn:E1; [|discriminate]. apply (H D HD). split; [exact E1 | exact HX].
Qed.

Lemma NoDup_strict_length (l1 l2 : list nat) :
  NoDup l1 -> incl l1 l2 -> ~ incl l2 l1 -> length l1 < length l2.
Proof.
  intros N1 I12 NI. destruct (Nat.lt_ge_cases (length l1) (length l2)) as [H|H]; [exact H|].
  exfalso. apply NI. apply NoDup_length_incl; assumption.
Qed.

Lemma ext_NoDup t B : NoDup (ext t B).
Proof. unfold ext, ext_spec. apply NoDup_filter. apply seq_NoDup. Qed.

Section Lattice.
Variable t : table.
Variable exts : list (list nat).
Hypothesis Hexts : all_extents t exts.

Lemma exts_NoDup C : In C exts -> NoDup C.
Proof. intros H. apply Hexts in H. destruct H as [B [_ ->]]. apply ext_NoDup. Qed.

(* every extent strictly below A lies below a lower cover of A *)
Lemma below_some_cover A : forall n D,
  length A - length D <= n -> In D exts -> proper_subb D A = true ->
  exists C, In C (lower_covers exts A) /\ incl D C.
Proof.
  induction n as [|n IH]; intros D Hn HD HP.
  - exfalso. apply proper_subb_spec in HP. destruct HP as [H1 H2].
    pose proof (NoDup_strict_length D A (exts_NoDup D HD) H1 H2). lia.
  - destruct (existsb (fun D0 => if proper_subb D D0 then proper_subb D0 A else false) exts) eqn:X.
    + apply existsb_exists in X. destruct X as [D' [HD' HX]].
      destruct (proper_subb D D') eqn:E1; [|discriminate].
      pose proof E1 as E1'. apply proper_subb_spec in E1'. destruct E1' as [I1 I2].
      pose proof (NoDup_strict_length D D' (exts_NoDup D HD) I1 I2) as Hlt.
      destruct (IH D') as [C [HC HI]]; [lia | exact HD' | exact HX |].
      exists C. split; [exact HC|]. intros x Hx. apply HI, I1, Hx.
    + exists D. split; [|intros x Hx; exact Hx]. apply lower_covers_In.
      split; [exact HD|]. split; [exact HP|]. intros D' HD' [H1 H2].
      assert (Y : existsb (fun D0 => if proper_subb D D0 then proper_subb D0 A else false) exts = true).
      { apply existsb_exists. exists D'. split; [exact HD'|]. rewrite H1. exact H2. }
      congruence.
Qed.

(* ------------------------------------------------------------------ the key lemma *)
Variables A B : list nat.
Hypothesis Hc : is_concept t A B.

Lemma B_in_range : in_range (width t) B.
Proof. destruct Hc as [_ ->]. apply int_in_range. Qed.
Lemma A_in_range : in_range (height t) A.
Proof. destruct Hc as [-> _]. apply ext_in_range. Qed.
Lemma A_in_exts : In A exts.
Proof. apply Hexts. exists B. split; [apply B_in_range | apply Hc]. Qed.

Lemma sub_in_range S : incl S A -> in_range (height t) S.
Proof. intros H g Hg. apply A_in_range. apply H. exact Hg. Qed.

(* S ⊆ A  ==>  B ⊆ S' *)
Lemma int_sub_contains S : incl S A -> incl B (int t S).
Proof. intros H. destruct Hc as [_ HB]. rewrite HB. apply int_antitone. exact H. Qed.

Theorem unstable_union S : incl S A ->
  (int t S <> B <-> exists C, In C (lower_covers exts A) /\ incl S C).
Proof.
  intros HS. pose proof Hc as [HA HB]. split.
  - intros Hne.
    set (D := cl_obj t S).
    assert (HSD : incl S D) by (apply ext_int_extensive; apply sub_in_range; exact HS).
    assert (HDA : incl D A).
    { unfold D. rewrite <- (concept_extent_closed t A B Hc). apply cl_obj_monotone. exact HS. }
    assert (HDin : In D exts).
    { apply Hexts. exists (int t S). split; [apply int_in_range | reflexivity]. }
    assert (HnAD : ~ incl A D).
    { intros HAD. apply Hne. rewrite HB.
      rewrite <- (int_ext_int t S) by (apply sub_in_range; exact HS).
      apply int_same_set. intros x. split; [apply HDA | apply HAD]. }
    destruct (below_some_cover A (length A) D) as [C [HC HI]].
    + lia.
    + exact HDin.
    + apply proper_subb_spec. split; assumption.
    + exists C. split; [exact HC|]. intros x Hx. apply HI, HSD, Hx.
  - intros [C [HC HSC]] Heq.
    apply lower_covers_In in HC. destruct HC as [HCin [HP _]].
    apply proper_subb_spec in HP. destruct HP as [HCA HnAC].
    apply Hexts in HCin. destruct HCin as [B' [HB' HCeq]].
    (* int C ⊆ int S = B = int A, hence A = ext B ⊆ ext (int C) = C *)
    apply HnAC. intros g Hg.
    assert (HiC : incl (int t C) B) by (rewrite <- Heq; apply int_antitone; exact HSC).
    rewrite HCeq. rewrite <- (ext_int_ext t B' HB'). rewrite <- HCeq.
    rewrite HA in Hg. revert g Hg. apply ext_antitone. exact HiC.
Qed.

Lemma stable_test S : In S (sublists A) ->
  nat_list_eqb (int t S) B = negb (existsb (fun C => subsetb S C) (lower_covers exts A)).
Proof.
  intros HS. apply In_sublists in HS.
  destruct (existsb (fun C => subsetb S C) (lower_covers exts A)) eqn:E; simpl.
  - destruct (nat_list_eqb (int t S) B) eqn:E2; [|reflexivity]. exfalso.
    apply nat_list_eqb_eq in E2. revert E2. apply (unstable_union S HS).
    apply existsb_exists in E. destruct E as [C [HC HX]]. exists C. split; [exact HC|].
    apply subsetb_incl. exact HX.
  - apply nat_list_eqb_eq. destruct (list_eq_dec Nat.eq_dec (int t S) B) as [H|H]; [exact H|].
    exfalso. apply (unstable_union S HS) in H. destruct H as [C [HC HX]].
    assert (Y : existsb (fun C => subsetb S C) (lower_covers exts A) = true).
    { apply existsb_exists. exists C. split; [exact HC|]. apply subsetb_incl. exact HX. }
    congruence.
Qed.


(* ------------------------------------------------------------------ counting *)
Let L := sublists A.
Let covers := lower_covers exts A.
Definition unstable_count := count_if (fun S => existsb (fun C => subsetb S C) covers) L.

Lemma stable_plus_unstable : stable_count t A B + unstable_count = 2 ^ length A.
Proof.
  unfold stable_count, unstable_count.
  rewrite (count_if_ext_in _ (fun S => negb (existsb (fun C => subsetb S C) covers)) (sublists A)).
  - rewrite Nat.add_comm. unfold L. rewrite count_if_compl. apply sublists_length.
  - intros S HS. apply stable_test. exact HS.
Qed.

End Lattice.

Lemma count_subsets A C : count_if (fun S => subsetb S C) (sublists A) = 2 ^ length (inter A C).
Proof.
  induction A as [|x A IH]; [reflexivity|].
  cbn [sublists]. rewrite count_if_app, count_if_map, IH.
  unfold inter. cbn [filter]. fold (inter A C).
  rewrite (count_if_ext_in _ (fun S => if mem x C then subsetb S C else false)).
  - destruct (mem x C).
    + rewrite IH. cbn [length]. rewrite Nat.pow_succ_r'. lia.
    + rewrite count_if_false. lia.
  - intros S _. unfold subsetb. cbn [forallb]. destruct (mem x C); reflexivity.
Qed.

Lemma inter_diff_length A C : length (inter A C) + length (diff A C) = length A.
Proof.
  unfold inter, diff. induction A as [|x A IH]; [reflexivity|]. cbn [filter].
  destruct (mem x C); cbn [negb length]; lia.
Qed.

(* the sum of the scaled terms 2^|A ∩ C| over a list of candidate children *)
Definition scaled_sum (A : list nat) (ch : list (list nat)) : nat :=
  fold_right (fun C acc => 2 ^ length (inter A C) + acc) 0 ch.

Local Open Scope Q_scope.

Lemma qsum_inv_diffs A ch :
  qsum (inv_diffs A ch) == Z.of_nat (scaled_sum A ch) # pow2p (length A).
Proof.
  destruct ch as [|C ch].
  - cbn. unfold Qeq. cbn. reflexivity.
  - unfold inv_diffs. 
    apply (qsum_scaled (delta A) (fun C => length (inter A C)) (length A) (C :: ch)).
    intros c _. apply inter_diff_length.
Qed.

Lemma stab_spec_le_one t A B : stab_spec t A B <= 1.
Proof.
  unfold stab_spec, stable_count, Qle. cbn [Qnum Qden]. rewrite pow2p_Z, Z.mul_1_r, Z.mul_1_l.
  apply Nat2Z.inj_le. rewrite <- (sublists_length A). apply count_if_le_length.
Qed.

Section Bounds.
Variable b : backend.
Variable t : table.
Variable exts : list (list nat).
Hypothesis Hwf : wf t.
Hypothesis Hexts : all_extents t exts.
Variables A B : list nat.
Hypothesis Hc : is_concept t A B.

Theorem stability_def : stability_m b t A B == stab_spec t A B.
Proof.
  unfold stability_m, stab_spec, stable_count.
  assert (E : count_if (fun S => same_setb (intention_i b t S None) B) (sublists A)
              = count_if (fun S => nat_list_eqb (int t S) B) (sublists A)).
  { apply count_if_ext_in. intros S HS. pose proof Hc as [HA HB].
    assert (HR : in_range (height t) S).
    { intros g Hg. apply In_sublists in HS. apply HS in Hg. rewrite HA in Hg.
      apply ext_In in Hg. tauto. }
    rewrite intention_i_correct; [| exact Hwf | exact HR | exact Logic.I].
    cbn [default]. fold (int t S).
    apply bool_eq_iff. rewrite same_setb_spec, nat_list_eqb_eq. split.
    - intros H. rewrite HB. apply int_int_set. rewrite <- HB. exact H.
    - intros ->. intros x; tauto. }
  destruct (length A) eqn:EA.
  - destruct A; [|discriminate]. cbn. pose proof Hc as [_ HB].
    assert (X : nat_list_eqb (int t []) B = true) by (apply nat_list_eqb_eq; symmetry; exact HB).
    rewrite X. reflexivity.
  - rewrite E. reflexivity.
Qed.

(* 1 - stab, as a fraction *)
Lemma one_minus_stab :
  1 - stab_spec t A B == Z.of_nat (unstable_count exts A) # pow2p (length A).
Proof.
  unfold stab_spec. rewrite one_minus_frac. apply Qeq_same_den.
  rewrite pow2p_Z. pose proof (stable_plus_unstable t exts Hexts A B Hc). lia.
Qed.

(* union bound, scaled *)
Lemma unstable_le_sum ch :
  (forall C, In C (lower_covers exts A) -> In C ch) ->
  (unstable_count exts A <= scaled_sum A ch)%nat.
Proof.
  intros Hcov. unfold unstable_count, scaled_sum.
  eapply Nat.le_trans; [| eapply Nat.le_trans; [apply (count_if_union (fun C S => subsetb S C) ch (sublists A))|] ].
  - apply count_if_mono. intros S _ H. apply existsb_exists in H. destruct H as [C [HC HX]].
    apply existsb_exists. exists C. split; [apply Hcov; exact HC | exact HX].
  - clear Hcov. induction ch as [|C ch IH]; cbn [fold_right]; [lia|]. rewrite count_subsets. lia.
Qed.

Theorem lower_bound ch :
  (forall C, In C (lower_covers exts A) -> In C ch) ->
  fst (stability_bounds_m A ch) <= stability_m b t A B.
Proof.
  intros Hcov. rewrite stability_def. unfold stability_bounds_m. cbn [fst].
  rewrite qsum_inv_diffs, one_minus_frac. unfold stab_spec. apply Qle_same_den.
  rewrite pow2p_Z. pose proof (stable_plus_unstable t exts Hexts A B Hc).
  pose proof (unstable_le_sum ch Hcov). lia.
Qed.

(* a single proper sub-extent already accounts for 2^|A ∩ C| unstable sub-sets *)
Lemma one_child_le_unstable C :
  In C exts -> proper_subb C A = true -> (2 ^ length (inter A C) <= unstable_count exts A)%nat.
Proof.
  intros HC HP. rewrite <- count_subsets. unfold unstable_count.
  apply count_if_mono. intros S _ HS. apply subsetb_incl in HS.
  destruct (below_some_cover t exts Hexts A (length A) C) as [C' [HC' HI]]; [lia | exact HC | exact HP |].
  apply existsb_exists. exists C'. split; [exact HC'|]. apply subsetb_incl.
  intros x Hx. apply HI, HS, Hx.
Qed.

Theorem upper_bound ch :
  (forall C, In C ch -> In C exts /\ proper_subb C A = true) ->
  stability_m b t A B <= snd (stability_bounds_m A ch).
Proof.
  intros Hch. rewrite stability_def. unfold stability_bounds_m. cbn [snd].
  destruct ch as [|C0 ch0].
  - cbn. setoid_replace (1 - 0) with 1 by ring. apply stab_spec_le_one.
  - set (ch := C0 :: ch0) in *.
    assert (Hin : In (qmax_list (inv_diffs A ch)) (inv_diffs A ch)).
    { apply qmax_list_In. unfold inv_diffs, ch. cbn. discriminate. }
    unfold inv_diffs in Hin at 2. unfold ch in Hin at 2. fold ch in Hin.
    apply in_map_iff in Hin. destruct Hin as [C [E HC]]. rewrite <- E.
    rewrite (inv_pow2_scaled (length (inter A C)) (delta A C) (length A)) by apply inter_diff_length.
    rewrite one_minus_frac. unfold stab_spec. apply Qle_same_den. rewrite pow2p_Z.
    destruct (Hch C HC) as [HCe HCp].
    pose proof (stable_plus_unstable t exts Hexts A B Hc).
    pose proof (one_child_le_unstable C HCe HCp). lia.
Qed.

End Bounds.

(* ------------------------------------------------------------------ number of lower covers *)
Local Open Scope nat_scope.

Lemma NoDup_map_inj_in {X Y} (f : X -> Y) (l : list X) :
  (forall x y, In x l -> In y l -> f x = f y -> x = y) -> NoDup l -> NoDup (map f l).
Proof.
  induction l as [|x l IH]; intros Hinj Hnd; [constructor|].
  inversion Hnd as [|? ? Hx Hl]; subst. cbn [map]. constructor.
  - intros Hin. apply in_map_iff in Hin. destruct Hin as [y [E Hy]].
    assert (y = x) by (apply Hinj; [right; exact Hy | left; reflexivity | exact E]). subst. tauto.
  - apply IH; [|exact Hl]. intros a c Ha Hc'. apply Hinj; right; assumption.
Qed.

Lemma diff_filter_length (p : nat -> bool) (l : list nat) :
  length (diff l (filter p l)) + length (filter p l) = length l.
Proof.
  assert (E : diff l (filter p l) = filter (fun x => negb (p x)) l).
  { unfold diff. apply filter_ext_in'. intros x Hx. f_equal.
    apply bool_eq_iff. rewrite mem_In, filter_In. tauto. }
  rewrite E. pose proof (count_if_compl p l) as H. unfold count_if in H. lia.
Qed.

Section Covers.
Variable t : table.
Variable exts : list (list nat).
Hypothesis Hexts : all_extents t exts.
Variables A B : list nat.
Hypothesis Hc : is_concept t A B.

Definition witness_attr (C : list nat) : nat :=
  match find (fun m => mem m (int t C) && negb (mem m B)) (all_attrs t) with
  | Some m => m
  | None => 0
  end.

Lemma cover_witness C : In C (lower_covers exts A) ->
  In (witness_attr C) (int t C) /\ ~ In (witness_attr C) B.
Proof.
  intros HC. apply lower_covers_In in HC. destruct HC as [HCin [HP _]].
  apply proper_subb_spec in HP. destruct HP as [HCA HnAC].
  unfold witness_attr.
  destruct (find _ (all_attrs t)) as [m|] eqn:F.
  - apply find_some in F. destruct F as [_ F]. apply andb_true_iff in F. destruct F as [F1 F2].
    apply mem_In in F1. apply negb_true_iff, mem_false_iff in F2. tauto.
  - exfalso. apply HnAC. pose proof Hc as [HA HB].
    apply Hexts in HCin. destruct HCin as [B' [HB' HCeq]].
    assert (HiC : incl (int t C) B).
    { intros m Hm. pose proof (find_none _ _ F m) as X.
      assert (Hin : In m (all_attrs t)).
      { unfold all_attrs. apply in_seq. apply int_In in Hm. lia. }
      specialize (X Hin). apply andb_false_iff in X. destruct X as [X|X].
      - apply mem_false_iff in X. tauto.
      - apply negb_false_iff, mem_In in X. exact X. }
    intros g Hg. rewrite HCeq. rewrite <- (ext_int_ext t B' HB'). rewrite <- HCeq.
    rewrite HA in Hg. revert g Hg. apply ext_antitone. exact HiC.
Qed.

(* a lower cover is determined by any attribute it gains:  C = (B ∪ {m})' *)
Lemma cover_by_witness C m : In C (lower_covers exts A) -> In m (int t C) -> ~ In m B ->
  C = ext t (m :: B).
Proof.
  intros HC Hm HmB. pose proof Hc as [HA HB].
  apply lower_covers_In in HC. destruct HC as [HCin [HP Hcov]].
  apply proper_subb_spec in HP. destruct HP as [HCA HnAC].
  pose proof HCin as HCin'. apply Hexts in HCin'. destruct HCin' as [B' [HB' HCeq]].
  assert (Hmw : m < width t) by (apply int_In in Hm; tauto).
  assert (HBr : in_range (width t) (m :: B)).
  { intros x [Hx|Hx]; [subst; exact Hmw|]. rewrite HB in Hx. apply int_In in Hx. tauto. }
  set (E := ext t (m :: B)).
  assert (HEin : In E exts) by (apply Hexts; exists (m :: B); split; [exact HBr | reflexivity]).
  assert (HCE : incl C E).
  { intros g Hg. unfold E. apply ext_In. split.
    - apply HCA in Hg. rewrite HA in Hg. apply ext_In in Hg. tauto.
    - intros m' [Hm'|Hm'].
      + subst m'. apply int_In in Hm. destruct Hm as [_ Hm]. apply Hm. exact Hg.
      + apply HCA in Hg. rewrite HA in Hg. apply ext_In in Hg. destruct Hg as [_ Hg]. apply Hg. exact Hm'. }
  assert (HEA : incl E A).
  { unfold E. rewrite HA. apply ext_antitone. intros x Hx. right. exact Hx. }
  assert (HnAE : ~ incl A E).
  { intros HAE. apply HmB. rewrite HB. apply int_In. split; [exact Hmw|].
    intros g Hg. apply HAE in Hg. unfold E in Hg. apply ext_In in Hg. destruct Hg as [_ Hg].
    apply Hg. left. reflexivity. }
  assert (HEC : incl E C).
  { destruct (subsetb E C) eqn:S; [apply subsetb_incl; exact S|]. exfalso.
    apply (Hcov E HEin). split; apply proper_subb_spec.
    - split; [exact HCE|]. intros H. apply subsetb_incl in H. congruence.
    - split; assumption. }
  rewrite HCeq. unfold E. apply ext_ext_set. rewrite <- HCeq. intros x. split; [apply HCE | apply HEC].
Qed.

Theorem children_le_attrs ch :
  NoDup ch -> (forall C, In C ch -> In C (lower_covers exts A)) ->
  length ch + length B <= width t.
Proof.
  intros Hnd Hsub.
  assert (N : NoDup (map witness_attr ch)).
  { apply NoDup_map_inj_in; [|exact Hnd]. intros C1 C2 H1 H2 E.
    destruct (cover_witness C1 (Hsub C1 H1)) as [W1 W1'].
    destruct (cover_witness C2 (Hsub C2 H2)) as [W2 W2'].
    rewrite (cover_by_witness C1 _ (Hsub C1 H1) W1 W1').
    rewrite (cover_by_witness C2 _ (Hsub C2 H2) W2 W2'). rewrite E. reflexivity. }
  assert (Inc : incl (map witness_attr ch) (diff (all_attrs t) B)).
  { intros m Hm. apply in_map_iff in Hm. destruct Hm as [C [E HC]]. subst m.
    destruct (cover_witness C (Hsub C HC)) as [W W']. apply diff_In. split; [|exact W'].
    unfold all_attrs. apply in_seq. apply int_In in W. lia. }
  pose proof (NoDup_incl_length N Inc) as Hlen. rewrite map_length in Hlen.
  pose proof Hc as [_ HB].
  assert (E : length (diff (all_attrs t) B) + length B = width t).
  { rewrite HB. unfold int, int_spec. rewrite diff_filter_length. unfold all_attrs. apply seq_length. }
  lia.
Qed.

End Covers.

(* ------------------------------------------------------------------ the logarithmic bound *)

Lemma scaled_sum_mul A ch d :
  (forall C, In C ch -> d <= delta A C) ->
  scaled_sum A ch * 2 ^ d <= length ch * 2 ^ length A.
Proof.
  intros H. induction ch as [|C ch IH]; cbn [scaled_sum fold_right length]; [lia|].
  fold (scaled_sum A ch).
  assert (IH' : scaled_sum A ch * 2 ^ d <= length ch * 2 ^ length A)
    by (apply IH; intros C' HC'; apply H; right; exact HC').
  assert (E : 2 ^ length (inter A C) * 2 ^ d <= 2 ^ length A).
  { rewrite <- Nat.pow_add_r. apply Nat.pow_le_mono_r; [lia|].
    pose proof (inter_diff_length A C). pose proof (H C (or_introl eq_refl)) as Hd.
    unfold delta in Hd. lia. }
  lia.
Qed.

Section LogBound.
Variable b : backend.
Variable t : table.
Variable exts : list (list nat).
Hypothesis Hwf : wf t.
Hypothesis Hexts : all_extents t exts.
Variables A B : list nat.
Hypothesis Hc : is_concept t A B.

Theorem log_bound ch :
  NoDup ch -> (forall C, In C ch <-> In C (lower_covers exts A)) ->
  log_bound_holds (stability_m b t A B) (log_lbound_m A ch) (width t).
Proof.
  intros Hnd Hch. unfold log_bound_holds. destruct (log_lbound_m A ch) as [d|] eqn:El; [|exact Logic.I].
  assert (Hd : forall C, In C ch -> d <= delta A C).
  { intros C HC. unfold log_lbound_m in El. apply (nmin_list_le _ _ El). apply in_map. exact HC. }
  pose proof (scaled_sum_mul A ch d Hd) as H1.
  pose proof (unstable_le_sum exts A ch (fun C HC => proj2 (Hch C) HC)) as H2.
  pose proof (children_le_attrs t exts Hexts A B Hc ch Hnd (fun C HC => proj1 (Hch C) HC)) as H3.
  rewrite (stability_def b t Hwf A B Hc).
  rewrite (one_minus_stab t exts Hexts A B Hc).
  unfold Qle, Qmult. cbn [Qnum Qden]. rewrite Pos.mul_1_r, Z.mul_1_r, !pow2p_Z.
  rewrite <- !Nat2Z.inj_mul. apply Nat2Z.inj_le.
  assert (H4 : unstable_count exts A * 2 ^ d <= scaled_sum A ch * 2 ^ d)
    by (apply Nat.mul_le_mono_r; exact H2).
  assert (H5 : length ch * 2 ^ length A <= width t * 2 ^ length A)
    by (apply Nat.mul_le_mono_r; lia).
  lia.
Qed.

End LogBound.

(* ------------------------------------------------------------------ all together, for the complete lattice *)
Lemma lower_covers_NoDup exts A : NoDup exts -> NoDup (lower_covers exts A).
Proof. intros H. unfold lower_covers. apply NoDup_filter. exact H. Qed.

Lemma extents_spec_all t : all_extents t (extents_spec t).
Proof. intros C. apply extents_spec_complete. Qed.

Lemma extents_spec_NoDup t : NoDup (extents_spec t).
Proof. unfold extents_spec. apply nodup_lists_NoDup. Qed.

Theorem stability_bracketed b t A B ch :
  wf t -> is_concept t A B -> NoDup ch ->
  (forall C, In C ch <-> In C (lower_covers (extents_spec t) A)) ->
  Qeq (stability_m b t A B) (stab_spec t A B) /\
  Qle (fst (stability_bounds_m A ch)) (stability_m b t A B) /\
  Qle (stability_m b t A B) (snd (stability_bounds_m A ch)) /\
  log_bound_holds (stability_m b t A B) (log_lbound_m A ch) (width t) /\
  length ch + length B <= width t.
Proof.
  intros Hwf Hc Hnd Hch. pose proof (extents_spec_all t) as He.
  split; [apply stability_def; assumption|].
  split; [apply (lower_bound b t (extents_spec t)); try assumption; intros C HC; apply Hch; exact HC|].
  split.
  { apply (upper_bound b t (extents_spec t)); try assumption. intros C HC.
    apply Hch in HC. apply lower_covers_In in HC. tauto. }
  split; [apply (log_bound b t (extents_spec t)); assumption|].
  apply (children_le_attrs t (extents_spec t) He A B Hc ch Hnd). intros C HC. apply Hch. exact HC.
Qed.

(* Lemmas/C14_Lattice.v — the binarising mining path of a many-valued context yields exactly the
   closed object sets of the specification, each once and with its most specific description,
   provided guard_D17 holds (C14 lattice_exact).  Uses C02's theorem on
   close_by_one_objectwise_fbarray (Lemmas/C02_CbOModel.v) and the transposition lemmas
   (Lemmas/C02_CloseByOne.v). *)
From FCA Require Import Base.ListSet Model.MVContext Spec.MVLatticeSpec Lemmas.C13 Lemmas.C14.
From FCA Require Import Lemmas.C02 Lemmas.C02_Sofia Lemmas.C02_CbO Lemmas.C02_CbOModel Lemmas.C02_CloseByOne.


(* ------------------------------------------------------------------ the extents the binarising
   path iterates over are exactly the extents of the binarised table, each once *)
Lemma NoDup_map_inj_in {A B} (f : A -> B) l :
  (forall x y, In x l -> In y l -> f x = f y -> x = y) -> NoDup l -> NoDup (map f l).
Proof.
  induction l as [|a l IH]; intros Hinj Hnd; [constructor|]. inversion Hnd; subst. simpl. constructor.
  - intros Hin. apply in_map_iff in Hin. destruct Hin as [y [E Hy]].
    assert (y = a) by (apply Hinj; [right; exact Hy | left; reflexivity | exact E]). subst. contradiction.
  - apply IH; [|assumption]. intros x y Hx Hy. apply Hinj; right; assumption.
Qed.

Lemma mv_binarize_width_pos K :
  mv_wf K -> mv_n K <> 0 -> mv_cols K <> [] -> 0 < width (mv_binarize K).
Proof.
  intros Hwf Hn Hc. rewrite mv_binarize_width by exact Hn.
  destruct (mv_cols K) as [|c cs] eqn:E; [congruence|].
  unfold mv_bin_attrs. rewrite E. cbn [flat_map]. rewrite app_length.
  assert (X : ps_n_bin_attrs c = length (ps_bin_attrs c)).
  { apply bin_attrs_count. unfold mv_wf in Hwf. rewrite E in Hwf. inversion Hwf; subst. lia. }
  assert (Y : 0 < ps_n_bin_attrs c).
  { destruct c as [d|d|d|d]; cbn.
    - unfold ivl_n_bin_attrs. assert (d <> []).
      { unfold mv_wf in Hwf. rewrite E in Hwf. inversion Hwf; subst. cbn in H1. destruct d; [cbn in H1; lia | discriminate]. }
      pose proof (zsort_uniq_nonempty (map fst d)). destruct (zsort_uniq (map fst d)); [|cbn; lia].
      exfalso. apply H0; [destruct d; [congruence | discriminate] | reflexivity].
    - unfold ivn_n_bin_attrs. assert (d <> []).
      { unfold mv_wf in Hwf. rewrite E in Hwf. inversion Hwf; subst. cbn in H1. destruct d; [cbn in H1; lia | discriminate]. }
      pose proof (zsort_uniq_nonempty (map fst d)). destruct (zsort_uniq (map fst d)); [|cbn; lia].
      exfalso. apply H0; [destruct d; [congruence | discriminate] | reflexivity].
    - unfold set_n_bin_attrs. pose proof (Nat.pow_nonzero 2 (length (set_uniq_vals d))). lia.
    - unfold attr_n_bin_attrs. lia. }
  lia.
Qed.

Theorem bin_extents_exact K :
  mv_wf K -> mv_n K <> 0 -> mv_cols K <> [] ->
  NoDup (mv_bin_extents K) /\
  (forall E, In E (mv_bin_extents K) <-> In E (extents_spec (mv_binarize K))).
Proof.
  intros Hwf Hn Hc. set (t := mv_binarize K).
  assert (Hwft : wf t) by apply mv_binarize_wf.
  assert (Hw : 0 < width t) by (apply mv_binarize_width_pos; assumption).
  unfold mv_bin_extents. destruct (mv_n K <=? mv_n_bin_attrs K).
  - apply (cbo_fbarray_exact (mv_bin_context K)). exact Hwft.
  - set (KT := ctx_T (mv_bin_context K)).
    assert (HT : k_table KT = transpose t) by reflexivity.
    assert (HwfT : wf (k_table KT)) by (rewrite HT; apply transpose_wf; exact Hw).
    destruct (cbo_fbarray_exact KT HwfT) as [Hnd Hiff]. rewrite HT in Hiff.
    assert (Emap : map c_int_i (cbo_fbarray KT) = map (ext t) (map c_ext_i (cbo_fbarray KT))).
    { rewrite map_map. apply map_ext_in. intros c Hc'. rewrite (cbo_fbarray_intents KT c HwfT Hc'), HT.
      apply int_transpose; assumption. }
    rewrite Emap. split.
    + apply NoDup_map_inj_in; [|exact Hnd]. intros B1 B2 H1 H2 E.
      apply Hiff in H1. apply Hiff in H2. apply extents_spec_complete in H1. apply extents_spec_complete in H2.
      destruct H1 as [X1 [Hr1 E1]]. destruct H2 as [X2 [Hr2 E2]].
      rewrite ext_transpose in E1, E2 by exact Hwft. rewrite transpose_width in Hr1, Hr2 by exact Hw.
      subst B1 B2. rewrite <- (int_ext_int t X1 Hr1), <- (int_ext_int t X2 Hr2). rewrite E. reflexivity.
    + intros E. rewrite in_map_iff. split.
      * intros [B [EB HB]]. subst E. apply Hiff in HB. apply extents_spec_complete in HB.
        destruct HB as [X [Hr EX]]. rewrite ext_transpose in EX by exact Hwft. subst B.
        apply extents_spec_complete. exists (int t X). split; [apply int_in_range | reflexivity].
      * intros HE. apply extents_spec_complete in HE. destruct HE as [B [Hr EB]]. subst E.
        exists (int t (ext t B)). split; [apply ext_int_ext; exact Hr|].
        apply Hiff. apply extents_spec_complete. exists (ext t B). split.
        -- rewrite transpose_width by exact Hw. apply ext_in_range.
        -- symmetry. apply ext_transpose. exact Hwft.
Qed.

(* what "the lattice is exact" means for a list of yielded pattern concepts: the extents are
   exactly the closed object sets of the specification, each once, each with the most specific
   description of its extent (value sets read as sets) *)
Definition concept_list_exact (K : mvctx) (cs : list pconcept) : Prop :=
  NoDup (map pc_ext cs) /\
  (forall E, In E (map pc_ext cs) <-> In E (mv_extents_spec (mv_cols K) (mv_n K))) /\
  (forall c, In c cs -> descs_eqb (map snd (pc_int c)) (mv_int_spec (mv_cols K) (pc_ext c)) = true).

(* ------------------------------------------------------------------ small facts *)
Lemma iv_eqb_refl x : iv_eqb x x = true.
Proof. unfold iv_eqb. rewrite !Z.eqb_refl. reflexivity. Qed.
Lemma same_setb_refl x : same_setb x x = true.
Proof. apply same_setb_spec. intros y. tauto. Qed.
Lemma desc_eqb_refl d : desc_eqb d d = true.
Proof.
  destruct d as [[x|]|[x|]|b]; cbn; try reflexivity.
  - apply iv_eqb_refl.
  - apply same_setb_refl.
  - destruct b; reflexivity.
Qed.

Lemma list_eqb_map2 {A B} (eqb : B -> B -> bool) (f g : A -> B) l :
  (forall c, In c l -> eqb (f c) (g c) = true) -> list_eqb eqb (map f l) (map g l) = true.
Proof.
  induction l as [|x l IH]; intros H; [reflexivity|]. cbn. rewrite H by (left; reflexivity).
  apply IH. intros c Hc. apply H. right. exact Hc.
Qed.

Lemma map_snd_combine {A B} (a : list A) (b : list B) : length a = length b -> map snd (combine a b) = b.
Proof.
  revert b. induction a as [|x a IH]; intros [|y b] H; simpl in *; try reflexivity; try discriminate.
  rewrite IH by lia. reflexivity.
Qed.

Lemma desc_int_spec c A : A <> [] -> desc_eqb (ps_intention c A) (int_ps_spec c A) = true.
Proof.
  intros HA. rewrite ps_intention_twin. destruct A as [|g0 rest]; [congruence|].
  destruct c as [data|data|data|data]; cbn [pure_twin ps_intention int_ps_spec].
  1,2: rewrite ivl_intention_minmax, zmin_spec_of, zmax_spec_of;
       replace (lefts _ (g0 :: rest)) with (map (fun g => fst (iv_at data g)) (g0 :: rest))
         by (apply map_ext; intros g; unfold iv_at; cbn [value_at]; destruct (nth g data (0%Z, 0%Z)); reflexivity);
       replace (rights _ (g0 :: rest)) with (map (fun g => snd (iv_at data g)) (g0 :: rest))
         by (apply map_ext; intros g; unfold iv_at; cbn [value_at]; destruct (nth g data (0%Z, 0%Z)); reflexivity);
       apply desc_eqb_refl.
  - cbn [desc_eqb]. apply same_setb_spec. intros x. rewrite set_intention_In, in_concat. split.
    + intros [g [Hg Hx]]. exists (nth g data []). split; [apply in_map_iff; exists g; tauto | exact Hx].
    + intros [l [Hl Hx]]. apply in_map_iff in Hl. destruct Hl as [g [E Hg]]. subst l. exists g. tauto.
  - apply desc_eqb_refl.
Qed.

Lemma intention_descs_ok K E :
  descs_eqb (map snd (mv_intention_i K E)) (mv_int_spec (mv_cols K) E) = true.
Proof.
  unfold mv_intention_i. rewrite map_snd_combine by (rewrite seq_length, map_length; reflexivity).
  unfold descs_eqb. destruct E as [|g0 rest]; cbn [mv_int_spec].
  - apply list_eqb_map2. intros c _. rewrite empty_convention_pinned. apply desc_eqb_refl.
  - apply list_eqb_map2. intros c _. apply desc_int_spec. discriminate.
Qed.

(* the extension of any well-formed description dictionary is closed (when not empty) *)
Lemma ddict_ext_closed K ds :
  ddict_ok K ds -> mv_extension_i K ds None <> [] ->
  mv_cl K (mv_extension_i K ds None) = mv_extension_i K ds None.
Proof.
  intros Hok Hne. set (E := mv_extension_i K ds None) in *.
  assert (HE : E = filter (covers_ddict K ds) (seq 0 (mv_n K))).
  { unfold E. rewrite extension_conjunctive by (exact Hok || exact Logic.I). reflexivity. }
  assert (HrE : in_range (mv_n K) E).
  { intros g Hg. rewrite HE in Hg. apply filter_In in Hg. destruct Hg as [Hg _]. apply in_seq in Hg. lia. }
  rewrite HE at 2. unfold mv_cl. rewrite extension_conjunctive by (apply intention_i_ok || exact Logic.I).
  cbn [default]. apply filter_ext_in'. intros g Hg. apply in_seq in Hg.
  apply bool_eq_iff. split; intros H.
  - unfold covers_ddict. apply forallb_forall. intros [i d] Hid. cbn [fst snd].
    unfold ddict_ok in Hok. rewrite Forall_forall in Hok. destruct (Hok _ Hid) as [Hi Hm]. cbn [fst snd] in *.
    apply (intention_least (mv_col K i) E d g Hne Hm).
    + intros a Ha. rewrite HE in Ha. apply filter_In in Ha. destruct Ha as [_ Ha].
      unfold covers_ddict in Ha. rewrite forallb_forall in Ha. apply (Ha (i, d) Hid).
    + unfold covers_ddict in H. rewrite forallb_forall in H.
      apply (H (i, ps_intention (mv_col K i) E)). apply intention_i_In. split; [exact Hi | reflexivity].
  - assert (X : In g (mv_cl K E)).
    { apply closure_extensive; [exact HrE|]. rewrite HE. apply filter_In. split; [apply in_seq; lia | exact H]. }
    unfold mv_cl in X. rewrite extension_conjunctive in X by (apply intention_i_ok || exact Logic.I).
    apply filter_In in X. tauto.
Qed.

Lemma conv_closure_closed K : mv_cl K [] <> [] -> mv_cl K (mv_cl K []) = mv_cl K [].
Proof. intros H. unfold mv_cl at 2 3. apply ddict_ext_closed; [apply intention_i_ok | exact H]. Qed.

(* every structure has a binary attribute that is at least as specific as the convention for
   the empty set *)
Lemma conv_attr c :
  exists d e, In (d, e) (ps_bin_attrs c) /\
              forall v, covers d v = true -> covers (empty_convention c) v = true.
Proof.
  destruct c as [data|data|data|data]; cbn [ps_bin_attrs empty_convention].
  - exists (DIv None), (map (fun _ => false) data). split.
    + apply (in_map (fun p => (DIv (fst p), snd p)) _ (None, map (fun _ => false) data)).
      unfold ivl_bin_attrs. cbn [app]. right. apply in_or_app. right. apply in_or_app. right. left. reflexivity.
    + intros v H. destruct v; discriminate H.
  - exists (DIv None), (map (fun _ => false) data). split.
    + apply (in_map (fun p => (DIv (fst p), snd p)) _ (None, map (fun _ => false) data)).
      unfold ivn_bin_attrs. cbn [app]. right. apply in_or_app. right. apply in_or_app. right. left. reflexivity.
    + intros v H. destruct v; discriminate H.
  - exists (DSet (Some [])), (map (fun row => set_test [] row) data). split.
    + apply (in_map (fun p => (DSet (fst p), snd p)) _ (Some [], map (fun row => set_test [] row) data)).
      unfold set_bin_attrs. apply in_flat_map. exists 0. split.
      * apply in_rev. rewrite rev_involutive. apply in_seq. lia.
      * apply (in_map (fun comb => (Some comb, map (fun row => set_test comb row) data))).
        destruct (set_uniq_vals data); left; reflexivity.
    + intros v H. exact H.
  - exists (DAttr true), data. split; [left; reflexivity|]. intros v H. destruct v; try discriminate H. reflexivity.
Qed.

Section Lattice.
Variable K : mvctx.
Hypothesis Hwf : mv_wf K.
Hypothesis Hn : mv_n K <> 0.
Hypothesis Hc : mv_cols K <> [].
Local Notation t := (mv_binarize K).

Lemma forallb_id_nth (r : list bool) :
  forallb (fun x => x) r = forallb (fun m => nth m r false) (seq 0 (length r)).
Proof.
  rewrite <- (forallb_map (fun m => nth m r false) (fun x => x)).
  rewrite <- (map_as_nth_seq (fun x : bool => x) r false). rewrite map_id. reflexivity.
Qed.

Lemma bin_bottom_spec : bin_bottom K = cl_obj t [].
Proof.
  unfold bin_bottom, cl_obj, ext, ext_spec, all_objs. rewrite mv_binarize_height.
  apply filter_ext_in'. intros g Hg. apply in_seq in Hg.
  assert (Hint : int t [] = seq 0 (width t)).
  { unfold int, int_spec, all_attrs. cbn [forallb]. apply filter_true_all. }
  rewrite Hint. rewrite forallb_id_nth. fold (row t g).
  assert (Hlen : length (row t g) = width t).
  { pose proof (mv_binarize_wf K) as W. unfold wf in W. rewrite Forall_forall in W. apply W.
    apply nth_In. fold (height (mv_binarize K)). rewrite mv_binarize_height. lia. }
  rewrite Hlen. reflexivity.
Qed.

Lemma bottom_below_conv : incl (cl_obj t []) (mv_cl K []).
Proof.
  intros g Hg. unfold cl_obj in Hg. apply ext_In in Hg. destruct Hg as [Hgn Hall].
  rewrite mv_binarize_height in Hgn.
  assert (Hint : int t [] = seq 0 (width t)).
  { unfold int, int_spec, all_attrs. cbn [forallb]. apply filter_true_all. }
  rewrite Hint in Hall.
  apply mv_cl_In. split; [exact Hgn|]. intros i Hi. rewrite empty_convention_pinned.
  destruct (conv_attr (mv_col K i)) as [d [e [Hin Himp]]]. apply Himp.
  assert (Hin' : In (d, e) (mv_bin_attrs K)) by (apply mv_bin_attrs_In; exists i; tauto).
  destruct (In_nth _ _ bin_dflt Hin') as [m [Hm E]].
  specialize (Hall m). unfold I in Hall.
  rewrite mv_binarize_cell in Hall by assumption. rewrite E in Hall. cbn [snd] in Hall.
  rewrite <- (bin_attr_bit (mv_col K i) d e g Hin) by (rewrite mv_col_len by assumption; exact Hgn).
  apply Hall. apply in_seq. rewrite mv_binarize_width by exact Hn. lia.
Qed.

Lemma sublist_in_range (X : list nat) : In X (sublists (seq 0 (mv_n K))) -> in_range (mv_n K) X.
Proof. intros H x Hx. apply In_sublists in H. apply H in Hx. apply in_seq in Hx. lia. Qed.

Lemma filter_seq_sublist (p : nat -> bool) : In (filter p (seq 0 (mv_n K))) (sublists (seq 0 (mv_n K))).
Proof. apply filter_In_sublists. Qed.

Lemma mv_cl_is_filter A : exists p, mv_cl K A = filter p (seq 0 (mv_n K)).
Proof.
  unfold mv_cl. rewrite extension_conjunctive by (apply intention_i_ok || exact Logic.I).
  eexists. reflexivity.
Qed.

Lemma cl_obj_in_spec X :
  in_range (mv_n K) X -> In (cl_obj t X) (extents_spec t).
Proof.
  intros Hr. apply extents_spec_complete. exists (int t X). split; [apply int_in_range | reflexivity].
Qed.

(* under guard_D17 the closed sets of the binarised table are the closed sets of the spec *)
Lemma extents_agree :
  guard_D17 K = true ->
  forall E, In E (extents_spec t) <-> In E (mv_extents_spec (mv_cols K) (mv_n K)).
Proof.
  intros Hg E. unfold mv_extents_spec. rewrite nodup_lists_In, in_map_iff.
  unfold extents_spec. rewrite nodup_lists_In, in_map_iff. unfold all_objs.
  rewrite mv_binarize_height.
  assert (Hguard : cl_obj t [] = [] -> mv_cl K [] = []).
  { intros Hb. destruct (mv_cl K []) as [|s0 S0] eqn:Es; [reflexivity|]. exfalso.
    unfold guard_D17 in Hg. rewrite bin_bottom_spec, Hb, Es in Hg. cbn [is_nil andb negb] in Hg. discriminate Hg. }
  split.
  - intros [X [EX HX]]. subst E. destruct X as [|x X'].
    + destruct (cl_obj t []) as [|b B] eqn:Eb.
      * exists []. split; [|exact HX]. rewrite <- model_closure_is_spec. apply Hguard. reflexivity.
      * exists (cl_obj t []). split.
        -- rewrite <- model_closure_is_spec. rewrite <- binarise_same_closure.
           ++ rewrite cl_obj_idempotent; [rewrite Eb; reflexivity|]. intros y [].
           ++ exact Hwf.
           ++ rewrite Eb. discriminate.
           ++ intros y Hy. unfold cl_obj in Hy. apply ext_In in Hy.
              rewrite mv_binarize_height in Hy. tauto.
        -- unfold cl_obj, ext, ext_spec, all_objs. rewrite mv_binarize_height. apply filter_seq_sublist.
    + exists (x :: X'). split; [|exact HX].
      rewrite <- model_closure_is_spec. symmetry. apply binarise_same_closure;
        [exact Hwf | discriminate | apply sublist_in_range; exact HX].
  - intros [X [EX HX]]. subst E. rewrite <- model_closure_is_spec. destruct X as [|x X'].
    + destruct (mv_cl K []) as [|s S] eqn:Es.
      * exists []. split; [|exact HX].
        destruct (cl_obj t []) as [|b B] eqn:Eb; [reflexivity|].
        assert (In b (mv_cl K [])) by (apply bottom_below_conv; rewrite Eb; left; reflexivity).
        rewrite Es in H. destruct H.
      * exists (mv_cl K []). split.
        -- rewrite binarise_same_closure.
           ++ rewrite conv_closure_closed; [exact Es | rewrite Es; discriminate].
           ++ exact Hwf.
           ++ rewrite Es. discriminate.
           ++ apply mv_cl_in_range.
        -- destruct (mv_cl_is_filter []) as [p Hp]. rewrite Hp. apply filter_seq_sublist.
    + exists (x :: X'). split; [|exact HX].
      apply binarise_same_closure; [exact Hwf | discriminate | apply sublist_in_range; exact HX].
Qed.

(* what from_objects makes of an extent of the binarised table *)
Lemma from_objects_extent E :
  guard_D17 K = true -> In E (extents_spec t) ->
  pc_ext (pc_from_objects K E false) = E.
Proof.
  intros Hg HE. cbn [pc_from_objects pc_ext]. fold (mv_cl K E).
  pose proof (proj1 (extents_agree Hg E) HE) as HE'.
  unfold mv_extents_spec in HE'. rewrite nodup_lists_In, in_map_iff in HE'.
  destruct HE' as [X [EX HX]]. rewrite <- model_closure_is_spec in EX.
  destruct E as [|e E'].
  - (* the empty extent: the bottom of the binarised table is empty, so is the conventional closure *)
    assert (Hb : cl_obj t [] = []).
    { destruct (cl_obj t []) as [|b B] eqn:Eb; [reflexivity|].
      assert (X0 : In b (cl_obj t [])) by (rewrite Eb; left; reflexivity).
      apply extents_spec_complete in HE. destruct HE as [B0 [Hr0 EB]].
      assert (Hb0 : In b (ext t B0)).
      { unfold cl_obj in X0. revert X0. apply ext_antitone. intros m Hm. apply int_In.
        split; [apply Hr0; exact Hm | intros g' []]. }
      rewrite <- EB in Hb0. destruct Hb0. }
    destruct (mv_cl K []) as [|s0 S0] eqn:Es; [reflexivity|]. exfalso.
    unfold guard_D17 in Hg. rewrite bin_bottom_spec, Hb, Es in Hg. cbn [is_nil andb negb] in Hg. discriminate Hg.
  - rewrite <- EX. destruct X as [|x X'].
    + rewrite conv_closure_closed; [reflexivity | rewrite EX; discriminate].
    + apply closure_idempotent; [discriminate | apply sublist_in_range; exact HX].
Qed.

End Lattice.

Lemma same_set_filters (p q : nat -> bool) n :
  same_set (filter p (seq 0 n)) (filter q (seq 0 n)) -> filter p (seq 0 n) = filter q (seq 0 n).
Proof.
  intros H. apply filter_ext_in'. intros x Hx. apply bool_eq_iff. split; intros Hp.
  - assert (X : In x (filter p (seq 0 n))) by (apply filter_In; tauto). apply H in X. apply filter_In in X. tauto.
  - assert (X : In x (filter q (seq 0 n))) by (apply filter_In; tauto). apply H in X. apply filter_In in X. tauto.
Qed.

Lemma no_dup_extent_of_NoDup n (cs : list pconcept) :
  NoDup (map pc_ext cs) ->
  (forall c, In c cs -> exists p, pc_ext c = filter p (seq 0 n)) ->
  has_dup_extent cs = false.
Proof.
  induction cs as [|c cs IH]; intros Hnd Hcan; [reflexivity|].
  cbn [map] in Hnd. inversion Hnd; subst. cbn [has_dup_extent].
  rewrite IH; [|assumption | intros c' Hc'; apply Hcan; right; exact Hc'].
  rewrite orb_false_r. apply not_true_is_false. intros Hex. apply existsb_exists in Hex.
  destruct Hex as [c' [Hc' Hs]]. apply same_setb_spec in Hs.
  destruct (Hcan c (or_introl eq_refl)) as [p Hp]. destruct (Hcan c' (or_intror Hc')) as [q Hq].
  rewrite Hp, Hq in Hs. apply same_set_filters in Hs. apply H1. rewrite Hp, Hs, <- Hq.
  apply in_map. exact Hc'.
Qed.

Theorem lattice_exact K thr :
  mv_wf K -> mv_n K <> 0 -> mv_cols K <> [] ->
  mv_n_bin_attrs K <= thr -> guard_D17 K = true ->
  exists cs, mv_from_context K thr = Some cs /\ mv_close_by_one K thr = cs /\ concept_list_exact K cs.
Proof.
  intros Hwf Hn Hc Hthr Hg.
  destruct (bin_extents_exact K Hwf Hn Hc) as [Hnd Hiff].
  set (cs := map (fun e => pc_from_objects K e false) (mv_bin_extents K)).
  assert (Hcbo : mv_close_by_one K thr = cs).
  { unfold mv_close_by_one. destruct (Nat.ltb_spec thr (mv_n_bin_attrs K)); [lia | reflexivity]. }
  assert (Hext : map pc_ext cs = mv_bin_extents K).
  { unfold cs. rewrite map_map. rewrite <- (map_id (mv_bin_extents K)) at 2. apply map_ext_in.
    intros e He. apply from_objects_extent; try assumption. apply Hiff. exact He. }
  assert (Hexact : concept_list_exact K cs).
  { split; [rewrite Hext; exact Hnd|]. split.
    - intros E. rewrite Hext, Hiff. apply extents_agree; assumption.
    - intros c Hin. unfold cs in Hin. apply in_map_iff in Hin. destruct Hin as [e [Ee He]].
      assert (Hpe : pc_ext c = e) by (subst c; apply from_objects_extent; try assumption; apply Hiff; exact He).
      rewrite Hpe. subst c. cbn [pc_from_objects pc_int]. apply intention_descs_ok. }
  exists cs. split; [|split; [exact Hcbo | exact Hexact]].
  unfold mv_from_context. rewrite Hcbo.
  rewrite (no_dup_extent_of_NoDup (mv_n K) cs); [reflexivity | rewrite Hext; exact Hnd |].
  intros c Hin. assert (X : In (pc_ext c) (mv_bin_extents K)) by (rewrite <- Hext; apply in_map; exact Hin).
  apply Hiff in X. apply extents_spec_complete in X. destruct X as [B [_ EB]].
  rewrite EB. unfold ext, ext_spec, all_objs. rewrite mv_binarize_height. eexists. reflexivity.
Qed.

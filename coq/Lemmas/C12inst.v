(* Lemmas/C12inst.v — the instance for lists of extents: a list of distinct duplicate-free
   extents (the concepts of one context, complete or not) gives a strict order, a compatible
   sort position and a compatible support, and AbstractConcept.__lt__ is strict inclusion. *)
From Coq Require Import Permutation.
From FCA Require Export Lemmas.C12tree Lemmas.C12cc.

Definition wf_exts (cs : list (list nat)) : Prop :=
  forall i, i < length cs -> NoDup (nth i cs []).

Lemma ext_lt_spec a b : NoDup a -> NoDup b ->
  (ext_lt a b = true <-> incl a b /\ length a < length b).
Proof.
  intros Ha Hb. unfold ext_lt. rewrite andb_true_iff, negb_true_iff, Nat.eqb_neq, subsetb_incl. split.
  - intros [H1 H2]. split; [exact H2|]. assert (X := NoDup_incl_length Ha H2). lia.
  - intros [H1 H2]. split; [lia | exact H1].
Qed.

Lemma ext_lt_incl_lt a b : NoDup a -> NoDup b ->
  ext_lt a b = (subsetb a b && negb (subsetb b a)).
Proof.
  intros Ha Hb. apply bool_eq_iff. rewrite (ext_lt_spec a b Ha Hb), andb_true_iff, negb_true_iff, subsetb_incl.
  split.
  - intros [H1 H2]. split; [exact H1|]. destruct (subsetb b a) eqn:E; [|reflexivity].
    apply subsetb_incl in E. assert (X := NoDup_incl_length Hb E). lia.
  - intros [H1 H2]. split; [exact H1|]. assert (X := NoDup_incl_length Ha H1).
    destruct (Nat.eq_dec (length a) (length b)) as [E|E]; [|lia]. exfalso.
    assert (Y : incl b a) by (apply (NoDup_length_incl Ha); [lia | exact H1]).
    apply subsetb_incl in Y. congruence.
Qed.

Lemma lex_lt_irrefl a : lex_lt a a = false.
Proof. induction a as [|x a IH]; simpl; [reflexivity|]. rewrite Nat.ltb_irrefl, Nat.eqb_refl, IH. reflexivity. Qed.

Lemma key_lt_irrefl a : key_lt a a = false.
Proof. unfold key_lt. rewrite Nat.ltb_irrefl, Nat.eqb_refl, lex_lt_irrefl. reflexivity. Qed.

Section Instance.
Variable cs : list (list nat).
Hypothesis Hwf : wf_exts cs.
Let n := length cs.
Let e (i : nat) := nth i cs [].

Lemma cs_lt_spec i j : i < n -> j < n -> (cs_lt cs i j = true <-> incl (e i) (e j) /\ length (e i) < length (e j)).
Proof. intros Hi Hj. unfold cs_lt. apply ext_lt_spec; apply Hwf; assumption. Qed.

Lemma cs_lt_incl_lt i j : i < n -> j < n -> cs_lt cs i j = incl_lt cs i j.
Proof. intros Hi Hj. unfold cs_lt, incl_lt. apply ext_lt_incl_lt; apply Hwf; assumption. Qed.

Theorem cs_strict_order : strict_order (cs_lt cs) n.
Proof.
  split.
  - intros i Hi. unfold cs_lt, ext_lt. rewrite Nat.eqb_refl. reflexivity.
  - intros i j k Hi Hj Hk. rewrite !cs_lt_spec by assumption. intros [A1 A2] [B1 B2].
    split; [intros x Hx; apply B1, A1, Hx | lia].
Qed.

Theorem cs_size_compat i j : i < n -> j < n -> cs_lt cs i j = true -> cs_size cs i < cs_size cs j.
Proof. intros Hi Hj H. apply (cs_lt_spec i j Hi Hj) in H. unfold cs_size. apply H. Qed.

(* sort position by the key of sort_concepts: a smaller concept comes strictly later *)
Theorem cs_rank_compat i j : i < n -> j < n -> cs_lt cs i j = true ->
  cs_rank cs false j < cs_rank cs false i.
Proof.
  intros Hi Hj H. apply (cs_lt_spec i j Hi Hj) in H. destruct H as [_ Hlen].
  unfold cs_rank. fold n. fold (e i). fold (e j).
  apply (filter_length_lt _ _ _ j).
  - intros k _ Hk. unfold key_lt in *. fold (e k) in *. apply orb_true_iff. left. apply Nat.ltb_lt.
    apply orb_true_iff in Hk. destruct Hk as [Hk|Hk].
    + apply Nat.ltb_lt in Hk. lia.
    + apply andb_true_iff in Hk. destruct Hk as [Hk _]. apply Nat.eqb_eq in Hk. lia.
  - apply in_seq. lia.
  - unfold key_lt. apply orb_true_iff. left. apply Nat.ltb_lt. exact Hlen.
  - apply key_lt_irrefl.
Qed.

Theorem cs_rank_zero t : is_top (cs_lt cs) n t -> forall c, c < n -> (cs_rank cs false c = 0 <-> c = t).
Proof.
  intros [Htn Htop] c Hc. unfold cs_rank. fold n. fold (e c). split.
  - intros H0. destruct (Nat.eq_dec c t) as [E|E]; [exact E|]. exfalso.
    assert (Hlt := Htop c Hc E). apply (cs_lt_spec c t Hc Htn) in Hlt. destruct Hlt as [_ Hlen].
    assert (X : In t (filter (fun j => key_lt (nth j cs []) (e c)) (seq 0 n))).
    { apply filter_In. split; [apply in_seq; lia|]. unfold key_lt. apply orb_true_iff. left. apply Nat.ltb_lt. exact Hlen. }
    destruct (filter (fun j => key_lt (nth j cs []) (e c)) (seq 0 n)); [contradiction | discriminate].
  - intros ->. destruct (filter (fun j => key_lt (nth j cs []) (e t)) (seq 0 n)) as [|k l] eqn:E; [reflexivity|]. exfalso.
    assert (X : In k (filter (fun j => key_lt (nth j cs []) (e t)) (seq 0 n))) by (rewrite E; left; reflexivity).
    apply filter_In in X. destruct X as [Hk Hkey]. apply in_seq in Hk. assert (Hkn : k < n) by lia.
    destruct (Nat.eq_dec k t) as [D|D]; [subst k; unfold e in Hkey; rewrite key_lt_irrefl in Hkey; discriminate|].
    assert (Hlt := Htop k Hkn D). apply (cs_lt_spec k t Hkn Htn) in Hlt. destruct Hlt as [_ Hlen].
    unfold key_lt in Hkey. fold (e k) in Hkey. apply orb_true_iff in Hkey. destruct Hkey as [Hk1|Hk1].
    + apply Nat.ltb_lt in Hk1. lia.
    + apply andb_true_iff in Hk1. destruct Hk1 as [Hk1 _]. apply Nat.eqb_eq in Hk1. lia.
Qed.

(* the cover relation of strict inclusion = the cover relation of the code's comparison *)
Lemma covers_incl_lt a : a < n -> lower_covers (incl_lt cs) n a = lower_covers (cs_lt cs) n a.
Proof.
  intros Ha. unfold lower_covers, is_lower_cover, between. apply filter_ext_in'. intros x Hx. apply in_seq in Hx.
  rewrite <- (cs_lt_incl_lt x a) by lia. f_equal. f_equal. apply existsb_ext_in. intros b Hb. apply in_seq in Hb.
  rewrite <- (cs_lt_incl_lt x b), <- (cs_lt_incl_lt b a) by lia. reflexivity.
Qed.

(* construct_lattice_by_spanning_tree on a list of extents, unsorted mode, any number of jobs *)
Theorem by_spanning_tree_extents t enum k :
  is_top (cs_lt cs) n t -> (forall l x, In x (enum l) <-> In x l) ->
  (match k with Some j => 1 <= j | None => True end) ->
  exists m, by_spanning_tree (cs_lt cs) (cs_rank cs false) n enum k = Done m /\
            forall y, y < n -> same_set (m y) (lower_covers (incl_lt cs) n y).
Proof.
  intros Ht Henum Hk.
  destruct (by_spanning_tree_covers (cs_lt cs) (cs_rank cs false) n t enum k cs_strict_order
              cs_rank_compat Ht (cs_rank_zero t Ht) Henum Hk) as [m [E H]].
  exists m. split; [exact E|]. intros y Hy. rewrite covers_incl_lt by exact Hy. apply H. exact Hy.
Qed.

(* the same with is_concepts_sorted=True: the code then uses the index as sort position, and the ONLY
   thing it needs from the listing is that it is topological (every concept after all its
   super-concepts) - not the particular order of sort_concepts *)
Theorem by_spanning_tree_extents_sorted t enum k :
  is_top (cs_lt cs) n t ->
  (forall i j, i < n -> j < n -> cs_lt cs i j = true -> j < i) ->
  (forall l x, In x (enum l) <-> In x l) ->
  (match k with Some j => 1 <= j | None => True end) ->
  exists m, by_spanning_tree (cs_lt cs) (cs_rank cs true) n enum k = Done m /\
            forall y, y < n -> same_set (m y) (lower_covers (incl_lt cs) n y).
Proof.
  intros Ht Htopo Henum Hk.
  assert (Ht0 : t = 0).
  { destruct Ht as [Htn Htop]. destruct (Nat.eq_dec t 0) as [E|E]; [exact E|]. exfalso.
    assert (H0 : 0 < n) by lia. assert (X := Htopo 0 t H0 Htn (Htop 0 H0 (fun H => E (eq_sym H)))). lia. }
  destruct (by_spanning_tree_covers (cs_lt cs) (cs_rank cs true) n t enum k cs_strict_order) as [m [E H]].
  - intros i j Hi Hj Hlt. simpl. apply Htopo; assumption.
  - exact Ht.
  - intros c Hc. simpl. rewrite Ht0. tauto.
  - exact Henum.
  - exact Hk.
  - exists m. split; [exact E|]. intros y Hy. rewrite covers_incl_lt by exact Hy. apply H. exact Hy.
Qed.

Theorem complete_comparison_extents_sorted a :
  (forall i j, i < n -> j < n -> cs_lt cs i j = true -> j < i) -> a < n ->
  complete_comparison (cs_lt cs) n true a = lower_covers (incl_lt cs) n a.
Proof.
  intros Htopo Ha. rewrite covers_incl_lt by exact Ha.
  apply (complete_comparison_sorted (cs_lt cs) n cs_strict_order a Htopo Ha).
Qed.

Theorem complete_comparison_extents a : a < n ->
  complete_comparison (cs_lt cs) n false a = lower_covers (incl_lt cs) n a.
Proof.
  intros Ha. rewrite covers_incl_lt by exact Ha.
  apply (complete_comparison_covers (cs_lt cs) n cs_strict_order a Ha).
Qed.
End Instance.

(* Lemmas/C02.v — C02 basics: the context-level derivation operators used by the miners are
   the spec operators (via the C01 theorems), FormalConcept.from_objects closes an object set,
   the name views of every constructed concept are the images of its index views, and the
   executable "exactly all concepts" check of Corr/C02.v is equivalent to being a duplicate-free
   listing of [concepts_spec]. *)
From FCA Require Import Base.ListSet Model.BinTable Model.FormalContext Model.ConceptConstruction
     Spec.Galois Spec.Closure Lemmas.BitRow Lemmas.C01.

(* ------------------------------------------------------------ derivation operators *)

Lemma K_int_spec K A :
  wf (k_table K) -> in_range (k_n K) A -> K_int K A = int (k_table K) A.
Proof.
  intros Hwf HA. unfold K_int. rewrite intention_i_correct; [reflexivity | exact Hwf | exact HA | exact Logic.I].
Qed.

Lemma K_ext_spec K B :
  wf (k_table K) -> in_range (k_w K) B -> K_ext K B None = ext (k_table K) B.
Proof.
  intros Hwf HB. unfold K_ext. rewrite extension_i_correct; [reflexivity | exact Hwf | exact HB | exact Logic.I].
Qed.

Lemma K_ext_base_spec K B base :
  wf (k_table K) -> in_range (k_w K) B -> in_range (k_n K) base ->
  K_ext K B (Some base) = ext_spec (k_table K) B base.
Proof.
  intros Hwf HB Hb. unfold K_ext. rewrite extension_i_correct; [reflexivity | exact Hwf | exact HB | exact Hb].
Qed.

(* ------------------------------------------------------------ from_objects *)

Definition concept_of (K : context) (A B : list nat) : fconcept :=
  mkC A (map (oname_of K) A) B (map (aname_of K) B).

Theorem from_objects_closes K A :
  wf (k_table K) -> in_range (k_n K) A ->
  from_objects K A false = concept_of K (cl_obj (k_table K) A) (int (k_table K) A).
Proof.
  intros Hwf HA. unfold from_objects, concept_of.
  rewrite K_int_spec by assumption.
  rewrite K_ext_spec by (try assumption; apply int_in_range).
  reflexivity.
Qed.

Theorem from_objects_extent K A :
  wf (k_table K) -> in_range (k_n K) A ->
  from_objects K A true = concept_of K A (int (k_table K) A).
Proof.
  intros Hwf HA. unfold from_objects, concept_of. rewrite K_int_spec by assumption. reflexivity.
Qed.

Corollary from_objects_is_concept K A :
  wf (k_table K) -> in_range (k_n K) A ->
  is_concept (k_table K) (c_ext_i (from_objects K A false)) (c_int_i (from_objects K A false)).
Proof.
  intros Hwf HA. rewrite from_objects_closes by assumption. simpl.
  apply closure_is_concept. exact HA.
Qed.

(* ------------------------------------------------------------ views *)

Definition views_agree (K : context) (c : fconcept) : Prop :=
  c_ext c = map (oname_of K) (c_ext_i c) /\ c_int c = map (aname_of K) (c_int_i c).

Lemma from_objects_views K A f : views_agree K (from_objects K A f).
Proof. unfold views_agree, from_objects. simpl. split; reflexivity. Qed.

Lemma concept_of_views K A B : views_agree K (concept_of K A B).
Proof. split; reflexivity. Qed.

Lemma from_objects_named_views K names f c :
  from_objects_named K names f = Some c -> views_agree K c.
Proof.
  unfold from_objects_named. destruct (names_to_first_idx (k_onames K) names); [|discriminate].
  intros E. inversion E. apply from_objects_views.
Qed.

(* ------------------------------------------------------------ the executable check *)

Lemma concept_in_range t A B : is_concept t A B -> in_range (height t) A /\ in_range (width t) B.
Proof. intros [HA HB]. subst A. split; [apply ext_in_range | rewrite HB; apply int_in_range]. Qed.

(* a list of pairs is "every concept exactly once and nothing else" *)
Definition lists_all_concepts (t : table) (ps : list (list nat * list nat)) : Prop :=
  NoDup ps /\ forall A B, In (A, B) ps <-> In (A, B) (concepts_spec t).

(* what Corr/C02.v evaluates, as a Prop *)
Definition check_all_concepts (t : table) (ps : list (list nat * list nat)) : Prop :=
  (forall p, In p ps -> is_concept t (fst p) (snd p)) /\ NoDup ps /\
  (forall S, In S (sublists (all_objs t)) -> In (cl_obj t S, int t S) ps).

Theorem check_all_concepts_spec t ps :
  check_all_concepts t ps <-> lists_all_concepts t ps.
Proof.
  split.
  - intros [Hc [Hnd Hall]]. split; [exact Hnd|]. intros A B. split.
    + intros H. apply concepts_spec_complete. specialize (Hc _ H). simpl in Hc.
      split; [exact Hc | apply (concept_in_range _ _ _ Hc)].
    + intros H. unfold concepts_spec in H. apply in_map_iff in H. destruct H as [A' [E H]].
      inversion E; subst. unfold extents_spec in H. apply (proj1 (nodup_lists_In _ _)) in H.
      apply in_map_iff in H. destruct H as [S [E' HS]]. subst A.
      specialize (Hall S HS).
      replace (int t (cl_obj t S)) with (int t S); [exact Hall|].
      unfold cl_obj. symmetry. apply int_ext_int. apply In_sublists in HS.
      intros x Hx. apply HS in Hx. apply in_seq in Hx. simpl in Hx. lia.
  - intros [Hnd Hiff]. split; [|split; [exact Hnd|]].
    + intros [A B] H. simpl. apply Hiff in H. apply concepts_spec_complete in H. tauto.
    + intros S HS. apply Hiff. apply concepts_spec_complete.
      assert (HR : in_range (height t) S).
      { apply In_sublists in HS. intros x Hx. apply HS in Hx. apply in_seq in Hx. simpl in Hx. lia. }
      split; [apply closure_is_concept; exact HR | apply int_in_range].
Qed.

(* Lemmas/C02_FromContextLattice.v — ConceptLattice.from_context end to end, every algorithm choice:
   the returned lattice lists exactly the concepts, each once, by non-increasing extent size with
   the top first and the bottom last, and its children / parents / descendants / ancestors are
   the lower / upper covers and the strict sub- / super-extents. *)
From Coq Require Import Sorting.Sorted Permutation.
From FCA Require Import Base.ListSet Base.Order Model.BinTable Model.FormalContext Model.ConceptConstruction
     Model.LatticeOrder Model.FromContextLattice Spec.Galois Spec.Closure Spec.LatticeOrderSpec
     Lemmas.C02 Lemmas.C02_Sofia Lemmas.C02_CbOModel Lemmas.C02_CloseByOne
     Lemmas.C02_Lindig Lemmas.C02_LindigComplete Lemmas.C02_FromContext
     Lemmas.C03 Lemmas.C03_lattice Lemmas.C03_closed Lemmas.C03_statements.
From FCA Require Import Lemmas.C02_LindigCovers Lemmas.C02_LindigDicts Lemmas.C02_FromContextLatticeBase.

(* ------------------------------------------------------------ covers in a complete listing *)

Lemma psubset_spec a b : psubset a b = true <-> incl a b /\ ~ incl b a.
Proof.
  unfold psubset. rewrite andb_true_iff, negb_true_iff, subsetb_incl. split; intros [H1 H2]; split; auto.
  - intros H. apply subsetb_incl in H. congruence.
  - destruct (subsetb b a) eqn:E; [|reflexivity]. apply subsetb_incl in E. contradiction.
Qed.

Lemma spec_children_In L x j :
  In j (spec_children L x) <->
  j < length L /\ psubset (set_at L j) (set_at L x) = true /\
  forall k, k < length L ->
    ~ (psubset (set_at L j) (set_at L k) = true /\ psubset (set_at L k) (set_at L x) = true).
Proof.
  unfold spec_children, n_sets. rewrite filter_In, in_seq, andb_true_iff, negb_true_iff. split.
  - intros [Hj [Hp He]]. split; [lia|]. split; [exact Hp|]. intros k Hk [H1 H2].
    assert (X : existsb (fun k0 => psubset (set_at L j) (set_at L k0) && psubset (set_at L k0) (set_at L x))
                        (seq 0 (length L)) = true).
    { apply existsb_exists. exists k. split; [apply in_seq; lia | rewrite H1, H2; reflexivity]. }
    congruence.
  - intros [Hj [Hp Hn]]. split; [lia|]. split; [exact Hp|].
    destruct (existsb _ (seq 0 (length L))) eqn:E; [|reflexivity]. exfalso.
    apply existsb_exists in E. destruct E as [k [Hk Hb]]. apply in_seq in Hk. apply andb_true_iff in Hb.
    apply (Hn k); [lia | exact Hb].
Qed.

Section CoverSpec.
Variable sd : lindig_side.
Variable L : list (list nat).
Hypothesis Hlisted : forall i, i < length L -> closedc sd (set_at L i).
Hypothesis Hall : forall C, closedc sd C -> exists k, k < length L /\ set_at L k = C.

Lemma cover_spec j x : j < length L -> x < length L ->
  (is_cover sd (set_at L j) (set_at L x) <-> In j (spec_children L x)).
Proof.
  intros Hj Hx. rewrite spec_children_In. split.
  - intros [Hc [Hi [Hn Hb]]]. split; [exact Hj|]. split; [apply psubset_spec; auto|].
    intros k Hk [H1 H2]. apply psubset_spec in H1. apply psubset_spec in H2.
    destruct (Hb (set_at L k) (Hlisted k Hk) (proj1 H1) (proj1 H2)) as [H|H]; tauto.
  - intros [_ [Hp Hn]]. apply psubset_spec in Hp. destruct Hp as [Hi Hni].
    split; [apply Hlisted; exact Hx|]. split; [exact Hi|]. split; [exact Hni|].
    intros C HC HjC HCx. destruct (Hall C HC) as [k [Hk <-]].
    destruct (subsetb (set_at L k) (set_at L j)) eqn:E1; [left; apply subsetb_incl; exact E1|].
    destruct (subsetb (set_at L x) (set_at L k)) eqn:E2; [right; apply subsetb_incl; exact E2|].
    exfalso. apply (Hn k Hk). split; apply psubset_spec; split; try assumption.
    + intros H. apply subsetb_incl in H. congruence.
    + intros H. apply subsetb_incl in H. congruence.
Qed.
End CoverSpec.

(* an order-reversing correspondence between two listings turns children into parents *)
Lemma children_dual (E I : list (list nat)) i j :
  length E = length I ->
  (forall a b, a < length E -> b < length E ->
     subsetb (set_at E a) (set_at E b) = subsetb (set_at I b) (set_at I a)) ->
  i < length E -> j < length E ->
  (In j (spec_children E i) <-> In i (spec_children I j)).
Proof.
  intros Hlen Hrev Hi Hj.
  assert (Hps : forall a b, a < length E -> b < length E ->
            psubset (set_at E a) (set_at E b) = psubset (set_at I b) (set_at I a)).
  { intros a b Ha Hb. unfold psubset. rewrite (Hrev a b Ha Hb), (Hrev b a Hb Ha). reflexivity. }
  rewrite !spec_children_In, <- Hlen. split.
  - intros [_ [Hp Hn]]. split; [exact Hi|]. split; [rewrite <- Hps by assumption; exact Hp|].
    intros k Hk [H1 H2]. apply (Hn k Hk). rewrite !Hps by assumption. tauto.
  - intros [_ [Hp Hn]]. split; [exact Hj|]. split; [rewrite Hps by assumption; exact Hp|].
    intros k Hk [H1 H2]. apply (Hn k Hk). rewrite <- !Hps by assumption. tauto.
Qed.

(* ------------------------------------------------------------ the dictionaries hold the covers *)

Lemma set_at_extents cs i : set_at (extents cs) i = ext_at cs i.
Proof. unfold set_at, extents, ext_at. exact (map_nth c_ext_i cs cdflt i). Qed.

Section SideDicts.
Variable sd : lindig_side.
Variable ord : list nat -> list nat.
Variable pick : list fconcept -> nat.
Hypothesis Hs : side_hyps sd.
Hypothesis Hc : closure_hyps sd.
Hypothesis Hperm : forall l, Permutation (ord l) l.
Hypothesis Hpick : forall q, q <> [] -> pick q < length q.

Let c0 := side_concept sd (s_ext sd (seq 0 (s_w sd))) (seq 0 (s_w sd)).

Lemma side_good_closedc c : side_good sd c -> closedc sd (c_ext_i c).
Proof.
  intros [[_ Hcan] [He [Hi _]]]. split; [exact Hcan|]. unfold cl. rewrite <- Hi. symmetry. exact He.
Qed.

Theorem lindig_dicts_side :
  exists cs ch pa,
    lindig_loop_d (2 ^ s_n sd + 1) sd ord pick [c0] [c0] [(0, [])] [] = Some (cs, ch, pa) /\
    lindig_loop (2 ^ s_n sd + 1) sd ord pick [c0] [c0] = Some cs /\
    Forall (side_good sd) cs /\ NoDup (extents cs) /\
    NoDup (map fst ch) /\ NoDup (map fst pa) /\
    (forall i, In i (map fst ch) <-> i < length cs) /\
    (forall i, In i (map fst pa) <-> i < length cs) /\
    (forall i j, i < length cs -> (In j (get ch i) <-> In j (spec_children (extents cs) i))) /\
    (forall j i, j < length cs ->
       (In i (get pa j) <-> i < length cs /\ In j (spec_children (extents cs) i))).
Proof.
  assert (Hord : forall l, incl (ord l) l).
  { intros l x Hx. eapply Permutation_in; [apply Hperm | exact Hx]. }
  destruct (lindig_run_complete sd ord pick Hs Hc Hperm Hpick) as [cs [El [Hg [Hnd Hall]]]].
  cbv zeta in El. fold c0 in El.
  destruct Hs as [H1 [H2 [H3 [H4 H5]]]]. destruct Hc as [Hx Hm].
  pose proof (loop_d_proj sd ord pick (2 ^ s_n sd + 1) [c0] [c0] [(0, [])] []) as Hproj.
  rewrite El in Hproj.
  destruct (lindig_loop_d (2 ^ s_n sd + 1) sd ord pick [c0] [c0] [(0, [])] []) as [[[cs' ch] pa]|] eqn:Ed;
    [|discriminate].
  simpl in Hproj. inversion Hproj; subst cs'. clear Hproj.
  assert (Hbot : side_good sd c0).
  { unfold c0. rewrite H5. apply (side_concept_good sd H1 H2 H3 H4). intros x []. }
  pose proof (lindig_loop_d_inv sd ord pick Hord H1 H2 H3 H4 Hpick _ _ _ _ _ _ _ _ (DInv_init sd ord c0 Hbot) Ed)
    as [_ _ _ _ _ _ Kch Kpa KEch KEpa Dch Dpa].
  assert (Hdone : forall j, done cs [] j <-> j < length cs).
  { intros j. unfold done. simpl. tauto. }
  assert (Hlisted : forall i, i < length (extents cs) -> closedc sd (set_at (extents cs) i)).
  { intros i Hi. rewrite set_at_extents. unfold ext_at. apply side_good_closedc.
    rewrite Forall_forall in Hg. apply Hg. apply nth_In. unfold extents in Hi. rewrite map_length in Hi. exact Hi. }
  assert (HallL : forall C, closedc sd C -> exists k, k < length (extents cs) /\ set_at (extents cs) k = C).
  { intros C [HCc HCcl]. specialize (Hall C HCc HCcl). fold (extents cs) in Hall.
    apply In_extents_nth in Hall. destruct Hall as [k [Hk Ek]]. exists k.
    split; [unfold extents; rewrite map_length; exact Hk | rewrite set_at_extents; exact Ek]. }
  assert (Hlen : length (extents cs) = length cs) by (unfold extents; apply map_length).
  assert (Hnbr : forall j i, j < length cs -> i < length cs ->
            (nbr sd ord cs j i <-> In j (spec_children (extents cs) i))).
  { intros j i Hj Hi.
    rewrite <- (cover_spec sd (extents cs) Hlisted HallL j i) by (rewrite Hlen; assumption).
    rewrite !set_at_extents. unfold nbr.
    assert (Hcj : closedc sd (c_ext_i (nth j cs cdflt))).
    { apply side_good_closedc. rewrite Forall_forall in Hg. apply Hg. apply nth_In. exact Hj. }
    rewrite <- (dsc_exact sd ord Hperm H1 H3 H4 Hx Hm (nth j cs cdflt) (ext_at cs i) Hcj).
    unfold extents. rewrite in_map_iff. split; intros [x [A B]]; exists x; auto. }
  exists cs, ch, pa. split; [reflexivity|]. split; [exact El|]. split; [exact Hg|]. split; [exact Hnd|].
  split; [exact Kch|]. split; [exact Kpa|].
  split; [intros i; rewrite <- has_key_In; apply KEch|].
  split; [intros i; rewrite <- has_key_In, KEpa; apply Hdone|].
  split.
  - intros i j Hi. rewrite Dch, Hdone. split.
    + intros [Hj [_ Hn]]. apply Hnbr; assumption.
    + intros Hin. assert (Hj : j < length cs).
      { apply spec_children_In in Hin. rewrite Hlen in Hin. tauto. }
      split; [exact Hj|]. split; [exact Hi|]. apply Hnbr; assumption.
  - intros j i Hj. rewrite Dpa, Hdone. split.
    + intros [_ [Hi Hn]]. split; [exact Hi|]. apply Hnbr; assumption.
    + intros [Hi Hin]. split; [exact Hj|]. split; [exact Hi|]. apply Hnbr; assumption.
Qed.

End SideDicts.

(* ------------------------------------------------------------ from the cover dictionary to the lattice *)

Definition view_of (l : lindig_lattice) : lattice_view :=
  mkView (ll_concepts l) (get (ll_children l)) (get (ll_parents l))
         (get (ll_descendants l)) (get (ll_ancestors l)) (ll_top l) (ll_bottom l).

Lemma view_from_dict t (pre : list concept) (dict : assoc) (cord : list nat -> list nat) :
  lists_all_concepts t pre -> NoDup (map fst dict) ->
  (forall i, In i (map fst dict) <-> i < length pre) ->
  (forall i, i < length pre -> forall y, In y (get dict i) <-> In y (spec_children (map fst pre) i)) ->
  (forall l, Permutation (cord l) l) ->
  exists k l, lindig_resorted cord k pre dict = LOk l /\ lattice_ok t (view_of l).
Proof.
  intros Hall Hk Hkeys Hvals Hcord. pose proof (lists_all_full t pre Hall) as Hfull.
  assert (Hidx : forall x, In x (idxs pre) <-> x < length pre).
  { intros x. unfold idxs. rewrite in_seq. lia. }
  assert (Hk1 : forall x, In x (idxs pre) <-> In x (map fst dict)) by (intros x; rewrite Hidx, Hkeys; tauto).
  assert (Hv1 : forall x, In x (idxs pre) -> forall y, In y (get dict x) <-> In y (spec_children (map fst pre) x)).
  { intros x Hx. apply Hvals. apply Hidx. exact Hx. }
  destruct (C03_lindig_path_total_proof t pre dict cord (proj1 Hfull) Hk Hk1 Hv1 Hcord) as [k [l [El [Ecs Hrel]]]].
  exists k, l. split; [exact El|].
  assert (Hcord' : forall l0 x, In x (cord l0) <-> In x l0).
  { intros l0 x. split; intros H; [eapply Permutation_in; [apply Hcord | exact H]
                                  | eapply Permutation_in; [apply Permutation_sym, Hcord | exact H]]. }
  destruct (C03_lindig_top_bottom_proof t pre dict cord k l Hfull Hk Hk1 Hv1 Hcord' El) as [Htop Hbot].
  destruct (C03_listing_proof t pre Hfull) as [Hf [Hs [_ [Het [_ Heb]]]]].
  assert (Hlen : length (sort_concepts pre) = length pre).
  { symmetry. apply Permutation_length. apply (proj2 (C03_sizes_sorted_proof pre)). }
  unfold lattice_ok, view_of. cbn [lv_concepts lv_children lv_parents lv_descendants lv_ancestors lv_top lv_bottom].
  rewrite Ecs. split; [apply full_lists; exact Hf|]. split; [exact Hs|]. split; [exact Htop|].
  split; [exact Het|]. split; [rewrite Hlen; exact Hbot|]. split; [exact Heb|].
  intros i Hi. rewrite Hlen in Hi. destruct (Hrel i Hi) as [R1 [R2 [R3 R4]]]. cbv zeta in *.
  split; [intros z; apply R3|]. split; [intros z; apply R4|]. split; [intros z; apply R1 | intros z; apply R2].
Qed.

(* ------------------------------------------------------------ Lindig's two directions *)

Lemma lindig_dicts_ok K ie ord pick :
  wf (k_table K) -> (forall l, Permutation (ord l) l) -> (forall q, q <> [] -> pick q < length q) ->
  exists concepts dict,
    lindig_dicts K ie ord pick = Some (concepts, dict) /\
    lists_all_concepts (k_table K) (map pair_c concepts) /\ NoDup (map fst dict) /\
    (forall i, In i (map fst dict) <-> i < length (map pair_c concepts)) /\
    (forall i, i < length (map pair_c concepts) ->
       forall y, In y (get dict i) <-> In y (spec_children (map fst (map pair_c concepts)) i)).
Proof.
  intros Hwf Hperm Hpick. set (t := k_table K).
  destruct (lindig_complete K ie ord pick Hwf Hperm Hpick) as [cs0 [Ew [Hall _]]].
  unfold lindig_with in Ew. unfold lindig_dicts.
  destruct ie.
  - destruct (lindig_dicts_side (side_of K true) ord pick (side_hyps_true K Hwf) (closure_hyps_true K Hwf)
                Hperm Hpick) as [cs [ch [pa [Ed [El [Hg [Hnd [Kch [_ [KEch [_ [Dch _]]]]]]]]]]]].
    cbv zeta. rewrite Ed. rewrite El in Ew. inversion Ew; subst cs0. clear Ew.
    exists cs, ch. split; [reflexivity|]. split; [exact Hall|]. split; [exact Kch|].
    rewrite map_length. split; [exact KEch|].
    intros i Hi y. rewrite map_map. cbn [fst pair_c]. apply Dch. exact Hi.
  - destruct (lindig_dicts_side (side_of K false) ord pick (side_hyps_false K Hwf) (closure_hyps_false K Hwf)
                Hperm Hpick) as [cs [ch [pa [Ed [El [Hg [Hnd [_ [Kpa [_ [KEpa [_ Dpa]]]]]]]]]]]].
    cbv zeta. rewrite Ed. rewrite El in Ew. inversion Ew; subst cs0. clear Ew.
    exists (map swap_concept cs), pa. split; [reflexivity|]. split; [exact Hall|]. split; [exact Kpa|].
    rewrite !map_length. split; [exact KEpa|].
    intros j Hj y. rewrite !map_map. cbn [fst pair_c swap_concept c_ext_i].
    rewrite (Dpa j y Hj).
    (* order reversal between the side's extents (attribute sets) and the real extents *)
    assert (Hlen : length (extents cs) = length (map c_int_i cs)) by (unfold extents; rewrite !map_length; reflexivity).
    assert (Hlen2 : length (extents cs) = length cs) by (unfold extents; apply map_length).
    assert (Hrev : forall a b, a < length (extents cs) -> b < length (extents cs) ->
              subsetb (set_at (extents cs) a) (set_at (extents cs) b)
              = subsetb (set_at (map c_int_i cs) b) (set_at (map c_int_i cs) a)).
    { intros a b Ha Hb. rewrite Hlen2 in Ha, Hb.
      assert (Ea : set_at (map c_int_i cs) a = c_int_i (nth a cs cdflt)) by (unfold set_at; exact (map_nth c_int_i cs cdflt a)).
      assert (Eb : set_at (map c_int_i cs) b = c_int_i (nth b cs cdflt)) by (unfold set_at; exact (map_nth c_int_i cs cdflt b)).
      rewrite !set_at_extents, Ea, Eb. unfold ext_at.
      rewrite Forall_forall in Hg.
      destruct (Hg (nth a cs cdflt) (nth_In cs cdflt Ha)) as [[Hra _] [Hea [Hia _]]].
      destruct (Hg (nth b cs cdflt) (nth_In cs cdflt Hb)) as [[Hrb _] [Heb [Hib _]]].
      cbn [side_of s_n s_w s_int s_ext] in *.
      set (A := c_ext_i (nth a cs cdflt)) in *. set (B := c_ext_i (nth b cs cdflt)) in *.
      set (IA := c_int_i (nth a cs cdflt)) in *. set (IB := c_int_i (nth b cs cdflt)) in *.
      assert (HIA : IA = ext t A) by (rewrite Hia; apply K_ext_spec; assumption).
      assert (HIB : IB = ext t B) by (rewrite Hib; apply K_ext_spec; assumption).
      assert (HA : A = int t IA).
      { rewrite Hea. apply K_int_spec; [exact Hwf|]. rewrite HIA. apply ext_in_range. }
      assert (HB : B = int t IB).
      { rewrite Heb. apply K_int_spec; [exact Hwf|]. rewrite HIB. apply ext_in_range. }
      apply bool_eq_iff. rewrite !subsetb_incl. split; intros H.
      - rewrite HIA, HIB. apply ext_antitone. exact H.
      - rewrite HA, HB. apply int_antitone. exact H. }
    split.
    + intros [Hy Hin]. apply (children_dual (extents cs) (map c_int_i cs) y j Hlen Hrev); try (rewrite Hlen2; assumption).
      exact Hin.
    + intros Hin. assert (Hy : y < length cs).
      { apply spec_children_In in Hin. rewrite map_length in Hin. tauto. }
      split; [exact Hy|].
      apply (children_dual (extents cs) (map c_int_i cs) y j Hlen Hrev); try (rewrite Hlen2; assumption).
      exact Hin.
Qed.

Theorem lindig_view_ok K ie ord pick cord :
  wf (k_table K) -> (forall l, Permutation (ord l) l) -> (forall q, q <> [] -> pick q < length q) ->
  (forall l, Permutation (cord l) l) ->
  exists k v, lindig_view K ie ord pick cord k = LView v /\ lattice_ok (k_table K) v.
Proof.
  intros Hwf Hperm Hpick Hcord.
  destruct (lindig_dicts_ok K ie ord pick Hwf Hperm Hpick) as [concepts [dict [Ed [Hall [Hk [Hkeys Hvals]]]]]].
  destruct (view_from_dict (k_table K) (map pair_c concepts) dict cord Hall Hk Hkeys Hvals Hcord) as [k [l [El Hok]]].
  exists k, (view_of l). split; [|exact Hok].
  unfold lindig_view. rewrite Ed, El. reflexivity.
Qed.

(* ------------------------------------------------------------ every algorithm choice *)

Theorem from_context_lattice_ok K algo ie lmax ord pick cord :
  wf (k_table K) -> 0 < k_w K ->
  algo <= 2 \/ length (concepts_spec (k_table K)) <= lmax ->
  (forall l, Permutation (ord l) l) -> (forall q, q <> [] -> pick q < length q) ->
  (forall l, Permutation (cord l) l) ->
  exists k v, from_context_lattice_with K algo ie lmax ord pick cord k = LView v /\
              lattice_ok (k_table K) v.
Proof.
  intros Hwf Hw Ha Hperm Hpick Hcord. destruct algo as [|[|[|a]]]; cbn [from_context_lattice_with].
  - apply lindig_view_ok; assumption.
  - exists 0, (lazy_view (close_by_one K)). split; [reflexivity|].
    apply lazy_view_ok. apply close_by_one_all_concepts; assumption.
  - apply lindig_view_ok; assumption.
  - destruct Ha as [Ha|Ha]; [lia|]. destruct (sofia_exact K lmax Hwf Ha) as [l [E [Hl _]]].
    exists 0, (lazy_view l). rewrite E. split; [reflexivity|]. apply lazy_view_ok. exact Hl.
Qed.

(* the executable instance *)
Corollary from_context_lattice_instance_ok K algo ie lmax :
  wf (k_table K) -> 0 < k_w K ->
  algo <= 2 \/ length (concepts_spec (k_table K)) <= lmax ->
  exists k v, from_context_lattice K algo ie lmax k = LView v /\ lattice_ok (k_table K) v.
Proof.
  intros Hwf Hw Ha. unfold from_context_lattice. apply from_context_lattice_ok; try assumption.
  - intros l. apply Permutation_refl.
  - intros q Hq. destruct q; [congruence | simpl; lia].
  - intros l. apply Permutation_refl.
Qed.

(* Lemmas/C03_statements.v -- the theorems of Props/C03.v that need a few lines of glue on top of
   the lemmas they come from, stated here in exactly the form Props/C03.v restates them. *)
From Coq Require Import Sorting.Sorted Permutation.
From FCA Require Import Base.ListSet Base.Order Model.LatticeOrder Spec.Closure Spec.LatticeOrderSpec
     Lemmas.C03 Lemmas.C03_lattice Lemmas.C03_corr Lemmas.C03_closed Lemmas.C03_chains Lemmas.C03_chains_total Lemmas.C03_lindig Corr.C03.

Lemma C03_nocache_children_are_covers_proof :
  forall (E : Type) (eqb leq : E -> E -> bool) (els : list E) (x : E) (order : list E),
  eqb_ok eqb -> partial_order_on leq els -> In x els ->
  incl (strict_down eqb leq els x) order ->
  sub_loop eqb (strict_down eqb leq els) order (strict_down eqb leq els x) = lower_covers eqb leq els x.
Proof. intros E eqb leq els x order He Hp. exact (sub_loop_covers E eqb leq He els Hp x order). Qed.

Lemma C03_nocache_parents_are_covers_proof :
  forall (E : Type) (eqb leq : E -> E -> bool) (els : list E) (x : E) (order : list E),
  eqb_ok eqb -> partial_order_on leq els -> In x els ->
  incl (strict_up eqb leq els x) order ->
  sub_loop eqb (strict_up eqb leq els) order (strict_up eqb leq els x) = upper_covers eqb leq els x.
Proof. intros E eqb leq els x order He Hp. exact (sub_loop_covers_up eqb leq He els Hp x order). Qed.

Lemma C03_below_some_cover_proof :
  forall (E : Type) (eqb leq : E -> E -> bool) (els : list E),
  eqb_ok eqb -> partial_order_on leq els ->
  forall x, In x els -> forall y, In y els -> slt eqb leq y x = true ->
  exists c, In c (lower_covers eqb leq els x) /\ leq y c = true.
Proof. intros E eqb leq els He Hp. exact (below_some_cover E eqb leq He els Hp). Qed.

Lemma C03_remap_preserves_proof :
  forall (E F : Type) (eqbE : E -> E -> bool) (eqbF : F -> F -> bool)
         (leqE : E -> E -> bool) (leqF : F -> F -> bool) (f : E -> F) (els : list E),
  (forall a b, In a els -> In b els -> leqF (f a) (f b) = leqE a b) ->
  (forall a b, In a els -> In b els -> eqbF (f a) (f b) = eqbE a b) ->
  forall x, In x els ->
  strict_down eqbF leqF (map f els) (f x) = map f (strict_down eqbE leqE els x) /\
  lower_covers eqbF leqF (map f els) (f x) = map f (lower_covers eqbE leqE els x).
Proof.
  intros E F eqbE eqbF leqE leqF f els H1 H2 x Hx. split.
  - exact (strict_down_map E F eqbE eqbF leqE leqF f els H1 H2 x Hx).
  - exact (lower_covers_map E F eqbE eqbF leqE leqF f els H1 H2 x Hx).
Qed.

Lemma C03_perm_invariance_proof :
  forall (E : Type) (eqb leq : E -> E -> bool) (els els' : list E) (x : E),
  Permutation els els' ->
  Permutation (strict_down eqb leq els x) (strict_down eqb leq els' x) /\
  Permutation (lower_covers eqb leq els x) (lower_covers eqb leq els' x).
Proof.
  intros E eqb leq els els' x H. split.
  - exact (strict_down_perm E eqb leq els els' x H).
  - exact (lower_covers_perm E eqb leq els els' x H).
Qed.

Lemma C03_lattice_order_is_inclusion_proof : forall t cs i,
  concept_list t cs -> i < length cs ->
  descendants_nocache cs i = spec_descendants (map fst cs) i /\
  ancestors_nocache cs i = spec_ancestors (map fst cs) i /\
  children_nocache cs i = spec_children (map fst cs) i /\
  parents_nocache cs i = spec_parents (map fst cs) i /\
  (forall j, leq_i cs i j = spec_leq (map fst cs) i j).
Proof.
  intros t cs i H Hi. repeat split.
  - exact (descendants_spec t cs H i Hi).
  - exact (ancestors_spec t cs H i Hi).
  - exact (children_spec t cs H i Hi).
  - exact (parents_spec t cs H i Hi).
  - intros j. exact (leq_spec t cs H i j Hi).
Qed.

Lemma C03_children_any_visiting_order_proof : forall t cs i order,
  concept_list t cs -> i < length cs ->
  incl (descendants_nocache cs i) order ->
  sub_loop Nat.eqb (descendants_nocache cs) order (descendants_nocache cs i) = spec_children (map fst cs) i.
Proof. intros t cs i order H Hi. exact (children_any_order t cs H i order Hi). Qed.

Lemma C03_parents_any_visiting_order_proof : forall t cs i order,
  concept_list t cs -> i < length cs ->
  incl (ancestors_nocache cs i) order ->
  sub_loop Nat.eqb (ancestors_nocache cs) order (ancestors_nocache cs i) = spec_parents (map fst cs) i.
Proof. intros t cs i order H Hi. exact (parents_any_order t cs H i order Hi). Qed.

Lemma C03_top_bottom_proof : forall t cs, full_lattice t cs ->
  (exists k, k < length cs /\ top_index cs = Some k /\ extent cs k = all_objs t) /\
  (exists k, k < length cs /\ bottom_index cs = Some k /\ extent cs k = ext t (all_attrs t)).
Proof. intros t cs H. split; [exact (top_exists t cs H) | exact (bottom_exists t cs H)]. Qed.

Lemma C03_sizes_sorted_proof : forall cs,
  StronglySorted by_support (sort_concepts cs) /\ Permutation cs (sort_concepts cs).
Proof. intros cs. split; [exact (sizes_sorted cs) | exact (sort_perm cs)]. Qed.

Lemma C03_listing_proof : forall t raw, full_lattice t raw ->
  let cs := sort_concepts raw in
  full_lattice t cs /\ StronglySorted by_support cs /\
  top_index cs = Some 0 /\ extent cs 0 = all_objs t /\
  bottom_index cs = Some (length cs - 1) /\ extent cs (length cs - 1) = ext t (all_attrs t).
Proof.
  intros t raw H cs. destruct (listing_full t raw H) as [HF HS].
  destruct (top_first t cs HF HS) as [T1 T2]. destruct (bottom_last t cs HF HS) as [B1 B2].
  split; [exact HF|]. split; [exact HS|]. split; [exact T1|]. split; [exact T2|]. split; [exact B1 | exact B2].
Qed.

Lemma C03_meet_is_intersection_proof : forall t cs Sq, full_lattice t cs ->
  Sq <> [] -> (forall s, In s Sq -> s < length cs) ->
  exists k, k < length cs /\ meet_nocache cs Sq = Some k /\
            extent cs k = inter_all (all_objs t) (map (extent cs) Sq).
Proof. intros t cs Sq H. exact (meet_is_intersection t cs H Sq). Qed.

Lemma C03_join_is_intent_intersection_proof : forall t cs Sq, full_lattice t cs ->
  Sq <> [] -> (forall s, In s Sq -> s < length cs) ->
  exists k, k < length cs /\ join_nocache cs Sq = Some k /\
            intent cs k = inter_all (all_attrs t) (map (intent cs) Sq).
Proof. intros t cs Sq H. exact (join_is_intent_intersection t cs H Sq). Qed.

Lemma C03_closed_by_direct_every_fuel_proof :
  forall (leq : nat -> nat -> bool) (els : list nat) (direct : assoc) (ord : list nat -> list nat) (k : nat),
  partial_order_on leq els -> NoDup (map fst direct) ->
  (forall x, In x els <-> In x (map fst direct)) ->
  (forall x, In x els -> forall y, In y (get direct x) <-> In y (lower_covers Nat.eqb leq els x)) ->
  (forall l x, In x (ord l) <-> In x l) ->
  match closed_relation ord k direct with
  | CDone a => (forall x, In x els ->
                exists v, lookup x a = Some v /\
                          forall y, In y v <-> In y (strict_down Nat.eqb leq els x)) /\
               NoDup (map fst a) /\ (forall x, In x (map fst a) -> In x els)
  | COutOfFuel => True
  | _ => False
  end.
Proof.
  intros leq els direct ord k PO Hn Hk Hc Ho.
  exact (closed_by_direct_partial leq els PO direct Hn Hk Hc ord Ho k).
Qed.

Lemma C03_closed_by_direct_correct_proof :
  forall (leq : nat -> nat -> bool) (els : list nat) (direct : assoc) (ord : list nat -> list nat),
  partial_order_on leq els -> NoDup els -> NoDup (map fst direct) ->
  (forall x, In x els <-> In x (map fst direct)) ->
  (forall x, In x els -> forall y, In y (get direct x) <-> In y (lower_covers Nat.eqb leq els x)) ->
  (forall l, Permutation (ord l) l) ->
  exists k a, closed_relation ord k direct = CDone a /\
    (forall x, In x els ->
       exists v, lookup x a = Some v /\
                 forall y, In y v <-> In y (strict_down Nat.eqb leq els x)) /\
    NoDup (map fst a) /\ (forall x, In x (map fst a) -> In x els).
Proof.
  intros leq els direct ord PO Hne Hn Hk Hc Hp.
  assert (Ho : forall l x, In x (ord l) <-> In x l).
  { intros l x. split; intros H; [eapply Permutation_in; [apply Hp | exact H] |
                                  eapply Permutation_in; [apply Permutation_sym, Hp | exact H]]. }
  exact (closed_by_direct_total leq els PO direct Hn Hk Hc ord Ho Hne Hp).
Qed.

Lemma C03_lindig_path_correct_proof :
  forall t pre (dict : assoc) (ord : list nat -> list nat) (k : nat),
  concept_list t pre -> NoDup (map fst dict) ->
  (forall x, In x (idxs pre) <-> In x (map fst dict)) ->
  (forall x, In x (idxs pre) ->
     forall y, In y (get dict x) <-> In y (spec_children (map fst pre) x)) ->
  (forall l x, In x (ord l) <-> In x l) ->
  match lindig_resorted ord k pre dict with
  | LOk l =>
      ll_concepts l = sort_concepts pre /\
      forall j, j < length pre ->
        let exts := map fst (sort_concepts pre) in
        (forall y, In y (get (ll_descendants l) j) <-> In y (spec_descendants exts j)) /\
        (forall y, In y (get (ll_ancestors l) j) <-> In y (spec_ancestors exts j)) /\
        (forall y, In y (get (ll_children l) j) <-> In y (spec_children exts j)) /\
        (forall y, In y (get (ll_parents l) j) <-> In y (spec_parents exts j))
  | LErr COutOfFuel => True
  | LErr _ => False
  end.
Proof.
  intros t pre dict ord k HL Hn Hk Hc Ho.
  apply (lindig_path_correct t pre HL dict Hn Hk); [|exact Ho].
  intros x Hx y. rewrite (Hc x Hx y). rewrite (lower_covers_spec t pre HL x); [reflexivity|].
  apply (In_idxs pre). exact Hx.
Qed.

Lemma C03_lindig_path_total_proof :
  forall t pre (dict : assoc) (ord : list nat -> list nat),
  concept_list t pre -> NoDup (map fst dict) ->
  (forall x, In x (idxs pre) <-> In x (map fst dict)) ->
  (forall x, In x (idxs pre) ->
     forall y, In y (get dict x) <-> In y (spec_children (map fst pre) x)) ->
  (forall l, Permutation (ord l) l) ->
  exists k l, lindig_resorted ord k pre dict = LOk l /\
    ll_concepts l = sort_concepts pre /\
    forall j, j < length pre ->
      let exts := map fst (sort_concepts pre) in
      (forall y, In y (get (ll_descendants l) j) <-> In y (spec_descendants exts j)) /\
      (forall y, In y (get (ll_ancestors l) j) <-> In y (spec_ancestors exts j)) /\
      (forall y, In y (get (ll_children l) j) <-> In y (spec_children exts j)) /\
      (forall y, In y (get (ll_parents l) j) <-> In y (spec_parents exts j)).
Proof.
  intros t pre dict ord HL Hn Hk Hc Hp.
  apply (lindig_path_total t pre HL dict ord Hn Hk); [|exact Hp].
  intros x Hx y. rewrite (Hc x Hx y). rewrite (lower_covers_spec t pre HL x); [reflexivity|].
  apply (In_idxs pre). exact Hx.
Qed.

Lemma C03_lindig_top_bottom_proof :
  forall t pre (dict : assoc) (ord : list nat -> list nat) (k : nat) l,
  full_lattice t pre -> NoDup (map fst dict) ->
  (forall x, In x (idxs pre) <-> In x (map fst dict)) ->
  (forall x, In x (idxs pre) ->
     forall y, In y (get dict x) <-> In y (spec_children (map fst pre) x)) ->
  (forall l x, In x (ord l) <-> In x l) ->
  lindig_resorted ord k pre dict = LOk l ->
  ll_top l = Some 0 /\ ll_bottom l = Some (length pre - 1).
Proof.
  intros t pre dict ord k l HF Hn Hk Hc Ho.
  apply (lindig_top_bottom t pre HF dict Hn Hk); [|exact Ho].
  intros x Hx y. rewrite (Hc x Hx y). rewrite (lower_covers_spec t pre (proj1 HF) x); [reflexivity|].
  apply (In_idxs pre). exact Hx.
Qed.

Lemma C03_chains_ok_proof : forall t cs, full_lattice t cs ->
  exists chains, get_chains_nocache cs = Some chains /\
  (forall ch, In ch chains ->
     ch <> [] /\ extent cs (hd 0 ch) = all_objs t /\ steps_down (parents_nocache cs) ch /\
     forall x, In x ch -> x < length cs) /\
  (forall i, i < length cs -> exists ch, In ch chains /\ In i ch).
Proof.
  intros t cs HF. destruct (chains_total t cs HF) as [chains H]. exists chains.
  split; [exact H|]. exact (chains_ok_partial t cs chains HF H).
Qed.

Lemma C03_hypotheses_satisfiable_proof : forall t,
  full_lattice t (concepts_spec t) /\ full_lattice t (sort_concepts (concepts_spec t)).
Proof.
  intros t. split; [exact (concepts_spec_full t)|].
  exact (proj1 (listing_full t _ (concepts_spec_full t))).
Qed.

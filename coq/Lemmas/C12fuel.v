(* Lemmas/C12fuel.v — the fuel the model gives to add_concept's two queue loops always
   suffices: the number of pops is bounded by the number of descending paths (weight). *)
From Coq Require Import Permutation.
From FCA Require Export Lemmas.C12add.

Definition sumw (f : nat -> nat) (l : list nat) : nat := fold_right (fun s acc => f s + acc) 0 l.

Lemma sumw_app f a b : sumw f (a ++ b) = sumw f a + sumw f b.
Proof. induction a as [|x a IH]; simpl; [reflexivity | rewrite IH; lia]. Qed.
Lemma sumw_perm f a b : Permutation a b -> sumw f a = sumw f b.
Proof. induction 1; simpl; lia. Qed.
Lemma sumw_filter_le f p l : sumw f (filter p l) <= sumw f l.
Proof. induction l as [|x l IH]; simpl; [lia|]. destruct (p x); simpl; lia. Qed.
Lemma sumw_ext_in f g l : (forall x, In x l -> f x = g x) -> sumw f l = sumw g l.
Proof.
  induction l as [|x l IH]; simpl; intros H; [reflexivity|].
  rewrite (H x (or_introl eq_refl)), IH; [reflexivity|]. intros y Hy. apply H. right. exact Hy.
Qed.

Section Fuel.
Variable enum : list nat -> list nat.
Hypothesis Henum : forall l, Permutation (enum l) l.
Variable next : imap.
Variable keep : nat -> bool.
Variable n : nat.
Variable h : nat -> nat.                       (* a height: strictly smaller on successors *)
Hypothesis Hnext : forall x s, x < n -> In s (next x) -> s < n /\ h s < h x.
Hypothesis Hh : forall x, x < n -> h x <= n.

Lemma weight_S d x : weight next (S d) x = S (sumw (weight next d) (next x)).
Proof. reflexivity. Qed.

Lemma weight_saturated : forall m x d, x < n -> h x <= m -> m <= d ->
  weight next d x = weight next (S d) x.
Proof.
  induction m as [|m IH]; intros x d Hx Hm Hd.
  - assert (E : next x = []).
    { destruct (next x) as [|s l] eqn:E; [reflexivity|]. exfalso.
      destruct (Hnext x s Hx) as [_ H]; [rewrite E; left; reflexivity | lia]. }
    rewrite weight_S, E. destruct d; [reflexivity|]. rewrite weight_S, E. reflexivity.
  - destruct d as [|d]; [lia|]. rewrite (weight_S (S d)), (weight_S d). f_equal.
    apply sumw_ext_in. intros s Hs. destruct (Hnext x s Hx Hs) as [Hsn Hhs]. apply (IH s d Hsn); lia.
Qed.

Definition W (x : nat) : nat := weight next n x.

Lemma W_unfold x : x < n -> W x = S (sumw W (next x)).
Proof. intros Hx. unfold W. rewrite (weight_saturated (h x) x n Hx (le_n _) (Hh x Hx)). apply weight_S. Qed.

Lemma bfs_terminates : forall fuel queue visited direct,
  (forall x, In x queue -> x < n) -> sumw W queue < fuel ->
  exists r, bfs enum next keep fuel queue visited direct = Done r.
Proof.
  induction fuel as [|f IH]; intros queue visited direct Hq Hpot; [lia|].
  destruct queue as [|c q]; [exists direct; reflexivity|].
  cbn [bfs]. assert (Hc : c < n) by (apply Hq; left; reflexivity).
  assert (Hq' : forall x, In x q -> x < n) by (intros x Hx; apply Hq; right; exact Hx).
  simpl in Hpot. rewrite (W_unfold c Hc) in Hpot.
  destruct (filter keep (next c)) as [|y nxt] eqn:E.
  - apply IH; [exact Hq' | lia].
  - apply IH.
    + intros x Hx. apply in_app_or in Hx. destruct Hx as [Hx|Hx]; [apply Hq'; exact Hx|].
      apply (Permutation_in _ (Henum _)) in Hx. apply diff_In in Hx. destruct Hx as [Hx _].
      rewrite <- E in Hx. apply filter_In in Hx. apply (Hnext c x Hc). tauto.
    + rewrite sumw_app, (sumw_perm W _ _ (Henum _)). unfold diff.
      assert (X := sumw_filter_le W (fun x => negb (mem x (add c visited))) (y :: nxt)).
      rewrite <- E in X at 2. assert (Y := sumw_filter_le W keep (next c)). lia.
Qed.
End Fuel.

(* ------------------------------------------------------------------ add_concept never runs out of fuel *)
Section AddTotal.
Variable lt : nat -> nat -> bool.
Variable size : nat -> nat.
Variable n : nat.
Variable enum : list nat -> list nat.
Hypothesis Henum : forall l, Permutation (enum l) l.
Hypothesis SO : strict_order lt (S n).
Hypothesis Hsize : forall i j, i <= n -> j <= n -> lt i j = true -> size i < size j.
Hypothesis Hn2 : 2 <= n.
Variables t0 b0 : nat.
Hypothesis Ht0 : is_top lt n t0.
Hypothesis Hb0 : is_bottom lt n b0.
Hypothesis Hnew_top : lt t0 n = true \/ lt n t0 = true.
Hypothesis Hnew_bot : lt n b0 = true \/ lt b0 n = true.
Variables sub sup : imap.
Hypothesis Hsub : forall i, i < n -> forall x, In x (sub i) <-> In x (lower_covers lt n i).
Hypothesis Hsup : forall i, i < n -> forall x, In x (sup i) <-> In x (upper_covers lt n i).

Lemma Henum_In l x : In x (enum l) <-> In x l.
Proof.
  split; intros H; [apply (Permutation_in _ (Henum l) H) | apply (Permutation_in _ (Permutation_sym (Henum l)) H)].
Qed.

Let SOn' := SOn lt n SO.

Lemma down_height x s : x < n -> In s (sub x) ->
  s < n /\ length (strict_down lt n s) < length (strict_down lt n x).
Proof.
  intros Hx Hs. apply (Hsub x Hx) in Hs. apply (lower_covers_In lt n) in Hs. destruct Hs as [Hsn [Hsx _]].
  split; [exact Hsn|]. unfold strict_down. apply (filter_length_lt _ _ _ s).
  - intros y Hy Hys. apply in_seq in Hy. apply (lt_trans lt n SOn' y s x); auto; lia.
  - apply in_seq. lia.
  - exact Hsx.
  - apply (lt_irrefl lt n SOn' s Hsn).
Qed.
Lemma up_height x s : x < n -> In s (sup x) ->
  s < n /\ length (strict_up lt n s) < length (strict_up lt n x).
Proof.
  intros Hx Hs. apply (Hsup x Hx) in Hs. apply (upper_covers_In lt n) in Hs. destruct Hs as [Hsn [Hxs _]].
  split; [exact Hsn|]. unfold strict_up. apply (filter_length_lt _ _ _ s).
  - intros y Hy Hsy. apply in_seq in Hy. apply (lt_trans lt n SOn' x s y); auto; lia.
  - apply in_seq. lia.
  - exact Hxs.
  - apply (lt_irrefl lt n SOn' s Hsn).
Qed.
Lemma height_le (p : nat -> bool) : length (filter p (seq 0 n)) <= n.
Proof. assert (X := filter_length_le p (seq 0 n)). rewrite seq_length in X. exact X. Qed.

Theorem add_concept_total top bottom :
  (top = None \/ top = Some t0) -> (bottom = None \/ bottom = Some b0) ->
  exists r, add_concept lt size n enum sub sup top bottom = Done r /\ rel_ok lt n r.
Proof.
  intros Htop Hbot.
  destruct (add_concept_ok lt size n enum Henum_In SO Hsize Hn2 t0 b0 Ht0 Hb0 Hnew_top Hnew_bot
              sub sup Hsub Hsup top bottom Htop Hbot) as [Hout|H]; [|exact H].
  exfalso. revert Hout. unfold add_concept.
  replace (Nat.ltb n 2) with false by (symmetry; apply Nat.ltb_ge; lia).
  assert (Htn : t0 < n) by apply Ht0. assert (Hbn : b0 < n) by apply Hb0.
  assert (Etb : top_bottom size n = (Some t0, Some b0)).
  { apply tb_fold; [exact Htn | exact Hbn | |].
    - intros i Hi Hne. apply Hsize; [lia | lia | apply Ht0; assumption].
    - intros i Hi Hne. apply Hsize; [lia | lia | apply Hb0; assumption]. }
  assert (E1 : (if match top, bottom with
                   | Some t, Some b => lt t n || lt n b
                   | _, _ => true end
                then top_bottom size n else (top, bottom)) = (Some t0, Some b0)).
  { destruct Htop as [->| ->]; [exact Etb|]. destruct Hbot as [->| ->]; [exact Etb|].
    destruct (lt t0 n || lt n b0); [exact Etb | reflexivity]. }
  rewrite E1. clear E1.
  destruct (lt t0 n); [discriminate|]. destruct (lt n b0); [discriminate|].
  destruct (bfs_terminates enum Henum sub (fun s => lt n s) n (fun x => length (strict_down lt n x))
              down_height (fun x _ => height_le _) (S (weight sub n t0)) [t0] [] []) as [r1 Hr1].
  { intros x [E|[]]. subst. exact Htn. }
  { simpl. unfold W. lia. }
  rewrite Hr1.
  destruct (bfs_terminates enum Henum sup (fun s => lt s n) n (fun x => length (strict_up lt n x))
              up_height (fun x _ => height_le _) (S (weight sup n b0)) [b0] [] []) as [r2 Hr2].
  { intros x [E|[]]. subst. exact Hbn. }
  { simpl. unfold W. lia. }
  rewrite Hr2. discriminate.
Qed.
End AddTotal.

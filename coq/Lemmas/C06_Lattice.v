(* Lemmas/C06_Lattice.v — ConceptLattice.T turns the concept lattice of a table into the concept
   lattice of the transposed table: concepts swapped, names swapped, the children dictionary is
   the cover relation of the reversed order.  Holds for every listing order of the concepts. *)
From FCA Require Import Model.Duality Spec.DualitySpec Lemmas.BitRow.
From FCA Require Import Lemmas.C06_Transpose.

Definition cpair (c : concept) : list nat * list nat := (c_ext_i c, c_int_i c).
Definition names_at (names : list str) (idx : list nat) : list str := map (fun i => nth i names []) idx.
Definition exts_of (L : lattice) : list (list nat) := map c_ext_i (l_concepts L).

(* "L is the concept lattice of table t with object names on and attribute names an":
   what C02/C03 establish for ConceptLattice.from_context, in any listing order *)
Record lattice_for (t : table) (on an : list str) (L : lattice) : Prop := {
  lf_pairs : forall A B, In (A, B) (map cpair (l_concepts L)) <-> In (A, B) (concepts_spec t);
  lf_nodup : NoDup (exts_of L);
  lf_names : forall c, In c (l_concepts L) ->
               c_ext c = names_at on (c_ext_i c) /\ c_int c = names_at an (c_int_i c);
  lf_len : length (l_children L) = length (l_concepts L);
  lf_children : forall i j, i < length (l_concepts L) ->
      (In j (nth i (l_children L) []) <->
       j < length (l_concepts L) /\ cover (ext_lt (exts_of L)) (length (l_concepts L)) j i)
}.

(* ------------------------------------------------------------------ _transpose_hierarchy *)

Lemma add_at_length v k d : length (add_at v k d) = length d.
Proof. revert v. induction d as [|s d IH]; intros [|v]; simpl; auto. Qed.

Lemma add_at_In v k d u x :
  In x (nth u (add_at v k d) []) <-> In x (nth u d []) \/ (u = v /\ v < length d /\ x = k).
Proof.
  revert v u. induction d as [|s d IH]; intros v u.
  - simpl. destruct v, u; simpl; split; try tauto; intros [H|[_ [H _]]]; try tauto; lia.
  - destruct v as [|v]; simpl.
    + destruct u as [|u]; simpl.
      * destruct (mem k s) eqn:E.
        -- split; [tauto|]. intros [H|[_ [_ H]]]; [exact H|]. subst. apply mem_In. exact E.
        -- rewrite in_app_iff. simpl. split.
           ++ intros [H|[H|[]]]; [left; exact H|]. subst. right.
              split; [reflexivity|]. split; [lia|reflexivity].
           ++ intros [H|[_ [_ H]]]; [left; exact H|]. right. left. symmetry. exact H.
      * split; [tauto|]. intros [H|[H _]]; [exact H|discriminate].
    + destruct u as [|u]; simpl.
      * split; [tauto|]. intros [H|[H _]]; [exact H|discriminate].
      * rewrite IH. split; intros [H|[H1 [H2 H3]]]; try tauto; right; repeat split; try lia.
Qed.

Definition add_all (vs : list nat) (k : nat) (d : list (list nat)) : list (list nat) :=
  fold_left (fun d' v => add_at v k d') vs d.

Lemma add_all_length vs k d : length (add_all vs k d) = length d.
Proof.
  revert d. induction vs as [|v vs IH]; intros d; simpl; [reflexivity|].
  unfold add_all in *. simpl. rewrite IH. apply add_at_length.
Qed.

Lemma add_all_In vs k d u x :
  In x (nth u (add_all vs k d) []) <-> In x (nth u d []) \/ (In u vs /\ u < length d /\ x = k).
Proof.
  revert d. induction vs as [|v vs IH]; intros d.
  - simpl. tauto.
  - unfold add_all in *. simpl. rewrite IH, add_at_In, add_at_length. split.
    + intros [[H|[H1 [H2 H3]]]|[H1 [H2 H3]]]; try tauto.
      right. subst. tauto.
    + intros [H|[[H1|H1] [H2 H3]]]; try tauto. subst. left. right. tauto.
Qed.

Definition th_step (st : list (list nat) * nat) (vs : list nat) : list (list nat) * nat :=
  let (d, k) := st in (add_all vs k d, S k).

Lemma th_fold rest d k :
  let st := fold_left th_step rest (d, k) in
  length (fst st) = length d /\
  forall u x, In x (nth u (fst st) []) <->
              In x (nth u d []) \/
              (exists p, p < length rest /\ x = k + p /\ In u (nth p rest []) /\ u < length d).
Proof.
  revert d k. induction rest as [|vs rest IH]; intros d k; simpl.
  - split; [reflexivity|]. intros u x. split; [tauto|]. intros [H|[p [H _]]]; [exact H|lia].
  - specialize (IH (add_all vs k d) (S k)). simpl in IH. destruct IH as [IH1 IH2].
    rewrite add_all_length in IH1. split; [exact IH1|]. intros u x.
    rewrite IH2, add_all_In, add_all_length. split.
    + intros [[H|[H1 [H2 H3]]]|[p [H1 [H2 [H3 H4]]]]].
      * left. exact H.
      * right. exists 0. repeat split; try lia; assumption.
      * right. exists (S p). repeat split; try lia; assumption.
    + intros [H|[p [H1 [H2 [H3 H4]]]]]; [tauto|].
      destruct p as [|p].
      * left. right. simpl in H3. repeat split; try assumption. lia.
      * right. exists p. simpl in H3. repeat split; try lia; assumption.
Qed.

Lemma fold_left_ext {A B} (f g : A -> B -> A) l a :
  (forall a b, f a b = g a b) -> fold_left f l a = fold_left g l a.
Proof. intros H. revert a. induction l as [|b l IH]; intros a; simpl; [reflexivity|]. rewrite H. apply IH. Qed.

Lemma transpose_hierarchy_fold ch :
  transpose_hierarchy ch = fst (fold_left th_step ch (repeat [] (length ch), 0)).
Proof.
  reflexivity.
Qed.

Lemma nth_repeat_nil (n u : nat) : nth u (repeat (@nil nat) n) [] = [].
Proof. revert u. induction n as [|n IH]; intros [|u]; simpl; auto. Qed.

Theorem transpose_hierarchy_length ch : length (transpose_hierarchy ch) = length ch.
Proof.
  rewrite transpose_hierarchy_fold.
  destruct (th_fold ch (repeat [] (length ch)) 0) as [H _]. simpl in H. rewrite H. apply repeat_length.
Qed.

(* k is listed under v  <->  v is listed under k *)
Theorem transpose_hierarchy_In ch v k :
  In k (nth v (transpose_hierarchy ch) []) <-> v < length ch /\ k < length ch /\ In v (nth k ch []).
Proof.
  rewrite transpose_hierarchy_fold.
  destruct (th_fold ch (repeat [] (length ch)) 0) as [_ H]. simpl in H. rewrite H.
  rewrite nth_repeat_nil, repeat_length. simpl. split.
  - intros [[]|[p [H1 [H2 [H3 H4]]]]]. subst. tauto.
  - intros [H1 [H2 H3]]. right. exists k. tauto.
Qed.

(* ------------------------------------------------------------------ covers under order reversal *)

Lemma cover_dual (R R' : nat -> nat -> Prop) n i j :
  (forall a b, a < n -> b < n -> (R' a b <-> R b a)) -> i < n -> j < n ->
  (cover R' n j i <-> cover R n i j).
Proof.
  intros H Hi Hj. unfold cover. rewrite (H j i Hj Hi). split; intros [H1 H2]; split; try exact H1;
    intros k Hk [Ha Hb]; apply (H2 k Hk); split.
  - apply H; assumption.
  - apply H; assumption.
  - apply H; assumption.
  - apply H; assumption.
Qed.

(* ------------------------------------------------------------------ lattice_T *)

Definition dummy_concept : concept :=
  {| c_ext_i := []; c_ext := []; c_int_i := []; c_int := []; c_hash := None; c_mono := false |}.

Lemma nth_exts (cs : list concept) i : i < length cs ->
  nth i (map c_ext_i cs) [] = c_ext_i (nth i cs dummy_concept).
Proof. intros H. apply nth_map_in. exact H. Qed.

Lemma NoDup_map_transfer {A B C} (f : A -> B) (g : A -> C) l :
  (forall x y, In x l -> In y l -> g x = g y -> f x = f y) -> NoDup (map f l) -> NoDup (map g l).
Proof.
  induction l as [|x l IH]; simpl; intros H Hn; [constructor|].
  inversion Hn as [|? ? Hx Hl]; subst. constructor.
  - intros Hin. apply Hx. apply in_map_iff in Hin. destruct Hin as [y [E Hy]].
    apply in_map_iff. exists y. split; [|exact Hy]. apply H; auto.
  - apply IH; [|exact Hl]. intros a b Ha Hb. apply H; auto.
Qed.

Lemma lf_concept t on an L c :
  lattice_for t on an L -> In c (l_concepts L) -> is_concept t (c_ext_i c) (c_int_i c).
Proof.
  intros HL Hc. assert (X : In (cpair c) (map cpair (l_concepts L))) by (apply in_map; exact Hc).
  unfold cpair in X at 1. apply (lf_pairs _ _ _ _ HL) in X. apply concepts_spec_complete in X. tauto.
Qed.

Lemma pairs_concept_T cs A B :
  In (A, B) (map cpair (map concept_T cs)) <-> In (B, A) (map cpair cs).
Proof.
  rewrite map_map. rewrite !in_map_iff. split; intros [c [E H]]; exists c; split; try exact H;
    unfold cpair, concept_T in *; simpl in *; inversion E; reflexivity.
Qed.

Theorem lattice_T_correct t on an L :
  wf t -> nondegenerate t -> lattice_for t on an L -> lattice_for (A_transpose t) an on (lattice_T L).
Proof.
  intros Hwf Hn HL. set (cs := l_concepts L). set (n := length cs).
  assert (Hlen : length (l_concepts (lattice_T L)) = n)
    by (unfold lattice_T; cbn [l_concepts]; rewrite map_length; reflexivity).
  assert (Hexts : exts_of (lattice_T L) = map c_int_i cs).
  { unfold exts_of, lattice_T. cbn [l_concepts]. rewrite map_map. reflexivity. }
  constructor.
  - (* concepts *)
    intros A B. unfold lattice_T. cbn [l_concepts]. rewrite pairs_concept_T.
    rewrite (lf_pairs _ _ _ _ HL). symmetry. apply concepts_of_transpose; assumption.
  - (* intents are pairwise different because extents are *)
    rewrite Hexts. apply (NoDup_map_transfer c_ext_i c_int_i); [|apply (lf_nodup _ _ _ _ HL)].
    intros x y Hx Hy E. destruct (lf_concept _ _ _ _ _ HL Hx) as [Ex _].
    destruct (lf_concept _ _ _ _ _ HL Hy) as [Ey _]. rewrite Ex, Ey, E. reflexivity.
  - (* names *)
    intros c Hc. unfold lattice_T in Hc. cbn [l_concepts] in Hc. apply in_map_iff in Hc.
    destruct Hc as [c0 [E Hc0]]. subst c. destruct (lf_names _ _ _ _ HL c0 Hc0) as [H1 H2].
    unfold concept_T. cbn [c_ext c_ext_i c_int c_int_i]. split; assumption.
  - (* length *)
    unfold lattice_T. cbn [l_children l_concepts]. rewrite transpose_hierarchy_length, map_length.
    apply (lf_len _ _ _ _ HL).
  - (* children = lower covers of the reversed order *)
    rewrite Hlen, Hexts. intros i j Hi. unfold lattice_T. cbn [l_children].
    rewrite transpose_hierarchy_In. rewrite (lf_len _ _ _ _ HL). fold cs. fold n.
    split.
    + intros [_ [Hj Hin]]. split; [exact Hj|].
      apply (lf_children _ _ _ _ HL j i Hj) in Hin. destruct Hin as [_ Hc]. fold cs in Hc. fold n in Hc.
      apply (cover_dual (ext_lt (exts_of L)) (ext_lt (map c_int_i cs)) n i j); try assumption.
      intros a b Ha Hb. unfold ext_lt, exts_of. fold cs.
      rewrite !nth_exts by assumption.
      rewrite !(nth_map_in c_int_i cs _ [] dummy_concept) by assumption.
      assert (Ca := lf_concept _ _ _ _ _ HL (nth_In cs dummy_concept Ha)).
      assert (Cb := lf_concept _ _ _ _ _ HL (nth_In cs dummy_concept Hb)).
      unfold strict_sub.
      rewrite (concept_order_dual t _ _ _ _ Cb Ca), (concept_order_dual t _ _ _ _ Ca Cb). tauto.
    + intros [Hj Hc]. split; [exact Hi|]. split; [exact Hj|].
      apply (lf_children _ _ _ _ HL j i Hj). split; [exact Hi|]. fold cs. fold n.
      apply (cover_dual (ext_lt (exts_of L)) (ext_lt (map c_int_i cs)) n i j); try assumption.
      intros a b Ha Hb. unfold ext_lt, exts_of. fold cs.
      rewrite !nth_exts by assumption.
      rewrite !(nth_map_in c_int_i cs _ [] dummy_concept) by assumption.
      assert (Ca := lf_concept _ _ _ _ _ HL (nth_In cs dummy_concept Ha)).
      assert (Cb := lf_concept _ _ _ _ _ HL (nth_In cs dummy_concept Hb)).
      unfold strict_sub.
      rewrite (concept_order_dual t _ _ _ _ Cb Ca), (concept_order_dual t _ _ _ _ Ca Cb). tauto.
Qed.

(* the hash is negated and comes back after a second transposition unless it is 0 *)
Lemma neg_hash_involutive h : h <> Some 0%Z -> neg_hash (neg_hash h) = h.
Proof.
  destruct h as [z|]; simpl; [|reflexivity]. intros H.
  destruct (Z.eqb z 0) eqn:E.
  - apply Z.eqb_eq in E. subst. congruence.
  - simpl. destruct (Z.eqb (- z) 0) eqn:E2.
    + apply Z.eqb_eq in E2. apply Z.eqb_neq in E. lia.
    + rewrite Z.opp_involutive. reflexivity.
Qed.

(* non-vacuity helper: a boolean version of lattice_for's first, second and last fields is
   provided by the correspondence check (Corr/C06.v lattice_okb); here a tiny direct instance *)

(* Lemmas/C19_Fcart.v — fcart_layout: every element gets a position, no two elements share
   one, strictly smaller elements are drawn strictly lower. *)
From Coq Require Import ZArith QArith Lqa Permutation.
From FCA Require Import Base.ListSet Model.C19_LineLayout Model.C19_Mover Spec.C19_LayoutSpec Lemmas.C19_Mover Lemmas.C19_Levels.
Local Open Scope nat_scope.

(* ------------------------------------------------------------------ sorting is a permutation *)
Lemma insert_by_perm {A} (le : A -> A -> bool) x l : Permutation (insert_by le x l) (x :: l).
Proof.
  induction l as [|y l IH]; cbn; [apply Permutation_refl|].
  destruct (le x y); [apply Permutation_refl|].
  eapply Permutation_trans; [apply perm_skip, IH | apply perm_swap].
Qed.

Lemma isort_perm {A} (le : A -> A -> bool) l : Permutation (isort le l) l.
Proof.
  induction l as [|a l IH]; [apply Permutation_refl|]. rewrite isort_cons.
  eapply Permutation_trans; [apply insert_by_perm | apply perm_skip, IH].
Qed.

Lemma sorted_by_key_perm {K} (le : K * nat -> K * nat -> bool) (f : nat -> K) es :
  Permutation (map snd (isort le (map (fun e => (f e, e)) es))) es.
Proof.
  eapply Permutation_trans; [apply Permutation_map, isort_perm|].
  rewrite map_map. cbn [snd]. rewrite map_id. apply Permutation_refl.
Qed.

(* ------------------------------------------------------------------ assigning slots *)
Lemma assign_from : forall es s ids,
  NoDup es -> (forall e, In e es -> e < length ids) ->
  let ids' := fold_left (fun acc ie => set_nth (snd ie) (fst ie) acc) (combine (seq s (length es)) es) ids in
  length ids' = length ids /\
  (forall e, In e es -> nth e ids' 0 = s + nindex e es) /\
  (forall u, ~ In u es -> nth u ids' 0 = nth u ids 0).
Proof.
  induction es as [|a es IH]; intros s ids ND R; cbn zeta.
  - cbn. repeat split; auto. intros e [].
  - inversion ND as [|? ? Ha ND']; subst. cbn [length seq combine fold_left fst snd].
    destruct (IH (S s) (set_nth a s ids) ND') as (L & I1 & I2).
    { intros e He. rewrite set_nth_length. apply R. now right. }
    cbn zeta in *. rewrite set_nth_length in L. split; [exact L|]. split.
    + intros e [->|He].
      * rewrite I2 by exact Ha. cbn [nindex]. rewrite Nat.eqb_refl.
        rewrite nth_set_nth_eq by (apply R; now left). lia.
      * rewrite (I1 e He). cbn [nindex]. destruct (Nat.eqb e a) eqn:E.
        -- apply Nat.eqb_eq in E. subst. contradiction.
        -- lia.
    + intros u Hu. rewrite I2 by (intro; apply Hu; now right).
      apply nth_set_nth_neq. intro; subst. apply Hu. now left.
Qed.

Lemma assign_ids_spec es ids :
  NoDup es -> (forall e, In e es -> e < length ids) ->
  length (assign_ids ids es) = length ids /\
  (forall e, In e es -> nth e (assign_ids ids es) 0 = nindex e es) /\
  (forall u, ~ In u es -> nth u (assign_ids ids es) 0 = nth u ids 0).
Proof. intros ND R. exact (assign_from es 0 ids ND R). Qed.

Lemma nindex_inj es u v : In u es -> In v es -> nindex u es = nindex v es -> u = v.
Proof.
  intros Hu Hv E. destruct (nindex_nth u es 0 Hu) as [_ <-]. destruct (nindex_nth v es 0 Hv) as [_ <-].
  now rewrite E.
Qed.

(* ------------------------------------------------------------------ the maximum *)
Lemma fold_zmax_spec t : forall x,
  (x <= fold_left Z.max t x)%Z /\ (forall z, In z t -> (z <= fold_left Z.max t x)%Z).
Proof.
  induction t as [|a t IH]; intro x; cbn [fold_left]; [split; [lia | intros z []]|].
  destruct (IH (Z.max x a)) as [I1 I2]. split; [lia|]. intros z [->|Hz]; [lia | auto].
Qed.

Lemma zmax_list_ge l m : zmax_list l = Some m -> forall z, In z l -> (z <= m)%Z.
Proof.
  destruct l as [|x t]; [discriminate|]. cbn [zmax_list]. intro E. injection E as <-.
  destruct (fold_zmax_spec t x) as [I1 I2]. intros z [->|Hz]; auto.
Qed.

(* ------------------------------------------------------------------ fcart *)
Section Fcart.
Variable n : nat.
Variable leq : nat -> nat -> bool.
Variable parents children : nat -> list nat.
Variable tops : list nat.
Variable c : Q.
Variable dpth : Z.

Hypothesis antisym : forall a b, a < n -> b < n -> leq a b = true -> leq b a = true -> a = b.
Hypothesis trans : forall a b c, a < n -> b < n -> c < n -> leq a b = true -> leq b c = true -> leq a c = true.
Hypothesis parents_spec : forall v p, v < n -> (In p (parents v) <-> p < n /\ covers_of n leq v p = true).
Hypothesis children_spec : forall v x, v < n -> (In x (children v) <-> x < n /\ covers_of n leq x v = true).
Hypothesis children_nodup : forall v, v < n -> NoDup (children v).
Hypothesis tops_spec : forall t, In t tops <-> t < n /\ forall j, j < n -> slt leq t j = false.
Hypothesis tops_nodup : NoDup tops.

Notation lev := C19_LineLayout.lev.
Let hgt := hgt n parents.

Lemma levels_facts :
  exists levels ld m,
    calc_levels n parents children tops = LOk (levels, ld) /\ length levels = n /\
    (forall v, v < n -> lev levels v = Z.of_nat (hgt v)) /\
    (forall v, v < n -> (lev levels v <= m)%Z) /\
    ld = map (fun k => filter (fun i => Z.eqb (lev levels i) (Z.of_nat k)) (elems n)) (seq 0 (Z.to_nat (m + 1))).
Proof.
  destruct (calc_loop_levels n parents children tops hgt) as (levels & EL & Len & Hl).
  - intros t Ht. apply tops_spec in Ht. tauto.
  - exact tops_nodup.
  - eapply top_iff_parents; eassumption.
  - eapply hgt_top; eassumption.
  - eapply hgt_rec; eassumption.
  - eapply parents_in; eassumption.
  - eapply children_parents; eassumption.
  - exact children_nodup.
  - set (m := match zmax_list levels with Some m => m | None => (-1)%Z end).
    assert (NN : existsb (fun z => Z.ltb z 0) levels = false).
    { destruct (existsb (fun z => Z.ltb z 0) levels) eqn:X; [|reflexivity]. exfalso.
      apply existsb_exists in X. destruct X as (z & Hz & Lz). apply Z.ltb_lt in Lz.
      destruct (In_nth _ _ (-1)%Z Hz) as (i & Hi & Ei). rewrite Len in Hi.
      specialize (Hl i Hi). unfold C19_LineLayout.lev in Hl. rewrite Ei in Hl. lia. }
    assert (B : forall v, v < n -> (lev levels v <= m)%Z).
    { intros v Hv. unfold m. destruct (zmax_list levels) as [m0|] eqn:EM.
      - apply (zmax_list_ge levels m0 EM). unfold C19_LineLayout.lev. apply nth_In. lia.
      - destruct levels; [cbn in Len; lia | discriminate]. }
    exists levels, (map (fun k => filter (fun i => Z.eqb (lev levels i) (Z.of_nat k)) (elems n)) (seq 0 (Z.to_nat (m + 1)))), m.
    split; [unfold calc_levels; rewrite EL; cbv zeta; fold m; rewrite NN; reflexivity|].
    split; [exact Len|]. split; [exact Hl|].
    split; [exact B | reflexivity].
Qed.

Lemma fcart_exists :
  exists levels ld, calc_levels n parents children tops = LOk (levels, ld) /\
    fcart_layout n parents children tops c dpth =
      LOk (map (fun i => (fcart_x levels ld (fcart_ids n parents c dpth levels ld) i, fcart_y levels ld i)) (elems n)).
Proof.
  destruct levels_facts as (levels & ld & m & E & _). exists levels, ld. split; [exact E|].
  unfold fcart_layout. rewrite E. reflexivity.
Qed.

(* ---- y decreases strictly with the level *)
Lemma qy_lt (a b : Z) (L : nat) :
  0 < L -> (a < b)%Z ->
  ((-(2)) * inject_Z b / q_of_nat L + 1 < (-(2)) * inject_Z a / q_of_nat L + 1)%Q.
Proof.
  intros HL Hab. unfold q_of_nat.
  assert (P : (0 < inject_Z (Z.of_nat L))%Q) by (change (inject_Z 0 < inject_Z (Z.of_nat L))%Q; rewrite <- Zlt_Qlt; lia).
  assert (A : (inject_Z a < inject_Z b)%Q) by (rewrite <- Zlt_Qlt; exact Hab).
  set (l := inject_Z (Z.of_nat L)) in *. set (x := inject_Z a) in *. set (y := inject_Z b) in *.
  apply Qplus_lt_l. unfold Qdiv.
  assert (I : (0 < / l)%Q) by (apply Qinv_lt_0_compat; exact P).
  apply Qmult_lt_compat_r; [exact I|]. lra.
Qed.

Lemma qx_lt (a b cnt : nat) :
  a < b ->
  (2 * (q_of_nat a + 1) / (q_of_nat cnt + 1) - 1 < 2 * (q_of_nat b + 1) / (q_of_nat cnt + 1) - 1)%Q.
Proof.
  intro Hab. unfold q_of_nat.
  assert (P : (0 < inject_Z (Z.of_nat cnt) + 1)%Q).
  { assert (0 <= inject_Z (Z.of_nat cnt))%Q by (change (inject_Z 0 <= inject_Z (Z.of_nat cnt))%Q; rewrite <- Zle_Qle; lia). lra. }
  assert (A : (inject_Z (Z.of_nat a) < inject_Z (Z.of_nat b))%Q) by (rewrite <- Zlt_Qlt; lia).
  set (l := (inject_Z (Z.of_nat cnt) + 1)%Q) in *. set (x := inject_Z (Z.of_nat a)) in *. set (y := inject_Z (Z.of_nat b)) in *.
  unfold Qminus. apply Qplus_lt_l. unfold Qdiv.
  assert (I : (0 < / l)%Q) by (apply Qinv_lt_0_compat; exact P).
  apply Qmult_lt_compat_r; [exact I|]. lra.
Qed.

(* ---- slots are injective inside every level *)
Section Ids.
Variable levels : list Z.
Variable ld : list (list nat).
Variable m : Z.
Hypothesis Len : length levels = n.
Hypothesis Hl : forall v, v < n -> lev levels v = Z.of_nat (hgt v).
Hypothesis Hm : forall v, v < n -> (lev levels v <= m)%Z.
Hypothesis Hld : ld = map (fun k => filter (fun i => Z.eqb (lev levels i) (Z.of_nat k)) (elems n)) (seq 0 (Z.to_nat (m + 1))).

Lemma ld_length : length ld = Z.to_nat (m + 1).
Proof. rewrite Hld, map_length, seq_length. reflexivity. Qed.

Lemma ld_row k : k < length ld -> nth k ld [] = filter (fun i => Z.eqb (lev levels i) (Z.of_nat k)) (elems n).
Proof.
  intro H. rewrite ld_length in H. rewrite Hld.
  exact (nth_map_seq (fun k0 => filter (fun i => Z.eqb (lev levels i) (Z.of_nat k0)) (elems n)) (Z.to_nat (m + 1)) k [] H).
Qed.

Lemma row_in k v : k < length ld -> (In v (nth k ld []) <-> v < n /\ hgt v = k).
Proof.
  intro H. rewrite (ld_row k H), filter_In. unfold elems. rewrite in_seq, Z.eqb_eq. split.
  - intros [Hv E]. split; [lia|]. rewrite Hl in E by lia. lia.
  - intros [Hv E]. split; [lia|]. rewrite Hl by exact Hv. lia.
Qed.

Lemma row_nodup k : NoDup (nth k ld []).
Proof.
  destruct (le_lt_dec (length ld) k) as [H|H]; [rewrite nth_overflow by exact H; constructor|].
  rewrite (ld_row k H). apply NoDup_filter. apply seq_NoDup.
Qed.

Lemma level_in_range v : v < n -> hgt v < length ld.
Proof. intro Hv. rewrite ld_length. specialize (Hm v Hv). rewrite Hl in Hm by exact Hv. lia. Qed.

Definition inj_below (k : nat) (ids : list nat) : Prop :=
  length ids = n /\
  forall u v, u < n -> v < n -> hgt u < k -> hgt u = hgt v -> nth u ids 0 = nth v ids 0 -> u = v.

Definition level_step (ids : list nat) (k : nat) : list nat :=
  let es := nth k ld [] in
  let es' := if Nat.eqb k 0 then es
             else map snd (isort ple (map (fun e => (priority parents c dpth levels ld ids e, e)) es)) in
  assign_ids ids es'.

Lemma level_step_inv ids k : k < length ld -> inj_below k ids -> inj_below (S k) (level_step ids k).
Proof.
  intros Hk [L I]. unfold level_step.
  set (es := nth k ld []).
  set (es' := if Nat.eqb k 0 then es else map snd (isort ple (map (fun e => (priority parents c dpth levels ld ids e, e)) es))).
  assert (P : Permutation es' es) by (unfold es'; destruct (Nat.eqb k 0); [apply Permutation_refl | apply sorted_by_key_perm]).
  assert (ND : NoDup es') by (apply (Permutation_NoDup (Permutation_sym P)), row_nodup).
  assert (In' : forall v, In v es' <-> v < n /\ hgt v = k).
  { intro v. rewrite <- (row_in k v Hk). split; apply Permutation_in; [exact P | apply Permutation_sym, P]. }
  destruct (assign_ids_spec es' ids ND) as (L' & A1 & A2).
  { intros e He. apply In' in He. lia. }
  split; [lia|]. intros u v Hu Hv Hlt E Eid.
  destruct (Nat.eq_dec (hgt u) k) as [Ek|Nk].
  - assert (Iu : In u es') by (apply In'; auto). assert (Iv : In v es') by (apply In'; split; [auto | lia]).
    rewrite (A1 u Iu), (A1 v Iv) in Eid. apply (nindex_inj es'); assumption.
  - assert (Ou : ~ In u es') by (intro H; apply In' in H; lia).
    assert (Ov : ~ In v es') by (intro H; apply In' in H; lia).
    rewrite (A2 u Ou), (A2 v Ov) in Eid. apply I; auto; lia.
Qed.

Lemma fold_levels_inv : forall ks ids k0,
  ks = seq k0 (length ks) -> k0 + length ks <= length ld -> inj_below k0 ids ->
  inj_below (k0 + length ks) (fold_left level_step ks ids).
Proof.
  induction ks as [|k ks IH]; intros ids k0 E B I; cbn [fold_left length].
  - now rewrite Nat.add_0_r.
  - cbn [length seq] in E. injection E as -> E. cbn [length] in B.
    rewrite <- Nat.add_succ_comm. apply IH; [exact E | lia |]. apply level_step_inv; [lia | exact I].
Qed.

Lemma fcart_ids_inj u v :
  u < n -> v < n -> hgt u = hgt v ->
  nth u (fcart_ids n parents c dpth levels ld) 0 = nth v (fcart_ids n parents c dpth levels ld) 0 -> u = v.
Proof.
  intros Hu Hv E Eid.
  assert (I : inj_below (0 + length (seq 0 (length ld))) (fcart_ids n parents c dpth levels ld)).
  { unfold fcart_ids. apply (fold_levels_inv (seq 0 (length ld)) (repeat 0 n) 0).
    - now rewrite seq_length.
    - rewrite seq_length. lia.
    - split; [apply repeat_length | intros; lia]. }
  rewrite seq_length in I. destruct I as [_ I]. apply (I u v); auto. apply level_in_range; exact Hu.
Qed.
End Ids.

(* ---- the three claims *)
Theorem fcart_total_distinct :
  exists ps, fcart_layout n parents children tops c dpth = LOk ps /\ length ps = n /\
    forall i j, i < n -> j < n -> i <> j ->
      ~ ((fst (nth i ps (0, 0)) == fst (nth j ps (0, 0))) /\ (snd (nth i ps (0, 0)) == snd (nth j ps (0, 0))))%Q.
Proof.
  destruct levels_facts as (levels & ld & m & E & Len & Hl & Hm & Hld).
  eexists. split; [unfold fcart_layout; rewrite E; reflexivity|].
  split; [unfold elems; now rewrite map_length, seq_length|].
  intros i j Hi Hj Nij [Ex Ey].
  unfold elems in Ex, Ey. rewrite !(nth_map_seq _ n _ _) in Ex, Ey by assumption. cbn [fst snd] in Ex, Ey.
  assert (M0 : (0 <= m)%Z) by (pose proof (Hm i Hi) as B0; rewrite (Hl i Hi) in B0; lia).
  assert (LL : 0 < length ld) by (rewrite (ld_length levels ld m Hld); lia).
  destruct (Z.lt_trichotomy (lev levels i) (lev levels j)) as [H|[H|H]].
  - pose proof (qy_lt _ _ (length ld) LL H) as Q. unfold fcart_y in Ey. rewrite Ey in Q. apply (Qlt_irrefl _ Q).
  - assert (Eh : hgt i = hgt j) by (rewrite !Hl in H by assumption; lia).
    unfold fcart_x in Ex. rewrite H in Ex.
    set (ids := fcart_ids n parents c dpth levels ld) in *.
    destruct (Nat.lt_trichotomy (nth i ids 0) (nth j ids 0)) as [K|[K|K]].
    + pose proof (qx_lt _ _ (cnt_on ld (lev levels j)) K) as Q. rewrite Ex in Q. apply (Qlt_irrefl _ Q).
    + apply Nij. apply (fcart_ids_inj levels ld m Len Hl Hm Hld i j Hi Hj Eh K).
    + pose proof (qx_lt _ _ (cnt_on ld (lev levels j)) K) as Q. rewrite Ex in Q. apply (Qlt_irrefl _ Q).
  - pose proof (qy_lt _ _ (length ld) LL H) as Q. unfold fcart_y in Ey. rewrite Ey in Q. apply (Qlt_irrefl _ Q).
Qed.

Theorem fcart_order :
  exists ps, fcart_layout n parents children tops c dpth = LOk ps /\
    forall i j, i < n -> j < n -> slt leq j i = true ->
      (snd (nth j ps (0, 0)) < snd (nth i ps (0, 0)))%Q.
Proof.
  destruct levels_facts as (levels & ld & m & E & Len & Hl & Hm & Hld).
  eexists. split; [unfold fcart_layout; rewrite E; reflexivity|].
  intros i j Hi Hj L. unfold elems. rewrite !(nth_map_seq _ n _ _) by assumption. cbn [snd].
  assert (M0 : (0 <= m)%Z) by (pose proof (Hm i Hi) as B0; rewrite (Hl i Hi) in B0; lia).
  assert (LL : 0 < length ld) by (rewrite (ld_length levels ld m Hld); lia).
  unfold fcart_y. apply qy_lt; [exact LL|]. rewrite !Hl by assumption.
  assert (H : hgt i < hgt j) by (eapply level_strict; eassumption). lia.
Qed.
End Fcart.

(* ------------------------------------------------------------------ the executable instance:
   parents / children / tops computed from the comparison in ascending index order satisfy the
   hypotheses about "what the poset answers" *)
Section Instance.
Variable n : nat.
Variable leq : nat -> nat -> bool.

Lemma parents_of_spec v p : v < n -> (In p (parents_of n leq v) <-> p < n /\ covers_of n leq v p = true).
Proof. intros _. unfold parents_of. rewrite filter_In, in_seq. split; intros [A B]; split; auto; lia. Qed.

Lemma children_of_spec v x : v < n -> (In x (children_of n leq v) <-> x < n /\ covers_of n leq x v = true).
Proof. intros _. unfold children_of. rewrite filter_In, in_seq. split; intros [A B]; split; auto; lia. Qed.

Lemma children_of_nodup v : v < n -> NoDup (children_of n leq v).
Proof. intros _. apply NoDup_filter, seq_NoDup. Qed.

Lemma tops_of_spec t : In t (tops_of n leq) <-> t < n /\ forall j, j < n -> slt leq t j = false.
Proof.
  unfold tops_of. rewrite filter_In, in_seq, negb_true_iff. split.
  - intros [A B]. split; [lia|]. intros j Hj.
    destruct (slt leq t j) eqn:E; [|reflexivity].
    assert (existsb (ltb_of leq t) (seq 0 n) = true) by (apply existsb_exists; exists j; split; [apply in_seq; lia | exact E]).
    congruence.
  - intros [A B]. split; [lia|].
    destruct (existsb (ltb_of leq t) (seq 0 n)) eqn:E; [|reflexivity].
    apply existsb_exists in E. destruct E as (j & Hj & Ej). apply in_seq in Hj.
    change (ltb_of leq t j) with (slt leq t j) in Ej. rewrite B in Ej by lia. discriminate.
Qed.

Lemma tops_of_nodup : NoDup (tops_of n leq).
Proof. apply NoDup_filter, seq_NoDup. Qed.
End Instance.

(* a boolean test of "antisymmetric and transitive on 0..n-1", for concrete examples *)
Definition po_ok (n : nat) (leq : nat -> nat -> bool) : bool :=
  forallb (fun a => forallb (fun b =>
     (negb (leq a b && leq b a) || Nat.eqb a b) &&
     forallb (fun c => negb (leq a b && leq b c) || leq a c) (seq 0 n)) (seq 0 n)) (seq 0 n).

Lemma po_ok_spec n leq : po_ok n leq = true ->
  (forall a b, a < n -> b < n -> leq a b = true -> leq b a = true -> a = b) /\
  (forall a b c, a < n -> b < n -> c < n -> leq a b = true -> leq b c = true -> leq a c = true).
Proof.
  intro H. unfold po_ok in H. rewrite forallb_forall in H. split.
  - intros a b Ha Hb L1 L2. specialize (H a (proj2 (in_seq n 0 a) (conj (Nat.le_0_l a) Ha))).
    rewrite forallb_forall in H. specialize (H b (proj2 (in_seq n 0 b) (conj (Nat.le_0_l b) Hb))).
    apply andb_true_iff in H. destruct H as [H _]. rewrite L1, L2 in H. cbn in H. apply Nat.eqb_eq. exact H.
  - intros a b c Ha Hb Hc L1 L2. specialize (H a (proj2 (in_seq n 0 a) (conj (Nat.le_0_l a) Ha))).
    rewrite forallb_forall in H. specialize (H b (proj2 (in_seq n 0 b) (conj (Nat.le_0_l b) Hb))).
    apply andb_true_iff in H. destruct H as [_ H]. rewrite forallb_forall in H.
    specialize (H c (proj2 (in_seq n 0 c) (conj (Nat.le_0_l c) Hc))). rewrite L1, L2 in H. cbn in H. exact H.
Qed.

(* Lemmas/C15Tree.v — the extents read off the decision-path matrix of a tree or forest are
   exactly the distinct sets of rows reaching its nodes. *)
From Coq Require Import QArith.
From FCA Require Import Base.ListSet Model.BinTable Lemmas.BitRow Spec.Closure.
From FCA Require Import Model.Sofia Model.C15Interval Model.TreeExtents Spec.C15 Lemmas.C15Bits Lemmas.C15Formal.
Local Open Scope nat_scope.

Lemma path_row_reaches t reach x :
  path_row t reach x = map (fun p => reach && reaches t p x) (node_paths t).
Proof.
  revert reach. induction t as [|f thr l IHl r IHr]; intros reach; simpl.
  - rewrite andb_true_r. reflexivity.
  - rewrite andb_true_r. f_equal. rewrite map_app, !map_map, IHl, IHr. f_equal.
    + apply map_ext. intros p. simpl. symmetry. apply andb_assoc.
    + apply map_ext. intros p. simpl. symmetry. apply andb_assoc.
Qed.

Lemma node_paths_length t : length (node_paths t) = n_nodes t.
Proof.
  induction t as [|f thr l IHl r IHr]; simpl; [reflexivity|].
  rewrite app_length, !map_length, IHl, IHr. reflexivity.
Qed.

(* all nodes of a forest: (tree, path) *)
Definition forest_nodes (ts : list tree) : list (tree * list bool) :=
  flat_map (fun t => map (pair t) (node_paths t)) ts.

Lemma forest_nodes_length ts : length (forest_nodes ts) = list_sum (map n_nodes ts).
Proof.
  induction ts as [|t ts IH]; simpl; [reflexivity|].
  unfold forest_nodes in *. simpl. rewrite app_length, map_length, node_paths_length, IH. reflexivity.
Qed.

Lemma forest_nodes_In ts t p : In (t, p) (forest_nodes ts) <-> In t ts /\ In p (node_paths t).
Proof.
  unfold forest_nodes. rewrite in_flat_map. split.
  - intros [t' [Ht H]]. apply in_map_iff in H. destruct H as [p' [E Hp]]. inversion E; subst. tauto.
  - intros [Ht Hp]. exists t. split; [exact Ht|]. apply in_map. exact Hp.
Qed.

Definition node_reach (x : xrow) (tp : tree * list bool) : bool := reaches (fst tp) (snd tp) x.

Lemma path_matrix_row ts x :
  flat_map (fun t => path_row t true x) ts = map (node_reach x) (forest_nodes ts).
Proof.
  induction ts as [|t ts IH]; simpl; [reflexivity|].
  unfold forest_nodes in *. simpl. rewrite map_app, <- IH. f_equal.
  rewrite path_row_reaches, map_map. apply map_ext. intros p. reflexivity.
Qed.

Definition node_column (X : list xrow) (tp : tree * list bool) : list bool :=
  map (fun x => node_reach x tp) X.

Lemma matrix_columns_nodes ts X :
  matrix_columns (path_matrix ts X) (list_sum (map n_nodes ts)) = map (node_column X) (forest_nodes ts).
Proof.
  unfold matrix_columns, path_matrix. rewrite <- forest_nodes_length.
  destruct (forest_nodes ts) as [|d nodes'] eqn:En; [reflexivity|].
  rewrite <- En. rewrite <- (map_over_nth_seq (node_column X) (forest_nodes ts) d).
  apply map_ext_in. intros j Hj. apply in_seq in Hj. unfold node_column. rewrite map_map.
  apply map_ext. intros x. rewrite path_matrix_row.
  apply nth_map_in. lia.
Qed.

Lemma search1_node_column X t p : search1 (node_column X (t, p)) = rows_reaching t p X.
Proof.
  rewrite search1_filter. unfold node_column, rows_reaching. rewrite map_length.
  apply filter_ext_in'. intros g Hg. apply in_seq in Hg.
  rewrite (nth_map_in (fun x => node_reach x (t, p)) X g false []) by lia. reflexivity.
Qed.

Theorem tree_extents_char ts X A :
  In A (tree_extents ts X) <-> exists t p, In t ts /\ In p (node_paths t) /\ A = rows_reaching t p X.
Proof.
  unfold tree_extents. rewrite matrix_columns_nodes, in_map_iff. split.
  - intros [e [E He]]. apply (proj1 (dedup_In _ _)) in He. apply in_map_iff in He.
    destruct He as [[t p] [E2 Hn]]. subst. apply forest_nodes_In in Hn.
    exists t, p. split; [tauto|]. split; [tauto|]. apply search1_node_column.
  - intros [t [p [Ht [Hp E]]]]. subst. exists (node_column X (t, p)). split; [apply search1_node_column|].
    apply (proj2 (dedup_In _ _)). apply in_map. apply forest_nodes_In. tauto.
Qed.

Theorem tree_extents_NoDup ts X : NoDup (tree_extents ts X).
Proof.
  unfold tree_extents. rewrite matrix_columns_nodes. apply NoDup_map_inj_in; [|apply dedup_NoDup].
  intros x y Hx Hy E. apply search1_inj; [|exact E].
  apply (proj1 (dedup_In _ _)) in Hx. apply (proj1 (dedup_In _ _)) in Hy.
  apply in_map_iff in Hx. apply in_map_iff in Hy.
  destruct Hx as [a [Ea _]]. destruct Hy as [b' [Eb _]]. subst.
  unfold node_column. rewrite !map_length. reflexivity.
Qed.

Theorem tree_extents_spec_char ts X A :
  In A (tree_extents_spec ts X) <-> exists t p, In t ts /\ In p (node_paths t) /\ A = rows_reaching t p X.
Proof.
  unfold tree_extents_spec. rewrite nodup_lists_In, in_flat_map. split.
  - intros [t [Ht H]]. apply in_map_iff in H. destruct H as [p [E Hp]]. exists t, p. auto.
  - intros [t [p [Ht [Hp E]]]]. exists t. split; [exact Ht|]. apply in_map_iff. exists p. auto.
Qed.

Theorem tree_extents_correct ts X :
  NoDup (tree_extents ts X) /\ forall A, In A (tree_extents ts X) <-> In A (tree_extents_spec ts X).
Proof.
  split; [apply tree_extents_NoDup|]. intros A. rewrite tree_extents_char, tree_extents_spec_char. tauto.
Qed.

Lemma rows_reaching_in_range t p X : forall g, In g (rows_reaching t p X) -> g < length X.
Proof. intros g Hg. unfold rows_reaching in Hg. apply filter_In in Hg. destruct Hg as [Hg _]. apply in_seq in Hg. lia. Qed.

(* the root of every tree is reached by all rows *)
Lemma rows_reaching_root t X : rows_reaching t [] X = seq 0 (length X).
Proof. unfold rows_reaching. destruct t; cbn [reaches]; apply Lemmas.C01.filter_true_id. Qed.

Lemma node_paths_root t : In [] (node_paths t).
Proof. destruct t; simpl; left; reflexivity. Qed.

(* Lemmas/C19_Levels.v — calc_levels computes the length of the longest chain from a maximal
   element down to each element, whatever the order in which the poset hands out tops,
   parents and children.
   Part A: the queue loop computes the unique solution of
              level v = 0 (v a top)      level v = 1 + max (level of the parents of v)
   Part B: on a finite partial order whose [parents] are the upper covers, that solution is the
           longest-chain length ([is_height] of Spec/C19_LayoutSpec.v). *)
From Coq Require Import ZArith QArith.
From FCA Require Import Base.ListSet Model.C19_LineLayout Spec.C19_LayoutSpec Lemmas.C19_Mover.
Local Open Scope nat_scope.

(* ------------------------------------------------------------------ counting *)
Lemma filter_length_le {A} (p q : A -> bool) l :
  (forall x, In x l -> q x = true -> p x = true) -> length (filter q l) <= length (filter p l).
Proof.
  induction l as [|a l IH]; intro H; cbn; [lia|].
  assert (IH' : length (filter q l) <= length (filter p l)) by (apply IH; intros; apply H; auto; now right).
  destruct (q a) eqn:Q.
  - rewrite (H a (or_introl eq_refl) Q). cbn. lia.
  - destruct (p a); cbn; lia.
Qed.

Lemma filter_len_bound {A} (q : A -> bool) l : length (filter q l) <= length l.
Proof. induction l as [|a l IH]; cbn; [lia|]. destruct (q a); cbn; lia. Qed.

Lemma filter_length_lt {A} (p q : A -> bool) l y :
  (forall x, In x l -> q x = true -> p x = true) -> In y l -> p y = true -> q y = false ->
  length (filter q l) < length (filter p l).
Proof.
  induction l as [|a l IH]; intros H Hy Py Qy; [contradiction|]. cbn.
  assert (Hle : length (filter q l) <= length (filter p l)) by (apply filter_length_le; intros; apply H; auto; now right).
  destruct Hy as [->|Hy].
  - rewrite Py, Qy. cbn. lia.
  - assert (IH' : length (filter q l) < length (filter p l)) by (apply IH; auto; intros; apply H; auto; now right).
    destruct (q a) eqn:Q.
    + rewrite (H a (or_introl eq_refl) Q). cbn. lia.
    + destruct (p a); cbn; lia.
Qed.

Lemma NoDup_app_intro {A} (a b : list A) :
  NoDup a -> NoDup b -> (forall x, In x a -> In x b -> False) -> NoDup (a ++ b).
Proof.
  induction a as [|x a IH]; intros Ha Hb D; cbn; [exact Hb|].
  inversion Ha; subst. constructor.
  - intro H. apply in_app_or in H. destruct H as [H|H]; [contradiction | apply (D x); [now left | exact H]].
  - apply IH; auto. intros y Hy. apply D. now right.
Qed.

Lemma list_max_in (l : list nat) x : In x l -> x <= list_max l.
Proof.
  intro H. pose proof (proj1 (list_max_le l (list_max l)) (le_n _)) as F.
  rewrite Forall_forall in F. apply F. exact H.
Qed.

Lemma list_max_attained (l : list nat) : l <> [] -> In (list_max l) l.
Proof.
  induction l as [|a l IH]; [congruence|]. intros _. cbn [list_max fold_right].
  destruct l as [|b l]; [cbn; lia|].
  fold (list_max (b :: l)). destruct (Nat.max_spec a (list_max (b :: l))) as [[_ ->]|[_ ->]].
  - right. apply IH. congruence.
  - now left.
Qed.

Lemma fold_left_zmax (t : list nat) (x : nat) :
  fold_left Z.max (map Z.of_nat t) (Z.of_nat x) = Z.of_nat (Nat.max x (list_max t)).
Proof.
  revert x. induction t as [|a t IH]; intro x; cbn [map fold_left list_max fold_right].
  - f_equal. lia.
  - rewrite <- Nat2Z.inj_max, IH. f_equal. fold (list_max t). lia.
Qed.

Lemma zmax_list_nat (l : list nat) :
  l <> [] -> zmax_list (map Z.of_nat l) = Some (Z.of_nat (list_max l)).
Proof.
  destruct l as [|a t]; [congruence|]. intros _. cbn [map zmax_list]. rewrite fold_left_zmax. reflexivity.
Qed.

(* ================================================================== Part A *)
Section Loop.
Variable n : nat.
Variable parents children : nat -> list nat.
Variable tops : list nat.
Variable h : nat -> nat.

Hypothesis tops_range : forall t, In t tops -> t < n.
Hypothesis tops_nodup : NoDup tops.
Hypothesis top_iff : forall v, v < n -> (In v tops <-> parents v = []).
Hypothesis h_top : forall v, In v tops -> h v = 0.
Hypothesis h_rec : forall v, v < n -> parents v <> [] -> h v = S (list_max (map h (parents v))).
Hypothesis parents_range : forall v p, v < n -> In p (parents v) -> p < n.
Hypothesis children_spec : forall v c, v < n -> (In c (children v) <-> c < n /\ In v (parents c)).
Hypothesis children_nodup : forall v, v < n -> NoDup (children v).

Notation lev := C19_LineLayout.lev.

Definition ready (levels : list Z) (v : nat) : Prop :=
  forall p, In p (parents v) -> (0 <= lev levels p)%Z.

Record Inv (levels : list Z) (queue : list nat) : Prop := {
  inv_len : length levels = n;
  inv_val : forall v, v < n -> lev levels v = (-1)%Z \/ lev levels v = Z.of_nat (h v);
  inv_up : forall v, v < n -> (0 <= lev levels v)%Z -> ready levels v;
  inv_q_nodup : NoDup queue;
  inv_q : forall v, In v queue -> v < n /\ lev levels v = (-1)%Z /\ ready levels v;
  inv_ready : forall v, v < n -> lev levels v = (-1)%Z -> ready levels v -> In v queue
}.

Lemma h_parent_lt v p : v < n -> In p (parents v) -> h p < h v.
Proof.
  intros Hv Hp. rewrite (h_rec v Hv) by (intro E; rewrite E in Hp; contradiction).
  assert (h p <= list_max (map h (parents v))) by (apply list_max_in, in_map, Hp). lia.
Qed.

Lemma lev_set_eq levels v l : v < length levels -> lev (set_nth v l levels) v = l.
Proof. intro H. unfold C19_LineLayout.lev. apply nth_set_nth_eq. exact H. Qed.
Lemma lev_set_neq levels v u l : v <> u -> lev (set_nth v l levels) u = lev levels u.
Proof. intro H. unfold C19_LineLayout.lev. apply nth_set_nth_neq. exact H. Qed.

Definition is_new (levels' : list Z) (c : nat) : bool :=
  Z.eqb (lev levels' c) (-1) && forallb (fun p => Z.leb 0 (lev levels' p)) (parents c).

Lemma is_new_spec levels' c :
  is_new levels' c = true <-> lev levels' c = (-1)%Z /\ ready levels' c.
Proof.
  unfold is_new, ready. rewrite andb_true_iff, Z.eqb_eq, forallb_forall.
  split; intros [A B]; split; auto; intros p Hp; specialize (B p Hp); [apply Z.leb_le in B | apply Z.leb_le]; exact B.
Qed.

(* the level written for the popped node *)
Lemma popped_level levels v q :
  Inv levels (v :: q) ->
  (if mem v tops then Some 0%Z
   else match zmax_list (map (lev levels) (parents v)) with
        | Some m => Some (m + 1)%Z | None => None end) = Some (Z.of_nat (h v)).
Proof.
  intro I. destruct (inv_q _ _ I v (or_introl eq_refl)) as (Hv & _ & R).
  destruct (mem v tops) eqn:M.
  - apply mem_In in M. rewrite (h_top v M). reflexivity.
  - apply mem_false_iff in M.
    assert (P : parents v <> []) by (intro E; apply M; apply top_iff; assumption).
    assert (E : map (lev levels) (parents v) = map Z.of_nat (map h (parents v))).
    { rewrite map_map. apply map_ext_in. intros p Hp.
      destruct (inv_val _ _ I p (parents_range v p Hv Hp)) as [B|B]; [|exact B].
      specialize (R p Hp). lia. }
    rewrite E, zmax_list_nat by (destruct (parents v); [congruence | discriminate]).
    rewrite (h_rec v Hv P). f_equal. lia.
Qed.

Lemma step_inv levels v q :
  Inv levels (v :: q) ->
  let levels' := set_nth v (Z.of_nat (h v)) levels in
  Inv levels' (q ++ filter (is_new levels') (children v)).
Proof.
  intro I. destruct (inv_q _ _ I v (or_introl eq_refl)) as (Hv & Uv & Rv).
  pose proof (inv_len _ _ I) as Len.
  pose proof (inv_q_nodup _ _ I) as ND. inversion ND as [|? ? Hvq NDq]; subst.
  intro levels'.
  assert (Lv : lev levels' v = Z.of_nat (h v)) by (apply lev_set_eq; lia).
  assert (Lo : forall u, u <> v -> lev levels' u = lev levels u) by (intros u Hu; apply lev_set_neq; congruence).
  assert (Mono : forall u, (0 <= lev levels u)%Z -> (0 <= lev levels' u)%Z).
  { intros u Hu. destruct (Nat.eq_dec u v) as [->|N]; [lia | now rewrite Lo]. }
  assert (RMono : forall u, ready levels u -> ready levels' u) by (intros u R p Hp; apply Mono, R, Hp).
  constructor.
  - unfold levels'. now rewrite set_nth_length.
  - intros u Hu. destruct (Nat.eq_dec u v) as [->|N]; [right; exact Lv|]. rewrite Lo by exact N. apply (inv_val _ _ I u Hu).
  - intros u Hu Lu. destruct (Nat.eq_dec u v) as [->|N]; [apply RMono, Rv|].
    rewrite Lo in Lu by exact N. apply RMono. apply (inv_up _ _ I u Hu Lu).
  - (* NoDup *)
    apply NoDup_app_intro; [exact NDq | apply NoDup_filter, children_nodup, Hv |].
    intros c Hcq Hcn. apply filter_In in Hcn. destruct Hcn as [Hc _].
    apply (children_spec v c Hv) in Hc. destruct Hc as [_ Hvc].
    destruct (inv_q _ _ I c (or_intror Hcq)) as (_ & _ & Rc). specialize (Rc v Hvc). lia.
  - intros u Hu. apply in_app_or in Hu. destruct Hu as [Hu|Hu].
    + destruct (inv_q _ _ I u (or_intror Hu)) as (A & B & C).
      assert (u <> v) by (intro; subst; contradiction).
      split; [exact A|]. split; [rewrite Lo by assumption; exact B | apply RMono, C].
    + apply filter_In in Hu. destruct Hu as [Hc Hn]. apply is_new_spec in Hn.
      apply (children_spec v u Hv) in Hc. tauto.
  - intros u Hu Uu Ru. apply in_or_app.
    assert (Nuv : u <> v) by (intro; subst; lia).
    rewrite Lo in Uu by exact Nuv.
    destruct (in_dec Nat.eq_dec v (parents u)) as [Hin|Hout].
    + right. apply filter_In. split; [apply (children_spec v u Hv); tauto|].
      apply is_new_spec. split; [rewrite Lo by exact Nuv; exact Uu | exact Ru].
    + left. assert (R0 : ready levels u).
      { intros p Hp. specialize (Ru p Hp). rewrite Lo in Ru by (intro; subst; contradiction). exact Ru. }
      destruct (inv_ready _ _ I u Hu Uu R0) as [E|E]; [congruence | exact E].
Qed.

Definition nunlev (levels : list Z) : nat :=
  length (filter (fun v => Z.eqb (lev levels v) (-1)) (seq 0 n)).

Lemma loop_correct : forall fuel levels queue,
  Inv levels queue -> nunlev levels < fuel ->
  exists levels', calc_loop parents children tops fuel levels queue = LOk levels' /\ Inv levels' [].
Proof.
  induction fuel as [|f IH]; intros levels queue I F; [lia|].
  destruct queue as [|v q]; [exists levels; split; [reflexivity | exact I]|].
  cbn [calc_loop]. rewrite (popped_level levels v q I).
  destruct (inv_q _ _ I v (or_introl eq_refl)) as (Hv & Uv & _).
  apply IH.
  - apply (step_inv levels v q I).
  - assert (nunlev (set_nth v (Z.of_nat (h v)) levels) < nunlev levels); [|lia].
    unfold nunlev. apply filter_length_lt with (y := v).
    + intros x _ Hx. destruct (Nat.eq_dec x v) as [->|N].
      * rewrite lev_set_eq in Hx by (rewrite (inv_len _ _ I); exact Hv). apply Z.eqb_eq in Hx. lia.
      * rewrite lev_set_neq in Hx by congruence. exact Hx.
    + apply in_seq. lia.
    + apply Z.eqb_eq. exact Uv.
    + rewrite lev_set_eq by (rewrite (inv_len _ _ I); exact Hv). apply Z.eqb_neq. lia.
Qed.

Lemma lev_repeat k v : lev (repeat (-1)%Z k) v = (-1)%Z.
Proof.
  unfold C19_LineLayout.lev. revert v. induction k as [|k IH]; intros [|v]; cbn; auto.
Qed.

Lemma init_inv : Inv (repeat (-1)%Z n) tops.
Proof.
  constructor.
  - apply repeat_length.
  - intros v _. left. apply lev_repeat.
  - intros v _ H. rewrite lev_repeat in H. lia.
  - exact tops_nodup.
  - intros v Hv. split; [apply tops_range, Hv|]. split; [apply lev_repeat|].
    intros p Hp. apply (top_iff v (tops_range v Hv)) in Hv. rewrite Hv in Hp. contradiction.
  - intros v Hv _ R. apply (top_iff v Hv). destruct (parents v) as [|p ps] eqn:E; [reflexivity|].
    assert (Hp : In p (parents v)) by (rewrite E; now left).
    specialize (R p Hp). rewrite lev_repeat in R. lia.
Qed.

Lemma final_all_levelled levels : Inv levels [] -> forall v, v < n -> lev levels v = Z.of_nat (h v).
Proof.
  intro I. assert (G : forall k v, h v < k -> v < n -> lev levels v = Z.of_nat (h v)).
  { induction k as [|k IH]; intros v Hk Hv; [lia|].
    destruct (inv_val _ _ I v Hv) as [U|D]; [|exact D]. exfalso.
    apply (inv_ready _ _ I v Hv U). intros p Hp.
    rewrite (IH p) by (try (pose proof (h_parent_lt v p Hv Hp); lia); apply (parents_range v p Hv Hp)). lia. }
  intros v Hv. apply (G (S (h v))); [lia | exact Hv].
Qed.

Lemma calc_loop_levels :
  exists levels, calc_loop parents children tops (S n) (repeat (-1)%Z n) tops = LOk levels /\
                 length levels = n /\ forall v, v < n -> lev levels v = Z.of_nat (h v).
Proof.
  destruct (loop_correct (S n) (repeat (-1)%Z n) tops init_inv) as (levels & E & I).
  - unfold nunlev.
    assert (length (filter (fun v => Z.eqb (lev (repeat (-1)%Z n) v) (-1)) (seq 0 n)) <= length (seq 0 n)) by apply filter_len_bound.
    rewrite seq_length in H. lia.
  - exists levels. split; [exact E|]. split; [apply (inv_len _ _ I) | apply final_all_levelled, I].
Qed.

Lemma calc_levels_ok :
  exists levels ld, calc_levels n parents children tops = LOk (levels, ld) /\
                    length levels = n /\ forall v, v < n -> lev levels v = Z.of_nat (h v).
Proof.
  destruct calc_loop_levels as (levels & E & Len & Hl).
  unfold calc_levels. rewrite E. cbv zeta.
  assert (NN : existsb (fun z => Z.ltb z 0) levels = false).
  { destruct (existsb (fun z => Z.ltb z 0) levels) eqn:X; [|reflexivity]. exfalso.
    apply existsb_exists in X. destruct X as (z & Hz & Lz). apply Z.ltb_lt in Lz.
    destruct (In_nth _ _ (-1)%Z Hz) as (i & Hi & Ei). rewrite Len in Hi.
    specialize (Hl i Hi). unfold C19_LineLayout.lev in Hl. rewrite Ei in Hl. lia. }
  rewrite NN. eexists. eexists. split; [reflexivity|]. split; assumption.
Qed.
End Loop.

(* ================================================================== Part B *)
Section Heights.
Variable n : nat.
Variable leq : nat -> nat -> bool.
Variable parents children : nat -> list nat.
Variable tops : list nat.

Hypothesis antisym : forall a b, a < n -> b < n -> leq a b = true -> leq b a = true -> a = b.
Hypothesis trans : forall a b c, a < n -> b < n -> c < n -> leq a b = true -> leq b c = true -> leq a c = true.

Notation lt' := (slt leq).
Definition cov (lo hi : nat) : bool := covers_of n leq lo hi.

(* the poset's answers, in any order *)
Hypothesis parents_spec : forall v p, v < n -> (In p (parents v) <-> p < n /\ cov v p = true).
Hypothesis children_spec : forall v c, v < n -> (In c (children v) <-> c < n /\ cov c v = true).
Hypothesis children_nodup : forall v, v < n -> NoDup (children v).
Hypothesis tops_spec : forall t, In t tops <-> t < n /\ forall j, j < n -> lt' t j = false.
Hypothesis tops_nodup : NoDup tops.

Lemma slt_leq a b : lt' a b = true -> leq a b = true /\ a <> b.
Proof. unfold slt. rewrite andb_true_iff, negb_true_iff, Nat.eqb_neq. tauto. Qed.

Lemma slt_intro a b : leq a b = true -> a <> b -> lt' a b = true.
Proof. intros H N. unfold slt. rewrite H. apply Nat.eqb_neq in N. now rewrite N. Qed.

Lemma slt_irrefl a : lt' a a = false.
Proof. unfold slt. rewrite Nat.eqb_refl. now rewrite andb_false_r. Qed.

Lemma slt_trans a b c : a < n -> b < n -> c < n -> lt' a b = true -> lt' b c = true -> lt' a c = true.
Proof.
  intros Ha Hb Hc H1 H2. apply slt_leq in H1. apply slt_leq in H2. destruct H1 as [L1 N1], H2 as [L2 N2].
  apply slt_intro; [apply (trans a b c); auto|]. intro; subst c. apply N1. apply antisym; auto.
Qed.

Lemma cov_slt v p : cov v p = true -> lt' v p = true.
Proof. unfold cov, covers_of. rewrite andb_true_iff. intros [H _]. exact H. Qed.

Definition between (v j : nat) : list nat := filter (fun k => lt' v k && lt' k j) (seq 0 n).

Lemma cov_intro v j : lt' v j = true -> between v j = [] -> cov v j = true.
Proof.
  intros H B. unfold cov, covers_of. change (ltb_of leq v j) with (lt' v j). rewrite H. cbn [andb].
  apply negb_true_iff. destruct (existsb _ _) eqn:E; [|reflexivity].
  apply existsb_exists in E. destruct E as (k & Hk & Bk).
  assert (In k (between v j)) by (apply filter_In; split; assumption). rewrite B in H0. contradiction.
Qed.

Lemma below_some_cover : forall m v j,
  v < n -> j < n -> length (between v j) <= m -> lt' v j = true ->
  exists p, p < n /\ cov v p = true /\ (p = j \/ lt' p j = true).
Proof.
  induction m as [|m IH]; intros v j Hv Hj Hm Hlt.
  - exists j. split; [exact Hj|]. split; [|now left]. apply cov_intro; [exact Hlt|].
    destruct (between v j); [reflexivity | cbn in Hm; lia].
  - destruct (between v j) as [|k rest] eqn:B.
    + exists j. split; [exact Hj|]. split; [|now left]. apply cov_intro; assumption.
    + assert (Hk : In k (between v j)) by (rewrite B; now left).
      apply filter_In in Hk. destruct Hk as [Hkn Hk]. apply in_seq in Hkn.
      apply andb_true_iff in Hk. destruct Hk as [Hvk Hkj].
      assert (Hlen : length (between v k) < length (between v j)).
      { unfold between. apply filter_length_lt with (y := k).
        - intros x Hx Hb. apply in_seq in Hx. apply andb_true_iff in Hb. destruct Hb as [B1 B2].
          rewrite B1. cbn [andb]. apply (slt_trans x k j); auto; lia.
        - apply in_seq. lia.
        - now rewrite Hvk, Hkj.
        - now rewrite slt_irrefl, andb_false_r. }
      destruct (IH v k Hv ltac:(lia) ltac:(rewrite B in Hlen; cbn in *; lia) Hvk) as (p & Hp & Cp & Rp).
      exists p. split; [exact Hp|]. split; [exact Cp|]. right.
      destruct Rp as [->|Rp]; [exact Hkj | apply (slt_trans p k j); auto; lia].
Qed.

Lemma no_parents_maximal v : v < n -> parents v = [] -> forall j, j < n -> lt' v j = false.
Proof.
  intros Hv E j Hj. destruct (lt' v j) eqn:L; [|reflexivity]. exfalso.
  destruct (below_some_cover _ v j Hv Hj (le_n _) L) as (p & Hp & Cp & _).
  assert (In p (parents v)) by (apply parents_spec; auto). rewrite E in H. contradiction.
Qed.

Lemma top_iff_parents v : v < n -> (In v tops <-> parents v = []).
Proof.
  intro Hv. rewrite tops_spec. split.
  - intros [_ M]. destruct (parents v) as [|p ps] eqn:E; [reflexivity|]. exfalso.
    assert (Hp : In p (parents v)) by (rewrite E; now left).
    apply parents_spec in Hp; [|exact Hv]. destruct Hp as [Hp Cp]. apply cov_slt in Cp. rewrite (M p Hp) in Cp. discriminate.
  - intro E. split; [exact Hv | apply no_parents_maximal; assumption].
Qed.

(* ---- the height function: level recursion along upper covers, with enough fuel *)
Fixpoint hh (fuel v : nat) : nat :=
  match fuel with
  | O => O
  | S f => match parents v with [] => O | ps => S (list_max (map (hh f) ps)) end
  end.

Definition upsize (v : nat) : nat := length (filter (lt' v) (seq 0 n)).

Lemma upsize_lt v p : v < n -> p < n -> lt' v p = true -> upsize p < upsize v.
Proof.
  intros Hv Hp L. unfold upsize. apply filter_length_lt with (y := p).
  - intros x Hx Hpx. apply in_seq in Hx. apply (slt_trans v p x); auto; lia.
  - apply in_seq. lia.
  - exact L.
  - apply slt_irrefl.
Qed.

Lemma upsize_bound v : v < n -> upsize v < n.
Proof.
  intro Hv. unfold upsize.
  assert (length (filter (lt' v) (seq 0 n)) < length (filter (fun _ => true) (seq 0 n))).
  { apply filter_length_lt with (y := v); auto; [apply in_seq; lia | apply slt_irrefl]. }
  assert (length (filter (fun _ : nat => true) (seq 0 n)) <= length (seq 0 n)) by apply filter_len_bound.
  rewrite seq_length in H0. lia.
Qed.

Lemma hh_stable : forall f v, v < n -> upsize v < f -> hh (S f) v = hh f v.
Proof.
  induction f as [|f IH]; intros v Hv Hu; [lia|].
  cbn [hh]. destruct (parents v) as [|p ps] eqn:E; [reflexivity|]. f_equal. f_equal.
  apply map_ext_in. intros x Hx. rewrite <- E in Hx. apply parents_spec in Hx; [|exact Hv].
  destruct Hx as [Hxn Cx]. change (hh (S f) x = hh f x). apply IH; [exact Hxn|].
  pose proof (upsize_lt v x Hv Hxn (cov_slt _ _ Cx)). lia.
Qed.

Definition hgt (v : nat) : nat := hh n v.

Lemma hgt_top v : In v tops -> hgt v = 0.
Proof.
  intro H. pose proof (proj1 (tops_spec v) H) as [Hv _]. apply (top_iff_parents v Hv) in H.
  unfold hgt. destruct n; [reflexivity|]. cbn [hh]. now rewrite H.
Qed.

Lemma hgt_rec v : v < n -> parents v <> [] -> hgt v = S (list_max (map hgt (parents v))).
Proof.
  intros Hv P. unfold hgt. destruct n as [|m] eqn:En; [lia|]. rewrite <- En in *.
  rewrite En at 1. cbn [hh]. destruct (parents v) as [|p ps] eqn:E; [congruence|]. f_equal. f_equal.
  apply map_ext_in. intros x Hx. rewrite <- E in Hx. apply parents_spec in Hx; [|exact Hv].
  destruct Hx as [Hxn Cx]. rewrite En. symmetry. apply hh_stable; [exact Hxn|].
  pose proof (upsize_lt v x Hv Hxn (cov_slt _ _ Cx)). pose proof (upsize_bound v Hv). lia.
Qed.

(* strictly bigger elements have strictly smaller height *)
Lemma hgt_antitone : forall m v j,
  v < n -> j < n -> upsize v <= m -> lt' v j = true -> hgt j < hgt v.
Proof.
  induction m as [|m IH]; intros v j Hv Hj Hm L.
  - exfalso. unfold upsize in Hm.
    assert (In j (filter (lt' v) (seq 0 n))) by (apply filter_In; split; [apply in_seq; lia | exact L]).
    destruct (filter (lt' v) (seq 0 n)); [contradiction | cbn in Hm; lia].
  - destruct (below_some_cover _ v j Hv Hj (le_n _) L) as (p & Hp & Cp & Rp).
    assert (Pin : In p (parents v)) by (apply parents_spec; auto).
    assert (Hpv : hgt p < hgt v).
    { rewrite (hgt_rec v Hv) by (intro E; rewrite E in Pin; contradiction).
      assert (hgt p <= list_max (map hgt (parents v))) by (apply list_max_in, in_map, Pin). lia. }
    destruct Rp as [->|Rp]; [exact Hpv|].
    assert (hgt j < hgt p); [|lia]. apply IH; auto.
    pose proof (upsize_lt v p Hv Hp (cov_slt _ _ Cp)). lia.
Qed.

Lemma last_cons {A} (a : A) l d : last (a :: l) d = last l a.
Proof.
  revert a d. induction l as [|b l IH]; intros a d; [reflexivity|].
  change (last (a :: b :: l) d) with (last (b :: l) d). rewrite (IH b d), (IH b a). reflexivity.
Qed.

Lemma hgt_is_height v : v < n -> is_height n leq v (hgt v).
Proof.
  intro Hv. split.
  - (* a chain of that length up to a maximal element *)
    assert (G : forall k v, v < n -> hgt v = k ->
                exists l, asc n leq v l /\ length l = k /\ maximal n leq (last l v)).
    { induction k as [|k IH]; intros u Hu Hk.
      - exists []. split; [exact I|]. split; [reflexivity|]. cbn [last].
        intros j Hj. apply no_parents_maximal; auto.
        destruct (parents u) eqn:E; [reflexivity|]. rewrite hgt_rec in Hk by (auto; congruence). discriminate.
      - assert (P : parents u <> []).
        { intro E. assert (In u tops) by (apply top_iff_parents; auto). rewrite (hgt_top u H) in Hk. discriminate. }
        rewrite (hgt_rec u Hu P) in Hk. injection Hk as Hk.
        assert (Hin : In (list_max (map hgt (parents u))) (map hgt (parents u))).
        { apply list_max_attained. destruct (parents u); [congruence | discriminate]. }
        apply in_map_iff in Hin. destruct Hin as (p & Ep & Hp).
        apply parents_spec in Hp; [|exact Hu]. destruct Hp as [Hpn Cp].
        destruct (IH p Hpn ltac:(lia)) as (l & A & Len & Mx).
        exists (p :: l). split; [|split].
        + cbn [asc]. split; [apply cov_slt; exact Cp|]. split; assumption.
        + cbn [length]. lia.
        + rewrite last_cons. exact Mx. }
    apply (G (hgt v) v Hv eq_refl).
  - (* no longer chain *)
    intro l. revert v Hv. induction l as [|j t IH]; intros v Hv A; [cbn; lia|].
    cbn [asc] in A. destruct A as (L & Hj & A). specialize (IH j Hj A).
    pose proof (hgt_antitone _ v j Hv Hj (le_n _) L). cbn [length]. lia.
Qed.

(* parents are inside the poset; children are the transposed relation *)
Lemma parents_in v p : v < n -> In p (parents v) -> p < n.
Proof. intros Hv Hp. apply parents_spec in Hp; tauto. Qed.

Lemma children_parents v c : v < n -> (In c (children v) <-> c < n /\ In v (parents c)).
Proof.
  intro Hv. rewrite children_spec by exact Hv. split; intros [Hc H]; split; auto.
  - apply parents_spec; auto.
  - apply parents_spec in H; tauto.
Qed.

Theorem levels_longest_chain :
  exists levels ld,
    calc_levels n parents children tops = LOk (levels, ld) /\ length levels = n /\
    forall v, v < n -> exists k, lev levels v = Z.of_nat k /\ is_height n leq v k.
Proof.
  destruct (calc_levels_ok n parents children tops hgt) as (levels & ld & E & Len & Hl); auto.
  - intros t Ht. apply tops_spec in Ht. tauto.
  - apply top_iff_parents.
  - apply hgt_top.
  - apply hgt_rec.
  - apply parents_in.
  - apply children_parents.
  - exists levels, ld. split; [exact E|]. split; [exact Len|].
    intros v Hv. exists (hgt v). split; [apply Hl; exact Hv | apply hgt_is_height; exact Hv].
Qed.

(* heights are unique, so "the" level is well defined *)
Lemma is_height_unique v k k' : is_height n leq v k -> is_height n leq v k' -> k = k'.
Proof.
  intros [(l & A & L & _) U] [(l' & A' & L' & _) U'].
  specialize (U l' A'). specialize (U' l A). lia.
Qed.

(* strictly smaller elements get strictly larger levels *)
Lemma level_strict v j : v < n -> j < n -> lt' v j = true -> hgt j < hgt v.
Proof. intros Hv Hj L. apply (hgt_antitone _ v j Hv Hj (le_n _) L). Qed.
End Heights.

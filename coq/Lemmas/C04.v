(* Lemmas/C04.v — proofs for property C04: the reduced labels of the complete concept lattice.
   g is in the new extent of node i  iff  node i is the object concept of g (least concept
   containing g); m is in the new intent of node i  iff  node i is the attribute concept of m;
   g I m  iff  node(g) <= node(m); the table is recovered from labels + order. *)
From Coq Require Import Sorting.Sorted Permutation.
From FCA Require Import Base.ListSet Base.Order Model.LatticeOrder Spec.Closure Spec.LatticeOrderSpec
     Lemmas.C03 Lemmas.C03_lattice.

Lemma in_range_single n x : x < n -> in_range n [x].
Proof. intros H y [<-|[]]. exact H. Qed.

Lemma obj_concept_is_concept t g : g < height t -> is_concept t (cl_obj t [g]) (int t [g]).
Proof. intros H. apply closure_is_concept. apply in_range_single. exact H. Qed.

Lemma attr_concept_is_concept t m : m < width t -> is_concept t (ext t [m]) (cl_attr t [m]).
Proof.
  intros H. split; [|reflexivity]. unfold cl_attr. symmetry. apply ext_int_ext.
  apply in_range_single. exact H.
Qed.

Lemma In_ext_single t g m : In g (ext t [m]) <-> g < height t /\ I t g m = true.
Proof.
  rewrite ext_In. split; intros [H1 H2]; split; auto.
  - apply H2. left. reflexivity.
  - intros m' [<-|[]]. exact H2.
Qed.

Lemma In_int_single t g m : In m (int t [g]) <-> m < width t /\ I t g m = true.
Proof.
  rewrite int_In. split; intros [H1 H2]; split; auto.
  - apply H2. left. reflexivity.
  - intros g' [<-|[]]. exact H2.
Qed.

Section Labels.
  Variable t : table.
  Variable cs : list concept.
  Hypothesis HF : full_lattice t cs.
  Let n := length cs.
  Let HL : concept_list t cs := proj1 HF.
  Let PO := leq_i_partial_order t cs HL.

  Lemma children_are_lower_covers i : i < n ->
    children_nocache cs i = lower_covers Nat.eqb (leq_i cs) (idxs cs) i.
  Proof.
    intros Hi. rewrite (children_spec t cs HL i Hi). symmetry. apply (lower_covers_spec t cs HL i Hi).
  Qed.

  Lemma parents_are_upper_covers i : i < n ->
    parents_nocache cs i = upper_covers Nat.eqb (leq_i cs) (idxs cs) i.
  Proof.
    intros Hi. rewrite (parents_spec t cs HL i Hi). symmetry. apply (upper_covers_spec t cs HL i Hi).
  Qed.

  Lemma extent_closed i : i < n -> cl_obj t (extent cs i) = extent cs i.
  Proof. intros Hi. eapply concept_extent_closed. apply (extent_concept t cs HL i Hi). Qed.

  Lemma In_new_extent i g :
    In g (new_extent_i cs i) <->
    In g (extent cs i) /\ forall c, In c (children_nocache cs i) -> ~ In g (extent cs c).
  Proof.
    unfold new_extent_i, new_extent_of. rewrite diff_In. split; intros [H1 H2]; split; auto.
    - intros c Hc Hg. apply H2. apply in_concat. exists (extent cs c). split; [|exact Hg].
      apply in_map. exact Hc.
    - intros Hc. apply in_concat in Hc. destruct Hc as [A [HA Hg]]. apply in_map_iff in HA.
      destruct HA as [c [<- Hc]]. apply (H2 c Hc Hg).
  Qed.

  Lemma In_new_intent i m :
    In m (new_intent_i cs i) <->
    In m (intent cs i) /\ forall p, In p (parents_nocache cs i) -> ~ In m (intent cs p).
  Proof.
    unfold new_intent_i, new_intent_of. rewrite diff_In. split; intros [H1 H2]; split; auto.
    - intros c Hc Hg. apply H2. apply in_concat. exists (intent cs c). split; [|exact Hg].
      apply in_map. exact Hc.
    - intros Hc. apply in_concat in Hc. destruct Hc as [A [HA Hg]]. apply in_map_iff in HA.
      destruct HA as [c [<- Hc]]. apply (H2 c Hc Hg).
  Qed.

  (* the closure of {g} lies inside every extent that contains g *)
  Lemma cl_single_incl i g : i < n -> In g (extent cs i) -> incl (cl_obj t [g]) (extent cs i).
  Proof.
    intros Hi Hg. rewrite <- (extent_closed i Hi). apply cl_obj_monotone.
    intros x [<-|[]]. exact Hg.
  Qed.

  Lemma In_cl_single g : g < height t -> In g (cl_obj t [g]).
  Proof.
    intros Hg. apply (ext_int_extensive t [g]); [apply in_range_single; exact Hg | left; reflexivity].
  Qed.

  (* node i carries object g  iff  its extent is the closure of {g} *)
  Theorem new_extent_char i g : i < n -> g < height t ->
    (In g (new_extent_i cs i) <-> extent cs i = cl_obj t [g]).
  Proof.
    intros Hi Hg.
    destruct (concept_index t cs HF _ _ (obj_concept_is_concept t g Hg)) as [j [Hj [Ej _]]].
    fold n in Hj. rewrite In_new_extent. split.
    - intros [Hin Hno].
      assert (L : leq_i cs j i = true).
      { apply (leq_incl t cs HF); [exact Hj|]. rewrite Ej. apply cl_single_incl; assumption. }
      destruct (leq_cases nat Nat.eqb (leq_i cs) nat_eqb_ok (idxs cs) j i) as [->|L2];
        try (apply (In_idxs cs); assumption); auto.
      exfalso.
      destruct (below_some_cover nat Nat.eqb (leq_i cs) nat_eqb_ok (idxs cs) PO i
                  (proj2 (In_idxs cs i) Hi) j (proj2 (In_idxs cs j) Hj) L2) as [c [Hc Ljc]].
      apply (Hno c); [rewrite children_are_lower_covers by exact Hi; exact Hc|].
      apply (leq_incl t cs HF) in Ljc; [|exact Hj]. apply Ljc. rewrite Ej. apply In_cl_single. exact Hg.
    - intros E. split; [rewrite E; apply In_cl_single; exact Hg|].
      intros c Hc Hgc. rewrite children_are_lower_covers in Hc by exact Hi.
      apply (In_lower_covers nat Nat.eqb (leq_i cs)) in Hc. destruct Hc as [Hc [Lci _]].
      apply (In_idxs cs) in Hc. fold n in Hc.
      apply (slt_spec nat Nat.eqb (leq_i cs) nat_eqb_ok) in Lci. destruct Lci as [Lci Hne].
      apply Hne. apply (proj1 (proj2 PO)); try (apply (In_idxs cs); assumption); auto.
      apply (leq_incl t cs HF); [exact Hi|]. rewrite E. apply cl_single_incl; assumption.
  Qed.

  (* node i carries attribute m  iff  its intent is the closure of {m} *)
  Theorem new_intent_char i m : i < n -> m < width t ->
    (In m (new_intent_i cs i) <-> intent cs i = cl_attr t [m]).
  Proof.
    intros Hi Hm.
    destruct (concept_index t cs HF _ _ (attr_concept_is_concept t m Hm)) as [j [Hj [Ej Ij]]].
    fold n in Hj. rewrite In_new_intent.
    assert (Mext : forall k, k < n -> (In m (intent cs k) <-> incl (extent cs k) (ext t [m]))).
    { intros k Hk. rewrite (intent_eq_int t cs HL k Hk), int_In. split.
      - intros [_ H] g Hgk. apply In_ext_single. split; [|apply H; exact Hgk].
        apply (extent_in_range t cs HF k Hk) in Hgk. apply in_seq in Hgk. lia.
      - intros H. split; [exact Hm|]. intros g Hgk. apply H in Hgk. apply In_ext_single in Hgk. tauto. }
    split.
    - intros [Hin Hno].
      assert (L : leq_i cs i j = true).
      { apply (leq_incl t cs HF); [exact Hi|]. rewrite Ej. apply Mext; assumption. }
      destruct (leq_cases nat Nat.eqb (leq_i cs) nat_eqb_ok (idxs cs) i j) as [->|L2];
        try (apply (In_idxs cs); assumption); auto.
      exfalso.
      destruct (above_some_cover Nat.eqb (leq_i cs) nat_eqb_ok (idxs cs) PO i
                  (proj2 (In_idxs cs i) Hi) j (proj2 (In_idxs cs j) Hj) L2) as [p [Hp Lpj]].
      apply (Hno p); [rewrite parents_are_upper_covers by exact Hi; exact Hp|].
      assert (Hpn : p < n).
      { apply (In_upper_covers Nat.eqb (leq_i cs) nat_eqb_ok) in Hp. apply (In_idxs cs). tauto. }
      apply Mext; [exact Hpn|]. rewrite <- Ej. apply (leq_incl t cs HF); assumption.
    - intros E. split; [rewrite E; apply (int_ext_extensive t [m]);
                        [apply in_range_single; exact Hm | left; reflexivity]|].
      intros p Hp Hmp. rewrite parents_are_upper_covers in Hp by exact Hi.
      apply (In_upper_covers Nat.eqb (leq_i cs) nat_eqb_ok) in Hp. destruct Hp as [Hp [Lip _]].
      apply (In_idxs cs) in Hp. fold n in Hp.
      apply (slt_spec nat Nat.eqb (leq_i cs) nat_eqb_ok) in Lip. destruct Lip as [Lip Hne].
      apply Hne. apply (proj1 (proj2 PO)); try (apply (In_idxs cs); assumption); auto.
      apply (leq_incl t cs HF); [exact Hp|].
      apply (Mext p Hp) in Hmp. intros g Hgp. apply Hmp in Hgp.
      rewrite (extent_eq_ext t cs HL i Hi), E. unfold cl_attr.
      rewrite ext_int_ext by (apply in_range_single; exact Hm). exact Hgp.
  Qed.

  Theorem object_concept_unique g : g < height t ->
    exists i, (i < n /\ In g (new_extent_i cs i) /\ extent cs i = cl_obj t [g]) /\
              forall j, j < n -> In g (new_extent_i cs j) -> j = i.
  Proof.
    intros Hg.
    destruct (concept_index t cs HF _ _ (obj_concept_is_concept t g Hg)) as [i [Hi [Ei _]]].
    fold n in Hi. exists i. split.
    - repeat split; auto. apply new_extent_char; assumption.
    - intros j Hj Hin. apply (new_extent_char j g Hj Hg) in Hin.
      apply (extent_inj t cs HL); auto. congruence.
  Qed.

  Lemma intent_inj i j : i < n -> j < n -> intent cs i = intent cs j -> i = j.
  Proof.
    intros Hi Hj E. apply (extent_inj t cs HL); auto.
    rewrite (extent_eq_ext t cs HL i Hi), (extent_eq_ext t cs HL j Hj), E. reflexivity.
  Qed.

  Theorem attribute_concept_unique m : m < width t ->
    exists i, (i < n /\ In m (new_intent_i cs i) /\ intent cs i = cl_attr t [m]) /\
              forall j, j < n -> In m (new_intent_i cs j) -> j = i.
  Proof.
    intros Hm.
    destruct (concept_index t cs HF _ _ (attr_concept_is_concept t m Hm)) as [i [Hi [_ Ii]]].
    fold n in Hi. exists i. split.
    - repeat split; auto. apply new_intent_char; assumption.
    - intros j Hj Hin. apply (new_intent_char j m Hj Hm) in Hin.
      apply intent_inj; auto. congruence.
  Qed.

  (* g has m  iff  the node of g lies below or at the node of m *)
  Theorem reconstruct g m a b : g < height t -> m < width t -> a < n -> b < n ->
    In g (new_extent_i cs a) -> In m (new_intent_i cs b) ->
    (I t g m = true <-> leq_i cs a b = true).
  Proof.
    intros Hg Hm Ha Hb Hga Hmb.
    apply (new_extent_char a g Ha Hg) in Hga. apply (new_intent_char b m Hb Hm) in Hmb.
    assert (Eb : extent cs b = ext t [m]).
    { rewrite (extent_eq_ext t cs HL b Hb), Hmb. unfold cl_attr. apply ext_int_ext.
      apply in_range_single. exact Hm. }
    rewrite (leq_incl t cs HF a b Ha), Hga, Eb. split.
    - intros H. rewrite <- Eb. apply cl_single_incl; [exact Hb|]. rewrite Eb. apply In_ext_single. tauto.
    - intros H. assert (X := H g (In_cl_single g Hg)). apply In_ext_single in X. tauto.
  Qed.
End Labels.

(* ------------------------------------------------------------------ the table read off the diagram *)
Lemma home_from_unique labels x : forall k0 k,
  k < length labels -> In x (nth k labels []) ->
  (forall j, j < length labels -> In x (nth j labels []) -> j = k) ->
  home_from k0 labels x = Some (k0 + k).
Proof.
  induction labels as [|l ls IH]; intros k0 k Hk Hin Huniq; simpl in *; [lia|].
  destruct (mem x l) eqn:M.
  - apply mem_In in M. assert (0 = k) by (apply Huniq; [lia | exact M]). subst. f_equal. lia.
  - destruct k as [|k].
    + apply mem_false_iff in M. contradiction.
    + rewrite (IH (S k0) k); [f_equal; lia | lia | exact Hin |].
      intros j Hj Hjx. assert (S j = S k) by (apply Huniq; [lia | exact Hjx]). lia.
Qed.

Lemma home_unique labels x k :
  k < length labels -> In x (nth k labels []) ->
  (forall j, j < length labels -> In x (nth j labels []) -> j = k) ->
  home labels x = Some k.
Proof. intros. unfold home. rewrite (home_from_unique labels x 0 k); auto. Qed.

Lemma nth_map_seq {A} (f : nat -> A) n k d : k < n -> nth k (map f (seq 0 n)) d = f k.
Proof.
  intros H. rewrite (nth_indep _ d (f 0)) by (rewrite map_length, seq_length; exact H).
  rewrite (map_nth f (seq 0 n) 0 k). rewrite seq_nth by exact H. reflexivity.
Qed.

Lemma table_as_map t : wf t ->
  t = map (fun g => map (fun m => I t g m) (seq 0 (width t))) (seq 0 (height t)).
Proof.
  intros Hwf. apply (nth_ext _ _ [] []).
  - rewrite map_length, seq_length. reflexivity.
  - intros g Hg. fold (height t) in Hg. rewrite nth_map_seq by exact Hg.
    assert (Hlen : length (nth g t []) = width t).
    { unfold wf in Hwf. rewrite Forall_forall in Hwf. apply Hwf. apply nth_In. exact Hg. }
    apply (nth_ext _ _ false false).
    + rewrite map_length, seq_length. exact Hlen.
    + intros m Hm. rewrite Hlen in Hm. rewrite nth_map_seq by exact Hm. reflexivity.
Qed.

Section Rebuild.
  Variable t : table.
  Variable cs : list concept.
  Hypothesis HF : full_lattice t cs.
  Hypothesis Hwf : wf t.
  Let n := length cs.
  Let HL : concept_list t cs := proj1 HF.
  Let PO := leq_i_partial_order t cs HL.

  Definition obj_labels := map (new_extent_i cs) (seq 0 (length cs)).
  Definition attr_labels := map (new_intent_i cs) (seq 0 (length cs)).
  Definition anc_lists := map (ancestors_nocache cs) (seq 0 (length cs)).

  Lemma obj_home g : g < height t ->
    exists a, a < n /\ home obj_labels g = Some a /\ In g (new_extent_i cs a).
  Proof.
    intros Hg. destruct (object_concept_unique t cs HF g Hg) as [a [[Ha [Hin _]] Huniq]].
    fold n in Ha. exists a. repeat split; auto. apply home_unique.
    - unfold obj_labels. rewrite map_length, seq_length. exact Ha.
    - unfold obj_labels. rewrite nth_map_seq by exact Ha. exact Hin.
    - unfold obj_labels. rewrite map_length, seq_length. intros j Hj Hjx.
      rewrite nth_map_seq in Hjx by exact Hj. apply Huniq; assumption.
  Qed.

  Lemma attr_home m : m < width t ->
    exists b, b < n /\ home attr_labels m = Some b /\ In m (new_intent_i cs b).
  Proof.
    intros Hm. destruct (attribute_concept_unique t cs HF m Hm) as [b [[Hb [Hin _]] Huniq]].
    fold n in Hb. exists b. repeat split; auto. apply home_unique.
    - unfold attr_labels. rewrite map_length, seq_length. exact Hb.
    - unfold attr_labels. rewrite nth_map_seq by exact Hb. exact Hin.
    - unfold attr_labels. rewrite map_length, seq_length. intros j Hj Hjx.
      rewrite nth_map_seq in Hjx by exact Hj. apply Huniq; assumption.
  Qed.

  Lemma below_or_equal a b : a < n -> b < n ->
    Nat.eqb a b || mem b (nth a anc_lists []) = leq_i cs a b.
  Proof.
    intros Ha Hb. unfold anc_lists. rewrite nth_map_seq by exact Ha.
    rewrite (mem_ancestors cs a b Hb). rewrite (slt_flip Nat.eqb (leq_i cs) nat_eqb_ok).
    unfold slt. destruct (Nat.eqb a b) eqn:E; simpl.
    - apply Nat.eqb_eq in E. subst. symmetry. apply PO. apply (In_idxs cs). exact Ha.
    - rewrite andb_true_r. reflexivity.
  Qed.

  (* the diagram determines the table *)
  Theorem table_recovered :
    rebuild (height t) (width t) obj_labels attr_labels anc_lists = t.
  Proof.
    rewrite (table_as_map t Hwf) at 3. unfold rebuild.
    apply map_ext_in. intros g Hg. apply in_seq in Hg.
    apply map_ext_in. intros m Hm. apply in_seq in Hm.
    destruct (obj_home g) as [a [Ha [Ea Hga]]]; [lia|].
    destruct (attr_home m) as [b [Hb [Eb Hmb]]]; [lia|].
    rewrite Ea, Eb. rewrite below_or_equal by assumption.
    apply bool_eq_iff. symmetry.
    apply (reconstruct t cs HF g m a b); auto; lia.
  Qed.
  (* ... and through any order oracle that agrees with the concept comparison: leq_elements / <=
     on the concepts (rel := leq_i cs) or descendants() *)
  Theorem table_recovered_rel (rel : nat -> nat -> bool) :
    (forall a b, a < n -> b < n -> rel a b = leq_i cs a b) ->
    rebuild_rel (height t) (width t) obj_labels attr_labels rel = t.
  Proof.
    intros Hrel. rewrite (table_as_map t Hwf) at 3. unfold rebuild_rel.
    apply map_ext_in. intros g Hg. apply in_seq in Hg.
    apply map_ext_in. intros m Hm. apply in_seq in Hm.
    destruct (obj_home g) as [a [Ha [Ea Hga]]]; [lia|].
    destruct (attr_home m) as [b [Hb [Eb Hmb]]]; [lia|].
    rewrite Ea, Eb. rewrite Hrel by assumption.
    apply bool_eq_iff. symmetry.
    apply (reconstruct t cs HF g m a b); auto; lia.
  Qed.

  Definition desc_lists := map (descendants_nocache cs) (seq 0 (length cs)).

  Lemma below_or_equal_desc a b : a < n -> b < n ->
    Nat.eqb a b || mem a (nth b desc_lists []) = leq_i cs a b.
  Proof.
    intros Ha Hb. unfold desc_lists. rewrite nth_map_seq by exact Hb.
    rewrite (mem_descendants cs b a Ha). unfold slt. destruct (Nat.eqb a b) eqn:E; simpl.
    - apply Nat.eqb_eq in E. subst. symmetry. apply PO. apply (In_idxs cs). exact Ha.
    - rewrite andb_true_r. reflexivity.
  Qed.

  Theorem table_recovered_leq :
    rebuild_rel (height t) (width t) obj_labels attr_labels (leq_i cs) = t.
  Proof. apply table_recovered_rel. reflexivity. Qed.

  Theorem table_recovered_desc :
    rebuild_rel (height t) (width t) obj_labels attr_labels
                (fun a b => Nat.eqb a b || mem a (nth b desc_lists [])) = t.
  Proof. apply table_recovered_rel. intros a b Ha Hb. apply below_or_equal_desc; assumption. Qed.
End Rebuild.

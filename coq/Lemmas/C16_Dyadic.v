(* Lemmas/C16_Dyadic.v — arithmetic of dyadic rationals and counting lemmas used by C16. *)
From FCA Require Import Base.C16_Dyadic.
From Coq Require Import ZArith QArith Lia.
Local Open Scope nat_scope.

Lemma pow2p_nat k : Pos.to_nat (pow2p k) = 2 ^ k.
Proof.
  induction k as [|k IH]; simpl; [reflexivity|].
  rewrite Pos2Nat.inj_xO, IH. lia.
Qed.

Lemma pow2p_Z k : Zpos (pow2p k) = Z.of_nat (2 ^ k).
Proof. rewrite <- pow2p_nat. rewrite positive_nat_Z. reflexivity. Qed.

Lemma pow2_pos k : 0 < 2 ^ k.
Proof. induction k; simpl; lia. Qed.

(* ---- counting *)
Lemma count_if_app {A} (p : A -> bool) l1 l2 : count_if p (l1 ++ l2) = count_if p l1 + count_if p l2.
Proof. unfold count_if. rewrite filter_app, app_length. reflexivity. Qed.

Lemma count_if_map {A B} (f : A -> B) (p : B -> bool) l : count_if p (map f l) = count_if (fun x => p (f x)) l.
Proof.
  unfold count_if. induction l as [|x l IH]; simpl; [reflexivity|].
  destruct (p (f x)); simpl; rewrite IH; reflexivity.
Qed.

Lemma count_if_ext_in {A} (p q : A -> bool) l :
  (forall x, In x l -> p x = q x) -> count_if p l = count_if q l.
Proof. intros H. unfold count_if. rewrite (filter_ext_in' p q l H). reflexivity. Qed.

Lemma count_if_false {A} (l : list A) : count_if (fun _ => false) l = 0.
Proof. unfold count_if. induction l; simpl; auto. Qed.

Lemma count_if_le_length {A} (p : A -> bool) l : count_if p l <= length l.
Proof. unfold count_if. induction l as [|x l IH]; simpl; [lia|]. destruct (p x); simpl; lia. Qed.

Lemma count_if_compl {A} (p : A -> bool) l : count_if p l + count_if (fun x => negb (p x)) l = length l.
Proof. unfold count_if. induction l as [|x l IH]; simpl; [reflexivity|]. destruct (p x); simpl; lia. Qed.

Lemma count_if_mono {A} (p q : A -> bool) l :
  (forall x, In x l -> p x = true -> q x = true) -> count_if p l <= count_if q l.
Proof.
  unfold count_if. induction l as [|x l IH]; simpl; intros H; [lia|].
  assert (IH' : length (filter p l) <= length (filter q l)).
  { apply IH. intros y Hy. apply H. right. exact Hy. }
  destruct (p x) eqn:Ep.
  - rewrite (H x (or_introl eq_refl) Ep). simpl. lia.
  - destruct (q x); simpl; lia.
Qed.

(* union bound: the elements satisfying one of the tests are at most the sum of the counts *)
Lemma count_if_union {A B} (test : B -> A -> bool) (cs : list B) (l : list A) :
  count_if (fun x => existsb (fun c => test c x) cs) l
  <= fold_right (fun c acc => count_if (test c) l + acc) 0 cs.
Proof.
  induction cs as [|c cs IH]; simpl.
  - rewrite count_if_false. lia.
  - assert (H : count_if (fun x => test c x || existsb (fun c0 => test c0 x) cs) l
                <= count_if (test c) l + count_if (fun x => existsb (fun c0 => test c0 x) cs) l).
    { unfold count_if. clear IH. induction l as [|x l IHl]; simpl; [lia|].
      destruct (test c x); simpl; destruct (existsb (fun c0 => test c0 x) cs); simpl; lia. }
    lia.
Qed.

(* ---- rationals with a common denominator *)
Local Open Scope Q_scope.

Lemma Qle_same_den (a b : Z) (p : positive) : (a # p) <= (b # p) <-> (a <= b)%Z.
Proof.
  unfold Qle. simpl. split; intros H.
  - apply Zmult_le_reg_r with (p := Zpos p); [lia | exact H].
  - apply Zmult_le_compat_r; [exact H | lia].
Qed.

Lemma Qeq_same_den (a b : Z) (p : positive) : (a # p) == (b # p) <-> a = b.
Proof.
  unfold Qeq. simpl. split; intros H.
  - apply Z.mul_reg_r with (p := Zpos p); [lia | exact H].
  - rewrite H. reflexivity.
Qed.

Lemma one_minus_frac (a : Z) (p : positive) : 1 - (a # p) == (Zpos p - a) # p.
Proof. unfold Qeq, Qminus, Qplus, Qopp. cbn [Qnum Qden]. rewrite ?Pos2Z.inj_mul. ring. Qed.

Lemma frac_plus (a b : Z) (p : positive) : (a # p) + (b # p) == (a + b) # p.
Proof. unfold Qeq, Qplus. cbn [Qnum Qden]. rewrite ?Pos2Z.inj_mul. ring. Qed.

(* 2^-d = 2^i / 2^n when i + d = n *)
Lemma inv_pow2_scaled (i d n : nat) : (i + d = n)%nat ->
  inv_pow2 d == Z.of_nat (2 ^ i) # pow2p n.
Proof.
  intros H. unfold inv_pow2, Qeq. cbn [Qnum Qden]. rewrite !pow2p_Z. subst n.
  rewrite Nat.pow_add_r, Nat2Z.inj_mul. ring.
Qed.

Lemma qsum_scaled {A} (f : A -> nat) (g : A -> nat) (n : nat) (cs : list A) :
  (forall c, In c cs -> (g c + f c = n)%nat) ->
  qsum (map (fun c => inv_pow2 (f c)) cs)
  == Z.of_nat (fold_right (fun c acc => (2 ^ g c + acc)%nat) 0%nat cs) # pow2p n.
Proof.
  induction cs as [|c cs IH]; intros H.
  - cbn [map qsum fold_right]. unfold Qeq. cbn [Qnum Qden]. reflexivity.
  - cbn [map qsum fold_right]. rewrite IH by (intros c' Hc'; apply H; right; exact Hc').
    rewrite (inv_pow2_scaled (g c) (f c) n) by (apply H; left; reflexivity).
    rewrite frac_plus, <- Nat2Z.inj_add. reflexivity.
Qed.

(* ---- maxima and minima *)
Lemma qmax_cases a b : qmax a b = a \/ qmax a b = b.
Proof. unfold qmax. destruct (Qle_bool a b); auto. Qed.

Lemma fold_qmax_In l x : fold_left qmax l x = x \/ In (fold_left qmax l x) l.
Proof.
  revert x. induction l as [|y l IH]; intros x; simpl; [left; reflexivity|].
  destruct (IH (qmax x y)) as [H|H].
  - rewrite H. destruct (qmax_cases x y) as [E|E]; rewrite E; auto.
  - right. right. exact H.
Qed.

Lemma qmax_list_In l : l <> [] -> In (qmax_list l) l.
Proof.
  destruct l as [|x l]; [congruence|]. intros _. unfold qmax_list.
  destruct (fold_qmax_In l x) as [H|H]; [left; symmetry; exact H | right; exact H].
Qed.

Lemma fold_min_le l x : (fold_left Nat.min l x <= x)%nat /\ forall y, In y l -> (fold_left Nat.min l x <= y)%nat.
Proof.
  revert x. induction l as [|z l IH]; intros x; simpl.
  - split; [lia | intros y []].
  - destruct (IH (Nat.min x z)) as [H1 H2]. split; [lia|].
    intros y [Hy|Hy]; [subst; lia | apply H2; exact Hy].
Qed.

Lemma nmin_list_le l d : nmin_list l = Some d -> forall y, In y l -> (d <= y)%nat.
Proof.
  destruct l as [|x l]; simpl; [discriminate|]. intros E. inversion E; subst. clear E.
  destruct (fold_min_le l x) as [H1 H2]. intros y [Hy|Hy]; [subst; exact H1 | apply H2; exact Hy].
Qed.

Lemma nmin_list_none l : nmin_list l = None <-> l = [].
Proof. destruct l; simpl; split; congruence. Qed.

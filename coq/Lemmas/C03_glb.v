(* Lemmas/C03_glb.v — meet / join on a concept list that need not be complete (concepts were
   removed): whenever the listed concepts have a greatest lower bound (least upper bound) of the
   family, POSet.meet (join) returns it. *)
From FCA Require Import Base.ListSet Base.Order Model.LatticeOrder Spec.Closure Spec.LatticeOrderSpec
     Lemmas.C03 Lemmas.C03_lattice.

Section Glb.
  Variable t : table.
  Variable cs : list concept.
  Hypothesis HL : concept_list t cs.
  Let n := length cs.
  Let PO := leq_i_partial_order t cs HL.

  Lemma meet_of_greatest Sq k : Sq <> [] -> (forall s, In s Sq -> s < n) -> k < n ->
    (forall s, In s Sq -> leq_i cs k s = true) ->
    (forall u, u < n -> (forall s, In s Sq -> leq_i cs u s = true) -> leq_i cs u k = true) ->
    meet_nocache cs Sq = Some k.
  Proof.
    intros Hne HS Hk Hlow Hgr. unfold meet_nocache, meet_of. fold n.
    replace (match Sq with [] => seq 0 n | _ :: _ => Sq end) with Sq by (destruct Sq; [contradiction | reflexivity]).
    rewrite (bound_candidates_filter n (slt Nat.eqb (leq_i cs)) (descendants_nocache cs) Sq Hne)
      by (intros s y Hy; apply mem_descendants; exact Hy).
    change (seq 0 n) with (idxs cs). unfold descendants_nocache at 1.
    rewrite (extremes_loop_greatest nat Nat.eqb (leq_i cs) nat_eqb_ok (idxs cs) PO _ _ k);
      [reflexivity | apply seq_NoDup | intros c; tauto | |].
    - apply filter_In. split; [apply (In_idxs cs); exact Hk|]. apply forallb_forall. intros s Hs.
      apply orb_true_iff.
      destruct (leq_cases nat Nat.eqb (leq_i cs) nat_eqb_ok (idxs cs) k s) as [->|L2]; auto.
      + apply (In_idxs cs); exact Hk.
      + apply (In_idxs cs); apply HS; exact Hs.
      + left. apply Nat.eqb_refl.
    - intros u Hu. apply filter_In in Hu. destruct Hu as [Hu Hall]. apply (In_idxs cs) in Hu.
      rewrite forallb_forall in Hall. apply Hgr; [exact Hu|]. intros s Hs.
      specialize (Hall s Hs). apply orb_true_iff in Hall. destruct Hall as [E|L].
      + apply Nat.eqb_eq in E. subst. apply PO. apply (In_idxs cs). exact Hu.
      + apply (slt_leq nat Nat.eqb (leq_i cs) nat_eqb_ok). exact L.
  Qed.

  Lemma join_of_least Sq k : Sq <> [] -> (forall s, In s Sq -> s < n) -> k < n ->
    (forall s, In s Sq -> leq_i cs s k = true) ->
    (forall u, u < n -> (forall s, In s Sq -> leq_i cs s u = true) -> leq_i cs k u = true) ->
    join_nocache cs Sq = Some k.
  Proof.
    intros Hne HS Hk Hup Hle. unfold join_nocache, meet_of. fold n.
    replace (match Sq with [] => seq 0 n | _ :: _ => Sq end) with Sq by (destruct Sq; [contradiction | reflexivity]).
    rewrite (bound_candidates_filter n (slt Nat.eqb (flip_leq (leq_i cs))) (ancestors_nocache cs) Sq Hne)
      by (intros s y Hy; apply mem_ancestors; exact Hy).
    change (seq 0 n) with (idxs cs). unfold ancestors_nocache at 1. unfold strict_up.
    rewrite (extremes_loop_greatest nat Nat.eqb (flip_leq (leq_i cs)) nat_eqb_ok (idxs cs)
               (partial_order_on_flip _ _ PO) _ _ k);
      [reflexivity | apply seq_NoDup | intros c; tauto | |].
    - apply filter_In. split; [apply (In_idxs cs); exact Hk|]. apply forallb_forall. intros s Hs.
      apply orb_true_iff.
      destruct (leq_cases nat Nat.eqb (flip_leq (leq_i cs)) nat_eqb_ok (idxs cs) k s) as [->|L2]; auto.
      + apply (In_idxs cs); exact Hk.
      + apply (In_idxs cs); apply HS; exact Hs.
      + unfold flip_leq. apply Hup. exact Hs.
      + left. apply Nat.eqb_refl.
    - intros u Hu. apply filter_In in Hu. destruct Hu as [Hu Hall]. apply (In_idxs cs) in Hu.
      rewrite forallb_forall in Hall. unfold flip_leq. apply Hle; [exact Hu|]. intros s Hs.
      specialize (Hall s Hs). apply orb_true_iff in Hall. destruct Hall as [E|L].
      + apply Nat.eqb_eq in E. subst. apply PO. apply (In_idxs cs). exact Hu.
      + apply (slt_leq nat Nat.eqb (flip_leq (leq_i cs)) nat_eqb_ok) in L. exact L.
  Qed.

  Lemma bound_iff (j s : nat) : j < n -> subsetb (set_at (map fst cs) j) (set_at (map fst cs) s) = leq_i cs j s.
  Proof. intros Hj. rewrite !(set_at_extent cs). symmetry. apply (leq_i_subset t cs HL). exact Hj. Qed.

  (* in terms of the specification's is_glb / is_lub *)
  Theorem meet_is_glb Sq k : Sq <> [] -> (forall s, In s Sq -> s < n) -> k < n ->
    is_glb (map fst cs) Sq k = true -> meet_nocache cs Sq = Some k.
  Proof.
    intros Hne HS Hk H. unfold is_glb in H. apply andb_true_iff in H. destruct H as [Hlow Hgr].
    unfold lower_boundb in Hlow. rewrite forallb_forall in Hlow. rewrite forallb_forall in Hgr.
    apply meet_of_greatest; auto.
    - intros s Hs. rewrite <- bound_iff by exact Hk. apply Hlow. exact Hs.
    - intros u Hu Hall. rewrite <- bound_iff by exact Hu.
      assert (X := Hgr u). rewrite map_length in X. specialize (X (proj2 (in_seq _ _ _) (conj (Nat.le_0_l u) Hu))).
      replace (lower_boundb (map fst cs) Sq u) with true in X; [exact X|].
      symmetry. unfold lower_boundb. apply forallb_forall. intros s Hs. rewrite bound_iff by exact Hu. apply Hall. exact Hs.
  Qed.

  Theorem join_is_lub Sq k : Sq <> [] -> (forall s, In s Sq -> s < n) -> k < n ->
    is_lub (map fst cs) Sq k = true -> join_nocache cs Sq = Some k.
  Proof.
    intros Hne HS Hk H. unfold is_lub in H. apply andb_true_iff in H. destruct H as [Hup Hle].
    unfold upper_boundb in Hup. rewrite forallb_forall in Hup. rewrite forallb_forall in Hle.
    apply join_of_least; auto.
    - intros s Hs. rewrite <- bound_iff by (apply HS; exact Hs). apply Hup. exact Hs.
    - intros u Hu Hall. rewrite <- bound_iff by exact Hk.
      assert (X := Hle u). rewrite map_length in X. specialize (X (proj2 (in_seq _ _ _) (conj (Nat.le_0_l u) Hu))).
      replace (upper_boundb (map fst cs) Sq u) with true in X; [exact X|].
      symmetry. unfold upper_boundb. apply forallb_forall. intros s Hs. rewrite bound_iff by (apply HS; exact Hs).
      apply Hall. exact Hs.
  Qed.
End Glb.

(* Lemmas/C03_lindig.v — the Lindig path of ConceptLattice.from_context, composed:
   children_dict -> POSet constructor (closure, two transposes) -> sort_concepts -> re-mapping of
   the four relation caches.  If the dictionary handed over by lindig_algorithm holds the lower
   covers of its (unsorted) concept list, then, whenever the closure loop ends, every cache of the
   re-sorted lattice holds exactly the inclusion relation / covers of the SORTED list. *)
From Coq Require Import Sorting.Sorted Permutation.
From FCA Require Import Base.ListSet Base.Order Model.LatticeOrder Spec.Closure Spec.LatticeOrderSpec
     Lemmas.C03 Lemmas.C03_lattice Lemmas.C03_chains.
From FCA Require Import Lemmas.C03_closed.

(* ------------------------------------------------------------------ keys of a transposed dictionary *)
Lemma NoDup_keys_inner k vs : forall nw, NoDup (map fst nw) -> NoDup (map fst (fold_left (addk k) vs nw)).
Proof.
  induction vs as [|v vs IH]; intros nw H; simpl; [exact H|]. apply IH. apply NoDup_keys_upd. exact H.
Qed.

Lemma NoDup_keys_ensure k new : NoDup (map fst new) -> NoDup (map fst (ensure k new)).
Proof. unfold ensure. destruct (lookup k new); [auto | apply NoDup_keys_upd]. Qed.

Lemma NoDup_keys_fold_tstep h : forall new, NoDup (map fst new) -> NoDup (map fst (fold_left tstep h new)).
Proof.
  induction h as [|kv h IH]; intros new H; simpl; [exact H|]. apply IH. unfold tstep.
  apply NoDup_keys_inner, NoDup_keys_ensure, H.
Qed.

Lemma NoDup_keys_transpose h : NoDup (map fst (transpose_hierarchy h)).
Proof. rewrite transpose_unfold. apply NoDup_keys_fold_tstep. constructor. Qed.

Lemma keys_inner k vs : forall nw e, In e (map fst (fold_left (addk k) vs nw)) -> In e (map fst nw) \/ In e vs.
Proof.
  induction vs as [|v vs IH]; intros nw e H; simpl in *; [left; exact H|].
  apply IH in H. destruct H as [H|H]; [|right; right; exact H].
  unfold addk in H. apply In_keys_upd in H. destruct H as [->|H]; [right; left; reflexivity | left; exact H].
Qed.

Lemma keys_ensure k new e : In e (map fst (ensure k new)) -> e = k \/ In e (map fst new).
Proof. unfold ensure. destruct (lookup k new); [right; assumption | apply In_keys_upd]. Qed.

Lemma keys_fold_tstep h : forall new e, In e (map fst (fold_left tstep h new)) ->
  In e (map fst new) \/ In e (map fst h) \/ exists p vs, In (p, vs) h /\ In e vs.
Proof.
  induction h as [|[k vs] h IH]; intros new e H; simpl in *; [left; exact H|].
  apply IH in H. destruct H as [H|[H|[p [vs' [H1 H2]]]]].
  - unfold tstep in H. simpl in H. apply keys_inner in H. destruct H as [H|H].
    + apply keys_ensure in H. destruct H as [->|H]; [right; left; left; reflexivity | left; exact H].
    + right. right. exists k, vs. split; [left; reflexivity | exact H].
  - right. left. right. exact H.
  - right. right. exists p, vs'. split; [right; exact H1 | exact H2].
Qed.

Lemma keys_transpose h e : In e (map fst (transpose_hierarchy h)) ->
  In e (map fst h) \/ exists p vs, In (p, vs) h /\ In e vs.
Proof.
  rewrite transpose_unfold. intros H. apply keys_fold_tstep in H. destruct H as [[]|H]. exact H.
Qed.

(* ------------------------------------------------------------------ re-mapping a cache *)
Lemma lookup_remap (m : list nat) (n : nat) (c : assoc) i :
  (forall k, In k (map fst c) -> k < n) -> i < n ->
  (forall a b, a < n -> b < n -> nth a m 0 = nth b m 0 -> a = b) ->
  lookup (nth i m 0) (remap_cache m c) = option_map (map (fun r => nth r m 0)) (lookup i c).
Proof.
  intros Hk Hi Hinj. induction c as [|[k v] c IH]; simpl; [reflexivity|].
  destruct (Nat.eqb i k) eqn:E.
  - apply Nat.eqb_eq in E. subst. rewrite Nat.eqb_refl. reflexivity.
  - apply Nat.eqb_neq in E.
    assert (Hkn : k < n) by (apply Hk; left; reflexivity).
    destruct (Nat.eqb (nth i m 0) (nth k m 0)) eqn:E2.
    + apply Nat.eqb_eq in E2. exfalso. apply E. apply Hinj; assumption.
    + apply IH. intros k' Hk'. apply Hk. right. exact Hk'.
Qed.

Lemma get_remap (m : list nat) (n : nat) (c : assoc) i :
  (forall k, In k (map fst c) -> k < n) -> i < n ->
  (forall a b, a < n -> b < n -> nth a m 0 = nth b m 0 -> a = b) ->
  get (remap_cache m c) (nth i m 0) = map (fun r => nth r m 0) (get c i).
Proof.
  intros. unfold get. rewrite (lookup_remap m n c i) by assumption.
  destruct (lookup i c); reflexivity.
Qed.

(* down-sets and covers only depend on the element list as a set *)
Lemma strict_down_members {E} eqb (leq : E -> E -> bool) l l' x y :
  (forall z, In z l <-> In z l') ->
  (In y (strict_down eqb leq l x) <-> In y (strict_down eqb leq l' x)).
Proof. intros H. rewrite !In_strict_down, H. reflexivity. Qed.

Lemma lower_covers_members {E} eqb (leq : E -> E -> bool) l l' x y :
  (forall z, In z l <-> In z l') ->
  (In y (lower_covers eqb leq l x) <-> In y (lower_covers eqb leq l' x)).
Proof.
  intros H. rewrite !In_lower_covers, H. split; intros [H1 [H2 H3]]; repeat split; auto;
    intros [z [Hz Hr]]; apply H3; exists z; split; [apply H; exact Hz | exact Hr | apply H; exact Hz | exact Hr].
Qed.

Lemma concept_le_fst c c' d d' : fst c = fst c' -> fst d = fst d' -> concept_le c d = concept_le c' d'.
Proof. intros H1 H2. unfold concept_le, support. rewrite H1, H2. reflexivity. Qed.

Lemma NoDup_map_inj_in {A B} (f : A -> B) l :
  (forall a b, In a l -> In b l -> f a = f b -> a = b) -> NoDup l -> NoDup (map f l).
Proof.
  intros Hinj Hn. induction Hn as [|a l Ha Hn IH]; simpl; [constructor|].
  constructor.
  - intros H. apply in_map_iff in H. destruct H as [b [E Hb]]. apply Ha.
    assert (b = a) by (apply Hinj; [right; exact Hb | left; reflexivity | exact E]). subst. exact Hb.
  - apply IH. intros x y Hx Hy. apply Hinj; right; assumption.
Qed.

(* ------------------------------------------------------------------ the index map of the re-sorting *)
Section Resort.
  Variable t : table.
  Variable pre : list concept.
  Hypothesis HL : concept_list t pre.
  Let n := length pre.
  Let sorted := sort_concepts pre.
  Let mi := fun i => index_of (cnth pre i) sorted.
  Let mlist := map (fun c => index_of c sorted) pre.

  Lemma HLs : concept_list t sorted.
  Proof. apply (concept_list_perm t pre); [apply sort_perm | exact HL]. Qed.

  Lemma sorted_len : length sorted = n.
  Proof. unfold sorted, n. symmetry. apply Permutation_length. apply sort_perm. Qed.

  Lemma nth_mlist i : i < n -> nth i mlist 0 = mi i.
  Proof.
    intros Hi. unfold mlist, mi, cnth.
    rewrite (nth_indep _ 0 (index_of cdefault sorted)) by (rewrite map_length; exact Hi).
    apply (map_nth (fun c => index_of c sorted)).
  Qed.

  Lemma mi_found i : i < n -> mi i < n /\ extent sorted (mi i) = extent pre i.
  Proof.
    intros Hi. unfold mi. rewrite <- sorted_len.
    apply index_of_found.
    - apply cnth_canon. apply (concept_list_canon t pre HL).
    - apply (concept_list_canon t sorted HLs).
    - exists (cnth pre i). split; [|reflexivity].
      apply (Permutation_in _ (sort_perm pre)). apply nth_In. exact Hi.
  Qed.

  Lemma mi_inj a b : a < n -> b < n -> mi a = mi b -> a = b.
  Proof.
    intros Ha Hb E. apply (extent_inj t pre HL); auto.
    rewrite <- (proj2 (mi_found a Ha)), <- (proj2 (mi_found b Hb)), E. reflexivity.
  Qed.

  Lemma mi_surj j : j < n -> exists i, i < n /\ mi i = j.
  Proof.
    intros Hj.
    assert (Hnd : NoDup (map mi (seq 0 n))).
    { apply NoDup_map_inj_in; [|apply seq_NoDup].
      intros a b Ha Hb. apply in_seq in Ha. apply in_seq in Hb. apply mi_inj; lia. }
    assert (Hincl : incl (map mi (seq 0 n)) (seq 0 n)).
    { intros y Hy. apply in_map_iff in Hy. destruct Hy as [a [<- Ha]]. apply in_seq in Ha.
      apply in_seq. destruct (mi_found a) as [H _]; lia. }
    assert (Hfull : incl (seq 0 n) (map mi (seq 0 n))).
    { apply (NoDup_length_incl Hnd); [rewrite map_length; lia | exact Hincl]. }
    assert (Hin : In j (map mi (seq 0 n))) by (apply Hfull; apply in_seq; lia).
    apply in_map_iff in Hin. destruct Hin as [i [E Hi]]. apply in_seq in Hi. exists i. split; [lia | exact E].
  Qed.

  Lemma members_map_mi z : In z (map mi (idxs pre)) <-> In z (idxs sorted).
  Proof.
    unfold idxs. rewrite sorted_len. fold n. split.
    - intros H. apply in_map_iff in H. destruct H as [a [<- Ha]]. apply in_seq in Ha.
      apply in_seq. destruct (mi_found a) as [H _]; lia.
    - intros H. apply in_seq in H. destruct (mi_surj z) as [i [Hi E]]; [lia|].
      apply in_map_iff. exists i. split; [exact E | apply in_seq; lia].
  Qed.

  Lemma leq_transfer a b : In a (idxs pre) -> In b (idxs pre) ->
    leq_i sorted (mi a) (mi b) = leq_i pre a b.
  Proof.
    intros Ha Hb. apply (In_idxs pre) in Ha. apply (In_idxs pre) in Hb. unfold leq_i.
    apply concept_le_fst; [apply (proj2 (mi_found a Ha)) | apply (proj2 (mi_found b Hb))].
  Qed.

  Lemma flip_transfer a b : In a (idxs pre) -> In b (idxs pre) ->
    flip_leq (leq_i sorted) (mi a) (mi b) = flip_leq (leq_i pre) a b.
  Proof. intros Ha Hb. unfold flip_leq. apply leq_transfer; assumption. Qed.

  Lemma eqb_transfer a b : In a (idxs pre) -> In b (idxs pre) -> Nat.eqb (mi a) (mi b) = Nat.eqb a b.
  Proof.
    intros Ha Hb. apply (In_idxs pre) in Ha. apply (In_idxs pre) in Hb.
    destruct (Nat.eqb a b) eqn:E.
    - apply Nat.eqb_eq in E. subst. apply Nat.eqb_refl.
    - apply Nat.eqb_neq. apply Nat.eqb_neq in E. intros H. apply E. apply mi_inj; assumption.
  Qed.

  (* the four relations of the sorted list at (mi i) are the images of those of the unsorted list at i *)
  Lemma down_transfer i y : i < n ->
    In y (strict_down Nat.eqb (leq_i sorted) (idxs sorted) (mi i)) <->
    In y (map mi (strict_down Nat.eqb (leq_i pre) (idxs pre) i)).
  Proof.
    intros Hi. rewrite <- (strict_down_map nat nat Nat.eqb Nat.eqb (leq_i pre) (leq_i sorted) mi (idxs pre)
                             leq_transfer eqb_transfer i (proj2 (In_idxs pre i) Hi)).
    apply strict_down_members. intros z. symmetry. apply members_map_mi.
  Qed.

  Lemma up_transfer i y : i < n ->
    In y (strict_up Nat.eqb (leq_i sorted) (idxs sorted) (mi i)) <->
    In y (map mi (strict_up Nat.eqb (leq_i pre) (idxs pre) i)).
  Proof.
    intros Hi. unfold strict_up.
    rewrite <- (strict_down_map nat nat Nat.eqb Nat.eqb (flip_leq (leq_i pre)) (flip_leq (leq_i sorted)) mi
                  (idxs pre) flip_transfer eqb_transfer i (proj2 (In_idxs pre i) Hi)).
    apply strict_down_members. intros z. symmetry. apply members_map_mi.
  Qed.

  Lemma lower_transfer i y : i < n ->
    In y (lower_covers Nat.eqb (leq_i sorted) (idxs sorted) (mi i)) <->
    In y (map mi (lower_covers Nat.eqb (leq_i pre) (idxs pre) i)).
  Proof.
    intros Hi. rewrite <- (lower_covers_map nat nat Nat.eqb Nat.eqb (leq_i pre) (leq_i sorted) mi (idxs pre)
                             leq_transfer eqb_transfer i (proj2 (In_idxs pre i) Hi)).
    apply lower_covers_members. intros z. symmetry. apply members_map_mi.
  Qed.

  Lemma upper_transfer i y : i < n ->
    In y (upper_covers Nat.eqb (leq_i sorted) (idxs sorted) (mi i)) <->
    In y (map mi (upper_covers Nat.eqb (leq_i pre) (idxs pre) i)).
  Proof.
    intros Hi. unfold upper_covers.
    rewrite <- (lower_covers_map nat nat Nat.eqb Nat.eqb (flip_leq (leq_i pre)) (flip_leq (leq_i sorted)) mi
                  (idxs pre) flip_transfer eqb_transfer i (proj2 (In_idxs pre i) Hi)).
    apply lower_covers_members. intros z. symmetry. apply members_map_mi.
  Qed.
End Resort.

(* ------------------------------------------------------------------ dualities *)
Lemma cover_dual {E} eqb (leq : E -> E -> bool) (Heq : eqb_ok eqb) els e p : In e els ->
  (In p els /\ In e (lower_covers eqb leq els p)) <-> In p (upper_covers eqb leq els e).
Proof.
  intros He. rewrite In_lower_covers, (In_upper_covers eqb leq Heq). tauto.
Qed.

Lemma down_up_dual {E} eqb (leq : E -> E -> bool) (Heq : eqb_ok eqb) els e p : In e els ->
  (In p els /\ In e (strict_down eqb leq els p)) <-> In p (strict_up eqb leq els e).
Proof.
  intros He. rewrite In_strict_down, (In_strict_up eqb leq Heq). tauto.
Qed.

Lemma map_members_transfer (f g : nat -> nat) (v D : list nat) (n : nat) y :
  (forall r, In r v <-> In r D) -> (forall r, In r D -> r < n) -> (forall r, r < n -> f r = g r) ->
  (In y (map f v) <-> In y (map g D)).
Proof.
  intros Hvd Hlt Hfg. rewrite !in_map_iff. split; intros [r [E Hr]]; exists r.
  - apply Hvd in Hr. split; [rewrite <- Hfg; [exact E | apply Hlt; exact Hr] | exact Hr].
  - split; [rewrite Hfg; [exact E | apply Hlt; exact Hr] | apply Hvd; exact Hr].
Qed.

Section Lindig.
  Variable t : table.
  Variable pre : list concept.
  Hypothesis HL : concept_list t pre.
  Variable dict : assoc.
  Hypothesis Hnodup : NoDup (map fst dict).
  Hypothesis Hkeys : forall x, In x (idxs pre) <-> In x (map fst dict).
  Hypothesis Hcov : forall x, In x (idxs pre) ->
    forall y, In y (get dict x) <-> In y (lower_covers Nat.eqb (leq_i pre) (idxs pre) x).
  Variable ord : list nat -> list nat.
  Hypothesis Hord : forall l x, In x (ord l) <-> In x l.

  Let n := length pre.
  Let sorted := sort_concepts pre.
  Let exts := map fst sorted.
  Let mi := fun i => index_of (cnth pre i) sorted.
  Let mlist := map (fun c => index_of c sorted) pre.
  Let PO := leq_i_partial_order t pre HL.
  Let down := strict_down Nat.eqb (leq_i pre) (idxs pre).

  Lemma mlist_inj a b : a < n -> b < n -> nth a mlist 0 = nth b mlist 0 -> a = b.
  Proof.
    intros Ha Hb. unfold mlist, sorted. rewrite (nth_mlist pre a Ha), (nth_mlist pre b Hb).
    apply (mi_inj t pre HL); assumption.
  Qed.

  Lemma lt_of_idx x : In x (idxs pre) -> x < n.
  Proof. apply (In_idxs pre). Qed.

  Lemma down_lt i r : In r (down i) -> r < n.
  Proof. intros H. apply In_strict_down in H. apply lt_of_idx. tauto. Qed.

  Lemma dict_values_lt p vs e : In (p, vs) dict -> In e vs -> e < n /\ In p (idxs pre) /\ vs = get dict p.
  Proof.
    intros Hin He.
    assert (Hp : In p (idxs pre)) by (apply Hkeys; apply in_map_iff; exists (p, vs); auto).
    assert (Hvs : vs = get dict p) by (unfold get; rewrite (lookup_In_NoDup p vs dict Hnodup Hin); reflexivity).
    split; [|split; assumption]. subst vs. apply (Hcov p Hp) in He. apply In_lower_covers in He.
    apply lt_of_idx. tauto.
  Qed.

  Lemma get_pair_of_key (c : assoc) p : In p (map fst c) -> In (p, get c p) c.
  Proof.
    intros H. apply has_key_In in H. unfold has_key in H.
    destruct (lookup p c) as [v|] eqn:L; [|congruence]. unfold get. rewrite L. apply lookup_Some_In. exact L.
  Qed.

  Theorem lindig_path_correct k :
    match lindig_resorted ord k pre dict with
    | LOk l =>
        ll_concepts l = sort_concepts pre /\
        forall j, j < length pre ->
          (forall y, In y (get (ll_descendants l) j) <-> In y (spec_descendants exts j)) /\
          (forall y, In y (get (ll_ancestors l) j) <-> In y (spec_ancestors exts j)) /\
          (forall y, In y (get (ll_children l) j) <-> In y (spec_children exts j)) /\
          (forall y, In y (get (ll_parents l) j) <-> In y (spec_parents exts j))
    | LErr COutOfFuel => True
    | LErr _ => False
    end.
  Proof.
    unfold lindig_resorted.
    assert (HC := closed_by_direct_partial (leq_i pre) (idxs pre) PO dict Hnodup Hkeys Hcov ord Hord k).
    destruct (closed_relation ord k dict) as [a| | |]; try exact HC.
    destruct HC as [Hgood [Hnda Hkeysa]].
    split; [reflexivity|]. intros j Hj. cbn [ll_descendants ll_ancestors ll_children ll_parents].
    fold n in Hj. destruct (mi_surj t pre HL j Hj) as [i [Hi Ej]]. fold n in Hi.
    assert (Hii : In i (idxs pre)) by (apply (In_idxs pre); exact Hi).
    assert (Ejm : j = nth i mlist 0) by (unfold mlist, sorted; rewrite (nth_mlist pre i Hi); symmetry; exact Ej).
    assert (Hmj : mi i < length sorted).
    { unfold sorted. rewrite (sorted_len pre). apply (mi_found t pre HL i Hi). }
    assert (Hnm : forall r, r < n -> nth r mlist 0 = mi r) by (intros r Hr; apply (nth_mlist pre r Hr)).
    destruct (Hgood i Hii) as [v [Lv Hv]].
    assert (Gv : get a i = v) by (unfold get; rewrite Lv; reflexivity).
    assert (Ka : forall k0, In k0 (map fst a) -> k0 < n) by (intros k0 Hk0; apply lt_of_idx, Hkeysa, Hk0).
    assert (Kd : forall k0, In k0 (map fst dict) -> k0 < n) by (intros k0 Hk0; apply lt_of_idx, Hkeys, Hk0).
    (* members of the two transposed dictionaries *)
    assert (Apair : forall p vs, In (p, vs) a -> In p (idxs pre) /\ forall e, In e vs <-> In e (down p)).
    { intros p vs Hin.
      assert (Hp : In p (idxs pre)) by (apply Hkeysa; apply in_map_iff; exists (p, vs); auto).
      split; [exact Hp|]. destruct (Hgood p Hp) as [w [Lw Hw]].
      rewrite (lookup_In_NoDup p vs a Hnda Hin) in Lw. inversion Lw. subst. exact Hw. }
    assert (Kta : forall k0, In k0 (map fst (transpose_hierarchy a)) -> k0 < n).
    { intros k0 Hk0. apply keys_transpose in Hk0. destruct Hk0 as [H|[p [vs [H1 H2]]]]; [apply Ka; exact H|].
      destruct (Apair p vs H1) as [_ Hm]. apply Hm in H2. apply (down_lt p). exact H2. }
    assert (Ktd : forall k0, In k0 (map fst (transpose_hierarchy dict)) -> k0 < n).
    { intros k0 Hk0. apply keys_transpose in Hk0. destruct Hk0 as [H|[p [vs [H1 H2]]]]; [apply Kd; exact H|].
      apply (dict_values_lt p vs k0 H1 H2). }
    assert (Akey : forall p, In p (idxs pre) -> In (p, get a p) a).
    { intros p Hp. apply get_pair_of_key. apply has_key_In. destruct (Hgood p Hp) as [w [Lw _]].
      unfold has_key. rewrite Lw. discriminate. }
    assert (Dkey : forall p, In p (idxs pre) -> In (p, get dict p) dict).
    { intros p Hp. apply get_pair_of_key. apply Hkeys. exact Hp. }
    subst j. rewrite Ejm.
    change (map (fun c : concept => index_of c (sort_concepts pre)) pre) with mlist.
    split; [|split; [|split]]; intros y.
    - (* descendants *)
      rewrite (get_remap mlist n a i Ka Hi mlist_inj), Gv. rewrite (Hnm i Hi). unfold exts.
      rewrite <- (descendants_spec t sorted (HLs t pre HL) (mi i) Hmj).
      unfold descendants_nocache. unfold mi, sorted. rewrite (down_transfer t pre HL i y Hi).
      apply (map_members_transfer _ _ _ _ n); [exact Hv | apply down_lt | exact Hnm].
    - (* ancestors *)
      rewrite (get_remap mlist n (transpose_hierarchy a) i Kta Hi mlist_inj). rewrite (Hnm i Hi). unfold exts.
      rewrite <- (ancestors_spec t sorted (HLs t pre HL) (mi i) Hmj).
      unfold ancestors_nocache. unfold mi, sorted. rewrite (up_transfer t pre HL i y Hi).
      apply (map_members_transfer _ _ _ _ n); [| | exact Hnm].
      + intros p. rewrite get_transpose. rewrite <- (down_up_dual Nat.eqb (leq_i pre) nat_eqb_ok (idxs pre) i p Hii).
        split.
        * intros [vs [H1 H2]]. destruct (Apair p vs H1) as [Hp Hm]. split; [exact Hp | apply Hm; exact H2].
        * intros [Hp H2]. exists (get a p). split; [apply Akey; exact Hp|].
          destruct (Hgood p Hp) as [w [Lw Hw]]. unfold get. rewrite Lw. apply Hw. exact H2.
      + intros p Hp. apply (In_strict_up Nat.eqb (leq_i pre) nat_eqb_ok) in Hp. apply lt_of_idx. tauto.
    - (* children *)
      rewrite (get_remap mlist n dict i Kd Hi mlist_inj). rewrite (Hnm i Hi). unfold exts.
      rewrite <- (lower_covers_spec t sorted (HLs t pre HL) (mi i) Hmj).
      unfold mi, sorted. rewrite (lower_transfer t pre HL i y Hi).
      apply (map_members_transfer _ _ _ _ n); [apply (Hcov i Hii) | | exact Hnm].
      intros r Hr. apply In_lower_covers in Hr. apply lt_of_idx. tauto.
    - (* parents *)
      rewrite (get_remap mlist n (transpose_hierarchy dict) i Ktd Hi mlist_inj). rewrite (Hnm i Hi). unfold exts.
      rewrite <- (upper_covers_spec t sorted (HLs t pre HL) (mi i) Hmj).
      unfold mi, sorted. rewrite (upper_transfer t pre HL i y Hi).
      apply (map_members_transfer _ _ _ _ n); [| | exact Hnm].
      + intros p. rewrite get_transpose. rewrite <- (cover_dual Nat.eqb (leq_i pre) nat_eqb_ok (idxs pre) i p Hii).
        split.
        * intros [vs [H1 H2]]. destruct (dict_values_lt p vs i H1 H2) as [_ [Hp ->]].
          split; [exact Hp | apply (Hcov p Hp); exact H2].
        * intros [Hp H2]. exists (get dict p). split; [apply Dkey; exact Hp | apply (Hcov p Hp); exact H2].
      + intros p Hp. apply (In_upper_covers Nat.eqb (leq_i pre) nat_eqb_ok) in Hp. apply lt_of_idx. tauto.
  Qed.
End Lindig.

(* total version: with enough rounds the Lindig path yields a lattice, and its caches are right *)
Theorem lindig_path_total t pre (HL : concept_list t pre) (dict : assoc) (ord : list nat -> list nat) :
  NoDup (map fst dict) ->
  (forall x, In x (idxs pre) <-> In x (map fst dict)) ->
  (forall x, In x (idxs pre) ->
     forall y, In y (get dict x) <-> In y (lower_covers Nat.eqb (leq_i pre) (idxs pre) x)) ->
  (forall l, Permutation (ord l) l) ->
  exists k l, lindig_resorted ord k pre dict = LOk l /\
    ll_concepts l = sort_concepts pre /\
    forall j, j < length pre ->
      let exts := map fst (sort_concepts pre) in
      (forall y, In y (get (ll_descendants l) j) <-> In y (spec_descendants exts j)) /\
      (forall y, In y (get (ll_ancestors l) j) <-> In y (spec_ancestors exts j)) /\
      (forall y, In y (get (ll_children l) j) <-> In y (spec_children exts j)) /\
      (forall y, In y (get (ll_parents l) j) <-> In y (spec_parents exts j)).
Proof.
  intros Hn Hk Hc Hp.
  assert (Ho : forall l x, In x (ord l) <-> In x l).
  { intros l x. split; intros H; [eapply Permutation_in; [apply Hp | exact H] |
                                  eapply Permutation_in; [apply Permutation_sym, Hp | exact H]]. }
  destruct (closed_by_direct_total (leq_i pre) (idxs pre) (leq_i_partial_order t pre HL) dict Hn Hk Hc ord Ho
              (seq_NoDup _ _) Hp) as [k [a [Ha _]]].
  assert (H := lindig_path_correct t pre HL dict Hn Hk Hc ord Ho k).
  destruct (lindig_resorted ord k pre dict) as [l|r] eqn:E.
  - exists k, l. split; [exact E | exact H].
  - exfalso. unfold lindig_resorted in E. rewrite Ha in E. discriminate.
Qed.

(* ------------------------------------------------------------------ the cached top / bottom index
   of the Lindig path: computed by the constructor from the closure and its transpose, then
   re-mapped; for the complete concept set they are the first and the last position *)
Section LindigTopBottom.
  Variable t : table.
  Variable pre : list concept.
  Hypothesis HF : full_lattice t pre.
  Variable dict : assoc.
  Hypothesis Hnodup : NoDup (map fst dict).
  Hypothesis Hkeys : forall x, In x (idxs pre) <-> In x (map fst dict).
  Hypothesis Hcov : forall x, In x (idxs pre) ->
    forall y, In y (get dict x) <-> In y (lower_covers Nat.eqb (leq_i pre) (idxs pre) x).
  Variable ord : list nat -> list nat.
  Hypothesis Hord : forall l x, In x (ord l) <-> In x l.

  Let n := length pre.
  Let HL : concept_list t pre := proj1 HF.
  Let sorted := sort_concepts pre.

  Lemma empty_iff (a b : list nat) : (forall y, In y a <-> In y b) ->
    match a with [] => true | _ => false end = match b with [] => true | _ => false end.
  Proof.
    intros H. destruct a as [|x a], b as [|y b]; try reflexivity; exfalso.
    - apply (proj2 (H y)). left. reflexivity.
    - apply (proj1 (H x)). left. reflexivity.
  Qed.

  Theorem lindig_top_bottom k l : lindig_resorted ord k pre dict = LOk l ->
    ll_top l = Some 0 /\ ll_bottom l = Some (length pre - 1).
  Proof.
    unfold lindig_resorted. intros E.
    assert (HC := closed_by_direct_partial (leq_i pre) (idxs pre) (leq_i_partial_order t pre HL)
                    dict Hnodup Hkeys Hcov ord Hord k).
    destruct (closed_relation ord k dict) as [a| | |]; try discriminate.
    destruct HC as [Hgood [Hnda Hkeysa]]. inversion E as [El]. clear E. simpl.
    fold n. fold sorted.
    (* the extreme elements found through the dictionaries are those of the order *)
    assert (Hdesc : forall i, i < n -> forall y, In y (get a i) <-> In y (descendants_nocache pre i)).
    { intros i Hi y. destruct (Hgood i (proj2 (In_idxs pre i) Hi)) as [v [Lv Hv]].
      unfold get. rewrite Lv. apply Hv. }
    assert (Hanc : forall i, i < n -> forall y, In y (get (transpose_hierarchy a) i) <-> In y (ancestors_nocache pre i)).
    { intros i Hi y. rewrite get_transpose. unfold ancestors_nocache.
      rewrite <- (down_up_dual Nat.eqb (leq_i pre) nat_eqb_ok (idxs pre) i y (proj2 (In_idxs pre i) Hi)).
      split.
      - intros [vs [H1 H2]].
        assert (Hy : In y (idxs pre)) by (apply Hkeysa; apply in_map_iff; exists (y, vs); auto).
        split; [exact Hy|]. destruct (Hgood y Hy) as [w [Lw Hw]].
        rewrite (lookup_In_NoDup y vs a Hnda H1) in Lw. inversion Lw. subst. apply Hw. exact H2.
      - intros [Hy H2]. destruct (Hgood y Hy) as [w [Lw Hw]]. exists w. split; [apply lookup_Some_In; exact Lw|].
        apply Hw. exact H2. }
    assert (Etop : extremes_of n (get (transpose_hierarchy a)) = extremes_of n (ancestors_nocache pre)).
    { unfold extremes_of. apply filter_ext_in'. intros i Hi. apply in_seq in Hi. apply empty_iff. apply Hanc. lia. }
    assert (Ebot : extremes_of n (get a) = extremes_of n (descendants_nocache pre)).
    { unfold extremes_of. apply filter_ext_in'. intros i Hi. apply in_seq in Hi. apply empty_iff. apply Hdesc. lia. }
    rewrite Etop, Ebot.
    change (single (extremes_of n (ancestors_nocache pre))) with (top_index pre).
    change (single (extremes_of n (descendants_nocache pre))) with (bottom_index pre).
    destruct (top_exists t pre HF) as [kt [Hkt [Tt Et]]]. destruct (bottom_exists t pre HF) as [kb [Hkb [Tb Eb]]].
    rewrite Tt, Tb. simpl.
    destruct (listing_full t pre HF) as [HFs HSs]. fold sorted in HFs, HSs.
    destruct (top_first t sorted HFs HSs) as [_ E0]. destruct (bottom_last t sorted HFs HSs) as [_ E1].
    assert (Hlen : length sorted = n) by apply (sorted_len pre).
    rewrite Hlen in E1.
    fold n in Hkt, Hkb.
    unfold sorted. rewrite (nth_mlist pre kt Hkt), (nth_mlist pre kb Hkb). fold sorted.
    destruct (mi_found t pre HL kt Hkt) as [Mt Xt]. destruct (mi_found t pre HL kb Hkb) as [Mb Xb].
    fold sorted in Mt, Xt, Mb, Xb. fold n in Mt, Mb.
    assert (Hn : 0 < n) by lia.
    split; f_equal.
    - apply (extent_inj t sorted (proj1 HFs)); try (rewrite Hlen; lia). rewrite Xt, Et, E0. reflexivity.
    - apply (extent_inj t sorted (proj1 HFs)); try (rewrite Hlen; lia). rewrite Xb, Eb, E1. reflexivity.
  Qed.
End LindigTopBottom.

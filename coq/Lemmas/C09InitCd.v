(* Lemmas/C09InitCd.v — POSet.__init__ with a precomputed children_dict builds sound caches
   (property C09, theorem init_sound, children_dict case).

   _closed_relation_cache_by_direct_cache (the work-list closure), _transpose_hierarchy and the
   pre-filled leq table are shown correct for a TRUE children dictionary over a partial order:
   - [init_cd_sound_partial]: whenever the closure returns at all, the five caches satisfy the
     invariant [Sound] (descendants = strict down-sets of EVERY index, ancestors = their
     transpose, children = the dictionary, parents = its transpose = upper covers, leq table =
     lq including the reflexive entries);
   - [init_cd_total]: it always returns within the fuel S n * 2^n of the model
     ([first_ready_total]: the search for a ready work-list entry never fails;
      [close_loop_total]: a work-list entry x costs at most 2^|strict ancestors of x| rounds);
   - [init_cd_sound]: both together. *)
From FCA Require Import Base.ListSet Spec.PosetSpec Model.Poset Lemmas.C09Base Lemmas.C09Query.

#[local] Arguments upd : simpl never.
#[local] Arguments updl : simpl never.
#[local] Arguments lk : simpl never.
#[local] Arguments lkl : simpl never.

(* ------------------------------------------------------------------ association lists *)
Definition haskey (c : cache) (k : nat) : Prop := exists X, lk c k = Some X.

Lemma haskey_iff c k : haskey c k <-> In k (map fst c).
Proof.
  unfold haskey, lk. induction c as [|[k' v'] c IH]; simpl.
  - split; [intros [X H]; discriminate | tauto].
  - destruct (Nat.eqb k k') eqn:Hk.
    + apply Nat.eqb_eq in Hk. subst. split; [auto | eauto].
    + apply Nat.eqb_neq in Hk. rewrite IH. split; [tauto | intros [H | H]; [congruence | exact H]].
Qed.

Lemma In_lk (c : cache) k v : NoDup (map fst c) -> In (k, v) c -> lk c k = Some v.
Proof.
  unfold lk. induction c as [|[k' v'] c IH]; simpl; [tauto|].
  intros Hn [H | H].
  - injection H as -> ->. rewrite Nat.eqb_refl. reflexivity.
  - inversion Hn as [|? ? Hk Hn']; subst.
    destruct (Nat.eqb k k') eqn:Hkk.
    + apply Nat.eqb_eq in Hkk. subst. exfalso. apply Hk.
      change k' with (fst (k', v)). apply in_map. exact H.
    + apply IH; assumption.
Qed.

Lemma In_keys_remove_key (c : cache) k x :
  In x (map fst (remove_key Nat.eqb k c)) -> In x (map fst c) /\ x <> k.
Proof.
  rewrite !in_map_iff. intros [[a b] [H1 H2]]. simpl in H1. subst a.
  apply In_remove_key_nat in H2. simpl in H2. destruct H2 as [H2 H3].
  split; [exists (x, b); auto | exact H3].
Qed.

Lemma NoDup_keys_remove_key (c : cache) k :
  NoDup (map fst c) -> NoDup (map fst (remove_key Nat.eqb k c)).
Proof.
  induction c as [|[k' v'] c IH]; simpl; [auto|]. intros Hn.
  inversion Hn as [|? ? Hk Hn']; subst.
  destruct (Nat.eqb k k'); [apply IH; exact Hn'|].
  simpl. constructor; [|apply IH; exact Hn'].
  intros H. apply In_keys_remove_key in H. tauto.
Qed.

Lemma NoDup_keys_upd (c : cache) k v : NoDup (map fst c) -> NoDup (map fst (upd k v c)).
Proof.
  intros Hn. unfold upd, update. simpl. constructor; [|apply NoDup_keys_remove_key; exact Hn].
  intros H. apply In_keys_remove_key in H. tauto.
Qed.

Lemma getd_upd (c : cache) k v k' : getd (upd k v c) k' = if Nat.eqb k' k then v else getd c k'.
Proof. unfold getd. rewrite lk_upd. destruct (Nat.eqb k' k); reflexivity. Qed.

Lemma haskey_upd (c : cache) k v k' : haskey (upd k v c) k' <-> haskey c k' \/ k' = k.
Proof.
  unfold haskey. rewrite lk_upd. destruct (Nat.eqb k' k) eqn:Hk.
  - apply Nat.eqb_eq in Hk. split; [auto | eauto].
  - apply Nat.eqb_neq in Hk. split; [auto | intros [H | H]; [exact H | contradiction]].
Qed.

Lemma getd_nokey (c : cache) k : ~ haskey c k -> getd c k = [].
Proof.
  unfold haskey, getd. destruct (lk c k) as [X|]; [intros H; exfalso; apply H; eauto | reflexivity].
Qed.

(* a cache with distinct keys whose values are duplicate free *)
Definition good (c : cache) : Prop := NoDup (map fst c) /\ forall v, NoDup (getd c v).

Lemma good_nil : good [].
Proof. split; [constructor | intros v; constructor]. Qed.

(* ------------------------------------------------------------------ _transpose_hierarchy *)
Definition tr_inner (k : nat) (acc : cache) (v : nat) : cache := upd v (union (getd acc v) [k]) acc.
Definition tr_ensure (k : nat) (acc : cache) : cache :=
  match lk acc k with Some _ => acc | None => upd k [] acc end.
Definition tr_outer (acc : cache) (kv : nat * list nat) : cache :=
  fold_left (tr_inner (fst kv)) (snd kv) (tr_ensure (fst kv) acc).

Lemma transpose_eq h : transpose h = fold_left tr_outer h [].
Proof. reflexivity. Qed.

Lemma tr_inner_step k acc v0 :
  good acc ->
  good (tr_inner k acc v0) /\
  (forall v, haskey (tr_inner k acc v0) v <-> haskey acc v \/ v = v0) /\
  (forall v j, In j (getd (tr_inner k acc v0) v) <-> In j (getd acc v) \/ (j = k /\ v = v0)).
Proof.
  intros [G1 G2]. unfold tr_inner. split; [split|split].
  - apply NoDup_keys_upd. exact G1.
  - intros v. rewrite getd_upd. destruct (Nat.eqb v v0); [|apply G2].
    apply NoDup_union; [apply G2 | constructor; [simpl; tauto | constructor]].
  - intros v. apply haskey_upd.
  - intros v j. rewrite getd_upd. destruct (Nat.eqb v v0) eqn:Hv.
    + apply Nat.eqb_eq in Hv. subst v0. rewrite In_union. simpl.
      split; [intros [H | [H | []]]; auto | intros [H | [H _]]; auto].
    + apply Nat.eqb_neq in Hv. split; [auto | intros [H | [_ H]]; [exact H | contradiction]].
Qed.

Lemma tr_inner_spec k vs : forall acc,
  good acc ->
  good (fold_left (tr_inner k) vs acc) /\
  (forall v, haskey (fold_left (tr_inner k) vs acc) v <-> haskey acc v \/ In v vs) /\
  (forall v j, In j (getd (fold_left (tr_inner k) vs acc) v) <-> In j (getd acc v) \/ (j = k /\ In v vs)).
Proof.
  induction vs as [|v0 vs IH]; intros acc G; simpl.
  - split; [exact G|]. split; intros; tauto.
  - destruct (tr_inner_step k acc v0 G) as [G' [K' M']].
    destruct (IH _ G') as [G'' [K'' M'']].
    split; [exact G''|]. split.
    + intros v. rewrite K'', K'. intuition.
    + intros v j. rewrite M'', M'. intuition.
Qed.

Lemma tr_ensure_spec k acc :
  good acc ->
  good (tr_ensure k acc) /\
  (forall v, haskey (tr_ensure k acc) v <-> haskey acc v \/ v = k) /\
  (forall v, getd (tr_ensure k acc) v = getd acc v).
Proof.
  intros [G1 G2]. unfold tr_ensure. destruct (lk acc k) as [X|] eqn:Hk.
  - split; [split; assumption|]. split; [|reflexivity].
    intros v. split; [auto | intros [H | ->]; [exact H | exists X; exact Hk]].
  - assert (Hg : forall v, getd (upd k [] acc) v = getd acc v).
    { intros v. rewrite getd_upd. destruct (Nat.eqb v k) eqn:Hv; [|reflexivity].
      apply Nat.eqb_eq in Hv. subst. unfold getd. rewrite Hk. reflexivity. }
    split; [split|split].
    + apply NoDup_keys_upd. exact G1.
    + intros v. rewrite Hg. apply G2.
    + intros v. apply haskey_upd.
    + exact Hg.
Qed.

Lemma tr_outer_spec h : forall acc,
  good acc ->
  good (fold_left tr_outer h acc) /\
  (forall v, haskey (fold_left tr_outer h acc) v <->
             haskey acc v \/ In v (map fst h) \/ exists k Y, In (k, Y) h /\ In v Y) /\
  (forall v j, In j (getd (fold_left tr_outer h acc) v) <->
               In j (getd acc v) \/ exists Y, In (j, Y) h /\ In v Y).
Proof.
  induction h as [|[k Y] h IH]; intros acc G; simpl.
  - split; [exact G|]. split.
    + intros v. split; [auto | intros [H | [[] | [k [Y [[] _]]]]]; exact H].
    + intros v j. split; [auto | intros [H | [Y [[] _]]]; exact H].
  - destruct (tr_ensure_spec k acc G) as [G1 [K1 M1]].
    destruct (tr_inner_spec k Y _ G1) as [G2 [K2 M2]].
    destruct (IH (tr_outer acc (k, Y))) as [G3 [K3 M3]]; [exact G2|].
    split; [exact G3|]. split.
    + intros v. rewrite K3. unfold tr_outer. cbn [fst snd]. rewrite K2, K1. split.
      * intros [[[H | ->] | H] | [H | [k' [Y' [H1 H2]]]]]; auto.
        -- right. right. exists k, Y. auto.
        -- right. right. exists k', Y'. auto.
      * intros [H | [[<- | H] | [k' [Y' [[H1 | H1] H2]]]]]; auto.
        -- injection H1 as <- <-. auto.
        -- right. right. exists k', Y'. auto.
    + intros v j. rewrite M3. unfold tr_outer. cbn [fst snd]. rewrite M2, M1. split.
      * intros [[H | [-> H]] | [Y' [H1 H2]]]; auto.
        -- right. exists Y. auto.
        -- right. exists Y'. auto.
      * intros [H | [Y' [[H1 | H1] H2]]]; auto.
        -- injection H1 as <- <-. auto.
        -- right. exists Y'. auto.
Qed.

Lemma transpose_spec h :
  good (transpose h) /\
  (forall v, haskey (transpose h) v <-> In v (map fst h) \/ exists k Y, In (k, Y) h /\ In v Y) /\
  (forall v j, In j (getd (transpose h) v) <-> exists Y, In (j, Y) h /\ In v Y).
Proof.
  rewrite transpose_eq. destruct (tr_outer_spec h [] good_nil) as [G [K M]].
  split; [exact G|]. split.
  - intros v. rewrite K. split; [intros [[X H] | H]; [discriminate | exact H] | auto].
  - intros v j. rewrite M. split; [intros [[] | H]; exact H | auto].
Qed.

(* ------------------------------------------------------------------ small list facts *)
Lemma all_or_witness (L V : list nat) :
  (forall c, In c L -> In c V) \/ (exists c, In c L /\ ~ In c V).
Proof.
  induction L as [|a L IH]; [left; intros c []|].
  destruct (in_dec Nat.eq_dec a V) as [Ha | Ha].
  - destruct IH as [IH | [c [H1 H2]]].
    + left. intros c [<- | H]; auto.
    + right. exists c. split; [right; exact H1 | exact H2].
  - right. exists a. split; [left; reflexivity | exact Ha].
Qed.

Lemma In_remove_first x y l : In y (remove_first x l) -> In y l.
Proof.
  induction l as [|a l IH]; simpl; [tauto|].
  destruct (Nat.eqb x a); [auto|]. intros [H | H]; auto.
Qed.

Lemma In_remove_first_other x y l : In y l -> y <> x -> In y (remove_first x l).
Proof.
  induction l as [|a l IH]; simpl; [tauto|]. intros [<- | H] Hn.
  - destruct (Nat.eqb x a) eqn:Hx; [apply Nat.eqb_eq in Hx; congruence | left; reflexivity].
  - destruct (Nat.eqb x a); [exact H | right; apply IH; assumption].
Qed.

Lemma fold_union_In (g : nat -> list nat) rels : forall acc j,
  In j (fold_left (fun acc r => union acc (g r)) rels acc) <->
  In j acc \/ exists r, In r rels /\ In j (g r).
Proof.
  induction rels as [|r rels IH]; intros acc j; simpl.
  - split; [auto | intros [H | [r [[] _]]]; exact H].
  - rewrite IH, In_union. split.
    + intros [[H | H] | [r' [H1 H2]]]; eauto.
    + intros [H | [r' [[<- | H1] H2]]]; eauto.
Qed.

Lemma fold_union_NoDup (g : nat -> list nat) rels : forall acc,
  NoDup acc -> (forall r, In r rels -> NoDup (g r)) ->
  NoDup (fold_left (fun acc r => union acc (g r)) rels acc).
Proof.
  induction rels as [|r rels IH]; intros acc Ha Hg; simpl; [exact Ha|].
  apply IH; [apply NoDup_union; [exact Ha | apply Hg; left; reflexivity]|].
  intros r' Hr'. apply Hg. right. exact Hr'.
Qed.


Lemma pow2_pos a : 1 <= 2 ^ a.
Proof. pose proof (Nat.pow_nonzero 2 a). lia. Qed.

Lemma pow2_parents k a : k <= a -> k * 2 ^ (a - k) + 1 <= 2 ^ a.
Proof.
  intros H. replace a with (k + (a - k)) at 2 by lia. rewrite Nat.pow_add_r.
  pose proof (Nat.pow_gt_lin_r 2 k). pose proof (pow2_pos (a - k)).
  assert (k * 2 ^ (a - k) + 1 <= (k + 1) * 2 ^ (a - k)) by lia.
  assert ((k + 1) * 2 ^ (a - k) <= 2 ^ k * 2 ^ (a - k)) by (apply Nat.mul_le_mono_r; lia).
  lia.
Qed.

Lemma filter_len_le {A} (p : A -> bool) L : length (filter p L) <= length L.
Proof. induction L as [|x L IH]; simpl; [lia|]. destruct (p x); simpl; lia. Qed.

Lemma list_sum_bound (w : nat -> nat) B L :
  (forall x, In x L -> w x <= B) -> list_sum (map w L) <= length L * B.
Proof.
  induction L as [|x L IH]; intros H; simpl; [lia|].
  pose proof (H x (or_introl eq_refl)). assert (list_sum (map w L) <= length L * B).
  { apply IH. intros y Hy. apply H. right. exact Hy. }
  lia.
Qed.

Lemma list_sum_remove_first (w : nat -> nat) x L :
  In x L -> list_sum (map w (remove_first x L)) + w x = list_sum (map w L).
Proof.
  induction L as [|a L IH]; simpl; [tauto|]. intros H.
  destruct (Nat.eqb x a) eqn:Hx.
  - apply Nat.eqb_eq in Hx. subst. lia.
  - apply Nat.eqb_neq in Hx. destruct H as [H | H]; [congruence|]. simpl. specialize (IH H). lia.
Qed.

Section InitCd.
  Variable E : Type.
  Variable leq eqb : E -> E -> bool.
  Hypothesis PO : partial_order E leq eqb.

  Notation state := (state E).
  Notation lq := (lq E leq).
  Notation ldir := (ldir E leq).
  Notation strict_rel := (strict_rel E leq).
  Notation covers := (covers E leq).
  Notation sdir := (sdir E leq).

  (* ---------------------------------------------------------------- order facts *)
  Lemma strict_rel_flip l up i j : In j (strict_rel l up i) <-> In i (strict_rel l (negb up) j).
  Proof.
    rewrite !In_strict_rel, ldir_flip. split; intros [H1 H2]; split; auto.
  Qed.

  (* j is an upper cover of i iff i is a lower cover of j *)
  Lemma covers_flip l up i j : In j (covers l up i) <-> In i (covers l (negb up) j).
  Proof.
    rewrite !In_covers. split; intros [H1 H2]; split.
    - apply (proj1 (strict_rel_flip l up i j)). exact H1.
    - intros k Hk Hi. apply (H2 k).
      + apply (proj2 (strict_rel_flip l up i k)). exact Hi.
      + apply (proj2 (strict_rel_flip l up k j)). exact Hk.
    - apply (proj2 (strict_rel_flip l up i j)). exact H1.
    - intros k Hk Hj. apply (H2 k).
      + apply (proj1 (strict_rel_flip l up k j)). exact Hj.
      + apply (proj1 (strict_rel_flip l up i k)). exact Hk.
  Qed.

  Lemma strict_rel_range l up i j : In j (strict_rel l up i) -> i < length l /\ j < length l.
  Proof. rewrite In_strict_rel. intros [H _]. eapply ldir_range; eauto. Qed.

  Lemma covers_strict l up i j : In j (covers l up i) -> In j (strict_rel l up i).
  Proof. rewrite In_covers. tauto. Qed.

  Lemma strict_rel_trans l up a b c :
    NoDup l -> In b (strict_rel l up a) -> In c (strict_rel l up b) -> In c (strict_rel l up a).
  Proof.
    rewrite !In_strict_rel. intros Hn H1 H2.
    destruct (sdir_trans E leq eqb PO l up a b c Hn H1 H2) as [H3 H4]. auto.
  Qed.

  (* every strict relative lies at or beyond some cover *)
  Lemma beyond_some_cover l up x j :
    NoDup l -> In j (strict_rel l up x) ->
    exists c, In c (covers l up x) /\ (c = j \/ In j (strict_rel l up c)).
  Proof.
    intros Hn Hj.
    pose (L := filter (fun k => ldir l up k j) (strict_rel l up x)).
    assert (Hjr : j < length l) by (apply strict_rel_range in Hj; tauto).
    assert (HjL : In j L).
    { apply filter_In. split; [exact Hj | apply (ldir_refl E leq eqb PO); exact Hjr]. }
    destruct (exists_minimal_below E leq eqb PO l up L Hn j HjL Hjr) as [m [HmL [Hmj Hmin]]].
    apply filter_In in HmL. destruct HmL as [Hmx _].
    exists m. split.
    - apply In_covers. split; [exact Hmx|]. intros k Hk Hmk.
      apply In_strict_rel in Hmk. apply (Hmin k); [|exact Hmk].
      apply filter_In. split; [exact Hk|].
      destruct Hmk as [Hmk _]. eapply (ldir_trans E leq eqb PO); eauto.
    - destruct (Nat.eq_dec m j) as [-> | Hne]; [left; reflexivity|].
      right. apply In_strict_rel. split; [exact Hmj | auto].
  Qed.

  (* ---------------------------------------------------------------- the work-list closure *)
  Section Loop.
    Variable l : list E.
    Hypothesis Hl : NoDup l.
    Variable direct trans : cache.
    Notation n := (length l).
    Notation D := (getd direct).
    Notation T := (getd trans).
    Hypothesis HD : forall x, x < n -> NoDup (D x) /\ forall j, In j (D x) <-> In j (covers l false x).
    Hypothesis HT : forall x j, In j (T x) <-> j < n /\ In x (D j).

    Definition val_ok (cc : cache) (x : nat) : Prop :=
      NoDup (getd cc x) /\ forall j, In j (getd cc x) <-> In j (strict_rel l false x).

    Record Inv (todo visited : list nat) (cc : cache) : Prop := mk_Inv {
      inv_keys : forall x, In x visited <-> haskey cc x;
      inv_nd : NoDup (map fst cc);
      inv_val : forall x, In x visited -> x < n /\ val_ok cc x;
      inv_todo : forall x, x < n -> ~ In x visited -> (forall c, In c (D x) -> In c visited) -> In x todo;
      inv_rng : forall x, In x todo -> x < n
    }.

    Definition step_val (cc : cache) (x : nat) : list nat :=
      fold_left (fun acc r => union acc (getd cc r)) (D x) (D x).

    Lemma first_ready_Some visited todo x :
      first_ready direct visited todo = Some x ->
      In x todo /\ forall c, In c (D x) -> In c visited.
    Proof.
      induction todo as [|a t IH]; simpl; [discriminate|].
      destruct (subsetb (D a) visited) eqn:Hs.
      - intros H. injection H as <-. split; [left; reflexivity|].
        apply subsetb_incl in Hs. exact Hs.
      - intros H. destruct (IH H). split; [right|]; assumption.
    Qed.

    Lemma step_val_ok cc visited x :
      x < n -> (forall c, In c visited -> val_ok cc c) -> (forall c, In c (D x) -> In c visited) ->
      NoDup (step_val cc x) /\ forall j, In j (step_val cc x) <-> In j (strict_rel l false x).
    Proof.
      intros Hx Hv Hr. destruct (HD x Hx) as [HDn HDm]. unfold step_val. split.
      - apply fold_union_NoDup; [exact HDn|]. intros r Hr'. apply Hv. apply Hr. exact Hr'.
      - intros j. rewrite fold_union_In. split.
        + intros [H | [r [H1 H2]]].
          * apply covers_strict. apply HDm. exact H.
          * apply (strict_rel_trans l false x r j Hl).
            -- apply covers_strict. apply HDm. exact H1.
            -- apply (Hv r (Hr r H1)). exact H2.
        + intros H. destruct (beyond_some_cover l false x j Hl H) as [c [Hc Hcj]].
          apply HDm in Hc. destruct Hcj as [-> | Hcj]; [left; exact Hc|].
          right. exists c. split; [exact Hc|]. apply (Hv c (Hr c Hc)). exact Hcj.
    Qed.

    Lemma Inv_step todo visited cc x :
      Inv todo visited cc -> first_ready direct visited todo = Some x ->
      Inv (remove_first x todo ++ T x) (add1 x visited) (upd x (step_val cc x) cc).
    Proof.
      intros [I1 I2 I3 I4 I5] Hf. apply first_ready_Some in Hf. destruct Hf as [Hxt Hxr].
      assert (Hx : x < n) by (apply I5; exact Hxt).
      destruct (step_val_ok cc visited x Hx (fun c Hc => proj2 (I3 c Hc)) Hxr) as [V1 V2].
      constructor.
      - intros y. rewrite In_add1, haskey_upd, I1. tauto.
      - apply NoDup_keys_upd. exact I2.
      - intros y Hy. apply In_add1 in Hy. unfold val_ok. rewrite getd_upd.
        destruct (Nat.eqb y x) eqn:Hyx.
        + apply Nat.eqb_eq in Hyx. subst y. auto.
        + apply Nat.eqb_neq in Hyx. destruct Hy as [Hy | Hy]; [contradiction|]. apply I3. exact Hy.
      - intros y Hy Hnv Hch. rewrite In_add1 in Hnv. apply in_app_iff.
        destruct (all_or_witness (D y) visited) as [Hall | [c [Hc1 Hc2]]].
        + left. apply In_remove_first_other; [|tauto]. apply I4; [exact Hy | tauto | exact Hall].
        + right. apply HT. split; [exact Hy|].
          pose proof (Hch c Hc1) as Hc3. apply In_add1 in Hc3.
          destruct Hc3 as [-> | Hc3]; [exact Hc1 | contradiction].
      - intros y Hy. apply in_app_iff in Hy. destruct Hy as [Hy | Hy].
        + apply I5. eapply In_remove_first; eauto.
        + apply HT in Hy. tauto.
    Qed.

    (* with an empty work list nothing is left unvisited *)
    Lemma Inv_exit visited cc : Inv [] visited cc -> forall x, x < n -> In x visited.
    Proof.
      intros [I1 I2 I3 I4 I5] x Hx.
      destruct (in_dec Nat.eq_dec x visited) as [H | H]; [exact H | exfalso].
      pose (L := filter (fun k => negb (mem k visited)) (seq 0 n)).
      assert (HL : forall k, In k L <-> k < n /\ ~ In k visited).
      { intros k. unfold L. rewrite filter_In, In_seq0, negb_true_iff, mem_false_iff. tauto. }
      assert (HxL : In x L) by (apply HL; tauto).
      destruct (exists_minimal_below E leq eqb PO l true L Hl x HxL Hx) as [m [HmL [_ Hmin]]].
      apply HL in HmL. destruct HmL as [Hm Hmv].
      apply (I4 m Hm Hmv). intros c Hc.
      destruct (in_dec Nat.eq_dec c visited) as [Hcv | Hcv]; [exact Hcv | exfalso].
      apply (HD m Hm) in Hc. apply covers_strict in Hc.
      pose proof (strict_rel_range _ _ _ _ Hc) as [_ Hcr].
      apply In_strict_rel in Hc. destruct Hc as [Hc1 Hc2].
      apply (Hmin c); [apply HL; tauto|]. split; [exact Hc1 | auto].
    Qed.

    Definition closure_post (res : cache) : Prop :=
      NoDup (map fst res) /\ (forall x, haskey res x <-> x < n) /\ forall x, x < n -> val_ok res x.

    Lemma close_loop_sound : forall fuel todo visited cc res,
      Inv todo visited cc -> close_loop fuel direct trans todo visited cc = Some res ->
      closure_post res.
    Proof.
      induction fuel as [|f IH]; intros todo visited cc res HI Hr.
      - destruct todo as [|a t]; simpl in Hr; [|discriminate]. injection Hr as <-.
        pose proof (Inv_exit visited cc HI) as Hall. destruct HI as [I1 I2 I3 I4 I5].
        split; [exact I2|]. split.
        + intros x. rewrite <- I1. split; [intros H; apply I3; exact H | apply Hall].
        + intros x Hx. apply I3. apply Hall. exact Hx.
      - destruct todo as [|a t].
        + simpl in Hr. injection Hr as <-.
          pose proof (Inv_exit visited cc HI) as Hall. destruct HI as [I1 I2 I3 I4 I5].
          split; [exact I2|]. split.
          * intros x. rewrite <- I1. split; [intros H; apply I3; exact H | apply Hall].
          * intros x Hx. apply I3. apply Hall. exact Hx.
        + cbn [close_loop] in Hr.
          destruct (first_ready direct visited (a :: t)) as [x|] eqn:Hf; [|discriminate].
          eapply IH; [|exact Hr]. apply Inv_step; assumption.
    Qed.

    (* ------------------------------------------------------------ termination within the fuel *)
    Hypothesis HTn : forall x, NoDup (T x).

    Lemma minimal_unvisited visited x :
      x < n -> ~ In x visited ->
      exists m, m < n /\ ~ In m visited /\ forall c, In c (D m) -> In c visited.
    Proof.
      intros Hx H.
      pose (L := filter (fun k => negb (mem k visited)) (seq 0 n)).
      assert (HL : forall k, In k L <-> k < n /\ ~ In k visited).
      { intros k. unfold L. rewrite filter_In, In_seq0, negb_true_iff, mem_false_iff. tauto. }
      assert (HxL : In x L) by (apply HL; tauto).
      destruct (exists_minimal_below E leq eqb PO l true L Hl x HxL Hx) as [m [HmL [_ Hmin]]].
      apply HL in HmL. destruct HmL as [Hm Hmv].
      exists m. split; [exact Hm|]. split; [exact Hmv|]. intros c Hc.
      destruct (in_dec Nat.eq_dec c visited) as [Hcv | Hcv]; [exact Hcv | exfalso].
      apply (HD m Hm) in Hc. apply covers_strict in Hc.
      pose proof (strict_rel_range _ _ _ _ Hc) as [_ Hcr].
      apply In_strict_rel in Hc. destruct Hc as [Hc1 Hc2].
      apply (Hmin c); [apply HL; tauto|]. split; [exact Hc1 | auto].
    Qed.

    Lemma first_ready_complete visited todo y :
      In y todo -> (forall c, In c (D y) -> In c visited) ->
      exists x, first_ready direct visited todo = Some x.
    Proof.
      induction todo as [|a t IH]; simpl; [tauto|]. intros Hy Hc.
      destruct (subsetb (D a) visited) eqn:Hs; [eauto|].
      destruct Hy as [-> | Hy]; [|apply IH; assumption].
      exfalso. assert (subsetb (D y) visited = true) by (apply subsetb_incl; exact Hc). congruence.
    Qed.

    (* (a) the search for a ready work-list entry never fails *)
    Lemma first_ready_total todo visited cc :
      Inv todo visited cc -> todo <> [] -> exists x, first_ready direct visited todo = Some x.
    Proof.
      intros [I1 I2 I3 I4 I5] Hne.
      destruct (all_or_witness (seq 0 n) visited) as [Hall | [x [Hx1 Hx2]]].
      - destruct todo as [|a t]; [contradiction|].
        apply (first_ready_complete visited (a :: t) a); [left; reflexivity|].
        intros c Hc. apply Hall. apply In_seq0.
        assert (Ha : a < n) by (apply I5; left; reflexivity).
        apply (HD a Ha) in Hc. apply covers_strict, strict_rel_range in Hc. tauto.
      - apply In_seq0 in Hx1.
        destruct (minimal_unvisited visited x Hx1 Hx2) as [m [Hm [Hmv Hmc]]].
        apply (first_ready_complete visited todo m); [apply I4; assumption | exact Hmc].
    Qed.

    (* (b) every entry x of the work list costs at most 2^(number of strict ancestors of x) rounds *)
    Definition wt (x : nat) : nat := 2 ^ length (strict_rel l true x).

    Lemma T_parents x p : In p (T x) <-> In p (covers l true x).
    Proof.
      rewrite HT. split.
      - intros [Hp Hx]. apply (HD p Hp) in Hx. apply (proj2 (covers_flip l true x p)). exact Hx.
      - intros H. pose proof (strict_rel_range _ _ _ _ (covers_strict _ _ _ _ H)) as [_ Hp].
        split; [exact Hp|]. apply (HD p Hp). apply (proj1 (covers_flip l true x p)). exact H.
    Qed.

    Lemma ancestors_of_parent x p :
      In p (T x) -> length (strict_rel l true p) + length (T x) <= length (strict_rel l true x).
    Proof.
      intros Hp. rewrite <- app_length. apply NoDup_incl_length.
      - apply NoDup_app_intro; [apply NoDup_strict_rel | apply HTn|].
        intros y Hy Hy'. apply T_parents in Hy'. apply T_parents in Hp.
        apply In_covers in Hy'. destruct Hy' as [_ Hy']. apply (Hy' p); [|exact Hy].
        apply covers_strict. exact Hp.
      - intros y Hy. apply in_app_iff in Hy. apply T_parents, covers_strict in Hp.
        destruct Hy as [Hy | Hy].
        + eapply strict_rel_trans; eauto.
        + apply T_parents, covers_strict in Hy. exact Hy.
    Qed.

    Lemma wt_parents x : list_sum (map wt (T x)) + 1 <= wt x.
    Proof.
      set (k := length (T x)). set (a := length (strict_rel l true x)).
      assert (Hk : k <= a).
      { unfold k. destruct (T x) as [|p r] eqn:HTx; [simpl; lia|].
        pose proof (ancestors_of_parent x p) as H. rewrite HTx in H.
        specialize (H (or_introl eq_refl)). fold a in H. lia. }
      assert (Hs : list_sum (map wt (T x)) <= k * 2 ^ (a - k)).
      { apply list_sum_bound. intros p Hp. unfold wt. apply Nat.pow_le_mono_r; [lia|].
        pose proof (ancestors_of_parent x p Hp). fold k a in H. lia. }
      pose proof (pow2_parents k a Hk). unfold wt at 2. fold a. lia.
    Qed.

    Lemma close_loop_total : forall fuel todo visited cc,
      Inv todo visited cc -> list_sum (map wt todo) <= fuel ->
      exists res, close_loop fuel direct trans todo visited cc = Some res.
    Proof.
      induction fuel as [|f IH]; intros todo visited cc HI Hw.
      - destruct todo as [|a t]; [simpl; eauto|]. exfalso.
        simpl in Hw. pose proof (pow2_pos (length (strict_rel l true a))). unfold wt in Hw at 1. lia.
      - destruct todo as [|a t]; [simpl; eauto|].
        cbn [close_loop].
        destruct (first_ready_total (a :: t) visited cc HI) as [x Hx]; [discriminate|].
        rewrite Hx. apply IH; [apply Inv_step; assumption|].
        apply first_ready_Some in Hx. destruct Hx as [Hx _].
        rewrite map_app, list_sum_app.
        pose proof (list_sum_remove_first wt x (a :: t) Hx). pose proof (wt_parents x). lia.
    Qed.
  End Loop.

  (* ---------------------------------------------------------------- a full cache *)
  (* distinct keys, exactly the indexes below n *)
  Definition full (n : nat) (c : cache) : Prop :=
    NoDup (map fst c) /\ forall i, haskey c i <-> i < n.

  Lemma full_entry n c i X : full n c -> In (i, X) c -> i < n /\ getd c i = X.
  Proof.
    intros [F1 F2] H. pose proof (In_lk c i X F1 H) as Hk. split.
    - apply F2. exists X. exact Hk.
    - unfold getd. rewrite Hk. reflexivity.
  Qed.

  Lemma full_has n c i : full n c -> i < n -> In (i, getd c i) c.
  Proof.
    intros [F1 F2] H. apply F2 in H. destruct H as [X HX]. unfold getd. rewrite HX.
    apply lk_In. exact HX.
  Qed.

  Lemma transpose_full n c :
    full n c -> (forall i j, i < n -> In j (getd c i) -> j < n) ->
    full n (transpose c) /\ (forall v, NoDup (getd (transpose c) v)) /\
    (forall v j, In j (getd (transpose c) v) <-> j < n /\ In v (getd c j)).
  Proof.
    intros F Hr. destruct (transpose_spec c) as [[G1 G2] [K M]].
    split; [split; [exact G1|]|split; [exact G2|]].
    - intros v. rewrite K. split.
      + intros [H | [k [Y [H1 H2]]]].
        * apply (proj2 F). apply haskey_iff. exact H.
        * destruct (full_entry n c k Y F H1) as [Hk HY]. apply (Hr k v Hk). rewrite HY. exact H2.
      + intros H. left. apply haskey_iff. apply (proj2 F). exact H.
    - intros v j. rewrite M. split.
      + intros [Y [H1 H2]]. destruct (full_entry n c j Y F H1) as [Hk HY]. rewrite HY. auto.
      + intros [H1 H2]. exists (getd c j). split; [apply (full_has n); assumption | exact H2].
  Qed.

  (* ---------------------------------------------------------------- the statement *)
  (* a TRUE children dictionary: exactly one entry per index, listing the lower covers *)
  Definition covers_dict_ok (l : list E) (cd : cache) : Prop :=
    NoDup (map fst cd) /\ (forall i, In i (map fst cd) <-> i < length l) /\
    forall i X, In (i, X) cd -> NoDup X /\ forall j, In j X <-> In j (covers l false i).

  Section Dict.
    Variable l : list E.
    Hypothesis Hl : NoDup l.
    Variable cd : cache.
    Hypothesis Hcd : covers_dict_ok l cd.
    Notation n := (length l).

    Lemma cd_full : full n cd.
    Proof.
      destruct Hcd as [C1 [C2 C3]]. split; [exact C1|]. intros i. rewrite haskey_iff. apply C2.
    Qed.

    Lemma cd_D x : x < n -> NoDup (getd cd x) /\ forall j, In j (getd cd x) <-> In j (covers l false x).
    Proof.
      intros Hx. destruct Hcd as [C1 [C2 C3]]. apply (C3 x). apply (full_has n); [apply cd_full | exact Hx].
    Qed.

    Lemma cd_range i j : i < n -> In j (getd cd i) -> j < n.
    Proof.
      intros Hi Hj. apply (cd_D i Hi) in Hj. apply covers_strict, strict_rel_range in Hj. tauto.
    Qed.

    Lemma cd_T x j : In j (getd (transpose cd) x) <-> j < n /\ In x (getd cd j).
    Proof. apply (transpose_full n cd cd_full cd_range). Qed.

    Lemma Inv_init :
      Inv l cd (map fst (filter (fun kv : nat * list nat => is_nil (snd kv)) cd)) [] [].
    Proof.
      constructor.
      - intros x. split; [intros [] | intros [X H]; discriminate].
      - constructor.
      - intros x [].
      - intros x Hx _ Hc. apply in_map_iff. exists (x, getd cd x). split; [reflexivity|].
        apply filter_In. split; [apply (full_has n); [apply cd_full | exact Hx]|].
        cbn [snd]. destruct (getd cd x) as [|c r]; [reflexivity|].
        exfalso. apply (Hc c). left. reflexivity.
      - intros x Hx. apply in_map_iff in Hx. destruct Hx as [[k Y] [H1 H2]]. cbn [fst] in H1. subst k.
        apply filter_In in H2. destruct H2 as [H2 _].
        apply (full_entry n cd x Y cd_full H2).
    Qed.

    Lemma closed_by_direct_sound desc :
      closed_by_direct (length l) cd = Some desc -> closure_post l desc.
    Proof.
      unfold closed_by_direct. intros H.
      eapply (close_loop_sound l Hl cd (transpose cd) cd_D cd_T); [apply Inv_init | exact H].
    Qed.

    Lemma closed_by_direct_total : exists desc, closed_by_direct (length l) cd = Some desc.
    Proof.
      unfold closed_by_direct.
      destruct (transpose_full n cd cd_full cd_range) as [_ [Tn _]].
      apply (close_loop_total l Hl cd (transpose cd) cd_D cd_T Tn); [apply Inv_init|].
      set (todo := map fst (filter (fun kv : nat * list nat => is_nil (snd kv)) cd)).
      assert (Hlen : length todo <= n).
      { unfold todo. rewrite map_length.
        apply Nat.le_trans with (length cd); [apply filter_len_le|].
        destruct Hcd as [C1 [C2 _]]. rewrite <- (map_length fst cd), <- (seq_length n 0).
        apply NoDup_incl_length; [exact C1|]. intros x Hx. apply In_seq0. apply C2. exact Hx. }
      assert (Hb : list_sum (map (wt l) todo) <= length todo * 2 ^ n).
      { apply list_sum_bound. intros x _. unfold wt. apply Nat.pow_le_mono_r; [lia|].
        unfold PosetSpec.strict_rel, idxs.
        rewrite <- (seq_length n 0) at 2. apply filter_len_le. }
      assert (length todo * 2 ^ n <= n * 2 ^ n) by (apply Nat.mul_le_mono_r; exact Hlen).
      change (S n * 2 ^ n) with (2 ^ n + n * 2 ^ n). lia.
    Qed.
  End Dict.

  (* ---------------------------------------------------------------- the pre-filled leq table *)
  Lemma fold_left_inv {A B} (f : B -> A -> B) (P : B -> Prop) xs :
    (forall acc x, In x xs -> P acc -> P (f acc x)) -> forall acc, P acc -> P (fold_left f xs acc).
  Proof.
    induction xs as [|x xs IH]; intros Hf acc Ha; simpl; [exact Ha|].
    apply IH; [intros acc' y Hy; apply Hf; right; exact Hy | apply Hf; [left; reflexivity | exact Ha]].
  Qed.

  Lemma leq_table_entries n desc a b r :
    In ((a, b), r) (leq_table n desc) ->
    exists Y, In (b, Y) desc /\ a < n /\ r = Nat.eqb a b || mem a Y.
  Proof.
    unfold leq_table. destruct (Nat.ltb n 10); [|intros []].
    pose (Q := fun e : (nat * nat) * bool =>
                 exists Y, In (snd (fst e), Y) desc /\ fst (fst e) < n /\
                           snd e = Nat.eqb (fst (fst e)) (snd (fst e)) || mem (fst (fst e)) Y).
    intros H. change (Q ((a, b), r)). revert H. generalize ((a, b), r). 
    apply (fold_left_inv _ (fun acc : lcache => forall e, In e acc -> Q e)); [|intros e []].
    intros acc [k Y] Hkv Hacc. cbn [fst snd].
    apply (fold_left_inv _ (fun acc : lcache => forall e, In e acc -> Q e)); [|exact Hacc].
    intros acc' j Hj Hacc' e He. apply In_updl in He. destruct He as [-> | [He _]]; [|apply Hacc'; exact He].
    exists Y. cbn [fst snd]. split; [exact Hkv|]. split; [apply In_seq0; exact Hj | reflexivity].
  Qed.

  (* ---------------------------------------------------------------- __init__(children_dict) *)
  Theorem init_cd_sound_partial : forall l cd s,
    NoDup l -> covers_dict_ok l cd -> init_cd E l cd = Some s ->
    Sound E leq [] s /\ els s = l /\ use_cache s = true.
  Proof.
    intros l cd s Hl Hcd Hs. unfold init_cd in Hs.
    destruct (closed_by_direct (length l) cd) as [desc|] eqn:Hc; [|discriminate].
    injection Hs as <-. cbn [els use_cache]. split; [|split; reflexivity].
    destruct (closed_by_direct_sound l Hl cd Hcd desc Hc) as [P1 [P2 P3]].
    assert (Fd : full (length l) desc) by (split; assumption).
    assert (Fc : full (length l) cd) by (apply cd_full; exact Hcd).
    assert (Rd : forall i j, i < length l -> In j (getd desc i) -> j < length l).
    { intros i j Hi Hj. apply (P3 i Hi) in Hj. apply strict_rel_range in Hj. tauto. }
    destruct (transpose_full (length l) desc Fd Rd) as [Fa [Na Ma]].
    destruct (transpose_full (length l) cd Fc (cd_range l cd Hcd)) as [Fp [Np Mp]].
    constructor; cbn [els c_leq].
    - exact Hl.
    - intros a b r Hin. rewrite app_nil_r.
      apply leq_table_entries in Hin. destruct Hin as [Y [HY [Ha Hr]]].
      destruct (full_entry _ _ _ _ Fd HY) as [Hb HYe].
      assert (Hrl : r = lq l a b).
      { subst r. destruct (Nat.eqb a b) eqn:Hab.
        - apply Nat.eqb_eq in Hab. subst b. cbn [orb]. symmetry. apply (lq_refl E leq eqb PO). exact Ha.
        - apply Nat.eqb_neq in Hab. cbn [orb]. apply bool_eq_iff.
          rewrite mem_In, <- HYe, (proj2 (P3 b Hb)), In_strict_rel. cbn [PosetSpec.ldir]. tauto. }
      split; [exact Ha|]. split; [exact Hb|]. split; [intros _ _; exact Hrl|].
      intros Hn. exfalso. apply Hn. split; assumption.
    - intros up i X Hin. rewrite app_nil_r. destruct up; cbn [closed_cache c_anc c_desc] in Hin.
      + destruct (full_entry _ _ _ _ Fa Hin) as [Hi HX]. subst X.
        split; [exact Hi|]. split; [|intros Hn; contradiction].
        intros _. split; [apply Na|]. intros j. rewrite Ma. split.
        * intros [Hj Hm]. apply (P3 j Hj) in Hm.
          apply (proj2 (strict_rel_flip l true i j)). exact Hm.
        * intros Hm. pose proof (strict_rel_range _ _ _ _ Hm) as [_ Hj]. split; [exact Hj|].
          apply (P3 j Hj). apply (proj1 (strict_rel_flip l true i j)). exact Hm.
      + destruct (full_entry _ _ _ _ Fd Hin) as [Hi HX]. subst X.
        split; [exact Hi|]. split; [intros _; apply P3; exact Hi | intros Hn; contradiction].
    - intros up i X Hin. rewrite app_nil_r. destruct up; cbn [cover_cache c_par c_ch] in Hin.
      + destruct (full_entry _ _ _ _ Fp Hin) as [Hi HX]. subst X.
        split; [exact Hi|]. split; [|intros Hn; contradiction].
        intros _. split; [apply Np|]. intros j. rewrite Mp. split.
        * intros [Hj Hm]. apply (cd_D l cd Hcd j Hj) in Hm.
          apply (proj2 (covers_flip l true i j)). exact Hm.
        * intros Hm. pose proof (strict_rel_range _ _ _ _ (covers_strict _ _ _ _ Hm)) as [_ Hj].
          split; [exact Hj|]. apply (cd_D l cd Hcd j Hj). apply (proj1 (covers_flip l true i j)). exact Hm.
      + destruct (full_entry _ _ _ _ Fc Hin) as [Hi HX]. subst X.
        split; [exact Hi|]. split; [intros _; apply (cd_D l cd Hcd); exact Hi | intros Hn; contradiction].
    - intros up i X Hk. destruct up; cbn [cover_cache closed_cache c_par c_ch c_anc c_desc] in *.
      + apply (proj2 Fa). apply (proj2 Fp). exists X. exact Hk.
      + apply (proj2 Fd). apply (proj2 Fc). exists X. exact Hk.
  Qed.
  (* the closure always returns within the fuel S n * 2^n of the model *)
  Theorem init_cd_total : forall l cd,
    NoDup l -> covers_dict_ok l cd -> exists s, init_cd E l cd = Some s.
  Proof.
    intros l cd Hl Hcd. unfold init_cd.
    destruct (closed_by_direct_total l Hl cd Hcd) as [desc Hd]. rewrite Hd. eauto.
  Qed.

  Corollary init_cd_sound : forall l cd,
    NoDup l -> covers_dict_ok l cd ->
    exists s, init_cd E l cd = Some s /\ Sound E leq [] s /\ els s = l /\ use_cache s = true.
  Proof.
    intros l cd Hl Hcd. destruct (init_cd_total l cd Hl Hcd) as [s Hs].
    exists s. split; [exact Hs | apply (init_cd_sound_partial l cd s Hl Hcd Hs)].
  Qed.
End InitCd.

(* ------------------------------------------------------------------ non-vacuity *)
(* the diamond (0,0) < (1,0), (0,1) < (1,1) under the componentwise order *)
Module InitCdExample.
  Definition leq2 (a b : nat * nat) : bool := Nat.leb (fst a) (fst b) && Nat.leb (snd a) (snd b).
  Definition eqb2 (a b : nat * nat) : bool := Nat.eqb (fst a) (fst b) && Nat.eqb (snd a) (snd b).

  Lemma PO2 : partial_order (nat * nat) leq2 eqb2.
  Proof.
    constructor; unfold leq2, eqb2.
    - intros [a b]. simpl. rewrite !Nat.leb_refl. reflexivity.
    - intros [a b] [c d]. simpl. rewrite !andb_true_iff, !Nat.leb_le. intros [H1 H2] [H3 H4].
      f_equal; lia.
    - intros [a b] [c d] [e f]. simpl. rewrite !andb_true_iff, !Nat.leb_le. lia.
    - intros [a b] [c d]. simpl. rewrite andb_true_iff, !Nat.eqb_eq.
      split; [intros [-> ->]; reflexivity | intros H; injection H; auto].
  Qed.

  Definition diamond : list (nat * nat) := [(0, 0); (1, 0); (0, 1); (1, 1)].
  Definition diamond_cd : cache := [(0, []); (1, [0]); (2, [0]); (3, [1; 2])].

  Lemma diamond_nodup : NoDup diamond.
  Proof. repeat constructor; simpl; intuition congruence. Qed.

  Lemma diamond_cd_ok : covers_dict_ok (nat * nat) leq2 diamond diamond_cd.
  Proof.
    split; [|split].
    - repeat constructor; simpl; intuition congruence.
    - intros i. simpl. lia.
    - intros i X H. simpl in H.
      destruct H as [H | [H | [H | [H | []]]]]; injection H as <- <-;
        (split; [repeat constructor; simpl; intuition congruence | intros j; vm_compute; tauto]).
  Qed.

  Example diamond_init :
    exists s, init_cd (nat * nat) diamond diamond_cd = Some s /\
              c_desc s = [(3, [1; 2; 0]); (2, [0]); (1, [0]); (0, [])] /\
              lkl (c_leq s) (3, 3) = Some true /\ lkl (c_leq s) (1, 2) = Some false.
  Proof. eexists. split; [vm_compute; reflexivity | vm_compute; auto]. Qed.

  Example diamond_sound :
    exists s, init_cd (nat * nat) diamond diamond_cd = Some s /\ Sound (nat * nat) leq2 [] s.
  Proof.
    destruct (init_cd_sound _ _ _ PO2 diamond diamond_cd diamond_nodup diamond_cd_ok) as [s [H1 [H2 _]]].
    eauto.
  Qed.
End InitCdExample.

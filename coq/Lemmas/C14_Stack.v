(* Lemmas/C14_Stack.v — the stack-based close_by_one_objectwise on a many-valued context
   (Model/MVContextStack.v) yields exactly the sequence of the pre-order recursion
   mv_cbo_objectwise (Model/MVContext.v); instance of C02's generic dfs_equiv_bound. *)
From FCA Require Import Base.ListSet Model.MVContext Model.MVContextStack Lemmas.C02_Stack.


Lemma mv_visit_last K st comb y E' st' g r :
  mv_visit K st comb = Some (y, E', st') -> rev comb = g :: r -> In g E'.
Proof.
  intros Hv Hr. apply rev_head_in in Hr as Hin. unfold mv_visit in Hv. rewrite Hr in Hv.
  destruct (mv_extension_i K _ (Some (filter _ (seq 0 g)))); [|discriminate].
  inversion Hv; subst. apply in_or_app. left. exact Hin.
Qed.

Lemma mv_rec_eq K cands : forall E st,
  fst (dfs_rec unit pconcept (mv_visit K) E cands st) = mv_cbo_children K E cands.
Proof.
  induction cands as [|g rest IH]; intros E st; [reflexivity|].
  cbn [dfs_rec mv_cbo_children]. destruct (mem g E).
  - specialize (IH E st). destruct (dfs_rec unit pconcept (mv_visit K) E rest st) as [ys2 st2].
    cbn [fst] in *. rewrite IH. reflexivity.
  - destruct (mv_visit K st (E ++ [g])) as [[[y E'] st']|] eqn:Ev;
      unfold mv_visit in Ev; rewrite rev_unit in Ev; cbv zeta in Ev;
      destruct (mv_extension_i K (mv_intention_i K (E ++ [g]))
                  (Some (filter (fun h => negb (mem h (E ++ [g]))) (seq 0 g)))) eqn:Ex; try discriminate.
    + inversion Ev; subst y E' st'. clear Ev.
      match goal with |- context [dfs_rec unit pconcept (mv_visit K) ?E1 rest st] =>
        pose proof (IH E1 st) as H1; destruct (dfs_rec unit pconcept (mv_visit K) E1 rest st) as [ys s] end.
      pose proof (IH E s) as H2. destruct (dfs_rec unit pconcept (mv_visit K) E rest s) as [ys2 st2].
      cbn [fst] in *. rewrite H1, H2. reflexivity.
    + specialize (IH E st). destruct (dfs_rec unit pconcept (mv_visit K) E rest st) as [ys2 st2].
      cbn [fst] in *. rewrite IH. reflexivity.
Qed.

(* the stack-based generator of the code and the pre-order recursion of the model yield the same
   sequence of pattern concepts; n_objs * (number of yielded concepts) + 1 loop iterations suffice *)
Theorem mv_cbo_objectwise_stack_eq K fuel :
  mv_n K * length (mv_cbo_objectwise K) + 1 <= fuel ->
  mv_cbo_objectwise_stack K fuel = SDone (mv_cbo_objectwise K).
Proof.
  intros Hf. unfold mv_cbo_objectwise_stack, mv_cbo_objectwise.
  set (E0 := mv_extension_i K (mv_intention_i K []) (Some (seq 0 (mv_n K)))).
  assert (Hv : mv_visit K tt [] = Some (pc_from_objects K E0 true, E0, tt)).
  { unfold mv_visit. cbn [rev app]. rewrite filter_notin_nil. reflexivity. }
  rewrite <- (mv_rec_eq K (seq 0 (mv_n K)) E0 tt).
  apply (dfs_equiv_bound _ _ (mv_n K) (mv_visit K) (mv_visit_last K) _ _ _ _ fuel Hv).
  rewrite mv_rec_eq. exact Hf.
Qed.

Corollary mv_stack_fuel_enough K :
  mv_cbo_objectwise_stack K (mv_stack_fuel K) = SDone (mv_cbo_objectwise K).
Proof. apply mv_cbo_objectwise_stack_eq. unfold mv_stack_fuel. lia. Qed.

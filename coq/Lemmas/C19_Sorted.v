(* Lemmas/C19_Sorted.v — in every state reached from a picture with distinct points, the
   coordinates of every level are strictly increasing in slot order.  Hence slot order IS
   coordinate order, and shift_exact / jitter speak about places among the peers as drawn. *)
From Coq Require Import ZArith QArith Permutation Sorted Lqa.
From FCA Require Import Base.ListSet Model.C19_LineLayout Model.C19_Mover Lemmas.C19_Mover Lemmas.C19_Shift.
Local Open Scope nat_scope.

Lemma qlt_bool_iff a b : Qlt_bool a b = true <-> (a < b)%Q.
Proof.
  unfold Qlt_bool. rewrite negb_true_iff. split.
  - intro H. apply Qnot_le_lt. intro L. apply Qle_bool_iff in L. congruence.
  - intro H. destruct (Qle_bool b a) eqn:E; [|reflexivity]. apply Qle_bool_iff in E. lra.
Qed.

Lemma qlt_bool_false a b : Qlt_bool a b = false <-> (b <= a)%Q.
Proof.
  split.
  - intro H. destruct (Qlt_le_dec a b) as [L|L]; [|exact L]. apply qlt_bool_iff in L. congruence.
  - intro H. destruct (Qlt_bool a b) eqn:E; [|reflexivity]. apply qlt_bool_iff in E. lra.
Qed.

(* ------------------------------------------------------------------ strictly increasing lists *)
Lemma qsorted_tail a l : qsorted (a :: l) -> qsorted l.
Proof. intros H x y Hxy Hy. apply (H (S x) (S y)); cbn [length]; lia. Qed.

Lemma qsorted_head a l z : qsorted (a :: l) -> In z l -> (a < z)%Q.
Proof.
  intros H Hz. destruct (In_nth _ _ 0%Q Hz) as (j & Hj & Ej). rewrite <- Ej.
  apply (H 0 (S j)); cbn [length]; lia.
Qed.

Lemma qsorted_skipn l b : qsorted l -> qsorted (skipn b l).
Proof.
  intros H x y Hxy Hy. rewrite skipn_length in Hy. rewrite !nth_skipn_add. apply H; lia.
Qed.

Lemma qsorted_firstn l b : qsorted l -> qsorted (firstn b l).
Proof.
  intros H x y Hxy Hy. rewrite firstn_length in Hy. rewrite !nth_firstn_lt by lia. apply H; lia.
Qed.

Lemma set_sorted l j x :
  qsorted l -> j < length l ->
  (forall u, u < j -> (nth u l 0 < x)%Q) ->
  (forall u, j < u -> u < length l -> (x < nth u l 0)%Q) ->
  qsorted (set_nth j x l).
Proof.
  intros Hs Hj Lo Hi a b Hab Hb. rewrite set_nth_length in Hb.
  destruct (Nat.eq_dec a j) as [->|Na].
  - rewrite nth_set_nth_eq by exact Hj. rewrite nth_set_nth_neq by lia. apply Hi; lia.
  - rewrite (nth_set_nth_neq j a) by lia. destruct (Nat.eq_dec b j) as [->|Nb].
    + rewrite nth_set_nth_eq by exact Hj. apply Lo. lia.
    + rewrite nth_set_nth_neq by lia. apply Hs; lia.
Qed.

Lemma filter_all {A} (f : A -> bool) l : (forall z, In z l -> f z = true) -> filter f l = l.
Proof.
  induction l as [|a l IH]; intro H; cbn; [reflexivity|].
  rewrite (H a (or_introl eq_refl)). f_equal. apply IH. intros z Hz. apply H. now right.
Qed.

Lemma filter_none {A} (f : A -> bool) l : (forall z, In z l -> f z = false) -> filter f l = [].
Proof.
  induction l as [|a l IH]; intro H; cbn; [reflexivity|].
  rewrite (H a (or_introl eq_refl)). apply IH. intros z Hz. apply H. now right.
Qed.

(* the elements below x are a prefix of a sorted list *)
Lemma below_prefix l x :
  qsorted l ->
  let k := length (filter (fun y => Qlt_bool y x) l) in
  k <= length l /\
  (forall u, u < k -> (nth u l 0 < x)%Q) /\
  (forall u, k <= u -> u < length l -> (x <= nth u l 0)%Q).
Proof.
  induction l as [|y t IH]; intro Hs; cbn zeta.
  - cbn. split; [lia|]. split; intros; lia.
  - specialize (IH (qsorted_tail _ _ Hs)). cbn zeta in IH. destruct IH as (K & Lo & Hi).
    cbn [filter]. destruct (Qlt_bool y x) eqn:E.
    + apply qlt_bool_iff in E. cbn [length]. split; [lia|]. split.
      * intros [|u] Hu; cbn [nth]; [exact E | apply Lo; lia].
      * intros [|u] Hu Hl; [lia|]. cbn [nth]. apply Hi; lia.
    + apply qlt_bool_false in E.
      rewrite filter_none.
      2:{ intros z Hz. apply qlt_bool_false. pose proof (qsorted_head _ _ z Hs Hz). lra. }
      cbn [length]. split; [lia|]. split; [intros; lia|].
      intros [|u] _ Hl; cbn [nth]; [exact E|].
      assert (In (nth u t 0%Q) t) by (apply nth_In; lia).
      pose proof (qsorted_head _ _ _ Hs H). lra.
Qed.

(* the elements above x are a suffix of a sorted list *)
Lemma above_suffix l x :
  qsorted l ->
  let k := length (filter (fun y => Qlt_bool x y) l) in
  k <= length l /\
  (forall u, length l - k <= u -> u < length l -> (x < nth u l 0)%Q) /\
  (forall u, u < length l - k -> (nth u l 0 <= x)%Q).
Proof.
  induction l as [|y t IH]; intro Hs; cbn zeta.
  - cbn. split; [lia|]. split; intros; lia.
  - specialize (IH (qsorted_tail _ _ Hs)). cbn zeta in IH. destruct IH as (K & Hi & Lo).
    cbn [filter]. destruct (Qlt_bool x y) eqn:E.
    + apply qlt_bool_iff in E.
      rewrite filter_all.
      2:{ intros z Hz. apply qlt_bool_iff. pose proof (qsorted_head _ _ z Hs Hz). lra. }
      cbn [length]. split; [lia|]. split; [|intros; lia].
      intros [|u] _ Hl; cbn [nth]; [exact E|].
      assert (In (nth u t 0%Q) t) by (apply nth_In; lia).
      pose proof (qsorted_head _ _ _ Hs H). lra.
    + apply qlt_bool_false in E. cbn [length].
      set (k := length (filter (fun y0 => Qlt_bool x y0) t)) in *.
      replace (S (length t) - k) with (S (length t - k)) by lia.
      split; [lia|]. split.
      * intros [|u] Hu Hl; [lia|]. cbn [nth]. apply Hi; lia.
      * intros [|u] Hu; cbn [nth]; [exact E | apply Lo; lia].
Qed.

(* ------------------------------------------------------------------ the invariant *)
Lemma same_ppeers_sorted s s' : m_ppeers s' = m_ppeers s -> rows_sorted s -> rows_sorted s'.
Proof. intros E H lvl Hl. rewrite E in *. apply H. exact Hl. Qed.

Lemma with_row_sorted s lvl row' :
  rows_sorted s -> lvl < length (m_ppeers s) -> qsorted row' ->
  rows_sorted (with_ppeers s (set_nth lvl row' (m_ppeers s))).
Proof.
  intros H Hl Hs l Hl'. cbn [m_ppeers with_ppeers] in *. rewrite set_nth_length in Hl'.
  destruct (Nat.eq_dec lvl l) as [->|N].
  - rewrite nth_set_nth_eq by exact Hl. exact Hs.
  - rewrite nth_set_nth_neq by exact N. apply H. exact Hl'.
Qed.

Lemma swap_ppeers s a b : m_ppeers (fst (swap_nodes s a b)) = m_ppeers s.
Proof. unfold swap_nodes. destruct (Nat.eqb _ _); reflexivity. Qed.

Lemma shift_ppeers s i k : slots_ok s -> i < length (m_levels s) -> m_ppeers (fst (shift_node s i k)) = m_ppeers s.
Proof. intros OK Hi. exact (proj1 (proj2 (shift_exact s i k OK Hi))). Qed.

Lemma jitter_rows_sorted s i dx :
  slots_ok s -> rows_sorted s -> i < length (m_levels s) -> rows_sorted (fst (jitter_node s i dx)).
Proof.
  intros OK RS Hi.
  destruct (proj2 (proj1 OK) i Hi) as [Hl Hp].
  pose proof (RS _ Hl) as Hs.
  unfold jitter_node.
  set (lvl := level_of s i) in *. set (pid := slot_of s i) in *.
  set (pp := nth lvl (m_ppeers s) []) in *. set (new_x := (nth pid pp 0 + dx)%Q).
  assert (Below : forall u, u < pid -> (nth u pp 0 < nth pid pp 0)%Q) by (intros u Hu; apply Hs; lia).
  assert (Above : forall u, pid < u -> u < length pp -> (nth pid pp 0 < nth u pp 0)%Q) by (intros u Hu Hu'; apply Hs; lia).
  destruct (Qle_bool 0 dx) eqn:Dx.
  - (* dx >= 0 *)
    apply Qle_bool_iff in Dx.
    destruct (Nat.eqb pid (length pp - 1)) eqn:B.
    + apply Nat.eqb_eq in B. cbn [fst]. apply with_row_sorted; [exact RS | exact Hl|].
      apply set_sorted; [exact Hs | exact Hp | | intros; lia].
      intros u Hu. specialize (Below u Hu). unfold new_x. lra.
    + apply Nat.eqb_neq in B. assert (Hn : pid + 1 < length pp) by lia.
      destruct (Qlt_bool new_x (nth (pid + 1) pp 0%Q)) eqn:K.
      * apply qlt_bool_iff in K. cbn [fst]. apply with_row_sorted; [exact RS | exact Hl|].
        apply set_sorted; [exact Hs | exact Hp | |].
        -- intros u Hu. specialize (Below u Hu). unfold new_x. lra.
        -- intros u Hu Hu'. destruct (Nat.eq_dec u (pid + 1)) as [->|N]; [exact K|].
           assert (nth (pid + 1) pp 0 < nth u pp 0)%Q by (apply Hs; lia). lra.
      * apply qlt_bool_false in K.
        destruct (existsb (fun x => Qeq_bool x new_x) pp) eqn:Ov; [exact RS|].
        set (kn := length (filter (fun x => Qlt_bool x new_x) (skipn (S pid) pp))).
        destruct (below_prefix (skipn (S pid) pp) new_x (qsorted_skipn _ _ Hs)) as (Kl & Lo & Hi').
        fold kn in Kl, Lo, Hi'. rewrite skipn_length in Kl, Hi'.
        destruct (shift_exact s i (Z.of_nat kn) OK Hi) as (E0 & PP & _ & Si & _).
        fold lvl pid pp in Si. rewrite Zabs2Nat.id in Si.
        assert (Z0 : Z.leb 0 (Z.of_nat kn) = true) by (apply Z.leb_le; lia). rewrite Z0 in Si.
        rewrite Nat.min_l in Si by lia.
        destruct (shift_node s i (Z.of_nat kn)) as [s1 e1]. cbn [fst snd] in *. subst e1. cbn [Nat.eqb fst].
        rewrite Si.
        assert (RS1 : rows_sorted s1) by (apply (same_ppeers_sorted s); [exact PP | exact RS]).
        assert (Epp : nth lvl (m_ppeers s1) [] = pp) by (rewrite PP; reflexivity).
        rewrite Epp.
        apply with_row_sorted; [exact RS1 | rewrite PP; exact Hl|].
        assert (Neq : forall u, u < length pp -> ~ (nth u pp 0 == new_x)%Q).
        { intros u Hu E. assert (existsb (fun x => Qeq_bool x new_x) pp = true); [|congruence].
          apply existsb_exists. exists (nth u pp 0%Q). split; [apply nth_In; exact Hu | apply Qeq_bool_iff; exact E]. }
        apply set_sorted; [exact Hs | lia | |].
        -- intros u Hu. destruct (le_lt_dec u pid) as [L|L].
           ++ assert (nth u pp 0 <= nth pid pp 0)%Q.
              { destruct (Nat.eq_dec u pid) as [->|N]; [lra | apply Qlt_le_weak, Below; lia]. }
              specialize (Above (pid + 1) ltac:(lia) Hn). lra.
           ++ specialize (Lo (u - S pid) ltac:(lia)). rewrite nth_skipn_add in Lo.
              replace (S pid + (u - S pid)) with u in Lo by lia. exact Lo.
        -- intros u Hu Hu'. specialize (Hi' (u - S pid) ltac:(lia) ltac:(lia)). rewrite nth_skipn_add in Hi'.
           replace (S pid + (u - S pid)) with u in Hi' by lia.
           destruct (Qle_lt_or_eq _ _ Hi') as [LT|EQ]; [exact LT|]. exfalso. apply (Neq u Hu'). now symmetry.
  - (* dx < 0 *)
    assert (Dn : (dx < 0)%Q) by (apply Qnot_le_lt; intro L; apply Qle_bool_iff in L; congruence).
    destruct (Nat.eqb pid 0) eqn:B.
    + apply Nat.eqb_eq in B. cbn [fst]. apply with_row_sorted; [exact RS | exact Hl|].
      apply set_sorted; [exact Hs | exact Hp | intros; lia |].
      intros u Hu Hu'. specialize (Above u Hu Hu'). unfold new_x. lra.
    + apply Nat.eqb_neq in B.
      destruct (Qlt_bool (nth (pid - 1) pp 0%Q) new_x) eqn:K.
      * apply qlt_bool_iff in K. cbn [fst]. apply with_row_sorted; [exact RS | exact Hl|].
        apply set_sorted; [exact Hs | exact Hp | |].
        -- intros u Hu. destruct (Nat.eq_dec u (pid - 1)) as [->|N]; [exact K|].
           assert (nth u pp 0 < nth (pid - 1) pp 0)%Q by (apply Hs; lia). lra.
        -- intros u Hu Hu'. specialize (Above u Hu Hu'). unfold new_x. lra.
      * apply qlt_bool_false in K.
        destruct (existsb (fun x => Qeq_bool x new_x) pp) eqn:Ov; [exact RS|].
        set (kn := length (filter (fun x => Qlt_bool new_x x) (firstn pid pp))).
        destruct (above_suffix (firstn pid pp) new_x (qsorted_firstn _ _ Hs)) as (Kl & Hi' & Lo).
        fold kn in Kl, Lo, Hi'. rewrite firstn_length in Kl, Hi', Lo. rewrite Nat.min_l in Kl, Hi', Lo by lia.
        assert (Neq : forall u, u < length pp -> ~ (nth u pp 0 == new_x)%Q).
        { intros u Hu E. assert (existsb (fun x => Qeq_bool x new_x) pp = true); [|congruence].
          apply existsb_exists. exists (nth u pp 0%Q). split; [apply nth_In; exact Hu | apply Qeq_bool_iff; exact E]. }
        assert (K1 : 1 <= kn).
        { destruct kn as [|kn'] eqn:Ek; [|lia]. exfalso.
          specialize (Lo (pid - 1) ltac:(lia)). rewrite nth_firstn_lt in Lo by lia.
          apply (Neq (pid - 1)); [lia|]. lra. }
        destruct (shift_exact s i (- Z.of_nat kn) OK Hi) as (E0 & PP & _ & Si & _).
        fold lvl pid pp in Si.
        assert (Z0 : Z.leb 0 (- Z.of_nat kn) = false) by (apply Z.leb_gt; lia). rewrite Z0 in Si.
        replace (Z.abs_nat (- Z.of_nat kn)) with kn in Si by lia.
        rewrite Nat.min_l in Si by lia.
        destruct (shift_node s i (- Z.of_nat kn)) as [s1 e1]. cbn [fst snd] in *. subst e1. cbn [Nat.eqb fst].
        rewrite Si.
        assert (RS1 : rows_sorted s1) by (apply (same_ppeers_sorted s); [exact PP | exact RS]).
        assert (Epp : nth lvl (m_ppeers s1) [] = pp) by (rewrite PP; reflexivity).
        rewrite Epp.
        apply with_row_sorted; [exact RS1 | rewrite PP; exact Hl|].
        apply set_sorted; [exact Hs | lia | |].
        -- intros u Hu. specialize (Lo u ltac:(lia)). rewrite nth_firstn_lt in Lo by lia.
           destruct (Qle_lt_or_eq _ _ Lo) as [LT|EQ]; [exact LT|]. exfalso. apply (Neq u); [lia | exact EQ].
        -- intros u Hu Hu'. destruct (le_lt_dec pid u) as [L|L].
           ++ assert (nth pid pp 0 <= nth u pp 0)%Q.
              { destruct (Nat.eq_dec u pid) as [->|N]; [lra | apply Qlt_le_weak, Above; lia]. }
              unfold new_x. lra.
           ++ specialize (Hi' u ltac:(lia) ltac:(lia)). rewrite nth_firstn_lt in Hi' by lia. exact Hi'.
Qed.

Lemma step_rows_sorted s o :
  slots_ok s -> rows_sorted s -> op_in_range (length (m_levels s)) o -> rows_sorted (fst (step s o)).
Proof.
  intros OK RS R. destruct o; cbn [step op_in_range] in *.
  - apply (same_ppeers_sorted s); [apply swap_ppeers | exact RS].
  - apply (same_ppeers_sorted s); [apply shift_ppeers; assumption | exact RS].
  - apply jitter_rows_sorted; assumption.
  - apply jitter_rows_sorted; assumption.
  - exact RS.
Qed.

Lemma run_rows_sorted ops : forall s,
  slots_ok s -> rows_sorted s -> Forall (op_in_range (length (m_levels s))) ops ->
  rows_sorted (run s ops).
Proof.
  unfold run. induction ops as [|o ops IH]; intros s OK RS R; cbn [fold_left]; [exact RS|].
  inversion R as [|? ? Ro Rs]; subst. apply IH.
  - apply step_slots_ok; assumption.
  - apply step_rows_sorted; assumption.
  - rewrite (proj1 (step_levels s o)). exact Rs.
Qed.

Theorem reachable_rows_sorted v p ops :
  distinct_pts p -> Forall (op_in_range (length p)) ops -> rows_sorted (run (load v p) ops).
Proof.
  intros D R. apply run_rows_sorted; [apply load_slots_ok | apply load_rows_sorted; exact D|].
  rewrite load_levels_length. exact R.
Qed.

(* ------------------------------------------------------------------ slot order = coordinate order *)
Theorem slot_order_is_coord_order s a b :
  slots_ok s -> rows_sorted s ->
  a < length (m_levels s) -> b < length (m_levels s) -> level_of s a = level_of s b ->
  (slot_of s a < slot_of s b <-> (peer_coord s a < peer_coord s b)%Q).
Proof.
  intros OK RS Ha Hb L.
  destruct (proj2 (proj1 OK) a Ha) as [La Sa]. destruct (proj2 (proj1 OK) b Hb) as [_ Sb].
  unfold peer_coord. rewrite <- L in *. pose proof (RS _ La) as Hs.
  split.
  - intro H. apply Hs; assumption.
  - intro H. destruct (Nat.lt_trichotomy (slot_of s a) (slot_of s b)) as [T|[T|T]]; [exact T| |].
    + rewrite T in H. exfalso. apply (Qlt_irrefl _ H).
    + exfalso. assert (nth (slot_of s b) (nth (level_of s a) (m_ppeers s) []) 0 < nth (slot_of s a) (nth (level_of s a) (m_ppeers s) []) 0)%Q by (apply Hs; assumption).
      lra.
Qed.

(* two different nodes never share a point *)
Theorem reachable_distinct s a b :
  slots_ok s -> rows_sorted s ->
  a < length (m_levels s) -> b < length (m_levels s) -> a <> b -> level_of s a = level_of s b ->
  ~ (peer_coord s a == peer_coord s b)%Q.
Proof.
  intros OK RS Ha Hb N L E.
  assert (slot_of s a <> slot_of s b).
  { intro Es. apply N.
    pose proof (proj1 OK) as W. destruct (proj2 W a Ha) as [Hl _].
    assert (Ia : In a (peers_sorted s (level_of s a))) by (apply (proj2 (row_in s _ Hl a)); auto).
    assert (Ib : In b (peers_sorted s (level_of s a))) by (apply (proj2 (row_in s _ Hl b)); auto).
    destruct (row_at s OK _ Hl a Ia) as [_ <-]. destruct (row_at s OK _ Hl b Ib) as [_ <-]. now rewrite Es. }
  destruct (Nat.lt_trichotomy (slot_of s a) (slot_of s b)) as [T|[T|T]]; [|contradiction|].
  - apply (slot_order_is_coord_order s a b OK RS Ha Hb L) in T. rewrite E in T. apply (Qlt_irrefl _ T).
  - apply (slot_order_is_coord_order s b a OK RS Hb Ha (eq_sym L)) in T. rewrite E in T. apply (Qlt_irrefl _ T).
Qed.

(* shift in terms of what is drawn: the node lands on the pid'-th smallest coordinate of its level
   and each peer passed takes the neighbouring coordinate; the row of coordinates is unchanged *)
Theorem shift_exact_coords s i k :
  slots_ok s -> i < length (m_levels s) ->
  let row := nth (level_of s i) (m_ppeers s) [] in
  let pid := slot_of s i in
  let r := if Z.leb 0 k then Nat.min (Z.abs_nat k) (length row - S pid) else Nat.min (Z.abs_nat k) pid in
  let pid' := if Z.leb 0 k then pid + r else pid - r in
  let s' := fst (shift_node s i k) in
  peer_coord s i = nth pid row 0%Q /\ peer_coord s' i = nth pid' row 0%Q /\
  forall el, el <> i -> el < length (m_levels s) -> level_of s el = level_of s i ->
    peer_coord s' el =
      nth (if Z.leb 0 k
           then if Nat.ltb pid (slot_of s el) && Nat.leb (slot_of s el) pid' then slot_of s el - 1 else slot_of s el
           else if Nat.leb pid' (slot_of s el) && Nat.ltb (slot_of s el) pid then slot_of s el + 1 else slot_of s el)
          row 0%Q.
Proof.
  intros OK Hi. cbn zeta.
  destruct (shift_exact s i k OK Hi) as (_ & PP & _ & Si & So).
  pose proof (shift_levels s i k) as LV.
  split; [reflexivity|]. split.
  - unfold peer_coord. rewrite (level_of_same s _ i LV), PP, Si. reflexivity.
  - intros el Nel Hel Lel. unfold peer_coord. rewrite (level_of_same s _ el LV), PP, (So el Nel), Lel.
    rewrite Nat.eqb_refl. rewrite (proj2 (Nat.ltb_lt _ _) Hel). cbn [andb]. reflexivity.
Qed.

(* Lemmas/C18.v — the level-wise search of get_minimal_generators_i returns exactly the
   generators of minimum cardinality. *)
From FCA Require Import Model.C18_MinGen Spec.C18_MinGenSpec Lemmas.C01.
From Coq Require Import Lia.
Local Open Scope nat_scope.

(* ------------------------------------------------------------------ combinations *)
Lemma combs_props {X} (l : list X) : forall k c, In c (combs k l) ->
  length c = k /\ incl c l /\ (NoDup l -> NoDup c).
Proof.
  induction l as [|x l IH]; intros k c H.
  - destruct k; cbn in H; [|destruct H]. destruct H as [H|[]]. subst.
    split; [reflexivity|]. split; [intros y []|]. intros _. constructor.
  - destruct k; cbn [combs] in H.
    + destruct H as [H|[]]. subst. split; [reflexivity|]. split; [intros y []|]. intros _. constructor.
    + apply in_app_or in H. destruct H as [H|H].
      * apply in_map_iff in H. destruct H as [c' [E H]]. subst c.
        destruct (IH k c' H) as [H1 [H2 H3]]. split; [cbn; lia|]. split.
        -- intros y [Hy|Hy]; [left; exact Hy | right; apply H2; exact Hy].
        -- intros Hnd. inversion Hnd; subst. constructor; [|apply H3; assumption].
           intros Hx. apply H2 in Hx. tauto.
      * destruct (IH (S k) c H) as [H1 [H2 H3]]. split; [exact H1|]. split.
        -- intros y Hy. right. apply H2. exact Hy.
        -- intros Hnd. inversion Hnd; subst. apply H3. assumption.
Qed.

Lemma filter_in_combs {X} (p : X -> bool) (l : list X) :
  In (filter p l) (combs (length (filter p l)) l).
Proof.
  induction l as [|x l IH]; [left; reflexivity|]. cbn [filter].
  destruct (p x).
  - cbn [length combs]. apply in_or_app. left. apply in_map. exact IH.
  - destruct (length (filter p l)) eqn:E.
    + cbn [combs]. destruct (filter p l); [left; reflexivity | discriminate].
    + cbn [combs]. apply in_or_app. right. exact IH.
Qed.

(* ------------------------------------------------------------------ sorting = canonical form *)
Lemma insert_sorted_length x l : length (insert_sorted x l) = S (length l).
Proof. induction l as [|y l IH]; cbn [insert_sorted]; [reflexivity|]. destruct (Nat.leb x y); cbn [length]; lia. Qed.

Lemma sort_nat_length l : length (sort_nat l) = length l.
Proof. induction l as [|x l IH]; [reflexivity|]. cbn [sort_nat fold_right]. fold (sort_nat l). rewrite insert_sorted_length, IH. reflexivity. Qed.

Lemma insert_below x l : (forall y, In y l -> x <= y) -> insert_sorted x l = x :: l.
Proof.
  destruct l as [|y l]; intros H; [reflexivity|]. cbn [insert_sorted].
  assert (E : Nat.leb x y = true) by (apply Nat.leb_le; apply H; left; reflexivity). rewrite E. reflexivity.
Qed.

Lemma insert_filter_seq (p : nat -> bool) x : forall n a, a <= x < a + n -> p x = false ->
  insert_sorted x (filter p (seq a n)) = filter (fun y => Nat.eqb y x || p y) (seq a n).
Proof.
  induction n as [|n IH]; intros a Hr Hp; [lia|]. cbn [seq filter].
  destruct (Nat.eq_dec a x) as [E|E].
  - subst a. rewrite Hp, Nat.eqb_refl. cbn [orb].
    rewrite insert_below.
    + f_equal. apply filter_ext_in'. intros y Hy. apply in_seq in Hy.
      assert (X : Nat.eqb y x = false) by (apply Nat.eqb_neq; lia). rewrite X. reflexivity.
    + intros y Hy. apply filter_In in Hy. destruct Hy as [Hy _]. apply in_seq in Hy. lia.
  - assert (X : Nat.eqb a x = false) by (apply Nat.eqb_neq; exact E). rewrite X. cbn [orb].
    destruct (p a).
    + cbn [insert_sorted]. assert (Y : Nat.leb x a = false) by (apply Nat.leb_gt; lia). rewrite Y.
      f_equal. apply IH; [lia | exact Hp].
    + apply IH; [lia | exact Hp].
Qed.

Lemma sort_nat_canon w l : NoDup l -> in_range w l -> sort_nat l = canon_set w l.
Proof.
  induction l as [|x l IH]; intros Hnd Hr.
  - cbn. unfold canon_set. cbn [mem existsb]. induction (seq 0 w); [reflexivity | exact IHl].
  - inversion Hnd; subst. cbn [sort_nat fold_right]. fold (sort_nat l).
    rewrite IH; [| assumption | intros y Hy; apply Hr; right; exact Hy].
    unfold canon_set. rewrite insert_filter_seq.
    + apply filter_ext_in'. intros y _. cbn [mem existsb]. rewrite Nat.eqb_sym. reflexivity.
    + specialize (Hr x (or_introl eq_refl)). lia.
    + apply mem_false_iff. assumption.
Qed.

Lemma sublists_canon (l s : list nat) : NoDup l -> In s (sublists l) -> s = filter (fun x => mem x s) l.
Proof.
  revert s. induction l as [|x l IH]; intros s Hnd H.
  - destruct H as [H|[]]. subst. reflexivity.
  - inversion Hnd; subst. cbn [sublists] in H. apply in_app_or in H. destruct H as [H|H].
    + cbn [filter]. assert (X : mem x s = false).
      { apply mem_false_iff. intros Hx. apply In_sublists in H. apply H in Hx. tauto. }
      rewrite X. apply IH; assumption.
    + apply in_map_iff in H. destruct H as [s' [E H]]. subst s. cbn [filter mem existsb].
      rewrite Nat.eqb_refl. cbn [orb]. f_equal. rewrite (IH s' H3 H) at 1.
      apply filter_ext_in'. intros y Hy.
      assert (X : Nat.eqb y x = false) by (apply Nat.eqb_neq; intros ->; tauto). rewrite X. reflexivity.
Qed.

Lemma canon_set_same w l1 l2 : same_set l1 l2 -> canon_set w l1 = canon_set w l2.
Proof.
  intros H. unfold canon_set. apply filter_ext_in'. intros x _. apply bool_eq_iff. rewrite !mem_In. apply H.
Qed.

Lemma ext_spec_same t D1 D2 base : same_set D1 D2 -> ext_spec t D1 base = ext_spec t D2 base.
Proof.
  intros H. unfold ext_spec. apply filter_ext_in'. intros g _. apply bool_eq_iff.
  rewrite !forallb_forall. split; intros X m Hm; apply X, H, Hm.
Qed.

Lemma NoDup_app_disjoint {X} (l1 l2 : list X) :
  NoDup l1 -> NoDup l2 -> (forall x, In x l1 -> ~ In x l2) -> NoDup (l1 ++ l2).
Proof.
  induction l1 as [|x l1 IH]; intros H1 H2 Hd; [exact H2|].
  inversion H1; subst. cbn [app]. constructor.
  - rewrite in_app_iff. intros [X0|X0]; [tauto|]. apply (Hd x); [left; reflexivity | exact X0].
  - apply IH; [assumption | assumption |]. intros y Hy. apply Hd. right. exact Hy.
Qed.

(* ------------------------------------------------------------------ the search *)
Section Search.
Variable b : backend.
Variable t : table.
Variables intent bg bo : list nat.
Hypothesis Hwf : wf t.
Hypothesis Hbo : in_range (height t) bo.
Hypothesis Hbg : in_range (width t) bg.
Hypothesis Hbgnd : NoDup bg.

Let w := width t.
Let attrs := filter (fun m => negb (mem m bg)) (seq 0 w).

Lemma attrs_NoDup : NoDup attrs.
Proof. apply NoDup_filter, seq_NoDup. Qed.

Lemma attrs_In m : In m attrs <-> m < w /\ ~ In m bg.
Proof. unfold attrs. rewrite filter_In, in_seq, negb_true_iff, mem_false_iff. split; intros [H1 H2]; split; auto; lia. Qed.

Lemma closure_in_m_correct D : in_range w D -> closure_in_m b t D bo = closure_in t bo D.
Proof.
  intros HD. unfold closure_in_m, closure_in.
  rewrite extension_i_correct; [| exact Hwf | exact HD | exact Hbo]. cbn [default].
  rewrite intention_i_correct; [reflexivity | exact Hwf | | exact Logic.I].
  intros g Hg. apply filter_In in Hg. apply Hbo. tauto.
Qed.

Lemma closure_in_same D1 D2 : same_set D1 D2 -> closure_in t bo D1 = closure_in t bo D2.
Proof. intros H. unfold closure_in. rewrite (ext_spec_same t D1 D2 bo H). reflexivity. Qed.

(* the candidates of the specification: canonical attribute sets that generate the intent *)
Definition G (D : list nat) : Prop := In D (sublists (seq 0 w)) /\ is_genb t intent bg bo D = true.

Lemma comb_facts k comb : In comb (combs k attrs) ->
  length comb = k /\ NoDup (bg ++ comb) /\ in_range w (bg ++ comb).
Proof.
  intros H. destruct (combs_props attrs k comb H) as [H1 [H2 H3]]. split; [exact H1|]. split.
  - apply NoDup_app_disjoint; [exact Hbgnd | apply H3, attrs_NoDup |].
    intros x Hx Hc. apply H2, attrs_In in Hc. tauto.
  - intros x Hx. apply in_app_or in Hx. destruct Hx as [Hx|Hx]; [apply Hbg; exact Hx|].
    apply H2, attrs_In in Hx. tauto.
Qed.

Let P (comb : list nat) : bool := same_setb (closure_in_m b t (bg ++ comb) bo) intent.

Lemma level_In k D :
  In D (mingen_level b t intent bg bo attrs k) <-> G D /\ length D = length bg + k.
Proof.
  unfold mingen_level. rewrite in_map_iff. split.
  - intros [comb [E H]]. apply filter_In in H. destruct H as [Hc HP].
    destruct (comb_facts k comb Hc) as [Hl [Hnd Hr]].
    rewrite (sort_nat_canon w _ Hnd Hr) in E. subst D. split; [split|].
    + unfold canon_set. apply filter_In_sublists.
    + unfold is_genb. apply andb_true_iff. split.
      * apply subsetb_incl. intros x Hx. apply canon_set_In. split; [apply Hbg; exact Hx|].
        apply in_or_app. left. exact Hx.
      * rewrite (closure_in_same _ (bg ++ comb)).
        -- rewrite <- closure_in_m_correct by exact Hr. exact HP.
        -- intros x. rewrite canon_set_In. split; [tauto|]. intros Hx. split; [apply Hr; exact Hx | exact Hx].
    + rewrite <- (sort_nat_canon w _ Hnd Hr), sort_nat_length, app_length, Hl. reflexivity.
  - intros [[Hsub Hg] Hlen].
    set (comb := filter (fun m => mem m D) attrs).
    apply andb_true_iff in Hg. destruct Hg as [Hg1 Hg2]. apply subsetb_incl in Hg1.
    assert (HDr : in_range w D).
    { intros x Hx. apply In_sublists in Hsub. apply Hsub in Hx. apply in_seq in Hx. lia. }
    assert (Hss : same_set (bg ++ comb) D).
    { intros x. rewrite in_app_iff. unfold comb. rewrite filter_In, attrs_In, mem_In. split.
      - intros [Hx|[_ Hx]]; [apply Hg1; exact Hx | exact Hx].
      - intros Hx. destruct (in_dec Nat.eq_dec x bg) as [Hb|Hb]; [left; exact Hb|].
        right. split; [split; [apply HDr; exact Hx | exact Hb] | exact Hx]. }
    assert (Hcomb : In comb (combs (length comb) attrs)) by apply filter_in_combs.
    destruct (comb_facts _ comb Hcomb) as [_ [Hnd Hr]].
    assert (HD : sort_nat (bg ++ comb) = D).
    { rewrite (sort_nat_canon w _ Hnd Hr), (canon_set_same w _ D Hss).
      symmetry. apply (sublists_canon (seq 0 w) D (seq_NoDup w 0) Hsub). }
    assert (Hk : length comb = k).
    { rewrite <- HD, sort_nat_length, app_length in Hlen. lia. }
    exists comb. split; [exact HD|]. apply filter_In. split; [rewrite <- Hk; exact Hcomb|].
    rewrite closure_in_m_correct by exact Hr. rewrite (closure_in_same _ D Hss). exact Hg2.
Qed.

(* a generator has at least |bg| elements, and at most |bg| + |attrs| *)
Lemma G_size D : G D -> exists j, length D = length bg + j /\ j <= length attrs.
Proof.
  intros HG. pose proof HG as [Hsub Hg].
  set (comb := filter (fun m => mem m D) attrs).
  exists (length comb). split.
  - assert (X : In D (mingen_level b t intent bg bo attrs (length D - length bg))).
    { apply level_In. split; [exact HG|].
      apply andb_true_iff in Hg. destruct Hg as [Hg1 _]. apply subsetb_incl in Hg1.
      assert (NoDup D).
      { rewrite (sublists_canon (seq 0 w) D (seq_NoDup w 0) Hsub). apply NoDup_filter, seq_NoDup. }
      pose proof (NoDup_incl_length Hbgnd Hg1). lia. }
    unfold mingen_level in X. apply in_map_iff in X. destruct X as [c [E Hc]].
    + apply filter_In in Hc. destruct Hc as [Hc _].
      destruct (comb_facts _ c Hc) as [Hl [Hnd Hr]].
      assert (E2 : length D = length bg + length c).
      { rewrite <- E, sort_nat_length, app_length. reflexivity. }
      (* the combination is determined by D: it is D without bg *)
      assert (Ec : length c = length comb).
      { assert (S1 : incl c comb).
        { intros x Hx. unfold comb. apply filter_In. split.
          - destruct (combs_props attrs _ c Hc) as [_ [H2 _]]. apply H2. exact Hx.
          - apply mem_In. rewrite <- E. rewrite (sort_nat_canon w _ Hnd Hr). apply canon_set_In.
            split; [apply Hr|]; apply in_or_app; right; exact Hx. }
        assert (S2 : incl comb c).
        { intros x Hx. unfold comb in Hx. apply filter_In in Hx. destruct Hx as [Ha Hm].
          apply mem_In in Hm. rewrite <- E in Hm. rewrite (sort_nat_canon w _ Hnd Hr) in Hm.
          apply canon_set_In in Hm. destruct Hm as [_ Hm]. apply in_app_or in Hm.
          destruct Hm as [Hm|Hm]; [apply attrs_In in Ha; tauto | exact Hm]. }
        assert (Nc : NoDup c) by (destruct (combs_props attrs _ c Hc) as [_ [_ H3]]; apply H3, attrs_NoDup).
        assert (Ncomb : NoDup comb) by (apply NoDup_filter, attrs_NoDup).
        pose proof (NoDup_incl_length Nc S1). pose proof (NoDup_incl_length Ncomb S2). lia. }
      lia.
  - unfold comb. clear. induction attrs as [|x l IH]; cbn [filter length]; [lia|].
    destruct (mem x D); cbn [length]; lia.
Qed.

Lemma levels_result ks :
  (mingen_levels b t intent bg bo attrs ks = [] /\
   forall k, In k ks -> mingen_level b t intent bg bo attrs k = []) \/
  (exists k pre post, ks = pre ++ k :: post /\
      mingen_levels b t intent bg bo attrs ks = mingen_level b t intent bg bo attrs k /\
      mingen_level b t intent bg bo attrs k <> [] /\
      forall j, In j pre -> mingen_level b t intent bg bo attrs j = []).
Proof.
  induction ks as [|k ks IH].
  - left. split; [reflexivity | intros k []].
  - cbn [mingen_levels]. destruct (mingen_level b t intent bg bo attrs k) as [|x r'] eqn:E.
    + destruct IH as [[H1 H2]|[k' [pre [post [H1 [H2 [H3 H4]]]]]]].
      * left. split; [exact H1|]. intros j [Hj|Hj]; [subst; exact E | apply H2; exact Hj].
      * right. exists k', (k :: pre), post. split; [rewrite H1; reflexivity|]. split; [exact H2|].
        split; [exact H3|]. intros j [Hj|Hj]; [subst; exact E | apply H4; exact Hj].
    + right. exists k, [], ks. split; [reflexivity|]. split; [symmetry; exact E|].
      split; [rewrite E; discriminate | intros j []].
Qed.

Lemma seq_split_after k : forall n a pre post, seq a n = pre ++ k :: post -> forall x, In x post -> k < x.
Proof.
  induction n as [|n IH]; intros a pre post E x Hx.
  - destruct pre; discriminate.
  - cbn [seq] in E. destruct pre as [|p pre]; cbn [app] in E; injection E as E1 E2.
    + rewrite <- E2 in Hx. apply in_seq in Hx. lia.
    + apply (IH (S a) pre post E2 x Hx).
Qed.

Lemma seq_split_lt n k pre post : seq 0 n = pre ++ k :: post -> forall j, j < k -> In j pre.
Proof.
  intros E j Hj.
  assert (Hk : In k (seq 0 n)) by (rewrite E; apply in_or_app; right; left; reflexivity).
  assert (Hjn : In j (seq 0 n)) by (apply in_seq; apply in_seq in Hk; lia).
  rewrite E in Hjn. apply in_app_or in Hjn. destruct Hjn as [H|[H|H]]; [exact H | lia |].
  exfalso. pose proof (seq_split_after k n 0 pre post E j H). lia.
Qed.

Theorem mingen_exact D :
  In D (mingen_levels b t intent bg bo attrs (seq 0 (S (length attrs)))) <->
  In D (mingens_spec t intent bg bo).
Proof.
  unfold mingens_spec, gens_spec. rewrite filter_In, filter_In. fold w.
  assert (GE : forall E, In E (filter (is_genb t intent bg bo) (sublists (all_attrs t))) <-> G E).
  { intros E. rewrite filter_In. unfold G, all_attrs. fold w. tauto. }
  destruct (levels_result (seq 0 (S (length attrs)))) as [[Hr Hall]|[k [pre [post [Hks [Hr [Hne Hpre]]]]]]].
  - rewrite Hr. split; [intros []|]. intros [[Hsub Hg] _]. exfalso.
    destruct (G_size D (conj Hsub Hg)) as [j [Hj Hjn]].
    assert (X : In D (mingen_level b t intent bg bo attrs j)) by (apply level_In; split; [split; assumption | exact Hj]).
    rewrite Hall in X; [destruct X|]. apply in_seq. lia.
  - rewrite Hr. rewrite level_In. split.
    + intros [[Hsub Hg] Hlen]. split; [split; assumption|].
      apply forallb_forall. intros E HE. apply Nat.leb_le. apply GE in HE.
      destruct (G_size E HE) as [j [Hj Hjn]].
      destruct (Nat.lt_ge_cases j k) as [Hlt|Hge]; [|lia]. exfalso.
      assert (X : In E (mingen_level b t intent bg bo attrs j)) by (apply level_In; split; assumption).
      rewrite (Hpre j) in X; [destruct X|]. apply (seq_split_lt _ k pre post Hks). exact Hlt.
    + intros [[Hsub Hg] Hmin]. split; [split; assumption|].
      destruct (G_size D (conj Hsub Hg)) as [j [Hj Hjn]].
      destruct (Nat.lt_trichotomy j k) as [Hlt|[He|Hgt]]; [| subst; exact Hj |]; exfalso.
      * assert (X : In D (mingen_level b t intent bg bo attrs j)) by (apply level_In; split; [split; assumption | exact Hj]).
        rewrite (Hpre j) in X; [destruct X|]. apply (seq_split_lt _ k pre post Hks). exact Hlt.
      * (* a smaller generator sits in level k *)
        destruct (mingen_level b t intent bg bo attrs k) as [|E r'] eqn:El; [congruence|].
        assert (HE : In E (mingen_level b t intent bg bo attrs k)) by (rewrite El; left; reflexivity).
        apply level_In in HE. destruct HE as [HGE HlE].
        rewrite forallb_forall in Hmin. specialize (Hmin E (proj2 (GE E) HGE)). apply Nat.leb_le in Hmin. lia.
Qed.

End Search.

(* ------------------------------------------------------------------ the public functions *)

(* total statement: with or without base objects (all objects when none are given) *)
Theorem get_minimal_generators_i_exact b t intent bg bo :
  wf t -> opt_in_range (height t) bo -> in_range (width t) (default [] bg) -> NoDup (default [] bg) ->
  let l := get_minimal_generators_i b t intent bg bo in
  NoDup l /\
  forall D, In D l <-> In D (mingens_spec t intent (default [] bg) (default (all_objs t) bo)).
Proof.
  intros Hwf Hbo Hbg Hnd. unfold get_minimal_generators_i.
  split; [apply nodup_lists_NoDup|]. intros D. rewrite nodup_lists_In.
  apply mingen_exact; try assumption.
  destruct bo as [bo|]; cbn [default]; [exact Hbo|].
  intros g Hg. apply in_seq in Hg. lia.
Qed.

(* the meaning of the specification's list, without executable tests *)
Lemma is_genb_spec t intent bg bo D : is_genb t intent bg bo D = true <-> is_gen t intent bg bo D.
Proof. unfold is_genb, is_gen. rewrite andb_true_iff, subsetb_incl, same_setb_spec. tauto. Qed.

Theorem mingens_spec_In t intent bg bo D :
  In D (mingens_spec t intent bg bo) <->
  In D (sublists (all_attrs t)) /\ is_gen t intent bg bo D /\
  forall E, In E (sublists (all_attrs t)) -> is_gen t intent bg bo E -> length D <= length E.
Proof.
  unfold mingens_spec, gens_spec. rewrite !filter_In, forallb_forall, is_genb_spec. split.
  - intros [[H1 H2] H3]. split; [exact H1|]. split; [exact H2|]. intros E HE HgE.
    apply Nat.leb_le. apply H3. apply filter_In. split; [exact HE | apply is_genb_spec; exact HgE].
  - intros [H1 [H2 H3]]. split; [tauto|]. intros E HE. apply filter_In in HE. destruct HE as [HE HgE].
    apply Nat.leb_le. apply H3; [exact HE | apply is_genb_spec; exact HgE].
Qed.

(* ---- by name *)
Definition name_of (names : list nat) (i : nat) : nat := nth i names 0.

Lemma idx_of_names_map names I :
  NoDup names -> in_range (length names) I ->
  idx_of_names names (map (name_of names) I) = canon_set (length names) I.
Proof.
  intros Hnd Hr. unfold idx_of_names, canon_set. apply filter_ext_in'. intros i Hi. apply in_seq in Hi.
  apply bool_eq_iff. rewrite !mem_In, in_map_iff. split.
  - intros [j [E Hj]]. unfold name_of in E.
    assert (j = i); [|subst; exact Hj].
    apply (proj1 (NoDup_nth names 0) Hnd); [apply Hr; exact Hj | lia | exact E].
  - intros H. exists i. split; [reflexivity | exact H].
Qed.

Theorem mingen_names b t onames anames intent bg bo :
  NoDup anames -> NoDup onames -> length anames = width t -> length onames = height t ->
  in_range (width t) intent -> in_range (width t) bg -> in_range (height t) bo ->
  get_minimal_generators_named b t onames anames (map (name_of anames) intent)
       (Some (map (name_of anames) bg)) (Some (map (name_of onames) bo))
  = map (map (name_of anames))
        (get_minimal_generators_i b t (canon_set (width t) intent) (Some (canon_set (width t) bg))
                                  (Some (canon_set (height t) bo))).
Proof.
  intros Na No La Lo Hi Hg Ho. unfold get_minimal_generators_named. cbn [default].
  rewrite !idx_of_names_map; try assumption; try (rewrite La; assumption); try (rewrite Lo; assumption).
  rewrite La, Lo. reflexivity.
Qed.

Theorem mingen_names_nobase b t onames anames intent :
  NoDup anames -> length anames = width t -> in_range (width t) intent ->
  get_minimal_generators_named b t onames anames (map (name_of anames) intent) None None
  = map (map (name_of anames)) (get_minimal_generators_i b t (canon_set (width t) intent) None None).
Proof.
  intros Na La Hi. unfold get_minimal_generators_named. cbn [default].
  rewrite idx_of_names_map; [| assumption | rewrite La; assumption].
  assert (E : idx_of_names anames [] = []).
  { unfold idx_of_names. cbn [mem existsb]. induction (seq 0 (length anames)); [reflexivity | exact IHl]. }
  rewrite E, La. reflexivity.
Qed.

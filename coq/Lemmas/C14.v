(* Lemmas/C14.v — proofs for C14: the extension of a many-valued context is the conjunction of
   its columns, closing a non-empty object set is a closure operator, the binary attributes of
   every structure generate exactly its closure system (so the binarised formal context has the
   same closed sets), counts, model closure = spec closure, and the witnesses of the two open
   findings D16 / D17. *)
From FCA Require Import Base.ListSet Model.MVContext Spec.MVLatticeSpec Lemmas.C13.
From Coq Require Import Sorting.Sorted.


Definition mv_wf (K : mvctx) : Prop := Forall (fun c => col_len c = mv_n K) (mv_cols K).

(* every entry of a description dict addresses an existing structure with a description of its kind *)
Definition ddict_ok (K : mvctx) (ds : ddict) : Prop :=
  Forall (fun id => fst id < length (mv_cols K) /\ desc_matches (mv_col K (fst id)) (snd id) = true) ds.

Definition covers_ddict (K : mvctx) (ds : ddict) (g : nat) : bool :=
  forallb (fun id => covers (snd id) (value_at (mv_col K (fst id)) g)) ds.

(* ------------------------------------------------------------------ extension is conjunctive *)
Lemma mv_narrow_filter K ds ext :
  ddict_ok K ds -> mv_narrow K ds ext = filter (covers_ddict K ds) ext.
Proof.
  revert ext. induction ds as [|[i d] rest IH]; intros ext Hok.
  - simpl. symmetry. apply filter_true_all.
  - inversion Hok as [|x l [Hi Hm] Hrest]; subst. cbn [fst snd] in *.
    cbn [mv_narrow].
    rewrite (extension_filter (mv_col K i) d (Some ext) Hm). cbn [default].
    unfold ext_ps_spec.
    assert (E : filter (covers_ddict K ((i, d) :: rest)) ext
                = filter (covers_ddict K rest) (filter (fun g => covers d (value_at (mv_col K i) g)) ext)).
    { rewrite filter_filter'. apply filter_ext_in'. intros g _. reflexivity. }
    rewrite E.
    destruct (filter (fun g => covers d (value_at (mv_col K i) g)) ext) as [|x l] eqn:Ef.
    + reflexivity.
    + apply IH. exact Hrest.
Qed.

Lemma extension_conj_any K ds base :
  ddict_ok K ds ->
  mv_extension_i K ds base = filter (covers_ddict K ds) (default (seq 0 (mv_n K)) base).
Proof.
  intros Hok. unfold mv_extension_i. destruct base as [[|b0 b]|]; cbn [default].
  - reflexivity.
  - apply mv_narrow_filter. exact Hok.
  - apply mv_narrow_filter. exact Hok.
Qed.

Theorem extension_conjunctive K ds base :
  ddict_ok K ds -> opt_in_range (mv_n K) base ->
  mv_extension_i K ds base = filter (covers_ddict K ds) (default (seq 0 (mv_n K)) base).
Proof. intros Hok _. apply extension_conj_any. exact Hok. Qed.

(* ------------------------------------------------------------------ the closure operator *)

Lemma combine_seq_In {A} (l : list A) i x d :
  In (i, x) (combine (seq 0 (length l)) l) <-> i < length l /\ x = nth i l d.
Proof.
  assert (G : forall k, In (i, x) (combine (seq k (length l)) l) <-> k <= i < k + length l /\ x = nth (i - k) l d).
  { induction l as [|y l IH]; intros k; simpl.
    - split; [tauto | intros [H _]; lia].
    - rewrite IH. split.
      + intros [H|[H1 H2]].
        * inversion H; subst. rewrite Nat.sub_diag. split; [lia | reflexivity].
        * split; [lia|]. replace (i - k) with (S (i - S k)) by lia. exact H2.
      + intros [H1 H2]. destruct (Nat.eq_dec i k) as [E|E].
        * left. subst i. rewrite Nat.sub_diag in H2. cbn [nth] in H2. subst x. reflexivity.
        * right. split; [lia|]. replace (i - k) with (S (i - S k)) in H2 by lia. exact H2. }
  rewrite G. rewrite Nat.sub_0_r. split; intros [H1 H2]; split; auto; lia.
Qed.

Lemma intention_i_In K A i d :
  In (i, d) (mv_intention_i K A) <-> i < length (mv_cols K) /\ d = ps_intention (mv_col K i) A.
Proof.
  unfold mv_intention_i.
  rewrite <- (map_length (fun c => ps_intention c A) (mv_cols K)) at 1.
  rewrite (combine_seq_In _ i d (ps_intention (CAttr []) A)). rewrite map_length.
  unfold mv_col. rewrite (map_nth (fun c => ps_intention c A)). tauto.
Qed.

Lemma intention_i_ok K A : ddict_ok K (mv_intention_i K A).
Proof.
  apply Forall_forall. intros [i d] H. apply intention_i_In in H. destruct H as [Hi Hd]. subst.
  cbn [fst snd]. split; [exact Hi | apply intention_matches].
Qed.

Lemma mv_cl_In K A g :
  In g (mv_cl K A) <->
  g < mv_n K /\ forall i, i < length (mv_cols K) ->
                          covers (ps_intention (mv_col K i) A) (value_at (mv_col K i) g) = true.
Proof.
  unfold mv_cl. rewrite extension_conjunctive by (apply intention_i_ok || exact Logic.I).
  cbn [default]. rewrite filter_In, in_seq. unfold covers_ddict. rewrite forallb_forall. split.
  - intros [Hg H]. split; [lia|]. intros i Hi.
    apply (H (i, ps_intention (mv_col K i) A)). apply intention_i_In. tauto.
  - intros [Hg H]. split; [lia|]. intros [i d] Hin. apply intention_i_In in Hin.
    destruct Hin as [Hi Hd]. subst. cbn [fst snd]. apply H. exact Hi.
Qed.

Lemma mv_cl_in_range K A : in_range (mv_n K) (mv_cl K A).
Proof. intros g Hg. apply mv_cl_In in Hg. tauto. Qed.

Theorem closure_extensive K A : in_range (mv_n K) A -> incl A (mv_cl K A).
Proof.
  intros Hr g Hg. apply mv_cl_In. split; [apply Hr; exact Hg|].
  intros i _. apply intention_covers. exact Hg.
Qed.

Theorem closure_monotone K A B :
  A <> [] -> incl A B -> incl (mv_cl K A) (mv_cl K B).
Proof.
  intros HA Hin g Hg. apply mv_cl_In in Hg. destruct Hg as [Hn Hg]. apply mv_cl_In. split; [exact Hn|].
  intros i Hi. apply (intention_least (mv_col K i) A (ps_intention (mv_col K i) B) g HA).
  - apply intention_matches.
  - intros a Ha. apply intention_covers. apply Hin. exact Ha.
  - apply Hg. exact Hi.
Qed.

Theorem closure_idempotent K A :
  A <> [] -> in_range (mv_n K) A -> mv_cl K (mv_cl K A) = mv_cl K A.
Proof.
  intros HA Hr.
  assert (Hne : mv_cl K A <> []).
  { destruct A as [|a A']; [congruence|]. intros E.
    assert (X : In a (mv_cl K (a :: A'))) by (apply closure_extensive; [exact Hr | left; reflexivity]).
    rewrite E in X. destruct X. }
  unfold mv_cl at 1 3.
  rewrite !extension_conjunctive by (apply intention_i_ok || exact Logic.I). cbn [default].
  apply filter_ext_in'. intros g Hg. apply in_seq in Hg.
  apply bool_eq_iff. split; intros H.
  - assert (X : In g (mv_cl K (mv_cl K A))).
    { unfold mv_cl at 1. rewrite extension_conjunctive by (apply intention_i_ok || exact Logic.I).
      apply filter_In. split; [apply in_seq; lia | exact H]. }
    assert (Y : In g (mv_cl K A)).
    { apply mv_cl_In in X. destruct X as [Hn X]. apply mv_cl_In. split; [exact Hn|]. intros i Hi.
      apply (intention_least (mv_col K i) (mv_cl K A) (ps_intention (mv_col K i) A) g Hne).
      - apply intention_matches.
      - intros a Ha. apply mv_cl_In in Ha. destruct Ha as [_ Ha]. apply Ha. exact Hi.
      - apply X. exact Hi. }
    unfold mv_cl in Y. rewrite extension_conjunctive in Y by (apply intention_i_ok || exact Logic.I).
    apply filter_In in Y. tauto.
  - assert (Y : In g (mv_cl K A)).
    { unfold mv_cl. rewrite extension_conjunctive by (apply intention_i_ok || exact Logic.I).
      apply filter_In. split; [apply in_seq; lia | exact H]. }
    assert (X : In g (mv_cl K (mv_cl K A))) by (apply closure_extensive; [apply mv_cl_in_range | exact Y]).
    unfold mv_cl at 1 in X. rewrite extension_conjunctive in X by (apply intention_i_ok || exact Logic.I).
    apply filter_In in X. tauto.
Qed.

Theorem closure_laws K A B :
  A <> [] -> in_range (mv_n K) A ->
  incl A (mv_cl K A) /\ (incl A B -> incl (mv_cl K A) (mv_cl K B)) /\ mv_cl K (mv_cl K A) = mv_cl K A.
Proof.
  intros HA Hr. split; [apply closure_extensive; exact Hr|]. split.
  - apply closure_monotone. exact HA.
  - apply closure_idempotent; assumption.
Qed.

(* ------------------------------------------------------------------ sorted grids *)
Lemma sorted_hd_min h t x : Sorted Z.lt (h :: t) -> In x (h :: t) -> (h <= x)%Z.
Proof.
  intros Hs Hx. apply Sorted_StronglySorted in Hs; [|intros a b c; lia].
  inversion Hs; subst. destruct Hx as [Hx|Hx]; [lia|].
  rewrite Forall_forall in H2. specialize (H2 x Hx). lia.
Qed.

Lemma sorted_last_max l : Sorted Z.lt l -> forall h t, rev l = h :: t -> forall x, In x l -> (x <= h)%Z.
Proof.
  intros Hs. apply Sorted_StronglySorted in Hs; [|intros a b c; lia].
  induction Hs as [|a l' Hs' IH Hall]; intros h t E x Hx; [destruct Hx|].
  simpl in E. destruct (rev l') as [|h' t'] eqn:Er.
  - simpl in E. inversion E; subst. assert (l' = []).
    { rewrite <- (rev_involutive l'), Er. reflexivity. } subst. destruct Hx as [Hx|[]]. lia.
  - simpl in E. inversion E; subst h t. clear E.
    assert (Hh : In h' l'). { apply in_rev. rewrite Er. left. reflexivity. }
    destruct Hx as [Hx|Hx].
    + subst. rewrite Forall_forall in Hall. specialize (Hall h' Hh). lia.
    + apply (IH h' t' eq_refl x Hx).
Qed.

Lemma zmin_of_In l : l <> [] -> In (zmin_of l) l.
Proof.
  destruct l as [|x t]; [congruence|]. intros _. simpl.
  revert x. induction t as [|y t IH]; intros x; simpl; [left; reflexivity|].
  destruct (IH (Z.min x y)) as [H|H].
  - destruct (Z.min_spec x y) as [[_ E]|[_ E]]; [left | right; left]; rewrite <- H; symmetry; exact E.
  - right. right. exact H.
Qed.
Lemma zmax_of_In l : l <> [] -> In (zmax_of l) l.
Proof.
  destruct l as [|x t]; [congruence|]. intros _. simpl.
  revert x. induction t as [|y t IH]; intros x; simpl; [left; reflexivity|].
  destruct (IH (Z.max x y)) as [H|H].
  - destruct (Z.max_spec x y) as [[_ E]|[_ E]]; [right; left | left]; rewrite <- H; symmetry; exact E.
  - right. right. exact H.
Qed.

(* ------------------------------------------------------------------ value sets *)
Lemma ninsert_uniq_In x y l : In y (ninsert_uniq x l) <-> y = x \/ In y l.
Proof.
  induction l as [|z l IH]; simpl; [intuition|].
  destruct (Nat.ltb_spec x z); simpl; [intuition|].
  destruct (Nat.eqb_spec x z); simpl.
  - subst. intuition.
  - rewrite IH. intuition.
Qed.
Lemma nsort_uniq_In y l : In y (nsort_uniq l) <-> In y l.
Proof. induction l as [|x l IH]; simpl; [tauto|]. rewrite ninsert_uniq_In, IH. intuition. Qed.

Lemma filter_in_combinations (p : nat -> bool) l :
  In (filter p l) (combinations l (length (filter p l))).
Proof.
  induction l as [|x t IH]; simpl; [left; reflexivity|].
  destruct (p x); simpl.
  - apply in_or_app. left. apply in_map. exact IH.
  - destruct (length (filter p t)) as [|k] eqn:E.
    + left. destruct (filter p t); [reflexivity | discriminate].
    + apply in_or_app. right. exact IH.
Qed.

Lemma filter_length_le {A} (p : A -> bool) l : length (filter p l) <= length l.
Proof. induction l as [|x l IH]; simpl; [lia|]. destruct (p x); simpl; lia. Qed.

(* ------------------------------------------------------------------ one bit of a binary attribute *)
Lemma nth_map_seq {B} (f : nat -> B) n a d : a < n -> nth a (map f (seq 0 n)) d = f a.
Proof.
  intros H. rewrite (nth_indep _ d (f 0)) by (rewrite map_length, seq_length; exact H).
  rewrite map_nth. rewrite seq_nth by exact H. reflexivity.
Qed.

Lemma bin_attr_bits c d e :
  In (d, e) (ps_bin_attrs c) ->
  e = map (fun g => covers d (value_at c g)) (seq 0 (col_len c)).
Proof.
  intros H. apply bin_attrs_meaning in H. destruct H as [Hm H]. rewrite H. apply bits_of_ext. exact Hm.
Qed.

Lemma bin_attr_bit c d e a :
  In (d, e) (ps_bin_attrs c) -> a < col_len c -> nth a e false = covers d (value_at c a).
Proof.
  intros H Ha. rewrite (bin_attr_bits c d e H).
  apply (nth_map_seq (fun g => covers d (value_at c g))). exact Ha.
Qed.

(* ------------------------------------------------------------------ the binary attributes of a
   structure generate its closure system: a value covered by every binary attribute that covers
   all of A is covered by the intention of A *)
Lemma generate_interval data A g :
  A <> [] -> in_range (length data) A -> g < length data ->
  (forall d e, In (d, e) (ivl_bin_attrs data) ->
               (forall a, In a A -> covers (DIv d) (value_at (CInterval data) a) = true) ->
               covers (DIv d) (value_at (CInterval data) g) = true) ->
  covers (DIv (ivl_intention data A)) (value_at (CInterval data) g) = true.
Proof.
  intros HA Hr Hg H. destruct A as [|g0 rest]; [congruence|]. clear HA.
  rewrite ivl_intention_minmax, covers_iv, ivl_test_alt. cbn [fst snd].
  set (A := g0 :: rest) in *.
  set (mn := zmin_of (map (fun g => fst (iv_at data g)) A)).
  set (mx := zmax_of (map (fun g => snd (iv_at data g)) A)).
  remember (zsort_uniq (map fst data)) as ul eqn:Hul. remember (zsort_uniq (map snd data)) as ur eqn:Hur.
  assert (Hsl : Sorted Z.lt ul) by (rewrite Hul; apply zsort_uniq_sorted).
  assert (Hsr : Sorted Z.lt ur) by (rewrite Hur; apply zsort_uniq_sorted).
  assert (Hul_In : forall y, In y ul <-> In y (map fst data)) by (intros y; rewrite Hul; apply zsort_uniq_In).
  assert (Hur_In : forall y, In y ur <-> In y (map snd data)) by (intros y; rewrite Hur; apply zsort_uniq_In).
  assert (Hmin : forall a, a < length data -> (zmin_of ul <= fst (iv_at data a))%Z).
  { intros a Ha. apply zmin_of_le. apply Hul_In. apply in_map. apply nth_In. exact Ha. }
  assert (Hmax : forall a, a < length data -> (snd (iv_at data a) <= zmax_of ur)%Z).
  { intros a Ha. apply zmax_of_ge. apply Hur_In. apply in_map. apply nth_In. exact Ha. }
  assert (HmnA : forall a, In a A -> (mn <= fst (iv_at data a))%Z).
  { intros a Ha. apply zmin_of_le. apply (in_map (fun g => fst (iv_at data g))). exact Ha. }
  assert (HmxA : forall a, In a A -> (snd (iv_at data a) <= mx)%Z).
  { intros a Ha. apply zmax_of_ge. apply (in_map (fun g => snd (iv_at data g))). exact Ha. }
  assert (Hmn_ul : In mn ul).
  { assert (X : In mn (map (fun g => fst (iv_at data g)) A)) by (apply zmin_of_In; discriminate).
    apply in_map_iff in X. destruct X as [a [E Ha]]. rewrite <- E. apply Hul_In. apply in_map.
    apply nth_In. apply Hr. exact Ha. }
  assert (Hmx_ur : In mx ur).
  { assert (X : In mx (map (fun g => snd (iv_at data g)) A)) by (apply zmax_of_In; discriminate).
    apply in_map_iff in X. destruct X as [a [E Ha]]. rewrite <- E. apply Hur_In. apply in_map.
    apply nth_In. apply Hr. exact Ha. }
  assert (Hlg : In (fst (iv_at data g)) ul) by (apply Hul_In, in_map, nth_In; exact Hg).
  assert (Hrg : In (snd (iv_at data g)) ur) by (apply Hur_In, in_map, nth_In; exact Hg).
  assert (Hbin : ivl_bin_attrs data =
     [(Some (zmin_of ul, zmax_of ur), map (fun _ => true) data)]
     ++ map (fun lb => (Some (lb, zmax_of ur), map (fun v : iv => (lb <=? fst v)%Z) data)) (tl ul)
     ++ map (fun rb => (Some (zmin_of ul, rb), map (fun v : iv => (snd v <=? rb)%Z) data)) (tl (rev ur))
     ++ [(None, map (fun _ => false) data)]) by (unfold ivl_bin_attrs; rewrite <- Hul, <- Hur; reflexivity).
  clear Hul Hur.
  apply andb_true_iff. split; apply Z.leb_le.
  - (* left end *)
    destruct ul as [|h t]; [destruct Hmn_ul|].
    destruct Hmn_ul as [E|Hin].
    + rewrite <- E. apply (sorted_hd_min h t); [exact Hsl | exact Hlg].
    + assert (X : In (Some (mn, zmax_of ur), map (fun v : iv => (mn <=? fst v)%Z) data) (ivl_bin_attrs data)).
      { rewrite Hbin. cbn [tl app]. right. apply in_or_app. left.
        apply (in_map (fun lb => (Some (lb, zmax_of ur), map (fun v : iv => (lb <=? fst v)%Z) data))). exact Hin. }
      specialize (H _ _ X). rewrite covers_iv, ivl_test_alt, andb_true_iff, !Z.leb_le in H. cbn [fst snd] in H.
      apply H. intros a Ha. rewrite covers_iv, ivl_test_alt, andb_true_iff, !Z.leb_le. cbn [fst snd].
      split; [apply HmnA; exact Ha | apply Hmax, Hr; exact Ha].
  - (* right end *)
    assert (Hmx_rev : In mx (rev ur)) by (apply in_rev; rewrite rev_involutive; exact Hmx_ur).
    destruct (rev ur) as [|h t] eqn:Erev; [destruct Hmx_rev|].
    destruct Hmx_rev as [E|Hin].
    + rewrite <- E. apply (sorted_last_max ur Hsr h t Erev). exact Hrg.
    + assert (X : In (Some (zmin_of ul, mx), map (fun v : iv => (snd v <=? mx)%Z) data) (ivl_bin_attrs data)).
      { rewrite Hbin. cbn [tl app]. right. apply in_or_app. right. apply in_or_app. left.
        apply (in_map (fun rb => (Some (zmin_of ul, rb), map (fun v : iv => (snd v <=? rb)%Z) data))). exact Hin. }
      specialize (H _ _ X). rewrite covers_iv, ivl_test_alt, andb_true_iff, !Z.leb_le in H. cbn [fst snd] in H.
      apply H. intros a Ha. rewrite covers_iv, ivl_test_alt, andb_true_iff, !Z.leb_le. cbn [fst snd].
      split; [apply Hmin, Hr; exact Ha | apply HmxA; exact Ha].
Qed.

Lemma generate_set data A g :
  in_range (length data) A -> g < length data ->
  (forall d e, In (d, e) (set_bin_attrs data) ->
               (forall a, In a A -> covers (DSet d) (value_at (CSet data) a) = true) ->
               covers (DSet d) (value_at (CSet data) g) = true) ->
  covers (DSet (Some (set_intention data A))) (value_at (CSet data) g) = true.
Proof.
  intros Hr Hg H. set (U := set_intention data A). set (u := set_uniq_vals data).
  set (comb := filter (fun x => mem x U) u).
  assert (Hrow : forall a, a < length data -> incl (nth a data []) u).
  { intros a Ha x Hx. unfold u, set_uniq_vals. apply nsort_uniq_In. apply in_concat.
    exists (nth a data []). split; [apply nth_In; exact Ha | exact Hx]. }
  assert (X : In (Some comb, map (fun row => set_test comb row) data) (set_bin_attrs data)).
  { unfold set_bin_attrs. fold u. apply in_flat_map. exists (length comb). split.
    - apply in_rev. rewrite rev_involutive. apply in_seq. pose proof (filter_length_le (fun x => mem x U) u).
      fold comb in H0. lia.
    - apply (in_map (fun c => (Some c, map (fun row => set_test c row) data))). apply filter_in_combinations. }
  specialize (H _ _ X). cbn [covers value_at] in *. rewrite subsetb_incl in *.
  intros x Hx. assert (Y : In x comb).
  { apply H; [|exact Hx]. intros a Ha. apply subsetb_incl. intros y Hy. unfold comb. apply filter_In. split.
    - apply (Hrow a); [apply Hr; exact Ha | exact Hy].
    - apply mem_In. unfold U. apply set_intention_In. exists a. split; [exact Ha | exact Hy]. }
  unfold comb in Y. apply filter_In in Y. apply mem_In. tauto.
Qed.

Lemma generate_attr data A g :
  A <> [] ->
  (forall d e, In (d, e) (attr_bin_attrs data) ->
               (forall a, In a A -> covers (DAttr d) (value_at (CAttr data) a) = true) ->
               covers (DAttr d) (value_at (CAttr data) g) = true) ->
  covers (DAttr (attr_intention data A)) (value_at (CAttr data) g) = true.
Proof.
  intros HA H. destruct A as [|g0 rest]; [congruence|]. unfold attr_intention.
  destruct (forallb (attr_at data) (g0 :: rest)) eqn:E; [|reflexivity].
  apply (H true data); [left; reflexivity|]. intros a Ha. rewrite forallb_forall in E. apply (E a Ha).
Qed.

Theorem bin_attrs_generate c A g :
  A <> [] -> in_range (col_len c) A -> g < col_len c ->
  (forall d e, In (d, e) (ps_bin_attrs c) ->
               (forall a, In a A -> covers d (value_at c a) = true) -> covers d (value_at c g) = true) ->
  covers (ps_intention c A) (value_at c g) = true.
Proof.
  intros HA Hr Hg H. destruct c as [data|data|data|data]; cbn [ps_intention col_len] in *.
  - apply generate_interval; try assumption. intros d e Hin. apply (H (DIv d) e).
    cbn [ps_bin_attrs]. apply (in_map (fun p => (DIv (fst p), snd p)) _ (d, e)). exact Hin.
  - rewrite ivn_intention_eq. change (value_at (CIntervalNp data) g) with (value_at (CInterval data) g).
    apply generate_interval; try assumption. intros d e Hin Hall. apply (H (DIv d) e).
    + cbn [ps_bin_attrs]. rewrite ivn_bin_attrs_eq. apply (in_map (fun p => (DIv (fst p), snd p)) _ (d, e)). exact Hin.
    + exact Hall.
  - apply generate_set; try assumption. intros d e Hin. apply (H (DSet d) e).
    cbn [ps_bin_attrs]. apply (in_map (fun p => (DSet (fst p), snd p)) _ (d, e)). exact Hin.
  - apply generate_attr; try assumption. intros d e Hin. apply (H (DAttr d) e).
    cbn [ps_bin_attrs]. apply (in_map (fun p => (DAttr (fst p), snd p)) _ (d, e)). exact Hin.
Qed.

Definition bin_dflt : desc * list bool := (DAttr false, []).

Lemma mv_binarize_height K : height (mv_binarize K) = mv_n K.
Proof. unfold height, mv_binarize. rewrite map_length, seq_length. reflexivity. Qed.

Lemma mv_binarize_row K g :
  g < mv_n K -> row (mv_binarize K) g = map (fun p => nth g (snd p) false) (mv_bin_attrs K).
Proof.
  intros Hg. unfold row, mv_binarize.
  apply (nth_map_seq (fun g => map (fun p => nth g (snd p) false) (mv_bin_attrs K))). exact Hg.
Qed.

Lemma mv_binarize_width K : mv_n K <> 0 -> width (mv_binarize K) = length (mv_bin_attrs K).
Proof.
  intros Hn. unfold width, mv_binarize. destruct (mv_n K) as [|n']; [congruence|].
  simpl. apply map_length.
Qed.

Lemma mv_binarize_wf K : wf (mv_binarize K).
Proof.
  unfold wf. apply Forall_forall. intros r Hr. unfold mv_binarize in Hr. apply in_map_iff in Hr.
  destruct Hr as [g [E Hg]]. apply in_seq in Hg. subst r. rewrite map_length.
  symmetry. apply mv_binarize_width. lia.
Qed.

Lemma mv_binarize_cell K g m :
  g < mv_n K -> m < length (mv_bin_attrs K) ->
  cell (mv_binarize K) g m = nth g (snd (nth m (mv_bin_attrs K) bin_dflt)) false.
Proof.
  intros Hg Hm. unfold cell. rewrite mv_binarize_row by exact Hg.
  rewrite (nth_indep _ false ((fun p : desc * list bool => nth g (snd p) false) bin_dflt))
    by (rewrite map_length; exact Hm).
  apply (map_nth (fun p : desc * list bool => nth g (snd p) false)).
Qed.

Lemma mv_bin_attrs_In K d e :
  In (d, e) (mv_bin_attrs K) <-> exists i, i < length (mv_cols K) /\ In (d, e) (ps_bin_attrs (mv_col K i)).
Proof.
  unfold mv_bin_attrs. rewrite in_flat_map. split.
  - intros [c [Hc H]]. destruct (In_nth _ _ (CAttr []) Hc) as [i [Hi E]]. exists i. unfold mv_col. rewrite E. tauto.
  - intros [i [Hi H]]. exists (mv_col K i). split; [apply nth_In; exact Hi | exact H].
Qed.

Lemma mv_col_len K i : mv_wf K -> i < length (mv_cols K) -> col_len (mv_col K i) = mv_n K.
Proof.
  intros Hwf Hi. unfold mv_wf in Hwf. rewrite Forall_forall in Hwf. apply Hwf. apply nth_In. exact Hi.
Qed.

(* ------------------------------------------------------------------ counts *)
Lemma mv_bin_attrs_length K :
  mv_wf K -> mv_n K <> 0 -> length (mv_bin_attrs K) = mv_n_bin_attrs K.
Proof.
  intros Hwf Hn. unfold mv_bin_attrs, mv_n_bin_attrs. rewrite flat_map_len.
  f_equal. apply map_ext_in. intros c Hc. symmetry. apply bin_attrs_count.
  unfold mv_wf in Hwf. rewrite Forall_forall in Hwf. rewrite (Hwf c Hc). exact Hn.
Qed.

Theorem binarise_counts K :
  mv_wf K -> mv_n K <> 0 ->
  width (mv_binarize K) = mv_n_bin_attrs K /\ height (mv_binarize K) = mv_n K /\
  wf (mv_binarize K) /\ k_onames (mv_bin_context K) = mv_onames K /\
  length (k_anames (mv_bin_context K)) = mv_n_bin_attrs K.
Proof.
  intros Hwf Hn. repeat split.
  - rewrite mv_binarize_width by exact Hn. apply mv_bin_attrs_length; assumption.
  - apply mv_binarize_height.
  - apply mv_binarize_wf.
  - cbn. rewrite seq_length. apply mv_bin_attrs_length; assumption.
Qed.

(* ------------------------------------------------------------------ same closure system *)
Lemma bin_incidence K g m d e :
  mv_wf K -> g < mv_n K -> m < length (mv_bin_attrs K) -> nth m (mv_bin_attrs K) bin_dflt = (d, e) ->
  exists i, i < length (mv_cols K) /\ In (d, e) (ps_bin_attrs (mv_col K i)) /\
            I (mv_binarize K) g m = covers d (value_at (mv_col K i) g).
Proof.
  intros Hwf Hg Hm E.
  assert (Hin : In (d, e) (mv_bin_attrs K)) by (rewrite <- E; apply nth_In; exact Hm).
  apply mv_bin_attrs_In in Hin. destruct Hin as [i [Hi Hin]]. exists i. split; [exact Hi|]. split; [exact Hin|].
  unfold I. rewrite mv_binarize_cell by assumption. rewrite E. cbn [snd].
  apply bin_attr_bit; [exact Hin|]. rewrite mv_col_len by assumption. exact Hg.
Qed.

Theorem binarise_same_closure K A :
  mv_wf K -> A <> [] -> in_range (mv_n K) A ->
  cl_obj (mv_binarize K) A = mv_cl K A.
Proof.
  intros Hwf HA Hr.
  assert (Hn : mv_n K <> 0).
  { destruct A as [|a A']; [congruence|]. specialize (Hr a (or_introl eq_refl)). lia. }
  unfold cl_obj, ext, ext_spec, all_objs. rewrite mv_binarize_height.
  unfold mv_cl. rewrite extension_conjunctive by (apply intention_i_ok || exact Logic.I). cbn [default].
  apply filter_ext_in'. intros g Hg. apply in_seq in Hg. cbn in Hg.
  apply bool_eq_iff. rewrite forallb_forall. unfold covers_ddict. rewrite forallb_forall. split.
  - (* every binary attribute common to A holds for g  ==>  every column's intention covers g *)
    intros H [i d] Hid. apply intention_i_In in Hid. destruct Hid as [Hi Hd]. subst d. cbn [fst snd].
    apply bin_attrs_generate; try exact HA.
    + rewrite mv_col_len by assumption. exact Hr.
    + rewrite mv_col_len by assumption. lia.
    + intros d e Hin Hall.
      assert (Hin' : In (d, e) (mv_bin_attrs K)) by (apply mv_bin_attrs_In; exists i; tauto).
      destruct (In_nth _ _ bin_dflt Hin') as [m [Hm E]].
      assert (Hbit : forall x, x < mv_n K -> I (mv_binarize K) x m = covers d (value_at (mv_col K i) x)).
      { intros x Hx. unfold I. rewrite mv_binarize_cell by assumption. rewrite E. cbn [snd].
        apply bin_attr_bit; [exact Hin|]. rewrite mv_col_len by assumption. exact Hx. }
      rewrite <- (Hbit g) by lia. apply H. apply int_In. split.
      * rewrite mv_binarize_width by exact Hn. exact Hm.
      * intros a Ha. rewrite Hbit by (apply Hr; exact Ha). apply Hall. exact Ha.
  - (* every column's intention covers g  ==>  every binary attribute common to A holds for g *)
    intros H m Hm. apply int_In in Hm. destruct Hm as [Hm Hall].
    rewrite mv_binarize_width in Hm by exact Hn.
    destruct (nth m (mv_bin_attrs K) bin_dflt) as [d e] eqn:E.
    destruct (bin_incidence K g m d e Hwf ltac:(lia) Hm E) as [i [Hi [Hin Hbit]]].
    rewrite Hbit.
    assert (Hmatch : desc_matches (mv_col K i) d = true) by (apply (bin_attrs_meaning _ _ _ Hin)).
    apply (intention_least (mv_col K i) A d g HA Hmatch).
    + intros a Ha.
      assert (Hbit_a : I (mv_binarize K) a m = covers d (value_at (mv_col K i) a)).
      { unfold I. rewrite mv_binarize_cell by (try assumption; apply Hr; exact Ha). rewrite E. cbn [snd].
        apply bin_attr_bit; [exact Hin|]. rewrite mv_col_len by assumption. apply Hr. exact Ha. }
      rewrite <- Hbit_a. apply Hall. exact Ha.
    + apply (H (i, ps_intention (mv_col K i) A)). apply intention_i_In. split; [exact Hi | reflexivity].
Qed.

(* ------------------------------------------------------------------ model closure = spec closure *)
Lemma zmin_spec_of l : zmin_spec l = zmin_of l.
Proof.
  destruct l as [|x t]; [reflexivity|]. simpl. symmetry.
  apply fold_symmetric; intros; lia.
Qed.
Lemma zmax_spec_of l : zmax_spec l = zmax_of l.
Proof.
  destruct l as [|x t]; [reflexivity|]. simpl. symmetry.
  apply fold_symmetric; intros; lia.
Qed.

Lemma covers_int_spec c A v :
  A <> [] -> covers (int_ps_spec c A) v = covers (ps_intention c A) v.
Proof.
  intros HA. rewrite ps_intention_twin. destruct A as [|g0 rest]; [congruence|].
  destruct c as [data|data|data|data]; cbn [pure_twin ps_intention int_ps_spec].
  1,2: rewrite ivl_intention_minmax, zmin_spec_of, zmax_spec_of;
       replace (lefts _ (g0 :: rest)) with (map (fun g => fst (iv_at data g)) (g0 :: rest))
         by (apply map_ext; intros g; unfold iv_at; cbn [value_at]; destruct (nth g data (0%Z, 0%Z)); reflexivity);
       replace (rights _ (g0 :: rest)) with (map (fun g => snd (iv_at data g)) (g0 :: rest))
         by (apply map_ext; intros g; unfold iv_at; cbn [value_at]; destruct (nth g data (0%Z, 0%Z)); reflexivity);
       reflexivity.
  - destruct v as [v|row|b]; try reflexivity. cbn [covers]. apply bool_eq_iff. rewrite !subsetb_incl.
    assert (E : forall x, In x (concat (map (fun g => nth g data []) (g0 :: rest)))
                          <-> In x (set_intention data (g0 :: rest))).
    { intros x. rewrite set_intention_In, in_concat. split.
      - intros [l [Hl Hx]]. apply in_map_iff in Hl. destruct Hl as [g [E Hg]]. subst l. exists g. tauto.
      - intros [g [Hg Hx]]. exists (nth g data []). split; [apply in_map_iff; exists g; tauto | exact Hx]. }
    split; intros H x Hx; apply E, H, Hx.
  - reflexivity.
Qed.

Lemma forallb_combine_seq {A B} (Q : A -> B -> bool) (f : A -> B) (l pre : list A) dflt :
  forallb (fun id => Q (nth (fst id) (pre ++ l) dflt) (snd id)) (combine (seq (length pre) (length l)) (map f l))
  = forallb (fun c => Q c (f c)) l.
Proof.
  revert pre. induction l as [|x l IH]; intros pre; [reflexivity|].
  cbn [length seq map combine forallb fst snd]. rewrite app_nth2 by lia. rewrite Nat.sub_diag. cbn [nth].
  f_equal. specialize (IH (pre ++ [x])). rewrite app_length in IH. cbn [length] in IH.
  rewrite Nat.add_1_r in IH. rewrite <- IH. apply forallb_ext_in. intros id _. rewrite <- app_assoc. reflexivity.
Qed.

Lemma forallb_combine_map {A B} (P : A -> B -> bool) (h : A -> B) (l : list A) :
  forallb (fun cd => P (fst cd) (snd cd)) (combine l (map h l)) = forallb (fun c => P c (h c)) l.
Proof. induction l as [|x l IH]; simpl; [reflexivity|]. rewrite IH. reflexivity. Qed.

Lemma covers_ddict_spec K A g :
  covers_ddict K (mv_intention_i K A) g = mv_covers (mv_cols K) (mv_int_spec (mv_cols K) A) g.
Proof.
  unfold covers_ddict, mv_intention_i, mv_covers, mv_col.
  pose proof (forallb_combine_seq (fun c d => covers d (value_at c g)) (fun c => ps_intention c A)
                                  (mv_cols K) [] (CAttr [])) as X.
  cbn [app length] in X. rewrite X. clear X.
  destruct A as [|g0 rest].
  - cbn [mv_int_spec].
    rewrite (forallb_combine_map (fun c d => covers d (value_at c g)) empty_convention).
    apply forallb_ext_in. intros c _. rewrite empty_convention_pinned. reflexivity.
  - cbn [mv_int_spec].
    rewrite (forallb_combine_map (fun c d => covers d (value_at c g)) (fun c => int_ps_spec c (g0 :: rest))).
    apply forallb_ext_in. intros c _. symmetry. apply covers_int_spec. discriminate.
Qed.

Theorem model_closure_is_spec K A :
  mv_cl K A = mv_cl_spec (mv_cols K) (mv_n K) A.
Proof.
  unfold mv_cl, mv_cl_spec, mv_ext_spec.
  rewrite extension_conjunctive by (apply intention_i_ok || exact Logic.I). cbn [default].
  apply filter_ext_in'. intros g _. apply covers_ddict_spec.
Qed.

(* ------------------------------------------------------------------ the two open findings *)
Definition K16 : mvctx := mkMV 2 [CAttr [true; false]] [0; 1] [0] [0].
Definition K17 : mvctx := mkMV 1 [CAttr [false]] [0] [0] [0].

Lemma K16_wf : mv_wf K16. Proof. repeat constructor. Qed.
Lemma K17_wf : mv_wf K17. Proof. repeat constructor. Qed.

(* D16: {0} is closed (its closure is itself, with description True) but the object-wise miner,
   started from the conventional closure of the empty set = all objects, never yields it *)
Theorem objectwise_refuted :
  exists K, mv_wf K /\ guard_D16 K = false /\
            mv_cl K [0] = [0] /\
            In [0] (mv_extents_spec (mv_cols K) (mv_n K)) /\
            ~ In [0] (map pc_ext (mv_cbo_objectwise K)) /\
            ~ In [0] (map pc_ext (mv_close_by_one K 0)).
Proof.
  exists K16. split; [exact K16_wf|]. repeat split; try (vm_compute; reflexivity).
  - vm_compute. tauto.
  - vm_compute. intros [H|[]]. discriminate.
  - vm_compute. intros [H|[]]. discriminate.
Qed.

(* D17: on one all-False attribute column the binarising path yields the extent {0} twice and
   the lattice constructor fails, while the object-wise path builds the lattice; on K16 both
   paths succeed but return different concept sets (D16) *)
Theorem paths_agree_refuted :
  (exists K, mv_wf K /\ guard_D17 K = false /\
             map pc_ext (mv_close_by_one K 1000) = [[0]; [0]] /\
             mv_from_context K 1000 = None /\ exists cs, mv_from_context K 0 = Some cs) /\
  (exists K, mv_wf K /\ guard_D16 K = false /\ guard_D17 K = true /\
             exists c1 c2, mv_from_context K 0 = Some c1 /\ mv_from_context K 1000 = Some c2 /\
                           length c1 <> length c2).
Proof.
  split.
  - exists K17. split; [exact K17_wf|]. repeat split; try (vm_compute; reflexivity).
    eexists. vm_compute. reflexivity.
  - exists K16. split; [exact K16_wf|]. repeat split; try (vm_compute; reflexivity).
    eexists. eexists. repeat split; try (vm_compute; reflexivity). vm_compute. discriminate.
Qed.
